import Mdns.Lemmas.ClientKept
/-
  C13 on the client model, the time-out case: after `SearchTimeout` / `SearchStopped` the queued
  retransmission of the search stays in the queue until its time.  It is inert - it does nothing
  while no search for the name is open, and a new search for the name purges it - so the channel
  stays silent (`Stale`).
-/
namespace Mdns.Client
open Mdns Mdns.Rec Mdns.Cache

/-- Nobody reports to `ch` except queued retransmissions of a hostname search for `key` that has
    ended; and either no search for `key` is open, or no such retransmission is queued. -/
structure Stale (ch : Nat) (key : BList) (s : State) : Prop where
  queriers : ∀ q ∈ s.queriers, q.2 ≠ ch
  resolvers : ∀ q ∈ s.resolvers, q.2.1 ≠ ch
  reruns : ∀ r ∈ s.reruns, rchan r.cmd = some ch → ∃ h d, r.cmd = .resolveHost h d ch ∧ lower h = key
  closed : (∀ q ∈ s.resolvers, q.1 ≠ key) ∨ ∀ r ∈ s.reruns, rchan r.cmd ≠ some ch

theorem rchan_of_rkey_none {c : RCmd} (h : rkey c = none) : rchan c = none := by
  cases c <;> simp [rkey] at h <;> rfl

theorem rchan_eq_of_rkey {c : RCmd} {x : Nat × BList × Nat} (h : rkey c = some x) : rchan c = some x.2.2 := by
  cases c <;> simp [rkey] at h <;> (subst h; rfl)

theorem Stale.basic {ch : Nat} {key : BList} {s : State} (h : Stale ch key s) :
    SInv (fun q => q.2 ≠ ch) (fun q => q.2.1 ≠ ch) (fun _ => True) s :=
  ⟨h.queriers, h.resolvers, fun _ _ => trivial⟩

/-- a step that starts no search on `ch`, opens no search for `key`, and queues nothing on `ch` -/
theorem Stale.step {ch : Nat} {key : BList} {now : Nat} {cmds : List Command} {KeyOK : Option (Nat × BList × Nat) → Prop}
    {OK : Nat → Prop} {s s' : State} (hst : Step now cmds KeyOK OK s s') (h : Stale ch key s)
    (hc : ∀ c ∈ cmds, cchan c ≠ some ch) (hckey : ∀ h0 ch0 t, Command.resolveHost h0 ch0 t ∈ cmds → lower h0 ≠ key)
    (hk : ∀ k, KeyOK k → ∀ x, k = some x → x.2.2 ≠ ch) : Stale ch key s' := by
  have hnew : ∀ r ∈ s'.reruns, r ∈ s.reruns ∨ rchan r.cmd ≠ some ch := by
    intro r hr
    rcases hst.reruns r hr with h1 | ⟨_, _, _, h4⟩
    · exact Or.inl h1
    · right
      cases hk' : rkey r.cmd with
      | none => rw [rchan_of_rkey_none hk']; simp
      | some x =>
        rw [rchan_eq_of_rkey hk']
        intro he
        exact hk _ h4 x hk' (Option.some.inj he)
  refine ⟨?_, ?_, ?_, ?_⟩
  · intro q hq
    rcases hst.queriers q hq with h1 | ⟨co, h1⟩
    · exact h.queriers q h1
    · have := hc _ h1
      simpa [cchan] using this
  · intro q hq
    rcases hst.resolvers q hq with h1 | ⟨h0, t, h1, _⟩
    · exact h.resolvers q h1
    · have := hc _ h1
      simpa [cchan] using this
  · intro r hr hch
    rcases hnew r hr with h1 | h1
    · exact h.reruns r h1 hch
    · exact absurd hch h1
  · rcases h.closed with h1 | h1
    · left
      intro q hq
      rcases hst.resolvers q hq with h2 | ⟨h0, t, h2, h3, _⟩
      · exact h1 q h2
      · rw [h3]
        exact hckey h0 q.2.1 t h2
    · right
      intro r hr
      rcases hnew r hr with h2 | h2
      · exact h1 r h2
      · exact h2

/-- a step without commands that queues only follow-ups -/
theorem Stale.step_quiet {ch : Nat} {key : BList} {now : Nat} {OK : Nat → Prop} {s s' : State}
    (hst : Step now [] (fun k => k = none) OK s s') (h : Stale ch key s) : Stale ch key s' :=
  Stale.step hst h (fun _ hc => by cases hc) (fun _ _ _ hc => by cases hc) (fun k hk x hx => by rw [hk] at hx; cases hx)

theorem Stale.of_sub {ch : Nat} {key : BList} {s s' : State} (h : Stale ch key s) (hq : ∀ q ∈ s'.queriers, q ∈ s.queriers)
    (hv : ∀ q ∈ s'.resolvers, q ∈ s.resolvers) (hr : ∀ r ∈ s'.reruns, r ∈ s.reruns) : Stale ch key s' :=
  ⟨fun q h1 => h.queriers q (hq q h1), fun q h1 => h.resolvers q (hv q h1), fun r h1 => h.reruns r (hr r h1),
   h.closed.imp (fun h1 q h2 => h1 q (hv q h2)) (fun h1 r h2 => h1 r (hr r h2))⟩

/-! ### commands -/

theorem stale_execCommand (ch : Nat) (key : BList) (s : State) (now : Nat) (c : Command) (hc : cchan c ≠ some ch)
    (h : Stale ch key s) : Stale ch key (execCommand s now c).1 := by
  by_cases hkey : ∃ h0 ch0 t, c = .resolveHost h0 ch0 t ∧ lower h0 = key
  · -- a new search for the name: the stale re-runs are purged
    obtain ⟨h0, ch0, t, rfl, hk⟩ := hkey
    have hch0 : ch0 ≠ ch := by simpa [cchan] using hc
    have hres := execResolveHost_new_resolvers s now h0 1 ch0 t
    have hrr := execResolveHost_new_reruns s now h0 1 ch0 t
    have hq : (execCommand s now (.resolveHost h0 ch0 t)).1.queriers = s.queriers :=
      execCommand_queriers_other s now _ (fun _ _ _ e => by cases e) (fun _ e => by cases e)
    -- the re-runs afterwards: old ones that are not of this name, or the new one on `ch0`
    have hrr' : ∀ r ∈ (execResolveHost s now false h0 1 ch0 t).1.reruns, rchan r.cmd ≠ some ch := by
      intro r hr hch
      have hmem : r ∈ s.reruns.filter (fun r => !isResolveOf (lower h0) r) ∨
          r.cmd = .resolveHost h0 (Sched.nextDelay 1) ch0 := by
        unfold execResolveHost at hr
        simp only [Bool.false_and, Bool.false_eq_true, if_false] at hr
        cases t with
        | none =>
          simp only [Option.map_none] at hr
          split at hr
          · simp only [addRerun, List.mem_append, List.mem_singleton] at hr
            rcases hr with hr | rfl
            · exact Or.inl hr
            · exact Or.inr rfl
          · exact Or.inl hr
        | some t0 =>
          simp only [Option.map_some] at hr
          split at hr
          · simp only [addRerun, List.mem_append, List.mem_singleton] at hr
            rcases hr with hr | rfl
            · exact Or.inl hr
            · exact Or.inr rfl
          · exact Or.inl hr
      rcases hmem with hm | hm
      · obtain ⟨h1, h2⟩ := List.mem_filter.mp hm
        obtain ⟨h', d, hcmd, hlow⟩ := h.reruns r h1 hch
        obtain ⟨n, c'⟩ := r
        simp only at hcmd
        subst hcmd
        simp [isResolveOf, hlow, hk] at h2
      · rw [hm] at hch
        simp only [rchan, Option.some.injEq] at hch
        exact hch0 hch
    refine ⟨?_, ?_, ?_, Or.inr hrr'⟩
    · rw [hq]
      exact h.queriers
    · show ∀ q ∈ (execResolveHost s now false h0 1 ch0 t).1.resolvers, q.2.1 ≠ ch
      rw [hres]
      intro q hq'
      rcases List.mem_cons.mp hq' with rfl | hq'
      · exact hch0
      · exact h.resolvers q (List.mem_filter.mp hq').1
    · intro r hr hch
      exact absurd hch (hrr' r hr)
  · -- any other command: generic
    have hst := step_execCommand (now := now) (cmds := [c]) (KeyOK := fun k => k = none ∨ k = ckey c) (OK := fun _ => True)
      s c (by simp) (fun _ _ => trivial) (Or.inl rfl) (Or.inr rfl)
    refine Stale.step hst h ?_ ?_ ?_
    · intro c' hc'
      simp only [List.mem_singleton] at hc'
      exact hc' ▸ hc
    · intro h0 ch0 t hm he
      simp only [List.mem_singleton] at hm
      exact hkey ⟨h0, ch0, t, hm.symm, he⟩
    · rintro k (rfl | rfl) x hx
      · cases hx
      · cases c <;> simp [ckey] at hx <;> simp [cchan] at hc <;> (subst hx; simpa using hc)

/-- the command phase: nothing on `ch`, still stale -/
theorem stale_runCommands (ch : Nat) (key : BList) (now : Nat) : ∀ (l : List Command) (s : State),
    (∀ c ∈ l, cchan c ≠ some ch) → Stale ch key s →
    (∀ e, Out.event ch e ∉ (runCommands s now l).2) ∧ Stale ch key (runCommands s now l).1
  | [], s, _, h => ⟨fun _ hm => (by cases hm), h⟩
  | c :: rest, s, hc, h => by
    have h1 := stale_execCommand ch key s now c (hc c List.mem_cons_self) h
    obtain ⟨h2, h3⟩ := stale_runCommands ch key now rest _ (fun c' hc' => hc c' (List.mem_cons_of_mem _ hc')) h1
    simp only [runCommands]
    refine ⟨?_, h3⟩
    intro e he
    rcases List.mem_append.mp he with he | he
    · exact no_event_of_chanFree ch s [c] [] e h.basic
        (fun c' hc' => by simp only [List.mem_singleton] at hc'; exact hc' ▸ hc c List.mem_cons_self)
        (fun _ hm => by cases hm) (fun _ hm => by cases hm) (origin_execCommand s [c] [] now c (by simp) _ he)
    · exact h2 e he

/-! ### the re-run loop -/

theorem rchan_of_class {c c' : RCmd} (h : rclass c = rclass c') : rchan c = rchan c' := by
  cases c <;> cases c' <;> simp [rclass] at h <;> simp [rchan, h]

theorem stale_runReruns (ch : Nat) (key : BList) (now : Nat) : ∀ (fuel : Nat) (keep rest : List Rerun) (st : State),
    st.reruns = [] → Stale ch key { st with reruns := keep ++ rest } →
    (∀ e, Out.event ch e ∉ (runReruns st now fuel keep rest).2) ∧ Stale ch key (runReruns st now fuel keep rest).1
  | 0, keep, rest, st, hs, h => by
    refine ⟨fun _ hm => (by cases hm), ?_⟩
    simpa [runReruns, hs] using h
  | _ + 1, keep, [], st, hs, h => by
    refine ⟨fun _ hm => (by cases hm), ?_⟩
    simpa [runReruns, hs] using h
  | fuel + 1, keep, r :: rest, st, hs, h => by
    unfold runReruns
    split
    · by_cases hch : rchan r.cmd = some ch
      · -- the stale re-run: the search is gone, it does nothing
        obtain ⟨h0, d, hcmd, hlow⟩ := h.reruns r (by simp) hch
        have hnone : ∀ q ∈ st.resolvers, q.1 ≠ key := by
          rcases h.closed with h1 | h1
          · exact h1
          · exact absurd hch (h1 r (by simp))
        have hgone : (st.resolvers.any (·.1 == lower h0)) = false := by
          rw [List.any_eq_false]
          intro q hq
          have := hnone q hq
          rw [hlow]
          simpa using this
        have hex : execRerun { st with reruns := [] } now r.cmd = ({ st with reruns := [] }, []) := by
          rw [hcmd]
          simp [execRerun, execResolveHost, hgone]
        simp only [hex, List.append_nil, List.nil_append]
        apply stale_runReruns ch key now fuel keep rest { st with reruns := [] } rfl
        exact h.of_sub (fun _ hq => hq) (fun _ hq => hq) (fun x hx => by
          simp only [List.mem_append, List.mem_cons] at hx ⊢
          rcases hx with hx | hx
          · exact Or.inl hx
          · exact Or.inr (Or.inr hx))
      · -- another re-run: its events and what it queues are not on `ch`
        have hq1 : (execRerun { st with reruns := [] } now r.cmd).1.queriers = st.queriers := by
          have := runReruns_queriers now 1 [] [⟨0, r.cmd⟩] st
          simpa [runReruns] using this
        have hv1 : (execRerun { st with reruns := [] } now r.cmd).1.resolvers = st.resolvers :=
          execRerun_resolvers _ now r.cmd
        have hnewch : ∀ x ∈ (execRerun { st with reruns := [] } now r.cmd).1.reruns, rchan x.cmd ≠ some ch := by
          intro x hx
          rw [rchan_of_class (execRerun_new_class _ rfl now r.cmd x hx)]
          exact hch
        have hV : Stale ch key { (execRerun { st with reruns := [] } now r.cmd).1 with
            reruns := keep ++ (rest ++ (execRerun { st with reruns := [] } now r.cmd).1.reruns) } := by
          refine ⟨?_, ?_, ?_, ?_⟩
          · intro q hq
            exact h.queriers q (by simpa [hq1] using hq)
          · intro q hq
            exact h.resolvers q (by simpa [hv1] using hq)
          · intro x hx hxc
            simp only [List.mem_append] at hx
            rcases hx with hx | hx | hx
            · exact h.reruns x (by simp [hx]) hxc
            · exact h.reruns x (by simp [hx]) hxc
            · exact absurd hxc (hnewch x hx)
          · rcases h.closed with h1 | h1
            · left
              intro q hq
              exact h1 q (by simpa [hv1] using hq)
            · right
              intro x hx
              simp only [List.mem_append] at hx
              rcases hx with hx | hx | hx
              · exact h1 x (by simp [hx])
              · exact h1 x (by simp [hx])
              · exact hnewch x hx
        obtain ⟨h2, h3⟩ := stale_runReruns ch key now fuel keep
          (rest ++ (execRerun { st with reruns := [] } now r.cmd).1.reruns)
          { (execRerun { st with reruns := [] } now r.cmd).1 with reruns := [] } rfl hV
        refine ⟨?_, h3⟩
        intro e he
        rcases List.mem_append.mp he with he | he
        · refine no_event_of_chanFree ch { st with reruns := [] } [] [rclass r.cmd] e
            ⟨h.queriers, h.resolvers, fun _ _ => trivial⟩ (fun _ hm => by cases hm) ?_ ?_
            (origin_execRerun { st with reruns := [] } now r.cmd _ he)
          · intro ty hm
            simp only [List.mem_singleton] at hm
            apply hch
            cases hc : r.cmd <;> simp [hc, rclass] at hm
            obtain ⟨rfl, rfl⟩ := hm
            rfl
          · intro h0 hm
            simp only [List.mem_singleton] at hm
            apply hch
            cases hc : r.cmd <;> simp [hc, rclass] at hm
            obtain ⟨rfl, rfl⟩ := hm
            rfl
        · exact h2 e he
    · apply stale_runReruns ch key now fuel (keep ++ [r]) rest st hs
      simpa using h

/-! ### one iteration -/

theorem stale_tail (ch : Nat) (key : BList) (x : State) (now : Nat) (post : List Command) (h : Stale ch key x)
    (hc : ∀ c ∈ post, cchan c ≠ some ch) :
    (∀ e, Out.event ch e ∉ tailOuts x now post) ∧ Stale ch key (runIpCheck (tailState x now post) now) := by
  obtain ⟨q1, s1⟩ := stale_runCommands ch key now post x hc h
  -- re-runs
  obtain ⟨q2, s2⟩ := stale_runReruns ch key now ((runCommands x now post).1.reruns.length * 2 + 2) []
    (runCommands x now post).1.reruns { (runCommands x now post).1 with reruns := [] } rfl (by simpa using s1)
  have s2' : Stale ch key (rerunPhase (runCommands x now post).1 now).1 := s2
  -- refresh
  have s3 : Stale ch key (refreshActive (rerunPhase (runCommands x now post).1 now).1 now).1 :=
    s2'.of_sub (fun _ hq => hq) (fun _ hq => hq) (fun _ hr => hr)
  have s4 : Stale ch key (refreshResolvers (refreshActive (rerunPhase (runCommands x now post).1 now).1 now).1 now).1 :=
    s3.of_sub (fun _ hq => hq) (fun _ hq => hq) (fun _ hr => hr)
  have s5 : Stale ch key (evictServicesPhase (refreshResolvers (refreshActive (rerunPhase (runCommands x now post).1
      now).1 now).1 now).1 now).1 :=
    s4.of_sub (fun _ hq => hq) (fun _ hq => hq) (fun _ hr => hr)
  have s6 : Stale ch key (tailState x now post) :=
    Stale.step_quiet (step_evictAddrPhase (now := now) (cmds := []) (KeyOK := fun k => k = none) (OK := fun _ => True) _
      trivial rfl) s5
  refine ⟨?_, ?_⟩
  · intro e he
    unfold tailOuts at he
    simp only [List.mem_append] at he
    have quiet : ∀ (y : State), Stale ch key y → ∀ outs : List Out, AllOrigin y [] [] outs → Out.event ch e ∉ outs :=
      fun y hy outs ho hm => no_event_of_chanFree ch y [] [] e hy.basic (fun _ h' => by cases h') (fun _ h' => by cases h')
        (fun _ h' => by cases h') (ho _ hm)
    rcases he with ((((he | he) | he) | he) | he) | he
    · exact q1 e he
    · exact q2 e he
    · exact quiet _ s2' _ (origin_refreshActive _ [] [] now) he
    · exact quiet _ s3 _ (origin_refreshResolvers _ [] [] now) he
    · exact quiet _ s4 _ (origin_evictServicesPhase _ [] [] now) he
    · exact quiet _ s5 _ (origin_evictAddrPhase _ [] [] now) he
  · obtain ⟨e1, e2, e3⟩ := runIpCheck_searches (tailState x now post) now
    exact s6.of_sub (fun q hq => e1 ▸ hq) (fun q hq => e2 ▸ hq) (fun r hr => e3 ▸ hr)

theorem stale_preCommands (ch : Nat) (key : BList) (s : State) (now : Nat) (pkts : List Packet) (h : Stale ch key s) :
    (∀ e, Out.event ch e ∉ (ingress s now pkts).2 ++ (runTimeouts (popTimers (ingress s now pkts).1 now) now).2) ∧
    Stale ch key (preCommands s now pkts) := by
  have h1 : Stale ch key (ingress s now pkts).1 :=
    Stale.step_quiet (step_ingress (now := now) (cmds := []) (KeyOK := fun k => k = none) (OK := fun _ => True) rfl pkts s
      (fun _ _ => trivial)) h
  have h2 : Stale ch key (popTimers (ingress s now pkts).1 now) :=
    h1.of_sub (fun _ hq => hq) (fun _ hq => hq) (fun _ hr => hr)
  refine ⟨?_, ?_⟩
  · intro e he
    rcases List.mem_append.mp he with he | he
    · exact no_event_of_chanFree ch s [] [] e h.basic (fun _ h' => by cases h') (fun _ h' => by cases h')
        (fun _ h' => by cases h') (origin_ingress [] [] now pkts s _ he)
    · exact no_event_of_chanFree ch _ [] [] e h2.basic (fun _ h' => by cases h') (fun _ h' => by cases h')
        (fun _ h' => by cases h') (origin_runTimeouts _ [] [] now _ he)
  · exact h2.of_sub (fun _ hq => hq) (fun q hq => (List.mem_filter.mp hq).1) (fun _ hr => hr)

/-- **a stale channel stays silent through an iteration** whose commands do not mention it -/
theorem stale_iter (ch : Nat) (key : BList) (s : State) (now : Nat) (pkts : List Packet) (cmds : List Command)
    (h : Stale ch key s) (hc : ∀ c ∈ cmds, cchan c ≠ some ch) :
    (∀ e, Out.event ch e ∉ (Client.iter s now pkts cmds).2) ∧ Stale ch key (Client.iter s now pkts cmds).1 := by
  obtain ⟨q0, h0⟩ := stale_preCommands ch key s now pkts h
  obtain ⟨q1, h1⟩ := stale_tail ch key _ now cmds h0 hc
  rw [(iter_tail s now pkts cmds).1]
  refine ⟨?_, h1⟩
  intro e he
  rw [(iter_tail s now pkts cmds).2] at he
  rcases List.mem_append.mp he with he | he
  · exact q0 e he
  · exact q1 e he

/-! ### the names of the open hostname searches are distinct -/

def ResolverKeysNodup (s : State) : Prop := (s.resolvers.map (·.1)).Nodup

theorem resolverKeys_execCommand (s : State) (now : Nat) (c : Command) (h : ResolverKeysNodup s) :
    ResolverKeysNodup (execCommand s now c).1 := by
  unfold ResolverKeysNodup at *
  cases c with
  | resolveHost h0 ch t =>
    show ((execResolveHost s now false h0 1 ch t).1.resolvers.map (·.1)).Nodup
    rw [execResolveHost_new_resolvers]
    simp only [List.map_cons, List.nodup_cons]
    refine ⟨?_, h.sublist (List.Sublist.map _ List.filter_sublist)⟩
    intro hm
    obtain ⟨q, hq, hk⟩ := List.mem_map.mp hm
    have := (List.mem_filter.mp hq).2
    simp [hk] at this
  | stopResolve h0 =>
    simp only [execCommand, execStopResolve]
    split
    · exact h
    · exact h.sublist (List.Sublist.map _ List.filter_sublist)
  | browse ty ch co =>
    rw [execCommand_resolvers_other s now _ (fun _ _ _ e => by cases e) (fun _ e => by cases e)]
    exact h
  | stopBrowse ty =>
    rw [execCommand_resolvers_other s now _ (fun _ _ _ e => by cases e) (fun _ e => by cases e)]
    exact h
  | ipInterval ms => exact h
  | verify inst t =>
    rw [execCommand_resolvers_other s now _ (fun _ _ _ e => by cases e) (fun _ e => by cases e)]
    exact h
  | metrics ch => exact h
  | acceptUnsolicited on => exact h

theorem resolverKeys_runCommands (now : Nat) : ∀ (l : List Command) (s : State), ResolverKeysNodup s →
    ResolverKeysNodup (runCommands s now l).1
  | [], _, h => h
  | c :: rest, s, h => by
    simp only [runCommands]
    exact resolverKeys_runCommands now rest _ (resolverKeys_execCommand s now c h)

theorem resolverKeys_iter (s : State) (now : Nat) (pkts : List Packet) (cmds : List Command) (h : ResolverKeysNodup s) :
    ResolverKeysNodup (Client.iter s now pkts cmds).1 := by
  unfold ResolverKeysNodup
  rw [iter_resolvers]
  apply resolverKeys_runCommands now cmds
  unfold ResolverKeysNodup
  simp only [preCommands, runTimeouts, popTimers, ingress_resolvers]
  exact h.sublist (List.Sublist.map _ List.filter_sublist)

/-! ### the iteration of the time-out -/

/-- **The time-out ends the search for good.**  The hostname search for `key` is the only user
    of `ch`, it is open with deadline `dl`, and an iteration runs at `now ≥ dl` (its commands do
    not mention `ch`).  Then the iteration emits `SearchTimeout` immediately followed by
    `SearchStopped` on `ch`, nothing on `ch` after that, and leaves the channel stale: only the
    inert retransmission of the ended search may still be queued for it. -/
theorem timeout_final (ch : Nat) (key : BList) (dl : Nat) (s : State) (now : Nat) (pkts : List Packet) (cmds : List Command)
    (ho : OnlyHost ch key s) (hD : ∀ r ∈ s.reruns, DelayOk r) (hs : Searching key ch (some dl) s)
    (hn : ResolverKeysNodup s) (hdue : dl ≤ now) (hc : ∀ c ∈ cmds, cchan c ≠ some ch) :
    ∃ a b, (Client.iter s now pkts cmds).2 = a ++ Out.event ch (.htimeout key) :: Out.event ch (.hstopped key) :: b ∧
      (∀ e, Out.event ch e ∉ b) ∧ Stale ch key (Client.iter s now pkts cmds).1 := by
  -- the resolver list around the entry of the search
  have hmem := List.mem_of_find?_eq_some hs
  obtain ⟨l1, l2, hl⟩ := List.append_of_mem hmem
  have hkeys : ∀ q ∈ l1 ++ l2, q.1 ≠ key := by
    unfold ResolverKeysNodup at hn
    rw [hl] at hn
    simp only [List.map_append, List.map_cons] at hn
    have hn' := List.nodup_append.mp hn
    intro q hq hk
    rcases List.mem_append.mp hq with hq | hq
    · exact hn'.2.2 _ (List.mem_map_of_mem hq) _ List.mem_cons_self hk
    · have := (List.nodup_cons.mp hn'.2.1).1
      exact this (hk ▸ List.mem_map_of_mem hq)
  obtain ⟨ho1, hD1⟩ := SInv.preCommands ho now pkts hD (fun x hx => by cases hx)
  -- the channel of every other search is another one
  have hother : ∀ q ∈ l1 ++ l2, q.2.1 ≠ ch := by
    intro q hq he
    have hq' : q ∈ s.resolvers := by
      rw [hl]
      rcases List.mem_append.mp hq with hq | hq
      · exact List.mem_append_left _ hq
      · exact List.mem_append_right _ (List.mem_cons_of_mem _ hq)
    exact hkeys q hq (ho.resolvers q hq' he)
  -- stale after the time-out phase
  have hstale : Stale ch key (preCommands s now pkts) := by
    refine ⟨ho1.queriers, ?_, ?_, Or.inl ?_⟩
    · intro q hq
      simp only [preCommands, runTimeouts, popTimers, ingress_resolvers, List.mem_filter] at hq
      obtain ⟨hq1, hq2⟩ := hq
      rw [hl] at hq1
      simp only [List.mem_append, List.mem_cons] at hq1
      rcases hq1 with hq1 | rfl | hq1
      · exact hother q (List.mem_append_left _ hq1)
      · simp [hdue] at hq2
      · exact hother q (List.mem_append_right _ hq1)
    · intro r hr hch
      cases hk : rkey r.cmd with
      | none => rw [rchan_of_rkey_none hk] at hch; cases hch
      | some x =>
        have hx := rchan_eq_of_rkey hk
        rw [hx] at hch
        obtain ⟨h1, h2⟩ := ho1.reruns r hr x hk (Option.some.inj hch)
        obtain ⟨n, c⟩ := r
        cases c <;> simp [rkey] at hk
        · subst hk
          simp at h1
        · subst hk
          rename_i host delay ch'
          simp only at h2 hch
          have hcc : ch' = ch := Option.some.inj hch
          subst hcc
          exact ⟨host, delay, rfl, h2⟩
    · intro q hq
      simp only [preCommands, runTimeouts, popTimers, ingress_resolvers, List.mem_filter] at hq
      obtain ⟨hq1, hq2⟩ := hq
      rw [hl] at hq1
      simp only [List.mem_append, List.mem_cons] at hq1
      rcases hq1 with hq1 | rfl | hq1
      · exact hkeys q (List.mem_append_left _ hq1)
      · simp [hdue] at hq2
      · exact hkeys q (List.mem_append_right _ hq1)
  obtain ⟨qt, st⟩ := stale_tail ch key _ now cmds hstale hc
  -- the outputs of the time-out phase
  have hto : (runTimeouts (popTimers (ingress s now pkts).1 now) now).2 =
      ((l1.filter (fun r => match r.2.2 with | some t => decide (now ≥ t) | none => false)).flatMap fun r =>
        [Out.event r.2.1 (.htimeout r.1), Out.event r.2.1 (.hstopped r.1)]) ++
      Out.event ch (.htimeout key) :: Out.event ch (.hstopped key) ::
      ((l2.filter (fun r => match r.2.2 with | some t => decide (now ≥ t) | none => false)).flatMap fun r =>
        [Out.event r.2.1 (.htimeout r.1), Out.event r.2.1 (.hstopped r.1)]) := by
    simp only [runTimeouts, popTimers, ingress_resolvers, hl, List.filter_append, List.filter_cons, hdue, decide_true,
      if_true, List.flatMap_append, List.flatMap_cons, List.cons_append, List.nil_append]
    rfl
  refine ⟨(ingress s now pkts).2 ++
      ((l1.filter (fun r => match r.2.2 with | some t => decide (now ≥ t) | none => false)).flatMap fun r =>
        [Out.event r.2.1 (.htimeout r.1), Out.event r.2.1 (.hstopped r.1)]),
    ((l2.filter (fun r => match r.2.2 with | some t => decide (now ≥ t) | none => false)).flatMap fun r =>
        [Out.event r.2.1 (.htimeout r.1), Out.event r.2.1 (.hstopped r.1)]) ++ tailOuts (preCommands s now pkts) now cmds,
    ?_, ?_, ?_⟩
  · rw [(iter_tail s now pkts cmds).2, hto]
    simp only [List.append_assoc, List.cons_append]
  · intro e he
    rcases List.mem_append.mp he with he | he
    · simp only [List.mem_flatMap, List.mem_filter] at he
      obtain ⟨q, ⟨hq, _⟩, hm⟩ := he
      have := hother q (List.mem_append_right _ hq)
      simp only [List.mem_cons, Out.event.injEq, List.not_mem_nil, or_false] at hm
      rcases hm with ⟨h1, _⟩ | ⟨h1, _⟩ <;> exact this h1.symm
    · exact qt e he
  · rw [(iter_tail s now pkts cmds).1]
    exact st

end Mdns.Client
