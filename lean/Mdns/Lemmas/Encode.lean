import Mdns.Model.Encode
import Mdns.Lemmas.RefParse
import Mdns.Spec.Expect
/-
  Helper lemmas for C02 (encoder).
-/
namespace Mdns.Enc
open Mdns

/-! ### escaping -/

theorem parseEscapedGo_no_empty (s cur : BList) : ∀ l ∈ parseEscapedGo s cur, l ≠ [] := by
  fun_induction parseEscapedGo s cur <;> simp_all

/-- The escaped form of a byte string is consumed as a unit, whatever follows it. -/
theorem parseEscapedGo_escape (l X cur : BList) :
    parseEscapedGo (escape l ++ X) cur = parseEscapedGo X (cur ++ l) := by
  induction l generalizing cur with
  | nil => simp [escape]
  | cons c l ih =>
    have hstep : escape (c :: l) ++ X = escapeByte c ++ (escape l ++ X) := by
      simp [escape]
    rw [hstep]
    by_cases h1 : c = 0x5C
    · subst h1
      simp only [escapeByte]
      simp [parseEscapedGo, ih]
    · by_cases h2 : c = 0x2E
      · subst h2
        simp [escapeByte, parseEscapedGo, ih]
      · simp only [escapeByte, h1, h2, if_false]
        cases hX : escape l ++ X with
        | nil =>
          have := ih (cur ++ [c])
          rw [hX] at this
          simp [parseEscapedGo, h2]
          rw [show cur ++ c :: l = cur ++ [c] ++ l by simp, ← this]
          simp [parseEscapedGo]
        | cons n r =>
          simp only [List.cons_append, List.nil_append]
          rw [parseEscapedGo]
          simp only [h1, h2, if_false]
          rw [← hX, ih]
          simp

/-- an unescaped dot closes a non-empty label -/
theorem parseEscapedGo_dot (rest cur : BList) (h : cur ≠ []) :
    parseEscapedGo (0x2E :: rest) cur = cur :: parseEscapedGo rest [] := by
  cases rest with
  | nil => simp [parseEscapedGo, h]
  | cons n r => rw [parseEscapedGo]; simp [h]

theorem getLast?_append_ne (a rest : BList) (h : rest ≠ []) : (a ++ rest).getLast? = rest.getLast? := by
  cases hr : rest.getLast? with
  | none => simp [List.getLast?_eq_none_iff] at hr; exact absurd hr h
  | some x => simp [List.getLast?_append, hr]

theorem stripDot_append (a rest : BList) (h : rest ≠ []) : stripDot (a ++ rest) = a ++ stripDot rest := by
  unfold stripDot
  rw [getLast?_append_ne _ _ h]
  split
  · rw [List.dropLast_append_of_ne_nil h]
  · rfl

/-! ### primitive writers -/

@[simp] theorem writeByte_data (p : OutPacket) (v : UInt8) : (p.writeByte v).data = p.data.push v := by
  cases p; rfl
@[simp] theorem writeByte_names (p : OutPacket) (v : UInt8) : (p.writeByte v).names = p.names := by
  cases p; rfl
@[simp] theorem writeByte_finished (p : OutPacket) (v : UInt8) : (p.writeByte v).finished = p.finished := by
  cases p; rfl
@[simp] theorem writeBytes_data (p : OutPacket) (s : BList) : (p.writeBytes s).data = p.data ++ s.toArray := by
  cases p; rfl
@[simp] theorem writeBytes_names (p : OutPacket) (s : BList) : (p.writeBytes s).names = p.names := by
  cases p; rfl
@[simp] theorem writeBytes_finished (p : OutPacket) (s : BList) : (p.writeBytes s).finished = p.finished := by
  cases p; rfl
@[simp] theorem writeShort_data (p : OutPacket) (v : Nat) : (p.writeShort v).data = p.data ++ (be16 v).toArray := by
  simp [OutPacket.writeShort]
@[simp] theorem writeShort_names (p : OutPacket) (v : Nat) : (p.writeShort v).names = p.names := by
  simp [OutPacket.writeShort]
@[simp] theorem writeU32_data (p : OutPacket) (v : Nat) : (p.writeU32 v).data = p.data ++ (be32 v).toArray := by
  simp [OutPacket.writeU32]
@[simp] theorem writeU32_names (p : OutPacket) (v : Nat) : (p.writeU32 v).names = p.names := by
  simp [OutPacket.writeU32]

@[simp] theorem be16_length (v : Nat) : (be16 v).length = 2 := rfl
@[simp] theorem be32_length (v : Nat) : (be32 v).length = 4 := rfl

theorem insertShortData_size (d d' : Data) (i v : Nat) (h : insertShortData d i v = .ok d') : d'.size = d.size := by
  unfold insertShortData at h
  split at h
  · simp only [Res.ok.injEq] at h; subst h; simp
  · simp at h

theorem insertShortData_ne_err (d : Data) (i v : Nat) : insertShortData d i v ≠ .err := by
  unfold insertShortData; split <;> simp

theorem insertShort_ok (p p' : OutPacket) (i v : Nat) (h : p.insertShort i v = .ok p') :
    p'.data.size = p.data.size ∧ p'.names = p.names ∧ p'.finished = p.finished := by
  cases p with
  | mk d f ns =>
    simp only [OutPacket.insertShort] at h
    cases hd : insertShortData d i v with
    | ok d' =>
      simp only [hd, Res.ok.injEq] at h; subst h
      exact ⟨insertShortData_size d d' i v hd, rfl, rfl⟩
    | err => simp [hd] at h
    | panic => simp [hd] at h

theorem insertShort_ne_err (p : OutPacket) (i v : Nat) : p.insertShort i v ≠ .err := by
  cases p with
  | mk d f ns =>
    simp only [OutPacket.insertShort]
    cases hd : insertShortData d i v with
    | ok d' => simp
    | err => exact absurd hd (insertShortData_ne_err d i v)
    | panic => simp

theorem insertShort_ne_panic (p : OutPacket) (i v : Nat) (h : i + 2 ≤ p.data.size) : p.insertShort i v ≠ .panic := by
  cases p with
  | mk d f ns =>
    simp only [OutPacket.insertShort, insertShortData]
    simp at h
    simp [h]

@[simp] theorem writeShort_finished (p : OutPacket) (v : Nat) : (p.writeShort v).finished = p.finished := by
  simp [OutPacket.writeShort]
@[simp] theorem writeU32_finished (p : OutPacket) (v : Nat) : (p.writeU32 v).finished = p.finished := by
  simp [OutPacket.writeU32]

theorem writeUtf8_ok (p p' : OutPacket) (s : BList) (h : p.writeUtf8 s = .ok p') :
    p'.data = p.data.push (UInt8.ofNat s.length) ++ s.toArray ∧ p'.names = p.names ∧
    p'.finished = p.finished ∧ s.length < 64 := by
  unfold OutPacket.writeUtf8 at h
  split at h
  · simp only [Res.ok.injEq] at h; subst h; simp [*]
  · simp at h

theorem writeLabels_ne_err (p : OutPacket) (ls : List BList) : writeLabels p ls ≠ .err := by
  induction ls generalizing p with
  | nil => simp [writeLabels]
  | cons l rest ih =>
    simp only [writeLabels]
    split
    · simp
    · split
      · exact ih _
      · rename_i h; simp [OutPacket.writeUtf8] at h; split at h <;> simp at h
      · simp

theorem writeLabels_ne_panic (p : OutPacket) (ls : List BList) (hl : ∀ l ∈ ls, l.length < 64) :
    writeLabels p ls ≠ .panic := by
  induction ls generalizing p with
  | nil => simp [writeLabels]
  | cons l rest ih =>
    simp only [writeLabels]
    split
    · simp
    · split
      · exact ih _ (fun x hx => hl x (List.mem_cons_of_mem _ hx))
      · simp
      · rename_i h
        have := hl l (List.mem_cons_self)
        simp [OutPacket.writeUtf8, this] at h

theorem writeLabels_ok (p p' : OutPacket) (ls : List BList) (h : writeLabels p ls = .ok p') :
    p.data.size < p'.data.size ∧ p'.finished = p.finished := by
  induction ls generalizing p p' with
  | nil =>
    simp only [writeLabels, Res.ok.injEq] at h; subst h; simp
  | cons l rest ih =>
    simp only [writeLabels] at h
    split at h
    · simp only [Res.ok.injEq] at h; subst h; simp
    · split at h
      · rename_i p1 hu
        have h1 := writeUtf8_ok _ _ _ hu
        have h2 := ih _ _ h
        simp only [h1.1, Array.size_append, Array.size_push, List.size_toArray] at h2
        refine ⟨by omega, ?_⟩
        rw [h2.2, h1.2.2.1]
      · simp at h
      · simp at h

/-- every label of the textual name fits the length byte (`write_utf8` does not assert) -/
def NameOK (name : BList) : Prop := ∀ l ∈ labelsOf name, l.length < 64

def RDataOK : Wire.RData → Prop
  | .ptr n => NameOK n
  | .srv _ _ _ h => NameOK h
  | _ => True

def RecOK (r : RecIn) : Prop := NameOK r.name ∧ RDataOK r.rdata

theorem writeName_ne_err (p : OutPacket) (n : BList) : p.writeName n ≠ .err := writeLabels_ne_err _ _
theorem writeName_ne_panic (p : OutPacket) (n : BList) (h : NameOK n) : p.writeName n ≠ .panic :=
  writeLabels_ne_panic _ _ h
theorem writeName_ok (p p' : OutPacket) (n : BList) (h : p.writeName n = .ok p') :
    p.data.size < p'.data.size ∧ p'.finished = p.finished := writeLabels_ok _ _ _ h

theorem writeRData_ne_err (p : OutPacket) (rd : Wire.RData) : p.writeRData rd ≠ .err := by
  cases rd <;> simp [OutPacket.writeRData, writeName_ne_err]

theorem writeRData_ne_panic (p : OutPacket) (rd : Wire.RData) (h : RDataOK rd) : p.writeRData rd ≠ .panic := by
  cases rd <;> simp [OutPacket.writeRData] <;> exact writeName_ne_panic _ _ h

theorem writeRData_ok (p p' : OutPacket) (rd : Wire.RData) (h : p.writeRData rd = .ok p') :
    p.data.size ≤ p'.data.size ∧ p'.finished = p.finished := by
  cases rd <;> simp only [OutPacket.writeRData, Res.ok.injEq] at h
  case ptr n => have := writeName_ok _ _ _ h; exact ⟨by omega, this.2⟩
  case srv a b c n =>
    have := writeName_ok _ _ _ h
    simp at this
    exact ⟨by omega, this.2⟩
  all_goals (subst h; simp)

theorem writeRecordBody_ne_err (p : OutPacket) (r : RecIn) (ttl : Nat) : p.writeRecordBody r ttl ≠ .err := by
  simp only [OutPacket.writeRecordBody]
  split
  · rename_i h; exact absurd h (writeRData_ne_err _ _)
  · simp
  · exact insertShort_ne_err _ _ _

theorem writeRecordBody_ne_panic (p : OutPacket) (r : RecIn) (ttl : Nat) (h : RDataOK r.rdata) :
    p.writeRecordBody r ttl ≠ .panic := by
  simp only [OutPacket.writeRecordBody]
  split
  · simp
  · rename_i h'; exact absurd h' (writeRData_ne_panic _ _ h)
  · rename_i p6 h6
    have := (writeRData_ok _ _ _ h6).1
    apply insertShort_ne_panic
    simp at this ⊢
    omega

theorem writeRecordBody_ok (p p' : OutPacket) (r : RecIn) (ttl : Nat) (h : p.writeRecordBody r ttl = .ok p') :
    p.data.size + 10 ≤ p'.data.size ∧ p'.finished = p.finished := by
  simp only [OutPacket.writeRecordBody] at h
  split at h
  · simp at h
  · simp at h
  · rename_i p6 h6
    have h1 := writeRData_ok _ _ _ h6
    have h2 := insertShort_ok _ _ _ _ h
    simp at h1
    refine ⟨by omega, ?_⟩
    rw [h2.2.2, h1.2]

@[simp] theorem rollback_data (p : OutPacket) (n : Nat) : (p.rollback n).data = p.data.extract 0 n := by
  cases p; rfl
@[simp] theorem rollback_names (p : OutPacket) (n : Nat) :
    (p.rollback n).names = p.names.filter (fun e => e.2 < n) := by
  cases p; rfl

theorem remainingTtl_ne_err (r : RecIn) (now : Nat) : remainingTtl r now ≠ .err := by
  unfold remainingTtl; split <;> simp

theorem writeRecord_ne_err (p : OutPacket) (r : RecIn) (now : Nat) : p.writeRecord r now ≠ .err := by
  simp only [OutPacket.writeRecord]
  split
  · rename_i h; exact absurd h (writeName_ne_err _ _)
  · simp
  · split
    · rename_i h
      split at h
      · simp at h
      · exact absurd h (remainingTtl_ne_err _ _)
    · simp
    · split
      · rename_i h; exact absurd h (writeRecordBody_ne_err _ _ _)
      · simp
      · split <;> simp

theorem writeRecord_ne_panic (p : OutPacket) (r : RecIn) (now : Nat) (h : RecOK r)
    (hn : now = 0 ∨ now ≤ expires r) : p.writeRecord r now ≠ .panic := by
  simp only [OutPacket.writeRecord]
  split
  · simp
  · rename_i h'; exact absurd h' (writeName_ne_panic _ _ h.1)
  · split
    · simp
    · rename_i h'
      split at h'
      · simp at h'
      · rename_i hne
        have : now ≤ expires r := by rcases hn with h0 | h0; exact absurd h0 hne; exact h0
        simp [remainingTtl] at h'
        omega
    · split
      · simp
      · rename_i h'; exact absurd h' (writeRecordBody_ne_panic _ _ _ h.2)
      · split <;> simp

/-- what `write_record` does to the size of the packet -/
theorem writeRecord_ok (p p' : OutPacket) (r : RecIn) (now : Nat) (b : Bool)
    (h : p.writeRecord r now = .ok (p', b)) :
    (b = true → p.data.size + 11 ≤ p'.data.size ∧ p'.data.size ≤ MAX_MSG_ABSOLUTE) ∧
    (b = false → p'.data.size = p.data.size) := by
  simp only [OutPacket.writeRecord] at h
  split at h
  · simp at h
  · simp at h
  · rename_i p1 h1
    have s1 := (writeName_ok _ _ _ h1).1
    split at h
    · simp at h
    · simp at h
    · rename_i ttl ht
      split at h
      · simp at h
      · simp at h
      · rename_i p7 h7
        have s7 := (writeRecordBody_ok _ _ _ _ h7).1
        split at h
        · simp only [Res.ok.injEq, Prod.mk.injEq] at h
          obtain ⟨rfl, rfl⟩ := h
          simp
          omega
        · simp only [Res.ok.injEq, Prod.mk.injEq] at h
          obtain ⟨rfl, rfl⟩ := h
          simp
          omega


theorem u16_insertShortData (d d' : Data) (i v : Nat) (h : insertShortData d i v = .ok d') :
    Ref.u16 d' i = some (v % 65536) := by
  unfold insertShortData at h
  split at h
  · rename_i hi
    simp only [Res.ok.injEq] at h; subst h
    have h1 : i < d.size := by omega
    have h2 : i + 1 < d.size := by omega
    simp [Ref.u16, h1, h2]
    omega
  · simp at h

theorem u16_insertShortData_other (d d' : Data) (i v j : Nat) (h : insertShortData d i v = .ok d')
    (hj : j + 2 ≤ i ∨ i + 2 ≤ j) : Ref.u16 d' j = Ref.u16 d j := by
  unfold insertShortData at h
  split at h
  · simp only [Res.ok.injEq] at h; subst h
    have a1 : ¬ i = j := by omega
    have a2 : ¬ i + 1 = j := by omega
    have a3 : ¬ i = j + 1 := by omega
    simp [Ref.u16, a1, a2, a3]
  · simp at h

theorem insertShort_data (p p' : OutPacket) (i v : Nat) (h : p.insertShort i v = .ok p') :
    insertShortData p.data i v = .ok p'.data := by
  cases p with
  | mk d f ns =>
    simp only [OutPacket.insertShort] at h
    cases hd : insertShortData d i v with
    | ok d' => simp only [hd, Res.ok.injEq] at h; subst h; rfl
    | err => simp [hd] at h
    | panic => simp [hd] at h

theorem u16_insertShort (p p' : OutPacket) (i v : Nat) (h : p.insertShort i v = .ok p') :
    Ref.u16 p'.data i = some (v % 65536) := u16_insertShortData _ _ _ _ (insertShort_data _ _ _ _ h)

theorem u16_insertShort_other (p p' : OutPacket) (i v j : Nat) (h : p.insertShort i v = .ok p')
    (hj : j + 2 ≤ i ∨ i + 2 ≤ j) : Ref.u16 p'.data j = Ref.u16 p.data j :=
  u16_insertShortData_other _ _ _ _ _ (insertShort_data _ _ _ _ h) hj

/-- the six header fields as the reference reader sees them -/
structure HeaderIs (d : Data) (id flags qc anc auc adc : Nat) : Prop where
  id : Ref.u16 d 0 = some (id % 65536)
  flags : Ref.u16 d 2 = some (flags % 65536)
  qc : Ref.u16 d 4 = some (qc % 65536)
  anc : Ref.u16 d 6 = some (anc % 65536)
  auc : Ref.u16 d 8 = some (auc % 65536)
  adc : Ref.u16 d 10 = some (adc % 65536)

theorem writeHeader_ne_err (p : OutPacket) (id flags qc anc auc adc : Nat) :
    p.writeHeader id flags qc anc auc adc ≠ .err := by
  simp only [OutPacket.writeHeader]
  repeat (first | (split; (rename_i h; exact absurd h (insertShort_ne_err _ _ _))) | simp | split)


theorem writeHeader_ok (p p' : OutPacket) (id flags qc anc auc adc : Nat)
    (h : p.writeHeader id flags qc anc auc adc = .ok p') :
    p'.data.size = p.data.size ∧ HeaderIs p'.data id flags qc anc auc adc := by
  simp only [OutPacket.writeHeader] at h
  cases h0 : p.insertShort 0 id with
  | err => simp [h0] at h
  | panic => simp [h0] at h
  | ok p0 =>
  simp only [h0] at h
  cases h1 : p0.insertShort 2 flags with
  | err => simp [h1] at h
  | panic => simp [h1] at h
  | ok p1 =>
  simp only [h1] at h
  cases h2 : p1.insertShort 4 qc with
  | err => simp [h2] at h
  | panic => simp [h2] at h
  | ok p2 =>
  simp only [h2] at h
  cases h3 : p2.insertShort 6 anc with
  | err => simp [h3] at h
  | panic => simp [h3] at h
  | ok p3 =>
  simp only [h3] at h
  cases h4 : p3.insertShort 8 auc with
  | err => simp [h4] at h
  | panic => simp [h4] at h
  | ok p4 =>
  simp only [h4] at h
  cases h5 : p4.insertShort 10 adc with
  | err => simp [h5] at h
  | panic => simp [h5] at h
  | ok p5 =>
  simp only [h5, Res.ok.injEq] at h
  subst h
  have s0 := (insertShort_ok _ _ _ _ h0).1
  have s1 := (insertShort_ok _ _ _ _ h1).1
  have s2 := (insertShort_ok _ _ _ _ h2).1
  have s3 := (insertShort_ok _ _ _ _ h3).1
  have s4 := (insertShort_ok _ _ _ _ h4).1
  have s5 := (insertShort_ok _ _ _ _ h5).1
  refine ⟨by simp; omega, ?_, ?_, ?_, ?_, ?_, ?_⟩ <;> simp only []
  · rw [u16_insertShort_other _ _ _ _ 0 h5 (by omega), u16_insertShort_other _ _ _ _ 0 h4 (by omega),
      u16_insertShort_other _ _ _ _ 0 h3 (by omega), u16_insertShort_other _ _ _ _ 0 h2 (by omega),
      u16_insertShort_other _ _ _ _ 0 h1 (by omega)]
    exact u16_insertShort _ _ _ _ h0
  · rw [u16_insertShort_other _ _ _ _ 2 h5 (by omega), u16_insertShort_other _ _ _ _ 2 h4 (by omega),
      u16_insertShort_other _ _ _ _ 2 h3 (by omega), u16_insertShort_other _ _ _ _ 2 h2 (by omega)]
    exact u16_insertShort _ _ _ _ h1
  · rw [u16_insertShort_other _ _ _ _ 4 h5 (by omega), u16_insertShort_other _ _ _ _ 4 h4 (by omega),
      u16_insertShort_other _ _ _ _ 4 h3 (by omega)]
    exact u16_insertShort _ _ _ _ h2
  · rw [u16_insertShort_other _ _ _ _ 6 h5 (by omega), u16_insertShort_other _ _ _ _ 6 h4 (by omega)]
    exact u16_insertShort _ _ _ _ h3
  · rw [u16_insertShort_other _ _ _ _ 8 h5 (by omega)]
    exact u16_insertShort _ _ _ _ h4
  · exact u16_insertShort _ _ _ _ h5

theorem writeHeader_ne_panic (p : OutPacket) (id flags qc anc auc adc : Nat) (hs : 12 ≤ p.data.size) :
    p.writeHeader id flags qc anc auc adc ≠ .panic := by
  simp only [OutPacket.writeHeader]
  cases h0 : p.insertShort 0 id with
  | err => simp
  | panic => exact absurd h0 (insertShort_ne_panic _ _ _ (by omega))
  | ok p0 =>
  have s0 := (insertShort_ok _ _ _ _ h0).1
  simp only []
  cases h1 : p0.insertShort 2 flags with
  | err => simp
  | panic => exact absurd h1 (insertShort_ne_panic _ _ _ (by omega))
  | ok p1 =>
  have s1 := (insertShort_ok _ _ _ _ h1).1
  simp only []
  cases h2 : p1.insertShort 4 qc with
  | err => simp
  | panic => exact absurd h2 (insertShort_ne_panic _ _ _ (by omega))
  | ok p2 =>
  have s2 := (insertShort_ok _ _ _ _ h2).1
  simp only []
  cases h3 : p2.insertShort 6 anc with
  | err => simp
  | panic => exact absurd h3 (insertShort_ne_panic _ _ _ (by omega))
  | ok p3 =>
  have s3 := (insertShort_ok _ _ _ _ h3).1
  simp only []
  cases h4 : p3.insertShort 8 auc with
  | err => simp
  | panic => exact absurd h4 (insertShort_ne_panic _ _ _ (by omega))
  | ok p4 =>
  have s4 := (insertShort_ok _ _ _ _ h4).1
  simp only []
  cases h5 : p4.insertShort 10 adc with
  | err => simp
  | panic => exact absurd h5 (insertShort_ne_panic _ _ _ (by omega))
  | ok p5 => simp

theorem writeQuestion_ne_err (p : OutPacket) (q : QIn) : p.writeQuestion q ≠ .err := by
  simp only [OutPacket.writeQuestion]
  split
  · simp
  · rename_i h; exact absurd h (writeName_ne_err _ _)
  · simp

theorem writeQuestion_ne_panic (p : OutPacket) (q : QIn) (h : NameOK q.name) : p.writeQuestion q ≠ .panic := by
  simp only [OutPacket.writeQuestion]
  split
  · simp
  · simp
  · rename_i h'; exact absurd h' (writeName_ne_panic _ _ h)

theorem writeQuestion_ok (p p' : OutPacket) (q : QIn) (h : p.writeQuestion q = .ok p') :
    p.data.size + 5 ≤ p'.data.size := by
  simp only [OutPacket.writeQuestion] at h
  split at h
  · rename_i p1 h1
    have := (writeName_ok _ _ _ h1).1
    simp only [Res.ok.injEq] at h; subst h
    simp; omega
  · simp at h
  · simp at h

theorem writeQuestions_ne_err (p : OutPacket) (qs : List QIn) : writeQuestions p qs ≠ .err := by
  induction qs generalizing p with
  | nil => simp [writeQuestions]
  | cons q qs ih =>
    simp only [writeQuestions]
    split
    · exact ih _
    · rename_i h; exact absurd h (writeQuestion_ne_err _ _)
    · simp

theorem writeQuestions_ne_panic (p : OutPacket) (qs : List QIn) (h : ∀ q ∈ qs, NameOK q.name) :
    writeQuestions p qs ≠ .panic := by
  induction qs generalizing p with
  | nil => simp [writeQuestions]
  | cons q qs ih =>
    simp only [writeQuestions]
    split
    · exact ih _ (fun x hx => h x (List.mem_cons_of_mem _ hx))
    · simp
    · rename_i h'; exact absurd h' (writeQuestion_ne_panic _ _ (h q List.mem_cons_self))

theorem writeQuestions_ok (p p' : OutPacket) (qs : List QIn) (h : writeQuestions p qs = .ok p') :
    p.data.size ≤ p'.data.size := by
  induction qs generalizing p with
  | nil => simp only [writeQuestions, Res.ok.injEq] at h; subst h; exact Nat.le_refl _
  | cons q qs ih =>
    simp only [writeQuestions] at h
    split at h
    · rename_i p1 h1
      have := writeQuestion_ok _ _ _ h1
      have := ih _ h
      omega
    · simp at h
    · simp at h

/-! ### answers and authorities -/

theorem writeAnswers_ne_err (p : OutPacket) (c : Nat) (w as : List (RecIn × Nat)) :
    writeAnswers p c w as ≠ .err := by
  induction as generalizing p c w with
  | nil => simp [writeAnswers]
  | cons a as ih =>
    obtain ⟨r, now⟩ := a
    simp only [writeAnswers]
    split
    · exact ih _ _ _
    · exact ih _ _ _
    · rename_i h; exact absurd h (writeRecord_ne_err _ _ _)
    · simp

/-- an answer can be written without the TTL subtraction underflowing -/
def AnsOK (a : RecIn × Nat) : Prop := RecOK a.1 ∧ (a.2 = 0 ∨ a.2 ≤ expires a.1)

theorem writeAnswers_ne_panic (p : OutPacket) (c : Nat) (w as : List (RecIn × Nat))
    (h : ∀ a ∈ as, AnsOK a) : writeAnswers p c w as ≠ .panic := by
  induction as generalizing p c w with
  | nil => simp [writeAnswers]
  | cons a as ih =>
    obtain ⟨r, now⟩ := a
    have ht := fun x hx => h x (List.mem_cons_of_mem _ hx)
    simp only [writeAnswers]
    split
    · exact ih _ _ _ ht
    · exact ih _ _ _ ht
    · simp
    · rename_i h'
      have := h (r, now) List.mem_cons_self
      exact absurd h' (writeRecord_ne_panic _ _ _ this.1 this.2)

theorem writeAnswers_ok (p p' : OutPacket) (c c' : Nat) (w w' as : List (RecIn × Nat))
    (h : writeAnswers p c w as = .ok (p', c', w')) :
    p.data.size ≤ p'.data.size ∧
    (∀ B, MAX_MSG_ABSOLUTE ≤ B → p.data.size ≤ B → p'.data.size ≤ B) ∧
    c' + w.length = c + w'.length ∧ ∃ s, w' = w ++ s ∧ s.Sublist as := by
  induction as generalizing p c w with
  | nil =>
    simp only [writeAnswers, Res.ok.injEq, Prod.mk.injEq] at h
    obtain ⟨rfl, rfl, rfl⟩ := h
    exact ⟨Nat.le_refl _, fun _ _ h => h, rfl, [], by simp, List.Sublist.refl _⟩
  | cons a as ih =>
    obtain ⟨r, now⟩ := a
    simp only [writeAnswers] at h
    split at h
    · rename_i p1 h1
      have s := (writeRecord_ok _ _ _ _ _ h1).1 rfl
      obtain ⟨i1, i2, i3, s', i4, i5⟩ := ih _ _ _ h
      refine ⟨by omega, fun B hB hp => i2 B hB (by omega), ?_, (r, now) :: s', ?_, ?_⟩
      · simp at i3; omega
      · simp [i4]
      · exact List.Sublist.cons_cons _ i5
    · rename_i p1 h1
      have s := (writeRecord_ok _ _ _ _ _ h1).2 rfl
      obtain ⟨i1, i2, i3, s', i4, i5⟩ := ih _ _ _ h
      refine ⟨by omega, fun B hB hp => i2 B hB (by omega), i3, s', i4, ?_⟩
      exact List.Sublist.cons _ i5
    · simp at h
    · simp at h

theorem writeAuthorities_ne_err (p : OutPacket) (c : Nat) (w as : List RecIn) :
    writeAuthorities p c w as ≠ .err := by
  induction as generalizing p c w with
  | nil => simp [writeAuthorities]
  | cons r as ih =>
    simp only [writeAuthorities]
    split
    · exact ih _ _ _
    · exact ih _ _ _
    · rename_i h; exact absurd h (writeRecord_ne_err _ _ _)
    · simp

theorem writeAuthorities_ne_panic (p : OutPacket) (c : Nat) (w as : List RecIn)
    (h : ∀ r ∈ as, RecOK r) : writeAuthorities p c w as ≠ .panic := by
  induction as generalizing p c w with
  | nil => simp [writeAuthorities]
  | cons r as ih =>
    have ht := fun x hx => h x (List.mem_cons_of_mem _ hx)
    simp only [writeAuthorities]
    split
    · exact ih _ _ _ ht
    · exact ih _ _ _ ht
    · simp
    · rename_i h'
      exact absurd h' (writeRecord_ne_panic _ _ _ (h r List.mem_cons_self) (Or.inl rfl))

theorem writeAuthorities_ok (p p' : OutPacket) (c c' : Nat) (w w' as : List RecIn)
    (h : writeAuthorities p c w as = .ok (p', c', w')) :
    p.data.size ≤ p'.data.size ∧
    (∀ B, MAX_MSG_ABSOLUTE ≤ B → p.data.size ≤ B → p'.data.size ≤ B) ∧
    c' + w.length = c + w'.length ∧ ∃ s, w' = w ++ s ∧ s.Sublist as := by
  induction as generalizing p c w with
  | nil =>
    simp only [writeAuthorities, Res.ok.injEq, Prod.mk.injEq] at h
    obtain ⟨rfl, rfl, rfl⟩ := h
    exact ⟨Nat.le_refl _, fun _ _ h => h, rfl, [], by simp, List.Sublist.refl _⟩
  | cons r as ih =>
    simp only [writeAuthorities] at h
    split at h
    · rename_i p1 h1
      have s := (writeRecord_ok _ _ _ _ _ h1).1 rfl
      obtain ⟨i1, i2, i3, s', i4, i5⟩ := ih _ _ _ h
      refine ⟨by omega, fun B hB hp => i2 B hB (by omega), ?_, r :: s', ?_, ?_⟩
      · simp at i3; omega
      · simp [i4]
      · exact List.Sublist.cons_cons _ i5
    · rename_i p1 h1
      have s := (writeRecord_ok _ _ _ _ _ h1).2 rfl
      obtain ⟨i1, i2, i3, s', i4, i5⟩ := ih _ _ _ h
      refine ⟨by omega, fun B hB hp => i2 B hB (by omega), i3, s', i4, ?_⟩
      exact List.Sublist.cons _ i5
    · simp at h
    · simp at h

/-! ### the fourth loop -/

/-- the header of a finished packet agrees with the ghost lists of what it carries -/
def CountsOK (p : Packet) : Prop :=
  Ref.u16 p.data 4 = some (p.ghost.qs.length % 65536) ∧
  Ref.u16 p.data 6 = some (p.ghost.an.length % 65536) ∧
  Ref.u16 p.data 8 = some (p.ghost.au.length % 65536) ∧
  Ref.u16 p.data 10 = some (p.ghost.ad.length % 65536)

/-- a finished packet: counts, size between 12 and `B`, id, flags (with TC iff `tc`) -/
def PktOK (o : OutMsg) (id B : Nat) (tc : Bool) (p : Packet) : Prop :=
  CountsOK p ∧ 12 ≤ p.data.size ∧ p.data.size ≤ B ∧
  Ref.u16 p.data 0 = some (id % 65536) ∧
  Ref.u16 p.data 2 = some ((if tc then o.flags ||| FLAGS_TC else o.flags) % 65536)

structure StInv (B : Nat) (st : LoopSt) : Prop where
  lo : 12 ≤ st.packet.data.size
  hi : st.packet.data.size ≤ B
  qc : st.qc % 65536 = st.ghost.qs.length % 65536
  anc : st.anc = st.ghost.an.length
  auc : st.auc = st.ghost.au.length
  adc : st.adc = st.ghost.ad.length

theorem finish_ne_err (o : OutMsg) (id : Nat) (st : LoopSt) : finish o id st ≠ .err := by
  simp only [finish]
  split
  · simp
  · rename_i h; exact absurd h (writeHeader_ne_err _ _ _ _ _ _ _)
  · simp

theorem finish_ne_panic (o : OutMsg) (id : Nat) (st : LoopSt) (h : 12 ≤ st.packet.data.size) :
    finish o id st ≠ .panic := by
  simp only [finish]
  split
  · simp
  · simp
  · rename_i h'; exact absurd h' (writeHeader_ne_panic _ _ _ _ _ _ _ h)

theorem finish_ok (o : OutMsg) (id B : Nat) (st : LoopSt) (ps : List Packet) (h : finish o id st = .ok ps)
    (inv : StInv B st) :
    ∃ last, ps = st.done ++ [last] ∧ last.ghost = st.ghost ∧ PktOK o id B false last := by
  simp only [finish] at h
  split at h
  · rename_i p hp
    simp only [Res.ok.injEq] at h
    obtain ⟨hs, hh⟩ := writeHeader_ok _ _ _ _ _ _ _ _ hp
    refine ⟨_, h.symm, rfl, ⟨?_, ?_, ?_, ?_⟩, ?_, ?_, hh.id, ?_⟩
    · simp only []; rw [hh.qc, inv.qc]
    · simp only []; rw [hh.anc, inv.anc]
    · simp only []; rw [hh.auc, inv.auc]
    · simp only []; rw [hh.adc, inv.adc]
    · simp only []; rw [hs]; exact inv.lo
    · simp only []; rw [hs]; exact inv.hi
    · simpa using hh.flags
  · simp at h
  · simp at h

@[simp] theorem new_size : OutPacket.new.data.size = 12 := by simp [OutPacket.new]

theorem writeAdditionals_ne_err (o : OutMsg) (id : Nat) (st : LoopSt) (rs : List RecIn) :
    writeAdditionals o id st rs ≠ .err := by
  induction rs generalizing st with
  | nil => simp only [writeAdditionals]; exact finish_ne_err _ _ _
  | cons r rest ih =>
    simp only [writeAdditionals]
    split
    · rename_i h; exact absurd h (writeRecord_ne_err _ _ _)
    · simp
    · exact ih _
    · split
      · exact finish_ne_err _ _ _
      · split
        · rename_i h; exact absurd h (writeHeader_ne_err _ _ _ _ _ _ _)
        · simp
        · split
          · rename_i h; exact absurd h (writeRecord_ne_err _ _ _)
          · simp
          · exact ih _

theorem writeAdditionals_ne_panic (o : OutMsg) (id : Nat) (st : LoopSt) (rs : List RecIn)
    (h : ∀ r ∈ rs, RecOK r) (hs : 12 ≤ st.packet.data.size) :
    writeAdditionals o id st rs ≠ .panic := by
  induction rs generalizing st with
  | nil => simp only [writeAdditionals]; exact finish_ne_panic _ _ _ hs
  | cons r rest ih =>
    have ht := fun x hx => h x (List.mem_cons_of_mem _ hx)
    have hr := h r List.mem_cons_self
    simp only [writeAdditionals]
    split
    · simp
    · rename_i h'; exact absurd h' (writeRecord_ne_panic _ _ _ hr (Or.inl rfl))
    · rename_i p' h1
      have := (writeRecord_ok _ _ _ _ _ h1).1 rfl
      exact ih _ ht (by simp only []; omega)
    · rename_i p' h1
      have s1 := (writeRecord_ok _ _ _ _ _ h1).2 rfl
      split
      · exact finish_ne_panic _ _ _ (by simp only []; omega)
      · split
        · simp
        · rename_i h'; exact absurd h' (writeHeader_ne_panic _ _ _ _ _ _ _ (by omega))
        · split
          · simp
          · rename_i h'; exact absurd h' (writeRecord_ne_panic _ _ _ hr (Or.inl rfl))
          · rename_i p2 b h2
            apply ih _ ht
            simp only []
            have := writeRecord_ok _ _ _ _ _ h2
            cases b
            · have := this.2 rfl; simp at this; omega
            · have := this.1 rfl; simp at this; omega

theorem writeAdditionals_ok (o : OutMsg) (id B : Nat) (st : LoopSt) (rs : List RecIn) (ps : List Packet)
    (hB : MAX_MSG_ABSOLUTE ≤ B) (h : writeAdditionals o id st rs = .ok ps) (inv : StInv B st)
    (hd : ∀ p ∈ st.done, PktOK o id B true p) :
    ∃ init last, ps = init ++ [last] ∧ (∀ p ∈ init, PktOK o id B true p) ∧ PktOK o id B false last := by
  induction rs generalizing st with
  | nil =>
    simp only [writeAdditionals] at h
    obtain ⟨last, e, _, hl⟩ := finish_ok _ _ _ _ _ h inv
    exact ⟨st.done, last, e, hd, hl⟩
  | cons r rest ih =>
    simp only [writeAdditionals] at h
    split at h
    · simp at h
    · simp at h
    · rename_i p' h1
      have s1 := (writeRecord_ok _ _ _ _ _ h1).1 rfl
      refine ih _ h ⟨?_, ?_, inv.qc, inv.anc, inv.auc, ?_⟩ hd
      · have := inv.lo; simp only []; omega
      · simp only []; omega
      · simp [inv.adc]
    · rename_i p' h1
      have s1 := (writeRecord_ok _ _ _ _ _ h1).2 rfl
      split at h
      · obtain ⟨last, e, _, hl⟩ := finish_ok o id B _ _ h
          ⟨by have := inv.lo; simp only []; omega, by have := inv.hi; simp only []; omega,
            inv.qc, inv.anc, inv.auc, inv.adc⟩
        exact ⟨st.done, last, e, hd, hl⟩
      · split at h
        · simp at h
        · simp at h
        · rename_i full hf
          obtain ⟨hs, hh⟩ := writeHeader_ok _ _ _ _ _ _ _ _ hf
          split at h
          · simp at h
          · simp at h
          · rename_i p2 b h2
            have s2 := writeRecord_ok _ _ _ _ _ h2
            refine ih _ h ⟨?_, ?_, ?_, rfl, rfl, ?_⟩ ?_
            · simp only []
              cases b
              · have := s2.2 rfl; simp at this; omega
              · have := s2.1 rfl; simp at this; omega
            · simp only []
              cases b
              · have := s2.2 rfl; simp at this; simp only [MAX_MSG_ABSOLUTE] at hB; omega
              · have := s2.1 rfl; omega
            · simp
            · cases b <;> simp
            · intro p hp
              simp only [List.mem_append, List.mem_singleton] at hp
              rcases hp with hp | rfl
              · exact hd p hp
              · refine ⟨⟨?_, ?_, ?_, ?_⟩, ?_, ?_, hh.id, ?_⟩
                · simp only []; rw [hh.qc, inv.qc]
                · simp only []; rw [hh.anc, inv.anc]
                · simp only []; rw [hh.auc, inv.auc]
                · simp only []; rw [hh.adc, inv.adc]
                · have := inv.lo; simp only []; omega
                · have := inv.hi; simp only []; omega
                · simpa using hh.flags

theorem finish_ghost (o : OutMsg) (id : Nat) (st : LoopSt) (ps : List Packet) (h : finish o id st = .ok ps) :
    ∃ last, ps = st.done ++ [last] ∧ last.ghost = st.ghost := by
  simp only [finish] at h
  split at h
  · simp only [Res.ok.injEq] at h; exact ⟨_, h.symm, rfl⟩
  · simp at h
  · simp at h

/-- what the packets of the fourth loop carry, section by section -/
theorem writeAdditionals_ghost (o : OutMsg) (id : Nat) (st : LoopSt) (rs : List RecIn) (ps : List Packet)
    (h : writeAdditionals o id st rs = .ok ps) :
    ps.flatMap (·.ghost.qs) = st.done.flatMap (·.ghost.qs) ++ st.ghost.qs ∧
    ps.flatMap (·.ghost.an) = st.done.flatMap (·.ghost.an) ++ st.ghost.an ∧
    ps.flatMap (·.ghost.au) = st.done.flatMap (·.ghost.au) ++ st.ghost.au ∧
    ∃ s, ps.flatMap (·.ghost.ad) = st.done.flatMap (·.ghost.ad) ++ st.ghost.ad ++ s ∧ s.Sublist rs := by
  induction rs generalizing st with
  | nil =>
    simp only [writeAdditionals] at h
    obtain ⟨last, rfl, hl⟩ := finish_ghost _ _ _ _ h
    simp [hl]
  | cons r rest ih =>
    simp only [writeAdditionals] at h
    split at h
    · simp at h
    · simp at h
    · obtain ⟨i1, i2, i3, s, i4, i5⟩ := ih _ h
      refine ⟨i1, i2, i3, r :: s, ?_, List.Sublist.cons_cons _ i5⟩
      simp only [] at i4
      simp [i4]
    · split at h
      · obtain ⟨last, rfl, hl⟩ := finish_ghost _ _ _ _ h
        simp only [] at hl
        refine ⟨by simp [hl], by simp [hl], by simp [hl], [], by simp [hl], List.nil_sublist _⟩
      · split at h
        · simp at h
        · simp at h
        · split at h
          · simp at h
          · simp at h
          · rename_i p2 b h2
            obtain ⟨i1, i2, i3, s, i4, i5⟩ := ih _ h
            simp only [List.flatMap_append, List.flatMap_cons, List.flatMap_nil, List.append_nil] at i1 i2 i3 i4
            refine ⟨by simpa using i1, by simpa using i2, by simpa using i3, ?_⟩
            cases b
            · exact ⟨s, by simpa using i4, List.Sublist.cons _ i5⟩
            · exact ⟨r :: s, by simpa using i4, List.Sublist.cons_cons _ i5⟩

instance (n : BList) : Decidable (NameOK n) := by unfold NameOK; infer_instance
instance (rd : Wire.RData) : Decidable (RDataOK rd) := by
  cases rd <;> simp only [RDataOK] <;> infer_instance
instance (r : RecIn) : Decidable (RecOK r) := by unfold RecOK; infer_instance
instance (a : RecIn × Nat) : Decidable (AnsOK a) := by unfold AnsOK; infer_instance

/-- The domain in which the encoder cannot panic: every label of every name (owner names,
    PTR and SRV targets) has at most 63 bytes, and an answer added with `now ≠ 0` is not
    past its expiry (which `add_answer_at_time` guarantees). -/
def MsgOK (o : OutMsg) : Prop :=
  (∀ q ∈ o.questions, NameOK q.name) ∧ (∀ a ∈ o.answers, AnsOK a) ∧
  (∀ r ∈ o.authorities, RecOK r) ∧ (∀ r ∈ o.additionals, RecOK r)

instance (o : OutMsg) : Decidable (MsgOK o) := by unfold MsgOK; infer_instance

/-- the id written into every header -/
def wireId (o : OutMsg) : Nat := if o.multicast then 0 else o.id

/-- size of the packet after the question loop (12 if there are no questions) -/
def questionsSize (o : OutMsg) : Nat :=
  match writeQuestions OutPacket.new o.questions with
  | .ok p => p.data.size
  | _ => 12

theorem toPackets_ne_err (o : OutMsg) : toPackets o ≠ .err := by
  simp only [toPackets]
  split
  · rename_i h; exact absurd h (writeQuestions_ne_err _ _)
  · simp
  · split
    · rename_i h; exact absurd h (writeAnswers_ne_err _ _ _ _)
    · simp
    · split
      · rename_i h; exact absurd h (writeAuthorities_ne_err _ _ _ _)
      · simp
      · exact writeAdditionals_ne_err _ _ _ _

theorem toPackets_ne_panic (o : OutMsg) (h : MsgOK o) : toPackets o ≠ .panic := by
  simp only [toPackets]
  split
  · simp
  · rename_i h'; exact absurd h' (writeQuestions_ne_panic _ _ h.1)
  · rename_i p0 h0
    have s0 := writeQuestions_ok _ _ _ h0
    split
    · simp
    · rename_i h'; exact absurd h' (writeAnswers_ne_panic _ _ _ _ h.2.1)
    · rename_i p1 anc an h1
      have s1 := (writeAnswers_ok _ _ _ _ _ _ _ h1).1
      split
      · simp
      · rename_i h'; exact absurd h' (writeAuthorities_ne_panic _ _ _ _ h.2.2.1)
      · rename_i p2 auc au h2
        have s2 := (writeAuthorities_ok _ _ _ _ _ _ _ h2).1
        apply writeAdditionals_ne_panic _ _ _ _ h.2.2.2
        simp only []
        simp at s0
        omega

theorem toPackets_ok (o : OutMsg) (ps : List Packet) (h : toPackets o = .ok ps) :
    (∃ init last, ps = init ++ [last] ∧
      (∀ p ∈ init, PktOK o (wireId o) (max MAX_MSG_ABSOLUTE (questionsSize o)) true p) ∧
      PktOK o (wireId o) (max MAX_MSG_ABSOLUTE (questionsSize o)) false last) ∧
    ps.flatMap (·.ghost.qs) = o.questions ∧
    (ps.flatMap (·.ghost.an)).Sublist o.answers ∧
    (ps.flatMap (·.ghost.au)).Sublist o.authorities ∧
    (ps.flatMap (·.ghost.ad)).Sublist o.additionals := by
  simp only [toPackets] at h
  split at h
  · simp at h
  · simp at h
  · rename_i p0 h0
    have s0 := writeQuestions_ok _ _ _ h0
    have hq : questionsSize o = p0.data.size := by simp [questionsSize, h0]
    split at h
    · simp at h
    · simp at h
    · rename_i p1 anc an h1
      obtain ⟨a1, a2, a3, sa, a4, a5⟩ := writeAnswers_ok _ _ _ _ _ _ _ h1
      split at h
      · simp at h
      · simp at h
      · rename_i p2 auc au h2
        obtain ⟨b1, b2, b3, sb, b4, b5⟩ := writeAuthorities_ok _ _ _ _ _ _ _ h2
        have hB : MAX_MSG_ABSOLUTE ≤ max MAX_MSG_ABSOLUTE (questionsSize o) := Nat.le_max_left _ _
        have hp0 : p0.data.size ≤ max MAX_MSG_ABSOLUTE (questionsSize o) := by rw [hq]; exact Nat.le_max_right _ _
        constructor
        · refine writeAdditionals_ok o _ _ _ _ ps hB h ⟨?_, ?_, ?_, ?_, ?_, rfl⟩ (by simp)
          · simp only []; simp at s0; omega
          · exact b2 _ hB (a2 _ hB hp0)
          · simp
          · simp only []; simp at a3; omega
          · simp only []; simp at b3; omega
        · obtain ⟨g1, g2, g3, s, g4, g5⟩ := writeAdditionals_ghost _ _ _ _ _ h
          simp only [List.flatMap_nil, List.nil_append] at g1 g2 g3 g4
          refine ⟨g1, ?_, ?_, ?_⟩
          · rw [g2, a4]; simpa using a5
          · rw [g3, b4]; simpa using b5
          · rw [g4]; simpa using g5

/-! ### towards the round trip -/

theorem lor_pointer (off : Nat) (h : off < 16384) : off ||| POINTER_MASK = off + 49152 := by
  have := Nat.shiftLeft_add_eq_or_of_lt (i := 14) (b := off) (by simpa using h) 3
  simp only [POINTER_MASK]
  rw [Nat.or_comm]
  have e : (3 <<< 14 : Nat) = 49152 := by decide
  rw [e] at this
  omega

theorem keyOf_parse (ls : List BList) (h : ∀ l ∈ ls, l ≠ []) : parseEscaped (keyOf ls) = ls := by
  induction ls with
  | nil => simp [keyOf, parseEscaped, parseEscapedGo]
  | cons l rest ih =>
    cases rest with
    | nil =>
      simp only [keyOf]
      have := parseEscapedGo_escape l [] []
      simp only [List.append_nil, List.nil_append] at this
      unfold parseEscaped
      rw [this]
      simp [parseEscapedGo, h l List.mem_cons_self]
    | cons l2 rest =>
      simp only [keyOf]
      unfold parseEscaped
      rw [List.append_assoc, parseEscapedGo_escape, List.nil_append, List.singleton_append,
        parseEscapedGo_dot _ _ (h l List.mem_cons_self)]
      congr 1
      exact ih (fun x hx => h x (List.mem_cons_of_mem _ hx))

theorem keyOf_inj (a b : List BList) (ha : ∀ l ∈ a, l ≠ []) (hb : ∀ l ∈ b, l ≠ []) (h : keyOf a = keyOf b) : a = b := by
  rw [← keyOf_parse a ha, ← keyOf_parse b hb, h]

theorem lookup_mem (k : BList) (ns : Names) (v : Nat) (h : lookup k ns = some v) : (k, v) ∈ ns := by
  induction ns with
  | nil => simp [lookup] at h
  | cons e rest ih =>
    obtain ⟨k', v'⟩ := e
    simp only [lookup] at h
    split at h
    · rename_i hk; simp only [Option.some.injEq] at h; subst h; subst hk; exact List.mem_cons_self
    · exact List.mem_cons_of_mem _ (ih h)

/-- an entry `(key, off)` of the compression table is sound with respect to the bytes `D`:
    the offset can be expressed as a pointer, the key is the key of a non-empty sequence
    of non-empty labels, and the reference reader reads exactly that sequence at `off`
    (within `B` steps) -/
def EntryOK (B : Nat) (D : Data) (e : BList × Nat) : Prop :=
  e.2 < D.size ∧ e.2 < 16384 ∧ ∃ ls, ls ≠ [] ∧ (∀ l ∈ ls, l ≠ []) ∧ e.1 = keyOf ls ∧
    ∃ f en, f ≤ B ∧ Ref.readNameFuel D f e.2 = some (ls, en)

/-- the invariant of the compression table -/
def NamesOK (D : Data) (ns : Names) : Prop := ∀ e ∈ ns, EntryOK D.size D e

theorem EntryOK_append (B B' : Nat) (D x : Data) (e : BList × Nat) (h : EntryOK B D e) (hB : B ≤ B') :
    EntryOK B' (D ++ x) e := by
  obtain ⟨h1, h2, ls, h3, h4, h5, f, en, h6, h7⟩ := h
  exact ⟨by simp; omega, h2, ls, h3, h4, h5, f, en, by omega,
    Ref.readNameFuel_mono D x f f _ _ h7 (Nat.le_refl _)⟩

theorem NamesOK_append (D x : Data) (ns : Names) (h : NamesOK D ns) : NamesOK (D ++ x) ns :=
  fun e he => EntryOK_append _ _ D x e (h e he) (by simp)

/-- octets of a label sequence on the wire without compression -/
def wlen (ls : List BList) : Nat := (ls.map fun l => l.length + 1).sum + 1

theorem getElem?_at_size (D : Data) (b : UInt8) (t : BList) : (D ++ (b :: t).toArray)[D.size]? = some b := by
  simp

theorem getElem?_at_size1 (D : Data) (a b : UInt8) (t : BList) :
    (D ++ (a :: b :: t).toArray)[D.size + 1]? = some b := by
  simp

theorem drop_size_succ (D : Data) (c : UInt8) (x : BList) :
    List.drop (D.size + 1) (D.toList ++ c :: x) = x := by
  have : D.size + 1 = (D.toList ++ [c]).length := by simp
  rw [show D.toList ++ c :: x = (D.toList ++ [c]) ++ x by simp, this, List.drop_left]

theorem bytesAt_at_size1 (D : Data) (c : UInt8) (l t : BList) :
    Ref.bytesAt (D ++ (c :: (l ++ t)).toArray) (D.size + 1) l.length = some l := by
  rw [Ref.bytesAt_eq_some]
  refine ⟨by simp; omega, ?_⟩
  simp only [Array.toList_append]
  rw [drop_size_succ]
  simp

theorem wlen_cons (l : BList) (rest : List BList) : wlen (l :: rest) = l.length + 1 + wlen rest := by
  simp [wlen]; omega

theorem wlen_pos (ls : List BList) : 1 ≤ wlen ls := by simp [wlen]

theorem writeLabels_spec (ls : List BList) : ∀ (p p' : OutPacket) (pending old : Names),
    writeLabels p ls = .ok p' →
    (∀ l ∈ ls, l ≠ []) →
    p.names = pending ++ old →
    (∀ e ∈ pending, ∃ ls', e.1 = keyOf ls' ∧ (∀ l ∈ ls', l ≠ []) ∧ ls.length < ls'.length) →
    p.data.size + wlen ls ≤ 16384 →
    ∃ (bs : BList) (new : Names),
      p'.data = p.data ++ bs.toArray ∧ p'.finished = p.finished ∧ p'.names = new ++ pending ++ old ∧
      1 ≤ bs.length ∧ bs.length ≤ wlen ls ∧
      (∀ e ∈ new, p.data.size ≤ e.2 ∧ e.2 < p.data.size + bs.length) ∧
      ∀ (D : Data) (B : Nat), D.size = p.data.size → (∀ e ∈ old, EntryOK B D e) →
        (∃ f, f ≤ bs.length + B ∧
          Ref.readNameFuel (D ++ bs.toArray) f D.size = some (ls, D.size + bs.length)) ∧
        (∀ e ∈ new, ∃ ls', ls' ≠ [] ∧ (∀ l ∈ ls', l ≠ []) ∧ e.1 = keyOf ls' ∧
            ∃ f en, f ≤ bs.length + B ∧ Ref.readNameFuel (D ++ bs.toArray) f e.2 = some (ls', en)) := by
  induction ls with
  | nil =>
    intro p p' pending old h _ hn _ _
    simp only [writeLabels, Res.ok.injEq] at h
    subst h
    refine ⟨[0], [], ?_, by simp, by simp [hn], by simp, by simp [wlen], by simp, ?_⟩
    · simp
    · intro D B hD _
      refine ⟨⟨1, by simp, ?_⟩, by simp⟩
      simp [Ref.readNameFuel]
  | cons l rest ih =>
    intro p p' pending old h hne hn hp hsz
    have hl : l ≠ [] := hne l List.mem_cons_self
    have hrest : ∀ x ∈ rest, x ≠ [] := fun x hx => hne x (List.mem_cons_of_mem _ hx)
    simp only [writeLabels] at h
    split at h
    · -- compression hit
      rename_i off hlk
      simp only [Res.ok.injEq] at h
      subst h
      have hmem := lookup_mem _ _ _ hlk
      rw [hn, List.mem_append] at hmem
      have hold : (keyOf (l :: rest), off) ∈ old := by
        rcases hmem with hm | hm
        · obtain ⟨ls', h1, h2, h3⟩ := hp _ hm
          have := keyOf_inj _ _ hne h2 h1
          rw [← this] at h3
          exact absurd h3 (Nat.lt_irrefl _)
        · exact hm
      refine ⟨be16 (off ||| POINTER_MASK), [], by simp, by simp, by simp [hn], by simp, ?_, by simp, ?_⟩
      · rw [wlen_cons]; have := wlen_pos rest; simp; omega
      · intro D B hD hold'
        refine ⟨?_, by simp⟩
        obtain ⟨h1, h2, ls', h3, h4, h5, f, en, h6, h7⟩ := hold' _ hold
        simp only at h1 h2 h5 h7
        have hls : ls' = l :: rest := (keyOf_inj _ _ hne h4 h5).symm
        subst hls
        rw [lor_pointer off h2]
        refine ⟨f + 1, by simp; omega, ?_⟩
        simp only [Ref.readNameFuel, be16]
        rw [getElem?_at_size, getElem?_at_size1]
        have t1 : (UInt8.ofNat ((off + 49152) / 256)).toNat = 192 + off / 256 := by
          simp [UInt8.toNat_ofNat'] <;> omega
        have t2 : (UInt8.ofNat (off + 49152)).toNat = off % 256 := by
          simp [UInt8.toNat_ofNat'] <;> omega
        have t0 : UInt8.ofNat ((off + 49152) / 256) ≠ 0 := by
          intro hc
          have := congrArg UInt8.toNat hc
          rw [t1] at this
          simp at this
        simp only [t0, if_false, t1, t2]
        have e1 : ¬ (192 + off / 256 < 64) := by omega
        have e2 : 192 + off / 256 ≥ 192 := by omega
        have e3 : (192 + off / 256 - 192) * 256 + off % 256 = off := by omega
        simp only [e1, e2, e3, if_true, if_false]
        have e4 : off < D.size := h1
        simp only [e4, if_true]
        rw [Ref.readNameFuel_mono D _ f f off _ h7 (Nat.le_refl _)]
        simp
    · -- no hit: the label is written and the suffix is remembered
      rename_i hlk
      split at h
      · rename_i p1 hu
        obtain ⟨u1, u2, u3, u4⟩ := writeUtf8_ok _ _ _ hu
        simp only [] at u1 u2 u3
        have hmod : p.data.size % 65536 = p.data.size := by
          apply Nat.mod_eq_of_lt
          have := wlen_pos (l :: rest)
          omega
        rw [hmod, hn] at u2
        have hsz1 : p1.data.size + wlen rest ≤ 16384 := by
          rw [u1]; rw [wlen_cons] at hsz; simp; omega
        obtain ⟨bs', new', i1, i2, i3, i4, i5, i6, i7⟩ := ih p1 p' ((keyOf (l :: rest), p.data.size) :: pending) old h hrest
          (by rw [u2]; simp)
          (by
            intro e he
            simp only [List.mem_cons] at he
            rcases he with rfl | he
            · exact ⟨l :: rest, rfl, hne, by simp⟩
            · obtain ⟨ls', a1, a2, a3⟩ := hp e he
              exact ⟨ls', a1, a2, by simp at a3; omega⟩)
          hsz1
        have hdata : p'.data = p.data ++ (UInt8.ofNat l.length :: (l ++ bs')).toArray := by
          rw [i1, u1]
          apply Array.toList_inj.mp
          simp
        have hc : (UInt8.ofNat l.length).toNat = l.length := by
          simp [UInt8.toNat_ofNat'] <;> omega
        refine ⟨UInt8.ofNat l.length :: (l ++ bs'), new' ++ [(keyOf (l :: rest), p.data.size)],
          hdata, by rw [i2, u3], by rw [i3]; simp, by simp, ?_, ?_, ?_⟩
        · rw [wlen_cons]; simp; omega
        · intro e he
          simp only [List.mem_append, List.mem_singleton] at he
          rcases he with he | rfl
          · have := i6 e he
            rw [u1] at this
            simp at this ⊢
            omega
          · simp
        · intro D B hD hold
          have hD1 : (D ++ (UInt8.ofNat l.length :: l).toArray).size = p1.data.size := by
            rw [u1]; simp; omega
          have hold1 : ∀ e ∈ old, EntryOK B (D ++ (UInt8.ofNat l.length :: l).toArray) e :=
            fun e he => EntryOK_append B B D _ e (hold e he) (Nat.le_refl _)
          obtain ⟨⟨f', j1, j2⟩, j3⟩ := i7 _ B hD1 hold1
          have hcat : D ++ (UInt8.ofNat l.length :: l).toArray ++ bs'.toArray =
              D ++ (UInt8.ofNat l.length :: (l ++ bs')).toArray := by
            apply Array.toList_inj.mp
            simp
          rw [hcat] at j2
          have hread : Ref.readNameFuel (D ++ (UInt8.ofNat l.length :: (l ++ bs')).toArray) (f' + 1) D.size =
              some (l :: rest, D.size + (UInt8.ofNat l.length :: (l ++ bs')).length) := by
            simp only [Ref.readNameFuel]
            rw [getElem?_at_size]
            have t0 : UInt8.ofNat l.length ≠ 0 := by
              intro hc0
              have := congrArg UInt8.toNat hc0
              rw [hc] at this
              simp at this
              exact hl this
            simp only [t0, if_false, hc, u4, if_true]
            rw [bytesAt_at_size1]
            have : D.size + 1 + l.length = (D ++ (UInt8.ofNat l.length :: l).toArray).size := by
              simp; omega
            rw [this, j2]
            simp
            omega
          refine ⟨⟨f' + 1, by simp; omega, hread⟩, ?_⟩
          intro e he
          simp only [List.mem_append, List.mem_singleton] at he
          rcases he with he | rfl
          · obtain ⟨ls', k1, k2, k3, f, en, k4, k5⟩ := j3 e he
            rw [hcat] at k5
            exact ⟨ls', k1, k2, k3, f, en, by simp; omega, k5⟩
          · refine ⟨l :: rest, by simp, hne, rfl, f' + 1,
              D.size + (UInt8.ofNat l.length :: (l ++ bs')).length, by simp; omega, ?_⟩
            simp only []
            rw [← hD]
            exact hread
      · simp at h
      · simp at h

theorem getElem?_of_toList (d : Data) (pre : BList) (b : UInt8) (post : BList)
    (h : d.toList = pre ++ b :: post) : d[pre.length]? = some b := by
  rw [← Array.getElem?_toList, h]
  simp

theorem u16_of_toList (d : Data) (pre post : BList) (v : Nat) (h : d.toList = pre ++ (be16 v ++ post)) :
    Ref.u16 d pre.length = some (v % 65536) := by
  have h0 : d[pre.length]? = some (UInt8.ofNat (v / 256)) := getElem?_of_toList d pre _ _ (by simpa [be16] using h)
  have h1 : d[pre.length + 1]? = some (UInt8.ofNat v) := by
    have := getElem?_of_toList d (pre ++ [UInt8.ofNat (v / 256)]) (UInt8.ofNat v) post (by simpa [be16] using h)
    simpa using this
  simp [Ref.u16, h0, h1, UInt8.toNat_ofNat']
  omega

theorem u32_of_toList (d : Data) (pre post : BList) (v : Nat) (h : d.toList = pre ++ (be32 v ++ post)) :
    Ref.u32 d pre.length = some (v % 4294967296) := by
  have a := u16_of_toList d pre (be16 v ++ post) (v / 65536) (by
    rw [h]; simp [be32, be16, Nat.div_div_eq_div_mul])
  have b := u16_of_toList d (pre ++ be16 (v / 65536)) post v (by
    rw [h]; simp [be32, be16, Nat.div_div_eq_div_mul])
  simp only [List.length_append, be16_length] at b
  simp [Ref.u32, a, b]
  omega

theorem bytesAt_of_toList (d : Data) (pre l post : BList) (h : d.toList = pre ++ (l ++ post)) :
    Ref.bytesAt d pre.length l.length = some l := by
  rw [Ref.bytesAt_eq_some]
  have hs : d.size = pre.length + (l.length + post.length) := by
    rw [← Array.length_toList, h]; simp
  refine ⟨by omega, ?_⟩
  rw [h, List.drop_left]
  simp

theorem wireLen_eq (ls : List BList) : Ref.wireLen ls = wlen ls := rfl

theorem labelsOf_ne (name : BList) : ∀ l ∈ labelsOf name, l ≠ [] := parseEscapedGo_no_empty _ _

theorem writeName_spec (p p' : OutPacket) (name : BList) (h : p.writeName name = .ok p')
    (hsz : p.data.size + wlen (labelsOf name) ≤ 16384) :
    ∃ (bs : BList) (new : Names),
      p'.data = p.data ++ bs.toArray ∧ p'.finished = p.finished ∧ p'.names = new ++ p.names ∧
      1 ≤ bs.length ∧ bs.length ≤ wlen (labelsOf name) ∧
      (∀ e ∈ new, p.data.size ≤ e.2 ∧ e.2 < p.data.size + bs.length) ∧
      ∀ D : Data, D.size = p.data.size → NamesOK D p.names →
        NamesOK (D ++ bs.toArray) p'.names ∧
        (wlen (labelsOf name) ≤ 255 → ∀ x : Data,
          Ref.readName (D ++ bs.toArray ++ x) D.size = some (labelsOf name, D.size + bs.length)) := by
  obtain ⟨bs, new, h1, h2, h3, h4, h5, h6, h7⟩ :=
    writeLabels_spec (labelsOf name) p p' [] p.names h (labelsOf_ne name) (by simp) (by simp) hsz
  refine ⟨bs, new, h1, h2, by simpa using h3, h4, h5, h6, ?_⟩
  intro D hD hN
  obtain ⟨⟨f, g1, g2⟩, g3⟩ := h7 D D.size hD hN
  constructor
  · intro e he
    rw [h3] at he
    simp only [List.append_nil, List.mem_append] at he
    rcases he with he | he
    · obtain ⟨ls', k1, k2, k3, f', en, k4, k5⟩ := g3 e he
      have := h6 e he
      refine ⟨by simp; omega, by omega, ls', k1, k2, k3, f', en, by simp; omega, k5⟩
    · exact EntryOK_append _ _ D _ e (hN e he) (by simp)
  · intro hw x
    unfold Ref.readName
    rw [Ref.readNameFuel_mono (D ++ bs.toArray) x f _ D.size _ g2 (by simp; omega)]
    simp only [wireLen_eq, hw, if_true]

/-- a question inside the domain of the round-trip theorem -/
def QWF (q : QIn) : Prop := wlen (labelsOf q.name) ≤ 255 ∧ q.ty < 65536

theorem toList_app3 (D : Data) (a b : BList) (x : Data) :
    (D ++ (a ++ b).toArray ++ x).toList = (D.toList ++ a) ++ (b ++ x.toList) := by simp

theorem writeQuestion_spec (p p' : OutPacket) (q : QIn) (h : p.writeQuestion q = .ok p')
    (hsz : p.data.size + wlen (labelsOf q.name) ≤ 16384) :
    ∃ (bs : BList) (new : Names),
      p'.data = p.data ++ bs.toArray ∧ p'.finished = p.finished ∧ p'.names = new ++ p.names ∧
      (∀ e ∈ new, p.data.size ≤ e.2 ∧ e.2 < p.data.size + bs.length) ∧
      ∀ D : Data, D.size = p.data.size → NamesOK D p.names →
        NamesOK (D ++ bs.toArray) p'.names ∧
        (QWF q → ∀ x : Data,
          Ref.readQuestion (D ++ bs.toArray ++ x) D.size = some (expQ q, D.size + bs.length)) := by
  simp only [OutPacket.writeQuestion] at h
  split at h
  · rename_i p1 h1
    simp only [Res.ok.injEq] at h
    subst h
    obtain ⟨nb, new, a1, a2, a3, a4, a5, a6, a7⟩ := writeName_spec p p1 q.name h1 hsz
    refine ⟨nb ++ (be16 q.ty ++ be16 CLASS_IN), new, ?_, by simp [a2], by simp [a3], ?_, ?_⟩
    · simp only [writeShort_data, a1]
      apply Array.toList_inj.mp; simp
    · intro e he; have := a6 e he; simp; omega
    · intro D hD hN
      obtain ⟨b1, b2⟩ := a7 D hD hN
      constructor
      · have := NamesOK_append _ (be16 q.ty ++ be16 CLASS_IN).toArray _ b1
        simp only [writeShort_names]
        have e : D ++ (nb ++ (be16 q.ty ++ be16 CLASS_IN)).toArray =
            D ++ nb.toArray ++ (be16 q.ty ++ be16 CLASS_IN).toArray := by
          apply Array.toList_inj.mp; simp
        rw [e]; exact this
      · intro hq x
        have e : D ++ (nb ++ (be16 q.ty ++ be16 CLASS_IN)).toArray ++ x =
            D ++ nb.toArray ++ ((be16 q.ty ++ be16 CLASS_IN).toArray ++ x) := by
          apply Array.toList_inj.mp; simp
        unfold Ref.readQuestion
        rw [e, b2 hq.1]
        simp only []
        have hl : D.size + nb.length = (D.toList ++ nb).length := by simp
        have u1 := u16_of_toList (D ++ nb.toArray ++ ((be16 q.ty ++ be16 CLASS_IN).toArray ++ x))
          (D.toList ++ nb) (be16 CLASS_IN ++ x.toList) q.ty (by simp)
        have u2 := u16_of_toList (D ++ nb.toArray ++ ((be16 q.ty ++ be16 CLASS_IN).toArray ++ x))
          (D.toList ++ nb ++ be16 q.ty) x.toList CLASS_IN (by simp)
        rw [← hl] at u1
        have hl2 : (D.toList ++ nb ++ be16 q.ty).length = D.size + nb.length + 2 := by simp; omega
        rw [hl2] at u2
        rw [u1, u2]
        simp [expQ, Nat.mod_eq_of_lt hq.2, CLASS_IN]
        omega
  · simp at h
  · simp at h

/-- RDATA inside the domain of the round-trip theorem: the record type matches the kind
    of data (as the crate's constructors are used), fixed sizes for addresses, 16-bit SRV
    fields, names of at most 255 octets -/
def RDataWF (ty : Nat) : Wire.RData → Prop
  | .a ip => ty = 1 ∧ ip.length = 4
  | .aaaa ip => ty = 28 ∧ ip.length = 16
  | .ptr n => (ty = 12 ∨ ty = 5) ∧ wlen (labelsOf n) ≤ 255
  | .srv p w port h => ty = 33 ∧ p < 65536 ∧ w < 65536 ∧ port < 65536 ∧ wlen (labelsOf h) ≤ 255
  | .txt _ => ty = 16
  | .hinfo .. => False
  | .nsec .. => False

/-- room needed so that the name inside RDATA gets offsets below 16384 -/
def rdNameLen : Wire.RData → Nat
  | .ptr n => wlen (labelsOf n)
  | .srv _ _ _ h => 6 + wlen (labelsOf h)
  | _ => 0

theorem writeRData_spec (p p' : OutPacket) (rd : Wire.RData) (h : p.writeRData rd = .ok p')
    (hsz : p.data.size + rdNameLen rd ≤ 16384) :
    ∃ (bs : BList) (new : Names),
      p'.data = p.data ++ bs.toArray ∧ p'.finished = p.finished ∧ p'.names = new ++ p.names ∧
      (∀ e ∈ new, p.data.size ≤ e.2 ∧ e.2 < p.data.size + bs.length) ∧
      ∀ D : Data, D.size = p.data.size → NamesOK D p.names →
        NamesOK (D ++ bs.toArray) p'.names ∧
        ∀ ty, RDataWF ty rd → ∀ x : Data,
          Ref.readRData (D ++ bs.toArray ++ x) ty D.size bs.length = some (expRData rd) := by
  cases rd with
  | a ip =>
    simp only [OutPacket.writeRData, Res.ok.injEq] at h; subst h
    refine ⟨ip, [], by simp, by simp, by simp, by simp, ?_⟩
    intro D hD hN
    refine ⟨by simpa using NamesOK_append D ip.toArray _ hN, ?_⟩
    intro ty hw x
    obtain ⟨rfl, h4⟩ := hw
    have := bytesAt_of_toList (D ++ ip.toArray ++ x) D.toList ip x.toList (by simp)
    simp only [Array.length_toList] at this
    rw [Array.append_assoc] at this
    simp [Ref.readRData, h4, expRData]
    rw [← h4, this]
  | aaaa ip =>
    simp only [OutPacket.writeRData, Res.ok.injEq] at h; subst h
    refine ⟨ip, [], by simp, by simp, by simp, by simp, ?_⟩
    intro D hD hN
    refine ⟨by simpa using NamesOK_append D ip.toArray _ hN, ?_⟩
    intro ty hw x
    obtain ⟨rfl, h4⟩ := hw
    have := bytesAt_of_toList (D ++ ip.toArray ++ x) D.toList ip x.toList (by simp)
    simp only [Array.length_toList] at this
    rw [Array.append_assoc] at this
    simp [Ref.readRData, h4, expRData]
    rw [← h4, this]
  | txt b =>
    simp only [OutPacket.writeRData, Res.ok.injEq] at h; subst h
    refine ⟨b, [], by simp, by simp, by simp, by simp, ?_⟩
    intro D hD hN
    refine ⟨by simpa using NamesOK_append D b.toArray _ hN, ?_⟩
    intro ty hw x
    have hw' : ty = 16 := hw
    subst hw'
    have := bytesAt_of_toList (D ++ b.toArray ++ x) D.toList b x.toList (by simp)
    simp only [Array.length_toList] at this
    rw [Array.append_assoc] at this
    simp [Ref.readRData, expRData, this]
  | hinfo c o =>
    simp only [OutPacket.writeRData, Res.ok.injEq] at h; subst h
    refine ⟨c ++ o, [], by simp, by simp, by simp, by simp, ?_⟩
    intro D hD hN
    refine ⟨by simpa using NamesOK_append D (c ++ o).toArray _ hN, ?_⟩
    intro ty hw; exact absurd hw (by simp [RDataWF])
  | nsec n b =>
    simp only [OutPacket.writeRData, Res.ok.injEq] at h; subst h
    refine ⟨n ++ b, [], by simp, by simp, by simp, by simp, ?_⟩
    intro D hD hN
    refine ⟨by simpa using NamesOK_append D (n ++ b).toArray _ hN, ?_⟩
    intro ty hw; exact absurd hw (by simp [RDataWF])
  | ptr n =>
    simp only [OutPacket.writeRData] at h
    obtain ⟨nb, new, a1, a2, a3, a4, a5, a6, a7⟩ := writeName_spec p p' n h (by simpa [rdNameLen] using hsz)
    refine ⟨nb, new, a1, a2, a3, a6, ?_⟩
    intro D hD hN
    obtain ⟨b1, b2⟩ := a7 D hD hN
    refine ⟨b1, ?_⟩
    intro ty hw x
    obtain ⟨ht, hl⟩ := hw
    have t1 : ty ≠ 1 := by omega
    have t2 : ty ≠ 28 := by omega
    have rn := b2 hl x
    rw [Array.append_assoc] at rn
    simp [Ref.readRData, t1, t2, ht, rn, expRData]
  | srv pr w port host =>
    simp only [OutPacket.writeRData] at h
    obtain ⟨nb, new, a1, a2, a3, a4, a5, a6, a7⟩ := writeName_spec _ p' host h (by
      simp only [rdNameLen] at hsz; simp; omega)
    refine ⟨be16 pr ++ be16 w ++ be16 port ++ nb, new, ?_, by simpa using a2, by simpa using a3, ?_, ?_⟩
    · rw [a1]; apply Array.toList_inj.mp; simp
    · intro e he; have := a6 e he; simp at this ⊢; omega
    · intro D hD hN
      have hD' : (D ++ (be16 pr ++ be16 w ++ be16 port).toArray).size =
          (((p.writeShort pr).writeShort w).writeShort port).data.size := by simp; omega
      have hN' : NamesOK (D ++ (be16 pr ++ be16 w ++ be16 port).toArray)
          (((p.writeShort pr).writeShort w).writeShort port).names := by
        simpa using NamesOK_append D (be16 pr ++ be16 w ++ be16 port).toArray _ hN
      obtain ⟨b1, b2⟩ := a7 _ hD' hN'
      have e0 : D ++ (be16 pr ++ be16 w ++ be16 port ++ nb).toArray =
          D ++ (be16 pr ++ be16 w ++ be16 port).toArray ++ nb.toArray := by
        apply Array.toList_inj.mp; simp
      refine ⟨by rw [e0]; exact b1, ?_⟩
      intro ty hw x
      obtain ⟨rfl, h1, h2, h3, hl⟩ := hw
      have rn := b2 hl x
      rw [← e0] at rn
      have s6 : (D ++ (be16 pr ++ be16 w ++ be16 port).toArray).size = D.size + 6 := by simp
      rw [s6] at rn
      have u1 := u16_of_toList (D ++ (be16 pr ++ be16 w ++ be16 port ++ nb).toArray ++ x) D.toList
        (be16 w ++ be16 port ++ nb ++ x.toList) pr (by simp)
      have u2 := u16_of_toList (D ++ (be16 pr ++ be16 w ++ be16 port ++ nb).toArray ++ x) (D.toList ++ be16 pr)
        (be16 port ++ nb ++ x.toList) w (by simp)
      have u3 := u16_of_toList (D ++ (be16 pr ++ be16 w ++ be16 port ++ nb).toArray ++ x)
        (D.toList ++ be16 pr ++ be16 w) (nb ++ x.toList) port (by simp)
      simp only [Array.length_toList, List.length_append, be16_length] at u1 u2 u3
      simp only [Ref.readRData]
      rw [u1, u2, u3, rn]
      simp [expRData, Nat.mod_eq_of_lt h1, Nat.mod_eq_of_lt h2, Nat.mod_eq_of_lt h3]
      omega

theorem insertShortData_patch (A : Data) (R : BList) (v : Nat) :
    insertShortData (A ++ (be16 0 ++ R).toArray) A.size v = .ok (A ++ (be16 v ++ R).toArray) := by
  unfold insertShortData
  have hs : A.size + 2 ≤ (A ++ (be16 0 ++ R).toArray).size := by simp <;> omega
  simp only [hs, if_true, Res.ok.injEq]
  apply Array.toList_inj.mp
  simp [be16]

theorem extract_append_left (A : Data) (B : Data) : (A ++ B).extract 0 A.size = A := by
  apply Array.toList_inj.mp
  simp

/-- the ten bytes between owner name and RDATA -/
def fixed10 (ty cls ttl len : Nat) : BList := be16 ty ++ be16 cls ++ be32 ttl ++ be16 len

@[simp] theorem fixed10_length (ty cls ttl len : Nat) : (fixed10 ty cls ttl len).length = 10 := rfl

/-- CLASS field as written: class with the cache-flush bit -/
def clsBits (r : RecIn) : Nat := if r.flush then r.cls + 32768 else r.cls

theorem writeRecordBody_spec (p1 p7 : OutPacket) (r : RecIn) (ttl : Nat)
    (h : p1.writeRecordBody r ttl = .ok p7) (hsz : p1.data.size + 10 + rdNameLen r.rdata ≤ 16384) :
    ∃ (rd : BList) (new : Names),
      p7.data = p1.data ++ (fixed10 r.ty (clsBits r) ttl (rd.length % 65536) ++ rd).toArray ∧
      p7.finished = p1.finished ∧ p7.names = new ++ p1.names ∧
      (∀ e ∈ new, p1.data.size ≤ e.2 ∧ e.2 < p1.data.size + 10 + rd.length) ∧
      ∀ D : Data, D.size = p1.data.size → NamesOK D p1.names →
        NamesOK (D ++ (fixed10 r.ty (clsBits r) ttl (rd.length % 65536) ++ rd).toArray) p7.names ∧
        (RDataWF r.ty r.rdata → ∀ x : Data,
          Ref.readRData (D ++ (fixed10 r.ty (clsBits r) ttl (rd.length % 65536) ++ rd).toArray ++ x)
            r.ty (D.size + 10) rd.length = some (expRData r.rdata)) := by
  simp only [OutPacket.writeRecordBody] at h
  split at h
  · simp at h
  · simp at h
  · rename_i p6 h6
    obtain ⟨rd, new, a1, a2, a3, a4, a5⟩ := writeRData_spec _ p6 r.rdata h6 (by simp; omega)
    have hi := insertShort_data _ _ _ _ h
    obtain ⟨i1, i2, i3⟩ := insertShort_ok _ _ _ _ h
    have hlen : p6.data.size - ((((p1.writeShort r.ty).writeShort
        (if r.flush = true then r.cls + 32768 else r.cls)).writeU32 ttl).writeShort 0).data.size = rd.length := by
      rw [a1]; simp; omega
    rw [hlen] at hi
    have hA : p6.data = (p1.data ++ (be16 r.ty ++ be16 (clsBits r) ++ be32 ttl).toArray) ++ (be16 0 ++ rd).toArray := by
      rw [a1]; apply Array.toList_inj.mp; simp [clsBits]
    have hidx : ((((p1.writeShort r.ty).writeShort
        (if r.flush = true then r.cls + 32768 else r.cls)).writeU32 ttl).writeShort 0).data.size - 2 =
        (p1.data ++ (be16 r.ty ++ be16 (clsBits r) ++ be32 ttl).toArray).size := by simp
    rw [hidx, hA, insertShortData_patch] at hi
    simp only [Res.ok.injEq] at hi
    have hdata : p7.data = p1.data ++ (fixed10 r.ty (clsBits r) ttl (rd.length % 65536) ++ rd).toArray := by
      rw [← hi]; apply Array.toList_inj.mp; simp [fixed10]
    refine ⟨rd, new, hdata, by rw [i3, a2]; simp, by rw [i2, a3]; simp, ?_, ?_⟩
    · intro e he; have := a4 e he; simp at this; omega
    · intro D hD hN
      have hD5 : (D ++ (fixed10 r.ty (clsBits r) ttl (rd.length % 65536)).toArray).size =
          ((((p1.writeShort r.ty).writeShort
            (if r.flush = true then r.cls + 32768 else r.cls)).writeU32 ttl).writeShort 0).data.size := by
        simp; omega
      have hN5 : NamesOK (D ++ (fixed10 r.ty (clsBits r) ttl (rd.length % 65536)).toArray)
          ((((p1.writeShort r.ty).writeShort
            (if r.flush = true then r.cls + 32768 else r.cls)).writeU32 ttl).writeShort 0).names := by
        simpa using NamesOK_append D _ _ hN
      obtain ⟨b1, b2⟩ := a5 _ hD5 hN5
      have e0 : D ++ (fixed10 r.ty (clsBits r) ttl (rd.length % 65536) ++ rd).toArray =
          D ++ (fixed10 r.ty (clsBits r) ttl (rd.length % 65536)).toArray ++ rd.toArray := by
        apply Array.toList_inj.mp; simp
      refine ⟨by rw [e0, i2]; exact b1, ?_⟩
      intro hw x
      have := b2 r.ty hw x
      rw [← e0] at this
      have s10 : (D ++ (fixed10 r.ty (clsBits r) ttl (rd.length % 65536)).toArray).size = D.size + 10 := by simp
      rw [s10] at this
      exact this

/-- the TTL an RFC 1035 reader must find -/
def ttlOf (r : RecIn) (now : Nat) : Nat := if now = 0 then r.ttl else (expires r - now) / 1000

/-- a record inside the domain of the round-trip theorem -/
def RecWF (r : RecIn) (now : Nat) : Prop :=
  wlen (labelsOf r.name) ≤ 255 ∧ r.ty < 65536 ∧ r.cls < 32768 ∧ ttlOf r now < 4294967296 ∧
  RDataWF r.ty r.rdata

theorem rdNameLen_le (ty : Nat) (rd : Wire.RData) (h : RDataWF ty rd) : rdNameLen rd ≤ 261 := by
  cases rd <;> simp only [RDataWF, rdNameLen] at * <;> omega

theorem writeRecord_spec (p p' : OutPacket) (r : RecIn) (now : Nat) (b : Bool)
    (h : p.writeRecord r now = .ok (p', b)) (hw : RecWF r now) (hs : p.data.size ≤ MAX_MSG_ABSOLUTE)
    (hb : ∀ e ∈ p.names, e.2 < p.data.size) :
    (b = false → p'.data = p.data ∧ p'.names = p.names) ∧
    (b = true → ∃ (bs : BList) (new : Names),
        p'.data = p.data ++ bs.toArray ∧ p'.names = new ++ p.names ∧ p'.finished = p.finished ∧
        (∀ e ∈ new, p.data.size ≤ e.2 ∧ e.2 < p.data.size + bs.length) ∧
        ∀ D : Data, D.size = p.data.size → NamesOK D p.names →
          NamesOK (D ++ bs.toArray) p'.names ∧
          ∀ x : Data, Ref.readRecord (D ++ bs.toArray ++ x) D.size = some (expRec r now, D.size + bs.length)) := by
  obtain ⟨w1, w2, w3, w4, w5⟩ := hw
  have hrl := rdNameLen_le _ _ w5
  simp only [MAX_MSG_ABSOLUTE] at hs
  simp only [OutPacket.writeRecord] at h
  split at h
  · simp at h
  · simp at h
  · rename_i p1 h1
    obtain ⟨nb, new1, a1, a2, a3, a4, a5, a6, a7⟩ := writeName_spec p p1 r.name h1 (by omega)
    split at h
    · simp at h
    · simp at h
    · rename_i ttl ht
      have httl : ttl = ttlOf r now := by
        unfold ttlOf at *
        split at ht
        · rename_i h0; simp only [Res.ok.injEq] at ht; simp [h0, ht]
        · rename_i h0
          simp only [remainingTtl] at ht
          split at ht
          · simp at ht
          · simp only [Res.ok.injEq] at ht
            simp only [h0, if_false] at w4 ⊢
            rw [← ht, Nat.mod_eq_of_lt w4]
      split at h
      · simp at h
      · simp at h
      · rename_i p7 h7
        have hs1 : p1.data.size = p.data.size + nb.length := by rw [a1]; simp
        obtain ⟨rd, new2, c1, c2, c3, c4, c5⟩ := writeRecordBody_spec p1 p7 r ttl h7 (by omega)
        have hs7 : p7.data.size = p.data.size + nb.length + 10 + rd.length := by
          rw [c1, a1]; simp; omega
        split at h
        · -- roll-back
          rename_i hbig
          simp only [Res.ok.injEq, Prod.mk.injEq] at h
          obtain ⟨rfl, rfl⟩ := h
          refine ⟨fun _ => ⟨?_, ?_⟩, fun hc => by simp at hc⟩
          · rw [rollback_data, c1, a1, Array.append_assoc, extract_append_left]
          · rw [rollback_names, c3, a3]
            simp only [List.filter_append]
            have f1 : new2.filter (fun e => decide (e.2 < p.data.size)) = [] := by
              apply List.filter_eq_nil_iff.mpr
              intro e he; have := c4 e he; simp; omega
            have f2 : new1.filter (fun e => decide (e.2 < p.data.size)) = [] := by
              apply List.filter_eq_nil_iff.mpr
              intro e he; have := a6 e he; simp; omega
            have f3 : p.names.filter (fun e => decide (e.2 < p.data.size)) = p.names := by
              apply List.filter_eq_self.mpr
              intro e he; simpa using hb e he
            rw [f1, f2, f3]; simp
        · -- the record fits
          rename_i hfit
          simp only [Res.ok.injEq, Prod.mk.injEq] at h
          obtain ⟨rfl, rfl⟩ := h
          refine ⟨fun hc => by simp at hc, fun _ => ?_⟩
          simp only [MAX_MSG_ABSOLUTE] at hfit
          have hrd : rd.length % 65536 = rd.length := Nat.mod_eq_of_lt (by omega)
          rw [hrd] at c1 c5
          refine ⟨nb ++ (fixed10 r.ty (clsBits r) ttl rd.length ++ rd), new2 ++ new1, ?_, ?_, ?_, ?_, ?_⟩
          · rw [c1, a1]; apply Array.toList_inj.mp; simp
          · rw [c3, a3]; simp
          · rw [c2, a2]
          · intro e he
            simp only [List.mem_append] at he
            rcases he with he | he
            · have := c4 e he; simp; omega
            · have := a6 e he; simp; omega
          · intro D hD hN
            obtain ⟨b1, b2⟩ := a7 D hD hN
            have hD1 : (D ++ nb.toArray).size = p1.data.size := by rw [hs1]; simp; omega
            obtain ⟨d1, d2⟩ := c5 _ hD1 b1
            have e0 : D ++ (nb ++ (fixed10 r.ty (clsBits r) ttl rd.length ++ rd)).toArray =
                D ++ nb.toArray ++ (fixed10 r.ty (clsBits r) ttl rd.length ++ rd).toArray := by
              apply Array.toList_inj.mp; simp
            refine ⟨by rw [e0]; exact d1, ?_⟩
            intro x
            have rn := b2 w1 ((fixed10 r.ty (clsBits r) ttl rd.length ++ rd).toArray ++ x)
            rw [← Array.append_assoc, ← e0] at rn
            have rr := d2 w5 x
            rw [← e0] at rr
            have so : (D ++ nb.toArray).size = D.size + nb.length := by simp
            rw [so] at rr
            -- the ten fixed bytes
            have hF : (D ++ (nb ++ (fixed10 r.ty (clsBits r) ttl rd.length ++ rd)).toArray ++ x).toList =
                (D.toList ++ nb) ++ (be16 r.ty ++ (be16 (clsBits r) ++ (be32 ttl ++ (be16 rd.length ++ (rd ++ x.toList))))) := by
              simp [fixed10]
            have u1 := u16_of_toList _ (D.toList ++ nb) _ r.ty hF
            have u2 := u16_of_toList _ (D.toList ++ nb ++ be16 r.ty) (be32 ttl ++ (be16 rd.length ++ (rd ++ x.toList))) (clsBits r) (by rw [hF]; simp)
            have u3 := u32_of_toList _ (D.toList ++ nb ++ be16 r.ty ++ be16 (clsBits r)) (be16 rd.length ++ (rd ++ x.toList)) ttl (by rw [hF]; simp)
            have u4 := u16_of_toList _ (D.toList ++ nb ++ be16 r.ty ++ be16 (clsBits r) ++ be32 ttl) (rd ++ x.toList) rd.length
              (by rw [hF]; simp)
            simp only [List.length_append, Array.length_toList, be16_length, be32_length] at u1 u2 u3 u4
            have hcls : clsBits r < 65536 := by unfold clsBits; split <;> omega
            rw [Nat.mod_eq_of_lt w2] at u1
            rw [Nat.mod_eq_of_lt hcls] at u2
            rw [Nat.mod_eq_of_lt (by rw [httl]; exact w4)] at u3
            rw [Nat.mod_eq_of_lt (by omega)] at u4
            unfold Ref.readRecord
            rw [rn]
            simp only []
            rw [u1, show D.size + nb.length + 2 + 2 = D.size + nb.length + 4 by omega] at *
            rw [show D.size + nb.length + 4 + 4 = D.size + nb.length + 8 by omega] at u4
            rw [u2, u3, u4]
            simp only []
            have hle : D.size + nb.length + 10 + rd.length ≤
                (D ++ (nb ++ (fixed10 r.ty (clsBits r) ttl rd.length ++ rd)).toArray ++ x).size := by
              simp; omega
            simp only [hle, if_true, rr]
            simp only [expRec, Option.some.injEq, Prod.mk.injEq]
            refine ⟨?_, by simp; omega⟩
            have k1 : clsBits r % 32768 = r.cls := by unfold clsBits; split <;> omega
            have k2 : decide (clsBits r ≥ 32768) = r.flush := by
              unfold clsBits; cases hf : r.flush <;> simp <;> omega
            rw [k1, k2, httl]
            rfl

theorem insertShortData_prefix (H B d' : Data) (i v : Nat) (hi : i + 2 ≤ H.size)
    (h : insertShortData (H ++ B) i v = .ok d') : ∃ H' : Data, H'.size = H.size ∧ d' = H' ++ B := by
  unfold insertShortData at h
  split at h
  · simp only [Res.ok.injEq] at h
    refine ⟨(H.setIfInBounds i (UInt8.ofNat (v / 256))).setIfInBounds (i + 1) (UInt8.ofNat v), by simp, ?_⟩
    rw [← h]
    apply Array.toList_inj.mp
    have h1 : i < H.toList.length := by simp; omega
    have h2 : i + 1 < (H.toList.set i (UInt8.ofNat (v / 256))).length := by simp; omega
    simp only [Array.toList_setIfInBounds, Array.toList_append]
    rw [List.set_append_left _ _ h1, List.set_append_left _ _ h2]
  · simp at h

theorem insertShort_prefix (p p' : OutPacket) (H B : Data) (i v : Nat) (hp : p.data = H ++ B)
    (hi : i + 2 ≤ H.size) (h : p.insertShort i v = .ok p') :
    ∃ H' : Data, H'.size = H.size ∧ p'.data = H' ++ B := by
  have := insertShort_data _ _ _ _ h
  rw [hp] at this
  exact insertShortData_prefix H B _ i v hi this

theorem writeHeader_prefix (p p' : OutPacket) (H B : Data) (id flags qc anc auc adc : Nat)
    (hp : p.data = H ++ B) (hH : H.size = 12) (h : p.writeHeader id flags qc anc auc adc = .ok p') :
    ∃ H' : Data, H'.size = 12 ∧ p'.data = H' ++ B := by
  simp only [OutPacket.writeHeader] at h
  cases h0 : p.insertShort 0 id with
  | err => simp [h0] at h
  | panic => simp [h0] at h
  | ok p0 =>
  simp only [h0] at h
  obtain ⟨H0, s0, d0⟩ := insertShort_prefix _ _ H B _ _ hp (by omega) h0
  cases h1 : p0.insertShort 2 flags with
  | err => simp [h1] at h
  | panic => simp [h1] at h
  | ok p1 =>
  simp only [h1] at h
  obtain ⟨H1, s1, d1⟩ := insertShort_prefix _ _ H0 B _ _ d0 (by omega) h1
  cases h2 : p1.insertShort 4 qc with
  | err => simp [h2] at h
  | panic => simp [h2] at h
  | ok p2 =>
  simp only [h2] at h
  obtain ⟨H2, s2, d2⟩ := insertShort_prefix _ _ H1 B _ _ d1 (by omega) h2
  cases h3 : p2.insertShort 6 anc with
  | err => simp [h3] at h
  | panic => simp [h3] at h
  | ok p3 =>
  simp only [h3] at h
  obtain ⟨H3, s3, d3⟩ := insertShort_prefix _ _ H2 B _ _ d2 (by omega) h3
  cases h4 : p3.insertShort 8 auc with
  | err => simp [h4] at h
  | panic => simp [h4] at h
  | ok p4 =>
  simp only [h4] at h
  obtain ⟨H4, s4, d4⟩ := insertShort_prefix _ _ H3 B _ _ d3 (by omega) h4
  cases h5 : p4.insertShort 10 adc with
  | err => simp [h5] at h
  | panic => simp [h5] at h
  | ok p5 =>
  simp only [h5, Res.ok.injEq] at h
  obtain ⟨H5, s5, d5⟩ := insertShort_prefix _ _ H4 B _ _ d4 (by omega) h5
  subst h
  exact ⟨H5, by omega, d5⟩

/-- the empty header of a packet under construction -/
def hdr0 : Data := Array.replicate 12 0

@[simp] theorem hdr0_size : hdr0.size = 12 := by simp [hdr0]

/-- Invariant of a packet under construction, for ANY content `H` of the twelve header
    bytes (the header is patched at the very end): the compression table is sound, and an
    RFC 1035 reader finds, after the header, exactly `nq` questions `qexp` followed by the
    records `rexp`, ending where the packet ends - also when more bytes `x` follow. -/
def Inv (p : OutPacket) (nq : Nat) (qexp : List Ref.Question) (rexp : List Ref.Record) : Prop :=
  ∃ (body : BList) (o1 : Nat),
    p.data = hdr0 ++ body.toArray ∧ 12 + 5 * nq + 11 * rexp.length ≤ p.data.size ∧
    ∀ H : Data, H.size = 12 →
      NamesOK (H ++ body.toArray) p.names ∧
      ∀ x : Data,
        Ref.readMany (Ref.readQuestion (H ++ body.toArray ++ x)) nq 12 = some (qexp, o1) ∧
        Ref.readMany (Ref.readRecord (H ++ body.toArray ++ x)) rexp.length o1 = some (rexp, 12 + body.length)

theorem Inv_new : Inv OutPacket.new 0 [] [] := by
  refine ⟨[], 12, by simp [OutPacket.new, hdr0], by simp, ?_⟩
  intro H hH
  refine ⟨by intro e he; simp [OutPacket.new] at he, ?_⟩
  intro x
  simp [Ref.readMany]

theorem Inv_names_lt (p : OutPacket) (nq : Nat) (qexp : List Ref.Question) (rexp : List Ref.Record)
    (h : Inv p nq qexp rexp) : ∀ e ∈ p.names, e.2 < p.data.size := by
  obtain ⟨body, o1, h1, _, h3⟩ := h
  intro e he
  have := ((h3 hdr0 hdr0_size).1 e he).1
  rw [h1]; exact this

theorem Inv_question (p p' : OutPacket) (nq : Nat) (qexp : List Ref.Question) (q : QIn)
    (hi : Inv p nq qexp []) (h : p.writeQuestion q = .ok p') (hw : QWF q)
    (hs : p.data.size ≤ MAX_MSG_ABSOLUTE) : Inv p' (nq + 1) (qexp ++ [expQ q]) [] := by
  obtain ⟨body, o1, h1, h2, h3⟩ := hi
  simp only [MAX_MSG_ABSOLUTE] at hs
  obtain ⟨bs, new, a1, a2, a3, a4, a5⟩ := writeQuestion_spec p p' q h (by have := hw.1; omega)
  have hsz : p.data.size = 12 + body.length := by rw [h1]; simp
  have hgrow := writeQuestion_ok _ _ _ h
  refine ⟨body ++ bs, 12 + (body ++ bs).length, ?_, by simp at h2 ⊢; omega, ?_⟩
  · rw [a1, h1]; apply Array.toList_inj.mp; simp
  · intro H hH
    obtain ⟨n1, n2⟩ := h3 H hH
    have hD : (H ++ body.toArray).size = p.data.size := by rw [hsz]; simp; omega
    obtain ⟨b1, b2⟩ := a5 _ hD n1
    have e0 : H ++ (body ++ bs).toArray = H ++ body.toArray ++ bs.toArray := by
      apply Array.toList_inj.mp; simp
    refine ⟨by rw [e0]; exact b1, ?_⟩
    intro x
    have e1 : H ++ (body ++ bs).toArray ++ x = H ++ body.toArray ++ (bs.toArray ++ x) := by
      apply Array.toList_inj.mp; simp
    obtain ⟨m1, m2⟩ := n2 (bs.toArray ++ x)
    simp only [List.length_nil, Ref.readMany, Option.some.injEq, Prod.mk.injEq, true_and] at m2
    have rq := b2 hw x
    rw [← e0] at rq
    have sD : (H ++ body.toArray).size = 12 + body.length := by simp; omega
    rw [sD] at rq
    refine ⟨?_, by simp [Ref.readMany]⟩
    rw [← e1] at m1
    apply Ref.readMany_snoc _ _ _ _ _ _ _ m1
    rw [m2, rq]
    simp; omega

theorem Inv_record (p p' : OutPacket) (nq : Nat) (qexp : List Ref.Question) (rexp : List Ref.Record)
    (r : RecIn) (now : Nat) (b : Bool)
    (hi : Inv p nq qexp rexp) (h : p.writeRecord r now = .ok (p', b)) (hw : RecWF r now)
    (hs : p.data.size ≤ MAX_MSG_ABSOLUTE) :
    Inv p' nq qexp (if b then rexp ++ [expRec r now] else rexp) := by
  have hb := Inv_names_lt _ _ _ _ hi
  obtain ⟨body, o1, h1, h2, h3⟩ := hi
  obtain ⟨s1, s2⟩ := writeRecord_spec p p' r now b h hw hs hb
  have hsz : p.data.size = 12 + body.length := by rw [h1]; simp
  cases b with
  | false =>
    obtain ⟨d1, d2⟩ := s1 rfl
    simp only [Bool.false_eq_true, if_false]
    exact ⟨body, o1, by rw [d1, h1], by rw [d1]; exact h2, by rw [d2]; exact h3⟩
  | true =>
    obtain ⟨bs, new, a1, a2, a3, a4, a5⟩ := s2 rfl
    have hgrow := (writeRecord_ok _ _ _ _ _ h).1 rfl
    simp only [if_true]
    refine ⟨body ++ bs, o1, ?_, by simp at h2 ⊢; omega, ?_⟩
    · rw [a1, h1]; apply Array.toList_inj.mp; simp
    · intro H hH
      obtain ⟨n1, n2⟩ := h3 H hH
      have hD : (H ++ body.toArray).size = p.data.size := by rw [hsz]; simp; omega
      obtain ⟨b1, b2⟩ := a5 _ hD n1
      have e0 : H ++ (body ++ bs).toArray = H ++ body.toArray ++ bs.toArray := by
        apply Array.toList_inj.mp; simp
      refine ⟨by rw [e0]; exact b1, ?_⟩
      intro x
      have e1 : H ++ (body ++ bs).toArray ++ x = H ++ body.toArray ++ (bs.toArray ++ x) := by
        apply Array.toList_inj.mp; simp
      obtain ⟨m1, m2⟩ := n2 (bs.toArray ++ x)
      rw [← e1] at m1 m2
      have rr := b2 x
      rw [← e0] at rr
      have sD : (H ++ body.toArray).size = 12 + body.length := by simp; omega
      rw [sD] at rr
      refine ⟨m1, ?_⟩
      have := Ref.readMany_snoc _ _ _ _ _ _ _ m2 rr
      simpa [Nat.add_assoc] using this

theorem Inv_questions (qs : List QIn) : ∀ (p p' : OutPacket) (nq : Nat) (qexp : List Ref.Question),
    Inv p nq qexp [] → writeQuestions p qs = .ok p' → (∀ q ∈ qs, QWF q) →
    p'.data.size ≤ MAX_MSG_ABSOLUTE → Inv p' (nq + qs.length) (qexp ++ qs.map expQ) [] := by
  induction qs with
  | nil =>
    intro p p' nq qexp hi h _ _
    simp only [writeQuestions, Res.ok.injEq] at h; subst h
    simpa using hi
  | cons q qs ih =>
    intro p p' nq qexp hi h hw hs
    simp only [writeQuestions] at h
    split at h
    · rename_i p1 h1
      have g1 := writeQuestion_ok _ _ _ h1
      have g2 := writeQuestions_ok _ _ _ h
      have i1 := Inv_question p p1 nq qexp q hi h1 (hw q List.mem_cons_self) (by omega)
      have := ih p1 p' (nq + 1) (qexp ++ [expQ q]) i1 h (fun x hx => hw x (List.mem_cons_of_mem _ hx)) hs
      simpa [Nat.add_assoc, Nat.add_comm 1] using this
    · simp at h
    · simp at h

theorem Inv_answers (as : List (RecIn × Nat)) : ∀ (p p' : OutPacket) (c c' : Nat) (w w' : List (RecIn × Nat))
    (nq : Nat) (qexp : List Ref.Question) (rexp : List Ref.Record),
    Inv p nq qexp rexp → writeAnswers p c w as = .ok (p', c', w') → (∀ a ∈ as, RecWF a.1 a.2) →
    p.data.size ≤ MAX_MSG_ABSOLUTE →
    ∃ s, w' = w ++ s ∧ Inv p' nq qexp (rexp ++ s.map (fun a => expRec a.1 a.2)) ∧
      p'.data.size ≤ MAX_MSG_ABSOLUTE := by
  induction as with
  | nil =>
    intro p p' c c' w w' nq qexp rexp hi h _ hs
    simp only [writeAnswers, Res.ok.injEq, Prod.mk.injEq] at h
    obtain ⟨rfl, rfl, rfl⟩ := h
    exact ⟨[], by simp, by simpa using hi, hs⟩
  | cons a as ih =>
    intro p p' c c' w w' nq qexp rexp hi h hw hs
    obtain ⟨r, now⟩ := a
    have hr := hw (r, now) List.mem_cons_self
    have ht := fun x hx => hw x (List.mem_cons_of_mem _ hx)
    simp only [writeAnswers] at h
    split at h
    · rename_i p1 h1
      have i1 := Inv_record p p1 nq qexp rexp r now true hi h1 hr hs
      have g1 := ((writeRecord_ok _ _ _ _ _ h1).1 rfl).2
      obtain ⟨s, e1, e2, e3⟩ := ih p1 p' _ c' _ w' nq qexp _ i1 h ht g1
      refine ⟨(r, now) :: s, by simp [e1], ?_, e3⟩
      simpa using e2
    · rename_i p1 h1
      have i1 := Inv_record p p1 nq qexp rexp r now false hi h1 hr hs
      have g1 := (writeRecord_ok _ _ _ _ _ h1).2 rfl
      obtain ⟨s, e1, e2, e3⟩ := ih p1 p' _ c' _ w' nq qexp _ i1 h ht (by omega)
      exact ⟨s, e1, e2, e3⟩
    · simp at h
    · simp at h

theorem Inv_authorities (as : List RecIn) : ∀ (p p' : OutPacket) (c c' : Nat) (w w' : List RecIn)
    (nq : Nat) (qexp : List Ref.Question) (rexp : List Ref.Record),
    Inv p nq qexp rexp → writeAuthorities p c w as = .ok (p', c', w') → (∀ r ∈ as, RecWF r 0) →
    p.data.size ≤ MAX_MSG_ABSOLUTE →
    ∃ s, w' = w ++ s ∧ Inv p' nq qexp (rexp ++ s.map (expRec · 0)) ∧ p'.data.size ≤ MAX_MSG_ABSOLUTE := by
  induction as with
  | nil =>
    intro p p' c c' w w' nq qexp rexp hi h _ hs
    simp only [writeAuthorities, Res.ok.injEq, Prod.mk.injEq] at h
    obtain ⟨rfl, rfl, rfl⟩ := h
    exact ⟨[], by simp, by simpa using hi, hs⟩
  | cons r as ih =>
    intro p p' c c' w w' nq qexp rexp hi h hw hs
    have hr := hw r List.mem_cons_self
    have ht := fun x hx => hw x (List.mem_cons_of_mem _ hx)
    simp only [writeAuthorities] at h
    split at h
    · rename_i p1 h1
      have i1 := Inv_record p p1 nq qexp rexp r 0 true hi h1 hr hs
      have g1 := ((writeRecord_ok _ _ _ _ _ h1).1 rfl).2
      obtain ⟨s, e1, e2, e3⟩ := ih p1 p' _ c' _ w' nq qexp _ i1 h ht g1
      refine ⟨r :: s, by simp [e1], ?_, e3⟩
      simpa using e2
    · rename_i p1 h1
      have i1 := Inv_record p p1 nq qexp rexp r 0 false hi h1 hr hs
      have g1 := (writeRecord_ok _ _ _ _ _ h1).2 rfl
      obtain ⟨s, e1, e2, e3⟩ := ih p1 p' _ c' _ w' nq qexp _ i1 h ht (by omega)
      exact ⟨s, e1, e2, e3⟩
    · simp at h
    · simp at h

/-- expected records of a packet, in wire order -/
def ghostRecs (g : Ghost) : List Ref.Record :=
  g.an.map (fun a => expRec a.1 a.2) ++ (g.au.map (expRec · 0) ++ g.ad.map (expRec · 0))

theorem header_parse (p p' : OutPacket) (g : Ghost) (id flags qc anc auc adc : Nat)
    (h : p.writeHeader id flags qc anc auc adc = .ok p')
    (hi : Inv p g.qs.length (g.qs.map expQ) (ghostRecs g)) (hs : p.data.size ≤ MAX_MSG_ABSOLUTE)
    (hq : qc % 65536 = g.qs.length % 65536) (ha : anc = g.an.length) (hu : auc = g.au.length)
    (hd : adc = g.ad.length) :
    Ref.parse p'.data = some
      { id := id % 65536, flags := flags % 65536, questions := g.qs.map expQ,
        answers := g.an.map (fun a => expRec a.1 a.2), authorities := g.au.map (expRec · 0),
        additionals := g.ad.map (expRec · 0) } := by
  obtain ⟨body, o1, h1, h2, h3⟩ := hi
  simp only [MAX_MSG_ABSOLUTE] at hs
  obtain ⟨H', hH', hd'⟩ := writeHeader_prefix p p' hdr0 body.toArray _ _ _ _ _ _ h1 hdr0_size h
  obtain ⟨hsz, hh⟩ := writeHeader_ok _ _ _ _ _ _ _ _ h
  obtain ⟨_, n2⟩ := h3 H' hH'
  obtain ⟨m1, m2⟩ := n2 #[]
  simp only [Array.append_empty] at m1 m2
  rw [← hd'] at m1 m2
  have hlen : (ghostRecs g).length = g.an.length + (g.au.length + g.ad.length) := by
    simp [ghostRecs]
  rw [hlen] at m2 h2
  obtain ⟨o2, r1, r2⟩ := Ref.readMany_split _ _ _ _ _ _ m2
  obtain ⟨o3, r3, r4⟩ := Ref.readMany_split _ _ _ _ _ _ r2
  have t1 : (ghostRecs g).take g.an.length = g.an.map (fun a => expRec a.1 a.2) := by
    simp [ghostRecs]
  have t2 : (ghostRecs g).drop g.an.length = g.au.map (expRec · 0) ++ g.ad.map (expRec · 0) := by
    have : g.an.length = (g.an.map (fun a => expRec a.1 a.2)).length := by simp
    rw [ghostRecs, this, List.drop_left]
  rw [t1] at r1
  rw [t2] at r3 r4
  have t3 : (g.au.map (expRec · 0) ++ g.ad.map (expRec · 0)).take g.au.length = g.au.map (expRec · 0) := by
    simp
  have t4 : (g.au.map (expRec · 0) ++ g.ad.map (expRec · 0)).drop g.au.length = g.ad.map (expRec · 0) := by
    have : g.au.length = (g.au.map (expRec · 0)).length := by simp
    rw [this, List.drop_left]
  rw [t3] at r3
  rw [t4] at r4
  have c1 : qc % 65536 = g.qs.length := by rw [hq]; apply Nat.mod_eq_of_lt; omega
  have c2 : anc % 65536 = g.an.length := by rw [ha]; apply Nat.mod_eq_of_lt; omega
  have c3 : auc % 65536 = g.au.length := by rw [hu]; apply Nat.mod_eq_of_lt; omega
  have c4 : adc % 65536 = g.ad.length := by rw [hd]; apply Nat.mod_eq_of_lt; omega
  have hend : 12 + body.length = p'.data.size := by rw [hsz, h1]; simp
  unfold Ref.parse
  rw [hh.id, hh.flags, hh.qc, hh.anc, hh.auc, hh.adc, c1, c2, c3, c4]
  simp only [m1, r1, r3, r4, hend, if_true]

/-- what an RFC 1035 reader must return for a finished packet that carries `g` -/
def expMsg (o : OutMsg) (id : Nat) (tc : Bool) (g : Ghost) : Ref.Msg :=
  { id := id % 65536, flags := (if tc then o.flags ||| FLAGS_TC else o.flags) % 65536,
    questions := g.qs.map expQ, answers := g.an.map (fun a => expRec a.1 a.2),
    authorities := g.au.map (expRec · 0), additionals := g.ad.map (expRec · 0) }

/-- the reference reader accepts the packet and finds exactly what the packet carries -/
def ParseOK (o : OutMsg) (id : Nat) (tc : Bool) (p : Packet) : Prop :=
  Ref.parse p.data = some (expMsg o id tc p.ghost)

theorem finish_parse (o : OutMsg) (id : Nat) (st : LoopSt) (ps : List Packet) (h : finish o id st = .ok ps)
    (s1 : StInv MAX_MSG_ABSOLUTE st)
    (s2 : Inv st.packet st.ghost.qs.length (st.ghost.qs.map expQ) (ghostRecs st.ghost)) :
    ∃ last, ps = st.done ++ [last] ∧ ParseOK o id false last := by
  simp only [finish] at h
  split at h
  · rename_i p hp
    simp only [Res.ok.injEq] at h
    refine ⟨_, h.symm, ?_⟩
    have := header_parse _ _ st.ghost _ _ _ _ _ _ hp s2 s1.hi s1.qc s1.anc s1.auc s1.adc
    simpa [ParseOK, expMsg] using this
  · simp at h
  · simp at h

theorem writeAdditionals_parse (o : OutMsg) (id : Nat) (rs : List RecIn) : ∀ (st : LoopSt) (ps : List Packet),
    writeAdditionals o id st rs = .ok ps → StInv MAX_MSG_ABSOLUTE st →
    Inv st.packet st.ghost.qs.length (st.ghost.qs.map expQ) (ghostRecs st.ghost) →
    (∀ r ∈ rs, RecWF r 0) → (∀ p ∈ st.done, ParseOK o id true p) →
    ∃ init last, ps = init ++ [last] ∧ (∀ p ∈ init, ParseOK o id true p) ∧ ParseOK o id false last := by
  induction rs with
  | nil =>
    intro st ps h s1 s2 _ hd
    simp only [writeAdditionals] at h
    obtain ⟨last, e, hl⟩ := finish_parse _ _ _ _ h s1 s2
    exact ⟨st.done, last, e, hd, hl⟩
  | cons r rest ih =>
    intro st ps h s1 s2 hw hd
    have hr := hw r List.mem_cons_self
    have ht := fun x hx => hw x (List.mem_cons_of_mem _ hx)
    simp only [writeAdditionals] at h
    split at h
    · simp at h
    · simp at h
    · rename_i p' h1
      have g1 := (writeRecord_ok _ _ _ _ _ h1).1 rfl
      have i1 := Inv_record _ _ _ _ _ r 0 true s2 h1 hr s1.hi
      refine ih _ ps h ⟨?_, ?_, s1.qc, s1.anc, s1.auc, ?_⟩ ?_ ht hd
      · have := s1.lo; simp only []; omega
      · simp only []; omega
      · simp [s1.adc]
      · simp only [if_true] at i1
        simpa [ghostRecs] using i1
    · rename_i p' h1
      have g1 := (writeRecord_ok _ _ _ _ _ h1).2 rfl
      have i1 := Inv_record _ _ _ _ _ r 0 false s2 h1 hr s1.hi
      simp only [Bool.false_eq_true, if_false] at i1
      have s1' : StInv MAX_MSG_ABSOLUTE { st with packet := p' } :=
        ⟨by have := s1.lo; simp only []; omega, by have := s1.hi; simp only []; omega,
          s1.qc, s1.anc, s1.auc, s1.adc⟩
      split at h
      · obtain ⟨last, e, hl⟩ := finish_parse o id { st with packet := p' } ps h s1' i1
        exact ⟨st.done, last, e, hd, hl⟩
      · split at h
        · simp at h
        · simp at h
        · rename_i full hf
          have pf := header_parse _ _ st.ghost _ _ _ _ _ _ hf i1 s1'.hi s1.qc s1.anc s1.auc s1.adc
          split at h
          · simp at h
          · simp at h
          · rename_i p2 b h2
            have g2 := writeRecord_ok _ _ _ _ _ h2
            have i2 := Inv_record _ _ 0 [] [] r 0 b Inv_new h2 hr (by simp [MAX_MSG_ABSOLUTE])
            refine ih _ ps h ⟨?_, ?_, ?_, rfl, rfl, ?_⟩ ?_ ht ?_
            · simp only []
              cases b
              · have := g2.2 rfl; simp at this; omega
              · have := g2.1 rfl; simp at this; omega
            · simp only []
              cases b
              · have := g2.2 rfl; simp at this; simp [MAX_MSG_ABSOLUTE]; omega
              · exact (g2.1 rfl).2
            · simp
            · cases b <;> simp
            · cases b <;> simpa [ghostRecs] using i2
            · intro p hp
              simp only [List.mem_append, List.mem_singleton] at hp
              rcases hp with hp | rfl
              · exact hd p hp
              · simpa [ParseOK, expMsg] using pf

/-- The domain of the round-trip theorem: names of at most 255 octets, 16-bit types,
    15-bit classes, 32-bit TTLs (for `now ≠ 0`: the remaining TTL), RDATA of the kind that
    belongs to the record type.  (Labels of at most 63 bytes are implied by the encoder
    not panicking.) -/
def MsgWF (o : OutMsg) : Prop :=
  (∀ q ∈ o.questions, QWF q) ∧ (∀ a ∈ o.answers, RecWF a.1 a.2) ∧
  (∀ r ∈ o.authorities, RecWF r 0) ∧ (∀ r ∈ o.additionals, RecWF r 0)

theorem toPackets_parse (o : OutMsg) (ps : List Packet) (h : toPackets o = .ok ps) (hw : MsgWF o)
    (hq : questionsSize o ≤ MAX_MSG_ABSOLUTE) :
    ∃ init last, ps = init ++ [last] ∧ (∀ p ∈ init, ParseOK o (wireId o) true p) ∧
      ParseOK o (wireId o) false last := by
  simp only [toPackets] at h
  split at h
  · simp at h
  · simp at h
  · rename_i p0 h0
    have hq0 : p0.data.size ≤ MAX_MSG_ABSOLUTE := by simpa [questionsSize, h0] using hq
    have s0 := writeQuestions_ok _ _ _ h0
    have i0 := Inv_questions o.questions _ _ 0 [] Inv_new h0 hw.1 hq0
    split at h
    · simp at h
    · simp at h
    · rename_i p1 anc an h1
      obtain ⟨a1, _, a3, _⟩ := writeAnswers_ok _ _ _ _ _ _ _ h1
      obtain ⟨sa, ea, ia, za⟩ := Inv_answers o.answers _ _ _ _ _ _ _ _ _ i0 h1 hw.2.1 hq0
      split at h
      · simp at h
      · simp at h
      · rename_i p2 auc au h2
        obtain ⟨b1, _, b3, _⟩ := writeAuthorities_ok _ _ _ _ _ _ _ h2
        obtain ⟨sb, eb, ib, zb⟩ := Inv_authorities o.authorities _ _ _ _ _ _ _ _ _ ia h2 hw.2.2.1 za
        simp only [List.nil_append] at ea eb
        subst ea eb
        refine writeAdditionals_parse o _ o.additionals _ ps h ⟨?_, zb, ?_, ?_, ?_, rfl⟩ ?_ hw.2.2.2 (by simp)
        · simp only []; simp at s0; omega
        · simp
        · simp only []; simp at a3; omega
        · simp only []; simp at b3; omega
        · simpa [ghostRecs] using ib

instance (q : QIn) : Decidable (QWF q) := by unfold QWF; infer_instance
instance (ty : Nat) (rd : Wire.RData) : Decidable (RDataWF ty rd) := by
  cases rd <;> simp only [RDataWF] <;> infer_instance
instance (r : RecIn) (now : Nat) : Decidable (RecWF r now) := by unfold RecWF; infer_instance
instance (o : OutMsg) : Decidable (MsgWF o) := by unfold MsgWF; infer_instance

/-- messages that the reference reader must return for a list of packets: TC on all but the last -/
def expMsgs (o : OutMsg) : List Packet → List Ref.Msg
  | [] => []
  | [p] => [expMsg o (wireId o) false p.ghost]
  | p :: rest => expMsg o (wireId o) true p.ghost :: expMsgs o rest

theorem expMsgs_append (o : OutMsg) (init : List Packet) (last : Packet) :
    expMsgs o (init ++ [last]) =
      init.map (fun p => expMsg o (wireId o) true p.ghost) ++ [expMsg o (wireId o) false last.ghost] := by
  induction init with
  | nil => simp [expMsgs]
  | cons p rest ih =>
    cases hr : rest ++ [last] with
    | nil => simp at hr
    | cons q t =>
      simp only [List.cons_append, hr, expMsgs, List.map_cons]
      rw [← hr, ih]

theorem allSome_map_some {α : Type} (ms : List α) : allSome (ms.map some) = some ms := by
  induction ms with
  | nil => rfl
  | cons m rest ih => simp [allSome, ih]

theorem leftOut_of_sublist {α : Type} [DecidableEq α] (l : List α) :
    ∀ s : List α, s.Sublist l → (leftOut s l).isSome = true := by
  induction l with
  | nil =>
    intro s h
    have : s = [] := List.eq_nil_of_sublist_nil h
    subst this; simp [leftOut]
  | cons e es ih =>
    intro s h
    cases s with
    | nil => simp [leftOut]
    | cons g gs =>
      simp only [leftOut]
      split
      · rename_i hge
        subst hge
        apply ih
        cases h with
        | cons _ h' => exact (List.sublist_cons_self g gs).trans h'
        | cons_cons _ h' => exact h'
      · rename_i hge
        cases h with
        | cons _ h' => simpa using ih _ h'
        | cons_cons _ h' => exact absurd rfl hge

end Mdns.Enc
