import Mdns.Model.Encode
import Mdns.Spec.RefParse
/-
  Helper lemmas for C02 (encoder).
-/
namespace Mdns.Enc
open Mdns

/-! ### escaping -/

theorem parseEscapedGo_no_empty (s cur : BList) : ∀ l ∈ parseEscapedGo s cur, l ≠ [] := by
  fun_induction parseEscapedGo s cur <;> simp_all

/-- The escaped form of a byte string is consumed as a unit, whatever follows it. -/
theorem parseEscapedGo_escape (l X cur : BList) :
    parseEscapedGo (escape l ++ X) cur = parseEscapedGo X (cur ++ l) := by
  induction l generalizing cur with
  | nil => simp [escape]
  | cons c l ih =>
    have hstep : escape (c :: l) ++ X = escapeByte c ++ (escape l ++ X) := by
      simp [escape]
    rw [hstep]
    by_cases h1 : c = 0x5C
    · subst h1
      simp only [escapeByte]
      simp [parseEscapedGo, ih]
    · by_cases h2 : c = 0x2E
      · subst h2
        simp [escapeByte, parseEscapedGo, ih]
      · simp only [escapeByte, h1, h2, if_false]
        cases hX : escape l ++ X with
        | nil =>
          have := ih (cur ++ [c])
          rw [hX] at this
          simp [parseEscapedGo, h2]
          rw [show cur ++ c :: l = cur ++ [c] ++ l by simp, ← this]
          simp [parseEscapedGo]
        | cons n r =>
          simp only [List.cons_append, List.nil_append]
          rw [parseEscapedGo]
          simp only [h1, h2, if_false]
          rw [← hX, ih]
          simp

/-- an unescaped dot closes a non-empty label -/
theorem parseEscapedGo_dot (rest cur : BList) (h : cur ≠ []) :
    parseEscapedGo (0x2E :: rest) cur = cur :: parseEscapedGo rest [] := by
  cases rest with
  | nil => simp [parseEscapedGo, h]
  | cons n r => rw [parseEscapedGo]; simp [h]

end Mdns.Enc
