import Mdns.Model.Encode
import Mdns.Spec.RefParse
/-
  Helper lemmas for C02 (encoder).
-/
namespace Mdns.Enc
open Mdns

/-! ### escaping -/

theorem parseEscapedGo_no_empty (s cur : BList) : ∀ l ∈ parseEscapedGo s cur, l ≠ [] := by
  fun_induction parseEscapedGo s cur <;> simp_all

/-- The escaped form of a byte string is consumed as a unit, whatever follows it. -/
theorem parseEscapedGo_escape (l X cur : BList) :
    parseEscapedGo (escape l ++ X) cur = parseEscapedGo X (cur ++ l) := by
  induction l generalizing cur with
  | nil => simp [escape]
  | cons c l ih =>
    have hstep : escape (c :: l) ++ X = escapeByte c ++ (escape l ++ X) := by
      simp [escape]
    rw [hstep]
    by_cases h1 : c = 0x5C
    · subst h1
      simp only [escapeByte]
      simp [parseEscapedGo, ih]
    · by_cases h2 : c = 0x2E
      · subst h2
        simp [escapeByte, parseEscapedGo, ih]
      · simp only [escapeByte, h1, h2, if_false]
        cases hX : escape l ++ X with
        | nil =>
          have := ih (cur ++ [c])
          rw [hX] at this
          simp [parseEscapedGo, h2]
          rw [show cur ++ c :: l = cur ++ [c] ++ l by simp, ← this]
          simp [parseEscapedGo]
        | cons n r =>
          simp only [List.cons_append, List.nil_append]
          rw [parseEscapedGo]
          simp only [h1, h2, if_false]
          rw [← hX, ih]
          simp

/-- an unescaped dot closes a non-empty label -/
theorem parseEscapedGo_dot (rest cur : BList) (h : cur ≠ []) :
    parseEscapedGo (0x2E :: rest) cur = cur :: parseEscapedGo rest [] := by
  cases rest with
  | nil => simp [parseEscapedGo, h]
  | cons n r => rw [parseEscapedGo]; simp [h]

/-! ### primitive writers -/

@[simp] theorem writeByte_data (p : OutPacket) (v : UInt8) : (p.writeByte v).data = p.data.push v := by
  cases p; rfl
@[simp] theorem writeByte_names (p : OutPacket) (v : UInt8) : (p.writeByte v).names = p.names := by
  cases p; rfl
@[simp] theorem writeByte_finished (p : OutPacket) (v : UInt8) : (p.writeByte v).finished = p.finished := by
  cases p; rfl
@[simp] theorem writeBytes_data (p : OutPacket) (s : BList) : (p.writeBytes s).data = p.data ++ s.toArray := by
  cases p; rfl
@[simp] theorem writeBytes_names (p : OutPacket) (s : BList) : (p.writeBytes s).names = p.names := by
  cases p; rfl
@[simp] theorem writeBytes_finished (p : OutPacket) (s : BList) : (p.writeBytes s).finished = p.finished := by
  cases p; rfl
@[simp] theorem writeShort_data (p : OutPacket) (v : Nat) : (p.writeShort v).data = p.data ++ (be16 v).toArray := by
  simp [OutPacket.writeShort]
@[simp] theorem writeShort_names (p : OutPacket) (v : Nat) : (p.writeShort v).names = p.names := by
  simp [OutPacket.writeShort]
@[simp] theorem writeU32_data (p : OutPacket) (v : Nat) : (p.writeU32 v).data = p.data ++ (be32 v).toArray := by
  simp [OutPacket.writeU32]
@[simp] theorem writeU32_names (p : OutPacket) (v : Nat) : (p.writeU32 v).names = p.names := by
  simp [OutPacket.writeU32]

@[simp] theorem be16_length (v : Nat) : (be16 v).length = 2 := rfl
@[simp] theorem be32_length (v : Nat) : (be32 v).length = 4 := rfl

theorem insertShortData_size (d d' : Data) (i v : Nat) (h : insertShortData d i v = .ok d') : d'.size = d.size := by
  unfold insertShortData at h
  split at h
  · simp only [Res.ok.injEq] at h; subst h; simp
  · simp at h

theorem insertShortData_ne_err (d : Data) (i v : Nat) : insertShortData d i v ≠ .err := by
  unfold insertShortData; split <;> simp

theorem insertShort_ok (p p' : OutPacket) (i v : Nat) (h : p.insertShort i v = .ok p') :
    p'.data.size = p.data.size ∧ p'.names = p.names ∧ p'.finished = p.finished := by
  cases p with
  | mk d f ns =>
    simp only [OutPacket.insertShort] at h
    cases hd : insertShortData d i v with
    | ok d' =>
      simp only [hd, Res.ok.injEq] at h; subst h
      exact ⟨insertShortData_size d d' i v hd, rfl, rfl⟩
    | err => simp [hd] at h
    | panic => simp [hd] at h

theorem insertShort_ne_err (p : OutPacket) (i v : Nat) : p.insertShort i v ≠ .err := by
  cases p with
  | mk d f ns =>
    simp only [OutPacket.insertShort]
    cases hd : insertShortData d i v with
    | ok d' => simp
    | err => exact absurd hd (insertShortData_ne_err d i v)
    | panic => simp

theorem insertShort_ne_panic (p : OutPacket) (i v : Nat) (h : i + 2 ≤ p.data.size) : p.insertShort i v ≠ .panic := by
  cases p with
  | mk d f ns =>
    simp only [OutPacket.insertShort, insertShortData]
    simp at h
    simp [h]

@[simp] theorem writeShort_finished (p : OutPacket) (v : Nat) : (p.writeShort v).finished = p.finished := by
  simp [OutPacket.writeShort]
@[simp] theorem writeU32_finished (p : OutPacket) (v : Nat) : (p.writeU32 v).finished = p.finished := by
  simp [OutPacket.writeU32]

theorem writeUtf8_ok (p p' : OutPacket) (s : BList) (h : p.writeUtf8 s = .ok p') :
    p'.data = p.data.push (UInt8.ofNat s.length) ++ s.toArray ∧ p'.names = p.names ∧
    p'.finished = p.finished ∧ s.length < 64 := by
  unfold OutPacket.writeUtf8 at h
  split at h
  · simp only [Res.ok.injEq] at h; subst h; simp [*]
  · simp at h

theorem writeLabels_ne_err (p : OutPacket) (ls : List BList) : writeLabels p ls ≠ .err := by
  induction ls generalizing p with
  | nil => simp [writeLabels]
  | cons l rest ih =>
    simp only [writeLabels]
    split
    · simp
    · split
      · exact ih _
      · rename_i h; simp [OutPacket.writeUtf8] at h; split at h <;> simp at h
      · simp

theorem writeLabels_ne_panic (p : OutPacket) (ls : List BList) (hl : ∀ l ∈ ls, l.length < 64) :
    writeLabels p ls ≠ .panic := by
  induction ls generalizing p with
  | nil => simp [writeLabels]
  | cons l rest ih =>
    simp only [writeLabels]
    split
    · simp
    · split
      · exact ih _ (fun x hx => hl x (List.mem_cons_of_mem _ hx))
      · simp
      · rename_i h
        have := hl l (List.mem_cons_self)
        simp [OutPacket.writeUtf8, this] at h

theorem writeLabels_ok (p p' : OutPacket) (ls : List BList) (h : writeLabels p ls = .ok p') :
    p.data.size < p'.data.size ∧ p'.finished = p.finished := by
  induction ls generalizing p p' with
  | nil =>
    simp only [writeLabels, Res.ok.injEq] at h; subst h; simp
  | cons l rest ih =>
    simp only [writeLabels] at h
    split at h
    · simp only [Res.ok.injEq] at h; subst h; simp
    · split at h
      · rename_i p1 hu
        have h1 := writeUtf8_ok _ _ _ hu
        have h2 := ih _ _ h
        simp only [h1.1, Array.size_append, Array.size_push, List.size_toArray] at h2
        refine ⟨by omega, ?_⟩
        rw [h2.2, h1.2.2.1]
      · simp at h
      · simp at h

/-- every label of the textual name fits the length byte (`write_utf8` does not assert) -/
def NameOK (name : BList) : Prop := ∀ l ∈ labelsOf name, l.length < 64

def RDataOK : Wire.RData → Prop
  | .ptr n => NameOK n
  | .srv _ _ _ h => NameOK h
  | _ => True

def RecOK (r : RecIn) : Prop := NameOK r.name ∧ RDataOK r.rdata

theorem writeName_ne_err (p : OutPacket) (n : BList) : p.writeName n ≠ .err := writeLabels_ne_err _ _
theorem writeName_ne_panic (p : OutPacket) (n : BList) (h : NameOK n) : p.writeName n ≠ .panic :=
  writeLabels_ne_panic _ _ h
theorem writeName_ok (p p' : OutPacket) (n : BList) (h : p.writeName n = .ok p') :
    p.data.size < p'.data.size ∧ p'.finished = p.finished := writeLabels_ok _ _ _ h

theorem writeRData_ne_err (p : OutPacket) (rd : Wire.RData) : p.writeRData rd ≠ .err := by
  cases rd <;> simp [OutPacket.writeRData, writeName_ne_err]

theorem writeRData_ne_panic (p : OutPacket) (rd : Wire.RData) (h : RDataOK rd) : p.writeRData rd ≠ .panic := by
  cases rd <;> simp [OutPacket.writeRData] <;> exact writeName_ne_panic _ _ h

theorem writeRData_ok (p p' : OutPacket) (rd : Wire.RData) (h : p.writeRData rd = .ok p') :
    p.data.size ≤ p'.data.size ∧ p'.finished = p.finished := by
  cases rd <;> simp only [OutPacket.writeRData, Res.ok.injEq] at h
  case ptr n => have := writeName_ok _ _ _ h; exact ⟨by omega, this.2⟩
  case srv a b c n =>
    have := writeName_ok _ _ _ h
    simp at this
    exact ⟨by omega, this.2⟩
  all_goals (subst h; simp)

theorem writeRecordBody_ne_err (p : OutPacket) (r : RecIn) (ttl : Nat) : p.writeRecordBody r ttl ≠ .err := by
  simp only [OutPacket.writeRecordBody]
  split
  · rename_i h; exact absurd h (writeRData_ne_err _ _)
  · simp
  · exact insertShort_ne_err _ _ _

theorem writeRecordBody_ne_panic (p : OutPacket) (r : RecIn) (ttl : Nat) (h : RDataOK r.rdata) :
    p.writeRecordBody r ttl ≠ .panic := by
  simp only [OutPacket.writeRecordBody]
  split
  · simp
  · rename_i h'; exact absurd h' (writeRData_ne_panic _ _ h)
  · rename_i p6 h6
    have := (writeRData_ok _ _ _ h6).1
    apply insertShort_ne_panic
    simp at this ⊢
    omega

theorem writeRecordBody_ok (p p' : OutPacket) (r : RecIn) (ttl : Nat) (h : p.writeRecordBody r ttl = .ok p') :
    p.data.size + 10 ≤ p'.data.size ∧ p'.finished = p.finished := by
  simp only [OutPacket.writeRecordBody] at h
  split at h
  · simp at h
  · simp at h
  · rename_i p6 h6
    have h1 := writeRData_ok _ _ _ h6
    have h2 := insertShort_ok _ _ _ _ h
    simp at h1
    refine ⟨by omega, ?_⟩
    rw [h2.2.2, h1.2]

@[simp] theorem rollback_data (p : OutPacket) (n : Nat) : (p.rollback n).data = p.data.extract 0 n := by
  cases p; rfl
@[simp] theorem rollback_names (p : OutPacket) (n : Nat) :
    (p.rollback n).names = p.names.filter (fun e => e.2 < n) := by
  cases p; rfl

theorem remainingTtl_ne_err (r : RecIn) (now : Nat) : remainingTtl r now ≠ .err := by
  unfold remainingTtl; split <;> simp

theorem writeRecord_ne_err (p : OutPacket) (r : RecIn) (now : Nat) : p.writeRecord r now ≠ .err := by
  simp only [OutPacket.writeRecord]
  split
  · rename_i h; exact absurd h (writeName_ne_err _ _)
  · simp
  · split
    · rename_i h
      split at h
      · simp at h
      · exact absurd h (remainingTtl_ne_err _ _)
    · simp
    · split
      · rename_i h; exact absurd h (writeRecordBody_ne_err _ _ _)
      · simp
      · split <;> simp

theorem writeRecord_ne_panic (p : OutPacket) (r : RecIn) (now : Nat) (h : RecOK r)
    (hn : now = 0 ∨ now ≤ expires r) : p.writeRecord r now ≠ .panic := by
  simp only [OutPacket.writeRecord]
  split
  · simp
  · rename_i h'; exact absurd h' (writeName_ne_panic _ _ h.1)
  · split
    · simp
    · rename_i h'
      split at h'
      · simp at h'
      · rename_i hne
        have : now ≤ expires r := by rcases hn with h0 | h0; exact absurd h0 hne; exact h0
        simp [remainingTtl] at h'
        omega
    · split
      · simp
      · rename_i h'; exact absurd h' (writeRecordBody_ne_panic _ _ _ h.2)
      · split <;> simp

/-- what `write_record` does to the size of the packet -/
theorem writeRecord_ok (p p' : OutPacket) (r : RecIn) (now : Nat) (b : Bool)
    (h : p.writeRecord r now = .ok (p', b)) :
    (b = true → p.data.size + 11 ≤ p'.data.size ∧ p'.data.size ≤ MAX_MSG_ABSOLUTE) ∧
    (b = false → p'.data.size = p.data.size) := by
  simp only [OutPacket.writeRecord] at h
  split at h
  · simp at h
  · simp at h
  · rename_i p1 h1
    have s1 := (writeName_ok _ _ _ h1).1
    split at h
    · simp at h
    · simp at h
    · rename_i ttl ht
      split at h
      · simp at h
      · simp at h
      · rename_i p7 h7
        have s7 := (writeRecordBody_ok _ _ _ _ h7).1
        split at h
        · simp only [Res.ok.injEq, Prod.mk.injEq] at h
          obtain ⟨rfl, rfl⟩ := h
          simp
          omega
        · simp only [Res.ok.injEq, Prod.mk.injEq] at h
          obtain ⟨rfl, rfl⟩ := h
          simp
          omega


theorem u16_insertShortData (d d' : Data) (i v : Nat) (h : insertShortData d i v = .ok d') :
    Ref.u16 d' i = some (v % 65536) := by
  unfold insertShortData at h
  split at h
  · rename_i hi
    simp only [Res.ok.injEq] at h; subst h
    have h1 : i < d.size := by omega
    have h2 : i + 1 < d.size := by omega
    simp [Ref.u16, h1, h2]
    omega
  · simp at h

theorem u16_insertShortData_other (d d' : Data) (i v j : Nat) (h : insertShortData d i v = .ok d')
    (hj : j + 2 ≤ i ∨ i + 2 ≤ j) : Ref.u16 d' j = Ref.u16 d j := by
  unfold insertShortData at h
  split at h
  · simp only [Res.ok.injEq] at h; subst h
    have a1 : ¬ i = j := by omega
    have a2 : ¬ i + 1 = j := by omega
    have a3 : ¬ i = j + 1 := by omega
    simp [Ref.u16, a1, a2, a3]
  · simp at h

theorem insertShort_data (p p' : OutPacket) (i v : Nat) (h : p.insertShort i v = .ok p') :
    insertShortData p.data i v = .ok p'.data := by
  cases p with
  | mk d f ns =>
    simp only [OutPacket.insertShort] at h
    cases hd : insertShortData d i v with
    | ok d' => simp only [hd, Res.ok.injEq] at h; subst h; rfl
    | err => simp [hd] at h
    | panic => simp [hd] at h

theorem u16_insertShort (p p' : OutPacket) (i v : Nat) (h : p.insertShort i v = .ok p') :
    Ref.u16 p'.data i = some (v % 65536) := u16_insertShortData _ _ _ _ (insertShort_data _ _ _ _ h)

theorem u16_insertShort_other (p p' : OutPacket) (i v j : Nat) (h : p.insertShort i v = .ok p')
    (hj : j + 2 ≤ i ∨ i + 2 ≤ j) : Ref.u16 p'.data j = Ref.u16 p.data j :=
  u16_insertShortData_other _ _ _ _ _ (insertShort_data _ _ _ _ h) hj

/-- the six header fields as the reference reader sees them -/
structure HeaderIs (d : Data) (id flags qc anc auc adc : Nat) : Prop where
  id : Ref.u16 d 0 = some (id % 65536)
  flags : Ref.u16 d 2 = some (flags % 65536)
  qc : Ref.u16 d 4 = some (qc % 65536)
  anc : Ref.u16 d 6 = some (anc % 65536)
  auc : Ref.u16 d 8 = some (auc % 65536)
  adc : Ref.u16 d 10 = some (adc % 65536)

theorem writeHeader_ne_err (p : OutPacket) (id flags qc anc auc adc : Nat) :
    p.writeHeader id flags qc anc auc adc ≠ .err := by
  simp only [OutPacket.writeHeader]
  repeat (first | (split; (rename_i h; exact absurd h (insertShort_ne_err _ _ _))) | simp | split)


theorem writeHeader_ok (p p' : OutPacket) (id flags qc anc auc adc : Nat)
    (h : p.writeHeader id flags qc anc auc adc = .ok p') :
    p'.data.size = p.data.size ∧ HeaderIs p'.data id flags qc anc auc adc := by
  simp only [OutPacket.writeHeader] at h
  cases h0 : p.insertShort 0 id with
  | err => simp [h0] at h
  | panic => simp [h0] at h
  | ok p0 =>
  simp only [h0] at h
  cases h1 : p0.insertShort 2 flags with
  | err => simp [h1] at h
  | panic => simp [h1] at h
  | ok p1 =>
  simp only [h1] at h
  cases h2 : p1.insertShort 4 qc with
  | err => simp [h2] at h
  | panic => simp [h2] at h
  | ok p2 =>
  simp only [h2] at h
  cases h3 : p2.insertShort 6 anc with
  | err => simp [h3] at h
  | panic => simp [h3] at h
  | ok p3 =>
  simp only [h3] at h
  cases h4 : p3.insertShort 8 auc with
  | err => simp [h4] at h
  | panic => simp [h4] at h
  | ok p4 =>
  simp only [h4] at h
  cases h5 : p4.insertShort 10 adc with
  | err => simp [h5] at h
  | panic => simp [h5] at h
  | ok p5 =>
  simp only [h5, Res.ok.injEq] at h
  subst h
  have s0 := (insertShort_ok _ _ _ _ h0).1
  have s1 := (insertShort_ok _ _ _ _ h1).1
  have s2 := (insertShort_ok _ _ _ _ h2).1
  have s3 := (insertShort_ok _ _ _ _ h3).1
  have s4 := (insertShort_ok _ _ _ _ h4).1
  have s5 := (insertShort_ok _ _ _ _ h5).1
  refine ⟨by simp; omega, ?_, ?_, ?_, ?_, ?_, ?_⟩ <;> simp only []
  · rw [u16_insertShort_other _ _ _ _ 0 h5 (by omega), u16_insertShort_other _ _ _ _ 0 h4 (by omega),
      u16_insertShort_other _ _ _ _ 0 h3 (by omega), u16_insertShort_other _ _ _ _ 0 h2 (by omega),
      u16_insertShort_other _ _ _ _ 0 h1 (by omega)]
    exact u16_insertShort _ _ _ _ h0
  · rw [u16_insertShort_other _ _ _ _ 2 h5 (by omega), u16_insertShort_other _ _ _ _ 2 h4 (by omega),
      u16_insertShort_other _ _ _ _ 2 h3 (by omega), u16_insertShort_other _ _ _ _ 2 h2 (by omega)]
    exact u16_insertShort _ _ _ _ h1
  · rw [u16_insertShort_other _ _ _ _ 4 h5 (by omega), u16_insertShort_other _ _ _ _ 4 h4 (by omega),
      u16_insertShort_other _ _ _ _ 4 h3 (by omega)]
    exact u16_insertShort _ _ _ _ h2
  · rw [u16_insertShort_other _ _ _ _ 6 h5 (by omega), u16_insertShort_other _ _ _ _ 6 h4 (by omega)]
    exact u16_insertShort _ _ _ _ h3
  · rw [u16_insertShort_other _ _ _ _ 8 h5 (by omega)]
    exact u16_insertShort _ _ _ _ h4
  · exact u16_insertShort _ _ _ _ h5

theorem writeHeader_ne_panic (p : OutPacket) (id flags qc anc auc adc : Nat) (hs : 12 ≤ p.data.size) :
    p.writeHeader id flags qc anc auc adc ≠ .panic := by
  simp only [OutPacket.writeHeader]
  cases h0 : p.insertShort 0 id with
  | err => simp
  | panic => exact absurd h0 (insertShort_ne_panic _ _ _ (by omega))
  | ok p0 =>
  have s0 := (insertShort_ok _ _ _ _ h0).1
  simp only []
  cases h1 : p0.insertShort 2 flags with
  | err => simp
  | panic => exact absurd h1 (insertShort_ne_panic _ _ _ (by omega))
  | ok p1 =>
  have s1 := (insertShort_ok _ _ _ _ h1).1
  simp only []
  cases h2 : p1.insertShort 4 qc with
  | err => simp
  | panic => exact absurd h2 (insertShort_ne_panic _ _ _ (by omega))
  | ok p2 =>
  have s2 := (insertShort_ok _ _ _ _ h2).1
  simp only []
  cases h3 : p2.insertShort 6 anc with
  | err => simp
  | panic => exact absurd h3 (insertShort_ne_panic _ _ _ (by omega))
  | ok p3 =>
  have s3 := (insertShort_ok _ _ _ _ h3).1
  simp only []
  cases h4 : p3.insertShort 8 auc with
  | err => simp
  | panic => exact absurd h4 (insertShort_ne_panic _ _ _ (by omega))
  | ok p4 =>
  have s4 := (insertShort_ok _ _ _ _ h4).1
  simp only []
  cases h5 : p4.insertShort 10 adc with
  | err => simp
  | panic => exact absurd h5 (insertShort_ne_panic _ _ _ (by omega))
  | ok p5 => simp

theorem writeQuestion_ne_err (p : OutPacket) (q : QIn) : p.writeQuestion q ≠ .err := by
  simp only [OutPacket.writeQuestion]
  split
  · simp
  · rename_i h; exact absurd h (writeName_ne_err _ _)
  · simp

theorem writeQuestion_ne_panic (p : OutPacket) (q : QIn) (h : NameOK q.name) : p.writeQuestion q ≠ .panic := by
  simp only [OutPacket.writeQuestion]
  split
  · simp
  · simp
  · rename_i h'; exact absurd h' (writeName_ne_panic _ _ h)

theorem writeQuestion_ok (p p' : OutPacket) (q : QIn) (h : p.writeQuestion q = .ok p') :
    p.data.size + 5 ≤ p'.data.size := by
  simp only [OutPacket.writeQuestion] at h
  split at h
  · rename_i p1 h1
    have := (writeName_ok _ _ _ h1).1
    simp only [Res.ok.injEq] at h; subst h
    simp; omega
  · simp at h
  · simp at h

theorem writeQuestions_ne_err (p : OutPacket) (qs : List QIn) : writeQuestions p qs ≠ .err := by
  induction qs generalizing p with
  | nil => simp [writeQuestions]
  | cons q qs ih =>
    simp only [writeQuestions]
    split
    · exact ih _
    · rename_i h; exact absurd h (writeQuestion_ne_err _ _)
    · simp

theorem writeQuestions_ne_panic (p : OutPacket) (qs : List QIn) (h : ∀ q ∈ qs, NameOK q.name) :
    writeQuestions p qs ≠ .panic := by
  induction qs generalizing p with
  | nil => simp [writeQuestions]
  | cons q qs ih =>
    simp only [writeQuestions]
    split
    · exact ih _ (fun x hx => h x (List.mem_cons_of_mem _ hx))
    · simp
    · rename_i h'; exact absurd h' (writeQuestion_ne_panic _ _ (h q List.mem_cons_self))

theorem writeQuestions_ok (p p' : OutPacket) (qs : List QIn) (h : writeQuestions p qs = .ok p') :
    p.data.size ≤ p'.data.size := by
  induction qs generalizing p with
  | nil => simp only [writeQuestions, Res.ok.injEq] at h; subst h; exact Nat.le_refl _
  | cons q qs ih =>
    simp only [writeQuestions] at h
    split at h
    · rename_i p1 h1
      have := writeQuestion_ok _ _ _ h1
      have := ih _ h
      omega
    · simp at h
    · simp at h

/-! ### answers and authorities -/

theorem writeAnswers_ne_err (p : OutPacket) (c : Nat) (w as : List (RecIn × Nat)) :
    writeAnswers p c w as ≠ .err := by
  induction as generalizing p c w with
  | nil => simp [writeAnswers]
  | cons a as ih =>
    obtain ⟨r, now⟩ := a
    simp only [writeAnswers]
    split
    · exact ih _ _ _
    · exact ih _ _ _
    · rename_i h; exact absurd h (writeRecord_ne_err _ _ _)
    · simp

/-- an answer can be written without the TTL subtraction underflowing -/
def AnsOK (a : RecIn × Nat) : Prop := RecOK a.1 ∧ (a.2 = 0 ∨ a.2 ≤ expires a.1)

theorem writeAnswers_ne_panic (p : OutPacket) (c : Nat) (w as : List (RecIn × Nat))
    (h : ∀ a ∈ as, AnsOK a) : writeAnswers p c w as ≠ .panic := by
  induction as generalizing p c w with
  | nil => simp [writeAnswers]
  | cons a as ih =>
    obtain ⟨r, now⟩ := a
    have ht := fun x hx => h x (List.mem_cons_of_mem _ hx)
    simp only [writeAnswers]
    split
    · exact ih _ _ _ ht
    · exact ih _ _ _ ht
    · simp
    · rename_i h'
      have := h (r, now) List.mem_cons_self
      exact absurd h' (writeRecord_ne_panic _ _ _ this.1 this.2)

theorem writeAnswers_ok (p p' : OutPacket) (c c' : Nat) (w w' as : List (RecIn × Nat))
    (h : writeAnswers p c w as = .ok (p', c', w')) :
    p.data.size ≤ p'.data.size ∧
    (∀ B, MAX_MSG_ABSOLUTE ≤ B → p.data.size ≤ B → p'.data.size ≤ B) ∧
    c' + w.length = c + w'.length ∧ ∃ s, w' = w ++ s ∧ s.Sublist as := by
  induction as generalizing p c w with
  | nil =>
    simp only [writeAnswers, Res.ok.injEq, Prod.mk.injEq] at h
    obtain ⟨rfl, rfl, rfl⟩ := h
    exact ⟨Nat.le_refl _, fun _ _ h => h, rfl, [], by simp, List.Sublist.refl _⟩
  | cons a as ih =>
    obtain ⟨r, now⟩ := a
    simp only [writeAnswers] at h
    split at h
    · rename_i p1 h1
      have s := (writeRecord_ok _ _ _ _ _ h1).1 rfl
      obtain ⟨i1, i2, i3, s', i4, i5⟩ := ih _ _ _ h
      refine ⟨by omega, fun B hB hp => i2 B hB (by omega), ?_, (r, now) :: s', ?_, ?_⟩
      · simp at i3; omega
      · simp [i4]
      · exact List.Sublist.cons_cons _ i5
    · rename_i p1 h1
      have s := (writeRecord_ok _ _ _ _ _ h1).2 rfl
      obtain ⟨i1, i2, i3, s', i4, i5⟩ := ih _ _ _ h
      refine ⟨by omega, fun B hB hp => i2 B hB (by omega), i3, s', i4, ?_⟩
      exact List.Sublist.cons _ i5
    · simp at h
    · simp at h

theorem writeAuthorities_ne_err (p : OutPacket) (c : Nat) (w as : List RecIn) :
    writeAuthorities p c w as ≠ .err := by
  induction as generalizing p c w with
  | nil => simp [writeAuthorities]
  | cons r as ih =>
    simp only [writeAuthorities]
    split
    · exact ih _ _ _
    · exact ih _ _ _
    · rename_i h; exact absurd h (writeRecord_ne_err _ _ _)
    · simp

theorem writeAuthorities_ne_panic (p : OutPacket) (c : Nat) (w as : List RecIn)
    (h : ∀ r ∈ as, RecOK r) : writeAuthorities p c w as ≠ .panic := by
  induction as generalizing p c w with
  | nil => simp [writeAuthorities]
  | cons r as ih =>
    have ht := fun x hx => h x (List.mem_cons_of_mem _ hx)
    simp only [writeAuthorities]
    split
    · exact ih _ _ _ ht
    · exact ih _ _ _ ht
    · simp
    · rename_i h'
      exact absurd h' (writeRecord_ne_panic _ _ _ (h r List.mem_cons_self) (Or.inl rfl))

theorem writeAuthorities_ok (p p' : OutPacket) (c c' : Nat) (w w' as : List RecIn)
    (h : writeAuthorities p c w as = .ok (p', c', w')) :
    p.data.size ≤ p'.data.size ∧
    (∀ B, MAX_MSG_ABSOLUTE ≤ B → p.data.size ≤ B → p'.data.size ≤ B) ∧
    c' + w.length = c + w'.length ∧ ∃ s, w' = w ++ s ∧ s.Sublist as := by
  induction as generalizing p c w with
  | nil =>
    simp only [writeAuthorities, Res.ok.injEq, Prod.mk.injEq] at h
    obtain ⟨rfl, rfl, rfl⟩ := h
    exact ⟨Nat.le_refl _, fun _ _ h => h, rfl, [], by simp, List.Sublist.refl _⟩
  | cons r as ih =>
    simp only [writeAuthorities] at h
    split at h
    · rename_i p1 h1
      have s := (writeRecord_ok _ _ _ _ _ h1).1 rfl
      obtain ⟨i1, i2, i3, s', i4, i5⟩ := ih _ _ _ h
      refine ⟨by omega, fun B hB hp => i2 B hB (by omega), ?_, r :: s', ?_, ?_⟩
      · simp at i3; omega
      · simp [i4]
      · exact List.Sublist.cons_cons _ i5
    · rename_i p1 h1
      have s := (writeRecord_ok _ _ _ _ _ h1).2 rfl
      obtain ⟨i1, i2, i3, s', i4, i5⟩ := ih _ _ _ h
      refine ⟨by omega, fun B hB hp => i2 B hB (by omega), i3, s', i4, ?_⟩
      exact List.Sublist.cons _ i5
    · simp at h
    · simp at h

/-! ### the fourth loop -/

/-- the header of a finished packet agrees with the ghost lists of what it carries -/
def CountsOK (p : Packet) : Prop :=
  Ref.u16 p.data 4 = some (p.ghost.qs.length % 65536) ∧
  Ref.u16 p.data 6 = some (p.ghost.an.length % 65536) ∧
  Ref.u16 p.data 8 = some (p.ghost.au.length % 65536) ∧
  Ref.u16 p.data 10 = some (p.ghost.ad.length % 65536)

/-- a finished packet: counts, size between 12 and `B`, id, flags (with TC iff `tc`) -/
def PktOK (o : OutMsg) (id B : Nat) (tc : Bool) (p : Packet) : Prop :=
  CountsOK p ∧ 12 ≤ p.data.size ∧ p.data.size ≤ B ∧
  Ref.u16 p.data 0 = some (id % 65536) ∧
  Ref.u16 p.data 2 = some ((if tc then o.flags ||| FLAGS_TC else o.flags) % 65536)

structure StInv (B : Nat) (st : LoopSt) : Prop where
  lo : 12 ≤ st.packet.data.size
  hi : st.packet.data.size ≤ B
  qc : st.qc % 65536 = st.ghost.qs.length % 65536
  anc : st.anc = st.ghost.an.length
  auc : st.auc = st.ghost.au.length
  adc : st.adc = st.ghost.ad.length

theorem finish_ne_err (o : OutMsg) (id : Nat) (st : LoopSt) : finish o id st ≠ .err := by
  simp only [finish]
  split
  · simp
  · rename_i h; exact absurd h (writeHeader_ne_err _ _ _ _ _ _ _)
  · simp

theorem finish_ne_panic (o : OutMsg) (id : Nat) (st : LoopSt) (h : 12 ≤ st.packet.data.size) :
    finish o id st ≠ .panic := by
  simp only [finish]
  split
  · simp
  · simp
  · rename_i h'; exact absurd h' (writeHeader_ne_panic _ _ _ _ _ _ _ h)

theorem finish_ok (o : OutMsg) (id B : Nat) (st : LoopSt) (ps : List Packet) (h : finish o id st = .ok ps)
    (inv : StInv B st) :
    ∃ last, ps = st.done ++ [last] ∧ last.ghost = st.ghost ∧ PktOK o id B false last := by
  simp only [finish] at h
  split at h
  · rename_i p hp
    simp only [Res.ok.injEq] at h
    obtain ⟨hs, hh⟩ := writeHeader_ok _ _ _ _ _ _ _ _ hp
    refine ⟨_, h.symm, rfl, ⟨?_, ?_, ?_, ?_⟩, ?_, ?_, hh.id, ?_⟩
    · simp only []; rw [hh.qc, inv.qc]
    · simp only []; rw [hh.anc, inv.anc]
    · simp only []; rw [hh.auc, inv.auc]
    · simp only []; rw [hh.adc, inv.adc]
    · simp only []; rw [hs]; exact inv.lo
    · simp only []; rw [hs]; exact inv.hi
    · simpa using hh.flags
  · simp at h
  · simp at h

@[simp] theorem new_size : OutPacket.new.data.size = 12 := by simp [OutPacket.new]

theorem writeAdditionals_ne_err (o : OutMsg) (id : Nat) (st : LoopSt) (rs : List RecIn) :
    writeAdditionals o id st rs ≠ .err := by
  induction rs generalizing st with
  | nil => simp only [writeAdditionals]; exact finish_ne_err _ _ _
  | cons r rest ih =>
    simp only [writeAdditionals]
    split
    · rename_i h; exact absurd h (writeRecord_ne_err _ _ _)
    · simp
    · exact ih _
    · split
      · exact finish_ne_err _ _ _
      · split
        · rename_i h; exact absurd h (writeHeader_ne_err _ _ _ _ _ _ _)
        · simp
        · split
          · rename_i h; exact absurd h (writeRecord_ne_err _ _ _)
          · simp
          · exact ih _

theorem writeAdditionals_ne_panic (o : OutMsg) (id : Nat) (st : LoopSt) (rs : List RecIn)
    (h : ∀ r ∈ rs, RecOK r) (hs : 12 ≤ st.packet.data.size) :
    writeAdditionals o id st rs ≠ .panic := by
  induction rs generalizing st with
  | nil => simp only [writeAdditionals]; exact finish_ne_panic _ _ _ hs
  | cons r rest ih =>
    have ht := fun x hx => h x (List.mem_cons_of_mem _ hx)
    have hr := h r List.mem_cons_self
    simp only [writeAdditionals]
    split
    · simp
    · rename_i h'; exact absurd h' (writeRecord_ne_panic _ _ _ hr (Or.inl rfl))
    · rename_i p' h1
      have := (writeRecord_ok _ _ _ _ _ h1).1 rfl
      exact ih _ ht (by simp only []; omega)
    · rename_i p' h1
      have s1 := (writeRecord_ok _ _ _ _ _ h1).2 rfl
      split
      · exact finish_ne_panic _ _ _ (by simp only []; omega)
      · split
        · simp
        · rename_i h'; exact absurd h' (writeHeader_ne_panic _ _ _ _ _ _ _ (by omega))
        · split
          · simp
          · rename_i h'; exact absurd h' (writeRecord_ne_panic _ _ _ hr (Or.inl rfl))
          · rename_i p2 b h2
            apply ih _ ht
            simp only []
            have := writeRecord_ok _ _ _ _ _ h2
            cases b
            · have := this.2 rfl; simp at this; omega
            · have := this.1 rfl; simp at this; omega

theorem writeAdditionals_ok (o : OutMsg) (id B : Nat) (st : LoopSt) (rs : List RecIn) (ps : List Packet)
    (hB : MAX_MSG_ABSOLUTE ≤ B) (h : writeAdditionals o id st rs = .ok ps) (inv : StInv B st)
    (hd : ∀ p ∈ st.done, PktOK o id B true p) :
    ∃ init last, ps = init ++ [last] ∧ (∀ p ∈ init, PktOK o id B true p) ∧ PktOK o id B false last := by
  induction rs generalizing st with
  | nil =>
    simp only [writeAdditionals] at h
    obtain ⟨last, e, _, hl⟩ := finish_ok _ _ _ _ _ h inv
    exact ⟨st.done, last, e, hd, hl⟩
  | cons r rest ih =>
    simp only [writeAdditionals] at h
    split at h
    · simp at h
    · simp at h
    · rename_i p' h1
      have s1 := (writeRecord_ok _ _ _ _ _ h1).1 rfl
      refine ih _ h ⟨?_, ?_, inv.qc, inv.anc, inv.auc, ?_⟩ hd
      · have := inv.lo; simp only []; omega
      · simp only []; omega
      · simp [inv.adc]
    · rename_i p' h1
      have s1 := (writeRecord_ok _ _ _ _ _ h1).2 rfl
      split at h
      · obtain ⟨last, e, _, hl⟩ := finish_ok o id B _ _ h
          ⟨by have := inv.lo; simp only []; omega, by have := inv.hi; simp only []; omega,
            inv.qc, inv.anc, inv.auc, inv.adc⟩
        exact ⟨st.done, last, e, hd, hl⟩
      · split at h
        · simp at h
        · simp at h
        · rename_i full hf
          obtain ⟨hs, hh⟩ := writeHeader_ok _ _ _ _ _ _ _ _ hf
          split at h
          · simp at h
          · simp at h
          · rename_i p2 b h2
            have s2 := writeRecord_ok _ _ _ _ _ h2
            refine ih _ h ⟨?_, ?_, ?_, rfl, rfl, ?_⟩ ?_
            · simp only []
              cases b
              · have := s2.2 rfl; simp at this; omega
              · have := s2.1 rfl; simp at this; omega
            · simp only []
              cases b
              · have := s2.2 rfl; simp at this; simp only [MAX_MSG_ABSOLUTE] at hB; omega
              · have := s2.1 rfl; omega
            · simp
            · cases b <;> simp
            · intro p hp
              simp only [List.mem_append, List.mem_singleton] at hp
              rcases hp with hp | rfl
              · exact hd p hp
              · refine ⟨⟨?_, ?_, ?_, ?_⟩, ?_, ?_, hh.id, ?_⟩
                · simp only []; rw [hh.qc, inv.qc]
                · simp only []; rw [hh.anc, inv.anc]
                · simp only []; rw [hh.auc, inv.auc]
                · simp only []; rw [hh.adc, inv.adc]
                · have := inv.lo; simp only []; omega
                · have := inv.hi; simp only []; omega
                · simpa using hh.flags

theorem finish_ghost (o : OutMsg) (id : Nat) (st : LoopSt) (ps : List Packet) (h : finish o id st = .ok ps) :
    ∃ last, ps = st.done ++ [last] ∧ last.ghost = st.ghost := by
  simp only [finish] at h
  split at h
  · simp only [Res.ok.injEq] at h; exact ⟨_, h.symm, rfl⟩
  · simp at h
  · simp at h

/-- what the packets of the fourth loop carry, section by section -/
theorem writeAdditionals_ghost (o : OutMsg) (id : Nat) (st : LoopSt) (rs : List RecIn) (ps : List Packet)
    (h : writeAdditionals o id st rs = .ok ps) :
    ps.flatMap (·.ghost.qs) = st.done.flatMap (·.ghost.qs) ++ st.ghost.qs ∧
    ps.flatMap (·.ghost.an) = st.done.flatMap (·.ghost.an) ++ st.ghost.an ∧
    ps.flatMap (·.ghost.au) = st.done.flatMap (·.ghost.au) ++ st.ghost.au ∧
    ∃ s, ps.flatMap (·.ghost.ad) = st.done.flatMap (·.ghost.ad) ++ st.ghost.ad ++ s ∧ s.Sublist rs := by
  induction rs generalizing st with
  | nil =>
    simp only [writeAdditionals] at h
    obtain ⟨last, rfl, hl⟩ := finish_ghost _ _ _ _ h
    simp [hl]
  | cons r rest ih =>
    simp only [writeAdditionals] at h
    split at h
    · simp at h
    · simp at h
    · obtain ⟨i1, i2, i3, s, i4, i5⟩ := ih _ h
      refine ⟨i1, i2, i3, r :: s, ?_, List.Sublist.cons_cons _ i5⟩
      simp only [] at i4
      simp [i4]
    · split at h
      · obtain ⟨last, rfl, hl⟩ := finish_ghost _ _ _ _ h
        simp only [] at hl
        refine ⟨by simp [hl], by simp [hl], by simp [hl], [], by simp [hl], List.nil_sublist _⟩
      · split at h
        · simp at h
        · simp at h
        · split at h
          · simp at h
          · simp at h
          · rename_i p2 b h2
            obtain ⟨i1, i2, i3, s, i4, i5⟩ := ih _ h
            simp only [List.flatMap_append, List.flatMap_cons, List.flatMap_nil, List.append_nil] at i1 i2 i3 i4
            refine ⟨by simpa using i1, by simpa using i2, by simpa using i3, ?_⟩
            cases b
            · exact ⟨s, by simpa using i4, List.Sublist.cons _ i5⟩
            · exact ⟨r :: s, by simpa using i4, List.Sublist.cons_cons _ i5⟩

instance (n : BList) : Decidable (NameOK n) := by unfold NameOK; infer_instance
instance (rd : Wire.RData) : Decidable (RDataOK rd) := by
  cases rd <;> simp only [RDataOK] <;> infer_instance
instance (r : RecIn) : Decidable (RecOK r) := by unfold RecOK; infer_instance
instance (a : RecIn × Nat) : Decidable (AnsOK a) := by unfold AnsOK; infer_instance

/-- The domain in which the encoder cannot panic: every label of every name (owner names,
    PTR and SRV targets) has at most 63 bytes, and an answer added with `now ≠ 0` is not
    past its expiry (which `add_answer_at_time` guarantees). -/
def MsgOK (o : OutMsg) : Prop :=
  (∀ q ∈ o.questions, NameOK q.name) ∧ (∀ a ∈ o.answers, AnsOK a) ∧
  (∀ r ∈ o.authorities, RecOK r) ∧ (∀ r ∈ o.additionals, RecOK r)

instance (o : OutMsg) : Decidable (MsgOK o) := by unfold MsgOK; infer_instance

/-- the id written into every header -/
def wireId (o : OutMsg) : Nat := if o.multicast then 0 else o.id

/-- size of the packet after the question loop (12 if there are no questions) -/
def questionsSize (o : OutMsg) : Nat :=
  match writeQuestions OutPacket.new o.questions with
  | .ok p => p.data.size
  | _ => 12

theorem toPackets_ne_err (o : OutMsg) : toPackets o ≠ .err := by
  simp only [toPackets]
  split
  · rename_i h; exact absurd h (writeQuestions_ne_err _ _)
  · simp
  · split
    · rename_i h; exact absurd h (writeAnswers_ne_err _ _ _ _)
    · simp
    · split
      · rename_i h; exact absurd h (writeAuthorities_ne_err _ _ _ _)
      · simp
      · exact writeAdditionals_ne_err _ _ _ _

theorem toPackets_ne_panic (o : OutMsg) (h : MsgOK o) : toPackets o ≠ .panic := by
  simp only [toPackets]
  split
  · simp
  · rename_i h'; exact absurd h' (writeQuestions_ne_panic _ _ h.1)
  · rename_i p0 h0
    have s0 := writeQuestions_ok _ _ _ h0
    split
    · simp
    · rename_i h'; exact absurd h' (writeAnswers_ne_panic _ _ _ _ h.2.1)
    · rename_i p1 anc an h1
      have s1 := (writeAnswers_ok _ _ _ _ _ _ _ h1).1
      split
      · simp
      · rename_i h'; exact absurd h' (writeAuthorities_ne_panic _ _ _ _ h.2.2.1)
      · rename_i p2 auc au h2
        have s2 := (writeAuthorities_ok _ _ _ _ _ _ _ h2).1
        apply writeAdditionals_ne_panic _ _ _ _ h.2.2.2
        simp only []
        simp at s0
        omega

theorem toPackets_ok (o : OutMsg) (ps : List Packet) (h : toPackets o = .ok ps) :
    (∃ init last, ps = init ++ [last] ∧
      (∀ p ∈ init, PktOK o (wireId o) (max MAX_MSG_ABSOLUTE (questionsSize o)) true p) ∧
      PktOK o (wireId o) (max MAX_MSG_ABSOLUTE (questionsSize o)) false last) ∧
    ps.flatMap (·.ghost.qs) = o.questions ∧
    (ps.flatMap (·.ghost.an)).Sublist o.answers ∧
    (ps.flatMap (·.ghost.au)).Sublist o.authorities ∧
    (ps.flatMap (·.ghost.ad)).Sublist o.additionals := by
  simp only [toPackets] at h
  split at h
  · simp at h
  · simp at h
  · rename_i p0 h0
    have s0 := writeQuestions_ok _ _ _ h0
    have hq : questionsSize o = p0.data.size := by simp [questionsSize, h0]
    split at h
    · simp at h
    · simp at h
    · rename_i p1 anc an h1
      obtain ⟨a1, a2, a3, sa, a4, a5⟩ := writeAnswers_ok _ _ _ _ _ _ _ h1
      split at h
      · simp at h
      · simp at h
      · rename_i p2 auc au h2
        obtain ⟨b1, b2, b3, sb, b4, b5⟩ := writeAuthorities_ok _ _ _ _ _ _ _ h2
        have hB : MAX_MSG_ABSOLUTE ≤ max MAX_MSG_ABSOLUTE (questionsSize o) := Nat.le_max_left _ _
        have hp0 : p0.data.size ≤ max MAX_MSG_ABSOLUTE (questionsSize o) := by rw [hq]; exact Nat.le_max_right _ _
        constructor
        · refine writeAdditionals_ok o _ _ _ _ ps hB h ⟨?_, ?_, ?_, ?_, ?_, rfl⟩ (by simp)
          · simp only []; simp at s0; omega
          · exact b2 _ hB (a2 _ hB hp0)
          · simp
          · simp only []; simp at a3; omega
          · simp only []; simp at b3; omega
        · obtain ⟨g1, g2, g3, s, g4, g5⟩ := writeAdditionals_ghost _ _ _ _ _ h
          simp only [List.flatMap_nil, List.nil_append] at g1 g2 g3 g4
          refine ⟨g1, ?_, ?_, ?_⟩
          · rw [g2, a4]; simpa using a5
          · rw [g3, b4]; simpa using b5
          · rw [g4]; simpa using g5

end Mdns.Enc
