import Mdns.Lemmas.ClientFrame
/-
  Lemmas for C17 (hostname resolution) on the client model: where `AddressesFound` /
  `AddressesRemoved` events come from, the expiry floor of cached entries during an
  iteration, the provenance of the resolver table.
-/
namespace Mdns.Client
open Mdns Mdns.Rec Mdns.Cache

/-! ### which phases emit address events -/

/-- no `AddressesFound` and no `AddressesRemoved` among `outs` -/
def NoH (outs : List Out) : Prop :=
  (∀ ch h a, Out.event ch (.hfound h a) ∉ outs) ∧ (∀ ch h a, Out.event ch (.hremoved h a) ∉ outs)

theorem noH_nil : NoH [] := ⟨fun _ _ _ h => (by cases h), fun _ _ _ h => (by cases h)⟩

theorem NoH.append {a b : List Out} (ha : NoH a) (hb : NoH b) : NoH (a ++ b) := by
  refine ⟨?_, ?_⟩
  · intro ch h x hm
    rcases List.mem_append.mp hm with hm | hm
    · exact ha.1 ch h x hm
    · exact hb.1 ch h x hm
  · intro ch h x hm
    rcases List.mem_append.mp hm with hm | hm
    · exact ha.2 ch h x hm
    · exact hb.2 ch h x hm

theorem noH_resolveUpdated (s : State) (now : Nat) (u : List BList) : NoH (resolveUpdated s now u).2 := by
  unfold resolveUpdated
  split
  · exact noH_nil
  · refine ⟨?_, ?_⟩ <;> (intros; intro h; simp [notifyRemoval] at h)

theorem noH_ingestOne (q : List (BList × Nat)) (ifName : BList) (ifIdx now : Nat) (forUs : Bool) (acc : Ingest)
    (r : Wire.Rec) (h : NoH acc.outs) : NoH (ingestOne q ifName ifIdx now forUs acc r).outs := by
  unfold ingestOne
  simp only []
  repeat' split
  all_goals first
    | exact h
    | exact h.append (by refine ⟨?_, ?_⟩ <;> (intros; intro h; simp at h))

theorem noH_ingestAll (q : List (BList × Nat)) (ifName : BList) (ifIdx now : Nat) (forUs : Bool) :
    ∀ (rs : List Wire.Rec) (acc : Ingest), NoH acc.outs → NoH (ingestAll q ifName ifIdx now forUs acc rs).outs
  | [], _, h => h
  | r :: rest, acc, h => by
    simp only [ingestAll]
    exact noH_ingestAll q ifName ifIdx now forUs rest _ (noH_ingestOne q ifName ifIdx now forUs acc r h)

theorem noH_queryCacheForService (s : State) (now : Nat) (ty : BList) (ch : Nat) :
    NoH (queryCacheForService s now ty ch).2 := by
  refine ⟨?_, ?_⟩ <;>
    (intros; intro h
     simp only [queryCacheForService, List.mem_flatMap, List.mem_append, List.mem_singleton] at h
     obtain ⟨i, _, h⟩ := h
     rcases h with h | h
     · cases h
     · split at h <;> simp at h)

theorem noH_execBrowse (s : State) (now : Nat) (rep : Bool) (ty : BList) (d : Nat) (co : Bool) (ch : Nat) :
    NoH (execBrowse s now rep ty d co ch).2 := by
  have hq := fun s' => noH_queryCacheForService s' now ty ch
  have h1 : NoH [Out.event ch Ev.started] := by
    refine ⟨?_, ?_⟩ <;> (intros; intro h; simp at h)
  unfold execBrowse
  cases rep
  · simp only [Bool.false_eq_true, if_false]
    split
    · exact (h1.append (hq _)).append (by refine ⟨?_, ?_⟩ <;> (intros; intro h; simp at h))
    · exact (h1.append (hq _)).append (by refine ⟨?_, ?_⟩ <;> (intros; intro h; simp [sendQuery] at h))
  · simp only [if_true]
    split
    · refine ⟨?_, ?_⟩ <;> (intros; intro h; simp at h)
    · refine ⟨?_, ?_⟩ <;> (intros; intro h; simp [sendQuery] at h)

theorem noH_execResolveHost_rep (s : State) (now : Nat) (host : BList) (d ch : Nat) (t : Option Nat) :
    NoH (execResolveHost s now true host d ch t).2 := by
  unfold execResolveHost
  simp only []
  split
  · exact noH_nil
  · refine ⟨?_, ?_⟩ <;> (intros; intro h; simp [sendQuery] at h)

theorem noH_execStopBrowse (s : State) (ty : BList) : NoH (execStopBrowse s ty).2 := by
  unfold execStopBrowse
  split
  · exact noH_nil
  · refine ⟨?_, ?_⟩ <;> (intros; intro h; simp at h)

theorem noH_execStopResolve (s : State) (host : BList) : NoH (execStopResolve s host).2 := by
  unfold execStopResolve
  simp only []
  split
  · exact noH_nil
  · refine ⟨?_, ?_⟩ <;> (intros; intro h; simp at h)

theorem noH_execResolveInst (s : State) (now : Nat) (inst : BList) (k : Nat) : NoH (execResolveInst s now inst k).2 := by
  unfold execResolveInst
  split
  · exact noH_nil
  · refine ⟨?_, ?_⟩ <;> (intros; intro h; simp [sendQuery] at h)

theorem noH_execVerify (s : State) (now : Nat) (rep : Bool) (inst : BList) (t : Nat) :
    NoH (execVerify s now rep inst t).2 := by
  unfold execVerify
  cases rep
  · simp only [Bool.false_eq_true, if_false]
    split
    · exact noH_nil
    · refine ⟨?_, ?_⟩ <;> (intros; intro h; simp [sendQuery] at h)
  · simp only [if_true]
    split
    · exact noH_nil
    · refine ⟨?_, ?_⟩ <;> (intros; intro h; simp [sendQuery] at h)

theorem noH_execRerun (s : State) (now : Nat) (c : RCmd) : NoH (execRerun s now c).2 := by
  cases c with
  | browse ty d ch => exact noH_execBrowse s now true ty d false ch
  | resolveHost h d ch => exact noH_execResolveHost_rep s now h d ch none
  | resolve inst k => exact noH_execResolveInst s now inst k
  | verify inst t => exact noH_execVerify s now true inst t

theorem noH_runReruns (now : Nat) : ∀ (fuel : Nat) (keep rest : List Rerun) (s : State),
    NoH (runReruns s now fuel keep rest).2
  | 0, _, _, _ => noH_nil
  | _ + 1, _, [], _ => noH_nil
  | fuel + 1, keep, r :: rest, s => by
    unfold runReruns
    split
    · exact (noH_execRerun _ now r.cmd).append (noH_runReruns now fuel _ _ _)
    · exact noH_runReruns now fuel _ _ _

theorem noH_runTimeouts (s : State) (now : Nat) : NoH (runTimeouts s now).2 := by
  refine ⟨?_, ?_⟩ <;> (intros; intro h; simp [runTimeouts] at h)

theorem noH_refreshType (c : Cache) (now : Nat) (ty : BList) : NoH (refreshType c now ty).2.1 := by
  unfold refreshType
  simp only []
  refine (NoH.append ?_ ?_).append ?_
  · split
    · exact noH_nil
    · refine ⟨?_, ?_⟩ <;> (intros; intro h; simp [sendQuery] at h)
  · refine ⟨?_, ?_⟩ <;> (intros; intro h; simp [sendQuery] at h)
  · refine ⟨?_, ?_⟩ <;> (intros; intro h; simp [sendQuery] at h)

theorem noH_refreshTypes (now : Nat) : ∀ (l : List BList) (c : Cache), NoH (refreshTypes c now l).2.1
  | [], _ => noH_nil
  | ty :: rest, c => (noH_refreshType c now ty).append (noH_refreshTypes now rest _)

theorem noH_refreshResolversGo (now : Nat) : ∀ (l : List BList) (c : Cache), NoH (refreshResolversGo c now l).2
  | [], _ => noH_nil
  | h :: rest, c => by
    refine NoH.append ?_ (noH_refreshResolversGo now rest _)
    refine ⟨?_, ?_⟩ <;> (intros; intro h; simp [sendQuery] at h)

theorem noH_evictServicesPhase (s : State) (now : Nat) : NoH (evictServicesPhase s now).2 := by
  refine ⟨?_, ?_⟩ <;> (intros; intro h; simp [evictServicesPhase, notifyRemoval] at h)

/-! ### where `AddressesFound` comes from -/

theorem resolverChan_congr {s s' : State} (h : s'.resolvers = s.resolvers) (host : BList) :
    resolverChan s' host = resolverChan s host := by
  simp [resolverChan, h]

/-- in `handle_response`: a group of `get_addresses_for_host` on the cache the datagram left,
    for a name whose resolver has this channel -/
theorem hfound_handleResponse (s : State) (now : Nat) (intf : Intf) (m : Wire.Msg) (ch : Nat) (host : BList)
    (addrs : List AddrItem) (h : Out.event ch (.hfound host addrs) ∈ (handleResponse s now intf m).2) :
    ∃ name, resolverChan s name = some ch ∧
      (host, addrs) ∈ addressesForHost (handleResponse s now intf m).1.cache now name := by
  rw [handleResponse_cache]
  unfold handleResponse at h
  simp only [List.mem_append] at h
  rcases h with (h | h) | h
  · exact absurd h ((noH_ingestAll _ _ _ _ _ _ _ noH_nil).1 ch host addrs)
  · simp only [hostFoundOuts, List.mem_flatMap] at h
    obtain ⟨chg, _, hx⟩ := h
    split at hx
    · cases hx
    · rename_i chan hchan
      simp only [List.mem_map] at hx
      obtain ⟨p, hp, he⟩ := hx
      cases he
      exact ⟨chg.2, hchan, hp⟩
  · exact absurd h ((noH_resolveUpdated _ _ _).1 ch host addrs)

theorem hfound_handleRead (s : State) (now : Nat) (p : Packet) (ch : Nat) (host : BList)
    (addrs : List AddrItem) (h : Out.event ch (.hfound host addrs) ∈ (handleRead s now p).2) :
    ∃ name, resolverChan s name = some ch ∧ (host, addrs) ∈ addressesForHost (handleRead s now p).1.cache now name := by
  unfold handleRead at h ⊢
  split
  · rename_i h0
    simp [h0] at h
  · rename_i intf h0
    simp only [h0] at h
    split
    · rename_i h1
      simp [h1] at h
    · rename_i h1
      simp only [h1] at h
      split
      · rename_i h2
        simp only [h2, if_true] at h
        exact hfound_handleResponse s now intf p.msg ch host addrs h
      · rename_i h2
        simp [h2] at h

/-- **origin of `AddressesFound` in the ingress phase**: the datagrams `pre ++ [p]` have been
    read; the event is a group of `get_addresses_for_host(name)` on the cache they left, and
    `name` is being resolved on the event's channel -/
theorem hfound_ingress (s : State) (now : Nat) (pkts : List Packet) (ch : Nat) (host : BList) (addrs : List AddrItem)
    (h : Out.event ch (.hfound host addrs) ∈ (ingress s now pkts).2) :
    ∃ pre p post name, pkts = pre ++ p :: post ∧ resolverChan s name = some ch ∧
      (host, addrs) ∈ addressesForHost (ingress s now (pre ++ [p])).1.cache now name := by
  obtain ⟨pre, p, post, hp, ho⟩ := mem_ingress_outs now _ pkts s h
  obtain ⟨name, h1, h2⟩ := hfound_handleRead _ now p ch host addrs ho
  refine ⟨pre, p, post, name, hp, ?_, ?_⟩
  · rw [← h1]
    exact (resolverChan_congr (ingress_resolvers now pre s) name).symm
  · rw [ingress_append]
    simpa [ingress] using h2

/-- in `exec_command_resolve_hostname` (first run): the groups of the cache replay -/
theorem hfound_execResolveHost (s : State) (now : Nat) (h0 : BList) (d ch0 : Nat) (t : Option Nat) (ch : Nat)
    (host : BList) (addrs : List AddrItem)
    (h : Out.event ch (.hfound host addrs) ∈ (execResolveHost s now false h0 d ch0 t).2) :
    ch = ch0 ∧ (host, addrs) ∈ addressesForHost s.cache now h0 := by
  unfold execResolveHost at h
  simp only [Bool.false_and, Bool.false_eq_true, if_false, List.mem_append, List.mem_singleton, List.mem_map] at h
  rcases h with (h | ⟨p, hp, he⟩) | h
  · cases h
  · cases he
    exact ⟨rfl, hp⟩
  · simp [sendQuery] at h

theorem hfound_execCommand (s : State) (now : Nat) (c : Command) (ch : Nat) (host : BList) (addrs : List AddrItem)
    (h : Out.event ch (.hfound host addrs) ∈ (execCommand s now c).2) :
    ∃ h0 t, c = .resolveHost h0 ch t ∧ (host, addrs) ∈ addressesForHost s.cache now h0 := by
  cases c with
  | browse ty ch' co => exact absurd h ((noH_execBrowse s now false ty 1 co ch').1 ch host addrs)
  | stopBrowse ty => exact absurd h ((noH_execStopBrowse s ty).1 ch host addrs)
  | resolveHost h0 ch0 t =>
    obtain ⟨rfl, h2⟩ := hfound_execResolveHost s now h0 1 ch0 t ch host addrs h
    exact ⟨h0, t, rfl, h2⟩
  | stopResolve h0 => exact absurd h ((noH_execStopResolve s h0).1 ch host addrs)
  | ipInterval ms => simp [execCommand] at h
  | verify inst t => exact absurd h ((noH_execVerify s now false inst t).1 ch host addrs)
  | metrics ch' => simp [execCommand] at h
  | acceptUnsolicited on => simp [execCommand] at h

/-- **origin of `AddressesFound` in the command phase**: the `resolve_hostname` command of that
    channel, replaying the cache the commands before it left -/
theorem hfound_runCommands (s : State) (now : Nat) (cmds : List Command) (ch : Nat) (host : BList)
    (addrs : List AddrItem) (h : Out.event ch (.hfound host addrs) ∈ (runCommands s now cmds).2) :
    ∃ pre h0 t post, cmds = pre ++ Command.resolveHost h0 ch t :: post ∧
      (host, addrs) ∈ addressesForHost (runCommands s now pre).1.cache now h0 := by
  obtain ⟨pre, c, post, hp, ho⟩ := mem_runCommands_outs now _ cmds s h
  obtain ⟨h0, t, rfl, h2⟩ := hfound_execCommand _ now c ch host addrs ho
  exact ⟨pre, h0, t, post, hp, h2⟩

/-- the state in which the commands of an iteration are executed -/
def preCommands (s : State) (now : Nat) (pkts : List Packet) : State :=
  (runTimeouts (popTimers (ingress s now pkts).1 now) now).1

/-- the state before the eviction phases of an iteration -/
def preEvict (s : State) (now : Nat) (pkts : List Packet) (cmds : List Command) : State :=
  (refreshResolvers (refreshActive (rerunPhase (runCommands (preCommands s now pkts) now cmds).1 now).1 now).1 now).1

theorem iter_outs (s : State) (now : Nat) (pkts : List Packet) (cmds : List Command) :
    (iter s now pkts cmds).2 =
      (ingress s now pkts).2 ++ (runTimeouts (popTimers (ingress s now pkts).1 now) now).2 ++
      (runCommands (preCommands s now pkts) now cmds).2 ++
      (rerunPhase (runCommands (preCommands s now pkts) now cmds).1 now).2 ++
      (refreshActive (rerunPhase (runCommands (preCommands s now pkts) now cmds).1 now).1 now).2 ++
      (refreshResolvers (refreshActive (rerunPhase (runCommands (preCommands s now pkts) now cmds).1 now).1 now).1 now).2 ++
      (evictServicesPhase (preEvict s now pkts cmds) now).2 ++
      (evictAddrPhase (evictServicesPhase (preEvict s now pkts cmds) now).1 now).2 := rfl

theorem noHF_evictAddrHosts (now : Nat) (items : List (BList × BList × BList × Nat)) :
    ∀ (hosts : List BList) (s : State) (ch : Nat) (h : BList) (a : List AddrItem),
      Out.event ch (.hfound h a) ∉ (evictAddrHosts s now items hosts).2
  | [], _, _, _, _ => by simp [evictAddrHosts]
  | h0 :: rest, s, ch, h, a => by
    intro hm
    simp only [evictAddrHosts, List.mem_append] at hm
    rcases hm with (hm | hm) | hm
    · split at hm <;> simp at hm
    · exact (noH_resolveUpdated _ _ _).1 ch h a hm
    · exact noHF_evictAddrHosts now items rest _ ch h a hm

/-- **origin of `AddressesFound` in an iteration**: the ingress phase or a `resolve_hostname`
    command, nothing else -/
theorem hfound_iter (s : State) (now : Nat) (pkts : List Packet) (cmds : List Command) (ch : Nat) (host : BList)
    (addrs : List AddrItem) (h : Out.event ch (.hfound host addrs) ∈ (iter s now pkts cmds).2) :
    (∃ pre p post name, pkts = pre ++ p :: post ∧ resolverChan s name = some ch ∧
      (host, addrs) ∈ addressesForHost (ingress s now (pre ++ [p])).1.cache now name) ∨
    (∃ pre h0 t post, cmds = pre ++ Command.resolveHost h0 ch t :: post ∧
      (host, addrs) ∈ addressesForHost (runCommands (preCommands s now pkts) now pre).1.cache now h0) := by
  rw [iter_outs] at h
  simp only [List.mem_append] at h
  rcases h with ((((((h | h) | h) | h) | h) | h) | h) | h
  · exact Or.inl (hfound_ingress s now pkts ch host addrs h)
  · exact absurd h ((noH_runTimeouts _ _).1 ch host addrs)
  · exact Or.inr (hfound_runCommands _ now cmds ch host addrs h)
  · exact absurd h ((noH_runReruns now _ _ _ _).1 ch host addrs)
  · exact absurd h ((noH_refreshTypes now _ _).1 ch host addrs)
  · exact absurd h ((noH_refreshResolversGo now _ _).1 ch host addrs)
  · exact absurd h ((noH_evictServicesPhase _ _).1 ch host addrs)
  · exact absurd h (noHF_evictAddrHosts now _ _ _ ch host addrs)

/-! ### what a group of `get_addresses_for_host` is -/

theorem mem_addrItemOf {e : Entry} {a : AddrItem} (h : addrItemOf e = some a) : e.record.rdata = .addr a.1 a.2.1 a.2.2 := by
  unfold addrItemOf at h
  split at h
  · rename_i ip n i hr
    cases h
    exact hr
  · cases h

/-- a group `(name, addrs)` of `get_addresses_for_host(host)` at `now`: `name` is the owner name
    of an address entry cached under the lower-cased `host` that has not expired at `now`, and
    `addrs` are exactly the addresses (with interface) of the unexpired entries of that owner
    name -/
theorem mem_addressesForHost (c : Cache) (now : Nat) (host name : BList) (addrs : List AddrItem)
    (h : (name, addrs) ∈ addressesForHost c now host) :
    (∃ e ∈ (c.addr.get (lower host)).getD [], now < e.record.expires ∧ e.record.name = name ∧
      ∃ a, addrItemOf e = some a) ∧
    (∀ a, a ∈ addrs ↔ ∃ e ∈ (c.addr.get (lower host)).getD [], now < e.record.expires ∧ e.record.name = name ∧
      addrItemOf e = some a) := by
  simp only [addressesForHost, List.mem_map, List.mem_eraseDups, List.mem_filter, Record.isExpired,
    Bool.and_eq_true, Bool.not_eq_true', decide_eq_false_iff_not, Nat.not_le, Option.isSome_iff_exists] at h
  obtain ⟨n, ⟨e, ⟨he, hlive, hsome⟩, hn⟩, heq⟩ := h
  simp only [Prod.mk.injEq] at heq
  obtain ⟨rfl, rfl⟩ := heq
  refine ⟨⟨e, he, hlive, hn, hsome⟩, ?_⟩
  intro a
  simp only [List.mem_eraseDups, List.mem_filterMap, List.mem_filter, beq_iff_eq, Bool.and_eq_true,
    Bool.not_eq_true', decide_eq_false_iff_not, Nat.not_le, Option.isSome_iff_exists]
  constructor
  · rintro ⟨x, ⟨⟨hx, hxl, _⟩, hxn⟩, ha⟩
    exact ⟨x, hx, hxl, hxn, ha⟩
  · rintro ⟨x, hx, hxl, hxn, ha⟩
    exact ⟨x, ⟨⟨hx, hxl, ⟨a, ha⟩⟩, hxn⟩, ha⟩

/-! ### the expiry floor during an iteration -/

/-- the entry had not expired at `T` (the previous iteration), or its expiry was set in the
    iteration at `now` to an instant that is not before `now` -/
def Floor (T now : Nat) (e : Entry) : Prop := T < e.record.expires ∨ now ≤ e.record.expires

theorem floor_flushOne (T now : Nat) (inc : Record) (e : Entry) (h : Floor T now e) : Floor T now (flushOne inc now e) := by
  unfold flushOne
  split
  · right
    simp [Record.setExpire]
  · exact h

theorem floor_sooner (T now t : Nat) (ht : now ≤ t) (e : Entry) (h : Floor T now e) : Floor T now (soonerEntry t e) := by
  unfold soonerEntry Record.setExpireSooner
  split
  · right
    simpa [Record.setExpire] using ht
  · exact h

theorem floor_ingestAll (T now : Nat) (q : List (BList × Nat)) (ifName : BList) (ifIdx : Nat) (forUs : Bool) :
    ∀ (rs : List Wire.Rec) (acc : Ingest), CacheAll (Floor T now) acc.cache →
      CacheAll (Floor T now) (ingestAll q ifName ifIdx now forUs acc rs).cache
  | [], _, h => h
  | r :: rest, acc, h => by
    simp only [ingestAll]
    apply floor_ingestAll T now q ifName ifIdx forUs rest
    rw [ingestOne_cache]
    apply cacheAll_addOrUpdate h
    · exact fun e he => floor_flushOne T now _ e he
    · intro e _ _
      right
      simp [Record.resetTtl, ofWire, Record.new, expTime]
    · right
      simp [ofWire, Record.new, expTime]

theorem floor_handleRead (T now : Nat) (s : State) (p : Packet) (h : CacheAll (Floor T now) s.cache) :
    CacheAll (Floor T now) (handleRead s now p).1.cache := by
  unfold handleRead
  repeat' split
  all_goals first
    | exact h
    | (rw [handleResponse_cache]; exact floor_ingestAll T now _ _ _ _ _ _ h)

theorem floor_ingress (T now : Nat) : ∀ (pkts : List Packet) (s : State), CacheAll (Floor T now) s.cache →
    CacheAll (Floor T now) (ingress s now pkts).1.cache
  | [], _, h => h
  | p :: rest, s, h => by
    simp only [ingress]
    exact floor_ingress T now rest _ (floor_handleRead T now s p h)

theorem floor_execCommand (T now : Nat) (s : State) (c : Command) (h : CacheAll (Floor T now) s.cache) :
    CacheAll (Floor T now) (execCommand s now c).1.cache := by
  cases c with
  | browse ty ch co =>
    show CacheAll _ (execBrowse s now false ty 1 co ch).1.cache
    rw [execBrowse_cache]
    exact h
  | stopBrowse ty =>
    simp only [execCommand, execStopBrowse]
    split
    · exact h
    · exact cacheAll_removeServiceType h ty
  | resolveHost h0 ch t =>
    show CacheAll _ (execResolveHost s now false h0 1 ch t).1.cache
    rw [execResolveHost_cache]
    exact h
  | stopResolve h0 =>
    simp only [execCommand, execStopResolve]
    split
    · exact h
    · exact h
  | ipInterval ms => exact h
  | verify inst t =>
    have hc := cacheAll_serviceVerifyQueries h inst (some (now + t)) (fun t' e ht he => by
      cases ht
      exact floor_sooner T now _ (by omega) e he)
    simp only [execCommand, execVerify, Bool.false_eq_true, if_false]
    split
    · exact hc
    · simpa using hc
  | metrics ch => exact h
  | acceptUnsolicited on => exact h

theorem floor_runCommands (T now : Nat) : ∀ (cmds : List Command) (s : State), CacheAll (Floor T now) s.cache →
    CacheAll (Floor T now) (runCommands s now cmds).1.cache
  | [], _, h => h
  | c :: rest, s, h => by
    simp only [runCommands]
    exact floor_runCommands T now rest _ (floor_execCommand T now s c h)

theorem floor_preCommands (T now : Nat) (s : State) (pkts : List Packet) (h : CacheAll (Floor T now) s.cache) :
    CacheAll (Floor T now) (preCommands s now pkts).cache := by
  have := floor_ingress T now pkts s h
  simpa [preCommands, runTimeouts] using this

/-! ### the invariants at the points where the address events are assembled -/

theorem floor_refreshed (T now : Nat) (e : Entry) (h : Floor T now e) :
    Floor T now { e with record := e.record.refreshed now } := by
  unfold Record.refreshed
  split <;> exact h

theorem floor_preEvict (T now : Nat) (s : State) (pkts : List Packet) (cmds : List Command)
    (h : CacheAll (Floor T now) s.cache) : CacheAll (Floor T now) (preEvict s now pkts cmds).cache := by
  unfold preEvict
  apply cacheAll_refreshPhases _ now (floor_refreshed T now) (fun e he => he)
  exact floor_runCommands T now cmds _ (floor_preCommands T now s pkts h)

theorem prov_preCommands (hist : List Delivery) (s : State) (now : Nat) (pkts : List Packet)
    (h : CacheProv hist s.cache) : CacheProv (hist ++ deliveries s now pkts) (preCommands s now pkts).cache := by
  have h1 := ok_ingress now pkts hist s h
  simpa [preCommands, runTimeouts] using h1.1

theorem prov_preEvict (hist : List Delivery) (s : State) (now : Nat) (pkts : List Packet) (cmds : List Command)
    (h : CacheProv hist s.cache) : CacheProv (hist ++ deliveries s now pkts) (preEvict s now pkts cmds).cache := by
  have hL := lowClosed_cacheProv (hist ++ deliveries s now pkts)
  have h4 := ok_runCommands _ hL now cmds _ (prov_preCommands hist s now pkts h)
  have h5 := ok_rerunPhase _ hL _ now h4.1
  have h6 := ok_refreshActive _ hL _ now h5.1
  exact (ok_refreshResolvers _ hL _ now h6.1).1

theorem deliveries_prefix_sub (s : State) (now : Nat) (pre : List Packet) (p : Packet) (post : List Packet) :
    ∀ d ∈ deliveries s now (pre ++ [p]), d ∈ deliveries s now (pre ++ p :: post) := by
  intro d hd
  have : pre ++ p :: post = (pre ++ [p]) ++ post := by simp
  rw [this, deliveries_append]
  exact List.mem_append_left _ hd

/-! ### provenance of the resolver table -/

/-- every open hostname search was started by a `resolve_hostname` command of `cmds` with that
    channel, for a name that lower-cases to the key -/
def ResolversFrom (cmds : List Command) (rs : List (BList × Nat × Option Nat)) : Prop :=
  ∀ q ∈ rs, ∃ h t, Command.resolveHost h q.2.1 t ∈ cmds ∧ q.1 = lower h

theorem ResolversFrom.mono {a b : List Command} (hsub : ∀ c ∈ a, c ∈ b) {rs : List (BList × Nat × Option Nat)}
    (h : ResolversFrom a rs) : ResolversFrom b rs := by
  intro q hq
  obtain ⟨h0, t, hc, hk⟩ := h q hq
  exact ⟨h0, t, hsub _ hc, hk⟩

theorem ResolversFrom.filter {cmds : List Command} {rs : List (BList × Nat × Option Nat)} (h : ResolversFrom cmds rs)
    (p : BList × Nat × Option Nat → Bool) : ResolversFrom cmds (rs.filter p) :=
  fun q hq => h q (List.mem_filter.mp hq).1

theorem queryCacheForService_resolvers (s : State) (now : Nat) (ty : BList) (ch : Nat) :
    (queryCacheForService s now ty ch).1.resolvers = s.resolvers := by
  simp only [queryCacheForService, addPendings_resolvers, markResolved_resolvers]

theorem execBrowse_resolvers (s : State) (now : Nat) (rep : Bool) (ty : BList) (d : Nat) (co : Bool) (ch : Nat) :
    (execBrowse s now rep ty d co ch).1.resolvers = s.resolvers := by
  unfold execBrowse
  cases rep <;> simp only [Bool.false_eq_true, if_false, if_true] <;> split <;>
    simp only [addRerun_resolvers, queryCacheForService_resolvers]

theorem execVerify_resolvers (s : State) (now : Nat) (rep : Bool) (inst : BList) (t : Nat) :
    (execVerify s now rep inst t).1.resolvers = s.resolvers := by
  unfold execVerify
  cases rep
  · simp only [Bool.false_eq_true, if_false]
    split <;> rfl
  · simp only [if_true]
    split <;> rfl

theorem execResolveInst_resolvers (s : State) (now : Nat) (inst : BList) (k : Nat) :
    (execResolveInst s now inst k).1.resolvers = s.resolvers := by
  unfold execResolveInst
  split
  · rfl
  · simp only []
    split <;> rfl

theorem execResolveHost_rep_resolvers (s : State) (now : Nat) (host : BList) (d ch : Nat) (t : Option Nat) :
    (execResolveHost s now true host d ch t).1.resolvers = s.resolvers := by
  unfold execResolveHost
  simp only []
  split
  · rfl
  · simp only [if_true]
    split <;> rfl

theorem execRerun_resolvers (s : State) (now : Nat) (c : RCmd) : (execRerun s now c).1.resolvers = s.resolvers := by
  cases c with
  | browse ty d ch => exact execBrowse_resolvers s now true ty d false ch
  | resolveHost h d ch => exact execResolveHost_rep_resolvers s now h d ch none
  | resolve inst k => exact execResolveInst_resolvers s now inst k
  | verify inst t => exact execVerify_resolvers s now true inst t

theorem runReruns_resolvers (now : Nat) : ∀ (fuel : Nat) (keep rest : List Rerun) (s : State),
    (runReruns s now fuel keep rest).1.resolvers = s.resolvers
  | 0, _, _, _ => rfl
  | _ + 1, _, [], _ => rfl
  | fuel + 1, keep, r :: rest, s => by
    unfold runReruns
    split
    · simp only []
      rw [runReruns_resolvers now fuel]
      exact execRerun_resolvers _ now r.cmd
    · exact runReruns_resolvers now fuel _ _ s

theorem evictAddrHosts_resolvers (now : Nat) (items : List (BList × BList × BList × Nat)) :
    ∀ (hosts : List BList) (s : State), (evictAddrHosts s now items hosts).1.resolvers = s.resolvers
  | [], _ => rfl
  | h :: rest, s => by
    simp only [evictAddrHosts]
    rw [evictAddrHosts_resolvers now items rest, resolveUpdated_resolvers]

theorem runIpCheck_resolvers (s : State) (now : Nat) : (runIpCheck s now).resolvers = s.resolvers := by
  unfold runIpCheck
  repeat' split
  all_goals rfl

/-- after the command phase nothing touches the resolver table -/
theorem iter_resolvers (s : State) (now : Nat) (pkts : List Packet) (cmds : List Command) :
    (iter s now pkts cmds).1.resolvers = (runCommands (preCommands s now pkts) now cmds).1.resolvers := by
  simp only [iter, runIpCheck_resolvers, evictAddrPhase, evictAddrHosts_resolvers, evictServicesPhase, refreshResolvers,
    refreshActive, addTimers_resolvers, rerunPhase, runReruns_resolvers, preCommands]

theorem execResolveHost_new_resolvers (s : State) (now : Nat) (host : BList) (d ch : Nat) (t : Option Nat) :
    (execResolveHost s now false host d ch t).1.resolvers =
      (lower host, ch, t.map (now + ·)) :: s.resolvers.filter (fun q => q.1 != lower host) := by
  unfold execResolveHost
  simp only [Bool.false_and, Bool.false_eq_true, if_false]
  repeat' split
  all_goals rfl

theorem resolversFrom_execCommand (all : List Command) (s : State) (now : Nat) (c : Command) (hc : c ∈ all)
    (h : ResolversFrom all s.resolvers) : ResolversFrom all (execCommand s now c).1.resolvers := by
  cases c with
  | browse ty ch co =>
    show ResolversFrom all (execBrowse s now false ty 1 co ch).1.resolvers
    rw [execBrowse_resolvers]
    exact h
  | stopBrowse ty =>
    simp only [execCommand, execStopBrowse]
    split <;> exact h
  | resolveHost h0 ch t =>
    show ResolversFrom all (execResolveHost s now false h0 1 ch t).1.resolvers
    rw [execResolveHost_new_resolvers]
    intro q hq
    rcases List.mem_cons.mp hq with rfl | hq
    · exact ⟨h0, t, hc, rfl⟩
    · exact h.filter _ q hq
  | stopResolve h0 =>
    simp only [execCommand, execStopResolve]
    split
    · exact h
    · exact h.filter _
  | ipInterval ms => exact h
  | verify inst t =>
    show ResolversFrom all (execVerify s now false inst t).1.resolvers
    rw [execVerify_resolvers]
    exact h
  | metrics ch => exact h
  | acceptUnsolicited on => exact h

theorem resolversFrom_runCommands (all : List Command) (now : Nat) : ∀ (cmds : List Command) (s : State),
    (∀ c ∈ cmds, c ∈ all) → ResolversFrom all s.resolvers → ResolversFrom all (runCommands s now cmds).1.resolvers
  | [], _, _, h => h
  | c :: rest, s, hc, h => by
    simp only [runCommands]
    exact resolversFrom_runCommands all now rest _ (fun c' hc' => hc c' (List.mem_cons_of_mem _ hc'))
      (resolversFrom_execCommand all s now c (hc c List.mem_cons_self) h)

theorem preCommands_resolvers_sub (s : State) (now : Nat) (pkts : List Packet) :
    ∀ q ∈ (preCommands s now pkts).resolvers, q ∈ s.resolvers := by
  intro q hq
  simp only [preCommands, runTimeouts, popTimers, List.mem_filter, ingress_resolvers] at hq
  exact hq.1

/-- the resolver table after an iteration stems from the commands so far -/
theorem resolversFrom_iter (all : List Command) (s : State) (now : Nat) (pkts : List Packet) (cmds : List Command)
    (hc : ∀ c ∈ cmds, c ∈ all) (h : ResolversFrom all s.resolvers) :
    ResolversFrom all (iter s now pkts cmds).1.resolvers := by
  rw [iter_resolvers]
  apply resolversFrom_runCommands all now cmds _ hc
  intro q hq
  exact h q (preCommands_resolvers_sub s now pkts q hq)

theorem resolverChan_mem (s : State) (name : BList) (ch : Nat) (h : resolverChan s name = some ch) :
    ∃ q ∈ s.resolvers, q.1 = lower name ∧ q.2.1 = ch := by
  simp only [resolverChan, Option.map_eq_some_iff] at h
  obtain ⟨q, hq, rfl⟩ := h
  refine ⟨q, List.mem_of_find?_eq_some hq, ?_, rfl⟩
  simpa using List.find?_some hq

/-! ### where `AddressesRemoved` comes from -/

/-- what `evict_expired_addr` reports: expired entries of the address table -/
theorem mem_evictAddr_items (c : Cache) (now : Nat) (it : BList × BList × BList × Nat) (h : it ∈ (evictAddr c now).2) :
    ∃ p ∈ c.addr, ∃ e ∈ p.2, e.record.expires ≤ now ∧ e.record.name = it.1 ∧
      e.record.rdata = .addr it.2.1 it.2.2.1 it.2.2.2 := by
  simp only [evictAddr, List.mem_flatMap, List.mem_filterMap, List.mem_filter] at h
  obtain ⟨p, hp, e, ⟨he, hl⟩, hi⟩ := h
  refine ⟨p, hp, e, he, (not_live_iff now e).mp (by simpa using hl), ?_⟩
  unfold addrItem at hi
  split at hi
  · rename_i ip n i hr
    cases hi
    exact ⟨rfl, hr⟩
  · cases hi

theorem hremoved_evictAddrHosts (now : Nat) (items : List (BList × BList × BList × Nat)) :
    ∀ (hosts : List BList) (s : State) (ch : Nat) (host : BList) (addrs : List AddrItem),
      Out.event ch (.hremoved host addrs) ∈ (evictAddrHosts s now items hosts).2 →
      host ∈ hosts ∧ resolverChan s host = some ch ∧
      ∀ a, a ∈ addrs ↔ (host, a.1, a.2.1, a.2.2) ∈ items
  | [], _, _, _, _, h => by simp [evictAddrHosts] at h
  | h0 :: rest, s, ch, host, addrs, h => by
    simp only [evictAddrHosts, List.mem_append] at h
    rcases h with (h | h) | h
    · split at h
      · cases h
      · rename_i chan hchan
        simp only [List.mem_singleton] at h
        cases h
        refine ⟨List.mem_cons_self, hchan, ?_⟩
        intro a
        simp only [List.mem_eraseDups, List.mem_map, List.mem_filter, beq_iff_eq]
        constructor
        · rintro ⟨it, ⟨hit, hn⟩, rfl⟩
          rw [← hn]
          exact hit
        · intro hit
          exact ⟨(h0, a.1, a.2.1, a.2.2), ⟨hit, rfl⟩, rfl⟩
    · exact absurd h ((noH_resolveUpdated _ _ _).2 ch host addrs)
    · obtain ⟨h1, h2, h3⟩ := hremoved_evictAddrHosts now items rest _ ch host addrs h
      refine ⟨List.mem_cons_of_mem _ h1, ?_, h3⟩
      rw [← h2]
      exact (resolverChan_congr (resolveUpdated_resolvers s now _) host).symm

/-- **origin of `AddressesRemoved` in the eviction phase**: the host is being resolved on that
    channel; the event lists exactly the addresses (with interface) of the entries of that
    owner name which `evict_expired_addr` removes at `now` - each of them an entry of the
    address table with `expires ≤ now` - and there is at least one -/
theorem hremoved_evictAddrPhase (s : State) (now : Nat) (ch : Nat) (host : BList) (addrs : List AddrItem)
    (h : Out.event ch (.hremoved host addrs) ∈ (evictAddrPhase s now).2) :
    resolverChan s host = some ch ∧ addrs ≠ [] ∧
    ∀ a, a ∈ addrs ↔ ∃ p ∈ s.cache.addr, ∃ e ∈ p.2, e.record.expires ≤ now ∧ e.record.name = host ∧
      e.record.rdata = .addr a.1 a.2.1 a.2.2 := by
  unfold evictAddrPhase at h
  obtain ⟨h1, h2, h3⟩ := hremoved_evictAddrHosts now _ _ _ ch host addrs h
  have hiff : ∀ a : AddrItem, a ∈ addrs ↔ ∃ p ∈ s.cache.addr, ∃ e ∈ p.2, e.record.expires ≤ now ∧ e.record.name = host ∧
      e.record.rdata = .addr a.1 a.2.1 a.2.2 := by
    intro a
    rw [h3]
    constructor
    · intro hit
      exact mem_evictAddr_items s.cache now _ hit
    · rintro ⟨p, hp, e, he, hx, hn, hr⟩
      simp only [evictAddr, List.mem_flatMap, List.mem_filterMap, List.mem_filter]
      refine ⟨p, hp, e, ⟨he, by simpa using (not_live_iff now e).mpr hx⟩, ?_⟩
      simp [addrItem, hr, hn]
  refine ⟨by simpa [resolverChan] using h2, ?_, hiff⟩
  simp only [List.mem_eraseDups, List.mem_map] at h1
  obtain ⟨it, hit, hn⟩ := h1
  intro hnil
  have : (it.2.1, it.2.2.1, it.2.2.2) ∈ addrs := by
    rw [h3]
    simp only []
    rw [← hn]
    exact hit
  rw [hnil] at this
  cases this

theorem noHR_ingress (now : Nat) (pkts : List Packet) (s : State) (ch : Nat) (h : BList) (a : List AddrItem) :
    Out.event ch (.hremoved h a) ∉ (ingress s now pkts).2 := by
  intro hm
  obtain ⟨pre, p, post, _, ho⟩ := mem_ingress_outs now _ pkts s hm
  unfold handleRead at ho
  repeat' split at ho
  all_goals first
    | (simp at ho; done)
    | skip
  unfold handleResponse at ho
  simp only [List.mem_append] at ho
  rcases ho with (ho | ho) | ho
  · exact (noH_ingestAll _ _ _ _ _ _ _ noH_nil).2 ch h a ho
  · simp only [hostFoundOuts, List.mem_flatMap] at ho
    obtain ⟨chg, _, hx⟩ := ho
    split at hx
    · cases hx
    · simp at hx
  · exact (noH_resolveUpdated _ _ _).2 ch h a ho

theorem noHR_runCommands (now : Nat) (cmds : List Command) (s : State) (ch : Nat) (h : BList) (a : List AddrItem) :
    Out.event ch (.hremoved h a) ∉ (runCommands s now cmds).2 := by
  intro hm
  obtain ⟨pre, c, post, _, ho⟩ := mem_runCommands_outs now _ cmds s hm
  cases c with
  | browse ty ch' co => exact (noH_execBrowse _ now false ty 1 co ch').2 ch h a ho
  | stopBrowse ty => exact (noH_execStopBrowse _ ty).2 ch h a ho
  | resolveHost h0 ch0 t =>
    simp only [execCommand, execResolveHost, Bool.false_and, Bool.false_eq_true, if_false, List.mem_append,
      List.mem_singleton, List.mem_map] at ho
    rcases ho with (ho | ⟨p, _, he⟩) | ho
    · cases ho
    · cases he
    · simp [sendQuery] at ho
  | stopResolve h0 => exact (noH_execStopResolve _ h0).2 ch h a ho
  | ipInterval ms => simp [execCommand] at ho
  | verify inst t => exact (noH_execVerify _ now false inst t).2 ch h a ho
  | metrics ch' => simp [execCommand] at ho
  | acceptUnsolicited on => simp [execCommand] at ho

/-- **origin of `AddressesRemoved` in an iteration**: the address eviction at its end -/
theorem hremoved_iter (s : State) (now : Nat) (pkts : List Packet) (cmds : List Command) (ch : Nat) (host : BList)
    (addrs : List AddrItem) (h : Out.event ch (.hremoved host addrs) ∈ (iter s now pkts cmds).2) :
    Out.event ch (.hremoved host addrs) ∈ (evictAddrPhase (evictServicesPhase (preEvict s now pkts cmds) now).1 now).2 := by
  rw [iter_outs] at h
  simp only [List.mem_append] at h
  rcases h with ((((((h | h) | h) | h) | h) | h) | h) | h
  · exact absurd h (noHR_ingress now pkts s ch host addrs)
  · exact absurd h ((noH_runTimeouts _ _).2 ch host addrs)
  · exact absurd h (noHR_runCommands now cmds _ ch host addrs)
  · exact absurd h ((noH_runReruns now _ _ _ _).2 ch host addrs)
  · exact absurd h ((noH_refreshTypes now _ _).2 ch host addrs)
  · exact absurd h ((noH_refreshResolversGo now _ _).2 ch host addrs)
  · exact absurd h ((noH_evictServicesPhase _ _).2 ch host addrs)
  · exact h

end Mdns.Client
