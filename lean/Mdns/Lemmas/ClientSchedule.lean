import Mdns.Lemmas.ClientStale
import Mdns.Lemmas.Sched
import Mdns.Lemmas.ClientWf
import Mdns.Lemmas.Delay
/-
  C19 on the client model: at most one queued retransmission per browsed type and per
  (lower-cased) host name (`OneEachC`), through every phase of an iteration; what stays queued
  and what is queued by the re-run loop.
-/
namespace Mdns.Client
open Mdns Mdns.Rec Mdns.Cache

/-- the search whose schedule a queued re-run continues: a browsed type, or a host name compared
    without letter case; none for follow-ups and verify resends -/
def skey : RCmd → Option (Bool × BList)
  | .browse ty _ _ => some (false, ty)
  | .resolveHost h _ _ => some (true, lower h)
  | _ => none

/-- at most one queued retransmission per search -/
def OneEachC (l : List Rerun) : Prop := ∀ k, (l.filter fun r => skey r.cmd == some k).length ≤ 1

theorem isBrowseOf_iff (ty : BList) (r : Rerun) : isBrowseOf ty r = (skey r.cmd == some (false, ty)) := by
  obtain ⟨n, c⟩ := r
  cases c <;> simp [isBrowseOf, skey] <;> (rw [Bool.eq_iff_iff]; simp)

theorem isResolveOf_iff (key : BList) (r : Rerun) : isResolveOf key r = (skey r.cmd == some (true, key)) := by
  obtain ⟨n, c⟩ := r
  cases c <;> simp [isResolveOf, skey] <;> (rw [Bool.eq_iff_iff]; simp)

theorem OneEachC.nil : OneEachC [] := fun _ => by simp

theorem OneEachC.filter {l : List Rerun} (h : OneEachC l) (p : Rerun → Bool) : OneEachC (l.filter p) := by
  intro k
  rw [Sched.filter_filter_comm]
  exact Nat.le_trans (List.length_filter_le _ _) (h k)

theorem OneEachC.sub {l l' : List Rerun} (h : OneEachC l) (hs : l'.Sublist l) : OneEachC l' := by
  intro k
  exact Nat.le_trans (List.Sublist.length_le (hs.filter _)) (h k)

/-- appending re-runs that continue no schedule -/
theorem OneEachC.append_none {l : List Rerun} (h : OneEachC l) (extra : List Rerun) (he : ∀ r ∈ extra, skey r.cmd = none) :
    OneEachC (l ++ extra) := by
  intro k
  have : extra.filter (fun r => skey r.cmd == some k) = [] := by
    rw [List.filter_eq_nil_iff]
    intro r hr
    simp [he r hr]
  simp only [List.filter_append, this, List.append_nil]
  exact h k

/-- appending the re-run of a search that has none queued -/
theorem OneEachC.append_new {l : List Rerun} (h : OneEachC l) (r : Rerun) (k0 : Bool × BList) (hk : skey r.cmd = some k0)
    (h0 : l.filter (fun x => skey x.cmd == some k0) = []) : OneEachC (l ++ [r]) := by
  intro k
  simp only [List.filter_append, List.length_append]
  by_cases e : k = k0
  · subst e
    simp [h0, List.filter_cons, hk]
  · have : (skey r.cmd == some k) = false := by
      rw [hk]
      simpa using fun e' => e e'.symm
    simp only [List.filter_cons, this, Bool.false_eq_true, if_false, List.filter_nil, List.length_nil, Nat.add_zero]
    exact h k

theorem OneEachC.remove_mid {keep rest : List Rerun} {r : Rerun} (h : OneEachC (keep ++ r :: rest)) :
    OneEachC (keep ++ rest) ∧ ∀ k0, skey r.cmd = some k0 → (keep ++ rest).filter (fun x => skey x.cmd == some k0) = [] := by
  have hsub : ∀ p : Rerun → Bool, ((keep ++ r :: rest).filter p).length =
      ((keep ++ rest).filter p).length + (if p r then 1 else 0) := by
    intro p
    simp only [List.filter_append, List.length_append, List.filter_cons]
    split <;> simp <;> omega
  refine ⟨?_, ?_⟩
  · intro k
    have := h k
    rw [hsub] at this
    omega
  · intro k0 hk
    have := h k0
    rw [hsub] at this
    simp only [hk, beq_self_eq_true, if_true] at this
    exact List.eq_nil_of_length_eq_zero (by omega)

/-! ### which re-runs a phase appends -/

theorem skey_of_rkey_none {c : RCmd} (h : rkey c = none) : skey c = none := by
  cases c <;> simp [rkey] at h <;> rfl

/-- the phase only appends follow-ups (re-runs that continue no schedule) -/
def AppendsFollowups (s s' : State) : Prop := ∃ extra, s'.reruns = s.reruns ++ extra ∧ ∀ r ∈ extra, skey r.cmd = none

theorem AppendsFollowups.refl (s : State) : AppendsFollowups s s := ⟨[], by simp, fun _ h => by cases h⟩

theorem AppendsFollowups.trans {a b c : State} (h1 : AppendsFollowups a b) (h2 : AppendsFollowups b c) :
    AppendsFollowups a c := by
  obtain ⟨e1, r1, k1⟩ := h1
  obtain ⟨e2, r2, k2⟩ := h2
  refine ⟨e1 ++ e2, by rw [r2, r1, List.append_assoc], ?_⟩
  intro r hr
  rcases List.mem_append.mp hr with hr | hr
  · exact k1 r hr
  · exact k2 r hr

theorem AppendsFollowups.of_eq {s s' : State} (h : s'.reruns = s.reruns) : AppendsFollowups s s' :=
  ⟨[], by simp [h], fun _ h => by cases h⟩

theorem af_addPending (s : State) (now : Nat) (i : BList) : AppendsFollowups s (addPending s now i) := by
  unfold addPending
  split
  · exact AppendsFollowups.refl s
  · exact ⟨[⟨now + RESOLVE_WAIT, .resolve i 1⟩], rfl, fun r hr => by simp only [List.mem_singleton] at hr; subst hr; rfl⟩

theorem af_addPendings (now : Nat) : ∀ (l : List BList) (s : State), AppendsFollowups s (addPendings s now l)
  | [], s => AppendsFollowups.refl s
  | i :: rest, s => by
    simp only [addPendings]
    exact (af_addPending s now i).trans (af_addPendings now rest _)

theorem af_resolveUpdated (s : State) (now : Nat) (u : List BList) : AppendsFollowups s (resolveUpdated s now u).1 := by
  unfold resolveUpdated
  split
  · exact AppendsFollowups.refl s
  · simp only []
    exact AppendsFollowups.trans (AppendsFollowups.of_eq rfl) (af_addPendings now _ _)

theorem af_handleRead (s : State) (now : Nat) (p : Packet) : AppendsFollowups s (handleRead s now p).1 := by
  unfold handleRead
  repeat' split
  all_goals first
    | exact AppendsFollowups.refl s
    | (unfold handleResponse
       simp only []
       exact AppendsFollowups.trans (AppendsFollowups.of_eq rfl) (af_resolveUpdated _ now _))

theorem af_ingress (now : Nat) : ∀ (pkts : List Packet) (s : State), AppendsFollowups s (ingress s now pkts).1
  | [], s => AppendsFollowups.refl s
  | p :: rest, s => by
    simp only [ingress]
    exact (af_handleRead s now p).trans (af_ingress now rest _)

theorem af_queryCacheForService (s : State) (now : Nat) (ty : BList) (ch : Nat) :
    AppendsFollowups s (queryCacheForService s now ty ch).1 := by
  simp only [queryCacheForService]
  exact AppendsFollowups.trans (AppendsFollowups.of_eq rfl) (af_addPendings now _ _)

theorem af_evictAddrHosts (now : Nat) (items : List (BList × BList × BList × Nat)) :
    ∀ (hosts : List BList) (s : State), AppendsFollowups s (evictAddrHosts s now items hosts).1
  | [], s => AppendsFollowups.refl s
  | h :: rest, s => by
    simp only [evictAddrHosts]
    exact (af_resolveUpdated s now _).trans (af_evictAddrHosts now items rest _)

theorem OneEachC.af {s s' : State} (h : OneEachC s.reruns) (ha : AppendsFollowups s s') : OneEachC s'.reruns := by
  obtain ⟨extra, he, hk⟩ := ha
  rw [he]
  exact h.append_none extra hk

/-! ### commands -/

theorem oneEach_execCommand (s : State) (now : Nat) (c : Command) (h : OneEachC s.reruns) :
    OneEachC (execCommand s now c).1.reruns := by
  cases c with
  | browse ty ch co =>
    let x0 : List BList → State := fun cs =>
      { s with reruns := s.reruns.filter (fun r => !isBrowseOf ty r),
               queriers := (ty, ch) :: s.queriers.filter (fun q => q.1 != ty), cacheOnly := cs }
    have hx0 : ∀ cs, OneEachC (x0 cs).reruns := fun _ => h.filter _
    have h0 : ∀ cs, OneEachC (queryCacheForService (x0 cs) now ty ch).1.reruns := fun cs =>
      OneEachC.af (s := x0 cs) (hx0 cs) (af_queryCacheForService (x0 cs) now ty ch)
    show OneEachC (execBrowse s now false ty 1 co ch).1.reruns
    unfold execBrowse
    cases co
    case true =>
      simp only [Bool.false_eq_true, if_false, if_true]
      exact h0 _
    case false =>
      simp only [Bool.false_eq_true, if_false, addRerun]
      apply (h0 _).append_new _ (false, ty) rfl
      -- nothing of `ty` is queued after the purge; the follow-ups continue no schedule
      obtain ⟨extra, he, hk⟩ := af_queryCacheForService (x0 (s.cacheOnly.filter (· != ty))) now ty ch
      rw [he]
      simp only [List.filter_append]
      have h1 : (x0 (s.cacheOnly.filter (· != ty))).reruns.filter (fun x => skey x.cmd == some (false, ty)) = [] := by
        have := Sched.filter_not_self (isBrowseOf ty) s.reruns
        rw [List.filter_eq_nil_iff] at this ⊢
        intro r hr
        have := this r hr
        rw [isBrowseOf_iff] at this
        exact this
      have h2 : extra.filter (fun x => skey x.cmd == some (false, ty)) = [] := by
        rw [List.filter_eq_nil_iff]
        intro r hr
        simp [hk r hr]
      rw [h1, h2]
      rfl
  | stopBrowse ty =>
    simp only [execCommand, execStopBrowse]
    split
    · exact h
    · exact h.filter _
  | resolveHost h0 ch t =>
    have h1 : (s.reruns.filter (fun r => !isResolveOf (lower h0) r)).filter (fun x => skey x.cmd == some (true, lower h0)) = [] := by
      have := Sched.filter_not_self (isResolveOf (lower h0)) s.reruns
      rw [List.filter_eq_nil_iff] at this ⊢
      intro r hr
      have := this r hr
      rw [isResolveOf_iff] at this
      exact this
    simp only [execCommand, execResolveHost, Bool.false_and, Bool.false_eq_true, if_false]
    cases t with
    | none =>
      simp only [Option.map_none]
      split
      · simp only [addRerun]
        exact (h.filter _).append_new _ (true, lower h0) rfl h1
      · exact h.filter _
    | some t0 =>
      simp only [Option.map_some]
      split
      · simp only [addRerun]
        exact (h.filter _).append_new _ (true, lower h0) rfl h1
      · exact h.filter _
  | stopResolve h0 =>
    simp only [execCommand, execStopResolve]
    split
    · exact h
    · exact h.filter _
  | ipInterval ms => exact h
  | verify inst t =>
    simp only [execCommand, execVerify, Bool.false_eq_true, if_false]
    split
    · exact h
    · simp only [addRerun, addTimers]
      exact h.append_none _ (fun r hr => by simp only [List.mem_singleton] at hr; subst hr; rfl)
  | metrics ch => exact h
  | acceptUnsolicited on => exact h

theorem oneEach_runCommands (now : Nat) : ∀ (l : List Command) (s : State), OneEachC s.reruns →
    OneEachC (runCommands s now l).1.reruns
  | [], _, h => h
  | c :: rest, s, h => by
    simp only [runCommands]
    exact oneEach_runCommands now rest _ (oneEach_execCommand s now c h)

/-! ### the re-run loop -/

/-- what executing a re-run on a state with an empty queue leaves in the queue: nothing, or one
    re-run that continues the same schedule (or none) -/
theorem execRerun_queue (s : State) (hs : s.reruns = []) (now : Nat) (c : RCmd) :
    (execRerun s now c).1.reruns = [] ∨ ∃ r', (execRerun s now c).1.reruns = [r'] ∧ skey r'.cmd = skey c := by
  cases c with
  | browse ty d ch =>
    right
    exact ⟨⟨now + d * 1000, .browse ty (Sched.nextDelay d) ch⟩, by simp [execRerun, execBrowse, addRerun, hs], rfl⟩
  | resolveHost h d ch =>
    simp only [execRerun, execResolveHost]
    split
    · exact Or.inl hs
    · simp only [if_true]
      split
      · right
        exact ⟨⟨now + d * 1000, .resolveHost h (Sched.nextDelay d) ch⟩, by simp [addRerun, hs], rfl⟩
      · exact Or.inl hs
  | resolve inst k =>
    simp only [execRerun, execResolveInst]
    split
    · exact Or.inl hs
    · simp only []
      split
      · right
        exact ⟨⟨now + RESOLVE_WAIT, .resolve inst (k + 1)⟩, by simp [addRerun, hs], rfl⟩
      · exact Or.inl hs
  | verify inst t =>
    left
    simp only [execRerun, execVerify, if_true]
    split <;> exact hs

theorem oneEach_runReruns (now : Nat) : ∀ (fuel : Nat) (keep rest : List Rerun) (s : State),
    s.reruns = [] → OneEachC (keep ++ rest) → OneEachC (runReruns s now fuel keep rest).1.reruns
  | 0, keep, rest, s, hs, h => by simp [runReruns, hs, h]
  | _ + 1, keep, [], s, hs, h => by simpa [runReruns, hs] using h
  | fuel + 1, keep, r :: rest, s, hs, h => by
    rw [runReruns]
    split
    · have hrm := h.remove_mid
      have hrec := fun (app : List Rerun) (ho : OneEachC (keep ++ (rest ++ app))) =>
        oneEach_runReruns now fuel keep (rest ++ app)
          { (execRerun { s with reruns := [] } now r.cmd).1 with reruns := [] } rfl ho
      rcases execRerun_queue { s with reruns := [] } rfl now r.cmd with hnil | ⟨r', hr', hk⟩
      · simp only [hnil]
        exact hrec [] (by simpa using hrm.1)
      · simp only [hr']
        refine hrec [r'] ?_
        rw [← List.append_assoc]
        cases hsk : skey r.cmd with
        | none =>
          exact hrm.1.append_none [r'] (fun x hx => by simp only [List.mem_singleton] at hx; subst hx; rw [hk, hsk])
        | some k0 => exact hrm.1.append_new r' k0 (hk.trans hsk) (hrm.2 k0 hsk)
    · exact oneEach_runReruns now fuel (keep ++ [r]) rest s hs (by simpa using h)

/-- **One schedule per search, through an iteration** -/
theorem oneEach_iter (s : State) (now : Nat) (pkts : List Packet) (cmds : List Command) (h : OneEachC s.reruns) :
    OneEachC (Client.iter s now pkts cmds).1.reruns := by
  have h1 : OneEachC (preCommands s now pkts).reruns := OneEachC.af (s' := (ingress s now pkts).1) h (af_ingress now pkts s)
  have h2 := oneEach_runCommands now cmds _ h1
  have h3 : OneEachC (rerunPhase (runCommands (preCommands s now pkts) now cmds).1 now).1.reruns :=
    oneEach_runReruns now _ [] _ _ rfl (by simpa using h2)
  rw [(iter_tail s now pkts cmds).1, (runIpCheck_searches _ now).2.2]
  unfold tailState evictAddrPhase
  exact OneEachC.af (s := { (evictServicesPhase (refreshResolvers (refreshActive (rerunPhase (runCommands
      (preCommands s now pkts) now cmds).1 now).1 now).1 now).1 now).1 with
      cache := (evictAddr (evictServicesPhase (refreshResolvers (refreshActive (rerunPhase (runCommands
        (preCommands s now pkts) now cmds).1 now).1 now).1 now).1 now).1.cache now).1 }) h3 (af_evictAddrHosts now _ _ _)

/-! ### what the re-run loop keeps and what it runs -/

/-- a queued re-run that is not yet due stays queued -/
theorem runReruns_keeps (now : Nat) : ∀ (fuel : Nat) (keep rest : List Rerun) (st : State) (x : Rerun),
    x ∈ keep ++ rest → now < x.next → x ∈ (runReruns st now fuel keep rest).1.reruns
  | 0, keep, rest, st, x, hx, _ => by
    simp only [runReruns, List.mem_append] at hx ⊢
    exact Or.inl hx
  | _ + 1, keep, [], st, x, hx, _ => by
    simp only [runReruns, List.append_nil, List.mem_append] at hx ⊢
    exact Or.inl hx
  | fuel + 1, keep, r :: rest, st, x, hx, hlt => by
    unfold runReruns
    split
    · rename_i hdue
      apply runReruns_keeps now fuel keep _ _ x _ hlt
      simp only [List.mem_append, List.mem_cons] at hx ⊢
      rcases hx with hx | rfl | hx
      · exact Or.inl hx
      · omega
      · exact Or.inr (Or.inl hx)
    · apply runReruns_keeps now fuel (keep ++ [r]) rest st x _ hlt
      simp only [List.mem_append, List.mem_cons] at hx
      rcases hx with hx | rfl | hx <;> simp [*]

/-- a queued retransmission of a browse that is due is run: the query goes out and the next one
    is queued `delay` seconds ahead with the doubled delay -/
theorem runReruns_browse_due (now : Nat) (ty : BList) (d ch n : Nat) (hdue : now ≥ n) (hd : 1 ≤ d) :
    ∀ (pre : List Rerun) (fuel : Nat) (keep post : List Rerun) (st : State), pre.length < fuel →
      (⟨now + d * 1000, .browse ty (Sched.nextDelay d) ch⟩ : Rerun) ∈
        (runReruns st now fuel keep (pre ++ ⟨n, .browse ty d ch⟩ :: post)).1.reruns ∧
      ∃ known, Out.query [(ty, 12)] known ∈ (runReruns st now fuel keep (pre ++ ⟨n, .browse ty d ch⟩ :: post)).2
  | [], fuel + 1, keep, post, st, _ => by
    simp only [List.nil_append]
    rw [runReruns]
    simp only [hdue, if_true]
    have hq : (execRerun { st with reruns := [] } now (.browse ty d ch)).1.reruns =
        [⟨now + d * 1000, .browse ty (Sched.nextDelay d) ch⟩] := by
      simp [execRerun, execBrowse, addRerun]
    refine ⟨?_, ?_⟩
    · apply runReruns_keeps
      · rw [hq]
        simp
      · simp only
        omega
    · have hm : sendQuery st.cache now [(ty, 12)] ∈ (execRerun { st with reruns := [] } now (.browse ty d ch)).2 := by
        simp [execRerun, execBrowse]
      exact ⟨_, List.mem_append_left _ hm⟩
  | p :: pre', fuel + 1, keep, post, st, hf => by
    have hf' : pre'.length < fuel := by simpa using hf
    simp only [List.cons_append]
    rw [runReruns]
    split
    · have ih := runReruns_browse_due now ty d ch n hdue hd pre' fuel keep
        (post ++ (execRerun { st with reruns := [] } now p.cmd).1.reruns)
        { (execRerun { st with reruns := [] } now p.cmd).1 with reruns := [] } hf'
      simp only [List.append_assoc, List.cons_append] at ih ⊢
      refine ⟨ih.1, ?_⟩
      obtain ⟨known, hk⟩ := ih.2
      exact ⟨known, List.mem_append_right _ hk⟩
    · exact runReruns_browse_due now ty d ch n hdue hd pre' fuel (keep ++ [p]) post st hf'

theorem filter_eq_singleton {α} (p : α → Bool) (l : List α) (x : α) (hx : x ∈ l) (hp : p x = true)
    (hl : (l.filter p).length ≤ 1) : l.filter p = [x] := by
  have hm : x ∈ l.filter p := List.mem_filter.mpr ⟨hx, hp⟩
  cases hf : l.filter p with
  | nil => rw [hf] at hm; cases hm
  | cons a rest =>
    rw [hf] at hm hl
    cases rest with
    | nil =>
      simp only [List.mem_singleton] at hm
      rw [hm]
    | cons b rest' => simp at hl

/-! ### the queued retransmission of one browse -/

theorem key_filter_af {s s' : State} (ha : AppendsFollowups s s') (k : Bool × BList) :
    s'.reruns.filter (fun r => skey r.cmd == some k) = s.reruns.filter (fun r => skey r.cmd == some k) := by
  obtain ⟨extra, he, hk⟩ := ha
  rw [he, List.filter_append]
  have : extra.filter (fun r => skey r.cmd == some k) = [] := by
    rw [List.filter_eq_nil_iff]
    intro r hr
    simp [hk r hr]
  rw [this, List.append_nil]

theorem filter_filter_other (p : Rerun → Bool) (k : Bool × BList) (l : List Rerun)
    (h : ∀ r, (skey r.cmd == some k) = true → p r = true) :
    (l.filter p).filter (fun r => skey r.cmd == some k) = l.filter (fun r => skey r.cmd == some k) := by
  rw [List.filter_filter]
  apply List.filter_congr
  intro r _
  cases hk : (skey r.cmd == some k) with
  | false => simp
  | true => simp [h r hk]

/-- a command that neither browses nor stops `ty` leaves the queued retransmission of `ty` alone -/
theorem key_filter_execCommand (ty : BList) (s : State) (now : Nat) (c : Command) (hc : touchesType ty c = false) :
    (execCommand s now c).1.reruns.filter (fun r => skey r.cmd == some (false, ty)) =
      s.reruns.filter (fun r => skey r.cmd == some (false, ty)) := by
  cases c with
  | browse ty' ch co =>
    have hne : ¬ ty' = ty := by simpa [touchesType] using hc
    let x0 : List BList → State := fun cs =>
      { s with reruns := s.reruns.filter (fun r => !isBrowseOf ty' r),
               queriers := (ty', ch) :: s.queriers.filter (fun q => q.1 != ty'), cacheOnly := cs }
    have h0 : ∀ cs, (x0 cs).reruns.filter (fun r => skey r.cmd == some (false, ty)) =
        s.reruns.filter (fun r => skey r.cmd == some (false, ty)) := by
      intro cs
      apply filter_filter_other
      intro r hr
      rw [isBrowseOf_iff]
      have : skey r.cmd = some (false, ty) := by simpa using hr
      have hne' : ¬ ty = ty' := fun e => hne e.symm
      simp [this, hne']
    have h1 := fun cs => key_filter_af (af_queryCacheForService (x0 cs) now ty' ch) (false, ty)
    show (execBrowse s now false ty' 1 co ch).1.reruns.filter _ = _
    unfold execBrowse
    cases co
    case true =>
      simp only [Bool.false_eq_true, if_false, if_true]
      exact (h1 _).trans (h0 _)
    case false =>
      simp only [Bool.false_eq_true, if_false, addRerun, List.filter_append]
      have : [({ next := now + 1 * 1000, cmd := RCmd.browse ty' (Sched.nextDelay 1) ch } : Rerun)].filter
          (fun r => skey r.cmd == some (false, ty)) = [] := by
        simp [skey, hne]
      rw [this, List.append_nil]
      exact (h1 _).trans (h0 _)
  | stopBrowse ty' =>
    have hne : ¬ ty' = ty := by simpa [touchesType] using hc
    simp only [execCommand, execStopBrowse]
    split
    · rfl
    · apply filter_filter_other
      intro r hr
      rw [isBrowseOf_iff]
      have : skey r.cmd = some (false, ty) := by simpa using hr
      have hne' : ¬ ty = ty' := fun e => hne e.symm
      simp [this, hne']
  | resolveHost h0 ch t =>
    have hfil : (s.reruns.filter (fun r => !isResolveOf (lower h0) r)).filter (fun r => skey r.cmd == some (false, ty)) =
        s.reruns.filter (fun r => skey r.cmd == some (false, ty)) := by
      apply filter_filter_other
      intro r hr
      rw [isResolveOf_iff]
      have : skey r.cmd = some (false, ty) := by simpa using hr
      simp [this]
    simp only [execCommand, execResolveHost, Bool.false_and, Bool.false_eq_true, if_false]
    cases t with
    | none =>
      simp only [Option.map_none]
      split
      · simp only [addRerun, List.filter_append]
        rw [hfil]
        simp [skey]
      · exact hfil
    | some t0 =>
      simp only [Option.map_some]
      split
      · simp only [addRerun, List.filter_append]
        rw [hfil]
        simp [skey]
      · exact hfil
  | stopResolve h0 =>
    simp only [execCommand, execStopResolve]
    split
    · rfl
    · apply filter_filter_other
      intro r hr
      rw [isResolveOf_iff]
      have : skey r.cmd = some (false, ty) := by simpa using hr
      simp [this]
  | ipInterval ms => rfl
  | verify inst t =>
    simp only [execCommand, execVerify, Bool.false_eq_true, if_false]
    split
    · rfl
    · simp [addRerun, addTimers, List.filter_append, skey]
  | metrics ch => rfl
  | acceptUnsolicited on => rfl

theorem key_filter_runCommands (ty : BList) (now : Nat) : ∀ (l : List Command) (s : State),
    l.all (fun c => !touchesType ty c) = true →
    (runCommands s now l).1.reruns.filter (fun r => skey r.cmd == some (false, ty)) =
      s.reruns.filter (fun r => skey r.cmd == some (false, ty))
  | [], _, _ => rfl
  | c :: rest, s, hc => by
    simp only [List.all_cons, Bool.and_eq_true, Bool.not_eq_true'] at hc
    simp only [runCommands]
    rw [key_filter_runCommands ty now rest _ hc.2, key_filter_execCommand ty s now c hc.1]

/-- the retransmission schedule of the browse of `ty`: the query number `k` (the one of the call
    is number 0) went out at `t`; the next one is queued for `t + delay k` seconds and carries
    the delay `delay (k + 1)` -/
def BrowseSched (ty : BList) (ch t k : Nat) (s : State) : Prop :=
  s.reruns.filter (fun r => skey r.cmd == some (false, ty)) =
    [⟨t + Delay.delay k * 1000, .browse ty (Delay.delay (k + 1)) ch⟩]

theorem nextDelay_eq (d : Nat) : Sched.nextDelay d = Delay.nextDelay d := rfl

theorem rerunPhase_outs_in_iter (s : State) (now : Nat) (pkts : List Packet) (cmds : List Command) (o : Out)
    (h : o ∈ (rerunPhase (runCommands (preCommands s now pkts) now cmds).1 now).2) : o ∈ (Client.iter s now pkts cmds).2 := by
  rw [iter_outs]
  simp only [List.mem_append]
  left; left; left; left; right
  exact h

theorem rerunPhase_reruns_in_iter (s : State) (now : Nat) (pkts : List Packet) (cmds : List Command) (x : Rerun)
    (hx : x ∈ (rerunPhase (runCommands (preCommands s now pkts) now cmds).1 now).1.reruns) :
    x ∈ (Client.iter s now pkts cmds).1.reruns := by
  rw [(iter_tail s now pkts cmds).1, (runIpCheck_searches _ now).2.2]
  unfold tailState evictAddrPhase
  obtain ⟨extra, he, _⟩ := af_evictAddrHosts now
    (evictAddr (evictServicesPhase (refreshResolvers (refreshActive (rerunPhase (runCommands
      (preCommands s now pkts) now cmds).1 now).1 now).1 now).1 now).1.cache now).2
    (((evictAddr (evictServicesPhase (refreshResolvers (refreshActive (rerunPhase (runCommands
      (preCommands s now pkts) now cmds).1 now).1 now).1 now).1 now).1.cache now).2.map (·.1)).eraseDups)
    { (evictServicesPhase (refreshResolvers (refreshActive (rerunPhase (runCommands
      (preCommands s now pkts) now cmds).1 now).1 now).1 now).1 now).1 with
      cache := (evictAddr (evictServicesPhase (refreshResolvers (refreshActive (rerunPhase (runCommands
        (preCommands s now pkts) now cmds).1 now).1 now).1 now).1 now).1.cache now).1 }
  rw [he]
  exact List.mem_append_left _ hx

/-- the re-run phase on a state `m` whose queue holds the retransmission of `ty` -/
theorem rerunPhase_browse (ty : BList) (d ch n : Nat) (m : State) (now : Nat) (hd : 1 ≤ d)
    (hmem : (⟨n, .browse ty d ch⟩ : Rerun) ∈ m.reruns) :
    (now < n → (⟨n, .browse ty d ch⟩ : Rerun) ∈ (rerunPhase m now).1.reruns) ∧
    (n ≤ now → (⟨now + d * 1000, .browse ty (Sched.nextDelay d) ch⟩ : Rerun) ∈ (rerunPhase m now).1.reruns ∧
      ∃ known, Out.query [(ty, 12)] known ∈ (rerunPhase m now).2) := by
  unfold rerunPhase
  refine ⟨?_, ?_⟩
  · intro hlt
    exact runReruns_keeps now _ [] m.reruns _ _ (by simpa using hmem) hlt
  · intro hdue
    obtain ⟨pre, post, hpp⟩ := List.append_of_mem hmem
    have hlen : pre.length < m.reruns.length * 2 + 2 := by
      rw [hpp]
      simp only [List.length_append, List.length_cons]
      omega
    have hrun := runReruns_browse_due now ty d ch n hdue hd pre (m.reruns.length * 2 + 2) [] post
      { m with reruns := [] } hlen
    rw [← hpp] at hrun
    exact hrun

/-- **One step of the schedule.**  In an iteration at `now` whose commands neither browse nor
    stop `ty`: before the due time nothing changes; at or after it the query `[(ty, PTR)]` goes
    out, and the next one is queued `delay (k + 1)` seconds after `now`, carrying the next delay
    of the sequence. -/
theorem browseSched_iter (ty : BList) (ch t k : Nat) (s : State) (now : Nat) (pkts : List Packet) (cmds : List Command)
    (h1 : OneEachC s.reruns) (hs : BrowseSched ty ch t k s) (hc : cmds.all (fun c => !touchesType ty c) = true) :
    (now < t + Delay.delay k * 1000 → BrowseSched ty ch t k (Client.iter s now pkts cmds).1) ∧
    (t + Delay.delay k * 1000 ≤ now → BrowseSched ty ch now (k + 1) (Client.iter s now pkts cmds).1 ∧
      ∃ known, Out.query [(ty, 12)] known ∈ (Client.iter s now pkts cmds).2) := by
  -- the queue when the re-run phase starts
  have hmid : (runCommands (preCommands s now pkts) now cmds).1.reruns.filter (fun r => skey r.cmd == some (false, ty)) =
      [⟨t + Delay.delay k * 1000, .browse ty (Delay.delay (k + 1)) ch⟩] := by
    rw [key_filter_runCommands ty now cmds _ hc]
    have : (preCommands s now pkts).reruns = (ingress s now pkts).1.reruns := rfl
    rw [this, key_filter_af (af_ingress now pkts s)]
    exact hs
  have hmem : (⟨t + Delay.delay k * 1000, .browse ty (Delay.delay (k + 1)) ch⟩ : Rerun) ∈
      (runCommands (preCommands s now pkts) now cmds).1.reruns := by
    have : (⟨t + Delay.delay k * 1000, .browse ty (Delay.delay (k + 1)) ch⟩ : Rerun) ∈
        (runCommands (preCommands s now pkts) now cmds).1.reruns.filter (fun r => skey r.cmd == some (false, ty)) := by
      rw [hmid]
      exact List.mem_cons_self
    exact (List.mem_filter.mp this).1
  have hone := oneEach_iter s now pkts cmds h1
  have hph := rerunPhase_browse ty (Delay.delay (k + 1)) ch (t + Delay.delay k * 1000)
    (runCommands (preCommands s now pkts) now cmds).1 now (Delay.delay_pos (k + 1)) hmem
  refine ⟨?_, ?_⟩
  · intro hlt
    have hx := rerunPhase_reruns_in_iter s now pkts cmds _ (hph.1 hlt)
    have hp : (fun r : Rerun => skey r.cmd == some (false, ty))
        ⟨t + Delay.delay k * 1000, .browse ty (Delay.delay (k + 1)) ch⟩ = true := by
      simp [skey]
    exact filter_eq_singleton (fun r : Rerun => skey r.cmd == some (false, ty)) (Client.iter s now pkts cmds).1.reruns
      ⟨t + Delay.delay k * 1000, .browse ty (Delay.delay (k + 1)) ch⟩ hx hp (hone (false, ty))
  · intro hdue
    obtain ⟨hq, known, hk⟩ := hph.2 hdue
    refine ⟨?_, known, rerunPhase_outs_in_iter s now pkts cmds _ hk⟩
    have hx := rerunPhase_reruns_in_iter s now pkts cmds _ hq
    have hp : (fun r : Rerun => skey r.cmd == some (false, ty))
        ⟨now + Delay.delay (k + 1) * 1000, .browse ty (Sched.nextDelay (Delay.delay (k + 1))) ch⟩ = true := by
      simp [skey]
    have := filter_eq_singleton (fun r : Rerun => skey r.cmd == some (false, ty)) (Client.iter s now pkts cmds).1.reruns
      ⟨now + Delay.delay (k + 1) * 1000, .browse ty (Sched.nextDelay (Delay.delay (k + 1))) ch⟩ hx hp (hone (false, ty))
    unfold BrowseSched
    rw [this]
    rfl

/-! ### the same from the middle of an iteration (after some of its commands) -/

theorem oneEach_tail (x : State) (now : Nat) (post : List Command) (h : OneEachC x.reruns) :
    OneEachC (runIpCheck (tailState x now post) now).reruns := by
  have h2 := oneEach_runCommands now post _ h
  have h3 : OneEachC (rerunPhase (runCommands x now post).1 now).1.reruns :=
    oneEach_runReruns now _ [] _ _ rfl (by simpa using h2)
  rw [(runIpCheck_searches _ now).2.2]
  unfold tailState evictAddrPhase
  exact OneEachC.af (s := { (evictServicesPhase (refreshResolvers (refreshActive (rerunPhase (runCommands
      x now post).1 now).1 now).1 now).1 now).1 with
      cache := (evictAddr (evictServicesPhase (refreshResolvers (refreshActive (rerunPhase (runCommands
        x now post).1 now).1 now).1 now).1 now).1.cache now).1 }) h3 (af_evictAddrHosts now _ _ _)

theorem rerunPhase_reruns_in_tail (x : State) (now : Nat) (post : List Command) (r : Rerun)
    (hr : r ∈ (rerunPhase (runCommands x now post).1 now).1.reruns) :
    r ∈ (runIpCheck (tailState x now post) now).reruns := by
  rw [(runIpCheck_searches _ now).2.2]
  unfold tailState evictAddrPhase
  obtain ⟨extra, he, _⟩ := af_evictAddrHosts now
    (evictAddr (evictServicesPhase (refreshResolvers (refreshActive (rerunPhase (runCommands
      x now post).1 now).1 now).1 now).1 now).1.cache now).2
    (((evictAddr (evictServicesPhase (refreshResolvers (refreshActive (rerunPhase (runCommands
      x now post).1 now).1 now).1 now).1 now).1.cache now).2.map (·.1)).eraseDups)
    { (evictServicesPhase (refreshResolvers (refreshActive (rerunPhase (runCommands
      x now post).1 now).1 now).1 now).1 now).1 with
      cache := (evictAddr (evictServicesPhase (refreshResolvers (refreshActive (rerunPhase (runCommands
        x now post).1 now).1 now).1 now).1 now).1.cache now).1 }
  rw [he]
  exact List.mem_append_left _ hr

/-- the retransmission a `browse` command queues is still the queued one at the end of its
    iteration: the schedule starts with the query of the call at `now`, the next one 1 s later -/
theorem browseSched_starts (ty : BList) (ch : Nat) (x : State) (now : Nat) (post : List Command)
    (h1 : OneEachC x.reruns) (hc : post.all (fun c => !touchesType ty c) = true) :
    BrowseSched ty ch now 0 (runIpCheck (tailState (execCommand x now (.browse ty ch false)).1 now post) now) := by
  have hone := oneEach_tail _ now post (oneEach_execCommand x now (.browse ty ch false) h1)
  -- the queue after the command: the purge leaves nothing of `ty`, then the new re-run
  have hq0 : (⟨now + 1 * 1000, .browse ty (Sched.nextDelay 1) ch⟩ : Rerun) ∈
      (execCommand x now (.browse ty ch false)).1.reruns := by
    simp [execCommand, execBrowse, addRerun]
  have hq1 : (⟨now + 1 * 1000, .browse ty (Sched.nextDelay 1) ch⟩ : Rerun) ∈
      (runCommands (execCommand x now (.browse ty ch false)).1 now post).1.reruns := by
    have hf := key_filter_runCommands ty now post (execCommand x now (.browse ty ch false)).1 hc
    have : (⟨now + 1 * 1000, .browse ty (Sched.nextDelay 1) ch⟩ : Rerun) ∈
        (execCommand x now (.browse ty ch false)).1.reruns.filter (fun r => skey r.cmd == some (false, ty)) :=
      List.mem_filter.mpr ⟨hq0, by simp [skey]⟩
    rw [← hf] at this
    exact (List.mem_filter.mp this).1
  have hph := (rerunPhase_browse ty (Sched.nextDelay 1) ch (now + 1 * 1000)
    (runCommands (execCommand x now (.browse ty ch false)).1 now post).1 now (by decide) hq1).1 (by omega)
  have hx := rerunPhase_reruns_in_tail _ now post _ hph
  have hp : (fun r : Rerun => skey r.cmd == some (false, ty))
      ⟨now + 1 * 1000, .browse ty (Sched.nextDelay 1) ch⟩ = true := by
    simp [skey]
  have := filter_eq_singleton (fun r : Rerun => skey r.cmd == some (false, ty)) _ _ hx hp (hone (false, ty))
  unfold BrowseSched
  rw [this]
  rfl

theorem delaysOk_run (t0 : Nat) (intfs : List Intf) (h : List (Nat × List Packet × List Command)) :
    ∀ r ∈ (run (init t0 intfs) h).1.reruns, DelayOk r := by
  have : ∀ (h : List (Nat × List Packet × List Command)) (hist : List Delivery) (s : State), CacheProv hist s.cache →
      (∀ r ∈ s.reruns, DelayOk r) → ∀ r ∈ (run s h).1.reruns, DelayOk r := by
    intro h
    induction h with
    | nil => intro _ _ _ hD; exact hD
    | cons it rest ih =>
      intro hist s hc hD
      obtain ⟨now, pkts, cmds⟩ := it
      simp only [run]
      exact ih _ _ (ok_iter hist s now pkts cmds hc).1 (delayOk_iter hist s now pkts cmds hc hD)
  exact this h [] _ (cacheProv_empty []) (fun _ hr => by cases hr)

theorem oneEach_run : ∀ (h : List (Nat × List Packet × List Command)) (s : State), OneEachC s.reruns →
    OneEachC (run s h).1.reruns
  | [], _, hs => hs
  | (now, pkts, cmds) :: rest, s, hs => by
    simp only [run]
    exact oneEach_run rest _ (oneEach_iter s now pkts cmds hs)

/-! ### follow-ups (C04): a due `Resolve(inst, k)` is run -/

/-- a queued follow-up that is due is run on the cache of the re-run phase: when something is
    missing the query goes out, and try `k + 1` is queued 500 ms ahead while `k < 3` -/
theorem runReruns_resolve_due (now : Nat) (inst : BList) (k n : Nat) (hdue : now ≥ n) :
    ∀ (pre : List Rerun) (fuel : Nat) (keep post : List Rerun) (st : State), pre.length < fuel →
      ∀ qs, queryUnresolved st.cache inst = some qs →
        sendQuery st.cache now qs ∈ (runReruns st now fuel keep (pre ++ ⟨n, .resolve inst k⟩ :: post)).2 ∧
        (k < MAX_TRY → (⟨now + RESOLVE_WAIT, .resolve inst (k + 1)⟩ : Rerun) ∈
          (runReruns st now fuel keep (pre ++ ⟨n, .resolve inst k⟩ :: post)).1.reruns)
  | [], fuel + 1, keep, post, st, _, qs, hqs => by
    simp only [List.nil_append]
    rw [runReruns]
    simp only [hdue, if_true]
    refine ⟨List.mem_append_left _ ?_, ?_⟩
    · simp [execRerun, execResolveInst, hqs]
    · intro hk
      apply runReruns_keeps
      · simp [execRerun, execResolveInst, hqs, hk, addRerun]
      · simp only [RESOLVE_WAIT]
        omega
  | p :: pre', fuel + 1, keep, post, st, hf, qs, hqs => by
    have hf' : pre'.length < fuel := by simpa using hf
    simp only [List.cons_append]
    rw [runReruns]
    split
    · have hc : (execRerun { st with reruns := [] } now p.cmd).1.cache = st.cache := execRerun_cache _ now p.cmd
      have ih := runReruns_resolve_due now inst k n hdue pre' fuel keep
        (post ++ (execRerun { st with reruns := [] } now p.cmd).1.reruns)
        { (execRerun { st with reruns := [] } now p.cmd).1 with reruns := [] } hf' qs (by simpa [hc] using hqs)
      simp only [List.append_assoc, List.cons_append, hc] at ih ⊢
      exact ⟨List.mem_append_right _ ih.1, ih.2⟩
    · exact runReruns_resolve_due now inst k n hdue pre' fuel (keep ++ [p]) post st hf' qs hqs

/-- commands never take a follow-up out of the queue -/
theorem followup_kept_execCommand (s : State) (now : Nat) (c : Command) (r : Rerun) (hk : skey r.cmd = none)
    (hr : r ∈ s.reruns) : r ∈ (execCommand s now c).1.reruns := by
  have hb : ∀ ty, isBrowseOf ty r = false := by
    intro ty
    rw [isBrowseOf_iff, hk]
    rfl
  have hh : ∀ key, isResolveOf key r = false := by
    intro key
    rw [isResolveOf_iff, hk]
    rfl
  cases c with
  | browse ty ch co =>
    let x0 : List BList → State := fun cs =>
      { s with reruns := s.reruns.filter (fun r => !isBrowseOf ty r),
               queriers := (ty, ch) :: s.queriers.filter (fun q => q.1 != ty), cacheOnly := cs }
    have h0 : ∀ cs, r ∈ (x0 cs).reruns := fun _ => List.mem_filter.mpr ⟨hr, by simp [hb ty]⟩
    have h1 : ∀ cs, r ∈ (queryCacheForService (x0 cs) now ty ch).1.reruns := by
      intro cs
      obtain ⟨extra, he, _⟩ := af_queryCacheForService (x0 cs) now ty ch
      rw [he]
      exact List.mem_append_left _ (h0 cs)
    show r ∈ (execBrowse s now false ty 1 co ch).1.reruns
    unfold execBrowse
    cases co
    case true =>
      simp only [Bool.false_eq_true, if_false, if_true]
      exact h1 _
    case false =>
      simp only [Bool.false_eq_true, if_false, addRerun]
      exact List.mem_append_left _ (h1 _)
  | stopBrowse ty =>
    simp only [execCommand, execStopBrowse]
    split
    · exact hr
    · exact List.mem_filter.mpr ⟨hr, by simp [hb ty]⟩
  | resolveHost h0 ch t =>
    have h1 : r ∈ s.reruns.filter (fun r => !isResolveOf (lower h0) r) := List.mem_filter.mpr ⟨hr, by simp [hh (lower h0)]⟩
    simp only [execCommand, execResolveHost, Bool.false_and, Bool.false_eq_true, if_false]
    cases t with
    | none =>
      simp only [Option.map_none]
      split
      · simp only [addRerun]
        exact List.mem_append_left _ h1
      · exact h1
    | some t0 =>
      simp only [Option.map_some]
      split
      · simp only [addRerun]
        exact List.mem_append_left _ h1
      · exact h1
  | stopResolve h0 =>
    simp only [execCommand, execStopResolve]
    split
    · exact hr
    · exact List.mem_filter.mpr ⟨hr, by simp [hh (lower h0)]⟩
  | ipInterval ms => exact hr
  | verify inst t =>
    simp only [execCommand, execVerify, Bool.false_eq_true, if_false]
    split
    · exact hr
    · simp only [addRerun, addTimers]
      exact List.mem_append_left _ hr
  | metrics ch => exact hr
  | acceptUnsolicited on => exact hr

theorem followup_kept_runCommands (now : Nat) (r : Rerun) (hk : skey r.cmd = none) : ∀ (l : List Command) (s : State),
    r ∈ s.reruns → r ∈ (runCommands s now l).1.reruns
  | [], _, hr => hr
  | c :: rest, s, hr => by
    simp only [runCommands]
    exact followup_kept_runCommands now r hk rest _ (followup_kept_execCommand s now c r hk hr)

/-- **A due follow-up is run in the iteration.**  `Resolve(inst, k)` is queued for `n ≤ now`.  In
    the iteration at `now` - whatever it reads and whatever commands it processes - it is run on
    the cache as it is when the re-run phase starts: if something is still missing there
    (`queryUnresolved = some qs`), the query `qs` goes out in this iteration and, while `k < 3`,
    try `k + 1` is queued for `now + 500`. -/
theorem followup_due_iter (s : State) (now : Nat) (pkts : List Packet) (cmds : List Command) (inst : BList) (k n : Nat)
    (hr : (⟨n, .resolve inst k⟩ : Rerun) ∈ s.reruns) (hdue : n ≤ now) (qs : List (BList × Nat))
    (hqs : queryUnresolved (runCommands (preCommands s now pkts) now cmds).1.cache inst = some qs) :
    sendQuery (runCommands (preCommands s now pkts) now cmds).1.cache now qs ∈ (Client.iter s now pkts cmds).2 ∧
    (k < 3 → (⟨now + 500, .resolve inst (k + 1)⟩ : Rerun) ∈ (Client.iter s now pkts cmds).1.reruns) := by
  have h1 : (⟨n, .resolve inst k⟩ : Rerun) ∈ (preCommands s now pkts).reruns := by
    obtain ⟨extra, he, _⟩ := af_ingress now pkts s
    show _ ∈ (ingress s now pkts).1.reruns
    rw [he]
    exact List.mem_append_left _ hr
  have h2 := followup_kept_runCommands now _ rfl cmds _ h1
  obtain ⟨pre, post, hpp⟩ := List.append_of_mem h2
  have hlen : pre.length < (runCommands (preCommands s now pkts) now cmds).1.reruns.length * 2 + 2 := by
    rw [hpp]
    simp only [List.length_append, List.length_cons]
    omega
  have hrun := runReruns_resolve_due now inst k n hdue pre
    ((runCommands (preCommands s now pkts) now cmds).1.reruns.length * 2 + 2) [] post
    { (runCommands (preCommands s now pkts) now cmds).1 with reruns := [] } hlen qs hqs
  rw [← hpp] at hrun
  refine ⟨rerunPhase_outs_in_iter s now pkts cmds _ hrun.1, ?_⟩
  intro hk
  exact rerunPhase_reruns_in_iter s now pkts cmds _ (hrun.2 hk)

/-! ### an instance without SRV entry stays without one while nothing arrives -/

theorem get_none_of_not_mem_keys (t : Table) (k : BList) (h : k ∉ t.keys) : t.get k = none := by
  induction t with
  | nil => rfl
  | cons p rest ih =>
    obtain ⟨pk, pv⟩ := p
    simp only [Table.keys_cons, List.mem_cons, not_or] at h
    simp only [Table.get, List.lookup]
    have : (k == pk) = false := by simpa using h.1
    simp only [this]
    exact ih h.2

theorem not_mem_keys_of_get_none (t : Table) (k : BList) (h : t.get k = none) : k ∉ t.keys := by
  induction t with
  | nil => simp [Table.keys]
  | cons p rest ih =>
    obtain ⟨pk, pv⟩ := p
    simp only [Table.get, List.lookup] at h
    split at h
    · cases h
    · rename_i hne
      simp only [Table.keys_cons, List.mem_cons, not_or]
      exact ⟨by simpa using hne, ih h⟩

/-- the SRV names after the refresh look-ups of the browsed types are the same -/
theorem refreshTypes_srv_keys (now : Nat) : ∀ (l : List BList) (c : Cache), (refreshTypes c now l).1.srv.keys = c.srv.keys
  | [], _ => rfl
  | ty :: rest, c => by
    simp only [refreshTypes]
    rw [refreshTypes_srv_keys now rest]
    unfold refreshType
    simp only []
    have h1 : ∀ (l : List BList) (sd : SrvTxtDue), (refreshSrvTxtGo now l sd).cache.srv.keys = sd.cache.srv.keys := by
      intro l
      induction l with
      | nil => intro sd; rfl
      | cons i r ih =>
        intro sd
        unfold refreshSrvTxtGo
        rw [ih]
        simp only [keys_modify]
    have h2 : ∀ (l : List BList) (hd : HostsDue), (refreshHostsGo now l hd).cache.srv.keys = hd.cache.srv.keys := by
      intro l
      induction l with
      | nil => intro hd; rfl
      | cons i r ih =>
        intro hd
        unfold refreshHostsGo
        rw [ih]
    unfold refreshDueHosts refreshDueSrvTxt
    rw [h2, h1]
    unfold refreshDuePtr
    split <;> rfl

theorem refreshResolversGo_srv (now : Nat) : ∀ (l : List BList) (c : Cache), (refreshResolversGo c now l).1.srv = c.srv
  | [], _ => rfl
  | h :: rest, c => by
    simp only [refreshResolversGo]
    rw [refreshResolversGo_srv now rest]
    rfl

/-- an iteration without datagram and command does not give an instance an SRV entry -/
theorem srv_none_quiet (s : State) (now : Nat) (inst : BList) (h : s.cache.srv.get inst = none) :
    (Client.iter s now [] []).1.cache.srv.get inst = none ∧
    (runCommands (preCommands s now []) now []).1.cache.srv.get inst = none := by
  refine ⟨?_, h⟩
  have hk := not_mem_keys_of_get_none _ _ h
  apply get_none_of_not_mem_keys
  intro hm
  apply hk
  have hc : (Client.iter s now [] []).1.cache.srv = evictLive now (preEvict s now [] []).cache.srv := by
    simp only [Client.iter, runIpCheck_cache, evictAddrPhase, evictAddrHosts_cache, evictServicesPhase]
    rfl
  have hk2 : (preEvict s now [] []).cache.srv.keys = s.cache.srv.keys := by
    unfold preEvict
    simp only [refreshResolvers, refreshActive, addTimers_cache]
    rw [refreshResolversGo_srv, refreshTypes_srv_keys, rerunPhase_cache]
    rfl
  rw [hc] at hm
  have h1 := (keys_evictLive_sublist now _).subset hm
  rw [hk2] at h1
  exact h1

end Mdns.Client
