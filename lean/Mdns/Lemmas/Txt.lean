import Mdns.Model.Txt
/-
  Helper lemmas for C16 (TXT codec).
-/
namespace Mdns.Txt
open Mdns

/-! ### UTF-8 / ASCII -/

theorem validUtf8_of_ascii : ∀ (s : BList), isAscii s = true → validUtf8 s = true
  | [], _ => by simp [validUtf8]
  | b :: rest, h => by
    simp only [isAscii, List.all_cons, Bool.and_eq_true] at h
    have hb : b < 0x80 := by simpa [isAsciiByte] using h.1
    have ih := validUtf8_of_ascii rest (by simpa [isAscii] using h.2)
    unfold validUtf8
    simp only [hb, ↓reduceIte]
    exact ih

/-! ### splitting at the first '=' -/

theorem takeWhile_all {α} (p : α → Bool) : ∀ l : List α, (∀ x ∈ l, p x = true) → l.takeWhile p = l
  | [], _ => rfl
  | a :: l, h => by
    have ha := h a (by simp)
    simp only [List.takeWhile, ha]
    rw [takeWhile_all p l (fun x hx => h x (by simp [hx]))]

theorem dropWhile_all {α} (p : α → Bool) : ∀ l : List α, (∀ x ∈ l, p x = true) → l.dropWhile p = []
  | [], _ => rfl
  | a :: l, h => by
    have ha := h a (by simp)
    simp only [List.dropWhile, ha]
    exact dropWhile_all p l (fun x hx => h x (by simp [hx]))

theorem splitKV_recombine (kv : BList) :
    (splitKV kv).1 ++ (match (splitKV kv).2 with | none => [] | some v => 0x3D :: v) = kv := by
  unfold splitKV
  have h := List.takeWhile_append_dropWhile (p := (· != (0x3D : UInt8))) (l := kv)
  cases hd : kv.dropWhile (· != (0x3D : UInt8)) with
  | nil => simp [hd] at h ⊢; exact h
  | cons x v =>
    have hx : x = 0x3D := by
      have := List.head_dropWhile_not (p := (· != (0x3D : UInt8))) (l := kv) (by simp [hd])
      simp [hd] at this
      exact this
    subst hx
    simp only []
    rw [hd] at h
    exact h

theorem splitKV_str (p : TProp) (hk : p.key.contains 0x3D = false) :
    splitKV p.str = (p.key, p.val) := by
  have hall : ∀ x ∈ p.key, (x != (0x3D : UInt8)) = true := by
    intro x hx
    simp only [bne_iff_ne, ne_eq]
    intro hx'
    subst hx'
    have : p.key.contains 0x3D = true := by simpa using hx
    rw [hk] at this
    cases this
  unfold splitKV TProp.str
  cases hv : p.val with
  | none =>
    simp only [List.append_nil]
    rw [takeWhile_all _ _ hall, dropWhile_all _ _ hall]
  | some v =>
    simp only []
    rw [List.takeWhile_append_of_pos hall, List.dropWhile_append_of_pos hall]
    simp [List.takeWhile, List.dropWhile]

/-! ### `decodeTxtAt` refines to the list function -/

theorem decodeTxtAt_eq (txt : BList) (off : Nat) :
    decodeTxtAt txt off = .ok (decodeTxtL (txt.drop off)) := by
  induction h : txt.length - off using Nat.strongRecOn generalizing off with
  | _ n ih =>
    rw [decodeTxtAt]
    by_cases hlt : off < txt.length
    · simp only [hlt, ↓reduceDIte]
      have hget : txt[off]? = some txt[off] := List.getElem?_eq_getElem hlt
      have hdrop : txt.drop off = txt[off] :: txt.drop (off + 1) := List.drop_eq_getElem_cons hlt
      rw [hget, hdrop, decodeTxtL]
      simp only []
      by_cases h0 : txt[off] = 0
      · simp [h0]
      · simp only [h0, ↓reduceIte, List.length_drop]
        by_cases hover : off + 1 + txt[off].toNat > txt.length
        · have : txt[off].toNat > txt.length - (off + 1) := by omega
          simp [hover, this]
        · have h1 : ¬ txt[off].toNat > txt.length - (off + 1) := by omega
          have h2 : off + 1 + txt[off].toNat ≤ txt.length := by omega
          simp only [hover, ↓reduceIte, h1, h2]
          rw [ih (txt.length - (off + 1 + txt[off].toNat)) (by omega) (off + 1 + txt[off].toNat) rfl]
          simp only [List.drop_drop]
    · simp only [hlt, ↓reduceDIte]
      have : txt.drop off = [] := List.drop_eq_nil_of_le (by omega)
      rw [this, decodeTxtL]

theorem decodeTxt_eq (txt : BList) : decodeTxt txt = .ok (decodeTxtL txt) := by
  simp [decodeTxt, decodeTxtAt_eq]

/-! ### encoding of accepted properties -/

/-- pure encoder: length byte then the string -/
def encL (ps : List TProp) : BList :=
  ps.flatMap (fun p => UInt8.ofNat p.str.length :: p.str)

theorem str_length (p : TProp) : p.str.length = p.strLen := by
  unfold TProp.str TProp.strLen
  cases p.val <;> simp

theorem acceptedProp_iff (p : TProp) :
    acceptedProp p = true ↔
      isAscii p.key = true ∧ p.key.contains 0x3D = false ∧ p.key ≠ [] ∧ p.strLen ≤ 255 := by
  simp [acceptedProp, and_assoc]

theorem encodeOne_accepted (p : TProp) (h : acceptedProp p = true) :
    encodeOne p = .ok (UInt8.ofNat p.str.length :: p.str) := by
  have := (acceptedProp_iff p).mp h
  unfold encodeOne
  simp [str_length, this.2.2.2]

theorem encodeProps_accepted : ∀ (ps : List TProp), accepted ps = true →
    encodeProps ps = .ok (encL ps)
  | [], _ => by simp [encodeProps, encL]
  | p :: ps, h => by
    simp only [accepted, List.all_cons, Bool.and_eq_true] at h
    rw [encodeProps, encodeOne_accepted p h.1, encodeProps_accepted ps (by simpa [accepted] using h.2)]
    simp [encL]

theorem str_ne_nil (p : TProp) (h : acceptedProp p = true) : 1 ≤ p.str.length := by
  have := (acceptedProp_iff p).mp h
  have hk : 1 ≤ p.key.length := by
    cases hk : p.key with
    | nil => exact absurd hk this.2.2.1
    | cons _ _ => simp
  unfold TProp.str; simp; omega

theorem propOfKV_str (p : TProp) (h : acceptedProp p = true) : propOfKV p.str = [p] := by
  have hp := (acceptedProp_iff p).mp h
  unfold propOfKV
  rw [splitKV_str p hp.2.1]
  simp [validUtf8_of_ascii p.key hp.1]

theorem decodeTxtL_encL : ∀ (ps : List TProp), accepted ps = true → decodeTxtL (encL ps) = ps
  | [], _ => by simp [encL, decodeTxtL]
  | p :: ps, h => by
    simp only [accepted, List.all_cons, Bool.and_eq_true] at h
    have hp := (acceptedProp_iff p).mp h.1
    have hlen : p.str.length ≤ 255 := by rw [str_length]; exact hp.2.2.2
    have h1 := str_ne_nil p h.1
    have htoNat : (UInt8.ofNat p.str.length).toNat = p.str.length := by
      exact UInt8.toNat_ofNat_of_lt' (by simp [UInt8.size]; omega)
    have hne : UInt8.ofNat p.str.length ≠ 0 := by
      intro h0
      have h2 : (UInt8.ofNat p.str.length).toNat = (0 : UInt8).toNat := congrArg UInt8.toNat h0
      rw [htoNat] at h2
      have h3 : (0 : UInt8).toNat = 0 := rfl
      omega
    have henc : encL (p :: ps) = UInt8.ofNat p.str.length :: (p.str ++ encL ps) := by
      simp [encL]
    rw [henc, decodeTxtL]
    simp only [hne, ↓reduceIte, htoNat, List.length_append]
    have : ¬ p.str.length > p.str.length + (encL ps).length := by omega
    simp only [this, ↓reduceIte]
    rw [List.take_left' rfl, List.drop_left' rfl, propOfKV_str p h.1,
      decodeTxtL_encL ps (by simpa [accepted] using h.2)]
    rfl

theorem encL_ne_nil (p : TProp) (ps : List TProp) : encL (p :: ps) ≠ [] := by
  simp [encL]

/-! ### every decoded property is a contiguous piece of the input -/

theorem mem_propOfKV {kv : BList} {p : TProp} (h : p ∈ propOfKV kv) : p.str = kv := by
  unfold propOfKV at h
  have hr := splitKV_recombine kv
  cases hs : splitKV kv with
  | mk k v =>
    rw [hs] at h hr
    simp only [] at h
    split at h
    · simp only [List.mem_singleton] at h
      subst h
      exact hr
    · cases h

theorem decodeTxtL_infix (txt : BList) : ∀ p ∈ decodeTxtL txt, p.str <:+: txt := by
  induction h : txt.length using Nat.strongRecOn generalizing txt with
  | _ n ih =>
    intro p hp
    cases txt with
    | nil => simp [decodeTxtL] at hp
    | cons len rest =>
      rw [decodeTxtL] at hp
      split at hp
      · cases hp
      · split at hp
        · cases hp
        · rename_i hlen
          rcases List.mem_append.mp hp with hp | hp
          · have := mem_propOfKV hp
            rw [this]
            have : rest.take len.toNat <:+: rest := (List.take_prefix _ _).isInfix
            exact this.trans (List.suffix_cons len rest).isInfix
          · have hlt : (rest.drop len.toNat).length < n := by
              subst h; simp [List.length_drop]; omega
            have := ih _ hlt (rest.drop len.toNat) rfl p hp
            exact (this.trans (List.drop_suffix _ _).isInfix).trans (List.suffix_cons len rest).isInfix

/-! ### first-occurrence de-duplication -/

theorem dedupGo_sublist : ∀ (ps : List TProp) (seen : List BList), (dedupGo ps seen).Sublist ps
  | [], _ => by simp [dedupGo]
  | p :: ps, seen => by
    rw [dedupGo]
    split
    · exact (dedupGo_sublist ps seen).cons p
    · exact (dedupGo_sublist ps _).cons_cons p

theorem dedupGo_not_seen : ∀ (ps : List TProp) (seen : List BList),
    ∀ q ∈ dedupGo ps seen, lower q.key ∉ seen
  | [], _ => by simp [dedupGo]
  | p :: ps, seen => by
    intro q hq
    rw [dedupGo] at hq
    split at hq
    · exact dedupGo_not_seen ps seen q hq
    · rename_i hns
      rcases List.mem_cons.mp hq with rfl | hq
      · simpa using hns
      · have := dedupGo_not_seen ps _ q hq
        simp only [List.mem_cons, not_or] at this
        exact this.2

theorem dedupGo_pairwise : ∀ (ps : List TProp) (seen : List BList),
    (dedupGo ps seen).Pairwise (fun a b => lower a.key ≠ lower b.key)
  | [], _ => by simp [dedupGo]
  | p :: ps, seen => by
    rw [dedupGo]
    split
    · exact dedupGo_pairwise ps seen
    · refine List.pairwise_cons.mpr ⟨?_, dedupGo_pairwise ps _⟩
      intro q hq
      have := dedupGo_not_seen ps _ q hq
      simp only [List.mem_cons, not_or] at this
      exact fun h => this.1 h.symm

theorem find_dedupGo (k : BList) : ∀ (ps : List TProp) (seen : List BList), lower k ∉ seen →
    (dedupGo ps seen).find? (fun p => lower p.key == lower k) =
      ps.find? (fun p => lower p.key == lower k)
  | [], _, _ => by simp [dedupGo]
  | p :: ps, seen, hk => by
    rw [dedupGo]
    by_cases hpk : lower p.key = lower k
    · have : seen.contains (lower p.key) = false := by
        rw [hpk]; simpa using hk
      rw [this]
      simp [hpk]
    · have hb : (lower p.key == lower k) = false := by simpa using hpk
      split
      · rw [List.find?_cons, hb]
        exact find_dedupGo k ps seen hk
      · rw [List.find?_cons, List.find?_cons, hb]
        exact find_dedupGo k ps _ (by
          simp only [List.mem_cons, not_or]; exact ⟨fun h => hpk h.symm, hk⟩)

/-- a list without two keys equal ignoring case, none of them seen before, is left as it is -/
theorem dedupGo_id : ∀ (ps : List TProp) (seen : List BList),
    ps.Pairwise (fun a b => lower a.key ≠ lower b.key) → (∀ p ∈ ps, lower p.key ∉ seen) →
    dedupGo ps seen = ps
  | [], _, _, _ => by simp [dedupGo]
  | p :: ps, seen, hpw, hns => by
    rw [dedupGo]
    have hp : seen.contains (lower p.key) = false := by
      simpa using hns p (List.mem_cons_self)
    rw [hp]
    simp only [Bool.false_eq_true, ↓reduceIte, List.cons.injEq, true_and]
    have ⟨hhead, htail⟩ := List.pairwise_cons.mp hpw
    refine dedupGo_id ps _ htail ?_
    intro q hq
    simp only [List.mem_cons, not_or]
    exact ⟨fun h => hhead q hq h.symm, hns q (List.mem_cons_of_mem _ hq)⟩

/-- nothing is dropped except behind an earlier property with the same key (ignoring case) -/
theorem dedupGo_covers : ∀ (ps : List TProp) (seen : List BList), ∀ p ∈ ps,
    lower p.key ∈ seen ∨ ∃ q ∈ dedupGo ps seen, lower q.key = lower p.key
  | [], _ => by simp
  | a :: ps, seen => by
    intro p hp
    rw [dedupGo]
    by_cases ha : seen.contains (lower a.key) = true
    · rw [if_pos ha]
      rcases List.mem_cons.mp hp with rfl | hp
      · left; simpa using ha
      · exact dedupGo_covers ps seen p hp
    · rw [if_neg ha]
      rcases List.mem_cons.mp hp with rfl | hp
      · exact Or.inr ⟨p, List.mem_cons_self, rfl⟩
      · rcases dedupGo_covers ps (lower a.key :: seen) p hp with h | ⟨q, hq, hk⟩
        · rcases List.mem_cons.mp h with h | h
          · exact Or.inr ⟨a, List.mem_cons_self, h.symm⟩
          · exact Or.inl h
        · exact Or.inr ⟨q, List.mem_cons_of_mem _ hq, hk⟩

end Mdns.Txt
