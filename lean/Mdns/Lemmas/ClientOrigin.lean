import Mdns.Lemmas.ClientEvolve
/-
  C13 on the client model: where every output of a phase comes from (`Origin`): each event is
  sent to the channel of a browse / hostname search / queued re-run of the state, or of a
  command; each query has one of a few shapes, each with its cause.
-/
namespace Mdns.Client
open Mdns Mdns.Rec Mdns.Cache

/-- the channel a queued re-run reports to -/
def rchan : RCmd → Option Nat
  | .browse _ _ ch => some ch
  | .resolveHost _ _ ch => some ch
  | _ => none

/-- the channel a command reports to -/
def cchan : Command → Option Nat
  | .browse _ ch _ => some ch
  | .resolveHost _ ch _ => some ch
  | .metrics ch => some ch
  | _ => none

/-- what a re-run is: retransmission of a browse, of a hostname search, a follow-up, a verify resend -/
inductive RClass where
  | browse (ty : BList) (ch : Nat)
  | host (h : BList) (ch : Nat)
  | followup
  | verify
  deriving DecidableEq

def rclass : RCmd → RClass
  | .browse ty _ ch => .browse ty ch
  | .resolveHost h _ ch => .host h ch
  | .resolve _ _ => .followup
  | .verify _ _ => .verify

/-- a hostname search for the key is open in `s` or is opened by a command -/
def HostOpen (s : State) (cmds : List Command) (key : BList) : Prop :=
  (∃ q ∈ s.resolvers, q.1 = key) ∨ ∃ h ch t, Command.resolveHost h ch t ∈ cmds ∧ lower h = key

/-- something is browsed ACTIVELY in `s` (`browse`, not `browse_cache`) or a command starts an
    active browse: a cache-only browse causes no query (repairs of D23 / D23b) -/
def Browsing (s : State) (cmds : List Command) : Prop :=
  (∃ q ∈ s.queriers, q.1 ∉ s.cacheOnly) ∨ ∃ ty ch, Command.browse ty ch false ∈ cmds

/-- The cause of an output, in a state `s` with the commands `cmds` and the queued re-runs of the
    classes `rcs`:
    * an event goes to the channel of a browse or a hostname search of `s`, of a re-run of `rcs`,
      or of a command;
    * `[(ty, PTR)]` is asked for a type of `s` that is browsed and NOT cache-only (the refresh of
      its PTR records; since the repair of D23), a browse re-run, or a `browse` command (not
      `browse_cache`);
    * `[(h, A), (h, AAAA)]` is asked for a hostname search (re-run or command, the search open),
      or is browse work: a follow-up, or the address refresh of a browsed service;
    * a single A or AAAA question is the address refresh of an open hostname search;
    * anything else is browse work (SRV / TXT refresh, `ANY` follow-up) or a `verify`. -/
inductive Origin (s : State) (cmds : List Command) (rcs : List RClass) : Out → Prop
  | evQuerier (q : BList × Nat) (e : Ev) : q ∈ s.queriers → Origin s cmds rcs (.event q.2 e)
  | evResolver (q : BList × Nat × Option Nat) (e : Ev) : q ∈ s.resolvers → Origin s cmds rcs (.event q.2.1 e)
  | evRerunB (ty : BList) (ch : Nat) (e : Ev) : RClass.browse ty ch ∈ rcs → Origin s cmds rcs (.event ch e)
  | evRerunH (h : BList) (ch : Nat) (e : Ev) : RClass.host h ch ∈ rcs → HostOpen s cmds (lower h) →
      Origin s cmds rcs (.event ch e)
  | evCommand (c : Command) (ch : Nat) (e : Ev) : c ∈ cmds → cchan c = some ch → Origin s cmds rcs (.event ch e)
  | ptrQuerier (q : BList × Nat) (known : List Record) : q ∈ s.queriers → q.1 ∉ s.cacheOnly →
      Origin s cmds rcs (.query [(q.1, 12)] known)
  | ptrRerun (ty : BList) (ch : Nat) (known : List Record) : RClass.browse ty ch ∈ rcs →
      Origin s cmds rcs (.query [(ty, 12)] known)
  | ptrCommand (ty : BList) (ch : Nat) (known : List Record) : Command.browse ty ch false ∈ cmds →
      Origin s cmds rcs (.query [(ty, 12)] known)
  | hostRerun (h : BList) (ch : Nat) (known : List Record) : RClass.host h ch ∈ rcs → HostOpen s cmds (lower h) →
      Origin s cmds rcs (.query [(h, 1), (h, 28)] known)
  | hostCommand (h : BList) (ch : Nat) (t : Option Nat) (known : List Record) : Command.resolveHost h ch t ∈ cmds →
      Origin s cmds rcs (.query [(h, 1), (h, 28)] known)
  | hostFollowup (h : BList) (known : List Record) : RClass.followup ∈ rcs → Origin s cmds rcs (.query [(h, 1), (h, 28)] known)
  | hostOfService (h : BList) (known : List Record) : Browsing s cmds → Origin s cmds rcs (.query [(h, 1), (h, 28)] known)
  | addrRefresh (key : BList) (t : Nat) (known : List Record) : HostOpen s cmds key → (t = 1 ∨ t = 28) →
      Origin s cmds rcs (.query [(key, t)] known)
  | anyFollowup (inst : BList) (known : List Record) : RClass.followup ∈ rcs → Origin s cmds rcs (.query [(inst, 255)] known)
  | srvTxtRefresh (inst : BList) (ts : List Nat) (known : List Record) : Browsing s cmds → (∀ t ∈ ts, t = 33 ∨ t = 16) →
      Origin s cmds rcs (.query (ts.map fun t => (inst, t)) known)
  | verifyQuery (inst : BList) (qs : List (BList × Nat)) (known : List Record) :
      (RClass.verify ∈ rcs ∨ ∃ t, Command.verify inst t ∈ cmds) → Origin s cmds rcs (.query ((inst, 33) :: qs) known)

def AllOrigin (s : State) (cmds : List Command) (rcs : List RClass) (outs : List Out) : Prop :=
  ∀ o ∈ outs, Origin s cmds rcs o

theorem AllOrigin.nil (s : State) (cmds : List Command) (rcs : List RClass) : AllOrigin s cmds rcs [] :=
  fun _ h => by cases h

theorem AllOrigin.append {s : State} {cmds : List Command} {rcs : List RClass} {a b : List Out}
    (ha : AllOrigin s cmds rcs a) (hb : AllOrigin s cmds rcs b) : AllOrigin s cmds rcs (a ++ b) := by
  intro o ho
  rcases List.mem_append.mp ho with h | h
  · exact ha o h
  · exact hb o h

/-- the cause persists when searches, commands and re-run classes only grow, where a search
    of `s` may also be one that a command of `cmds'` starts -/
theorem Origin.pull {s s' : State} {cmds cmds' : List Command} {rcs rcs' : List RClass} {o : Out}
    (h : Origin s cmds rcs o)
    (hq : ∀ q ∈ s.queriers, q ∈ s'.queriers ∨ ∃ co, Command.browse q.1 q.2 co ∈ cmds')
    (ha : ∀ q ∈ s.queriers, q.1 ∉ s.cacheOnly →
      (q ∈ s'.queriers ∧ q.1 ∉ s'.cacheOnly) ∨ ∃ ch, Command.browse q.1 ch false ∈ cmds')
    (hv : ∀ q ∈ s.resolvers, q ∈ s'.resolvers ∨ ∃ h t, Command.resolveHost h q.2.1 t ∈ cmds' ∧ q.1 = lower h)
    (hc : ∀ c ∈ cmds, c ∈ cmds') (hr : ∀ r ∈ rcs, r ∈ rcs') : Origin s' cmds' rcs' o := by
  have hopen : ∀ key, HostOpen s cmds key → HostOpen s' cmds' key := by
    intro key hk
    rcases hk with ⟨q, hq1, hq2⟩ | ⟨h0, ch, t, h1, h2⟩
    · rcases hv q hq1 with h1 | ⟨h0, t, h1, h2⟩
      · exact Or.inl ⟨q, h1, hq2⟩
      · exact Or.inr ⟨h0, q.2.1, t, h1, by rw [← h2, hq2]⟩
    · exact Or.inr ⟨h0, ch, t, hc _ h1, h2⟩
  have hbr : Browsing s cmds → Browsing s' cmds' := by
    intro hb
    rcases hb with ⟨q, hq1, hq2⟩ | ⟨ty, ch, hb⟩
    · rcases ha q hq1 hq2 with ⟨h1, h2⟩ | ⟨ch, h1⟩
      · exact Or.inl ⟨q, h1, h2⟩
      · exact Or.inr ⟨_, ch, h1⟩
    · exact Or.inr ⟨ty, ch, hc _ hb⟩
  cases h with
  | evQuerier q e h1 =>
    rcases hq q h1 with h2 | ⟨co, h2⟩
    · exact .evQuerier q e h2
    · exact .evCommand _ q.2 e h2 rfl
  | evResolver q e h1 =>
    rcases hv q h1 with h2 | ⟨h0, t, h2, _⟩
    · exact .evResolver q e h2
    · exact .evCommand _ q.2.1 e h2 rfl
  | evRerunB ty ch e h1 => exact .evRerunB ty ch e (hr _ h1)
  | evRerunH h0 ch e h1 h2 => exact .evRerunH h0 ch e (hr _ h1) (hopen _ h2)
  | evCommand c ch e h1 h2 => exact .evCommand c ch e (hc c h1) h2
  | ptrQuerier q known h1 h1a =>
    rcases ha q h1 h1a with ⟨h2, h3⟩ | ⟨ch, h2⟩
    · exact .ptrQuerier q known h2 h3
    · exact .ptrCommand q.1 ch known h2
  | ptrRerun ty ch known h1 => exact .ptrRerun ty ch known (hr _ h1)
  | ptrCommand ty ch known h1 => exact .ptrCommand ty ch known (hc _ h1)
  | hostRerun h0 ch known h1 h2 => exact .hostRerun h0 ch known (hr _ h1) (hopen _ h2)
  | hostCommand h0 ch t known h1 => exact .hostCommand h0 ch t known (hc _ h1)
  | hostFollowup h0 known h1 => exact .hostFollowup h0 known (hr _ h1)
  | hostOfService h0 known h1 => exact .hostOfService h0 known (hbr h1)
  | addrRefresh key t known h1 h2 => exact .addrRefresh key t known (hopen _ h1) h2
  | anyFollowup inst known h1 => exact .anyFollowup inst known (hr _ h1)
  | srvTxtRefresh inst ts known h1 h2 => exact .srvTxtRefresh inst ts known (hbr h1) h2
  | verifyQuery inst qs known h1 =>
    refine .verifyQuery inst qs known ?_
    rcases h1 with h1 | ⟨t, h1⟩
    · exact Or.inl (hr _ h1)
    · exact Or.inr ⟨t, hc _ h1⟩

theorem Origin.mono {s s' : State} {cmds cmds' : List Command} {rcs rcs' : List RClass} {o : Out}
    (h : Origin s cmds rcs o) (hq : ∀ q ∈ s.queriers, q ∈ s'.queriers) (hco : ∀ ty, ty ∉ s.cacheOnly → ty ∉ s'.cacheOnly)
    (hv : ∀ q ∈ s.resolvers, q ∈ s'.resolvers)
    (hc : ∀ c ∈ cmds, c ∈ cmds') (hr : ∀ r ∈ rcs, r ∈ rcs') : Origin s' cmds' rcs' o :=
  h.pull (fun q h1 => Or.inl (hq q h1)) (fun q h1 h2 => Or.inl ⟨hq q h1, hco _ h2⟩) (fun q h1 => Or.inl (hv q h1)) hc hr

theorem AllOrigin.mono {s s' : State} {cmds cmds' : List Command} {rcs rcs' : List RClass} {outs : List Out}
    (h : AllOrigin s cmds rcs outs) (hq : ∀ q ∈ s.queriers, q ∈ s'.queriers)
    (hco : ∀ ty, ty ∉ s.cacheOnly → ty ∉ s'.cacheOnly) (hv : ∀ q ∈ s.resolvers, q ∈ s'.resolvers)
    (hc : ∀ c ∈ cmds, c ∈ cmds') (hr : ∀ r ∈ rcs, r ∈ rcs') : AllOrigin s' cmds' rcs' outs :=
  fun o ho => (h o ho).mono hq hco hv hc hr

theorem AllOrigin.pull {s s' : State} {cmds cmds' : List Command} {rcs rcs' : List RClass} {outs : List Out}
    (h : AllOrigin s cmds rcs outs)
    (hq : ∀ q ∈ s.queriers, q ∈ s'.queriers ∨ ∃ co, Command.browse q.1 q.2 co ∈ cmds')
    (ha : ∀ q ∈ s.queriers, q.1 ∉ s.cacheOnly →
      (q ∈ s'.queriers ∧ q.1 ∉ s'.cacheOnly) ∨ ∃ ch, Command.browse q.1 ch false ∈ cmds')
    (hv : ∀ q ∈ s.resolvers, q ∈ s'.resolvers ∨ ∃ h t, Command.resolveHost h q.2.1 t ∈ cmds' ∧ q.1 = lower h)
    (hc : ∀ c ∈ cmds, c ∈ cmds') (hr : ∀ r ∈ rcs, r ∈ rcs') : AllOrigin s' cmds' rcs' outs :=
  fun o ho => (h o ho).pull hq ha hv hc hr

/-! ### ingress -/

theorem lookup_mem {α β} [BEq α] [LawfulBEq α] : ∀ (l : List (α × β)) (k : α) (v : β), l.lookup k = some v → (k, v) ∈ l
  | [], _, _, h => by simp [List.lookup] at h
  | (k', v') :: rest, k, v, h => by
    simp only [List.lookup] at h
    split at h
    · rename_i heq
      have : k = k' := by simpa using heq
      cases h
      subst this
      exact List.mem_cons_self
    · exact List.mem_cons_of_mem _ (lookup_mem rest k v h)

theorem mem_visits_querier (s : State) (now : Nat) (u : List BList) (v : BList × Nat × BList) (h : v ∈ visits s now u) :
    (v.1, v.2.1) ∈ s.queriers := by
  simp only [visits, List.mem_flatMap] at h
  obtain ⟨p, _, hv⟩ := h
  split at hv
  · cases hv
  · rename_i ch hch
    simp only [List.mem_map] at hv
    obtain ⟨a, _, rfl⟩ := hv
    exact lookup_mem _ _ _ hch

theorem origin_notifyRemoval (s : State) (cmds : List Command) (rcs : List RClass) (e : List (BList × BList)) :
    AllOrigin s cmds rcs (notifyRemoval s.queriers e) := by
  intro o ho
  simp only [notifyRemoval, List.mem_flatMap, List.mem_map] at ho
  obtain ⟨q, hq, i, _, rfl⟩ := ho
  exact .evQuerier q _ hq

theorem origin_resolveUpdated (s : State) (cmds : List Command) (rcs : List RClass) (now : Nat) (u : List BList) :
    AllOrigin s cmds rcs (resolveUpdated s now u).2 := by
  unfold resolveUpdated
  split
  · exact AllOrigin.nil _ _ _
  · simp only []
    apply AllOrigin.append
    · intro o ho
      simp only [List.mem_map, List.mem_filter] at ho
      obtain ⟨v, ⟨hv, _⟩, rfl⟩ := ho
      exact .evQuerier (v.1, v.2.1) _ (mem_visits_querier s now u v hv)
    · exact origin_notifyRemoval s cmds rcs _

theorem origin_ingestOne (s : State) (cmds : List Command) (rcs : List RClass) (ifName : BList) (ifIdx now : Nat)
    (forUs : Bool) (acc : Ingest) (r : Wire.Rec) (h : AllOrigin s cmds rcs acc.outs) :
    AllOrigin s cmds rcs (ingestOne s.queriers ifName ifIdx now forUs acc r).outs := by
  unfold ingestOne
  simp only []
  repeat' split
  all_goals first
    | exact h
    | (rename_i ch hch
       apply h.append
       intro o ho
       simp only [List.mem_singleton] at ho
       subst ho
       exact .evQuerier (_, ch) _ (lookup_mem _ _ _ hch))

theorem origin_ingestAll (s : State) (cmds : List Command) (rcs : List RClass) (ifName : BList) (ifIdx now : Nat)
    (forUs : Bool) : ∀ (rs : List Wire.Rec) (acc : Ingest), AllOrigin s cmds rcs acc.outs →
      AllOrigin s cmds rcs (ingestAll s.queriers ifName ifIdx now forUs acc rs).outs
  | [], _, h => h
  | r :: rest, acc, h => by
    simp only [ingestAll]
    exact origin_ingestAll s cmds rcs ifName ifIdx now forUs rest _ (origin_ingestOne s cmds rcs ifName ifIdx now forUs acc r h)

theorem origin_handleResponse (s : State) (cmds : List Command) (rcs : List RClass) (now : Nat) (intf : Intf) (m : Wire.Msg) :
    AllOrigin s cmds rcs (handleResponse s now intf m).2 := by
  unfold handleResponse
  simp only []
  refine (AllOrigin.append (origin_ingestAll s cmds rcs _ _ now _ _ _ (AllOrigin.nil _ _ _)) ?_).append ?_
  · intro o ho
    simp only [hostFoundOuts, List.mem_flatMap] at ho
    obtain ⟨chg, _, hx⟩ := ho
    split at hx
    · cases hx
    · rename_i chan hchan
      simp only [List.mem_map] at hx
      obtain ⟨p, _, rfl⟩ := hx
      obtain ⟨q, hq, _, hqc⟩ := resolverChan_mem _ chg.2 chan hchan
      rw [← hqc]
      exact .evResolver q _ hq
  · exact (origin_resolveUpdated _ cmds rcs now _).mono (fun q hq => by simpa using hq) (fun _ h => by simpa using h)
      (fun q hq => by simpa using hq) (fun _ h => h) (fun _ h => h)

theorem origin_handleRead (s : State) (cmds : List Command) (rcs : List RClass) (now : Nat) (p : Packet) :
    AllOrigin s cmds rcs (handleRead s now p).2 := by
  unfold handleRead
  repeat' split
  all_goals first
    | exact AllOrigin.nil _ _ _
    | exact origin_handleResponse s cmds rcs now _ _

theorem origin_ingress (cmds : List Command) (rcs : List RClass) (now : Nat) : ∀ (pkts : List Packet) (s : State),
    AllOrigin s cmds rcs (ingress s now pkts).2
  | [], s => AllOrigin.nil _ _ _
  | p :: rest, s => by
    simp only [ingress]
    refine (origin_handleRead s cmds rcs now p).append ?_
    exact (origin_ingress cmds rcs now rest _).mono (fun q hq => by simpa using hq) (fun _ h => by simpa using h)
      (fun q hq => by simpa using hq) (fun _ h => h) (fun _ h => h)

theorem origin_runTimeouts (s : State) (cmds : List Command) (rcs : List RClass) (now : Nat) :
    AllOrigin s cmds rcs (runTimeouts s now).2 := by
  intro o ho
  simp only [runTimeouts, List.mem_flatMap, List.mem_filter] at ho
  obtain ⟨q, ⟨hq, _⟩, hm⟩ := ho
  simp only [List.mem_cons, List.not_mem_nil, or_false] at hm
  rcases hm with rfl | rfl
  · exact .evResolver q _ hq
  · exact .evResolver q _ hq

/-! ### commands -/

theorem origin_queryCacheForService (s0 s : State) (cmds : List Command) (rcs : List RClass) (now : Nat) (ty : BList) (ch : Nat)
    (c : Command) (hc : c ∈ cmds) (hch : cchan c = some ch) : AllOrigin s0 cmds rcs (queryCacheForService s now ty ch).2 := by
  intro o ho
  simp only [queryCacheForService, List.mem_flatMap, List.mem_append, List.mem_singleton] at ho
  obtain ⟨i, _, ho⟩ := ho
  rcases ho with rfl | ho
  · exact .evCommand c ch _ hc hch
  · split at ho
    · simp only [List.mem_singleton] at ho
      subst ho
      exact .evCommand c ch _ hc hch
    · cases ho

theorem origin_execCommand (s : State) (cmds : List Command) (rcs : List RClass) (now : Nat) (c : Command) (hc : c ∈ cmds) :
    AllOrigin s cmds rcs (execCommand s now c).2 := by
  cases c with
  | browse ty ch co =>
    have hq' : AllOrigin s cmds rcs (queryCacheForService
        { s with reruns := s.reruns.filter (fun r => !isBrowseOf ty r),
                 queriers := (ty, ch) :: s.queriers.filter (fun q => q.1 != ty) } now ty ch).2 :=
      origin_queryCacheForService s _ cmds rcs now ty ch _ hc rfl
    simp only [execCommand, execBrowse, Bool.false_eq_true, if_false]
    split
    · intro o ho
      simp only [List.mem_append, List.mem_singleton] at ho
      rcases ho with (rfl | ho) | rfl
      · exact .evCommand _ ch _ hc rfl
      · exact hq' o ho
      · exact .evCommand _ ch _ hc rfl
    · rename_i hco
      have hco' : co = false := by simpa using hco
      subst hco'
      intro o ho
      simp only [List.mem_append, List.mem_singleton] at ho
      rcases ho with (rfl | ho) | rfl
      · exact .evCommand _ ch _ hc rfl
      · exact hq' o ho
      · exact .ptrCommand ty ch _ hc
  | stopBrowse ty =>
    simp only [execCommand, execStopBrowse]
    split
    · exact AllOrigin.nil _ _ _
    · rename_i k ch hf
      intro o ho
      simp only [List.mem_singleton] at ho
      subst ho
      exact .evQuerier (k, ch) _ (List.mem_of_find?_eq_some hf)
  | resolveHost h ch t =>
    simp only [execCommand, execResolveHost, Bool.false_and, Bool.false_eq_true, if_false]
    intro o ho
    simp only [List.mem_append, List.mem_singleton, List.mem_map] at ho
    rcases ho with (rfl | ⟨p, _, rfl⟩) | rfl
    · exact .evCommand _ ch _ hc rfl
    · exact .evCommand _ ch _ hc rfl
    · exact .hostCommand h ch t _ hc
  | stopResolve h =>
    simp only [execCommand, execStopResolve]
    split
    · exact AllOrigin.nil _ _ _
    · rename_i k ch dl hf
      intro o ho
      simp only [List.mem_singleton] at ho
      subst ho
      exact .evResolver (k, ch, dl) _ (List.mem_of_find?_eq_some hf)
  | ipInterval ms => exact AllOrigin.nil _ _ _
  | verify inst t =>
    simp only [execCommand, execVerify, Bool.false_eq_true, if_false]
    split
    · exact AllOrigin.nil _ _ _
    · rename_i hne
      intro o ho
      simp only [List.mem_singleton] at ho
      subst ho
      cases hg : s.cache.srv.get inst with
      | none => simp [serviceVerifyQueries, hg] at hne
      | some srvs =>
        simp only [sendQuery, serviceVerifyQueries, hg]
        exact .verifyQuery inst _ _ (Or.inr ⟨t, hc⟩)
  | metrics ch =>
    intro o ho
    simp only [execCommand, List.mem_singleton] at ho
    subst ho
    exact .evCommand _ ch _ hc rfl
  | acceptUnsolicited on => exact AllOrigin.nil _ _ _

theorem execBrowse_new_queriers (s : State) (now : Nat) (ty : BList) (d : Nat) (co : Bool) (ch : Nat) :
    (execBrowse s now false ty d co ch).1.queriers = (ty, ch) :: s.queriers.filter (fun q => q.1 != ty) := by
  simp only [execBrowse, Bool.false_eq_true, if_false]
  split <;> simp only [addRerun_queriers, queryCacheForService, addPendings_queriers, markResolved_queriers]

theorem execBrowse_new_cacheOnly (s : State) (now : Nat) (ty : BList) (d : Nat) (co : Bool) (ch : Nat) :
    (execBrowse s now false ty d co ch).1.cacheOnly =
      if co then insertSet s.cacheOnly ty else s.cacheOnly.filter (· != ty) := by
  cases co <;>
    simp only [execBrowse, Bool.false_eq_true, if_false, if_true, addRerun_cacheOnly, queryCacheForService_cacheOnly]

/-- a command other than `browse` / `stop_browse` leaves the browses and the cache-only set alone -/
theorem execCommand_browses_other (s : State) (now : Nat) (c : Command) (h : ∀ ty ch co, c ≠ .browse ty ch co)
    (h2 : ∀ ty, c ≠ .stopBrowse ty) :
    (execCommand s now c).1.queriers = s.queriers ∧ (execCommand s now c).1.cacheOnly = s.cacheOnly := by
  cases c with
  | browse ty ch co => exact absurd rfl (h ty ch co)
  | stopBrowse ty => exact absurd rfl (h2 ty)
  | resolveHost h0 ch t =>
    simp only [execCommand, execResolveHost, Bool.false_and, Bool.false_eq_true, if_false]
    cases t <;> simp only [Option.map_none, Option.map_some] <;> split <;> exact ⟨rfl, rfl⟩
  | stopResolve h0 =>
    simp only [execCommand, execStopResolve]
    split <;> exact ⟨rfl, rfl⟩
  | ipInterval ms => exact ⟨rfl, rfl⟩
  | verify inst t =>
    simp only [execCommand, execVerify, Bool.false_eq_true, if_false]
    split <;> exact ⟨rfl, rfl⟩
  | metrics ch => exact ⟨rfl, rfl⟩
  | acceptUnsolicited on => exact ⟨rfl, rfl⟩

/-- a browse that is active (not cache-only) after a command was active before it, unless the
    command is a `browse` / `browse_cache` of its type -/
theorem active_execCommand (s : State) (now : Nat) (c : Command) (q : BList × Nat)
    (hq : q ∈ (execCommand s now c).1.queriers) (ha : q.1 ∉ (execCommand s now c).1.cacheOnly) :
    (q ∈ s.queriers ∧ q.1 ∉ s.cacheOnly) ∨ ∃ ch, c = Command.browse q.1 ch false := by
  cases c with
  | browse ty ch co =>
    have e1 : (execCommand s now (.browse ty ch co)).1.queriers = _ := execBrowse_new_queriers s now ty 1 co ch
    have e2 : (execCommand s now (.browse ty ch co)).1.cacheOnly = _ := execBrowse_new_cacheOnly s now ty 1 co ch
    rw [e1] at hq
    rw [e2] at ha
    rcases List.mem_cons.mp hq with rfl | hq
    · cases co
      · exact Or.inr ⟨ch, rfl⟩
      · simp only [if_true] at ha
        exact absurd ((mem_insertSet _ _ _).mpr (Or.inr rfl)) ha
    · obtain ⟨hq1, hq2⟩ := List.mem_filter.mp hq
      have hne : q.1 ≠ ty := by simpa using hq2
      refine Or.inl ⟨hq1, fun hin => ha ?_⟩
      cases co
      · simp only [Bool.false_eq_true, if_false, List.mem_filter]
        exact ⟨hin, by simpa using hne⟩
      · simp only [if_true]
        exact (mem_insertSet _ _ _).mpr (Or.inl hin)
  | stopBrowse ty =>
    simp only [execCommand, execStopBrowse] at hq ha
    split at hq
    · rename_i hf
      simp only [hf] at ha
      exact Or.inl ⟨hq, ha⟩
    · rename_i k ch hf
      simp only [hf] at ha
      obtain ⟨hq1, hq2⟩ := List.mem_filter.mp hq
      have hne : q.1 ≠ ty := by simpa using hq2
      refine Or.inl ⟨hq1, fun hin => ha ?_⟩
      simp only [List.mem_filter]
      exact ⟨hin, by simpa using hne⟩
  | resolveHost h0 ch t =>
    obtain ⟨e1, e2⟩ := execCommand_browses_other s now (.resolveHost h0 ch t) (fun _ _ _ e => by cases e) (fun _ e => by cases e)
    rw [e1] at hq
    rw [e2] at ha
    exact Or.inl ⟨hq, ha⟩
  | stopResolve h0 =>
    obtain ⟨e1, e2⟩ := execCommand_browses_other s now (.stopResolve h0) (fun _ _ _ e => by cases e) (fun _ e => by cases e)
    rw [e1] at hq
    rw [e2] at ha
    exact Or.inl ⟨hq, ha⟩
  | ipInterval ms => exact Or.inl ⟨hq, ha⟩
  | verify inst t =>
    obtain ⟨e1, e2⟩ := execCommand_browses_other s now (.verify inst t) (fun _ _ _ e => by cases e) (fun _ e => by cases e)
    rw [e1] at hq
    rw [e2] at ha
    exact Or.inl ⟨hq, ha⟩
  | metrics ch => exact Or.inl ⟨hq, ha⟩
  | acceptUnsolicited on => exact Or.inl ⟨hq, ha⟩

/-- ... and after a list of commands -/
theorem active_runCommands (now : Nat) : ∀ (l : List Command) (s : State) (q : BList × Nat),
    q ∈ (runCommands s now l).1.queriers → q.1 ∉ (runCommands s now l).1.cacheOnly →
    (q ∈ s.queriers ∧ q.1 ∉ s.cacheOnly) ∨ ∃ ch, Command.browse q.1 ch false ∈ l
  | [], _, _, hq, ha => Or.inl ⟨hq, ha⟩
  | c :: rest, s, q, hq, ha => by
    simp only [runCommands] at hq ha
    rcases active_runCommands now rest _ q hq ha with ⟨h1, h2⟩ | ⟨ch, h⟩
    · rcases active_execCommand s now c q h1 h2 with h3 | ⟨ch, rfl⟩
      · exact Or.inl h3
      · exact Or.inr ⟨ch, List.mem_cons_self⟩
    · exact Or.inr ⟨ch, List.mem_cons_of_mem _ h⟩

theorem origin_runCommands (cmds : List Command) (rcs : List RClass) (now : Nat) : ∀ (l : List Command) (s : State),
    (∀ c ∈ l, c ∈ cmds) → AllOrigin s cmds rcs (runCommands s now l).2
  | [], s, _ => AllOrigin.nil _ _ _
  | c :: rest, s, hc => by
    simp only [runCommands]
    refine (origin_execCommand s cmds rcs now c (hc c List.mem_cons_self)).append ?_
    have hst := step_execCommand (now := now) (cmds := cmds) (KeyOK := fun _ => True) (OK := fun _ => True) s c
      (hc c List.mem_cons_self) (fun _ _ => trivial) trivial trivial
    refine (origin_runCommands cmds rcs now rest _ (fun c' h => hc c' (List.mem_cons_of_mem _ h))).pull ?_ ?_ ?_
      (fun _ h => h) (fun _ h => h)
    · exact hst.queriers
    · intro q hq ha
      rcases active_execCommand s now c q hq ha with h | ⟨ch, rfl⟩
      · exact Or.inl h
      · exact Or.inr ⟨ch, hc _ List.mem_cons_self⟩
    · intro q hq
      rcases hst.resolvers q hq with h | ⟨h0, t, h1, h2, _⟩
      · exact Or.inl h
      · exact Or.inr ⟨h0, t, h1, h2⟩

/-! ### re-runs -/

theorem origin_execRerun (s : State) (now : Nat) (c : RCmd) : AllOrigin s [] [rclass c] (execRerun s now c).2 := by
  cases c with
  | browse ty d ch =>
    intro o ho
    simp only [execRerun, execBrowse, if_true, Bool.false_eq_true, if_false, List.append_nil, List.mem_append,
      List.mem_singleton] at ho
    rcases ho with rfl | rfl
    · exact .evRerunB ty ch _ (by simp [rclass])
    · exact .ptrRerun ty ch _ (by simp [rclass])
  | resolveHost h d ch =>
    simp only [execRerun, execResolveHost]
    split
    · exact AllOrigin.nil _ _ _
    · rename_i hopen
      intro o ho
      simp only [if_true, List.append_nil, List.mem_append, List.mem_singleton] at ho
      have hopen' : HostOpen s [] (lower h) := by
        left
        simp only [Bool.true_and, Bool.not_eq_true', Bool.not_eq_false] at hopen
        obtain ⟨q, hq, hk⟩ := List.any_eq_true.mp hopen
        exact ⟨q, hq, by simpa using hk⟩
      rcases ho with rfl | rfl
      · exact .evRerunH h ch _ (by simp [rclass]) hopen'
      · exact .hostRerun h ch _ (by simp [rclass]) hopen' 
  | resolve inst k =>
    simp only [execRerun, execResolveInst]
    split
    · exact AllOrigin.nil _ _ _
    · rename_i qs hqs
      intro o ho
      simp only [List.mem_singleton] at ho
      subst ho
      unfold queryUnresolved at hqs
      split at hqs
      · cases hqs
      · split at hqs
        · cases hqs
          exact .anyFollowup inst _ (by simp [rclass])
        · simp only [Option.map_eq_some_iff] at hqs
          obtain ⟨h0, _, rfl⟩ := hqs
          exact .hostFollowup h0 _ (by simp [rclass])
  | verify inst t =>
    simp only [execRerun, execVerify, if_true]
    split
    · exact AllOrigin.nil _ _ _
    · rename_i hne
      intro o ho
      simp only [List.mem_singleton] at ho
      subst ho
      cases hg : s.cache.srv.get inst with
      | none => simp [serviceVerifyQueries, hg] at hne
      | some srvs =>
        simp only [sendQuery, serviceVerifyQueries, hg]
        exact .verifyQuery inst _ _ (Or.inl (by simp [rclass]))

/-- what a re-run queues has its own class -/
theorem execRerun_new_class (s : State) (hs : s.reruns = []) (now : Nat) (c : RCmd) :
    ∀ x ∈ (execRerun s now c).1.reruns, rclass x.cmd = rclass c := by
  intro x hx
  cases c with
  | browse ty d ch =>
    simp only [execRerun, execBrowse, if_true, Bool.false_eq_true, if_false, addRerun, hs, List.nil_append,
      List.mem_singleton] at hx
    subst hx
    rfl
  | resolveHost h d ch =>
    simp only [execRerun, execResolveHost] at hx
    split at hx
    · rw [hs] at hx
      cases hx
    · simp only [if_true] at hx
      split at hx
      · simp only [addRerun, hs, List.nil_append, List.mem_singleton] at hx
        subst hx
        rfl
      · rw [hs] at hx
        cases hx
  | resolve inst k =>
    simp only [execRerun, execResolveInst] at hx
    split at hx
    · rw [hs] at hx
      cases hx
    · simp only [] at hx
      split at hx
      · simp only [addRerun, hs, List.nil_append, List.mem_singleton] at hx
        subst hx
        rfl
      · rw [hs] at hx
        cases hx
  | verify inst t =>
    simp only [execRerun, execVerify, if_true] at hx
    split at hx <;> (simp only [hs] at hx; cases hx)

theorem runReruns_queriers (now : Nat) : ∀ (fuel : Nat) (keep rest : List Rerun) (s : State),
    (runReruns s now fuel keep rest).1.queriers = s.queriers
  | 0, _, _, _ => rfl
  | _ + 1, _, [], _ => rfl
  | fuel + 1, keep, r :: rest, s => by
    unfold runReruns
    split
    · simp only []
      rw [runReruns_queriers now fuel]
      cases hc : r.cmd with
      | browse ty d ch => simp [execRerun, execBrowse, addRerun]
      | resolveHost h d ch =>
        simp only [execRerun, execResolveHost]
        split
        · rfl
        · simp only [if_true]
          split <;> rfl
      | resolve inst k =>
        simp only [execRerun, execResolveInst]
        split
        · rfl
        · simp only []
          split <;> rfl
      | verify inst t =>
        simp only [execRerun, execVerify, if_true]
        split <;> rfl
    · exact runReruns_queriers now fuel _ _ s

/-- **the re-run loop**: every output is caused by a re-run whose class is that of a queued one -/
theorem origin_runReruns (now : Nat) (rcs : List RClass) : ∀ (fuel : Nat) (keep rest : List Rerun) (st : State),
    st.reruns = [] → (∀ r ∈ keep ++ rest, rclass r.cmd ∈ rcs) →
    AllOrigin st [] rcs (runReruns st now fuel keep rest).2
  | 0, _, _, _, _, _ => AllOrigin.nil _ _ _
  | _ + 1, _, [], _, _, _ => AllOrigin.nil _ _ _
  | fuel + 1, keep, r :: rest, st, hs, hall => by
    unfold runReruns
    split
    · have hr := hall r (by simp)
      have h1 : AllOrigin st [] rcs (execRerun { st with reruns := [] } now r.cmd).2 :=
        (origin_execRerun { st with reruns := [] } now r.cmd).mono (fun _ h => h) (fun _ h => h) (fun _ h => h) (fun _ h => h)
          (fun x hx => by simp only [List.mem_singleton] at hx; exact hx ▸ hr)
      refine h1.append ?_
      have h2 := origin_runReruns now rcs fuel keep (rest ++ (execRerun { st with reruns := [] } now r.cmd).1.reruns)
        { (execRerun { st with reruns := [] } now r.cmd).1 with reruns := [] } rfl (by
          intro x hx
          simp only [List.mem_append] at hx
          rcases hx with hx | hx | hx
          · exact hall x (by simp [hx])
          · exact hall x (by simp [hx])
          · rw [execRerun_new_class _ rfl now r.cmd x hx]
            exact hr)
      refine h2.mono ?_ ?_ ?_ (fun _ h => h) (fun _ h => h)
      · intro q hq
        have : (execRerun { st with reruns := [] } now r.cmd).1.queriers = st.queriers := by
          have := runReruns_queriers now 1 [] [⟨0, r.cmd⟩] st
          simpa [runReruns] using this
        simpa [this] using hq
      · intro ty hty
        have : (execRerun { st with reruns := [] } now r.cmd).1.cacheOnly = st.cacheOnly :=
          execRerun_cacheOnly _ now r.cmd
        simpa [this] using hty
      · intro q hq
        have : (execRerun { st with reruns := [] } now r.cmd).1.resolvers = st.resolvers :=
          execRerun_resolvers _ now r.cmd
        simpa [this] using hq
    · exact origin_runReruns now rcs fuel (keep ++ [r]) rest st hs (by intro x hx; exact hall x (by simpa using hx))

/-! ### refresh, eviction -/

theorem pushDue_types (due : List (BList × List Nat)) (inst : BList) (t : Nat) (ht : t = 33 ∨ t = 16)
    (h : ∀ p ∈ due, ∀ x ∈ p.2, x = 33 ∨ x = 16) : ∀ p ∈ pushDue due inst t, ∀ x ∈ p.2, x = 33 ∨ x = 16 := by
  intro p hp x hx
  unfold pushDue at hp
  split at hp
  · simp only [List.mem_map] at hp
    obtain ⟨p0, hp0, rfl⟩ := hp
    split at hx
    · simp only [List.mem_append, List.mem_singleton] at hx
      rcases hx with hx | rfl
      · exact h p0 hp0 x hx
      · exact ht
    · exact h p0 hp0 x hx
  · simp only [List.mem_append, List.mem_singleton] at hp
    rcases hp with hp | rfl
    · exact h p hp x hx
    · simp only [List.mem_singleton] at hx
      exact hx ▸ ht

theorem refreshSrvTxtGo_due_types (now : Nat) : ∀ (l : List BList) (s : SrvTxtDue),
    (∀ p ∈ s.due, ∀ x ∈ p.2, x = 33 ∨ x = 16) → ∀ p ∈ (refreshSrvTxtGo now l s).due, ∀ x ∈ p.2, x = 33 ∨ x = 16
  | [], _, h => h
  | inst :: rest, s, h => by
    unfold refreshSrvTxtGo
    apply refreshSrvTxtGo_due_types now rest
    simp only []
    have h1 : ∀ p ∈ (if (refreshEntries now ((s.cache.srv.get inst).getD [])).2.isEmpty then s.due else pushDue s.due inst 33),
        ∀ x ∈ p.2, x = 33 ∨ x = 16 := by
      split
      · exact h
      · exact pushDue_types _ _ _ (Or.inl rfl) h
    split
    · exact h1
    · exact pushDue_types _ _ _ (Or.inr rfl) h1

theorem origin_refreshType (s : State) (cmds : List Command) (rcs : List RClass) (c : Cache) (now : Nat) (q : BList × Nat)
    (hq : q ∈ s.queriers) (hqa : q.1 ∉ s.cacheOnly) : AllOrigin s cmds rcs (refreshType c now q.1).2.1 := by
  have hb : Browsing s cmds := Or.inl ⟨q, hq, hqa⟩
  unfold refreshType
  simp only []
  refine (AllOrigin.append ?_ ?_).append ?_
  · split
    · exact AllOrigin.nil _ _ _
    · intro o ho
      simp only [List.mem_singleton] at ho
      subst ho
      exact .ptrQuerier q _ hq hqa
  · intro o ho
    simp only [List.mem_map] at ho
    obtain ⟨p, hp, rfl⟩ := ho
    exact .srvTxtRefresh p.1 p.2 _ hb
      (refreshSrvTxtGo_due_types now _ _ (fun _ h => by cases h) p hp)
  · intro o ho
    simp only [List.mem_map] at ho
    obtain ⟨h0, _, rfl⟩ := ho
    exact .hostOfService h0 _ hb

theorem origin_refreshTypes (s : State) (cmds : List Command) (rcs : List RClass) (now : Nat) :
    ∀ (l : List BList) (c : Cache), (∀ ty ∈ l, ty ∉ s.cacheOnly ∧ ∃ q ∈ s.queriers, q.1 = ty) →
      AllOrigin s cmds rcs (refreshTypes c now l).2.1
  | [], _, _ => AllOrigin.nil _ _ _
  | ty :: rest, c, h => by
    simp only [refreshTypes]
    obtain ⟨hco, q, hq, rfl⟩ := h ty List.mem_cons_self
    exact (origin_refreshType s cmds rcs c now q hq hco).append
      (origin_refreshTypes s cmds rcs now rest _ (fun q' h' => h q' (List.mem_cons_of_mem _ h')))

/-- the types the refresh works for are browsed and not cache-only -/
theorem mem_activeTypes (s : State) (ty : BList) : ty ∈ activeTypes s ↔ ty ∉ s.cacheOnly ∧ ∃ q ∈ s.queriers, q.1 = ty := by
  simp only [activeTypes, List.mem_filter, List.mem_map, Bool.not_eq_true', List.contains_eq_mem, decide_eq_false_iff_not]
  constructor
  · rintro ⟨⟨q, hq, rfl⟩, h⟩
    exact ⟨h, q, hq, rfl⟩
  · rintro ⟨h, q, hq, rfl⟩
    exact ⟨⟨q, hq, rfl⟩, h⟩

/-- an output of the refresh of several types is an output of the refresh of one of them -/
theorem mem_refreshTypes (now : Nat) (o : Out) : ∀ (l : List BList) (c : Cache), o ∈ (refreshTypes c now l).2.1 →
    ∃ ty ∈ l, ∃ c', o ∈ (refreshType c' now ty).2.1
  | [], _, h => by simp [refreshTypes] at h
  | ty :: rest, c, h => by
    simp only [refreshTypes, List.mem_append] at h
    rcases h with h | h
    · exact ⟨ty, List.mem_cons_self, c, h⟩
    · obtain ⟨ty', h1, c', h2⟩ := mem_refreshTypes now o rest _ h
      exact ⟨ty', List.mem_cons_of_mem _ h1, c', h2⟩

theorem origin_refreshActive (s : State) (cmds : List Command) (rcs : List RClass) (now : Nat) :
    AllOrigin s cmds rcs (refreshActive s now).2 :=
  origin_refreshTypes s cmds rcs now (activeTypes s) s.cache (fun ty h => (mem_activeTypes s ty).mp h)

theorem origin_refreshResolversGo (s : State) (cmds : List Command) (rcs : List RClass) (now : Nat) :
    ∀ (l : List (BList × Nat × Option Nat)) (c : Cache), (∀ q ∈ l, q ∈ s.resolvers) →
      AllOrigin s cmds rcs (refreshResolversGo c now (l.map (·.1))).2
  | [], _, _ => AllOrigin.nil _ _ _
  | q :: rest, c, h => by
    simp only [List.map_cons, refreshResolversGo]
    refine AllOrigin.append ?_ (origin_refreshResolversGo s cmds rcs now rest _ (fun q' h' => h q' (List.mem_cons_of_mem _ h')))
    intro o ho
    simp only [List.mem_map] at ho
    obtain ⟨it, _, rfl⟩ := ho
    refine .addrRefresh q.1 _ _ (Or.inl ⟨q, h q List.mem_cons_self, rfl⟩) ?_
    split
    · exact Or.inl rfl
    · exact Or.inr rfl

theorem origin_refreshResolvers (s : State) (cmds : List Command) (rcs : List RClass) (now : Nat) :
    AllOrigin s cmds rcs (refreshResolvers s now).2 :=
  origin_refreshResolversGo s cmds rcs now s.resolvers s.cache (fun _ h => h)

theorem origin_evictServicesPhase (s : State) (cmds : List Command) (rcs : List RClass) (now : Nat) :
    AllOrigin s cmds rcs (evictServicesPhase s now).2 :=
  origin_notifyRemoval s cmds rcs _

theorem origin_evictAddrHosts (cmds : List Command) (rcs : List RClass) (now : Nat) (items : List (BList × BList × BList × Nat)) :
    ∀ (hosts : List BList) (s : State), AllOrigin s cmds rcs (evictAddrHosts s now items hosts).2
  | [], _ => AllOrigin.nil _ _ _
  | h :: rest, s => by
    simp only [evictAddrHosts]
    refine (AllOrigin.append ?_ (origin_resolveUpdated s cmds rcs now _)).append ?_
    · intro o ho
      split at ho
      · cases ho
      · rename_i chan hchan
        simp only [List.mem_singleton] at ho
        subst ho
        obtain ⟨q, hq, _, hqc⟩ := resolverChan_mem s h chan hchan
        rw [← hqc]
        exact .evResolver q _ hq
    · exact (origin_evictAddrHosts cmds rcs now items rest _).mono (fun q hq => by simpa using hq)
        (fun _ h => by simpa using h) (fun q hq => by simpa using hq) (fun _ h => h) (fun _ h => h)

theorem origin_evictAddrPhase (s : State) (cmds : List Command) (rcs : List RClass) (now : Nat) :
    AllOrigin s cmds rcs (evictAddrPhase s now).2 :=
  (origin_evictAddrHosts cmds rcs now _ _ _).mono (fun _ h => h) (fun _ h => h) (fun _ h => h) (fun _ h => h) (fun _ h => h)

/-! ### the rest of an iteration after some of its commands -/

/-- the state after the re-run, refresh and eviction phases, from a state `x` in which the
    commands `post` are still to be executed (before the interface-check block) -/
def tailState (x : State) (now : Nat) (post : List Command) : State :=
  (evictAddrPhase (evictServicesPhase (refreshResolvers (refreshActive (rerunPhase (runCommands x now post).1 now).1
    now).1 now).1 now).1 now).1

/-- what is emitted on the way -/
def tailOuts (x : State) (now : Nat) (post : List Command) : List Out :=
  (runCommands x now post).2 ++ (rerunPhase (runCommands x now post).1 now).2 ++
  (refreshActive (rerunPhase (runCommands x now post).1 now).1 now).2 ++
  (refreshResolvers (refreshActive (rerunPhase (runCommands x now post).1 now).1 now).1 now).2 ++
  (evictServicesPhase (refreshResolvers (refreshActive (rerunPhase (runCommands x now post).1 now).1 now).1 now).1 now).2 ++
  (evictAddrPhase (evictServicesPhase (refreshResolvers (refreshActive (rerunPhase (runCommands x now post).1 now).1
    now).1 now).1 now).1 now).2

/-- an iteration split at one of its commands -/
theorem iter_split (s : State) (now : Nat) (pkts : List Packet) (pre : List Command) (c : Command) (post : List Command) :
    (iter s now pkts (pre ++ c :: post)).1 =
      runIpCheck (tailState (execCommand (runCommands (preCommands s now pkts) now pre).1 now c).1 now post) now ∧
    (iter s now pkts (pre ++ c :: post)).2 =
      (ingress s now pkts).2 ++ (runTimeouts (popTimers (ingress s now pkts).1 now) now).2 ++
      (runCommands (preCommands s now pkts) now pre).2 ++
      (execCommand (runCommands (preCommands s now pkts) now pre).1 now c).2 ++
      tailOuts (execCommand (runCommands (preCommands s now pkts) now pre).1 now c).1 now post := by
  have hrc : runCommands (preCommands s now pkts) now (pre ++ c :: post) =
      ((runCommands (execCommand (runCommands (preCommands s now pkts) now pre).1 now c).1 now post).1,
       (runCommands (preCommands s now pkts) now pre).2 ++
        ((execCommand (runCommands (preCommands s now pkts) now pre).1 now c).2 ++
         (runCommands (execCommand (runCommands (preCommands s now pkts) now pre).1 now c).1 now post).2)) := by
    rw [runCommands_append]
    simp only [runCommands]
  constructor
  · rw [iter_fst]
    unfold preIp preEvict tailState
    rw [hrc]
  · rw [iter_outs]
    unfold preEvict tailOuts
    rw [hrc]
    simp only [List.append_assoc]

/-- an iteration as the tail of all its commands -/
theorem iter_tail (s : State) (now : Nat) (pkts : List Packet) (cmds : List Command) :
    (iter s now pkts cmds).1 = runIpCheck (tailState (preCommands s now pkts) now cmds) now ∧
    (iter s now pkts cmds).2 =
      (ingress s now pkts).2 ++ (runTimeouts (popTimers (ingress s now pkts).1 now) now).2 ++
      tailOuts (preCommands s now pkts) now cmds := by
  constructor
  · rfl
  · rw [iter_outs]
    unfold preEvict tailOuts
    simp only [List.append_assoc]

/-- the classes of the re-runs that are queued when the re-run phase starts -/
def midClasses (x : State) (now : Nat) (post : List Command) : List RClass :=
  (runCommands x now post).1.reruns.map fun r => rclass r.cmd

/-- **cause of every output of the tail of an iteration** -/
theorem origin_tail (x : State) (now : Nat) (post : List Command) :
    AllOrigin x post (midClasses x now post) (tailOuts x now post) := by
  have hst := step_runCommands (now := now) (cmds := post) (KeyOK := fun _ => True) (OK := fun _ => True) trivial post x
    (fun _ h => h) (fun _ _ _ _ => trivial) (fun _ _ => trivial)
  have hq : ∀ q ∈ (runCommands x now post).1.queriers, q ∈ x.queriers ∨ ∃ co, Command.browse q.1 q.2 co ∈ post :=
    hst.queriers
  have hv : ∀ q ∈ (runCommands x now post).1.resolvers,
      q ∈ x.resolvers ∨ ∃ h t, Command.resolveHost h q.2.1 t ∈ post ∧ q.1 = lower h := by
    intro q hq
    rcases hst.resolvers q hq with h | ⟨h0, t, h1, h2, _⟩
    · exact Or.inl h
    · exact Or.inr ⟨h0, t, h1, h2⟩
  have ha : ∀ q ∈ (runCommands x now post).1.queriers, q.1 ∉ (runCommands x now post).1.cacheOnly →
      (q ∈ x.queriers ∧ q.1 ∉ x.cacheOnly) ∨ ∃ ch, Command.browse q.1 ch false ∈ post :=
    active_runCommands now post x
  -- frames: after the commands nothing touches queriers / resolvers
  have fc2 : (rerunPhase (runCommands x now post).1 now).1.cacheOnly = (runCommands x now post).1.cacheOnly :=
    runReruns_cacheOnly now _ _ _ _
  have fq2 : (rerunPhase (runCommands x now post).1 now).1.queriers = (runCommands x now post).1.queriers :=
    runReruns_queriers now _ _ _ _
  have fv2 : (rerunPhase (runCommands x now post).1 now).1.resolvers = (runCommands x now post).1.resolvers :=
    runReruns_resolvers now _ _ _ _
  unfold tailOuts
  refine ((((AllOrigin.append ?_ ?_).append ?_).append ?_).append ?_).append ?_
  · exact origin_runCommands post _ now post x (fun _ h => h)
  · have h1 := origin_runReruns now (midClasses x now post) ((runCommands x now post).1.reruns.length * 2 + 2) []
      (runCommands x now post).1.reruns { (runCommands x now post).1 with reruns := [] } rfl (by
        intro r hr
        simp only [List.nil_append] at hr
        exact List.mem_map_of_mem hr)
    exact AllOrigin.pull (s := { (runCommands x now post).1 with reruns := [] }) h1 hq ha hv (fun _ h => by cases h)
      (fun _ h => h)
  · refine (origin_refreshActive _ post (midClasses x now post) now).pull ?_ ?_ ?_ (fun _ h => h) (fun _ h => h)
    · intro q h
      rw [fq2] at h
      exact hq q h
    · intro q h h'
      rw [fq2] at h
      rw [fc2] at h'
      exact ha q h h'
    · intro q h
      rw [fv2] at h
      exact hv q h
  · refine (origin_refreshResolvers _ post (midClasses x now post) now).pull ?_ ?_ ?_ (fun _ h => h) (fun _ h => h)
    · intro q h
      have : q ∈ (rerunPhase (runCommands x now post).1 now).1.queriers := by
        simpa [refreshActive] using h
      rw [fq2] at this
      exact hq q this
    · intro q h h'
      have h1 : q ∈ (rerunPhase (runCommands x now post).1 now).1.queriers := by
        simpa [refreshActive] using h
      have h2 : q.1 ∉ (rerunPhase (runCommands x now post).1 now).1.cacheOnly := by
        simpa [refreshActive] using h'
      rw [fq2] at h1
      rw [fc2] at h2
      exact ha q h1 h2
    · intro q h
      have : q ∈ (rerunPhase (runCommands x now post).1 now).1.resolvers := by
        simpa [refreshActive] using h
      rw [fv2] at this
      exact hv q this
  · refine (origin_evictServicesPhase _ post (midClasses x now post) now).pull ?_ ?_ ?_ (fun _ h => h) (fun _ h => h)
    · intro q h
      have : q ∈ (rerunPhase (runCommands x now post).1 now).1.queriers := by
        simpa [refreshActive, refreshResolvers] using h
      rw [fq2] at this
      exact hq q this
    · intro q h h'
      have h1 : q ∈ (rerunPhase (runCommands x now post).1 now).1.queriers := by
        simpa [refreshActive, refreshResolvers] using h
      have h2 : q.1 ∉ (rerunPhase (runCommands x now post).1 now).1.cacheOnly := by
        simpa [refreshActive, refreshResolvers] using h'
      rw [fq2] at h1
      rw [fc2] at h2
      exact ha q h1 h2
    · intro q h
      have : q ∈ (rerunPhase (runCommands x now post).1 now).1.resolvers := by
        simpa [refreshActive, refreshResolvers] using h
      rw [fv2] at this
      exact hv q this
  · refine (origin_evictAddrPhase _ post (midClasses x now post) now).pull ?_ ?_ ?_ (fun _ h => h) (fun _ h => h)
    · intro q h
      have : q ∈ (rerunPhase (runCommands x now post).1 now).1.queriers := by
        simpa [refreshActive, refreshResolvers, evictServicesPhase] using h
      rw [fq2] at this
      exact hq q this
    · intro q h h'
      have h1 : q ∈ (rerunPhase (runCommands x now post).1 now).1.queriers := by
        simpa [refreshActive, refreshResolvers, evictServicesPhase] using h
      have h2 : q.1 ∉ (rerunPhase (runCommands x now post).1 now).1.cacheOnly := by
        simpa [refreshActive, refreshResolvers, evictServicesPhase] using h'
      rw [fq2] at h1
      rw [fc2] at h2
      exact ha q h1 h2
    · intro q h
      have : q ∈ (rerunPhase (runCommands x now post).1 now).1.resolvers := by
        simpa [refreshActive, refreshResolvers, evictServicesPhase] using h
      rw [fv2] at this
      exact hv q this

/-- **cause of every output of an iteration**, in terms of the state it starts from -/
theorem origin_iter (s : State) (now : Nat) (pkts : List Packet) (cmds : List Command) :
    AllOrigin s cmds (midClasses (preCommands s now pkts) now cmds) (iter s now pkts cmds).2 := by
  rw [(iter_tail s now pkts cmds).2]
  refine ((origin_ingress cmds _ now pkts s).append ?_).append ?_
  · refine (origin_runTimeouts (popTimers (ingress s now pkts).1 now) cmds _ now).mono ?_ ?_ ?_ (fun _ h => h) (fun _ h => h)
    · intro q hq
      simpa [popTimers] using hq
    · intro ty hty
      simpa [popTimers] using hty
    · intro q hq
      simpa [popTimers] using hq
  · refine (origin_tail (preCommands s now pkts) now cmds).mono ?_ ?_ ?_ (fun _ h => h) (fun _ h => h)
    · intro q hq
      simpa [preCommands, runTimeouts, popTimers] using hq
    · intro ty hty
      simpa [preCommands, runTimeouts, popTimers] using hty
    · intro q hq
      exact preCommands_resolvers_sub s now pkts q hq

end Mdns.Client
