import Mdns.Lemmas.Responder
/-
  A probe inside the loop: what `iter` does with ONE probe of ONE interface over idle
  iterations (no datagram, no command; re-runs and all other probes, services and interfaces
  arbitrary).  Lifts the per-probe schedule (`Probe.trace`) to the daemon model.
-/
namespace Mdns.Responder
open Mdns

/-! ### unique keys -/

section keys
variable {κ α β : Type} [DecidableEq κ]

def KeysNodup (l : List (κ × α)) : Prop := (l.map Prod.fst).Nodup

theorem keys_aset (k : κ) (v : α) (l : List (κ × α)) :
    (aset k v l).map Prod.fst = if k ∈ l.map Prod.fst then l.map Prod.fst else l.map Prod.fst ++ [k] := by
  induction l with
  | nil => simp [aset]
  | cons e l ih =>
    obtain ⟨k', v'⟩ := e
    by_cases h : k' = k
    · subst h; simp [aset]
    · have h' : ¬ k = k' := fun e => h e.symm
      simp only [aset, h, ↓reduceIte, List.map_cons, ih, List.mem_cons, h', false_or]
      split <;> simp

theorem KeysNodup.aset {l : List (κ × α)} (h : KeysNodup l) (k : κ) (v : α) : KeysNodup (aset k v l) := by
  unfold KeysNodup at *
  rw [keys_aset]
  split
  · exact h
  · rename_i hk
    rw [List.nodup_append]
    refine ⟨h, by simp, ?_⟩
    intro a ha b hb
    simp only [List.mem_cons, List.not_mem_nil, or_false] at hb
    subst hb
    intro e
    exact hk (e ▸ ha)

theorem KeysNodup.aerase {l : List (κ × α)} (h : KeysNodup l) (k : κ) : KeysNodup (aerase k l) := by
  unfold KeysNodup at *
  exact List.Nodup.sublist (List.Sublist.map _ List.filter_sublist) h

omit [DecidableEq κ] in
theorem KeysNodup.mapVal {l : List (κ × α)} (h : KeysNodup l) (f : κ → α → α) :
    KeysNodup (l.map fun e => (e.1, f e.1 e.2)) := by
  unfold KeysNodup at *
  simpa [List.map_map, Function.comp_def] using h

theorem alookup_of_mem {l : List (κ × α)} (h : KeysNodup l) {k : κ} {v : α} (hm : (k, v) ∈ l) : alookup k l = some v := by
  induction l with
  | nil => simp at hm
  | cons e l ih =>
    obtain ⟨k', v'⟩ := e
    unfold KeysNodup at h
    simp only [List.map_cons, List.nodup_cons] at h
    rcases List.mem_cons.mp hm with heq | hin
    · cases heq
      simp [alookup]
    · have hk : k' ≠ k := by
        intro e
        subst e
        exact h.1 (List.mem_map.mpr ⟨(k', v), hin, rfl⟩)
      simp only [alookup, hk, ↓reduceIte]
      exact ih h.2 hin

theorem alookup_mapVal (k : κ) (f : κ → α → α) (l : List (κ × α)) :
    alookup k (l.map fun e => (e.1, f e.1 e.2)) = (alookup k l).map (f k) := by
  induction l with
  | nil => rfl
  | cons e l ih =>
    obtain ⟨k', v'⟩ := e
    by_cases h : k' = k
    · subst h; simp [alookup]
    · simp [alookup, h, ih]

end keys

/-! ### registry operations keep the keys of `probing` unique -/

theorem probingDoneReg_pn {r : Registry} (h : KeysNodup r.probing) (a : RR) (n : BList) (t : Nat) :
    KeysNodup (r.probingDoneReg a n t).probing := by
  unfold Registry.probingDoneReg
  split
  · exact h
  · exact h.aset _ _

theorem prepareAnnounceReg_pn {r : Registry} (h : KeysNodup r.probing) (s : Service) (i : MyIntf) (v4 : Bool) (now j : Nat) :
    KeysNodup (prepareAnnounceReg s i r v4 now j).probing := by
  unfold prepareAnnounceReg
  split
  · exact h
  · split
    · exact h
    · exact foldl_inv (fun (b : Registry) => KeysNodup b.probing) _ _ _ h (fun b a _ hb => probingDoneReg_pn hb a _ _)

theorem checkProbing_probing (r : Registry) (now : Nat) :
    (checkProbing r now).reg.probing = r.probing.map fun e => (e.1, (fun _ p => Probe.step p now) e.1 e.2) := rfl

theorem checkProbing_pn {r : Registry} (h : KeysNodup r.probing) (now : Nat) : KeysNodup (checkProbing r now).reg.probing := by
  rw [checkProbing_probing]
  exact h.mapVal (fun _ p => Probe.step p now)

theorem expireProbe_probing (intfName : BList) (acc : Registry × List Event × List BList) (name : BList) :
    (expireProbe intfName acc name).1.probing = acc.1.probing ∨
    (expireProbe intfName acc name).1.probing = aerase name acc.1.probing := by
  unfold expireProbe
  split
  · exact Or.inl rfl
  · split <;> exact Or.inr rfl

theorem expireProbe_active_other (intfName : BList) (acc : Registry × List Event × List BList) (name n : BList) (h : n ≠ name) :
    alookup n (expireProbe intfName acc name).1.active = alookup n acc.1.active := by
  unfold expireProbe
  split
  · rfl
  · simp only []
    split
    · rfl
    · simp only []
      exact alookup_aset_ne _ _ _ _ h

theorem handleExpiredProbes_frame (expired : List BList) (intfName : BList) (r : Registry) (n : BList)
    (hpn : KeysNodup r.probing) :
    KeysNodup (handleExpiredProbes expired intfName r).1.probing ∧
    (n ∉ expired → alookup n (handleExpiredProbes expired intfName r).1.probing = alookup n r.probing) ∧
    (n ∉ expired → alookup n (handleExpiredProbes expired intfName r).1.active = alookup n r.active) := by
  unfold handleExpiredProbes
  have := foldl_inv
    (fun (acc : Registry × List Event × List BList) =>
      KeysNodup acc.1.probing ∧ (n ∉ expired → alookup n acc.1.probing = alookup n r.probing) ∧
      (n ∉ expired → alookup n acc.1.active = alookup n r.active))
    (expireProbe intfName) expired (r, [], []) ⟨hpn, fun _ => rfl, fun _ => rfl⟩
    (fun acc name hname hacc => by
      refine ⟨?_, ?_, ?_⟩
      · rcases expireProbe_probing intfName acc name with h | h
        · rw [h]; exact hacc.1
        · rw [h]; exact hacc.1.aerase _
      · intro hn
        have hne : n ≠ name := fun e => hn (e ▸ hname)
        rcases expireProbe_probing intfName acc name with h | h
        · rw [h]; exact hacc.2.1 hn
        · rw [h, alookup_aerase_ne _ _ _ hne]; exact hacc.2.1 hn
      · intro hn
        have hne : n ≠ name := fun e => hn (e ▸ hname)
        rw [expireProbe_active_other intfName acc name n hne]
        exact hacc.2.2 hn)
  exact this

/-! ### one probe of one interface -/

/-- what is known to travel with the watched probe: records it holds, services that wait for it,
    and the `active` entry of its name (which only the end of the probe changes) -/
structure Cargo where
  recs : List RR
  waits : List BList := []
  act : Option (List RR) := none

/-- what a probe carries itself, with the `active` entry of its name -/
def Probe.cargo (p : Probe) (A : Option (List RR)) : Cargo := ⟨p.records, p.waiting, A⟩

/-- the probe of `n` in the registry of interface index `idx` has these times and carries at least `R` -/
def ProbeAt (s : State) (idx : Nat) (n : BList) (st nx : Nat) (R : Cargo) : Prop :=
  ∃ p, alookup n (s.registry idx).probing = some p ∧ p.start = st ∧ p.next = nx ∧ (∀ a ∈ R.recs, a ∈ p.records) ∧
    ∀ w ∈ R.waits, w ∈ p.waiting

/-- a probe query for `n` on interface index `idx`: a multicast query packet with the question `ANY n` -/
def asksFor (idx : Nat) (n : BList) : Out → Bool
  | .send k _ none p => k == idx && p.flags == 0 && p.questions.contains (n, TYPE_ANY)
  | _ => false

theorem registry_congr {s s' : State} (h : s'.registries = s.registries) (idx : Nat) : s'.registry idx = s.registry idx := by
  simp [State.registry, h]

/-! ### nothing left to join the watched probe -/

/-- nothing of `a` is left to come to the probe of `n`: `a` is active, or a matching record
    sits in the probe -/
def Kept (r : Registry) (n : BList) (a : RR) : Prop :=
  r.isActive a = true ∨ ∃ p, alookup n r.probing = some p ∧ p.records.any (a.matchesRR ·) = true

/-- `r'` is `r` as far as the records named `n` go: same `active` entry, the probe of `n` (if
    there is one) still there with at least its records -/
def Ext (n : BList) (r r' : Registry) : Prop :=
  alookup n r'.active = alookup n r.active ∧
  ∀ q, alookup n r.probing = some q → ∃ p, alookup n r'.probing = some p ∧ ∀ x ∈ q.records, x ∈ p.records

theorem Ext.refl (n : BList) (r : Registry) : Ext n r r := ⟨rfl, fun q hq => ⟨q, hq, fun _ h => h⟩⟩

theorem Ext.trans {n : BList} {a b c : Registry} (h1 : Ext n a b) (h2 : Ext n b c) : Ext n a c := by
  refine ⟨h2.1.trans h1.1, fun q hq => ?_⟩
  obtain ⟨p, hp, hsub⟩ := h1.2 q hq
  obtain ⟨p', hp', hsub'⟩ := h2.2 p hp
  exact ⟨p', hp', fun x hx => hsub' x (hsub x hx)⟩

theorem Kept.ext {r r' : Registry} {n : BList} {a : RR} (h : Kept r n a) (hn : a.getName = n) (he : Ext n r r') : Kept r' n a := by
  rcases h with h | ⟨q, hq, hany⟩
  · left
    unfold Registry.isActive at *
    rw [hn] at h ⊢
    rw [he.1]
    exact h
  · right
    obtain ⟨p, hp, hsub⟩ := he.2 q hq
    refine ⟨p, hp, ?_⟩
    simp only [List.any_eq_true] at hany ⊢
    obtain ⟨x, hx, hm⟩ := hany
    exact ⟨x, hsub x hx, hm⟩

/-- what `send_unsolicited_response` keeps of the service while it walks the interfaces -/
structure SvcSame (u : Service) (svc : Service) : Prop where
  uniq : ∀ i r v, uniqueRecords u i r v = uniqueRecords svc i r v
  addrs : ∀ i v, addrsOn u i v = addrsOn svc i v
  probe : u.probe = svc.probe
  full : u.fullname = svc.fullname

theorem SvcSame.refl (svc : Service) : SvcSame svc svc := ⟨fun _ _ _ => rfl, fun _ _ => rfl, rfl, rfl⟩

theorem SvcSame.setStatus {u svc : Service} (h : SvcSame u svc) (k : Nat) (st : Status) : SvcSame (u.setStatus k st) svc :=
  ⟨fun i r v => h.uniq i r v, fun i v => h.addrs i v, h.probe, h.full⟩

/-- no record of the service is left to come to the probe of `n` on the interfaces of index `idx`:
    if the service requires probing, each of its unique records named `n` (of a family in
    which it has an in-subnet address) is active or matched in the probe -/
def SvcSettled (r : Registry) (intfs : List MyIntf) (idx : Nat) (n : BList) (svc : Service) : Prop :=
  svc.probe = true → ∀ i ∈ intfs, i.index = idx → ∀ v4, addrsOn svc i v4 ≠ [] →
    ∀ a ∈ uniqueRecords svc i {} v4, a.getName = n → Kept r n a

theorem SvcSettled.ext {r r' : Registry} {intfs : List MyIntf} {idx : Nat} {n : BList} {svc : Service}
    (h : SvcSettled r intfs idx n svc) (he : Ext n r r') : SvcSettled r' intfs idx n svc :=
  fun hp i hi hidx v4 hne a ha hn => (h hp i hi hidx v4 hne a ha hn).ext hn he

theorem SvcSettled.same {r : Registry} {intfs : List MyIntf} {idx : Nat} {n : BList} {svc u : Service}
    (h : SvcSettled r intfs idx n svc) (hs : SvcSame u svc) : SvcSettled r intfs idx n u :=
  fun hp i hi hidx v4 hne a ha hn =>
    h (hs.probe ▸ hp) i hi hidx v4 (by rw [← hs.addrs]; exact hne) a (by rw [← hs.uniq]; exact ha) hn

/-- no record of any registered service is left to come to the probe of `n` on interface index
    `idx` (true of the states a daemon reaches by registrations while no conflict renames
    anything: a registration leaves every unique record active or in the probe of its name) -/
def Settled (s : State) (idx : Nat) (n : BList) : Prop :=
  ∀ k svc, alookup k s.services = some svc → SvcSettled (s.registry idx) s.intfs idx n svc

theorem Settled.transfer {s s' : State} {idx : Nat} {n : BList} (h : Settled s idx n)
    (he : Ext n (s.registry idx) (s'.registry idx)) (hi : s'.intfs = s.intfs)
    (hs : ∀ k svc', alookup k s'.services = some svc' → ∃ svc, alookup k s.services = some svc ∧ SvcSame svc' svc) :
    Settled s' idx n := by
  intro k svc' hk
  obtain ⟨svc, hsvc, hsame⟩ := hs k svc' hk
  rw [hi]
  exact ((h k svc hsvc).ext he).same hsame

/-- the services after one entry was stored again with another status -/
theorem services_aset_status {l : List (BList × Service)} {key : BList} {u0 : Service} (idx : Nat) (x : Status)
    (h0 : alookup key l = some u0) :
    ∀ k svc', alookup k (aset key (u0.setStatus idx x) l) = some svc' → ∃ svc, alookup k l = some svc ∧ SvcSame svc' svc := by
  intro k svc' hk
  by_cases e : k = key
  · subst e
    rw [alookup_aset_self] at hk
    cases hk
    exact ⟨u0, h0, (SvcSame.refl u0).setStatus idx x⟩
  · rw [alookup_aset_ne _ _ _ _ e] at hk
    exact ⟨svc', hk, SvcSame.refl svc'⟩

/-! ### `is_probing_done` and an existing probe -/

/-- `is_probing_done` keeps an existing probe: no record and no waiting service is lost; and if
    nothing of the record is left to come to it, its times stay -/
theorem probingDoneReg_grows (r : Registry) (a : RR) (svc : BList) (t : Nat) (n : BList) (q : Probe)
    (hq : alookup n r.probing = some q) :
    ∃ p, alookup n (r.probingDoneReg a svc t).probing = some p ∧
      (∀ x ∈ q.records, x ∈ p.records) ∧ (∀ w ∈ q.waiting, w ∈ p.waiting) ∧
      ((a.getName = n → Kept r n a) → p.start = q.start ∧ p.next = q.next) := by
  unfold Registry.probingDoneReg
  split
  · exact ⟨q, hq, fun _ h => h, fun _ h => h, fun _ => ⟨rfl, rfl⟩⟩
  · rename_i hina
    by_cases e : n = a.getName
    · subst e
      simp only [Registry.probeInsert, alookup_aset_self, hq, Option.getD_some]
      refine ⟨_, rfl, Probe.join_records_mono q a svc t, ?_, ?_⟩
      · intro w hw
        rw [Probe.join_waiting]
        exact (mem_sinsert svc w _).mpr (Or.inr hw)
      · intro hk
        rcases hk trivial with hact | ⟨p, hp, hany⟩
        · exact absurd hact hina
        · rw [hq] at hp
          cases hp
          rcases Probe.join_times q a svc t with ⟨h1, h2, _⟩ | ⟨_, _, h3⟩
          · exact ⟨h1, h2⟩
          · rw [(Probe.restarts_spec h3).1] at hany
            cases hany
    · refine ⟨q, ?_, fun _ h => h, fun _ h => h, fun _ => ⟨rfl, rfl⟩⟩
      simp only [Registry.probeInsert]
      rw [alookup_aset_ne _ _ _ _ e]
      exact hq

theorem prepareAnnounceReg_grows (s : Service) (i : MyIntf) (r : Registry) (v4 : Bool) (now j : Nat) (n : BList) (q : Probe)
    (hq : alookup n r.probing = some q) :
    ∃ p, alookup n (prepareAnnounceReg s i r v4 now j).probing = some p ∧
      (∀ x ∈ q.records, x ∈ p.records) ∧ (∀ w ∈ q.waiting, w ∈ p.waiting) ∧
      ((s.probe = true → addrsOn s i v4 ≠ [] → ∀ a ∈ uniqueRecords s i r v4, a.getName = n → Kept r n a) →
        p.start = q.start ∧ p.next = q.next) := by
  unfold prepareAnnounceReg
  split
  · exact ⟨q, hq, fun _ h => h, fun _ h => h, fun _ => ⟨rfl, rfl⟩⟩
  · rename_i hne
    split
    · exact ⟨q, hq, fun _ h => h, fun _ h => h, fun _ => ⟨rfl, rfl⟩⟩
    · rename_i hpr
      have hprobe : s.probe = true := by simpa using hpr
      have := foldl_inv (fun (b : Registry) => b.active = r.active ∧ ∃ p, alookup n b.probing = some p ∧
          (∀ x ∈ q.records, x ∈ p.records) ∧ (∀ w ∈ q.waiting, w ∈ p.waiting) ∧
          ((∀ a ∈ uniqueRecords s i r v4, a.getName = n → Kept r n a) → p.start = q.start ∧ p.next = q.next))
        (fun r a => r.probingDoneReg a s.fullname (now + j)) (uniqueRecords s i r v4) r
        ⟨rfl, q, hq, fun _ h => h, fun _ h => h, fun _ => ⟨rfl, rfl⟩⟩
        (fun b a ha ⟨hact, p, hp, h3, h4, h5⟩ => by
          obtain ⟨p', hp', h3', h4', h5'⟩ := probingDoneReg_grows b a s.fullname (now + j) n p hp
          refine ⟨(probingDoneReg_active b a _ _).trans hact, p', hp', fun x hx => h3' x (h3 x hx), fun w hw => h4' w (h4 w hw), ?_⟩
          intro hk
          have hkb : a.getName = n → Kept b n a := by
            intro hn
            exact (hk a ha hn).ext hn ⟨by rw [hact], fun q' hq' => by
              rw [hq] at hq'; cases hq'; exact ⟨p, hp, h3⟩⟩
          exact ⟨(h5' hkb).1.trans (h5 hk).1, (h5' hkb).2.trans (h5 hk).2⟩)
      obtain ⟨_, p, hp, h3, h4, h5⟩ := this
      exact ⟨p, hp, h3, h4, fun hk => h5 (hk hprobe hne)⟩

theorem prepareAnnounceReg_ext (s : Service) (i : MyIntf) (r : Registry) (v4 : Bool) (now j : Nat) (n : BList) :
    Ext n r (prepareAnnounceReg s i r v4 now j) := by
  refine ⟨by rw [(prepareAnnounceReg_active s i r v4 now j).1], fun q hq => ?_⟩
  obtain ⟨p, hp, h3, _, _⟩ := prepareAnnounceReg_grows s i r v4 now j n q hq
  exact ⟨p, hp, h3⟩

theorem announce_pair_ext (svc : Service) (i : MyIntf) (r0 : Registry) (now j : Nat) (n : BList) :
    Ext n r0 (prepareAnnounceReg svc i (prepareAnnounceReg svc i r0 true now j) false now j) :=
  (prepareAnnounceReg_ext svc i r0 true now j n).trans (prepareAnnounceReg_ext svc i _ false now j n)

/-- the two calls of `announce_service_on_intf` keep an existing probe - times and records - when
    no record of the service is left to come to it -/
theorem announce_pair_probe (svc : Service) (i : MyIntf) (r0 : Registry) (now j : Nat) (n : BList) (st nx : Nat) (R : Cargo)
    (h : ∃ p, alookup n r0.probing = some p ∧ p.start = st ∧ p.next = nx ∧ (∀ a ∈ R.recs, a ∈ p.records) ∧
      ∀ w ∈ R.waits, w ∈ p.waiting)
    (hk : svc.probe = true → ∀ v4, addrsOn svc i v4 ≠ [] → ∀ a ∈ uniqueRecords svc i r0 v4, a.getName = n → Kept r0 n a) :
    ∃ p, alookup n (prepareAnnounceReg svc i (prepareAnnounceReg svc i r0 true now j) false now j).probing = some p ∧
      p.start = st ∧ p.next = nx ∧ (∀ a ∈ R.recs, a ∈ p.records) ∧ ∀ w ∈ R.waits, w ∈ p.waiting := by
  obtain ⟨p, hp, h1, h2, h3, h4⟩ := h
  obtain ⟨p1, hp1, a3, a4, a5⟩ := prepareAnnounceReg_grows svc i r0 true now j n p hp
  obtain ⟨p2, hp2, b3, b4, b5⟩ := prepareAnnounceReg_grows svc i (prepareAnnounceReg svc i r0 true now j) false now j n p1 hp1
  have ha := a5 (fun hpr hne => hk hpr true hne)
  have hb := b5 (fun hpr hne a ha hn => by
    rw [uniqueRecords_congr (prepareAnnounceReg_active svc i r0 true now j).2] at ha
    exact (hk hpr false hne a ha hn).ext hn (prepareAnnounceReg_ext svc i r0 true now j n))
  exact ⟨p2, hp2, hb.1.trans (ha.1.trans h1), hb.2.trans (ha.2.trans h2), fun a ha => b3 a (a3 a (h3 a ha)),
    fun w hw => b4 w (a4 w (h4 w hw))⟩

theorem announce_pair_pn (svc : Service) (i : MyIntf) {r0 : Registry} (h : KeysNodup r0.probing) (now j : Nat) :
    KeysNodup (prepareAnnounceReg svc i (prepareAnnounceReg svc i r0 true now j) false now j).probing :=
  prepareAnnounceReg_pn (prepareAnnounceReg_pn h svc i true now j) svc i false now j

/-- what is watched across the steps of an idle iteration: the probe's times, unique keys and
    no renames in that registry, the `active` entry of the name, and that no record of a
    registered service is left to come to the probe (it would start the probe over) -/
structure Watch (s : State) (idx : Nat) (n : BList) (st nx : Nat) (R : Cargo) : Prop where
  probe : ProbeAt s idx n st nx R
  pn : KeysNodup (s.registry idx).probing
  noRen : NoRen (s.registry idx)
  act : alookup n (s.registry idx).active = R.act
  settled : Settled s idx n

/-- the registry of `idx` the same in `probing`, `active`, `name_changes`; the same interfaces;
    the services up to their status -/
theorem Watch.of_parts {s s' : State} {idx : Nat} {n : BList} {st nx : Nat} {R : Cargo} (h : Watch s idx n st nx R)
    (hp : (s'.registry idx).probing = (s.registry idx).probing) (ha : (s'.registry idx).active = (s.registry idx).active)
    (hn : (s'.registry idx).nameChanges = (s.registry idx).nameChanges) (hi : s'.intfs = s.intfs)
    (hs : ∀ k svc', alookup k s'.services = some svc' → ∃ svc, alookup k s.services = some svc ∧ SvcSame svc' svc) :
    Watch s' idx n st nx R :=
  ⟨by unfold ProbeAt; rw [hp]; exact h.probe, by rw [hp]; exact h.pn,
    ⟨hn.trans h.noRen.1, fun k p hm => h.noRen.2 k p (hp ▸ hm)⟩, by rw [ha]; exact h.act,
    h.settled.transfer ⟨by rw [ha], fun q hq => ⟨q, by rw [hp]; exact hq, fun _ hx => hx⟩⟩ hi hs⟩

/-- the same registry of `idx`, the same interfaces, the services up to their status -/
theorem Watch.transfer {s s' : State} {idx : Nat} {n : BList} {st nx : Nat} {R : Cargo} (h : Watch s idx n st nx R)
    (e : s'.registry idx = s.registry idx) (hi : s'.intfs = s.intfs)
    (hs : ∀ k svc', alookup k s'.services = some svc' → ∃ svc, alookup k s.services = some svc ∧ SvcSame svc' svc) :
    Watch s' idx n st nx R :=
  h.of_parts (by rw [e]) (by rw [e]) (by rw [e]) hi hs

/-- arming the `new_timers` of some interface keeps the watched probe -/
theorem Watch.drain {acc : State × List Out} {idx : Nat} {n : BList} {st nx : Nat} {R : Cargo} (h : Watch acc.1 idx n st nx R)
    (k : Nat) : Watch (drainNewTimers k acc).1 idx n st nx R := by
  by_cases e : idx = k
  · subst e
    have er := drainNewTimers_registry_self idx acc
    exact h.of_parts (by rw [er]) (by rw [er]) (by rw [er]) rfl (fun _ svc' hk => ⟨svc', hk, SvcSame.refl _⟩)
  · exact h.transfer (drainNewTimers_registry_ne k idx acc e) rfl (fun _ svc' hk => ⟨svc', hk, SvcSame.refl _⟩)

theorem Watch.setRegistry_other {s : State} {idx : Nat} {n : BList} {st nx : Nat} {R : Cargo} (h : Watch s idx n st nx R)
    (k : Nat) (r : Registry) (hk : k ≠ idx) : Watch (s.setRegistry k r) idx n st nx R :=
  h.transfer (registry_setRegistry_ne s k idx r (Ne.symm hk)) rfl (fun _ svc' hk => ⟨svc', hk, SvcSame.refl _⟩)

theorem Watch.congr {s s' : State} {idx : Nat} {n : BList} {st nx : Nat} {R : Cargo} (h : Watch s idx n st nx R)
    (hr : s'.registries = s.registries) (hs : s'.services = s.services) (hi : s'.intfs = s.intfs) : Watch s' idx n st nx R :=
  h.transfer (registry_congr hr idx) hi (fun _ svc' hk => ⟨svc', hs ▸ hk, SvcSame.refl _⟩)

/-- announcing a registered service on an interface of the daemon keeps the watched probe -/
theorem Watch.announce_pair {s : State} {idx : Nat} {n : BList} {st nx : Nat} {R : Cargo} (h : Watch s idx n st nx R)
    (svc : Service) (i : MyIntf) (now j : Nat) {k : BList} (hsvc : alookup k s.services = some svc) (hi : i ∈ s.intfs) :
    Watch (s.setRegistry i.index
      (prepareAnnounceReg svc i (prepareAnnounceReg svc i (s.registry i.index) true now j) false now j)) idx n st nx R := by
  by_cases e : i.index = idx
  · have er : (s.setRegistry i.index
        (prepareAnnounceReg svc i (prepareAnnounceReg svc i (s.registry i.index) true now j) false now j)).registry idx =
        prepareAnnounceReg svc i (prepareAnnounceReg svc i (s.registry i.index) true now j) false now j := by
      rw [← e]; exact registry_setRegistry_self _ _ _
    refine ⟨?_, ?_, ?_, ?_, ?_⟩
    · unfold ProbeAt
      rw [er]
      refine announce_pair_probe svc i _ now j n st nx R (by rw [e]; exact h.probe) ?_
      intro hpr v4 hne a ha hn
      rw [e]
      rw [e, uniqueRecords_congr (r := {}) h.noRen.1] at ha
      exact h.settled k svc hsvc hpr i hi e v4 hne a ha hn
    · rw [er]; exact announce_pair_pn svc i (by rw [e]; exact h.pn) now j
    · rw [er]; exact announce_pair_noRen svc i (by rw [e]; exact h.noRen) now j
    · rw [er, (prepareAnnounceReg_active svc i _ false now j).1, (prepareAnnounceReg_active svc i _ true now j).1, e]
      exact h.act
    · refine h.settled.transfer ?_ rfl (fun _ svc' hk => ⟨svc', hk, SvcSame.refl _⟩)
      rw [er, ← e]
      exact announce_pair_ext svc i _ now j n
  · exact h.setRegistry_other _ _ e

/-! ### outputs that are not probe queries -/

theorem announcePkt_flags {svc : Service} {i : MyIntf} {r : Registry} {v4 : Bool} {p : Packet}
    (h : prepareAnnouncePkt svc i r v4 = some p) : p.flags = FLAGS_RESPONSE := (prepareAnnouncePkt_some h).2.2.2.1

theorem sendsOf_not_asks (svc : Service) (i : MyIntf) (r r' : Registry) (idx : Nat) (n : BList) :
    ∀ o ∈ sendsOf i (prepareAnnouncePkt svc i r true) (prepareAnnouncePkt svc i r' false), asksFor idx n o = false := by
  intro o ho
  simp only [sendsOf, List.mem_append] at ho
  rcases ho with ho | ho
  · cases hp : prepareAnnouncePkt svc i r true with
    | none => simp [hp] at ho
    | some p =>
      simp only [hp, List.mem_cons, List.not_mem_nil, or_false] at ho
      subst ho
      simp [asksFor, announcePkt_flags hp, FLAGS_RESPONSE]
  · cases hp : prepareAnnouncePkt svc i r' false with
    | none => simp [hp] at ho
    | some p =>
      simp only [hp, List.mem_cons, List.not_mem_nil, or_false] at ho
      subst ho
      simp [asksFor, announcePkt_flags hp, FLAGS_RESPONSE]

theorem notify_not_asks (s : State) (e : Event) (idx : Nat) (n : BList) : ∀ o ∈ notify s e, asksFor idx n o = false := by
  intro o ho
  simp only [notify, List.mem_map] at ho
  obtain ⟨_, _, rfl⟩ := ho
  rfl

/-- `wakeService` keeps the watched probe -/
theorem wakeService_keeps (now j : Nat) (i : MyIntf) (acc : State × List Out) (name : BList) (idx : Nat) (n : BList)
    (st nx : Nat) (R : Cargo) (h : Watch acc.1 idx n st nx R) (hi : i ∈ acc.1.intfs) :
    Watch (wakeService now j i acc name).1 idx n st nx R := by
  unfold wakeService
  simp only []
  split
  · exact h
  · rename_i svc hsvc
    split
    · exact h
    · have hw := h.announce_pair svc i now j hsvc hi
      split
      · exact hw.transfer rfl rfl (services_aset_status i.index .announced hsvc)
      · exact hw

/-- every output of `wakeService` is an earlier output or not a probe query -/
theorem wakeService_outs (now j : Nat) (i : MyIntf) (acc : State × List Out) (name : BList) (idx : Nat) (n : BList) :
    ∀ o ∈ (wakeService now j i acc name).2, o ∈ acc.2 ∨ asksFor idx n o = false := by
  unfold wakeService
  simp only []
  split
  · exact fun o h => Or.inl h
  · rename_i svc _
    split
    · exact fun o h => Or.inl h
    · split
      · intro o hom
        simp only [List.mem_append] at hom
        rcases hom with (hom | hom) | hom
        · exact Or.inl hom
        · exact Or.inr (sendsOf_not_asks svc i _ _ idx n o hom)
        · exact Or.inr (notify_not_asks _ _ idx n o hom)
      · exact fun o h => Or.inl h

theorem wakeService_frame (now j : Nat) (i : MyIntf) (acc : State × List Out) (name : BList) :
    (wakeService now j i acc name).1.intfs = acc.1.intfs ∧ (wakeService now j i acc name).1.stopped = acc.1.stopped := by
  unfold wakeService
  simp only []
  split
  · exact ⟨rfl, rfl⟩
  · split
    · exact ⟨rfl, rfl⟩
    · split <;> exact ⟨rfl, rfl⟩

theorem wakeService_mono (now j : Nat) (i : MyIntf) (acc : State × List Out) (name : BList) (o : Out) (h : o ∈ acc.2) :
    o ∈ (wakeService now j i acc name).2 := by
  unfold wakeService
  simp only []
  split
  · exact h
  · split
    · exact h
    · split
      · simp only [List.mem_append]; exact Or.inl (Or.inl h)
      · exact h

theorem foldl_wake_frame (now j : Nat) (i : MyIntf) (names : List BList) (acc : State × List Out) :
    (names.foldl (wakeService now j i) acc).1.intfs = acc.1.intfs ∧
    (names.foldl (wakeService now j i) acc).1.stopped = acc.1.stopped :=
  foldl_inv (fun (a : State × List Out) => a.1.intfs = acc.1.intfs ∧ a.1.stopped = acc.1.stopped) _ _ _ ⟨rfl, rfl⟩
    (fun a nm _ ha => ⟨(wakeService_frame now j i a nm).1.trans ha.1, (wakeService_frame now j i a nm).2.trans ha.2⟩)

theorem foldl_wake_mono (now j : Nat) (i : MyIntf) (names : List BList) (acc : State × List Out) (o : Out) (h : o ∈ acc.2) :
    o ∈ (names.foldl (wakeService now j i) acc).2 :=
  foldl_inv (fun a => o ∈ a.2) _ _ _ h (fun a nm _ ha => wakeService_mono now j i a nm o ha)

theorem foldl_wake_keeps (now j : Nat) (i : MyIntf) (names : List BList) (acc : State × List Out) (idx : Nat) (n : BList)
    (st nx : Nat) (R : Cargo) (h : Watch acc.1 idx n st nx R) (hi : i ∈ acc.1.intfs) :
    Watch (names.foldl (wakeService now j i) acc).1 idx n st nx R :=
  (foldl_inv (fun (a : State × List Out) => Watch a.1 idx n st nx R ∧ a.1.intfs = acc.1.intfs) _ _ _ ⟨h, rfl⟩
    (fun a nm _ ha => ⟨wakeService_keeps now j i a nm idx n st nx R ha.1 (ha.2 ▸ hi),
      (wakeService_frame now j i a nm).1.trans ha.2⟩)).1

theorem foldl_wake_outs (now j : Nat) (i : MyIntf) (names : List BList) (acc : State × List Out) (idx : Nat) (n : BList) :
    ∀ o ∈ (names.foldl (wakeService now j i) acc).2, o ∈ acc.2 ∨ asksFor idx n o = false :=
  foldl_inv (fun (a : State × List Out) => ∀ o ∈ a.2, o ∈ acc.2 ∨ asksFor idx n o = false) _ _ _ (fun _ h => Or.inl h)
    (fun a nm _ ha o ho => (wakeService_outs now j i a nm idx n o ho).elim (ha o) Or.inr)

theorem probingOnIntf_mono (now j : Nat) (acc : State × List Out) (i : MyIntf) (o : Out) (h : o ∈ acc.2) :
    o ∈ (probingOnIntf now j acc i).2 := by
  unfold probingOnIntf
  simp only []
  split
  · exact h
  · rw [drainNewTimers_snd]
    apply foldl_wake_mono
    simp only [List.mem_append]
    exact Or.inl (Or.inl h)

theorem probingOnIntf_frame (now j : Nat) (acc : State × List Out) (i : MyIntf) :
    (probingOnIntf now j acc i).1.intfs = acc.1.intfs ∧ (probingOnIntf now j acc i).1.stopped = acc.1.stopped := by
  unfold probingOnIntf
  simp only []
  split
  · exact ⟨rfl, rfl⟩
  · exact foldl_wake_frame now j i _ (_, _)

theorem probeSends_index (i : MyIntf) (pr : Probing) : ∀ o ∈ probeSends i pr,
    ∃ v4, o = Out.send i.index v4 none { flags := 0, questions := pr.questions, authorities := pr.authorities } := by
  intro o ho
  unfold probeSends at ho
  split at ho
  · simp at ho
  · simp only [List.mem_append] at ho
    rcases ho with ho | ho
    · split at ho
      · simp only [List.mem_cons, List.not_mem_nil, or_false] at ho; exact ⟨true, ho⟩
      · simp at ho
    · split at ho
      · simp only [List.mem_cons, List.not_mem_nil, or_false] at ho; exact ⟨false, ho⟩
      · simp at ho

theorem events_not_ask (s : State) (evs : List Event) (idx : Nat) (n : BList) :
    ∀ o ∈ evs.flatMap (notify s), asksFor idx n o = false := by
  intro o ho
  simp only [List.mem_flatMap] at ho
  obtain ⟨e, _, he⟩ := ho
  exact notify_not_asks s e idx n o he

/-- the step of `probing_handler` for ANOTHER interface index leaves the watched probe alone -/
theorem probingOnIntf_other_keeps (now j : Nat) (acc : State × List Out) (i' : MyIntf) (idx : Nat) (n : BList) (st nx : Nat)
    (R : Cargo) (hne : i'.index ≠ idx) (h : Watch acc.1 idx n st nx R) (hi : i' ∈ acc.1.intfs) :
    Watch (probingOnIntf now j acc i').1 idx n st nx R := by
  unfold probingOnIntf
  simp only []
  split
  · exact h
  · apply Watch.drain
    apply foldl_wake_keeps
    · exact (h.setRegistry_other i'.index _ hne).congr rfl rfl rfl
    · exact hi

/-- ... and sends no probe query on the watched interface -/
theorem probingOnIntf_other_outs (now j : Nat) (acc : State × List Out) (i' : MyIntf) (idx : Nat) (n : BList)
    (hne : i'.index ≠ idx) : ∀ o ∈ (probingOnIntf now j acc i').2, o ∈ acc.2 ∨ asksFor idx n o = false := by
  unfold probingOnIntf
  simp only []
  split
  · exact fun o h => Or.inl h
  · intro o ho
    rcases foldl_wake_outs now j i' _ (_, _) idx n o ho with hom | hom
    · simp only [List.mem_append] at hom
      rcases hom with (hom | hom) | hom
      · exact Or.inl hom
      · obtain ⟨v4, rfl⟩ := probeSends_index i' _ o hom
        have : (i'.index == idx) = false := by simpa using hne
        exact Or.inr (by simp [asksFor, this])
      · exact Or.inr (events_not_ask _ _ idx n o hom)
    · exact Or.inr hom

/-- the watched probe through `check_probing` and `handle_expired_probes` when it does not end -/
theorem probe_survives {r : Registry} {n : BList} {p : Probe} (now : Nat) (intfName : BList)
    (hl : alookup n r.probing = some p) (hpn : KeysNodup r.probing) (hnr : NoRen r) (hact : p.action now ≠ .expire) :
    alookup n (handleExpiredProbes (checkProbing r now).expired intfName (checkProbing r now).reg).1.probing = some (p.step now) ∧
    KeysNodup (handleExpiredProbes (checkProbing r now).expired intfName (checkProbing r now).reg).1.probing ∧
    NoRen (handleExpiredProbes (checkProbing r now).expired intfName (checkProbing r now).reg).1 ∧
    alookup n (handleExpiredProbes (checkProbing r now).expired intfName (checkProbing r now).reg).1.active = alookup n r.active := by
  have hnotexp : n ∉ (checkProbing r now).expired := by
    intro hin
    simp only [checkProbing, List.mem_map, List.mem_filter] at hin
    obtain ⟨⟨n', p'⟩, ⟨hm, ha⟩, heq⟩ := hin
    simp only at heq
    subst heq
    have := alookup_of_mem hpn hm
    rw [hl] at this
    cases this
    exact hact (by simpa using ha)
  have hf := handleExpiredProbes_frame (checkProbing r now).expired intfName (checkProbing r now).reg n (checkProbing_pn hpn now)
  refine ⟨?_, hf.1, (handleExpiredProbes_spec _ intfName _ (checkProbing_noRen hnr now)).1, hf.2.2 hnotexp⟩
  have hm := alookup_mapVal n (fun _ p => Probe.step p now) r.probing
  rw [hf.2.1 hnotexp, checkProbing_probing, hm, hl]
  rfl

/-- is `(n, ANY)` among the questions of `check_probing`? exactly when the probe of `n` sends -/
theorem checkProbing_asks_iff {r : Registry} {n : BList} {p : Probe} (now : Nat)
    (hl : alookup n r.probing = some p) (hpn : KeysNodup r.probing) :
    (n, TYPE_ANY) ∈ (checkProbing r now).questions ↔ p.action now = .send := by
  constructor
  · intro h
    obtain ⟨_, p', hm, ha⟩ := checkProbing_question h
    have := alookup_of_mem hpn hm
    rw [hl] at this
    cases this
    exact ha
  · intro ha
    exact (checkProbing_sends (alookup_mem hl) ha).1

theorem probe_step_times (p : Probe) (now : Nat) :
    (p.step now).start = (if p.action now = .send then p.start + (now - p.next) else p.start) ∧
    (p.step now).next = (if p.action now = .send then now + 250 else p.next) := by
  unfold Probe.step
  cases h : p.action now <;> simp

/-- the step of `probing_handler` for the watched interface while the probe does not end:
    the probe query goes out (on every family of the interface) iff the probe is due, and the
    probe's `next_send` moves 250 ms ahead then -/
theorem probingOnIntf_self (now j : Nat) (acc : State × List Out) (i : MyIntf) (n : BList) (p : Probe)
    (hl : alookup n (acc.1.registry i.index).probing = some p) (hpn : KeysNodup (acc.1.registry i.index).probing)
    (hnr : NoRen (acc.1.registry i.index)) (hact : p.action now ≠ .expire)
    (hset : Settled acc.1 i.index n) (hi : i ∈ acc.1.intfs) :
    Watch (probingOnIntf now j acc i).1 i.index n (if p.action now = .send then p.start + (now - p.next) else p.start) (if p.action now = .send then now + 250 else p.next)
      (p.cargo (alookup n (acc.1.registry i.index).active)) ∧
    (p.action now = .idle → ∀ o ∈ (probingOnIntf now j acc i).2, o ∈ acc.2 ∨ asksFor i.index n o = false) ∧
    (p.action now = .send → ∀ v4, i.hasFamily v4 = true → ∃ pkt, Out.send i.index v4 none pkt ∈ (probingOnIntf now j acc i).2 ∧
      pkt.flags = 0 ∧ (n, TYPE_ANY) ∈ pkt.questions ∧ ∀ a ∈ p.records, a ∈ pkt.authorities) := by
  cases hreg : alookup i.index acc.1.registries with
  | none =>
    have : acc.1.registry i.index = {} := by simp [State.registry, hreg]
    rw [this] at hl
    simp [alookup] at hl
  | some r =>
    have hr : acc.1.registry i.index = r := registry_of_lookup hreg
    rw [hr] at hl hpn hnr ⊢
    obtain ⟨hs1, hs2, hs3, hs4⟩ := probe_survives now i.name hl hpn hnr hact
    have hext : Ext n r (handleExpiredProbes (checkProbing r now).expired i.name (checkProbing r now).reg).1 :=
      ⟨hs4, fun q hq => by
        rw [hl] at hq; cases hq
        exact ⟨_, hs1, fun x hx => by rw [Probe.step_records]; exact hx⟩⟩
    obtain ⟨ht1, ht2⟩ := probe_step_times p now
    have hw : Watch ({ (acc.1.setRegistry i.index
        (handleExpiredProbes (checkProbing r now).expired i.name (checkProbing r now).reg).1) with
        timers := acc.1.timers ++ (checkProbing r now).timers } : State) i.index n
        (if p.action now = .send then p.start + (now - p.next) else p.start)
        (if p.action now = .send then now + 250 else p.next) (p.cargo (alookup n r.active)) := by
      have e : ({ (acc.1.setRegistry i.index
          (handleExpiredProbes (checkProbing r now).expired i.name (checkProbing r now).reg).1) with
          timers := acc.1.timers ++ (checkProbing r now).timers } : State).registry i.index =
          (handleExpiredProbes (checkProbing r now).expired i.name (checkProbing r now).reg).1 :=
        registry_setRegistry_self _ _ _
      exact ⟨⟨p.step now, by rw [e]; exact hs1, ht1, ht2, fun a h => by rw [Probe.step_records]; exact h,
          fun w h => by unfold Probe.step; split <;> exact h⟩,
        by rw [e]; exact hs2, by rw [e]; exact hs3, by rw [e]; exact hs4,
        hset.transfer (by rw [e, hr]; exact hext) rfl (fun _ svc' hk => ⟨svc', hk, SvcSame.refl _⟩)⟩
    unfold probingOnIntf
    simp only [hreg]
    refine ⟨Watch.drain (foldl_wake_keeps now j i _ (_, _) i.index n _ _ _ hw hi) _, ?_, ?_⟩
    · intro hidle o ho
      have hq : (n, TYPE_ANY) ∉ (checkProbing r now).questions := by
        rw [checkProbing_asks_iff now hl hpn, hidle]; simp
      rcases foldl_wake_outs now j i _ (_, _) i.index n o ho with hom | hom
      · simp only [List.mem_append] at hom
        rcases hom with (hom | hom) | hom
        · exact Or.inl hom
        · obtain ⟨v4, rfl⟩ := probeSends_index i _ o hom
          exact Or.inr (by simp [asksFor, hq])
        · exact Or.inr (events_not_ask _ _ i.index n o hom)
      · exact Or.inr hom
    · intro hsend v4 hfam
      obtain ⟨hq, hauth, _, _⟩ := checkProbing_sends (alookup_mem hl) hsend
      refine ⟨{ flags := 0, questions := (checkProbing r now).questions, authorities := (checkProbing r now).authorities },
        ?_, rfl, hq, hauth⟩
      apply foldl_wake_mono
      simp only [List.mem_append]
      refine Or.inl (Or.inr ?_)
      have hne : (checkProbing r now).questions.isEmpty = false := by
        cases hqs : (checkProbing r now).questions with
        | nil => rw [hqs] at hq; simp at hq
        | cons _ _ => rfl
      unfold probeSends
      simp only [hne, Bool.false_eq_true, ↓reduceIte, List.mem_append]
      cases v4
      · right; simp [hfam]
      · left; simp [hfam]

/-! ### `probing_handler` as a whole -/

theorem wakeService_registry_other (now j : Nat) (i : MyIntf) (acc : State × List Out) (name : BList) (idx : Nat)
    (h : i.index ≠ idx) : (wakeService now j i acc name).1.registry idx = acc.1.registry idx := by
  unfold wakeService
  simp only []
  split
  · rfl
  · split
    · rfl
    · split
      · exact (registry_congr (s := acc.1.setRegistry i.index _) rfl idx).trans (registry_setRegistry_ne _ _ _ _ (Ne.symm h))
      · exact registry_setRegistry_ne _ _ _ _ (Ne.symm h)

theorem probingOnIntf_registry_other (now j : Nat) (acc : State × List Out) (i : MyIntf) (idx : Nat) (h : i.index ≠ idx) :
    (probingOnIntf now j acc i).1.registry idx = acc.1.registry idx := by
  unfold probingOnIntf
  simp only []
  split
  · rfl
  · rename_i r _
    rw [drainNewTimers_registry_ne i.index idx _ (Ne.symm h)]
    refine foldl_inv (fun (a : State × List Out) => a.1.registry idx = acc.1.registry idx) (wakeService now j i) _ (_, _) ?_ ?_
    · exact (registry_congr (s := acc.1.setRegistry i.index _) rfl idx).trans (registry_setRegistry_ne _ _ _ _ (Ne.symm h))
    · intro a nm _ ha
      exact (wakeService_registry_other now j i a nm idx h).trans ha

/-- the interfaces: `i` once, every other interface with another index -/
structure IntfsOk (s : State) (i : MyIntf) (l1 l2 : List MyIntf) : Prop where
  split : s.intfs = l1 ++ i :: l2
  other : ∀ i' ∈ l1 ++ l2, i'.index ≠ i.index

theorem probingHandler_frame (s : State) (now j : Nat) :
    (probingHandler s now j).1.intfs = s.intfs ∧ (probingHandler s now j).1.stopped = s.stopped := by
  unfold probingHandler
  exact foldl_inv (fun (a : State × List Out) => a.1.intfs = s.intfs ∧ a.1.stopped = s.stopped) _ _ _ ⟨rfl, rfl⟩
    (fun a i _ ha => ⟨(probingOnIntf_frame now j a i).1.trans ha.1, (probingOnIntf_frame now j a i).2.trans ha.2⟩)

/-- `probing_handler` and the watched probe while it does not end: the probe query for `n`
    goes out on interface `i` (every family it has) iff the probe is due; then `next_send`
    moves 250 ms ahead; nothing else about the probe changes -/
theorem probingHandler_probe (s : State) (now j : Nat) (i : MyIntf) (l1 l2 : List MyIntf) (hi : IntfsOk s i l1 l2)
    (n : BList) (p : Probe) (hl : alookup n (s.registry i.index).probing = some p)
    {st nx : Nat} {R : Cargo} (hw : Watch s i.index n st nx R) (hact : p.action now ≠ .expire) :
    Watch (probingHandler s now j).1 i.index n (if p.action now = .send then p.start + (now - p.next) else p.start) (if p.action now = .send then now + 250 else p.next)
      (p.cargo (alookup n (s.registry i.index).active)) ∧
    (p.action now = .idle → ∀ o ∈ (probingHandler s now j).2, asksFor i.index n o = false) ∧
    (p.action now = .send → ∀ v4, i.hasFamily v4 = true → ∃ pkt, Out.send i.index v4 none pkt ∈ (probingHandler s now j).2 ∧
      pkt.flags = 0 ∧ (n, TYPE_ANY) ∈ pkt.questions ∧ ∀ a ∈ p.records, a ∈ pkt.authorities) := by
  unfold probingHandler
  rw [hi.split, List.foldl_append, List.foldl_cons]
  -- phase 1: the interfaces before `i`
  have h1 := foldl_inv (fun (a : State × List Out) => a.1.registry i.index = s.registry i.index ∧
      (∀ o ∈ a.2, asksFor i.index n o = false) ∧ Watch a.1 i.index n st nx R ∧ a.1.intfs = s.intfs)
    (probingOnIntf now j) l1 (s, []) ⟨rfl, fun _ h => by simp at h, hw, rfl⟩
    (fun a i' hi' ha => by
      have hne : i'.index ≠ i.index := hi.other i' (List.mem_append.mpr (Or.inl hi'))
      have hmem : i' ∈ a.1.intfs := by rw [ha.2.2.2, hi.split]; exact List.mem_append.mpr (Or.inl hi')
      exact ⟨(probingOnIntf_registry_other now j a i' i.index hne).trans ha.1,
        fun o ho => (probingOnIntf_other_outs now j a i' i.index n hne o ho).elim (ha.2.1 o) id,
        probingOnIntf_other_keeps now j a i' i.index n _ _ _ hne ha.2.2.1 hmem,
        (probingOnIntf_frame now j a i').1.trans ha.2.2.2⟩)
  obtain ⟨hr1, ho1, hw1, hintfs1⟩ := h1
  -- phase 2: `i` itself
  obtain ⟨hw2, hidle2, hsend2⟩ := probingOnIntf_self now j (l1.foldl (probingOnIntf now j) (s, [])) i n p
    (by rw [hr1]; exact hl) hw1.pn hw1.noRen hact hw1.settled (by rw [hintfs1, hi.split]; simp)
  rw [hr1] at hw2
  have hintfs2 : (probingOnIntf now j (l1.foldl (probingOnIntf now j) (s, [])) i).1.intfs = s.intfs :=
    (probingOnIntf_frame now j _ i).1.trans hintfs1
  -- phase 3: the interfaces after `i`
  have h3 := foldl_inv (fun (a : State × List Out) =>
      Watch a.1 i.index n (if p.action now = .send then p.start + (now - p.next) else p.start) (if p.action now = .send then now + 250 else p.next)
        (p.cargo (alookup n (s.registry i.index).active)) ∧
      (∀ o ∈ a.2, o ∈ (probingOnIntf now j (l1.foldl (probingOnIntf now j) (s, [])) i).2 ∨ asksFor i.index n o = false) ∧
      (∀ o ∈ (probingOnIntf now j (l1.foldl (probingOnIntf now j) (s, [])) i).2, o ∈ a.2) ∧ a.1.intfs = s.intfs)
    (probingOnIntf now j) l2 (probingOnIntf now j (l1.foldl (probingOnIntf now j) (s, [])) i)
    ⟨hw2, fun _ h => Or.inl h, fun _ h => h, hintfs2⟩
    (fun a i' hi' ha => by
      have hne : i'.index ≠ i.index := hi.other i' (List.mem_append.mpr (Or.inr hi'))
      have hmem : i' ∈ a.1.intfs := by
        rw [ha.2.2.2, hi.split]; exact List.mem_append.mpr (Or.inr (List.mem_cons_of_mem _ hi'))
      exact ⟨probingOnIntf_other_keeps now j a i' i.index n _ _ _ hne ha.1 hmem,
        fun o ho => (probingOnIntf_other_outs now j a i' i.index n hne o ho).elim (ha.2.1 o) Or.inr,
        fun o ho => probingOnIntf_mono now j a i' o (ha.2.2.1 o ho),
        (probingOnIntf_frame now j a i').1.trans ha.2.2.2⟩)
  obtain ⟨hw3, hout3, hmono3, _⟩ := h3
  refine ⟨hw3, ?_, ?_⟩
  · intro hidle o ho
    rcases hout3 o ho with h | h
    · rcases hidle2 hidle o h with h' | h'
      · exact ho1 o h'
      · exact h'
    · exact h
  · intro hsend v4 hfam
    obtain ⟨pkt, hp, rest⟩ := hsend2 hsend v4 hfam
    exact ⟨pkt, hmono3 _ hp, rest⟩

/-! ### the end of the watched probe -/

theorem foldl_expire_activates (intfName : BList) (n : BList) (p : Probe) :
    ∀ (expired : List BList) (acc : Registry × List Event × List BList), n ∈ expired →
      alookup n acc.1.probing = some p → NoRen acc.1 →
      ∀ a ∈ p.records, a.getName = n → (expired.foldl (expireProbe intfName) acc).1.isActive a = true := by
  intro expired
  induction expired with
  | nil => intro acc h; simp at h
  | cons name rest ih =>
    intro acc hin hl hnr a ha hname
    simp only [List.foldl_cons]
    by_cases e : name = n
    · subst e
      have hact := (expireProbe_activates intfName acc name p hl hnr).1 a ha hname
      have := foldl_inv (fun (b : Registry × List Event × List BList) => NoRen b.1 ∧ b.1.isActive a = true)
        (expireProbe intfName) rest (expireProbe intfName acc name) ⟨(expireProbe_spec intfName acc name hnr).1, hact⟩
        (fun b nm _ hb => ⟨(expireProbe_spec intfName b nm hb.1).1, (expireProbe_spec intfName b nm hb.1).2.2 a hb.2⟩)
      exact this.2
    · have hin' : n ∈ rest := by
        rcases List.mem_cons.mp hin with h | h
        · exact absurd h.symm e
        · exact h
      have hl' : alookup n (expireProbe intfName acc name).1.probing = some p := by
        rcases expireProbe_probing intfName acc name with h | h
        · rw [h]; exact hl
        · rw [h, alookup_aerase_ne _ _ _ (fun x => e x.symm)]; exact hl
      exact ih _ hin' hl' (expireProbe_spec intfName acc name hnr).1 a ha hname

theorem wakeService_stle (now j : Nat) (i : MyIntf) (acc : State × List Out) (name : BList) :
    StLe acc.1 (wakeService now j i acc name).1 := by
  unfold wakeService
  simp only []
  split
  · exact StLe.refl _
  · rename_i svc _
    split
    · exact StLe.refl _
    · have h : StLe acc.1 (acc.1.setRegistry i.index
          (prepareAnnounceReg svc i (prepareAnnounceReg svc i (acc.1.registry i.index) true now j) false now j)) :=
        StLe.setRegistry (announce_pair_le svc i _ now j)
      split
      · exact h.trans (StLe.of_eq rfl rfl)
      · exact h

theorem foldl_wake_stle (now j : Nat) (i : MyIntf) (names : List BList) (acc : State × List Out) :
    StLe acc.1 (names.foldl (wakeService now j i) acc).1 :=
  foldl_inv (fun (a : State × List Out) => StLe acc.1 a.1) _ _ _ (StLe.refl _)
    (fun a nm _ ha => ha.trans (wakeService_stle now j i a nm))

/-- the step of `probing_handler` for the watched interface when the probe ends: no probe
    query for the name any more, and the probe's records (filed under the name) are active -/
theorem probingOnIntf_self_end (now j : Nat) (acc : State × List Out) (i : MyIntf) (n : BList) (p : Probe)
    (hl : alookup n (acc.1.registry i.index).probing = some p) (hpn : KeysNodup (acc.1.registry i.index).probing)
    (hnr : NoRen (acc.1.registry i.index)) (hact : p.action now = .expire) :
    (∀ a ∈ p.records, a.getName = n → ((probingOnIntf now j acc i).1.registry i.index).isActive a = true) ∧
    (∀ o ∈ (probingOnIntf now j acc i).2, o ∈ acc.2 ∨ asksFor i.index n o = false) := by
  cases hreg : alookup i.index acc.1.registries with
  | none =>
    have : acc.1.registry i.index = {} := by simp [State.registry, hreg]
    rw [this] at hl
    simp [alookup] at hl
  | some r =>
    have hr : acc.1.registry i.index = r := registry_of_lookup hreg
    rw [hr] at hl hpn hnr
    have hin : n ∈ (checkProbing r now).expired := by
      simp only [checkProbing, List.mem_map, List.mem_filter]
      exact ⟨(n, p), ⟨alookup_mem hl, by simp [hact]⟩, rfl⟩
    have hl' : alookup n (checkProbing r now).reg.probing = some (p.step now) := by
      have hm := alookup_mapVal n (fun _ p => Probe.step p now) r.probing
      rw [checkProbing_probing, hm, hl]; rfl
    unfold probingOnIntf
    simp only [hreg]
    constructor
    · intro a ha hname
      have hact' := foldl_expire_activates i.name n (p.step now) (checkProbing r now).expired
        ((checkProbing r now).reg, [], []) hin hl' (checkProbing_noRen hnr now) a (by rw [Probe.step_records]; exact ha) hname
      have hle := foldl_wake_stle now j i (handleExpiredProbes (checkProbing r now).expired i.name (checkProbing r now).reg).2.2
        ({ (acc.1.setRegistry i.index (handleExpiredProbes (checkProbing r now).expired i.name (checkProbing r now).reg).1) with
            timers := acc.1.timers ++ (checkProbing r now).timers },
          acc.2 ++ probeSends i (checkProbing r now) ++
            (handleExpiredProbes (checkProbing r now).expired i.name (checkProbing r now).reg).2.1.flatMap (notify acc.1))
      rw [drainNewTimers_registry_self]
      show Registry.isActive _ a = true
      have hdr : ∀ (r : Registry), ({ r with newTimers := [] } : Registry).isActive a = r.isActive a := fun _ => rfl
      rw [hdr]
      apply (hle.2 i.index).2 a
      have e : ({ (acc.1.setRegistry i.index
          (handleExpiredProbes (checkProbing r now).expired i.name (checkProbing r now).reg).1) with
          timers := acc.1.timers ++ (checkProbing r now).timers } : State).registry i.index =
          (handleExpiredProbes (checkProbing r now).expired i.name (checkProbing r now).reg).1 :=
        registry_setRegistry_self _ _ _
      rw [e]
      exact hact'
    · intro o ho
      have hq : (n, TYPE_ANY) ∉ (checkProbing r now).questions := by
        rw [checkProbing_asks_iff now hl hpn, hact]; simp
      rcases foldl_wake_outs now j i _ (_, _) i.index n o ho with hom | hom
      · simp only [List.mem_append] at hom
        rcases hom with (hom | hom) | hom
        · exact Or.inl hom
        · obtain ⟨v4, rfl⟩ := probeSends_index i _ o hom
          exact Or.inr (by simp [asksFor, hq])
        · exact Or.inr (events_not_ask _ _ i.index n o hom)
      · exact Or.inr hom

/-- `probing_handler` when the watched probe ends -/
theorem probingHandler_probe_end (s : State) (now j : Nat) (i : MyIntf) (l1 l2 : List MyIntf) (hi : IntfsOk s i l1 l2)
    (n : BList) (p : Probe) (hl : alookup n (s.registry i.index).probing = some p)
    (hpn : KeysNodup (s.registry i.index).probing) (hnr : NoRen (s.registry i.index)) (hact : p.action now = .expire) :
    (∀ a ∈ p.records, a.getName = n → ((probingHandler s now j).1.registry i.index).isActive a = true) ∧
    (∀ o ∈ (probingHandler s now j).2, asksFor i.index n o = false) := by
  unfold probingHandler
  rw [hi.split, List.foldl_append, List.foldl_cons]
  have h1 := foldl_inv (fun (a : State × List Out) => a.1.registry i.index = s.registry i.index ∧
      (∀ o ∈ a.2, asksFor i.index n o = false))
    (probingOnIntf now j) l1 (s, []) ⟨rfl, fun _ h => by simp at h⟩
    (fun a i' hi' ha => by
      have hne : i'.index ≠ i.index := hi.other i' (List.mem_append.mpr (Or.inl hi'))
      exact ⟨(probingOnIntf_registry_other now j a i' i.index hne).trans ha.1,
        fun o ho => (probingOnIntf_other_outs now j a i' i.index n hne o ho).elim (ha.2 o) id⟩)
  obtain ⟨hr1, ho1⟩ := h1
  obtain ⟨hact2, hout2⟩ := probingOnIntf_self_end now j (l1.foldl (probingOnIntf now j) (s, [])) i n p
    (by rw [hr1]; exact hl) (by rw [hr1]; exact hpn) (by rw [hr1]; exact hnr) hact
  have h3 := foldl_inv (fun (a : State × List Out) =>
      a.1.registry i.index = (probingOnIntf now j (l1.foldl (probingOnIntf now j) (s, [])) i).1.registry i.index ∧
      (∀ o ∈ a.2, asksFor i.index n o = false))
    (probingOnIntf now j) l2 (probingOnIntf now j (l1.foldl (probingOnIntf now j) (s, [])) i)
    ⟨rfl, fun o ho => (hout2 o ho).elim (ho1 o) id⟩
    (fun a i' hi' ha => by
      have hne : i'.index ≠ i.index := hi.other i' (List.mem_append.mpr (Or.inr hi'))
      exact ⟨(probingOnIntf_registry_other now j a i' i.index hne).trans ha.1,
        fun o ho => (probingOnIntf_other_outs now j a i' i.index n hne o ho).elim (ha.2 o) id⟩)
  exact ⟨fun a ha hname => by rw [h3.1]; exact hact2 a ha hname, h3.2⟩

/-! ### re-runs -/

/-- no queued goodbye repeat holds a query packet (true of every reachable state: the stored
    packets are goodbye responses) -/
def RerunsOk (s : State) : Prop := ∀ t p k v, ReRun.unregisterResend t p k v ∈ s.reruns → p.flags ≠ 0

theorem execRegisterResend_keeps (s : State) (now j : Nat) (fullname : BList) (ifIdx : Nat) (idx : Nat) (n : BList)
    (st nx : Nat) (R : Cargo) (h : Watch s idx n st nx R) :
    Watch (execRegisterResend s now j fullname ifIdx).1 idx n st nx R ∧
    (∀ o ∈ (execRegisterResend s now j fullname ifIdx).2, asksFor idx n o = false) ∧
    (execRegisterResend s now j fullname ifIdx).1.intfs = s.intfs ∧
    (execRegisterResend s now j fullname ifIdx).1.stopped = s.stopped ∧
    (execRegisterResend s now j fullname ifIdx).1.reruns = s.reruns := by
  unfold execRegisterResend
  split
  · rename_i svc r0 i hsvc hr0 hi
    obtain ⟨_, hidx⟩ := find_index_spec hi
    subst hidx
    have hr : s.registry i.index = r0 := registry_of_lookup hr0
    have hw := h.announce_pair svc i now j hsvc (List.mem_of_find?_eq_some hi)
    rw [hr] at hw
    simp only []
    split
    · refine ⟨hw.transfer rfl rfl (services_aset_status i.index .announced hsvc), ?_, rfl, rfl, rfl⟩
      intro o hom
      simp only [List.mem_append] at hom
      rcases hom with hom | hom
      · exact sendsOf_not_asks svc i _ _ idx n o hom
      · exact notify_not_asks _ _ idx n o hom
    · exact ⟨hw, fun _ h => by simp at h, rfl, rfl, rfl⟩
  · exact ⟨h, fun _ h => by simp at h, rfl, rfl, rfl⟩

theorem execRerun_keeps (now j : Nat) (acc : State × List Out) (r : ReRun) (idx : Nat) (n : BList) (st nx : Nat) (R : Cargo)
    (h : Watch acc.1 idx n st nx R) (ho : ∀ o ∈ acc.2, asksFor idx n o = false)
    (hr : ∀ t p k v, r = .unregisterResend t p k v → p.flags ≠ 0) :
    Watch (execRerun now j acc r).1 idx n st nx R ∧ (∀ o ∈ (execRerun now j acc r).2, asksFor idx n o = false) ∧
    (execRerun now j acc r).1.intfs = acc.1.intfs ∧ (execRerun now j acc r).1.stopped = acc.1.stopped ∧
    (execRerun now j acc r).1.reruns = acc.1.reruns := by
  unfold execRerun
  cases r with
  | registerResend t fullname ifIdx =>
    obtain ⟨hw, hout, e1, e2, e3⟩ := execRegisterResend_keeps acc.1 now j fullname ifIdx idx n st nx R h
    refine ⟨hw, ?_, e1, e2, e3⟩
    intro o hom
    simp only [List.mem_append] at hom
    exact hom.elim (ho o) (hout o)
  | unregisterResend t pkt ifIdx v4 =>
    refine ⟨h, ?_, rfl, rfl, rfl⟩
    intro o hom
    simp only [List.mem_append] at hom
    rcases hom with hom | hom
    · exact ho o hom
    · unfold execUnregisterResend at hom
      split at hom
      · split at hom
        · simp only [List.mem_cons, List.not_mem_nil, or_false] at hom
          subst hom
          have := hr t pkt ifIdx v4 rfl
          have hf : (pkt.flags == 0) = false := by simpa using this
          simp [asksFor, hf]
        · simp at hom
      · simp at hom

theorem runReruns_keeps (s : State) (now j : Nat) (idx : Nat) (n : BList) (st nx : Nat) (R : Cargo)
    (h : Watch s idx n st nx R) (hr : RerunsOk s) :
    Watch (runReruns s now j).1 idx n st nx R ∧ (∀ o ∈ (runReruns s now j).2, asksFor idx n o = false) ∧
    (runReruns s now j).1.intfs = s.intfs ∧ (runReruns s now j).1.stopped = s.stopped ∧ RerunsOk (runReruns s now j).1 := by
  unfold runReruns
  have := foldl_inv (fun (a : State × List Out) => Watch a.1 idx n st nx R ∧ (∀ o ∈ a.2, asksFor idx n o = false) ∧
      a.1.intfs = s.intfs ∧ a.1.stopped = s.stopped ∧ a.1.reruns = s.reruns.filter (fun r => !decide (now ≥ r.next)))
    (execRerun now j) (s.reruns.filter (fun r => decide (now ≥ r.next)))
    ({ s with reruns := s.reruns.filter (fun r => !decide (now ≥ r.next)) }, [])
    ⟨h.congr rfl rfl rfl, fun _ h => by simp at h, rfl, rfl, rfl⟩
    (fun a r hrm ha => by
      obtain ⟨hw, hout, e1, e2, e3⟩ := execRerun_keeps now j a r idx n st nx R ha.1 ha.2.1
        (fun t p k v e => hr t p k v (e ▸ (List.mem_filter.mp hrm).1))
      exact ⟨hw, hout, e1.trans ha.2.2.1, e2.trans ha.2.2.2.1, e3.trans ha.2.2.2.2⟩)
  obtain ⟨hw, hout, e1, e2, e3⟩ := this
  refine ⟨hw, hout, e1, e2, ?_⟩
  intro t p k v hm
  rw [e3] at hm
  exact hr t p k v (List.mem_filter.mp hm).1

theorem wakeService_reruns (now j : Nat) (i : MyIntf) (acc : State × List Out) (name : BList) :
    ∀ x ∈ (wakeService now j i acc name).1.reruns, x ∈ acc.1.reruns ∨ ∃ t f k, x = .registerResend t f k := by
  unfold wakeService
  simp only []
  split
  · exact fun x h => Or.inl h
  · split
    · exact fun x h => Or.inl h
    · split
      · intro x hx
        simp only [State.setRegistry, List.mem_append, List.mem_cons, List.not_mem_nil, or_false] at hx
        rcases hx with hx | hx
        · exact Or.inl hx
        · exact Or.inr ⟨_, _, _, hx⟩
      · exact fun x h => Or.inl h

theorem probingHandler_rerunsOk (s : State) (now j : Nat) (h : RerunsOk s) : RerunsOk (probingHandler s now j).1 := by
  have key : ∀ x ∈ (probingHandler s now j).1.reruns, x ∈ s.reruns ∨ ∃ t f k, x = .registerResend t f k := by
    unfold probingHandler
    refine foldl_inv (fun (a : State × List Out) => ∀ x ∈ a.1.reruns, x ∈ s.reruns ∨ ∃ t f k, x = .registerResend t f k)
      (probingOnIntf now j) s.intfs (s, []) (fun _ h => Or.inl h) ?_
    intro a i _ ha
    unfold probingOnIntf
    simp only []
    split
    · exact ha
    · refine foldl_inv (fun (b : State × List Out) => ∀ x ∈ b.1.reruns, x ∈ s.reruns ∨ ∃ t f k, x = .registerResend t f k)
        (wakeService now j i) _ (_, _) ?_ ?_
      · exact ha
      · intro b nm _ hb x hx
        rcases wakeService_reruns now j i b nm x hx with h | h
        · exact hb x h
        · exact Or.inr h
  intro t p k v hm
  rcases key _ hm with h' | ⟨_, _, _, h'⟩
  · exact h t p k v h'
  · cases h'

/-! ### an idle iteration -/

/-- an iteration without datagram and without command -/
def idle (now j : Nat) : Input := { now := now, jitter := j }

/-- the loop after the commands: re-runs, `probing_handler`, the interface-check timer -/
def loopTail (s : State) (now j : Nat) : State × List Out :=
  (runIpCheck (probingHandler (runReruns s now j).1 now j).1 now,
   (runReruns s now j).2 ++ (probingHandler (runReruns s now j).1 now j).2)

theorem runReruns_stopped (s0 : State) (now j : Nat) : (runReruns s0 now j).1.stopped = s0.stopped := by
  unfold runReruns
  refine foldl_inv (fun (a : State × List Out) => a.1.stopped = s0.stopped) (execRerun now j) _ (_, []) rfl ?_
  intro a r _ ha
  unfold execRerun
  cases r with
  | registerResend t f k =>
    simp only []
    unfold execRegisterResend
    split
    · simp only []
      split <;> exact ha
    · exact ha
  | unregisterResend t p k v => exact ha

theorem iter_idle (s : State) (now j : Nat) (h : s.stopped = false) :
    iter s (idle now j) = loopTail { s with timers := s.timers.filter (· > now) } now j := by
  have h4 : (runReruns { s with timers := s.timers.filter (· > now) } now j).1.stopped = false := by
    rw [runReruns_stopped]; exact h
  unfold iter idle loopTail
  simp [h]

theorem runIpCheck_registries (s : State) (now : Nat) :
    (runIpCheck s now).registries = s.registries ∧ (runIpCheck s now).intfs = s.intfs ∧
    (runIpCheck s now).stopped = s.stopped ∧ (runIpCheck s now).reruns = s.reruns := by
  unfold runIpCheck
  repeat' split
  all_goals exact ⟨rfl, rfl, rfl, rfl⟩

theorem runIpCheck_services (s : State) (now : Nat) : (runIpCheck s now).services = s.services := by
  unfold runIpCheck
  repeat' split
  all_goals rfl

/-! ### the watched probe across idle iterations -/

/-- the daemon runs, interface `i` is there once, the probe of `n` on `i` has start `st`,
    next send `nx` and holds the records `R`, and no queued goodbye repeat is a query -/
structure Good (s : State) (i : MyIntf) (l1 l2 : List MyIntf) (n : BList) (st nx : Nat) (R : Cargo) : Prop where
  running : s.stopped = false
  intfs : IntfsOk s i l1 l2
  watch : Watch s i.index n st nx R
  reruns : RerunsOk s

theorem Watch.weaken {s : State} {idx : Nat} {n : BList} {st nx : Nat} {R R' : Cargo} (h : Watch s idx n st nx R')
    (hsub : ∀ a ∈ R.recs, a ∈ R'.recs) (hwsub : ∀ w ∈ R.waits, w ∈ R'.waits) (hact : R.act = R'.act) : Watch s idx n st nx R := by
  obtain ⟨p, hp, h1, h2, h3, h4⟩ := h.probe
  exact ⟨⟨p, hp, h1, h2, fun a ha => h3 a (hsub a ha), fun w hw => h4 w (hwsub w hw)⟩, h.pn, h.noRen, h.act.trans hact.symm,
    h.settled⟩

/-- did this iteration send a probe query for `n` on the interface? -/
def asked (idx : Nat) (n : BList) (outs : List Out) : Bool := outs.any (asksFor idx n)

/-- the action of a probe with start `st` and next send `nx` -/
theorem action_of_times {p : Probe} {st nx : Nat} (hst : p.start = st) (hnx : p.next = nx) (now : Nat) :
    p.action now = (if now ≥ nx then (if now ≥ st + 750 ∧ nx ≥ st + 750 then .expire else .send) else .idle) := by
  unfold Probe.action
  rw [hnx]
  by_cases h : now ≥ nx
  · by_cases e : p.expired now = true
    · have := (Probe.expired_iff p now).mp e
      rw [hst, hnx] at this
      simp [h, e, this]
    · have hn : ¬ (now ≥ st + 750 ∧ nx ≥ st + 750) := by
        intro hh
        rw [← hst, ← hnx] at hh
        exact e ((Probe.expired_iff p now).mpr hh)
      simp [h, e, hn]
  · simp [h]

/-- the tail of ONE iteration at `now` (after the commands), while the probe does not end - it is
    not due, or not 750 ms old, or has not sent its three queries (`nx < st + 750`): the probe
    query for `n` leaves on `i` - over every family of the interface, with `ANY n` among the
    questions and all of `R` among the authorities - exactly if `now ≥ nx`; then `nx` becomes
    `now + 250` and the start moves by the lateness `now - nx`; otherwise nothing about the probe changes. -/
theorem loopTail_step (s : State) (i : MyIntf) (l1 l2 : List MyIntf) (n : BList) (st nx : Nat) (R : Cargo) (now j : Nat)
    (h : Good s i l1 l2 n st nx R) (hlive : now < nx ∨ now < st + 750 ∨ nx < st + 750) :
    Good (loopTail s now j).1 i l1 l2 n (if now ≥ nx then st + (now - nx) else st) (if now ≥ nx then now + 250 else nx) R ∧
    (now < nx → asked i.index n (loopTail s now j).2 = false) ∧
    (now ≥ nx → ∀ v4, i.hasFamily v4 = true → ∃ pkt, Out.send i.index v4 none pkt ∈ (loopTail s now j).2 ∧
      pkt.flags = 0 ∧ (n, TYPE_ANY) ∈ pkt.questions ∧ ∀ a ∈ R.recs, a ∈ pkt.authorities) := by
  unfold loopTail
  -- after the re-runs
  obtain ⟨hw4, ho4, hi4, hs4, hr4⟩ := runReruns_keeps s now j i.index n st nx R
    h.watch h.reruns
  obtain ⟨p, hp, hst, hnx, hrec, hwait⟩ := hw4.probe
  have hintfs4 : IntfsOk (runReruns s now j).1 i l1 l2 :=
    ⟨hi4.trans h.intfs.split, h.intfs.other⟩
  have hnotend : ¬ (now ≥ nx ∧ now ≥ st + 750 ∧ nx ≥ st + 750) := by omega
  have hact : p.action now ≠ .expire := by
    rw [action_of_times hst hnx now]
    split
    · split
      · rename_i h1 h2; exact absurd ⟨h1, h2.1, h2.2⟩ hnotend
      · simp
    · simp
  obtain ⟨hw5, hidle5, hsend5⟩ := probingHandler_probe _ now j i l1 l2 hintfs4 n p hp hw4 hact
  obtain ⟨hf5i, hf5s⟩ := probingHandler_frame (runReruns s now j).1 now j
  obtain ⟨e1, e2, e3, e4⟩ := runIpCheck_registries
    (probingHandler (runReruns s now j).1 now j).1 now
  have hsendiff : p.action now = .send ↔ now ≥ nx := by
    rw [action_of_times hst hnx now]
    constructor
    · intro hh
      by_cases hge : now ≥ nx
      · exact hge
      · simp [hge] at hh
    · intro hge
      have : ¬ (now ≥ st + 750 ∧ nx ≥ st + 750) := fun hh => hnotend ⟨hge, hh.1, hh.2⟩
      simp [hge, this]
  have hnext : (if p.action now = .send then now + 250 else p.next) = (if now ≥ nx then now + 250 else nx) := by
    by_cases hge : now ≥ nx
    · simp [hsendiff.mpr hge, hge]
    · have : ¬ p.action now = .send := fun hh => hge (hsendiff.mp hh)
      simp [this, hge, hnx]
  have hstart : (if p.action now = .send then p.start + (now - p.next) else p.start) = (if now ≥ nx then st + (now - nx) else st) := by
    by_cases hge : now ≥ nx
    · simp [hsendiff.mpr hge, hge, hst, hnx]
    · have : ¬ p.action now = .send := fun hh => hge (hsendiff.mp hh)
      simp [this, hge, hst]
  refine ⟨⟨?_, ?_, ?_, ?_⟩, ?_, ?_⟩
  · rw [e3, hf5s, hs4]; exact h.running
  · exact ⟨by rw [e2, hf5i]; exact hintfs4.split, h.intfs.other⟩
  · rw [← hnext, ← hstart]
    exact (hw5.congr e1 (runIpCheck_services _ now) e2).weaken hrec hwait hw4.act.symm
  · intro t pk k v hm
    rw [e4] at hm
    exact probingHandler_rerunsOk _ now j hr4 t pk k v hm
  · intro hlt
    have hidle : p.action now = .idle := by
      rw [action_of_times hst hnx now]
      have : ¬ now ≥ nx := by omega
      simp [this]
    simp only [asked, List.any_append, Bool.or_eq_false_iff, List.any_eq_false]
    exact ⟨fun o ho => by simp [ho4 o ho], fun o ho => by simp [hidle5 hidle o ho]⟩
  · intro hge v4 hfam
    obtain ⟨pkt, hm, hfl, hq, hauth⟩ := hsend5 (hsendiff.mpr hge) v4 hfam
    exact ⟨pkt, List.mem_append.mpr (Or.inr hm), hfl, hq, fun a ha => hauth a (hrec a ha)⟩

/-- ONE idle iteration at `now`, while the probe does not end (not due, or not 750 ms old, or
    its three queries not yet sent): the probe query for `n` leaves on `i` - over every family of
    the interface, with `ANY n` among the questions and all of `R` among the authorities -
    exactly if `now ≥ nx`; then `nx` becomes `now + 250` and the start moves by the lateness;
    otherwise nothing about the probe changes. -/
theorem iter_idle_step (s : State) (i : MyIntf) (l1 l2 : List MyIntf) (n : BList) (st nx : Nat) (R : Cargo) (now j : Nat)
    (h : Good s i l1 l2 n st nx R) (hlive : now < nx ∨ now < st + 750 ∨ nx < st + 750) :
    Good (iter s (idle now j)).1 i l1 l2 n (if now ≥ nx then st + (now - nx) else st) (if now ≥ nx then now + 250 else nx) R ∧
    (now < nx → asked i.index n (iter s (idle now j)).2 = false) ∧
    (now ≥ nx → ∀ v4, i.hasFamily v4 = true → ∃ pkt, Out.send i.index v4 none pkt ∈ (iter s (idle now j)).2 ∧
      pkt.flags = 0 ∧ (n, TYPE_ANY) ∈ pkt.questions ∧ ∀ a ∈ R.recs, a ∈ pkt.authorities) := by
  rw [iter_idle s now j h.running]
  exact loopTail_step _ i l1 l2 n st nx R now j
    ⟨h.running, ⟨h.intfs.split, h.intfs.other⟩, h.watch.congr rfl rfl rfl, h.reruns⟩ hlive

/-- the tail of the iteration in which the probe ends (`now ≥ nx`, `now ≥ st + 750`, the three
    queries sent: `nx ≥ st + 750`): no probe query for `n`, and every record of `R` filed under `n`
    is active afterwards -/
theorem loopTail_end (s : State) (i : MyIntf) (l1 l2 : List MyIntf) (n : BList) (st nx : Nat) (R : Cargo) (now j : Nat)
    (h : Good s i l1 l2 n st nx R) (h1 : now ≥ nx) (h2 : now ≥ st + 750) (h3 : nx ≥ st + 750) :
    asked i.index n (loopTail s now j).2 = false ∧
    ∀ a ∈ R.recs, a.getName = n → ((loopTail s now j).1.registry i.index).isActive a = true := by
  unfold loopTail
  obtain ⟨hw4, ho4, hi4, hs4, hr4⟩ := runReruns_keeps s now j i.index n st nx R
    h.watch h.reruns
  obtain ⟨p, hp, hst, hnx, hrec, hwait⟩ := hw4.probe
  have hintfs4 : IntfsOk (runReruns s now j).1 i l1 l2 :=
    ⟨hi4.trans h.intfs.split, h.intfs.other⟩
  have hact : p.action now = .expire := by
    rw [action_of_times hst hnx now]
    simp [h1, h2, h3]
  obtain ⟨hact5, hout5⟩ := probingHandler_probe_end _ now j i l1 l2 hintfs4 n p hp hw4.pn hw4.noRen hact
  obtain ⟨e1, _, _, _⟩ := runIpCheck_registries
    (probingHandler (runReruns s now j).1 now j).1 now
  constructor
  · simp only [asked, List.any_append, Bool.or_eq_false_iff, List.any_eq_false]
    exact ⟨fun o ho => by simp [ho4 o ho], fun o ho => by simp [hout5 o ho]⟩
  · intro a ha hname
    rw [registry_congr e1]
    exact hact5 a (hrec a ha) hname

/-- the idle iteration in which the probe ends (`now ≥ nx`, `now ≥ st + 750`, `nx ≥ st + 750`): no
    probe query for `n`, and every record of `R` filed under `n` is active afterwards -/
theorem iter_idle_end (s : State) (i : MyIntf) (l1 l2 : List MyIntf) (n : BList) (st nx : Nat) (R : Cargo) (now j : Nat)
    (h : Good s i l1 l2 n st nx R) (h1 : now ≥ nx) (h2 : now ≥ st + 750) (h3 : nx ≥ st + 750) :
    asked i.index n (iter s (idle now j)).2 = false ∧
    ∀ a ∈ R.recs, a.getName = n → ((iter s (idle now j)).1.registry i.index).isActive a = true := by
  rw [iter_idle s now j h.running]
  exact loopTail_end _ i l1 l2 n st nx R now j
    ⟨h.running, ⟨h.intfs.split, h.intfs.other⟩, h.watch.congr rfl rfl rfl, h.reruns⟩ h1 h2 h3

/-- a run of idle iterations at the given times: final state and (time, outputs) per iteration -/
def idleRun (j : Nat) : State → List Nat → State × List (Nat × List Out)
  | s, [] => (s, [])
  | s, t :: ts => ((idleRun j (iter s (idle t j)).1 ts).1, (t, (iter s (idle t j)).2) :: (idleRun j (iter s (idle t j)).1 ts).2)

theorem idleRun_append (j : Nat) (s : State) (a b : List Nat) :
    idleRun j s (a ++ b) = ((idleRun j (idleRun j s a).1 b).1, (idleRun j s a).2 ++ (idleRun j (idleRun j s a).1 b).2) := by
  induction a generalizing s with
  | nil => simp [idleRun]
  | cons t a ih => simp [idleRun, ih]

/-- the times of the iterations that sent a probe query for `n` on interface index `idx` -/
def askTimes (idx : Nat) (n : BList) (run : List (Nat × List Out)) : List Nat :=
  (run.filter fun x => asked idx n x.2).map (·.1)

theorem askTimes_append (idx : Nat) (n : BList) (a b : List (Nat × List Out)) :
    askTimes idx n (a ++ b) = askTimes idx n a ++ askTimes idx n b := by
  simp [askTimes]

/-- iterations before the probe is due change nothing and ask nothing -/
theorem idleRun_skip (j : Nat) (i : MyIntf) (l1 l2 : List MyIntf) (n : BList) (st nx : Nat) (R : Cargo) :
    ∀ (pre : List Nat) (s : State), Good s i l1 l2 n st nx R → (∀ t ∈ pre, t < nx) →
      Good (idleRun j s pre).1 i l1 l2 n st nx R ∧ askTimes i.index n (idleRun j s pre).2 = [] := by
  intro pre
  induction pre with
  | nil => intro s h _; exact ⟨h, rfl⟩
  | cons t pre ih =>
    intro s h hpre
    have ht : t < nx := hpre t (by simp)
    obtain ⟨hg, hno, _⟩ := iter_idle_step s i l1 l2 n st nx R t j h (Or.inl ht)
    have hnx : (if t ≥ nx then t + 250 else nx) = nx := by
      have : ¬ t ≥ nx := by omega
      simp [this]
    have hst' : (if t ≥ nx then st + (t - nx) else st) = st := by
      have : ¬ t ≥ nx := by omega
      simp [this]
    rw [hnx, hst'] at hg
    obtain ⟨hg', hask'⟩ := ih _ hg (fun x hx => hpre x (List.mem_cons_of_mem _ hx))
    refine ⟨hg', ?_⟩
    simp only [idleRun, askTimes, List.filter_cons, hno ht]
    exact hask'

/-- the iteration at exactly the due time `nx` (before the probe's end) asks, and moves `nx` -/
theorem idleRun_send (j : Nat) (i : MyIntf) (l1 l2 : List MyIntf) (n : BList) (st nx : Nat) (R : Cargo) (s : State)
    (h : Good s i l1 l2 n st nx R) (hlive : nx < st + 750) (hfam : ∃ v4, i.hasFamily v4 = true) :
    Good (idleRun j s [nx]).1 i l1 l2 n st (nx + 250) R ∧ askTimes i.index n (idleRun j s [nx]).2 = [nx] ∧
    ∀ v4, i.hasFamily v4 = true → ∃ pkt, Out.send i.index v4 none pkt ∈ (iter s (idle nx j)).2 ∧
      pkt.flags = 0 ∧ (n, TYPE_ANY) ∈ pkt.questions ∧ ∀ a ∈ R.recs, a ∈ pkt.authorities := by
  obtain ⟨hg, _, hsend⟩ := iter_idle_step s i l1 l2 n st nx R nx j h (Or.inr (Or.inr hlive))
  simp only [ge_iff_le, Nat.le_refl, ↓reduceIte, Nat.sub_self, Nat.add_zero] at hg
  have hs := hsend (Nat.le_refl _)
  refine ⟨hg, ?_, hs⟩
  obtain ⟨v4, hv⟩ := hfam
  obtain ⟨pkt, hm, hfl, hq, _⟩ := hs v4 hv
  have hasked : asked i.index n (iter s (idle nx j)).2 = true := by
    simp only [asked, List.any_eq_true]
    refine ⟨_, hm, ?_⟩
    simp [asksFor, hfl, hq]
  simp [idleRun, askTimes, hasked]

/-- any iterations before the due time, then the iteration at the due time: one probe query -/
theorem idleRun_phase (j : Nat) (i : MyIntf) (l1 l2 : List MyIntf) (n : BList) (st nx : Nat) (R : Cargo) (s : State)
    (pre : List Nat) (h : Good s i l1 l2 n st nx R) (hlive : nx < st + 750) (hfam : ∃ v4, i.hasFamily v4 = true)
    (hpre : ∀ t ∈ pre, t < nx) :
    Good (idleRun j s (pre ++ [nx])).1 i l1 l2 n st (nx + 250) R ∧ askTimes i.index n (idleRun j s (pre ++ [nx])).2 = [nx] := by
  obtain ⟨hg1, ha1⟩ := idleRun_skip j i l1 l2 n st nx R pre s h hpre
  obtain ⟨hg2, ha2, _⟩ := idleRun_send j i l1 l2 n st nx R _ hg1 hlive hfam
  rw [idleRun_append]
  exact ⟨hg2, by rw [askTimes_append, ha1, ha2]; rfl⟩

/-- any iterations before the due time, then the iteration at the due time when the probe is
    750 ms old: no probe query, the records are active -/
theorem idleRun_final (j : Nat) (i : MyIntf) (l1 l2 : List MyIntf) (n : BList) (st nx : Nat) (R : Cargo) (s : State)
    (pre : List Nat) (h : Good s i l1 l2 n st nx R) (hend : nx ≥ st + 750) (hpre : ∀ t ∈ pre, t < nx) :
    askTimes i.index n (idleRun j s (pre ++ [nx])).2 = [] ∧
    ∀ a ∈ R.recs, a.getName = n → ((idleRun j s (pre ++ [nx])).1.registry i.index).isActive a = true := by
  obtain ⟨hg1, ha1⟩ := idleRun_skip j i l1 l2 n st nx R pre s h hpre
  obtain ⟨hno, hact⟩ := iter_idle_end _ i l1 l2 n st nx R nx j hg1 (Nat.le_refl _) hend hend
  rw [idleRun_append]
  constructor
  · rw [askTimes_append, ha1]
    simp [idleRun, askTimes, hno]
  · simpa [idleRun] using hact

/-! ### a registration creates the probe -/

theorem RR.matchesRR_trans {a b c : RR} (h1 : a.matchesRR b = true) (h2 : b.matchesRR c = true) : a.matchesRR c = true := by
  simp only [RR.matchesRR, Bool.and_eq_true, beq_iff_eq] at *
  obtain ⟨⟨⟨x1, x2⟩, x3⟩, x4⟩ := h1
  obtain ⟨⟨⟨y1, y2⟩, y3⟩, y4⟩ := h2
  exact ⟨⟨⟨x1.trans y1, x2.trans y2⟩, x3.trans y3⟩, x4.trans y4⟩

/-- the registry after the two calls of `announce_service_on_intf` of a registration: a unique
    record `a` that was not active sits (itself or a matching record) in the probe of its name;
    if that name was not probed before, the probe is fresh at `now + jitter` -/
theorem announce_pair_creates (svc : Service) (i : MyIntf) (r0 : Registry) (now j : Nat) (v4 : Bool) (a : RR) (n : BList)
    (hprobe : svc.probe = true) (hne : addrsOn svc i v4 ≠ []) (ha : a ∈ uniqueRecords svc i r0 v4) (hname : a.getName = n)
    (hinactive : r0.isActive a = false) (hfresh : alookup n r0.probing = none) :
    ∃ p b, alookup n (prepareAnnounceReg svc i (prepareAnnounceReg svc i r0 true now j) false now j).probing = some p ∧
      p.start = now + j ∧ p.next = now + j ∧ b ∈ p.records ∧ a.matchesRR b = true ∧ svc.fullname ∈ p.waiting := by
  have a1 := prepareAnnounceReg_active svc i r0 true now j
  have a2 := prepareAnnounceReg_active svc i (prepareAnnounceReg svc i r0 true now j) false now j
  -- times: whatever probe of `n` exists at the end is fresh
  have htimes : ∀ p, alookup n (prepareAnnounceReg svc i (prepareAnnounceReg svc i r0 true now j) false now j).probing = some p →
      p.start = now + j ∧ p.next = now + j := by
    intro p hp
    cases h1 : alookup n (prepareAnnounceReg svc i r0 true now j).probing with
    | none => exact (prepareAnnounceReg_times svc i _ false now j n).1 h1 p hp
    | some q =>
      have hq := (prepareAnnounceReg_times svc i r0 true now j n).1 hfresh q h1
      obtain ⟨p', hp', hor⟩ := (prepareAnnounceReg_times svc i _ false now j n).2 q h1
      rw [hp'] at hp
      cases hp
      rcases hor with ⟨e1, e2⟩ | ⟨e1, e2, _⟩
      · exact ⟨e1.trans hq.1, e2.trans hq.2⟩
      · exact ⟨e1, e2⟩
  -- existence: by the family that lists `a`
  have hex : ∃ p b, alookup n (prepareAnnounceReg svc i (prepareAnnounceReg svc i r0 true now j) false now j).probing = some p ∧
      b ∈ p.records ∧ a.matchesRR b = true ∧ svc.fullname ∈ p.waiting := by
    cases v4 with
    | true =>
      rcases prepare_registers_all svc i r0 true now j hprobe hne a ha with hact | ⟨p, hp, hany, hw⟩
      · rw [isActive_congr a1.1] at hact
        rw [hinactive] at hact; cases hact
      · rw [hname] at hp
        obtain ⟨p2, hp2, hsub, hwsub, _⟩ := prepareAnnounceReg_grows svc i _ false now j n p hp
        obtain ⟨b, hb, hm⟩ := List.any_eq_true.mp hany
        exact ⟨p2, b, hp2, hsub b hb, hm, hwsub _ hw⟩
    | false =>
      have ha' : a ∈ uniqueRecords svc i (prepareAnnounceReg svc i r0 true now j) false := by
        rw [uniqueRecords_congr a1.2]; exact ha
      rcases prepare_registers_all svc i _ false now j hprobe hne a ha' with hact | ⟨p, hp, hany, hw⟩
      · rw [isActive_congr (a2.1.trans a1.1)] at hact
        rw [hinactive] at hact; cases hact
      · rw [hname] at hp
        obtain ⟨b, hb, hm⟩ := List.any_eq_true.mp hany
        exact ⟨p, b, hp, hb, hm, hw⟩
  obtain ⟨p, b, hp, hb, hm, hw⟩ := hex
  exact ⟨p, b, hp, (htimes p hp).1, (htimes p hp).2, hb, hm, hw⟩

theorem Held.kept {r : Registry} {a : RR} {w : BList} (h : Held r a w) : Kept r a.getName a := by
  rcases h with h | ⟨p, hp, hany, _⟩
  · exact Or.inl h
  · exact Or.inr ⟨p, hp, hany⟩

/-- after the two calls of `announce_service_on_intf` nothing of the service is left to come to
    a probe: every unique record (of a family with an in-subnet address) is active or matched in
    the probe of its name -/
theorem announce_pair_settles (svc : Service) (i : MyIntf) (r0 : Registry) (now j : Nat) (hprobe : svc.probe = true)
    (v4 : Bool) (hne : addrsOn svc i v4 ≠ []) (a : RR) (ha : a ∈ uniqueRecords svc i r0 v4) :
    Kept (prepareAnnounceReg svc i (prepareAnnounceReg svc i r0 true now j) false now j) a.getName a := by
  have a1 := prepareAnnounceReg_active svc i r0 true now j
  cases v4 with
  | true =>
    exact (prepare_registers_all svc i r0 true now j hprobe hne a ha).kept.ext rfl (prepareAnnounceReg_ext svc i _ false now j _)
  | false =>
    have ha' : a ∈ uniqueRecords svc i (prepareAnnounceReg svc i r0 true now j) false := by
      rw [uniqueRecords_congr a1.2]; exact ha
    exact (prepare_registers_all svc i _ false now j hprobe hne a ha').kept

theorem unsolOnIntf_svcSame (now j : Nat) (u : Unsol) (i : MyIntf) (svc : Service) (h : SvcSame u.svc svc) :
    SvcSame (unsolOnIntf now j u i).svc svc := by
  unfold unsolOnIntf
  simp only []
  split <;> exact h.setStatus _ _

theorem unsolOnIntf_registry_other (now j : Nat) (u : Unsol) (i : MyIntf) (idx : Nat) (h : i.index ≠ idx) :
    (unsolOnIntf now j u i).state.registry idx = u.state.registry idx := by
  unfold unsolOnIntf
  simp only []
  split
  · exact registry_setRegistry_ne _ _ _ _ (Ne.symm h)
  · exact (registry_congr (s := u.state.setRegistry i.index _) rfl idx).trans (registry_setRegistry_ne _ _ _ _ (Ne.symm h))

theorem unsolOnIntf_frame (now j : Nat) (u : Unsol) (i : MyIntf) :
    (unsolOnIntf now j u i).state.intfs = u.state.intfs ∧ (unsolOnIntf now j u i).state.stopped = u.state.stopped ∧
    (unsolOnIntf now j u i).state.reruns = u.state.reruns ∧ (unsolOnIntf now j u i).state.services = u.state.services ∧
    (∀ o ∈ (unsolOnIntf now j u i).outs, o ∈ u.outs ∨ ∀ idx n, asksFor idx n o = false) := by
  unfold unsolOnIntf
  simp only []
  split
  · refine ⟨rfl, rfl, rfl, rfl, ?_⟩
    intro o ho
    simp only [List.mem_append] at ho
    rcases ho with ho | ho
    · exact Or.inl ho
    · exact Or.inr (fun idx n => sendsOf_not_asks u.svc i _ _ idx n o ho)
  · exact ⟨rfl, rfl, rfl, rfl, fun o ho => Or.inl ho⟩

/-- the registry-level part of `Watch` -/
def WatchR (r : Registry) (n : BList) (st nx : Nat) (R : Cargo) : Prop :=
  (∃ p, alookup n r.probing = some p ∧ p.start = st ∧ p.next = nx ∧ (∀ a ∈ R.recs, a ∈ p.records) ∧
    ∀ w ∈ R.waits, w ∈ p.waiting) ∧
  KeysNodup r.probing ∧ NoRen r ∧ alookup n r.active = R.act

theorem Watch.of_registry {s : State} {idx : Nat} {n : BList} {st nx : Nat} {R : Cargo}
    (h : WatchR (s.registry idx) n st nx R) (hs : Settled s idx n) : Watch s idx n st nx R :=
  ⟨h.1, h.2.1, h.2.2.1, h.2.2.2, hs⟩

/-- the registry of the interface after the step of `send_unsolicited_response`: that of the two
    `prepare_announce` calls, with `new_timers` drained or not -/
theorem unsolOnIntf_registry_self (now j : Nat) (u : Unsol) (i : MyIntf) :
    ∃ X, (unsolOnIntf now j u i).state.registry i.index =
      { (prepareAnnounceReg u.svc i (prepareAnnounceReg u.svc i (u.state.registry i.index) true now j) false now j) with
        newTimers := X } := by
  unfold unsolOnIntf
  simp only []
  split
  · exact ⟨_, registry_setRegistry_self _ _ _⟩
  · exact ⟨[], registry_setRegistry_self _ _ _⟩

/-- the step of `send_unsolicited_response` on the watched interface creates the probe, and
    leaves no record of the service to come to it later -/
theorem unsolOnIntf_creates (now j : Nat) (u : Unsol) (i : MyIntf) (svc : Service) (v4 : Bool) (a : RR) (n : BList)
    (hs : SvcSame u.svc svc) (hprobe : svc.probe = true) (hne : addrsOn svc i v4 ≠ [])
    (ha : a ∈ uniqueRecords svc i (u.state.registry i.index) v4) (hname : a.getName = n)
    (hinactive : (u.state.registry i.index).isActive a = false) (hfresh : alookup n (u.state.registry i.index).probing = none)
    (hpn : KeysNodup (u.state.registry i.index).probing) (hnr : NoRen (u.state.registry i.index)) :
    ∃ b, a.matchesRR b = true ∧ b.getName = n ∧
      WatchR ((unsolOnIntf now j u i).state.registry i.index) n (now + j) (now + j)
        ⟨[b], [svc.fullname], alookup n (u.state.registry i.index).active⟩ ∧
      Ext n (u.state.registry i.index) ((unsolOnIntf now j u i).state.registry i.index) ∧
      (∀ v4', addrsOn svc i v4' ≠ [] → ∀ a' ∈ uniqueRecords svc i {} v4', a'.getName = n →
        Kept ((unsolOnIntf now j u i).state.registry i.index) n a') := by
  obtain ⟨p, b, hp, h1, h2, hb, hm, hwt⟩ := announce_pair_creates u.svc i (u.state.registry i.index) now j v4 a n
    (hs.probe.trans hprobe) (by rw [hs.addrs]; exact hne) (by rw [hs.uniq]; exact ha) hname hinactive hfresh
  rw [hs.full] at hwt
  have hact2 : (prepareAnnounceReg u.svc i (prepareAnnounceReg u.svc i (u.state.registry i.index) true now j) false now j).active =
      (u.state.registry i.index).active :=
    (prepareAnnounceReg_active u.svc i _ false now j).1.trans (prepareAnnounceReg_active u.svc i _ true now j).1
  have hpn2 := announce_pair_pn u.svc i hpn now j
  have hnr2 := announce_pair_noRen u.svc i hnr now j
  have hbname : b.getName = n := by
    have hbnew : b.newName = none := hnr2.2 n p (alookup_mem hp) b hb
    have hanew : a.newName = none := uniqueRecords_newName svc i _ v4 hnr.1 a ha
    have hnm : a.name = b.name := by
      simp only [RR.matchesRR, Bool.and_eq_true, beq_iff_eq] at hm
      exact hm.1.1.1
    rw [← hname]
    simp [RR.getName, hbnew, hanew, hnm]
  have hext := announce_pair_ext u.svc i (u.state.registry i.index) now j n
  have hkept : ∀ v4', addrsOn svc i v4' ≠ [] → ∀ a' ∈ uniqueRecords svc i {} v4', a'.getName = n →
      Kept (prepareAnnounceReg u.svc i (prepareAnnounceReg u.svc i (u.state.registry i.index) true now j) false now j) n a' := by
    intro v4' hne' a' ha' hn'
    have := announce_pair_settles u.svc i (u.state.registry i.index) now j (hs.probe.trans hprobe) v4'
      (by rw [hs.addrs]; exact hne') a' (by rw [hs.uniq, uniqueRecords_congr (r := {}) hnr.1]; exact ha')
    rw [hn'] at this
    exact this
  obtain ⟨X, hX⟩ := unsolOnIntf_registry_self now j u i
  refine ⟨b, hm, hbname, ?_, ?_, ?_⟩
  · rw [hX]
    exact ⟨⟨p, hp, h1, h2,
        fun x hx => by simp only [List.mem_cons, List.not_mem_nil, or_false] at hx; rw [hx]; exact hb,
        fun w hw => by simp only [List.mem_cons, List.not_mem_nil, or_false] at hw; rw [hw]; exact hwt⟩,
      hpn2, hnr2, by simp only [hact2]⟩
  · rw [hX]; exact hext
  · rw [hX]; exact hkept

/-- the interfaces: `i` once, every other interface with another index -/
theorem IntfsOk.unique {s : State} {i : MyIntf} {l1 l2 : List MyIntf} (h : IntfsOk s i l1 l2) {i' : MyIntf}
    (hm : i' ∈ s.intfs) (hidx : i'.index = i.index) : i' = i := by
  rw [h.split] at hm
  simp only [List.mem_append, List.mem_cons] at hm
  rcases hm with hm | rfl | hm
  · exact absurd hidx (h.other i' (List.mem_append.mpr (Or.inl hm)))
  · rfl
  · exact absurd hidx (h.other i' (List.mem_append.mpr (Or.inr hm)))

theorem IntfsOk.mem {s : State} {i : MyIntf} {l1 l2 : List MyIntf} (h : IntfsOk s i l1 l2) : i ∈ s.intfs := by
  rw [h.split]; simp

theorem IntfsOk.find {s : State} {i : MyIntf} {l1 l2 : List MyIntf} (h : IntfsOk s i l1 l2) :
    s.intfs.find? (·.index == i.index) = some i := by
  rw [h.split, List.find?_append]
  have h1 : l1.find? (·.index == i.index) = none := by
    rw [List.find?_eq_none]
    intro x hx
    have := h.other x (List.mem_append.mpr (Or.inl hx))
    simpa using this
  simp [h1]

/-- `send_unsolicited_response` of a registration: the probe of `n` on interface `i` is created
    fresh at `now + jitter`, no record of the service is left to come to it, nothing else about
    the daemon that the schedule theorems need changes -/
theorem sendUnsolicited_creates (s : State) (svc : Service) (now j : Nat) (i : MyIntf) (l1 l2 : List MyIntf)
    (hi : IntfsOk s i l1 l2) (v4 : Bool) (a : RR) (n : BList)
    (hprobe : svc.probe = true) (hne : addrsOn svc i v4 ≠ [])
    (ha : a ∈ uniqueRecords svc i (s.registry i.index) v4) (hname : a.getName = n)
    (hinactive : (s.registry i.index).isActive a = false) (hfresh : alookup n (s.registry i.index).probing = none)
    (hpn : KeysNodup (s.registry i.index).probing) (hnr : NoRen (s.registry i.index)) (hok : RerunsOk s) :
    ∃ b, a.matchesRR b = true ∧ b.getName = n ∧
      WatchR ((sendUnsolicited s svc now j).state.registry i.index) n (now + j) (now + j)
        ⟨[b], [svc.fullname], alookup n (s.registry i.index).active⟩ ∧
      Ext n (s.registry i.index) ((sendUnsolicited s svc now j).state.registry i.index) ∧
      SvcSettled ((sendUnsolicited s svc now j).state.registry i.index) s.intfs i.index n svc ∧
      SvcSame (sendUnsolicited s svc now j).svc svc ∧
      (sendUnsolicited s svc now j).state.intfs = s.intfs ∧ (sendUnsolicited s svc now j).state.stopped = s.stopped ∧
      (sendUnsolicited s svc now j).state.services = s.services ∧
      RerunsOk (sendUnsolicited s svc now j).state ∧
      (∀ o ∈ (sendUnsolicited s svc now j).outs, ∀ idx n', asksFor idx n' o = false) := by
  -- the fold over the interfaces, in three phases
  have hsame0 : SvcSame svc svc := SvcSame.refl svc
  have frame : ∀ (l : List MyIntf) (u0 : Unsol),
      (l.foldl (unsolOnIntf now j) u0).state.intfs = u0.state.intfs ∧ (l.foldl (unsolOnIntf now j) u0).state.stopped = u0.state.stopped ∧
      (l.foldl (unsolOnIntf now j) u0).state.reruns = u0.state.reruns ∧
      (l.foldl (unsolOnIntf now j) u0).state.services = u0.state.services ∧
      (SvcSame u0.svc svc → SvcSame (l.foldl (unsolOnIntf now j) u0).svc svc) ∧
      ((∀ o ∈ u0.outs, ∀ idx n', asksFor idx n' o = false) →
        ∀ o ∈ (l.foldl (unsolOnIntf now j) u0).outs, ∀ idx n', asksFor idx n' o = false) := by
    intro l u0
    refine foldl_inv (fun (u : Unsol) => u.state.intfs = u0.state.intfs ∧ u.state.stopped = u0.state.stopped ∧
      u.state.reruns = u0.state.reruns ∧ u.state.services = u0.state.services ∧ (SvcSame u0.svc svc → SvcSame u.svc svc) ∧
      ((∀ o ∈ u0.outs, ∀ idx n', asksFor idx n' o = false) → ∀ o ∈ u.outs, ∀ idx n', asksFor idx n' o = false))
      (unsolOnIntf now j) l u0 ⟨rfl, rfl, rfl, rfl, id, id⟩ ?_
    intro u i' _ hu
    obtain ⟨f1, f2, f3, f3', f4⟩ := unsolOnIntf_frame now j u i'
    exact ⟨f1.trans hu.1, f2.trans hu.2.1, f3.trans hu.2.2.1, f3'.trans hu.2.2.2.1,
      fun h => unsolOnIntf_svcSame now j u i' svc (hu.2.2.2.2.1 h),
      fun h o ho => (f4 o ho).elim (hu.2.2.2.2.2 h o) id⟩
  have regother : ∀ (l : List MyIntf) (u0 : Unsol), (∀ i' ∈ l, i'.index ≠ i.index) →
      (l.foldl (unsolOnIntf now j) u0).state.registry i.index = u0.state.registry i.index := by
    intro l u0 hl
    exact foldl_inv (fun (u : Unsol) => u.state.registry i.index = u0.state.registry i.index) (unsolOnIntf now j) l u0 rfl
      (fun u i' hi' hu => (unsolOnIntf_registry_other now j u i' i.index (hl i' hi')).trans hu)
  have ho1 : ∀ i' ∈ l1, i'.index ≠ i.index := fun i' h => hi.other i' (List.mem_append.mpr (Or.inl h))
  have ho2 : ∀ i' ∈ l2, i'.index ≠ i.index := fun i' h => hi.other i' (List.mem_append.mpr (Or.inr h))
  -- phase 1
  have r1 := regother l1 { state := s, svc := svc } ho1
  obtain ⟨f1i, f1s, f1r, f1v, f1same, f1out⟩ := frame l1 { state := s, svc := svc }
  -- phase 2
  obtain ⟨b, hm, hbn, hw2, hext2, hkept2⟩ := unsolOnIntf_creates now j (l1.foldl (unsolOnIntf now j) { state := s, svc := svc }) i svc v4 a n
    (f1same hsame0) hprobe hne (by rw [r1]; exact ha) hname (by rw [r1]; exact hinactive) (by rw [r1]; exact hfresh)
    (by rw [r1]; exact hpn) (by rw [r1]; exact hnr)
  obtain ⟨f2i, f2s, f2r, f2v, f2out⟩ := unsolOnIntf_frame now j (l1.foldl (unsolOnIntf now j) { state := s, svc := svc }) i
  have f2same := unsolOnIntf_svcSame now j (l1.foldl (unsolOnIntf now j) { state := s, svc := svc }) i svc (f1same hsame0)
  -- phase 3
  have r3 := regother l2 (unsolOnIntf now j (l1.foldl (unsolOnIntf now j) { state := s, svc := svc }) i) ho2
  obtain ⟨f3i, f3s, f3r, f3v, f3same, f3out⟩ := frame l2 (unsolOnIntf now j (l1.foldl (unsolOnIntf now j) { state := s, svc := svc }) i)
  have hfold : s.intfs.foldl (unsolOnIntf now j) { state := s, svc := svc } =
      l2.foldl (unsolOnIntf now j) (unsolOnIntf now j (l1.foldl (unsolOnIntf now j) { state := s, svc := svc }) i) := by
    rw [hi.split, List.foldl_append, List.foldl_cons]
  have hreg : (sendUnsolicited s svc now j).state.registry i.index =
      (unsolOnIntf now j (l1.foldl (unsolOnIntf now j) { state := s, svc := svc }) i).state.registry i.index := by
    unfold sendUnsolicited
    simp only [hfold]
    exact (registry_congr (s := (l2.foldl (unsolOnIntf now j)
      (unsolOnIntf now j (l1.foldl (unsolOnIntf now j) { state := s, svc := svc }) i)).state) rfl i.index).trans r3
  rw [r1] at hw2 hext2
  refine ⟨b, hm, hbn, by rw [hreg]; exact hw2, by rw [hreg]; exact hext2, ?_, ?_, ?_, ?_, ?_, ?_, ?_⟩
  · intro _ i' hi' hidx v4' hne' a' ha' hn'
    have := hi.unique hi' hidx
    subst this
    rw [hreg]
    exact hkept2 v4' hne' a' ha' hn'
  · unfold sendUnsolicited
    simp only [hfold]
    exact f3same f2same
  · unfold sendUnsolicited
    simp only [hfold]
    exact f3i.trans (f2i.trans f1i)
  · unfold sendUnsolicited
    simp only [hfold]
    exact f3s.trans (f2s.trans f1s)
  · unfold sendUnsolicited
    simp only [hfold]
    exact f3v.trans (f2v.trans f1v)
  · unfold sendUnsolicited
    simp only [hfold]
    intro t pk k v hmem
    simp only [List.mem_append, List.mem_map] at hmem
    rcases hmem with hmem | ⟨_, _, hmem⟩
    · rw [f3r, f2r, f1r] at hmem
      exact hok t pk k v hmem
    · cases hmem
  · unfold sendUnsolicited
    simp only [hfold]
    exact f3out (fun o ho => (f2out o ho).elim (f1out (fun _ h => by simp at h) o) id)

theorem registerService_stopped (s : State) (svc : Service) (now j : Nat) :
    (registerService s svc now j).1.stopped = s.stopped := by
  unfold registerService
  split
  · unfold registerChecked sendUnsolicited
    simp only []
    have : ∀ (l : List MyIntf) (u0 : Unsol), (l.foldl (unsolOnIntf now j) u0).state.stopped = u0.state.stopped :=
      fun l u0 => foldl_inv (fun (u : Unsol) => u.state.stopped = u0.state.stopped) _ l u0 rfl
        (fun u i' _ hu => (unsolOnIntf_frame now j u i').2.1.trans hu)
    exact this _ _
  · rfl

/-- the iteration that processes `register(svc)` (and nothing else) -/
theorem iter_register (s : State) (svc : Service) (now j : Nat) (h : s.stopped = false) :
    iter s { now := now, jitter := j, cmds := [.register svc] } =
      ((loopTail (registerService { s with timers := s.timers.filter (· > now) } svc now j).1 now j).1,
       (registerService { s with timers := s.timers.filter (· > now) } svc now j).2 ++
       (loopTail (registerService { s with timers := s.timers.filter (· > now) } svc now j).1 now j).2) := by
  unfold iter loopTail
  simp [h, execCommand, registerService_stopped, List.append_assoc]

theorem registerService_eq (s : State) (svc : Service) (now j : Nat)
    (hlen : Names.checkServiceNameLength svc.ty s.nameLenMax = .ok ()) (hauto : svc.addrAuto = false) :
    registerService s svc now j = registerChecked s svc now j := by
  unfold registerService
  simp [hlen, autoAddrs, hauto]

/-- REGISTRATION STARTS THE PROBE.  A daemon in any running state processes `register(svc)` at
    `now` under jitter `j` (no datagram, no other command in that iteration).  For a unique
    record `a` of the service on interface `i` (SRV, TXT or an in-subnet address) that this
    daemon does not hold yet (not active, its name `n` not being probed), no record of another
    registered service being left to come to a probe of `n` (`Settled`): afterwards the probe of
    `n` on `i` exists with start `now + j`, containing `a` or a matching record `b`; the first
    probe query has gone out in this very iteration iff `j = 0` (then the next one is due at
    `now + 250`), otherwise nothing was asked and the first query is due at `now + j`. -/
theorem registration_creates_probe (s : State) (i : MyIntf) (l1 l2 : List MyIntf) (svc : Service) (now j : Nat)
    (v4 : Bool) (a : RR) (n : BList)
    (hrun : s.stopped = false) (hi : IntfsOk s i l1 l2) (hok : RerunsOk s)
    (hpn : KeysNodup (s.registry i.index).probing) (hnr : NoRen (s.registry i.index))
    (hlen : Names.checkServiceNameLength svc.ty s.nameLenMax = .ok ()) (hauto : svc.addrAuto = false)
    (hprobe : svc.probe = true) (hne : addrsOn svc i v4 ≠ [])
    (ha : a ∈ uniqueRecords svc i (s.registry i.index) v4) (hname : a.getName = n)
    (hinactive : (s.registry i.index).isActive a = false) (hfresh : alookup n (s.registry i.index).probing = none)
    (hset : Settled s i.index n) :
    ∃ b, a.matchesRR b = true ∧ b.getName = n ∧
      Good (iter s { now := now, jitter := j, cmds := [.register svc] }).1 i l1 l2 n (now + j)
        (if j = 0 then now + 250 else now + j) ⟨[b], [svc.fullname], alookup n (s.registry i.index).active⟩ ∧
      (j ≠ 0 → asked i.index n (iter s { now := now, jitter := j, cmds := [.register svc] }).2 = false) ∧
      (j = 0 → ∀ v4', i.hasFamily v4' = true →
        ∃ pkt, Out.send i.index v4' none pkt ∈ (iter s { now := now, jitter := j, cmds := [.register svc] }).2 ∧
          pkt.flags = 0 ∧ (n, TYPE_ANY) ∈ pkt.questions ∧ b ∈ pkt.authorities) := by
  rw [iter_register s svc now j hrun,
    registerService_eq { s with timers := s.timers.filter (· > now) } svc now j hlen hauto]
  obtain ⟨b, hm, hbn, hw, hext, hsvcset, hsame, hintfs, hstop, hsvcs, hrer, houts⟩ := sendUnsolicited_creates
    { s with timers := s.timers.filter (· > now) } svc now j i l1 l2 ⟨hi.split, hi.other⟩ v4 a n hprobe hne ha hname hinactive hfresh
    hpn hnr hok
  have hgood : Good (registerChecked { s with timers := s.timers.filter (· > now) } svc now j).1 i l1 l2 n (now + j) (now + j)
      ⟨[b], [svc.fullname], alookup n (s.registry i.index).active⟩ := by
    unfold registerChecked
    refine ⟨hstop.trans hrun, ⟨hintfs.trans hi.split, hi.other⟩, Watch.of_registry hw ?_, hrer⟩
    -- no record of a registered service is left to come to the probe: the new service by its
    -- registration, the others because they were settled before
    intro k svc' hk
    show SvcSettled _ (sendUnsolicited { s with timers := s.timers.filter (· > now) } svc now j).state.intfs i.index n svc'
    rw [hintfs]
    by_cases e : k = lower svc.fullname
    · subst e
      simp only [alookup_aset_self] at hk
      cases hk
      exact hsvcset.same hsame
    · simp only [alookup_aset_ne _ _ _ _ e] at hk
      rw [hsvcs] at hk
      exact (hset k svc' hk).ext hext
  have houts3 : ∀ o ∈ (registerChecked { s with timers := s.timers.filter (· > now) } svc now j).2, asksFor i.index n o = false := by
    unfold registerChecked
    intro o ho
    simp only [List.mem_append] at ho
    rcases ho with ho | ho
    · exact houts o ho i.index n
    · split at ho
      · simp at ho
      · exact notify_not_asks _ _ i.index n o ho
  obtain ⟨hg, hno, hsend⟩ := loopTail_step _ i l1 l2 n (now + j) (now + j) ⟨[b], [svc.fullname], alookup n (s.registry i.index).active⟩ now j hgood (Or.inr (Or.inl (by omega)))
  have hnx : (if now ≥ now + j then now + 250 else now + j) = (if j = 0 then now + 250 else now + j) := by
    by_cases hj : j = 0
    · subst hj; simp
    · have : ¬ now ≥ now + j := by omega
      simp [this, hj]
  have hst' : (if now ≥ now + j then now + j + (now - (now + j)) else now + j) = now + j := by
    by_cases hj : j = 0
    · subst hj; simp
    · have : ¬ now ≥ now + j := by omega
      simp [this]
  rw [hnx, hst'] at hg
  refine ⟨b, hm, hbn, hg, ?_, ?_⟩
  · intro hj
    have := hno (by omega)
    simp only [asked, List.any_append, Bool.or_eq_false_iff, List.any_eq_false] at this ⊢
    exact ⟨fun o ho => by simp [houts3 o ho], this⟩
  · intro hj v4' hfam
    subst hj
    obtain ⟨pkt, hmem, hfl, hq, hauth⟩ := hsend (by omega) v4' hfam
    exact ⟨pkt, List.mem_append.mpr (Or.inr hmem), hfl, hq, hauth b (by simp)⟩

/-- a record is active if a matching record filed under the same name is -/
theorem isActive_of_matches (r : Registry) (a b : RR) (hm : a.matchesRR b = true) (hn : a.getName = b.getName)
    (h : r.isActive b = true) : r.isActive a = true := by
  unfold Registry.isActive at *
  rw [hn]
  simp only [List.any_eq_true] at h ⊢
  obtain ⟨c, hc, hbc⟩ := h
  exact ⟨c, hc, RR.matchesRR_trans hm hbc⟩

/-! ### the two announcements, per function -/

/-- the announcement: PTR (and subtype PTR) to `target`, then the given unique records, as answers -/
def announcePkt (svc : Service) (target : BList) (recs : List RR) : Packet :=
  { flags := FLAGS_RESPONSE, answers := ptrRecords svc target TTL_OTHER ++ recs }

/-- the converse of `prepareAnnouncePkt_some`: with an in-subnet address of the family and all
    unique records active the announcement is built -/
theorem prepareAnnouncePkt_of_active (svc : Service) (i : MyIntf) (r : Registry) (v4 : Bool)
    (hne : addrsOn svc i v4 ≠ []) (hact : ∀ a ∈ uniqueRecords svc i r v4, r.isActive a = true) :
    prepareAnnouncePkt svc i r v4 =
      some (announcePkt svc (r.resolveName svc.fullname) (uniqueRecords svc i r v4)) := by
  unfold prepareAnnouncePkt
  have : (uniqueRecords svc i r v4).all r.isActive = true := List.all_eq_true.mpr hact
  simp [hne, this]
  rfl

theorem mem_sendsOf (i : MyIntf) (p4 p6 : Option Packet) (v4 : Bool) (p : Packet)
    (h : (if v4 then p4 else p6) = some p) : Out.send i.index v4 none p ∈ sendsOf i p4 p6 := by
  unfold sendsOf
  cases v4
  · simp only [Bool.false_eq_true, ↓reduceIte] at h
    simp [h]
  · simp only [↓reduceIte] at h
    simp [h]

/-- FIRST ANNOUNCEMENT (the body of `probing_handler` for a woken service): a registered service
    that is not yet `Announced` on interface `i` and whose unique records of family `v4` are all
    active there (with an in-subnet address) is announced: the packet with PTR (and subtype PTR),
    SRV, TXT and the addresses as answers leaves on `i` over that family, the monitors get
    `Announce`, the status becomes `Announced`, and the second announcement is queued - with a
    timer - for one second later. -/
theorem wakeService_announces (now j : Nat) (i : MyIntf) (acc : State × List Out) (name : BList) (svc : Service) (v4 : Bool)
    (hsvc : alookup (lower name) acc.1.services = some svc) (hnot : svc.announcedOn i.index = false)
    (hne : addrsOn svc i v4 ≠ [])
    (hact : ∀ a ∈ uniqueRecords svc i (acc.1.registry i.index) v4, (acc.1.registry i.index).isActive a = true) :
    Out.send i.index v4 none (announcePkt svc ((acc.1.registry i.index).resolveName svc.fullname) (uniqueRecords svc i (acc.1.registry i.index) v4)) ∈ (wakeService now j i acc name).2 ∧
    (∃ svc', alookup (lower name) (wakeService now j i acc name).1.services = some svc' ∧ svc'.announcedOn i.index = true) ∧
    ReRun.registerResend (now + 1000) svc.fullname i.index ∈ (wakeService now j i acc name).1.reruns ∧
    (now + 1000) ∈ (wakeService now j i acc name).1.timers ∧
    (∀ ch ∈ acc.1.monitors, ∃ e, Out.event ch e ∈ (wakeService now j i acc name).2) := by
  have a1 := prepareAnnounceReg_active svc i (acc.1.registry i.index) true now j
  -- the packet of the family `v4`, whichever registry version the code looks at
  have hp4 : v4 = true → prepareAnnouncePkt svc i (acc.1.registry i.index) true = some (announcePkt svc ((acc.1.registry i.index).resolveName svc.fullname) (uniqueRecords svc i (acc.1.registry i.index) true)) := by
    intro e; subst e
    exact prepareAnnouncePkt_of_active svc i _ true hne hact
  have hp6 : v4 = false → prepareAnnouncePkt svc i (prepareAnnounceReg svc i (acc.1.registry i.index) true now j) false =
      some (announcePkt svc ((acc.1.registry i.index).resolveName svc.fullname) (uniqueRecords svc i (acc.1.registry i.index) false)) := by
    intro e; subst e
    rw [prepareAnnouncePkt_congr a1.1 a1.2]
    exact prepareAnnouncePkt_of_active svc i _ false hne hact
  have hsome : ((prepareAnnouncePkt svc i (acc.1.registry i.index) true).isSome ||
      (prepareAnnouncePkt svc i (prepareAnnounceReg svc i (acc.1.registry i.index) true now j) false).isSome) = true := by
    cases v4
    · simp [hp6 rfl]
    · simp [hp4 rfl]
  unfold wakeService
  simp only [hsvc, hnot, Bool.false_eq_true, ↓reduceIte, hsome]
  refine ⟨?_, ⟨_, alookup_aset_self _ _ _, by rw [announcedOn_setStatus]; simp⟩, ?_, ?_, ?_⟩
  · simp only [List.mem_append]
    refine Or.inl (Or.inr (mem_sendsOf i _ _ v4 _ ?_))
    cases v4
    · simpa using hp6 rfl
    · simpa using hp4 rfl
  · simp [State.setRegistry]
  · simp [State.setRegistry]
  · intro ch hch
    simp only [List.mem_append, notify, List.mem_map]
    exact ⟨_, Or.inr ⟨ch, hch, rfl⟩⟩

/-- SECOND ANNOUNCEMENT (`RegisterResend`): for a registered service that requires probing and
    is `Announced` on the interface (so that, by the invariant `SvcSound`, its unique records of
    some family are active there), the re-run sends the announcement again - same record set -
    on that interface over that family. -/
theorem registerResend_announces (s : State) (now j : Nat) (fullname : BList) (i : MyIntf) (svc : Service) (r0 : Registry)
    (hsvc : alookup (lower fullname) s.services = some svc) (hreg : alookup i.index s.registries = some r0)
    (hfind : s.intfs.find? (·.index == i.index) = some i) (huniq : ∀ i' ∈ s.intfs, i'.index = i.index → i' = i)
    (hprobe : svc.probe = true) (hann : svc.announcedOn i.index = true) (hsound : SvcSound s svc) :
    ∃ v4, addrsOn svc i v4 ≠ [] ∧
      Out.send i.index v4 none (announcePkt svc (r0.resolveName svc.fullname) (uniqueRecords svc i r0 v4)) ∈
        (execRegisterResend s now j fullname i.index).2 := by
  obtain ⟨i', hi', hidx, v4, hne, hact⟩ := hsound hprobe i.index hann
  have : i' = i := huniq i' hi' hidx
  subst this
  have hr : s.registry i'.index = r0 := registry_of_lookup hreg
  rw [hr] at hact
  have a1 := prepareAnnounceReg_active svc i' r0 true now j
  refine ⟨v4, hne, ?_⟩
  have hp4 : v4 = true → prepareAnnouncePkt svc i' r0 true = some (announcePkt svc (r0.resolveName svc.fullname) (uniqueRecords svc i' r0 true)) := by
    intro e; subst e
    exact prepareAnnouncePkt_of_active svc i' _ true hne hact
  have hp6 : v4 = false → prepareAnnouncePkt svc i' (prepareAnnounceReg svc i' r0 true now j) false =
      some (announcePkt svc (r0.resolveName svc.fullname) (uniqueRecords svc i' r0 false)) := by
    intro e; subst e
    rw [prepareAnnouncePkt_congr a1.1 a1.2]
    exact prepareAnnouncePkt_of_active svc i' _ false hne hact
  have hsome : ((prepareAnnouncePkt svc i' r0 true).isSome ||
      (prepareAnnouncePkt svc i' (prepareAnnounceReg svc i' r0 true now j) false).isSome) = true := by
    cases v4
    · simp [hp6 rfl]
    · simp [hp4 rfl]
  unfold execRegisterResend
  simp only [hsvc, hreg, hfind, hsome, ↓reduceIte]
  simp only [List.mem_append]
  refine Or.inl (mem_sendsOf i' _ _ v4 _ ?_)
  cases v4
  · simpa using hp6 rfl
  · simpa using hp4 rfl

end Mdns.Responder
