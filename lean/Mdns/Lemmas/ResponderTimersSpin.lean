import Mdns.Lemmas.ResponderTimersIter
import Mdns.Lemmas.ResponderAnnounce
/-
  C12 on the responder model, "never spins": after ANY iteration at `now` the only work left for
  that instant is the first query of probes created with jitter 0 (and stale `new_timers`); one
  further iteration at `now` without input does it, and from then on every timer lies after `now`.
-/
namespace Mdns.Responder
open Mdns

/-! ### no probe of a registry ends at `now` -/

/-- no probe of the registry ends at `now` (each is idle or sends a query) -/
def NoExp (now : Nat) (r : Registry) : Prop := ∀ e ∈ r.probing, e.2.action now ≠ .expire

theorem action_expire_iff (p : Probe) (now : Nat) :
    p.action now = .expire ↔ now ≥ p.next ∧ now ≥ p.start + 750 ∧ p.next ≥ p.start + 750 := by
  unfold Probe.action Probe.expired
  split
  · rename_i h
    split
    · rename_i h2
      simp only [Bool.and_eq_true, decide_eq_true_eq] at h2
      simp [h, h2]
    · rename_i h2
      simp only [Bool.and_eq_true, decide_eq_true_eq] at h2
      simp only [reduceCtorEq, false_iff]
      intro h3
      exact h2 ⟨h3.2.1, h3.2.2⟩
  · rename_i h
    simp only [reduceCtorEq, false_iff]
    intro h3
    exact h h3.1

theorem action_congr {p q : Probe} (hs : p.start = q.start) (hn : p.next = q.next) (now : Nat) : p.action now = q.action now := by
  unfold Probe.action Probe.expired
  rw [hs, hn]

theorem NoExp.empty (now : Nat) : NoExp now {} := fun _ h => by cases h

theorem probeInsert_noexp {now : Nat} {r : Registry} (h : NoExp now r) (a : RR) (n : BList) (j : Nat) :
    NoExp now (r.probeInsert a n (now + j)) := by
  intro e he
  simp only [Registry.probeInsert] at he
  rcases mem_aset he with rfl | hold
  · simp only []
    rw [Ne, action_expire_iff]
    rcases Probe.join_times ((alookup a.getName r.probing).getD (Probe.new (now + j))) a n (now + j) with ⟨h1, h2, _⟩ | ⟨h1, h2, _⟩
    · rw [h1, h2]
      cases hl : alookup a.getName r.probing with
      | none =>
        simp only [Option.getD_none, Probe.new]
        omega
      | some q =>
        simp only [Option.getD_some]
        have := h (a.getName, q) (alookup_mem hl)
        rw [Ne, action_expire_iff] at this
        exact this
    · rw [h1, h2]
      omega
  · exact h e hold

theorem probingDoneReg_noexp {now : Nat} {r : Registry} (h : NoExp now r) (a : RR) (n : BList) (j : Nat) :
    NoExp now (r.probingDoneReg a n (now + j)) := by
  unfold Registry.probingDoneReg
  split
  · exact h
  · exact probeInsert_noexp h a n j

theorem prepareAnnounceReg_noexp {now : Nat} {r : Registry} (h : NoExp now r) (s : Service) (i : MyIntf) (v4 : Bool) (j : Nat) :
    NoExp now (prepareAnnounceReg s i r v4 now j) := by
  unfold prepareAnnounceReg
  split
  · exact h
  · split
    · exact h
    · exact foldl_inv (fun (x : Registry) => NoExp now x) _ _ _ h (fun x a _ hx => probingDoneReg_noexp hx a _ j)

theorem announce_pair_noexp {now : Nat} {r : Registry} (h : NoExp now r) (s : Service) (i : MyIntf) (j : Nat) :
    NoExp now (prepareAnnounceReg s i (prepareAnnounceReg s i r true now j) false now j) :=
  prepareAnnounceReg_noexp (prepareAnnounceReg_noexp h s i true j) s i false j

/-- after `check_probing` and `handle_expired_probes` at `now` every probe that is left waits for
    a later instant -/
theorem checkProbing_noexp (r : Registry) (now : Nat) (intfName : BList) :
    NoExp now (handleExpiredProbes (checkProbing r now).expired intfName (checkProbing r now).reg).1 := by
  obtain ⟨_, hleft⟩ := handleExpiredProbes_left (checkProbing r now).expired intfName (checkProbing r now).reg
  intro e he
  obtain ⟨hm, hne⟩ := hleft e he
  rw [checkProbing_probing] at hm
  simp only [List.mem_map] at hm
  obtain ⟨e0, he0, rfl⟩ := hm
  simp only [] at hne ⊢
  obtain ⟨hst, hnx⟩ := probe_step_times e0.2 now
  rw [Ne, action_expire_iff, hnx]
  cases hact : e0.2.action now with
  | idle =>
    simp only [reduceCtorEq, if_false]
    have hidle : now < e0.2.next := by
      unfold Probe.action at hact
      split at hact
      · split at hact <;> cases hact
      · omega
    omega
  | send =>
    simp only [if_true]
    omega
  | expire =>
    exfalso
    apply hne
    simp only [checkProbing, List.mem_map, List.mem_filter]
    exact ⟨e0, ⟨he0, by simp [hact]⟩, rfl⟩

theorem wakeService_noexp (now jitter : Nat) (i : MyIntf) (acc : State × List Out) (name : BList) (idx : Nat)
    (h : NoExp now (acc.1.registry idx)) : NoExp now ((wakeService now jitter i acc name).1.registry idx) := by
  by_cases e : i.index = idx
  · subst e
    unfold wakeService
    simp only []
    split
    · exact h
    · rename_i svc _
      split
      · exact h
      · have hreg : ∀ (s' : State), s'.registries = (acc.1.setRegistry i.index
            (prepareAnnounceReg svc i (prepareAnnounceReg svc i (acc.1.registry i.index) true now jitter) false now jitter)).registries →
            NoExp now (s'.registry i.index) := by
          intro s' hs'
          rw [registry_congr hs', registry_setRegistry_self]
          exact announce_pair_noexp h svc i jitter
        split
        · exact hreg _ rfl
        · exact hreg _ rfl
  · rw [wakeService_registry_other now jitter i acc name idx e]
    exact h

theorem probingOnIntf_noexp_self (now jitter : Nat) (acc : State × List Out) (i : MyIntf) :
    NoExp now ((probingOnIntf now jitter acc i).1.registry i.index) := by
  unfold probingOnIntf
  simp only []
  split
  · rename_i hnone
    have he : acc.1.registry i.index = {} := by simp [State.registry, hnone]
    rw [he]
    exact NoExp.empty now
  · rename_i r hr
    rw [drainNewTimers_registry_self]
    have hf := foldl_inv (fun (a : State × List Out) => NoExp now (a.1.registry i.index)) (wakeService now jitter i)
      (handleExpiredProbes (checkProbing r now).expired i.name (checkProbing r now).reg).2.2
      (({ (acc.1.setRegistry i.index (handleExpiredProbes (checkProbing r now).expired i.name (checkProbing r now).reg).1) with
          timers := acc.1.timers ++ (checkProbing r now).timers } : State),
        acc.2 ++ probeSends i (checkProbing r now) ++
          (handleExpiredProbes (checkProbing r now).expired i.name (checkProbing r now).reg).2.1.flatMap (notify acc.1))
      (by
        have e : (({ (acc.1.setRegistry i.index (handleExpiredProbes (checkProbing r now).expired i.name (checkProbing r now).reg).1) with
            timers := acc.1.timers ++ (checkProbing r now).timers } : State).registry i.index) =
            (handleExpiredProbes (checkProbing r now).expired i.name (checkProbing r now).reg).1 := registry_setRegistry_self _ _ _
        simp only []
        rw [e]
        exact checkProbing_noexp r now i.name)
      (fun a nm _ ha => wakeService_noexp now jitter i a nm i.index ha)
    intro e he
    exact hf e he

/-- a property of single registries that the body of `probing_handler` establishes for the
    interface it works on holds, after the whole handler, for every interface it went through -/
theorem probingFold_each (now jitter : Nat) (P : Registry → Prop)
    (hself : ∀ acc i, P ((probingOnIntf now jitter acc i).1.registry i.index)) :
    ∀ (l : List MyIntf) (acc : State × List Out), ∀ idx ∈ l.map (·.index),
      P ((l.foldl (probingOnIntf now jitter) acc).1.registry idx)
  | [], _, _, h => by simp at h
  | a :: rest, acc, idx, hidx => by
    simp only [List.map_cons, List.mem_cons] at hidx
    simp only [List.foldl_cons]
    by_cases hrest : idx ∈ rest.map (·.index)
    · exact probingFold_each now jitter P hself rest _ idx hrest
    · have e : idx = a.index := hidx.resolve_right hrest
      subst e
      rw [(probingFold_step now jitter rest (probingOnIntf now jitter acc a)).2.2.2.2.1 _ hrest]
      exact hself acc a

theorem probingHandler_intfs (s : State) (now jitter : Nat) : (probingHandler s now jitter).1.intfs = s.intfs :=
  (probingFold_step now jitter s.intfs (s, [])).1

theorem probingHandler_noexp (s : State) (now jitter : Nat) :
    ∀ i ∈ s.intfs, NoExp now ((probingHandler s now jitter).1.registry i.index) := by
  intro i hi
  unfold probingHandler
  exact probingFold_each now jitter (NoExp now) (probingOnIntf_noexp_self now jitter) s.intfs (s, []) i.index
    (List.mem_map.mpr ⟨i, hi, rfl⟩)

theorem probingHandler_drained (s : State) (now jitter : Nat) : Drained (probingHandler s now jitter).1 := by
  intro i hi
  rw [probingHandler_intfs] at hi
  unfold probingHandler
  exact probingFold_each now jitter (fun r => r.newTimers = []) (fun acc i => (probingOnIntf_step now jitter acc i).drained)
    s.intfs (s, []) i.index (List.mem_map.mpr ⟨i, hi, rfl⟩)

/-! ### the re-runs `probing_handler` queues are due a second later -/

theorem wakeService_reruns_next (now j : Nat) (i : MyIntf) (acc : State × List Out) (name : BList) :
    ∀ x ∈ (wakeService now j i acc name).1.reruns, x ∈ acc.1.reruns ∨ x.next = now + 1000 := by
  unfold wakeService
  simp only []
  split
  · exact fun x h => Or.inl h
  · split
    · exact fun x h => Or.inl h
    · split
      · intro x hx
        simp only [State.setRegistry, List.mem_append, List.mem_cons, List.not_mem_nil, or_false] at hx
        rcases hx with hx | hx
        · exact Or.inl hx
        · right; rw [hx]; rfl
      · exact fun x h => Or.inl h

theorem probingHandler_reruns_next (s : State) (now j : Nat) :
    ∀ x ∈ (probingHandler s now j).1.reruns, x ∈ s.reruns ∨ x.next = now + 1000 := by
  unfold probingHandler
  refine foldl_inv (fun (a : State × List Out) => ∀ x ∈ a.1.reruns, x ∈ s.reruns ∨ x.next = now + 1000)
    (probingOnIntf now j) s.intfs (s, []) (fun _ h => Or.inl h) ?_
  intro a i _ ha
  unfold probingOnIntf
  simp only []
  split
  · exact ha
  · refine foldl_inv (fun (b : State × List Out) => ∀ x ∈ b.1.reruns, x ∈ s.reruns ∨ x.next = now + 1000)
      (wakeService now j i) _ (_, _) ?_ ?_
    · exact ha
    · intro b nm _ hb x hx
      rcases wakeService_reruns_next now j i b nm x hx with h | h
      · exact hb x h
      · exact Or.inr h

/-! ### what is left for the instant `now` after an iteration at `now` -/

/-- Nothing is left for an iteration at `now` but first queries of probes: every interface
    registry has handed over its `new_timers`, no probe ends at `now`, no re-run is due, the
    interface check is not due. -/
structure Quiet (now : Nat) (s : State) : Prop where
  drained : Drained s
  probes : ∀ i ∈ s.intfs, NoExp now (s.registry i.index)
  reruns : ∀ r ∈ s.reruns, now < r.next
  ip : s.nextIpCheck = 0 ∨ now < s.nextIpCheck

theorem runIpCheck_ip_after (s : State) (now : Nat) :
    (runIpCheck s now).nextIpCheck = 0 ∨ now < (runIpCheck s now).nextIpCheck := by
  unfold runIpCheck
  split
  · split
    · right; simp only []; omega
    · left; rfl
  · rename_i hnot
    split
    · rename_i h2
      simp only [Bool.and_eq_true, decide_eq_true_eq] at h2
      right; simp only []; omega
    · simp only [Bool.and_eq_true, decide_eq_true_eq, not_and] at hnot
      by_cases h0 : s.nextIpCheck = 0
      · exact Or.inl h0
      · right
        by_cases hlt : now < s.nextIpCheck
        · exact hlt
        · exact absurd (by omega : s.nextIpCheck > 0) (hnot (by omega))

/-- the loop after the commands leaves nothing for its own instant but first probe queries -
    whatever the state it starts from -/
theorem tail_quiet (s : State) (now j : Nat) :
    Quiet now (runIpCheck (probingHandler (runReruns s now j).1 now j).1 now) := by
  have hi : (runIpCheck (probingHandler (runReruns s now j).1 now j).1 now).intfs = (runReruns s now j).1.intfs :=
    (runIpCheck_intfs _ _).trans (probingHandler_intfs _ _ _)
  refine ⟨runIpCheck_drained now (probingHandler_drained _ now j), ?_, ?_, runIpCheck_ip_after _ now⟩
  · intro i hi'
    rw [hi] at hi'
    rw [runIpCheck_registry]
    exact probingHandler_noexp _ now j i hi'
  · intro r hr
    rw [runIpCheck_reruns] at hr
    rcases probingHandler_reruns_next _ now j r hr with h | h
    · rw [runReruns_reruns] at h
      simp only [List.mem_filter, Bool.not_eq_eq_eq_not, Bool.not_true, decide_eq_false_iff_not] at h
      omega
    · omega

/-- AFTER ANY ITERATION (any state before it, any input): unless the daemon has stopped, nothing
    is left for the instant of the iteration but first queries of freshly created probes -/
theorem iter_quiet (s : State) (inp : Input) (hrun : (iter s inp).1.stopped = false) : Quiet inp.now (iter s inp).1 := by
  have key : (iter s inp).1.stopped = true ∨ Quiet inp.now (iter s inp).1 := by
    unfold iter
    split
    · rename_i hst
      exact Or.inl hst
    · simp only []
      split
      · rename_i hst
        exact Or.inl hst
      · exact Or.inr (tail_quiet _ inp.now inp.jitter)
  rcases key with h | h
  · rw [hrun] at h; cases h
  · exact h

/-! ### an iteration without input in a quiet state -/

theorem runReruns_none_due (s : State) (now j : Nat) (h : ∀ r ∈ s.reruns, now < r.next) :
    runReruns s now j = ({ s with reruns := s.reruns.filter (fun r => !decide (now ≥ r.next)) }, []) := by
  unfold runReruns
  have : s.reruns.filter (fun r => decide (now ≥ r.next)) = [] := by
    rw [List.filter_eq_nil_iff]
    intro r hr
    have := h r hr
    simp only [decide_eq_true_eq]
    omega
  rw [this]
  rfl

/-- the body of `probing_handler` on a registry without `new_timers` in which no probe ends: the
    only timers it arms are for `now + 250` (the next query of each probe that sent one) -/
theorem probingOnIntf_timers_quiet (now jitter : Nat) (acc : State × List Out) (i : MyIntf)
    (hd : (acc.1.registry i.index).newTimers = []) (hne : NoExp now (acc.1.registry i.index)) :
    ∀ t ∈ (probingOnIntf now jitter acc i).1.timers, t ∈ acc.1.timers ∨ t = now + 250 := by
  unfold probingOnIntf
  simp only []
  split
  · exact fun t ht => Or.inl ht
  · rename_i r hr
    have hreg : acc.1.registry i.index = r := registry_of_lookup hr
    rw [hreg] at hd hne
    have hexp : (checkProbing r now).expired = [] := by
      simp only [checkProbing, List.map_eq_nil_iff, List.filter_eq_nil_iff]
      intro e he
      have := hne e he
      simp only [beq_iff_eq]
      exact this
    simp only [hexp, handleExpiredProbes, List.foldl_nil, List.flatMap_nil, List.append_nil]
    intro t ht
    simp only [drainNewTimers] at ht
    have e : (({ (acc.1.setRegistry i.index (checkProbing r now).reg) with
        timers := acc.1.timers ++ (checkProbing r now).timers } : State).registry i.index) = (checkProbing r now).reg :=
      registry_setRegistry_self _ _ _
    rw [e] at ht
    have hnt : (checkProbing r now).reg.newTimers = [] := hd
    rw [hnt, List.append_nil] at ht
    rcases List.mem_append.mp ht with ht | ht
    · exact Or.inl ht
    · right
      simp only [checkProbing, List.mem_map] at ht
      obtain ⟨_, _, rfl⟩ := ht
      rfl

structure QuietFold (now : Nat) (s0 : State) (acc : State × List Out) : Prop where
  intfs : acc.1.intfs = s0.intfs
  timers : ∀ t ∈ acc.1.timers, t ∈ s0.timers ∨ t = now + 250
  drained : ∀ i ∈ s0.intfs, (acc.1.registry i.index).newTimers = []
  noexp : ∀ i ∈ s0.intfs, NoExp now (acc.1.registry i.index)

theorem probingOnIntf_quiet (now jitter : Nat) (s0 : State) (acc : State × List Out) (i : MyIntf) (hi : i ∈ s0.intfs)
    (h : QuietFold now s0 acc) : QuietFold now s0 (probingOnIntf now jitter acc i) := by
  have hstep := probingOnIntf_step now jitter acc i
  refine ⟨hstep.intfs.trans h.intfs, ?_, ?_, ?_⟩
  · intro t ht
    rcases probingOnIntf_timers_quiet now jitter acc i (h.drained i hi) (h.noexp i hi) t ht with h1 | h1
    · exact h.timers t h1
    · exact Or.inr h1
  · intro k hk
    by_cases e : k.index = i.index
    · rw [e]; exact hstep.drained
    · rw [hstep.other k.index e]; exact h.drained k hk
  · intro k hk
    by_cases e : k.index = i.index
    · rw [e]; exact probingOnIntf_noexp_self now jitter acc i
    · rw [hstep.other k.index e]; exact h.noexp k hk

/-- AN ITERATION WITHOUT INPUT IN A QUIET STATE arms timers after `now` only: the timers it leaves
    are old ones that lie after `now`, `now + 250` for the probes that sent a query, and
    `now + interval` when the interface check is switched on again -/
theorem idle_quiet_timers (s : State) (now j : Nat) (hrun : s.stopped = false) (h : Quiet now s) :
    ∀ t ∈ (iter s (idle now j)).1.timers, now < t := by
  rw [iter_idle s now j hrun]
  unfold loopTail
  simp only []
  rw [runReruns_none_due ({ s with timers := s.timers.filter (· > now) } : State) now j h.reruns]
  simp only []
  -- the state `probing_handler` starts from
  let s0 : State := { s with timers := s.timers.filter (· > now), reruns := s.reruns.filter (fun r => !decide (now ≥ r.next)) }
  have hq : QuietFold now s0 (probingHandler s0 now j) := by
    unfold probingHandler
    exact foldl_inv (fun (a : State × List Out) => QuietFold now s0 a) (probingOnIntf now j) s0.intfs (s0, [])
      ⟨rfl, fun t ht => Or.inl ht, fun i hi => h.drained i hi, fun i hi => h.probes i hi⟩
      (fun a i hi ha => probingOnIntf_quiet now j s0 a i hi ha)
  have hip : (probingHandler s0 now j).1.nextIpCheck = s.nextIpCheck :=
    (probingFold_step now j s0.intfs (s0, [])).2.1
  have ht5 : ∀ t ∈ (probingHandler s0 now j).1.timers, now < t := by
    intro t ht
    rcases hq.timers t ht with h1 | h1
    · have : t ∈ s.timers.filter (· > now) := h1
      simp only [List.mem_filter, decide_eq_true_eq] at this
      exact this.2
    · omega
  intro t ht
  change t ∈ (runIpCheck (probingHandler s0 now j).1 now).timers at ht
  unfold runIpCheck at ht
  rw [hip] at ht
  split at ht
  · rename_i hdue
    simp only [Bool.and_eq_true, decide_eq_true_eq] at hdue
    rcases h.ip with h0 | h0 <;> omega
  · split at ht
    · rename_i h2
      simp only [Bool.and_eq_true, decide_eq_true_eq] at h2
      rcases List.mem_append.mp ht with ht | ht
      · exact ht5 t ht
      · simp only [List.mem_singleton] at ht
        omega
    · exact ht5 t ht

/-- any number (at least one) of iterations without input at the instant of a quiet state: every
    timer lies after that instant -/
theorem idleRun_quiet_timers (now : Nat) : ∀ (js : List Nat) (j : Nat) (s : State), s.stopped = false → Quiet now s →
    ∀ t ∈ (run s ((j :: js).map (idle now))).1.timers, now < t
  | [], j, s, hrun, hq => by
    simpa [run] using idle_quiet_timers s now j hrun hq
  | j' :: js, j, s, hrun, hq => by
    simp only [List.map_cons, run]
    have hrun' := iter_idle_running s now j hrun
    have hq' : Quiet now (iter s (idle now j)).1 := iter_quiet s (idle now j) hrun'
    have := idleRun_quiet_timers now js j' _ hrun' hq'
    simpa [List.map_cons, run] using this

/-! ### an iteration without input and without due work does nothing -/

/-- no probe of the registry is due at `now` -/
def AllIdle (now : Nat) (r : Registry) : Prop := ∀ e ∈ r.probing, now < e.2.next

theorem action_idle_of_lt {p : Probe} {now : Nat} (h : now < p.next) : p.action now = .idle := by
  unfold Probe.action
  split
  · omega
  · rfl

theorem AllIdle.noExp {now : Nat} {r : Registry} (h : AllIdle now r) : NoExp now r := by
  intro e he
  rw [action_idle_of_lt (h e he)]
  simp

theorem checkProbing_allIdle {now : Nat} {r : Registry} (h : AllIdle now r) :
    (checkProbing r now).reg = r ∧ (checkProbing r now).questions = [] ∧ (checkProbing r now).expired = [] ∧
    (checkProbing r now).timers = [] := by
  have hact : ∀ e ∈ r.probing, e.2.action now = .idle := fun e he => action_idle_of_lt (h e he)
  refine ⟨?_, ?_, ?_, ?_⟩
  · simp only [checkProbing]
    have : r.probing.map (fun (x : BList × Probe) => (x.1, x.2.step now)) = r.probing := by
      rw [List.map_congr_left (g := id)]
      · simp
      · intro e he
        simp only [Probe.step, hact e he, id]
    simp only [this]
  · simp only [checkProbing, List.map_eq_nil_iff, List.filter_eq_nil_iff]
    intro e he
    simp [hact e he]
  · simp only [checkProbing, List.map_eq_nil_iff, List.filter_eq_nil_iff]
    intro e he
    simp [hact e he]
  · simp only [checkProbing, List.map_eq_nil_iff, List.filter_eq_nil_iff]
    intro e he
    simp [hact e he]

/-- the body of `probing_handler` on a registry in which nothing is due: no output, the probes stay -/
theorem probingOnIntf_allIdle (now jitter : Nat) (acc : State × List Out) (i : MyIntf)
    (h : AllIdle now (acc.1.registry i.index)) :
    (probingOnIntf now jitter acc i).2 = acc.2 ∧
    ((probingOnIntf now jitter acc i).1.registry i.index).probing = (acc.1.registry i.index).probing := by
  unfold probingOnIntf
  simp only []
  split
  · exact ⟨rfl, rfl⟩
  · rename_i r hr
    have hreg : acc.1.registry i.index = r := registry_of_lookup hr
    rw [hreg] at h ⊢
    obtain ⟨h1, h2, h3, h4⟩ := checkProbing_allIdle h
    simp only [h3, handleExpiredProbes, List.foldl_nil, List.flatMap_nil, List.append_nil, probeSends, h2, List.isEmpty_nil,
      if_true]
    refine ⟨drainNewTimers_snd _ _, ?_⟩
    rw [drainNewTimers_registry_self]
    show ((acc.1.setRegistry i.index (checkProbing r now).reg).registry i.index).probing = r.probing
    rw [registry_setRegistry_self, h1]

theorem probingHandler_allIdle (s : State) (now jitter : Nat) (h : ∀ i ∈ s.intfs, AllIdle now (s.registry i.index)) :
    (probingHandler s now jitter).2 = [] := by
  unfold probingHandler
  have := foldl_inv (fun (a : State × List Out) => a.2 = [] ∧ ∀ i ∈ s.intfs, AllIdle now (a.1.registry i.index))
    (probingOnIntf now jitter) s.intfs (s, []) ⟨rfl, h⟩
    (fun a i hi ha => by
      obtain ⟨h1, h2⟩ := probingOnIntf_allIdle now jitter a i (ha.2 i hi)
      refine ⟨h1.trans ha.1, ?_⟩
      intro k hk
      by_cases e : k.index = i.index
      · intro x hx
        rw [e, h2] at hx
        exact ha.2 i hi x hx
      · rw [(probingOnIntf_step now jitter a i).other k.index e]
        exact ha.2 k hk)
  exact this.1

/-- AN ITERATION WITHOUT INPUT AND WITHOUT DUE WORK sends nothing, reports nothing -/
theorem idle_nothing_due_outs (s : State) (now j : Nat) (hrun : s.stopped = false)
    (hp : ∀ i ∈ s.intfs, AllIdle now (s.registry i.index)) (hr : ∀ r ∈ s.reruns, now < r.next) :
    (iter s (idle now j)).2 = [] := by
  rw [iter_idle s now j hrun]
  unfold loopTail
  simp only []
  rw [runReruns_none_due ({ s with timers := s.timers.filter (· > now) } : State) now j hr]
  simp only [List.nil_append]
  exact probingHandler_allIdle _ now j hp

end Mdns.Responder
