import Mdns.Model.Sched
/-
  Lemmas about the scheduler model: one schedule per type / host (C19), step contracts.
-/
namespace Mdns.Sched
open Mdns

/-- number of queued re-runs that belong to the browse of `ty` -/
def browseCount (s : State) (ty : BList) : Nat := (s.reruns.filter (isBrowseOf ty)).length
/-- number of queued re-runs that belong to the resolution of the host with lower-case name `key` -/
def resolveCount (s : State) (key : BList) : Nat := (s.reruns.filter (isResolveOf key)).length

theorem filter_not_self {α} (p : α → Bool) (l : List α) : (l.filter (fun r => !p r)).filter p = [] := by
  induction l with
  | nil => rfl
  | cons a l ih =>
    by_cases h : p a <;> simp [List.filter_cons, h, ih]

theorem filter_filter_comm {α} (p q : α → Bool) (l : List α) :
    (l.filter p).filter q = (l.filter q).filter p := by
  simp [List.filter_filter, Bool.and_comm]

theorem length_filter_filter_le {α} (p q : α → Bool) (l : List α) :
    ((l.filter p).filter q).length ≤ (l.filter q).length := by
  rw [filter_filter_comm]
  exact List.length_filter_le _ _

end Mdns.Sched

namespace Mdns.Sched
open Mdns

/-- at most one queued re-run per browsed type and per resolved host -/
def OneEach (l : List Rerun) : Prop :=
  (∀ ty, (l.filter (isBrowseOf ty)).length ≤ 1) ∧ (∀ key, (l.filter (isResolveOf key)).length ≤ 1)

theorem OneEach.nil : OneEach [] := by simp [OneEach]

theorem OneEach.filter {l : List Rerun} (h : OneEach l) (p : Rerun → Bool) : OneEach (l.filter p) :=
  ⟨fun ty => Nat.le_trans (length_filter_filter_le _ _ _) (h.1 ty),
   fun key => Nat.le_trans (length_filter_filter_le _ _ _) (h.2 key)⟩

theorem isBrowseOf_browse (ty ty' : BList) (n d ch : Nat) :
    isBrowseOf ty' ⟨n, .browse ty d ch⟩ = (ty == ty') := rfl
theorem isResolveOf_browse (key ty : BList) (n d ch : Nat) :
    isResolveOf key ⟨n, .browse ty d ch⟩ = false := rfl
theorem isBrowseOf_resolve (ty h : BList) (n d ch : Nat) :
    isBrowseOf ty ⟨n, .resolveHost h d ch⟩ = false := rfl
theorem isResolveOf_resolve (key h : BList) (n d ch : Nat) :
    isResolveOf key ⟨n, .resolveHost h d ch⟩ = (lower h == key) := rfl

/-- appending a browse re-run of `ty` to a list that holds none for `ty` -/
theorem OneEach.append_browse {l : List Rerun} (h : OneEach l) (ty : BList) (n d ch : Nat)
    (h0 : l.filter (isBrowseOf ty) = []) : OneEach (l ++ [⟨n, .browse ty d ch⟩]) := by
  refine ⟨fun ty' => ?_, fun key => ?_⟩
  · simp only [List.filter_append, List.length_append]
    by_cases e : ty = ty'
    · subst e; simp [h0, List.filter_cons, isBrowseOf_browse]
    · have : (ty == ty') = false := by simpa using e
      simp only [List.filter_cons, isBrowseOf_browse, this]
      simpa using h.1 ty'
  · simp only [List.filter_append, List.length_append, List.filter_cons, isResolveOf_browse]
    simpa using h.2 key

theorem OneEach.append_resolve {l : List Rerun} (h : OneEach l) (host : BList) (n d ch : Nat)
    (h0 : l.filter (isResolveOf (lower host)) = []) : OneEach (l ++ [⟨n, .resolveHost host d ch⟩]) := by
  refine ⟨fun ty => ?_, fun key => ?_⟩
  · simp only [List.filter_append, List.length_append, List.filter_cons, isBrowseOf_resolve]
    simpa using h.1 ty
  · simp only [List.filter_append, List.length_append]
    by_cases e : lower host = key
    · subst e; simp [h0, List.filter_cons, isResolveOf_resolve]
    · have : (lower host == key) = false := by simpa using e
      simp only [List.filter_cons, isResolveOf_resolve, this]
      simpa using h.2 key

/-! ### commands preserve `OneEach` -/

theorem execBrowse_new_one (s : State) (now : Nat) (ty : BList) (d : Nat) (co : Bool) (ch : Nat)
    (h : OneEach s.reruns) : OneEach (execBrowse s now false ty d co ch).1.reruns := by
  unfold execBrowse
  simp only [Bool.false_eq_true, ↓reduceIte]
  split
  · exact h.filter _
  · simp only [addRerun]
    exact (h.filter _).append_browse ty _ _ _ (filter_not_self _ _)

theorem execResolve_new_one (s : State) (now : Nat) (host : BList) (d ch : Nat) (t : Option Nat)
    (h : OneEach s.reruns) : OneEach (execResolve s now false host d ch t).1.reruns := by
  unfold execResolve
  simp only [Bool.false_and, Bool.false_eq_true, ↓reduceIte]
  repeat' split
  all_goals first
    | (simp only [addRerun]; exact (h.filter _).append_resolve host _ _ _ (filter_not_self _ _))
    | exact h.filter _

theorem execCommand_one (s : State) (now : Nat) (c : Command) (h : OneEach s.reruns) :
    OneEach (execCommand s now c).1.reruns := by
  cases c with
  | browse ty ch co => exact execBrowse_new_one s now ty 1 co ch h
  | stopBrowse ty =>
    simp only [execCommand, execStopBrowse]
    split
    · exact h
    · exact h.filter _
  | resolveHost host ch t => exact execResolve_new_one s now host 1 ch t h
  | stopResolve host =>
    simp only [execCommand, execStopResolve]
    split
    · exact h
    · exact h.filter _
  | ipInterval ms => exact h

theorem runCommands_one (now : Nat) : ∀ (cs : List Command) (s : State), OneEach s.reruns →
    OneEach (runCommands s now cs).1.reruns
  | [], s, h => h
  | c :: cs, s, h => by
    simp only [runCommands]
    exact runCommands_one now cs _ (execCommand_one s now c h)

end Mdns.Sched

namespace Mdns.Sched
open Mdns

/-! ### the re-run loop preserves `OneEach` -/

/-- the key a re-run belongs to: removing it leaves room for exactly one of the same key -/
def sameKey : Rerun → Rerun → Bool
  | ⟨_, .browse t _ _⟩, r => isBrowseOf t r
  | ⟨_, .resolveHost h _ _⟩, r => isResolveOf (lower h) r

theorem sameKey_self (r : Rerun) : sameKey r r = true := by
  obtain ⟨n, c⟩ := r
  cases c <;> simp [sameKey, isBrowseOf, isResolveOf]

/-- what executing a re-run on a state with an empty queue leaves in the queue -/
theorem execRerun_reruns (s : State) (hs : s.reruns = []) (now : Nat) (c : RCmd) :
    (execRerun s now c).1.reruns = [] ∨
    ∃ r', (execRerun s now c).1.reruns = [r'] ∧ ∀ n, sameKey ⟨n, c⟩ = sameKey r' := by
  cases c with
  | browse ty d ch =>
    right
    refine ⟨⟨now + d * 1000, .browse ty (nextDelay d) ch⟩, ?_, fun n => rfl⟩
    simp [execRerun, execBrowse, addRerun, hs]
  | resolveHost h d ch =>
    simp only [execRerun, execResolve]
    split
    · left; exact hs
    · simp only [Bool.true_eq_false, ↓reduceIte]
      split
      · right
        refine ⟨⟨now + d * 1000, .resolveHost h (nextDelay d) ch⟩, ?_, fun n => rfl⟩
        simp [addRerun, hs]
      · left; exact hs

theorem OneEach.remove_mid {keep rest : List Rerun} {r : Rerun} (h : OneEach (keep ++ r :: rest)) :
    OneEach (keep ++ rest) ∧ (keep ++ rest).filter (sameKey r) = [] := by
  have hsub : ∀ p : Rerun → Bool, ((keep ++ r :: rest).filter p).length =
      ((keep ++ rest).filter p).length + (if p r then 1 else 0) := by
    intro p
    simp only [List.filter_append, List.length_append, List.filter_cons]
    split <;> simp <;> omega
  refine ⟨⟨fun ty => ?_, fun key => ?_⟩, ?_⟩
  · have := h.1 ty; rw [hsub] at this; omega
  · have := h.2 key; rw [hsub] at this; omega
  · obtain ⟨n, c⟩ := r
    cases c with
    | browse t d ch =>
      have := h.1 t
      rw [hsub] at this
      simp only [isBrowseOf, beq_self_eq_true, ↓reduceIte] at this
      exact List.eq_nil_of_length_eq_zero (by show ((keep ++ rest).filter (isBrowseOf t)).length = 0; omega)
    | resolveHost hst d ch =>
      have := h.2 (lower hst)
      rw [hsub] at this
      simp only [isResolveOf, beq_self_eq_true, ↓reduceIte] at this
      exact List.eq_nil_of_length_eq_zero (by
        show ((keep ++ rest).filter (isResolveOf (lower hst))).length = 0; omega)

theorem OneEach.append_same {l : List Rerun} (h : OneEach l) (r r' : Rerun)
    (hk : sameKey r = sameKey r') (h0 : l.filter (sameKey r) = []) : OneEach (l ++ [r']) := by
  obtain ⟨n', c'⟩ := r'
  rw [hk] at h0
  cases c' with
  | browse t d ch => exact h.append_browse t n' d ch (by simpa [sameKey] using h0)
  | resolveHost hst d ch => exact h.append_resolve hst n' d ch (by simpa [sameKey] using h0)

theorem runReruns_one (now : Nat) : ∀ (fuel : Nat) (keep rest : List Rerun) (s : State),
    s.reruns = [] → OneEach (keep ++ rest) → OneEach (runReruns s now fuel keep rest).1.reruns
  | 0, keep, rest, s, hs, h => by simp [runReruns, hs, h]
  | fuel + 1, keep, [], s, hs, h => by simpa [runReruns, hs] using h
  | fuel + 1, keep, r :: rest, s, hs, h => by
    rw [runReruns]
    split
    · -- due: removed, executed, what it queued is scanned later
      have hrm := h.remove_mid
      have hex := execRerun_reruns { s with reruns := [] } rfl now r.cmd
      have hrec := fun (app : List Rerun) (ho : OneEach (keep ++ (rest ++ app))) =>
        runReruns_one now fuel keep (rest ++ app)
          { (execRerun { s with reruns := [] } now r.cmd).1 with reruns := [] } rfl ho
      rcases hex with hnil | ⟨r', hr', hk⟩
      · simp only [hnil]
        exact hrec [] (by simpa using hrm.1)
      · simp only [hr']
        refine hrec [r'] ?_
        rw [← List.append_assoc]
        exact hrm.1.append_same r r' (by obtain ⟨n, c⟩ := r; exact hk n) hrm.2
    · exact runReruns_one now fuel (keep ++ [r]) rest s hs (by simpa using h)

theorem runTimeouts_reruns (s : State) (now : Nat) : (runTimeouts s now).1.reruns = s.reruns := rfl

theorem runIpCheck_reruns (s : State) (now : Nat) : (runIpCheck s now).reruns = s.reruns := by
  unfold runIpCheck
  repeat' split
  all_goals rfl

theorem iter_one (s : State) (now : Nat) (cmds : List Command) (h : OneEach s.reruns) :
    OneEach (iter s now cmds).1.reruns := by
  unfold iter
  simp only [runIpCheck_reruns]
  apply runReruns_one now _ [] _ _ rfl
  simp only [List.nil_append]
  apply runCommands_one
  rw [runTimeouts_reruns]
  exact h

end Mdns.Sched

namespace Mdns.Sched
open Mdns

/-! ### no query for a type without a queued re-run or a new browse (C13) -/

/-- the query a browse of `ty` sends -/
def isQueryOf (ty : BList) : Out → Bool
  | .query qs => qs == [(ty, 12)]
  | _ => false

def NoBrowse (ty : BList) (l : List Rerun) : Prop := l.filter (isBrowseOf ty) = []

def isBrowseCmd (ty : BList) : Command → Bool
  | .browse t _ _ => t == ty
  | _ => false

theorem execRerun_other (s : State) (hs : s.reruns = []) (now : Nat) (c : RCmd) (ty : BList)
    (hc : ∀ n, isBrowseOf ty ⟨n, c⟩ = false) :
    (execRerun s now c).2.all (fun o => !isQueryOf ty o) = true ∧
    NoBrowse ty (execRerun s now c).1.reruns := by
  cases c with
  | browse t d ch =>
    have hne : (t == ty) = false := by simpa [isBrowseOf] using hc 0
    have hne' : ¬ t = ty := by simpa using hne
    refine ⟨?_, ?_⟩
    · simp [execRerun, execBrowse, isQueryOf, hne']
    · simp [NoBrowse, execRerun, execBrowse, addRerun, hs, isBrowseOf, hne]
  | resolveHost h d ch =>
    simp only [execRerun, execResolve]
    split
    · simp [NoBrowse, hs]
    · simp only [Bool.true_eq_false, ↓reduceIte]
      refine ⟨by simp [isQueryOf], ?_⟩
      split
      · simp [NoBrowse, addRerun, hs, isBrowseOf]
      · simp [NoBrowse, hs]

theorem NoBrowse.append {ty : BList} {a b : List Rerun} (ha : NoBrowse ty a) (hb : NoBrowse ty b) :
    NoBrowse ty (a ++ b) := by
  simp [NoBrowse, List.filter_append] at *; exact ⟨ha, hb⟩

theorem NoBrowse.of_append {ty : BList} {a b : List Rerun} (h : NoBrowse ty (a ++ b)) :
    NoBrowse ty a ∧ NoBrowse ty b := by
  simp [NoBrowse, List.filter_append] at *; exact h

theorem runReruns_no_query (now : Nat) (ty : BList) : ∀ (fuel : Nat) (keep rest : List Rerun) (s : State),
    s.reruns = [] → NoBrowse ty (keep ++ rest) →
    (runReruns s now fuel keep rest).2.all (fun o => !isQueryOf ty o) = true ∧
    NoBrowse ty (runReruns s now fuel keep rest).1.reruns
  | 0, keep, rest, s, hs, h => by simp [runReruns, hs, h]
  | fuel + 1, keep, [], s, hs, h => by simpa [runReruns, hs] using h
  | fuel + 1, keep, r :: rest, s, hs, h => by
    rw [runReruns]
    have hk := (NoBrowse.of_append h).1
    have hr : NoBrowse ty (r :: rest) := (NoBrowse.of_append h).2
    have hr0 : isBrowseOf ty r = false := by
      simp only [NoBrowse, List.filter_cons] at hr
      cases hb : isBrowseOf ty r with
      | false => rfl
      | true => simp [hb] at hr
    have hrest : NoBrowse ty rest := by
      simp only [NoBrowse, List.filter_cons, hr0] at hr
      exact hr
    split
    · have hex := execRerun_other { s with reruns := [] } rfl now r.cmd ty (fun n => by
        obtain ⟨n0, c⟩ := r
        cases c <;> simpa [isBrowseOf] using hr0)
      have hrec := runReruns_no_query now ty fuel keep
        (rest ++ (execRerun { s with reruns := [] } now r.cmd).1.reruns)
        { (execRerun { s with reruns := [] } now r.cmd).1 with reruns := [] } rfl
        (hk.append (hrest.append hex.2))
      refine ⟨?_, hrec.2⟩
      simp only [List.all_append, Bool.and_eq_true]
      exact ⟨hex.1, hrec.1⟩
    · exact runReruns_no_query now ty fuel (keep ++ [r]) rest s hs (by simpa using h)

theorem execCommand_no_query (s : State) (now : Nat) (c : Command) (ty : BList)
    (hc : isBrowseCmd ty c = false) (h : NoBrowse ty s.reruns) :
    (execCommand s now c).2.all (fun o => !isQueryOf ty o) = true ∧
    NoBrowse ty (execCommand s now c).1.reruns := by
  have hfil : ∀ p : Rerun → Bool, NoBrowse ty (s.reruns.filter p) := by
    intro p
    simp only [NoBrowse] at *
    rw [filter_filter_comm, h]; rfl
  cases c with
  | browse t ch co =>
    have hne : (t == ty) = false := by simpa [isBrowseCmd] using hc
    have hne' : ¬ t = ty := by simpa using hne
    simp only [execCommand, execBrowse, Bool.false_eq_true, ↓reduceIte]
    split
    · exact ⟨by simp [isQueryOf], hfil _⟩
    · refine ⟨by simp [isQueryOf, hne'], ?_⟩
      simp only [addRerun]
      exact (hfil _).append (by simp [NoBrowse, isBrowseOf, hne])
  | stopBrowse t =>
    simp only [execCommand, execStopBrowse]
    split
    · exact ⟨by simp, h⟩
    · exact ⟨by simp [isQueryOf], hfil _⟩
  | resolveHost host ch t =>
    simp only [execCommand, execResolve, Bool.false_and, Bool.false_eq_true, ↓reduceIte]
    refine ⟨by simp [isQueryOf], ?_⟩
    repeat' split
    all_goals first
      | (simp only [addRerun]; exact (hfil _).append (by simp [NoBrowse, isBrowseOf]))
      | exact hfil _
  | stopResolve host =>
    simp only [execCommand, execStopResolve]
    split
    · exact ⟨by simp, h⟩
    · exact ⟨by simp [isQueryOf], hfil _⟩
  | ipInterval ms => exact ⟨by simp [execCommand], h⟩

theorem runCommands_no_query (now : Nat) (ty : BList) : ∀ (cs : List Command) (s : State),
    cs.all (fun c => !isBrowseCmd ty c) = true → NoBrowse ty s.reruns →
    (runCommands s now cs).2.all (fun o => !isQueryOf ty o) = true ∧
    NoBrowse ty (runCommands s now cs).1.reruns
  | [], s, _, h => by simp [runCommands, h]
  | c :: cs, s, hc, h => by
    simp only [List.all_cons, Bool.and_eq_true, Bool.not_eq_eq_eq_not, Bool.not_true] at hc
    have h1 := execCommand_no_query s now c ty hc.1 h
    have h2 := runCommands_no_query now ty cs (execCommand s now c).1 (by simpa using hc.2) h1.2
    simp only [runCommands, List.all_append, Bool.and_eq_true]
    exact ⟨⟨h1.1, h2.1⟩, h2.2⟩

/-- an iteration without a new `browse ty` on a state with nothing queued for `ty` sends no
    query for `ty` and leaves nothing queued for it -/
theorem iter_no_query (s : State) (now : Nat) (cmds : List Command) (ty : BList)
    (hc : cmds.all (fun c => !isBrowseCmd ty c) = true) (h : NoBrowse ty s.reruns) :
    (iter s now cmds).2.all (fun o => !isQueryOf ty o) = true ∧ NoBrowse ty (iter s now cmds).1.reruns := by
  unfold iter
  simp only [runIpCheck_reruns]
  have h1 := runCommands_no_query now ty cmds (runTimeouts { s with timers := s.timers.filter (· > now) } now).1
    hc (by rw [runTimeouts_reruns]; exact h)
  have h2 := runReruns_no_query now ty
    ((runCommands (runTimeouts { s with timers := s.timers.filter (· > now) } now).1 now cmds).1.reruns.length * 2 + 2) []
    (runCommands (runTimeouts { s with timers := s.timers.filter (· > now) } now).1 now cmds).1.reruns
    { (runCommands (runTimeouts { s with timers := s.timers.filter (· > now) } now).1 now cmds).1 with reruns := [] } rfl
    (by simpa using h1.2)
  refine ⟨?_, h2.2⟩
  simp only [List.all_append, Bool.and_eq_true]
  refine ⟨⟨?_, h1.1⟩, h2.1⟩
  simp [runTimeouts, isQueryOf]

end Mdns.Sched
