import Mdns.Lemmas.ClientStop
/-
  C13 on the client model: a running browse / an open hostname search stays in the state until a
  command for its name (or its time-out) ends or replaces it.
-/
namespace Mdns.Client
open Mdns Mdns.Rec Mdns.Cache

/-- the first element satisfying `q` is still the first after filtering with a predicate it
    satisfies -/
theorem find_filter_first {α} (p q : α → Bool) (x : α) (hx : p x = true) :
    ∀ l : List α, l.find? q = some x → (l.filter p).find? q = some x
  | [], h => by cases h
  | a :: l, h => by
    simp only [List.find?_cons] at h
    simp only [List.filter_cons]
    cases hq : q a with
    | true =>
      simp only [hq] at h
      cases h
      simp [hx, hq]
    | false =>
      simp only [hq] at h
      by_cases hp : p a = true
      · simp only [hp, if_true, List.find?_cons, hq]
        exact find_filter_first p q x hx l h
      · simp only [hp, Bool.false_eq_true, if_false]
        exact find_filter_first p q x hx l h

/-- the browse of `ty` is running on `ch` -/
def Running (ty : BList) (ch : Nat) (s : State) : Prop := s.queriers.find? (·.1 == ty) = some (ty, ch)

/-- the hostname search for `key` is open on `ch` with deadline `dl` -/
def Searching (key : BList) (ch : Nat) (dl : Option Nat) (s : State) : Prop :=
  s.resolvers.find? (·.1 == key) = some (key, ch, dl)

/-- a command that neither browses nor stops `ty` -/
def touchesType (ty : BList) : Command → Bool
  | .browse t _ _ => t == ty
  | .stopBrowse t => t == ty
  | _ => false

/-- a command that neither searches nor stops the host name `key` (a lower-cased name) -/
def touchesHost (key : BList) : Command → Bool
  | .resolveHost h _ _ => lower h == key
  | .stopResolve h => lower h == key
  | _ => false

theorem execCommand_queriers_other (s : State) (now : Nat) (c : Command) (h : ∀ ty ch co, c ≠ .browse ty ch co)
    (h2 : ∀ ty, c ≠ .stopBrowse ty) : (execCommand s now c).1.queriers = s.queriers := by
  cases c with
  | browse ty ch co => exact absurd rfl (h ty ch co)
  | stopBrowse ty => exact absurd rfl (h2 ty)
  | resolveHost h0 ch t =>
    simp only [execCommand, execResolveHost, Bool.false_and, Bool.false_eq_true, if_false]
    cases t <;> simp only [Option.map_none, Option.map_some] <;> split <;> rfl
  | stopResolve h0 =>
    simp only [execCommand, execStopResolve]
    split <;> rfl
  | ipInterval ms => rfl
  | verify inst t =>
    simp only [execCommand, execVerify, Bool.false_eq_true, if_false]
    split <;> rfl
  | metrics ch => rfl
  | acceptUnsolicited on => rfl

theorem running_execCommand (ty : BList) (ch : Nat) (s : State) (now : Nat) (c : Command) (hc : touchesType ty c = false)
    (h : Running ty ch s) : Running ty ch (execCommand s now c).1 := by
  unfold Running at *
  cases c with
  | browse ty' ch' co =>
    have hne : (ty' == ty) = false := by simpa [touchesType] using hc
    have hq : (execCommand s now (.browse ty' ch' co)).1.queriers = (ty', ch') :: s.queriers.filter (fun q => q.1 != ty') := by
      simp only [execCommand, execBrowse, Bool.false_eq_true, if_false]
      split <;> simp only [addRerun_queriers, queryCacheForService, addPendings_queriers, markResolved_queriers]
    rw [hq]
    simp only [List.find?_cons, hne]
    apply find_filter_first _ _ _ ?_ s.queriers h
    have h2 : ¬ ty' = ty := by simpa using hne
    simp only [bne_iff_ne, ne_eq]
    exact fun e => h2 e.symm
  | stopBrowse ty' =>
    have hne : (ty' == ty) = false := by simpa [touchesType] using hc
    simp only [execCommand, execStopBrowse]
    split
    · exact h
    · simp only []
      apply find_filter_first _ _ _ ?_ s.queriers h
      have h2 : ¬ ty' = ty := by simpa using hne
      simp only [bne_iff_ne, ne_eq]
      exact fun e => h2 e.symm
  | resolveHost h0 ch' t =>
    rw [execCommand_queriers_other s now _ (fun _ _ _ e => by cases e) (fun _ e => by cases e)]
    exact h
  | stopResolve h0 =>
    rw [execCommand_queriers_other s now _ (fun _ _ _ e => by cases e) (fun _ e => by cases e)]
    exact h
  | ipInterval ms => exact h
  | verify inst t =>
    rw [execCommand_queriers_other s now _ (fun _ _ _ e => by cases e) (fun _ e => by cases e)]
    exact h
  | metrics ch' => exact h
  | acceptUnsolicited on => exact h

theorem running_runCommands (ty : BList) (ch : Nat) (now : Nat) : ∀ (l : List Command) (s : State),
    l.all (fun c => !touchesType ty c) = true → Running ty ch s → Running ty ch (runCommands s now l).1
  | [], _, _, h => h
  | c :: rest, s, hc, h => by
    simp only [List.all_cons, Bool.and_eq_true, Bool.not_eq_true'] at hc
    simp only [runCommands]
    exact running_runCommands ty ch now rest _ hc.2 (running_execCommand ty ch s now c hc.1 h)

/-- after the commands nothing touches the browses -/
theorem tail_queriers (x : State) (now : Nat) (post : List Command) :
    (runIpCheck (tailState x now post) now).queriers = (runCommands x now post).1.queriers := by
  rw [(runIpCheck_searches _ now).1]
  unfold tailState evictAddrPhase
  rw [evictAddrHosts_queriers]
  show (rerunPhase (runCommands x now post).1 now).1.queriers = _
  exact runReruns_queriers now _ _ _ _

theorem tail_resolvers (x : State) (now : Nat) (post : List Command) :
    (runIpCheck (tailState x now post) now).resolvers = (runCommands x now post).1.resolvers := by
  rw [(runIpCheck_searches _ now).2.1]
  unfold tailState evictAddrPhase
  rw [evictAddrHosts_resolvers]
  show (rerunPhase (runCommands x now post).1 now).1.resolvers = _
  exact runReruns_resolvers now _ _ _ _

theorem preCommands_queriers (s : State) (now : Nat) (pkts : List Packet) : (preCommands s now pkts).queriers = s.queriers := by
  show (ingress s now pkts).1.queriers = _
  exact ingress_queriers now pkts s

theorem running_tail (ty : BList) (ch : Nat) (x : State) (now : Nat) (post : List Command)
    (hc : post.all (fun c => !touchesType ty c) = true) (h : Running ty ch x) :
    Running ty ch (runIpCheck (tailState x now post) now) := by
  unfold Running
  rw [tail_queriers]
  exact running_runCommands ty ch now post x hc h

theorem running_iter (ty : BList) (ch : Nat) (s : State) (now : Nat) (pkts : List Packet) (cmds : List Command)
    (hc : cmds.all (fun c => !touchesType ty c) = true) (h : Running ty ch s) : Running ty ch (Client.iter s now pkts cmds).1 := by
  rw [(iter_tail s now pkts cmds).1]
  apply running_tail ty ch _ now cmds hc
  unfold Running
  rw [preCommands_queriers]
  exact h

/-! the same for an open hostname search -/

theorem execCommand_resolvers_other (s : State) (now : Nat) (c : Command) (h : ∀ h0 ch t, c ≠ .resolveHost h0 ch t)
    (h2 : ∀ h0, c ≠ .stopResolve h0) : (execCommand s now c).1.resolvers = s.resolvers := by
  cases c with
  | browse ty ch co => exact execBrowse_resolvers s now false ty 1 co ch
  | stopBrowse ty =>
    simp only [execCommand, execStopBrowse]
    split <;> rfl
  | resolveHost h0 ch t => exact absurd rfl (h h0 ch t)
  | stopResolve h0 => exact absurd rfl (h2 h0)
  | ipInterval ms => rfl
  | verify inst t => exact execVerify_resolvers s now false inst t
  | metrics ch => rfl
  | acceptUnsolicited on => rfl

theorem searching_execCommand (key : BList) (ch : Nat) (dl : Option Nat) (s : State) (now : Nat) (c : Command)
    (hc : touchesHost key c = false) (h : Searching key ch dl s) : Searching key ch dl (execCommand s now c).1 := by
  unfold Searching at *
  cases c with
  | resolveHost h0 ch' t =>
    have hne : (lower h0 == key) = false := by simpa [touchesHost] using hc
    show (execResolveHost s now false h0 1 ch' t).1.resolvers.find? _ = _
    rw [execResolveHost_new_resolvers]
    simp only [List.find?_cons, hne]
    apply find_filter_first _ _ _ ?_ s.resolvers h
    have h2 : ¬ lower h0 = key := by simpa using hne
    simp only [bne_iff_ne, ne_eq]
    exact fun e => h2 e.symm
  | stopResolve h0 =>
    have hne : (lower h0 == key) = false := by simpa [touchesHost] using hc
    simp only [execCommand, execStopResolve]
    split
    · exact h
    · simp only []
      apply find_filter_first _ _ _ ?_ s.resolvers h
      have h2 : ¬ lower h0 = key := by simpa using hne
      simp only [bne_iff_ne, ne_eq]
      exact fun e => h2 e.symm
  | browse ty ch' co =>
    rw [execCommand_resolvers_other s now _ (fun _ _ _ e => by cases e) (fun _ e => by cases e)]
    exact h
  | stopBrowse ty =>
    rw [execCommand_resolvers_other s now _ (fun _ _ _ e => by cases e) (fun _ e => by cases e)]
    exact h
  | ipInterval ms => exact h
  | verify inst t =>
    rw [execCommand_resolvers_other s now _ (fun _ _ _ e => by cases e) (fun _ e => by cases e)]
    exact h
  | metrics ch' => exact h
  | acceptUnsolicited on => exact h

theorem searching_runCommands (key : BList) (ch : Nat) (dl : Option Nat) (now : Nat) : ∀ (l : List Command) (s : State),
    l.all (fun c => !touchesHost key c) = true → Searching key ch dl s → Searching key ch dl (runCommands s now l).1
  | [], _, _, h => h
  | c :: rest, s, hc, h => by
    simp only [List.all_cons, Bool.and_eq_true, Bool.not_eq_true'] at hc
    simp only [runCommands]
    exact searching_runCommands key ch dl now rest _ hc.2 (searching_execCommand key ch dl s now c hc.1 h)

/-- the search survives the time-out phase while its deadline has not been reached -/
theorem searching_preCommands (key : BList) (ch : Nat) (dl : Option Nat) (s : State) (now : Nat) (pkts : List Packet)
    (hdl : ∀ t, dl = some t → now < t) (h : Searching key ch dl s) : Searching key ch dl (preCommands s now pkts) := by
  unfold Searching at *
  simp only [preCommands, runTimeouts, popTimers, ingress_resolvers]
  apply find_filter_first _ _ _ ?_ s.resolvers h
  cases dl with
  | none => rfl
  | some t =>
    have := hdl t rfl
    simp only [Bool.not_eq_true', decide_eq_false_iff_not]
    omega

theorem searching_tail (key : BList) (ch : Nat) (dl : Option Nat) (x : State) (now : Nat) (post : List Command)
    (hc : post.all (fun c => !touchesHost key c) = true) (h : Searching key ch dl x) :
    Searching key ch dl (runIpCheck (tailState x now post) now) := by
  unfold Searching
  rw [tail_resolvers]
  exact searching_runCommands key ch dl now post x hc h

theorem searching_iter (key : BList) (ch : Nat) (dl : Option Nat) (s : State) (now : Nat) (pkts : List Packet)
    (cmds : List Command) (hc : cmds.all (fun c => !touchesHost key c) = true) (hdl : ∀ t, dl = some t → now < t)
    (h : Searching key ch dl s) : Searching key ch dl (Client.iter s now pkts cmds).1 := by
  rw [(iter_tail s now pkts cmds).1]
  exact searching_tail key ch dl _ now cmds hc (searching_preCommands key ch dl s now pkts hdl h)

end Mdns.Client
