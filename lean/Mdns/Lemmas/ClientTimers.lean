import Mdns.Lemmas.ClientWf
/-
  C12 on the client model, cache part: every cached entry's expiry instant and refresh mark
  has a timer (`CacheTimed`), through every phase of an iteration.
-/
namespace Mdns.Client
open Mdns Mdns.Rec Mdns.Cache

/-- The timers `ts` cover the time-driven work of the entry `e` that lies after `T`: its expiry
    instant is a timer; its refresh mark is a timer if it comes before the expiry (a mark at
    or after the expiry asks for nothing: `refresh_maybe` answers only before the expiry); and
    the expiry is never later than creation time + TTL. -/
def EntryTimed (ts : List Nat) (T : Nat) (e : Entry) : Prop :=
  (T < e.record.expires → e.record.expires ∈ ts) ∧
  (T < e.record.refresh → e.record.refresh < e.record.expires → e.record.refresh ∈ ts) ∧
  e.record.expires ≤ expTime e.record.created e.record.ttl 100

def CacheTimed (ts : List Nat) (T : Nat) (c : Cache) : Prop := CacheAll (EntryTimed ts T) c

theorem EntryTimed.mono {ts ts' : List Nat} {T T' : Nat} {e : Entry} (h : EntryTimed ts T e)
    (hs : ∀ t ∈ ts, T' < t → t ∈ ts') (hT : T ≤ T') : EntryTimed ts' T' e :=
  ⟨fun h1 => hs _ (h.1 (by omega)) h1, fun h1 h2 => hs _ (h.2.1 (by omega) h2) h1, h.2.2⟩

theorem CacheTimed.mono {ts ts' : List Nat} {T T' : Nat} {c : Cache} (h : CacheTimed ts T c)
    (hs : ∀ t ∈ ts, T' < t → t ∈ ts') (hT : T ≤ T') : CacheTimed ts' T' c :=
  CacheAll.mono (fun _ he => he.mono hs hT) h

theorem CacheTimed.sup {ts ts' : List Nat} {T : Nat} {c : Cache} (h : CacheTimed ts T c)
    (hs : ∀ t ∈ ts, t ∈ ts') : CacheTimed ts' T c :=
  h.mono (fun t ht _ => hs t ht) (Nat.le_refl T)

/-! ### `add_or_update` -/

theorem mem_upsert_result (srcName : BList) (srcIdx : Nat) (inc : Record) (es : List Entry) (e : Entry)
    (h : e ∈ upsert srcName srcIdx inc es) : e ∈ es ∨ (upsert srcName srcIdx inc es)[upsertIdx inc es]? = some e := by
  unfold upsert upsertIdx at *
  split at h
  · rename_i hm
    simp only [hm, if_true]
    obtain ⟨pre, e0, post, h1, _, _, h4, h5⟩ := resetFirst_spec inc es hm
    rw [h4] at h ⊢
    rw [h5]
    simp only [List.mem_append, List.mem_cons] at h
    rcases h with h | rfl | h
    · left; rw [h1]; simp [h]
    · right; simp
    · left; rw [h1]; simp [h]
  · rename_i hm
    simp only [hm]
    rcases List.mem_cons.mp h with rfl | h
    · right; simp
    · exact Or.inl h

/-- the entries of the cache after `add_or_update`: old entries of the same table, or members
    of the new list of the incoming record's name - and then the record was not declined -/
theorem addOrUpdate_entries (c : Cache) (srcName : BList) (srcIdx : Nat) (inc : Record) (now : Nat) (forUs : Bool)
    (sl' : Slot) (p : BList × List Entry) (hp : p ∈ (addOrUpdate c srcName srcIdx inc now forUs).cache.table sl')
    (e : Entry) (he : e ∈ p.2) :
    (∃ p0 ∈ c.table sl', e ∈ p0.2) ∨
    (slotOf inc.ty = some sl' ∧
      e ∈ upsert srcName srcIdx inc (flushList inc now (((c.table sl').get (keyOf sl' inc.name)).getD [])) ∧
      (addOrUpdate c srcName srcIdx inc now forUs).timers =
        flushTimers inc now (((c.table sl').get (keyOf sl' inc.name)).getD []) ∧
      (addOrUpdate c srcName srcIdx inc now forUs).result =
        ((upsert srcName srcIdx inc (flushList inc now (((c.table sl').get (keyOf sl' inc.name)).getD [])))[upsertIdx inc
          (flushList inc now (((c.table sl').get (keyOf sl' inc.name)).getD []))]?).map fun x =>
            (x, !hasMatch inc (flushList inc now (((c.table sl').get (keyOf sl' inc.name)).getD [])) ||
              (((flushList inc now (((c.table sl').get (keyOf sl' inc.name)).getD []))[upsertIdx inc
                (flushList inc now (((c.table sl').get (keyOf sl' inc.name)).getD []))]?).map fun old =>
                  decide (old.record.ttl ≤ 1 ∧ inc.ttl > 1)).getD false)) := by
  have ht : ∀ sl, (noteSubtype c inc forUs).table sl = c.table sl := table_noteSubtype c inc forUs
  unfold addOrUpdate at hp ⊢
  split at hp
  · rw [ht] at hp
    exact Or.inl ⟨p, hp, he⟩
  · rename_i sl hs
    simp only [hs]
    simp only [] at hp
    split at hp
    · rename_i hdec
      rw [table_setTable] at hp
      split at hp
      · rename_i hss
        subst hss
        rcases mem_set _ _ _ _ hp with rfl | hp
        · obtain ⟨q, hq, _, hqe⟩ := mem_getD _ _ e he
          rw [ht] at hq
          exact Or.inl ⟨q, hq, hqe⟩
        · rw [ht] at hp
          exact Or.inl ⟨p, hp, he⟩
      · rw [ht] at hp
        exact Or.inl ⟨p, hp, he⟩
    · rename_i hdec
      rw [table_setTable] at hp
      split at hp
      · rename_i hss
        subst hss
        rcases mem_set _ _ _ _ hp with rfl | hp
        · right
          simp only [hdec, Bool.false_eq_true, if_false] at he ⊢
          simp only [ht] at he ⊢
          first
            | exact ⟨trivial, he, rfl, rfl⟩
            | exact ⟨trivial, he, trivial, trivial⟩
            | exact ⟨he, rfl, rfl⟩
            | exact he
        · rw [ht] at hp
          exact Or.inl ⟨p, hp, he⟩
      · rw [ht] at hp
        exact Or.inl ⟨p, hp, he⟩

theorem ingestOne_timers_sup (q : List (BList × Nat)) (ifName : BList) (ifIdx now : Nat) (forUs : Bool) (acc : Ingest)
    (r : Wire.Rec) :
    (∀ t ∈ acc.timers, t ∈ (ingestOne q ifName ifIdx now forUs acc r).timers) ∧
    (∀ t ∈ (addOrUpdate acc.cache ifName ifIdx (ofWire ifName ifIdx now r) now forUs).timers,
      t ∈ (ingestOne q ifName ifIdx now forUs acc r).timers) := by
  unfold ingestOne
  simp only []
  repeat' split
  all_goals (constructor <;> (intro t ht; simp [ht]))

/-- `ingestOne` arms the expiry instant and the refresh mark of the entry `add_or_update`
    returns -/
theorem ingestOne_arms_result (q : List (BList × Nat)) (ifName : BList) (ifIdx now : Nat) (forUs : Bool) (acc : Ingest)
    (r : Wire.Rec) (e : Entry) (b : Bool)
    (h : (addOrUpdate acc.cache ifName ifIdx (ofWire ifName ifIdx now r) now forUs).result = some (e, b)) :
    e.record.expires ∈ (ingestOne q ifName ifIdx now forUs acc r).timers ∧
    e.record.refresh ∈ (ingestOne q ifName ifIdx now forUs acc r).timers := by
  unfold ingestOne
  simp only [h]
  cases b
  · simp
  · simp only []
    repeat' split
    all_goals simp

theorem timed_ingestOne (ts0 : List Nat) (T : Nat) (q : List (BList × Nat)) (ifName : BList) (ifIdx now : Nat)
    (forUs : Bool) (acc : Ingest) (r : Wire.Rec) (h : CacheTimed (acc.timers ++ ts0) T acc.cache) :
    CacheTimed ((ingestOne q ifName ifIdx now forUs acc r).timers ++ ts0) T
      (ingestOne q ifName ifIdx now forUs acc r).cache := by
  have hsup := ingestOne_timers_sup q ifName ifIdx now forUs acc r
  have hmono : ∀ e, EntryTimed (acc.timers ++ ts0) T e →
      EntryTimed ((ingestOne q ifName ifIdx now forUs acc r).timers ++ ts0) T e := by
    intro e he
    refine he.mono (fun t ht _ => ?_) (Nat.le_refl T)
    rcases List.mem_append.mp ht with ht | ht
    · exact List.mem_append_left _ (hsup.1 t ht)
    · exact List.mem_append_right _ ht
  rw [ingestOne_cache]
  intro sl' p hp e he
  rcases addOrUpdate_entries acc.cache ifName ifIdx (ofWire ifName ifIdx now r) now forUs sl' p hp e he with
    ⟨p0, hp0, he0⟩ | ⟨hs, hmem, htim, hres⟩
  · exact hmono e (h sl' p0 hp0 e he0)
  · rcases mem_upsert_result _ _ _ _ e hmem with hfl | hidx
    · -- an old entry of the name, possibly flushed
      unfold flushList at hfl
      split at hfl
      · rename_i hflush
        obtain ⟨e0, he0, rfl⟩ := List.mem_map.mp hfl
        obtain ⟨q0, hq0, _, hqe0⟩ := mem_getD _ _ e0 he0
        have hold := h sl' q0 hq0 e0 hqe0
        unfold flushOne
        split
        · rename_i hsf
          have hcond := (shouldFlush_iff _ _ _).mp hsf
          have htimer : now + 1000 ∈ (ingestOne q ifName ifIdx now forUs acc r).timers ++ ts0 := by
            apply List.mem_append_left
            apply hsup.2
            rw [htim]
            unfold flushTimers
            simp only [hflush, if_true, List.mem_map, List.mem_filter]
            refine ⟨e0, ⟨he0, hsf⟩, ?_⟩
            first | rfl | trivial
          have hm := hmono e0 hold
          refine ⟨fun _ => htimer, ?_, ?_⟩
          · intro h1 h2
            simp only [Record.setExpire] at h1 h2 ⊢
            exact hm.2.1 h1 (by have := hcond.2.2.2.1; omega)
          · simp only [Record.setExpire]
            have := hcond.2.2.2.1
            have := hold.2.2
            omega
        · exact hmono e0 hold
      · obtain ⟨q0, hq0, _, hqe0⟩ := mem_getD _ _ e hfl
        exact hmono e (h sl' q0 hq0 e hqe0)
    · -- the entry `add_or_update` returns
      rw [hidx] at hres
      simp only [Option.map_some] at hres
      obtain ⟨h1, h2, h3, h4⟩ := addOrUpdate_result_times _ _ _ _ _ _ e _ hres
      obtain ⟨ha, hb⟩ := ingestOne_arms_result q ifName ifIdx now forUs acc r e _ hres
      refine ⟨fun _ => List.mem_append_left _ ha, fun _ _ => List.mem_append_left _ hb, ?_⟩
      rw [h3, h1, h2]
      exact Nat.le_refl _

theorem timed_ingestAll (ts0 : List Nat) (T : Nat) (q : List (BList × Nat)) (ifName : BList) (ifIdx now : Nat)
    (forUs : Bool) : ∀ (rs : List Wire.Rec) (acc : Ingest), CacheTimed (acc.timers ++ ts0) T acc.cache →
      CacheTimed ((ingestAll q ifName ifIdx now forUs acc rs).timers ++ ts0) T
        (ingestAll q ifName ifIdx now forUs acc rs).cache
  | [], _, h => h
  | r :: rest, acc, h => by
    simp only [ingestAll]
    exact timed_ingestAll ts0 T q ifName ifIdx now forUs rest _ (timed_ingestOne ts0 T q ifName ifIdx now forUs acc r h)

theorem resolveUpdated_timers_sup (s : State) (now : Nat) (u : List BList) :
    ∀ t ∈ s.timers, t ∈ (resolveUpdated s now u).1.timers :=
  (step_resolveUpdated (now := now) (cmds := []) (KeyOK := fun _ => True) (OK := fun _ => True) s u trivial
    trivial).timers_mono

theorem timed_handleResponse (T : Nat) (s : State) (now : Nat) (intf : Intf) (m : Wire.Msg)
    (h : CacheTimed s.timers T s.cache) :
    CacheTimed (handleResponse s now intf m).1.timers T (handleResponse s now intf m).1.cache := by
  rw [handleResponse_cache]
  have h1 := timed_ingestAll s.timers T s.queriers intf.name intf.idx now (isForUs s m.answers)
    (m.answers ++ m.authorities ++ m.additionals) { cache := s.cache, timers := [], changes := [], outs := [] } h
  refine h1.sup ?_
  intro t ht
  unfold handleResponse
  simp only []
  exact resolveUpdated_timers_sup _ now _ t ht

theorem timed_handleRead (T : Nat) (s : State) (now : Nat) (p : Packet) (h : CacheTimed s.timers T s.cache) :
    CacheTimed (handleRead s now p).1.timers T (handleRead s now p).1.cache := by
  unfold handleRead
  repeat' split
  all_goals first
    | exact h
    | exact timed_handleResponse T s now _ _ h

theorem timed_ingress (T now : Nat) : ∀ (pkts : List Packet) (s : State), CacheTimed s.timers T s.cache →
    CacheTimed (ingress s now pkts).1.timers T (ingress s now pkts).1.cache
  | [], _, h => h
  | p :: rest, s, h => by
    simp only [ingress]
    exact timed_ingress T now rest _ (timed_handleRead T s now p h)

/-! ### commands -/

theorem serviceVerifyQueries_nil (c : Cache) (inst : BList) (at_ : Option Nat)
    (h : (serviceVerifyQueries c inst at_).2 = []) : (serviceVerifyQueries c inst at_).1 = c := by
  cases hg : c.srv.get inst with
  | none => simp only [serviceVerifyQueries, hg]
  | some srvs =>
    cases at_ <;> simp [serviceVerifyQueries, hg] at h

theorem timed_sooner (ts : List Nat) (T t : Nat) (ht : t ∈ ts) (e : Entry) (h : EntryTimed ts T e) :
    EntryTimed ts T (soonerEntry t e) := by
  unfold soonerEntry Record.setExpireSooner
  split
  · rename_i hlt
    refine ⟨fun _ => ht, ?_, ?_⟩
    · intro h1 h2
      simp only [Record.setExpire] at h1 h2 ⊢
      exact h.2.1 h1 (by omega)
    · simp only [Record.setExpire]
      have := h.2.2
      omega
  · exact h

theorem runCommands_timers_sup (s : State) (now : Nat) (cmds : List Command) :
    ∀ t ∈ s.timers, t ∈ (runCommands s now cmds).1.timers :=
  (step_runCommands (now := now) (cmds := cmds) (KeyOK := fun _ => True) (OK := fun _ => True) trivial cmds s
    (fun _ h => h) (fun _ _ _ _ => trivial) (fun _ _ => trivial)).timers_mono

theorem execCommand_timers_sup (s : State) (now : Nat) (c : Command) :
    ∀ t ∈ s.timers, t ∈ (execCommand s now c).1.timers := by
  have := runCommands_timers_sup s now [c]
  simpa [runCommands] using this

theorem timed_execCommand (T : Nat) (s : State) (now : Nat) (c : Command) (h : CacheTimed s.timers T s.cache) :
    CacheTimed (execCommand s now c).1.timers T (execCommand s now c).1.cache := by
  have hsup := execCommand_timers_sup s now c
  cases c with
  | browse ty ch co =>
    have : (execCommand s now (.browse ty ch co)).1.cache = s.cache := execBrowse_cache s now false ty 1 co ch
    rw [this]
    exact h.sup hsup
  | stopBrowse ty =>
    simp only [execCommand, execStopBrowse]
    split
    · exact h
    · exact cacheAll_removeServiceType h ty
  | resolveHost h0 ch t =>
    have : (execCommand s now (.resolveHost h0 ch t)).1.cache = s.cache := execResolveHost_cache s now false h0 1 ch t
    rw [this]
    exact h.sup hsup
  | stopResolve h0 =>
    simp only [execCommand, execStopResolve]
    split <;> exact h
  | ipInterval ms => exact h
  | verify inst t =>
    simp only [execCommand, execVerify, Bool.false_eq_true, if_false]
    split
    · rename_i hnil
      have hnil' : (serviceVerifyQueries s.cache inst (some (now + t))).2 = [] := by simpa using hnil
      simp only [serviceVerifyQueries_nil s.cache inst _ hnil']
      exact h
    · simp only [addRerun_cache, addTimers_cache]
      have h1 : CacheTimed ((now + 1000) :: ([now + t] ++ s.timers)) T s.cache :=
        h.sup fun x hx => by simp [hx]
      exact cacheAll_serviceVerifyQueries h1 inst (some (now + t)) (fun t' e ht' he => by
        cases ht'
        exact timed_sooner _ T _ (by simp) e he)
  | metrics ch => exact h
  | acceptUnsolicited on => exact h

theorem timed_runCommands (T now : Nat) : ∀ (cmds : List Command) (s : State), CacheTimed s.timers T s.cache →
    CacheTimed (runCommands s now cmds).1.timers T (runCommands s now cmds).1.cache
  | [], _, h => h
  | c :: rest, s, h => by
    simp only [runCommands]
    exact timed_runCommands T now rest _ (timed_execCommand T s now c h)

/-! ### re-runs: the cache is untouched, timers only grow -/

theorem execRerun_timers_sup (s : State) (now : Nat) (c : RCmd) : ∀ t ∈ s.timers, t ∈ (execRerun s now c).1.timers := by
  intro t ht
  cases c with
  | browse ty d ch => simp [execRerun, execBrowse, addRerun, ht]
  | resolveHost h d ch =>
    simp only [execRerun, execResolveHost]
    split
    · exact ht
    · simp only [if_true]
      split
      · simp [addRerun, ht]
      · exact ht
  | resolve inst k =>
    simp only [execRerun, execResolveInst]
    split
    · exact ht
    · simp only []
      split
      · simp [addRerun, ht]
      · exact ht
  | verify inst to =>
    simp only [execRerun, execVerify, if_true]
    split <;> exact ht

theorem runReruns_timers_sup (now : Nat) : ∀ (fuel : Nat) (keep rest : List Rerun) (s : State),
    ∀ t ∈ s.timers, t ∈ (runReruns s now fuel keep rest).1.timers
  | 0, _, _, _ => fun _ h => h
  | _ + 1, _, [], _ => fun _ h => h
  | fuel + 1, keep, r :: rest, s => by
    intro t ht
    unfold runReruns
    split
    · exact runReruns_timers_sup now fuel _ _ _ t (execRerun_timers_sup _ now r.cmd t ht)
    · exact runReruns_timers_sup now fuel _ _ s t ht

theorem timed_rerunPhase (T : Nat) (s : State) (now : Nat) (h : CacheTimed s.timers T s.cache) :
    CacheTimed (rerunPhase s now).1.timers T (rerunPhase s now).1.cache := by
  rw [rerunPhase_cache]
  exact h.sup fun t ht => runReruns_timers_sup now _ _ _ { s with reruns := [] } t ht

/-! ### refresh -/

theorem timed_refreshEntries (ts : List Nat) (T now : Nat) (es : List Entry) (h : ∀ e ∈ es, EntryTimed ts T e) :
    ∀ e' ∈ (refreshEntries now es).1, EntryTimed ((refreshEntries now es).2 ++ ts) T e' := by
  intro e' he'
  simp only [refreshEntries, List.mem_map] at he'
  obtain ⟨e, he, rfl⟩ := he'
  have hm : EntryTimed ((refreshEntries now es).2 ++ ts) T e :=
    (h e he).mono (fun t ht _ => List.mem_append_right _ ht) (Nat.le_refl T)
  by_cases hf : e.record.refreshFires now = true
  · have hin : (e.record.refreshed now).refresh ∈ (refreshEntries now es).2 := by
      simp only [refreshEntries, List.mem_filterMap]
      exact ⟨e, he, by simp [hf]⟩
    have hexp : (e.record.refreshed now).expires = e.record.expires := by simp [Record.refreshed, hf]
    have hcr : (e.record.refreshed now).created = e.record.created := by simp [Record.refreshed, hf]
    have httl : (e.record.refreshed now).ttl = e.record.ttl := by simp [Record.refreshed, hf]
    refine ⟨?_, fun _ _ => List.mem_append_left _ hin, ?_⟩
    · intro h1
      simp only [hexp] at h1 ⊢
      exact hm.1 h1
    · simp only [hexp, hcr, httl]
      exact hm.2.2
  · have : e.record.refreshed now = e.record := by simp [Record.refreshed, hf]
    simp only [this]
    exact hm

/-- a `modify` of the list of one name, on a table with distinct names -/
theorem tableTimed_modify (ts ts' : List Nat) (T : Nat) (t : Table) (k : BList) (f : List Entry → List Entry)
    (hn : t.keys.Nodup) (h : TableAll (EntryTimed ts T) t) (hs : ∀ x ∈ ts, x ∈ ts')
    (hf : ∀ e' ∈ f ((t.get k).getD []), EntryTimed ts' T e') : TableAll (EntryTimed ts' T) (t.modify k f) := by
  intro p' hp' e' he'
  simp only [Table.modify, List.mem_map] at hp'
  obtain ⟨p, hp, rfl⟩ := hp'
  split at he'
  · rename_i hk
    have hk' : p.1 = k := by simpa using hk
    have hg := mem_of_keysNodup hn hp
    rw [hk'] at hg
    apply hf
    rw [hg]
    exact he'
  · exact (h p hp e' he').mono (fun x hx _ => hs x hx) (Nat.le_refl T)

theorem timed_refreshDuePtr (ts : List Nat) (T now : Nat) (c : Cache) (ty : BList) (hn : KeysNodup c)
    (h : CacheTimed ts T c) : CacheTimed ((refreshDuePtr c ty now).2 ++ ts) T (refreshDuePtr c ty now).1 := by
  unfold refreshDuePtr
  split
  · simpa using h
  · rename_i es hes
    simp only []
    unfold CacheTimed at h ⊢
    rw [cacheAll_iff] at h ⊢
    have hsup : ∀ x ∈ ts, x ∈ (refreshEntries now es).2 ++ ts := fun x hx => List.mem_append_right _ hx
    have lift : ∀ tb : Table, TableAll (EntryTimed ts T) tb → TableAll (EntryTimed ((refreshEntries now es).2 ++ ts) T) tb :=
      fun tb htb p hp e he => (htb p hp e he).mono (fun x hx _ => hsup x hx) (Nat.le_refl T)
    refine ⟨?_, lift _ h.2.1, lift _ h.2.2.1, lift _ h.2.2.2.1, lift _ h.2.2.2.2⟩
    apply tableTimed_modify ts _ T c.ptr ty _ (hn .ptr) h.1 hsup
    have hg : (c.ptr.get ty).getD [] = es := by rw [hes]; rfl
    rw [hg]
    exact timed_refreshEntries ts T now es (fun e he => h.1 (ty, es) (mem_of_get _ _ _ hes) e he)

theorem timed_refreshSrvTxtGo (ts : List Nat) (T now : Nat) : ∀ (l : List BList) (s : SrvTxtDue), KeysNodup s.cache →
    CacheTimed (s.timers ++ ts) T s.cache →
    CacheTimed ((refreshSrvTxtGo now l s).timers ++ ts) T (refreshSrvTxtGo now l s).cache
  | [], _, _, h => h
  | inst :: rest, s, hn, h => by
    unfold refreshSrvTxtGo
    simp only []
    apply timed_refreshSrvTxtGo ts T now rest
    · rw [keysNodup_iff] at hn ⊢
      simp only [keys_modify]
      exact hn
    · unfold CacheTimed at h ⊢
      rw [cacheAll_iff] at h ⊢
      simp only []
      have hsup : ∀ x ∈ s.timers ++ ts, x ∈ (s.timers ++ (refreshEntries now ((s.cache.srv.get inst).getD [])).2 ++
          (refreshEntries now ((s.cache.txt.get inst).getD [])).2) ++ ts := by
        intro x hx
        simp only [List.mem_append] at hx ⊢
        rcases hx with hx | hx
        · exact Or.inl (Or.inl (Or.inl hx))
        · exact Or.inr hx
      have lift : ∀ tb : Table, TableAll (EntryTimed (s.timers ++ ts) T) tb →
          TableAll (EntryTimed ((s.timers ++ (refreshEntries now ((s.cache.srv.get inst).getD [])).2 ++
            (refreshEntries now ((s.cache.txt.get inst).getD [])).2) ++ ts) T) tb :=
        fun tb htb p hp e he => (htb p hp e he).mono (fun x hx _ => hsup x hx) (Nat.le_refl T)
      refine ⟨lift _ h.1, ?_, ?_, lift _ h.2.2.2.1, lift _ h.2.2.2.2⟩
      · apply tableTimed_modify (s.timers ++ ts) _ T s.cache.srv inst _ (hn .srv) h.2.1 hsup
        intro e' he'
        refine (timed_refreshEntries (s.timers ++ ts) T now _ (tableAll_getD h.2.1 inst) e' he').mono (fun x hx _ => ?_)
          (Nat.le_refl T)
        simp only [List.mem_append] at hx ⊢
        rcases hx with hx | hx | hx
        · exact Or.inl (Or.inl (Or.inr hx))
        · exact Or.inl (Or.inl (Or.inl hx))
        · exact Or.inr hx
      · apply tableTimed_modify (s.timers ++ ts) _ T s.cache.txt inst _ (hn .txt) h.2.2.1 hsup
        intro e' he'
        refine (timed_refreshEntries (s.timers ++ ts) T now _ (tableAll_getD h.2.2.1 inst) e' he').mono (fun x hx _ => ?_)
          (Nat.le_refl T)
        simp only [List.mem_append] at hx ⊢
        rcases hx with hx | hx | hx
        · exact Or.inl (Or.inr hx)
        · exact Or.inl (Or.inl (Or.inl hx))
        · exact Or.inr hx

theorem timed_refreshHostsGo (ts : List Nat) (T now : Nat) : ∀ (l : List BList) (s : HostsDue), KeysNodup s.cache →
    CacheTimed (s.timers ++ ts) T s.cache →
    CacheTimed ((refreshHostsGo now l s).timers ++ ts) T (refreshHostsGo now l s).cache
  | [], _, _, h => h
  | hst :: rest, s, hn, h => by
    unfold refreshHostsGo
    simp only []
    apply timed_refreshHostsGo ts T now rest
    · rw [keysNodup_iff] at hn ⊢
      simp only [keys_modify]
      exact hn
    · unfold CacheTimed at h ⊢
      rw [cacheAll_iff] at h ⊢
      simp only []
      have hsup : ∀ x ∈ s.timers ++ ts, x ∈ (s.timers ++ (refreshEntries now ((s.cache.addr.get (lower hst)).getD [])).2) ++ ts := by
        intro x hx
        simp only [List.mem_append] at hx ⊢
        rcases hx with hx | hx
        · exact Or.inl (Or.inl hx)
        · exact Or.inr hx
      have lift : ∀ tb : Table, TableAll (EntryTimed (s.timers ++ ts) T) tb →
          TableAll (EntryTimed ((s.timers ++ (refreshEntries now ((s.cache.addr.get (lower hst)).getD [])).2) ++ ts) T) tb :=
        fun tb htb p hp e he => (htb p hp e he).mono (fun x hx _ => hsup x hx) (Nat.le_refl T)
      refine ⟨lift _ h.1, lift _ h.2.1, lift _ h.2.2.1, ?_, lift _ h.2.2.2.2⟩
      apply tableTimed_modify (s.timers ++ ts) _ T s.cache.addr (lower hst) _ (hn .addr) h.2.2.2.1 hsup
      intro e' he'
      refine (timed_refreshEntries (s.timers ++ ts) T now _ (tableAll_getD h.2.2.2.1 (lower hst)) e' he').mono
        (fun x hx _ => ?_) (Nat.le_refl T)
      simp only [List.mem_append] at hx ⊢
      rcases hx with hx | hx | hx
      · exact Or.inl (Or.inr hx)
      · exact Or.inl (Or.inl hx)
      · exact Or.inr hx

theorem timed_refreshType (ts : List Nat) (T now : Nat) (c : Cache) (ty : BList) (hn : KeysNodup c)
    (h : CacheTimed ts T c) : CacheTimed ((refreshType c now ty).2.2 ++ ts) T (refreshType c now ty).1 := by
  have hcl := keysNodup_closed now
  have h1 := timed_refreshDuePtr ts T now c ty hn h
  have hn1 := hcl.refreshPtr c ty hn
  have h2 := timed_refreshSrvTxtGo ((refreshDuePtr c ty now).2 ++ ts) T now
    (liveInstances (refreshDuePtr c ty now).1 ty now) { cache := (refreshDuePtr c ty now).1, due := [], timers := [] } hn1 h1
  have hn2 := hcl.refreshSrvTxt _ ty hn1
  have h3 : CacheTimed ((refreshDueHosts (refreshDueSrvTxt (refreshDuePtr c ty now).1 ty now).cache ty now).timers ++
      ((refreshDueSrvTxt (refreshDuePtr c ty now).1 ty now).timers ++ ((refreshDuePtr c ty now).2 ++ ts))) T
      (refreshDueHosts (refreshDueSrvTxt (refreshDuePtr c ty now).1 ty now).cache ty now).cache :=
    timed_refreshHostsGo ((refreshDueSrvTxt (refreshDuePtr c ty now).1 ty now).timers ++
      ((refreshDuePtr c ty now).2 ++ ts)) T now _
    { cache := (refreshDueSrvTxt (refreshDuePtr c ty now).1 ty now).cache, due := [], timers := [] } hn2 h2
  unfold refreshType
  simp only []
  refine CacheTimed.sup h3 ?_
  intro x hx
  simp only [List.mem_append] at hx ⊢
  rcases hx with hx | hx | hx | hx
  · exact Or.inl (Or.inr hx)
  · exact Or.inl (Or.inl (Or.inr hx))
  · exact Or.inl (Or.inl (Or.inl hx))
  · exact Or.inr hx

theorem timed_refreshTypes (T now : Nat) : ∀ (l : List BList) (ts : List Nat) (c : Cache), KeysNodup c →
    CacheTimed ts T c → CacheTimed ((refreshTypes c now l).2.2 ++ ts) T (refreshTypes c now l).1
  | [], ts, c, _, h => by simpa [refreshTypes] using h
  | ty :: rest, ts, c, hn, h => by
    have h1 := timed_refreshType ts T now c ty hn h
    have hn1 : KeysNodup (refreshType c now ty).1 := by
      have hcl := keysNodup_closed now
      unfold refreshType
      simp only []
      exact hcl.refreshHosts _ ty (hcl.refreshSrvTxt _ ty (hcl.refreshPtr c ty hn))
    have h2 := timed_refreshTypes T now rest _ _ hn1 h1
    simp only [refreshTypes]
    refine CacheTimed.sup h2 ?_
    intro x hx
    simp only [List.mem_append] at hx ⊢
    rcases hx with hx | hx | hx
    · exact Or.inl (Or.inr hx)
    · exact Or.inl (Or.inl hx)
    · exact Or.inr hx

theorem timed_refreshActive (T : Nat) (s : State) (now : Nat) (hn : KeysNodup s.cache) (h : CacheTimed s.timers T s.cache) :
    CacheTimed (refreshActive s now).1.timers T (refreshActive s now).1.cache := by
  have h1 := timed_refreshTypes T now (activeTypes s) s.timers s.cache hn h
  unfold refreshActive
  simp only [addTimers_cache]
  refine CacheTimed.sup h1 ?_
  intro x hx
  simp only [addTimers, List.mem_append, List.mem_eraseDups] at hx ⊢
  exact hx

theorem timed_noMore (ts : List Nat) (T : Nat) (e : Entry) (h : EntryTimed ts T e) :
    EntryTimed ts T { e with record := e.record.refreshNoMore } := by
  refine ⟨h.1, ?_, h.2.2⟩
  intro _ h2
  simp only [Record.refreshNoMore] at h2
  have := h.2.2
  omega

theorem timed_refreshResolvers (T : Nat) (s : State) (now : Nat) (h : CacheTimed s.timers T s.cache) :
    CacheTimed (refreshResolvers s now).1.timers T (refreshResolvers s now).1.cache := by
  simp only [refreshResolvers]
  exact cacheAll_refreshResolversGo now (timed_noMore s.timers T) _ _ h

/-! ### eviction, interface check -/

theorem evictAddrPhase_timers_sup (s : State) (now : Nat) : ∀ t ∈ s.timers, t ∈ (evictAddrPhase s now).1.timers :=
  (step_evictAddrPhase (now := now) (cmds := []) (KeyOK := fun _ => True) (OK := fun _ => True) s trivial
    trivial).timers_mono

theorem timed_evict (T : Nat) (s : State) (now : Nat) (h : CacheTimed s.timers T s.cache) :
    CacheTimed (evictAddrPhase (evictServicesPhase s now).1 now).1.timers T
      (evictAddrPhase (evictServicesPhase s now).1 now).1.cache := by
  have h1 : CacheTimed (evictServicesPhase s now).1.timers T (evictServicesPhase s now).1.cache :=
    cacheAll_evictServices h now
  have h2 : CacheTimed (evictServicesPhase s now).1.timers T (evictAddr (evictServicesPhase s now).1.cache now).1 :=
    cacheAll_evictAddr h1 now
  have hc : (evictAddrPhase (evictServicesPhase s now).1 now).1.cache =
      (evictAddr (evictServicesPhase s now).1.cache now).1 := by
    simp only [evictAddrPhase, evictAddrHosts_cache]
  rw [hc]
  exact h2.sup (evictAddrPhase_timers_sup _ now)

theorem runIpCheck_timers_sup (s : State) (now : Nat) : ∀ t ∈ s.timers, t ∈ (runIpCheck s now).timers := by
  intro t ht
  rcases runIpCheck_cases s now with ⟨he, _⟩ | ⟨he, _⟩ | ⟨he, _⟩ <;> rw [he]
  · exact ht
  · exact List.mem_cons_of_mem _ ht
  · exact ht

/-- **One iteration**: the timers cover the expiry instants and refresh marks of the cached
    entries, for everything that lies after the later of `T` and `now`. -/
theorem timed_iter (T : Nat) (s : State) (now : Nat) (pkts : List Packet) (cmds : List Command)
    (hn : KeysNodup s.cache) (h : CacheTimed s.timers T s.cache) :
    CacheTimed (iter s now pkts cmds).1.timers (max T now) (iter s now pkts cmds).1.cache := by
  have hcl := keysNodup_closed now
  have h1 := timed_ingress T now pkts s h
  have h2 : CacheTimed (preCommands s now pkts).timers (max T now) (preCommands s now pkts).cache := by
    have : (preCommands s now pkts).cache = (ingress s now pkts).1.cache := rfl
    rw [this]
    refine h1.mono ?_ (Nat.le_max_left T now)
    intro t ht hlt
    show t ∈ (ingress s now pkts).1.timers.filter (· > now)
    exact List.mem_filter.mpr ⟨ht, by simp; omega⟩
  have h3 := timed_runCommands (max T now) now cmds _ h2
  have h4 := timed_rerunPhase (max T now) _ now h3
  have h5 := timed_refreshActive (max T now) _ now (closed_preRefresh hcl s pkts cmds hn) h4
  have h6 := timed_refreshResolvers (max T now) _ now h5
  have h7 := timed_evict (max T now) _ now h6
  rw [iter_fst, runIpCheck_cache]
  exact CacheTimed.sup h7 (runIpCheck_timers_sup _ now)

end Mdns.Client
