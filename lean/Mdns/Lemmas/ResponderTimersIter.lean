import Mdns.Lemmas.ResponderTimers
/-
  C12 on the responder model, daemon part: through every phase of `Responder.iter` the timers
  cover the probes of every interface registry, the queued re-runs and the interface check.
-/
namespace Mdns.Responder
open Mdns

/-- The coverage of the responder's time-driven work in the middle of an iteration.  `bp`, `br`,
    `bi` are the bounds below which a probe step / a re-run / the interface check may be
    uncovered because the iteration has popped its timer and has not looked at it yet
    (0 before `pop_timers_till`, `now + 1` after it, 0 again after the phase that does the work). -/
structure Mid (bp br bi : Nat) (s : State) : Prop where
  probes : ∀ i ∈ s.intfs, RCov s.timers bp (s.registry i.index)
  reruns : ∀ r ∈ s.reruns, r.next ∈ s.timers ∨ r.next < br
  ipcheck : s.nextIpCheck ≠ 0 → s.nextIpCheck ∈ s.timers ∨ s.nextIpCheck < bi

/-- every interface registry has handed its `new_timers` over -/
def Drained (s : State) : Prop := ∀ i ∈ s.intfs, (s.registry i.index).newTimers = []

/-- what every step of an iteration (other than `pop_timers_till` and the work phases themselves)
    keeps: the interfaces and the next interface check; the timers that are there; re-runs are
    only queued with a timer; every registry stays covered, whatever the bound -/
structure Keeps (s s' : State) : Prop where
  intfs : s'.intfs = s.intfs
  ip : s'.nextIpCheck = s.nextIpCheck
  timers : ∀ t ∈ s.timers, t ∈ s'.timers
  reruns : ∀ r ∈ s'.reruns, r ∈ s.reruns ∨ r.next ∈ s'.timers
  regs : ∀ idx b, RCov s.timers b (s.registry idx) → RCov s'.timers b (s'.registry idx)

theorem Keeps.refl (s : State) : Keeps s s := ⟨rfl, rfl, fun _ h => h, fun _ h => Or.inl h, fun _ _ h => h⟩

theorem Keeps.trans {a b c : State} (h1 : Keeps a b) (h2 : Keeps b c) : Keeps a c :=
  ⟨h2.intfs.trans h1.intfs, h2.ip.trans h1.ip, fun t ht => h2.timers t (h1.timers t ht),
   fun r hr => (h2.reruns r hr).elim (fun h => (h1.reruns r h).elim Or.inl (fun h' => Or.inr (h2.timers _ h'))) Or.inr,
   fun idx b h => h2.regs idx b (h1.regs idx b h)⟩

theorem Mid.keeps {bp br bi : Nat} {s s' : State} (h : Mid bp br bi s) (k : Keeps s s') : Mid bp br bi s' := by
  refine ⟨?_, ?_, ?_⟩
  · intro i hi
    exact k.regs i.index bp (h.probes i (k.intfs ▸ hi))
  · intro r hr
    rcases k.reruns r hr with h1 | h1
    · exact (h.reruns r h1).elim (fun h2 => Or.inl (k.timers _ h2)) Or.inr
    · exact Or.inl h1
  · intro hne
    rw [k.ip] at hne ⊢
    exact (h.ipcheck hne).elim (fun h2 => Or.inl (k.timers _ h2)) Or.inr

/-- a step that replaces the registry of ONE index `k` -/
theorem Keeps.of_set {s s' : State} (k : Nat) (hi : s'.intfs = s.intfs) (hip : s'.nextIpCheck = s.nextIpCheck)
    (ht : ∀ t ∈ s.timers, t ∈ s'.timers) (hr : ∀ r ∈ s'.reruns, r ∈ s.reruns ∨ r.next ∈ s'.timers)
    (hne : ∀ idx, idx ≠ k → s'.registry idx = s.registry idx)
    (hk : ∀ b, RCov s.timers b (s.registry k) → RCov s'.timers b (s'.registry k)) : Keeps s s' := by
  refine ⟨hi, hip, ht, hr, ?_⟩
  intro idx b h
  by_cases e : idx = k
  · subst e; exact hk b h
  · rw [hne idx e]; exact h.sup ht

theorem mem_append_left' {α} {a b : List α} : ∀ t ∈ a, t ∈ a ++ b := fun _ h => List.mem_append_left _ h

/-! ### ingress -/

theorem handleQuery_tkeeps (s : State) (now : Nat) (p : RxPkt) (i : MyIntf) : Keeps s (handleQuery s now p i).1 := by
  unfold handleQuery
  split
  · exact Keeps.refl s
  · rename_i reg hreg
    have hr : s.registry p.ifIdx = reg := registry_of_lookup hreg
    have hk : Keeps s ({ (s.setRegistry p.ifIdx (p.msg.questions.foldl (tiebreak now p.msg.authorities) reg)) with
        timers := s.timers ++ tiebreakTimers now p.msg.authorities reg p.msg.questions } : State) := by
      refine Keeps.of_set p.ifIdx rfl rfl mem_append_left' (fun _ h => Or.inl h) ?_ ?_
      · intro idx hne
        exact registry_setRegistry_ne s p.ifIdx idx _ hne
      · intro b h
        have e : (({ (s.setRegistry p.ifIdx (p.msg.questions.foldl (tiebreak now p.msg.authorities) reg)) with
            timers := s.timers ++ tiebreakTimers now p.msg.authorities reg p.msg.questions } : State).registry p.ifIdx) =
            p.msg.questions.foldl (tiebreak now p.msg.authorities) reg := registry_setRegistry_self s p.ifIdx _
        rw [e]
        exact tiebreakAll_cov now p.msg.authorities b p.msg.questions s.timers reg (hr ▸ h)
    simp only []
    split <;> exact hk

theorem handleResponse_tkeeps (s : State) (now jitter : Nat) (p : RxPkt) : Keeps s (handleResponse s now jitter p) := by
  unfold handleResponse
  split
  · exact Keeps.refl s
  · rename_i reg hreg
    have hr : s.registry p.ifIdx = reg := registry_of_lookup hreg
    have hcov := fun (b : Nat) (h : RCov s.timers b reg) => conflictAll_cov (ts := s.timers) (b := b) now jitter p.msg.answers reg h
    rcases hf : p.msg.answers.foldl (conflictOnAnswer now jitter) (reg, []) with ⟨reg', timers⟩
    rw [hf] at hcov
    simp only [] at hcov ⊢
    refine Keeps.of_set p.ifIdx rfl rfl mem_append_left' (fun _ h => Or.inl h) ?_ ?_
    · intro idx hne
      exact registry_setRegistry_ne s p.ifIdx idx _ hne
    · intro b h
      have e : (({ (s.setRegistry p.ifIdx reg') with timers := s.timers ++ timers } : State).registry p.ifIdx) = reg' :=
        registry_setRegistry_self s p.ifIdx _
      rw [e]
      exact hcov b (hr ▸ h)

theorem handleRead_tkeeps (now jitter : Nat) (acc : State × List Out) (p : RxPkt) : Keeps acc.1 (handleRead now jitter acc p).1 := by
  unfold handleRead
  split
  · exact Keeps.refl _
  · rename_i i _
    split
    · exact Keeps.refl _
    · split
      · exact handleQuery_tkeeps acc.1 now p i
      · exact handleResponse_tkeeps acc.1 now jitter p

theorem foldl_tkeeps {α} (f : State × List Out → α → State × List Out) (l : List α) (acc : State × List Out)
    (h : ∀ a x, Keeps a.1 (f a x).1) : Keeps acc.1 (l.foldl f acc).1 :=
  foldl_inv (fun (a : State × List Out) => Keeps acc.1 a.1) f l acc (Keeps.refl _) (fun a x _ ha => ha.trans (h a x))

/-! ### `pop_timers_till` -/

theorem pop_mid {s : State} (now : Nat) (h : Mid 0 0 0 s) :
    Mid (now + 1) (now + 1) (now + 1) ({ s with timers := s.timers.filter (· > now) } : State) := by
  have hf : ∀ t, t ∈ s.timers → t ∈ s.timers.filter (· > now) ∨ t < now + 1 := by
    intro t ht
    by_cases hlt : t > now
    · exact Or.inl (List.mem_filter.mpr ⟨ht, by simpa using hlt⟩)
    · exact Or.inr (by omega)
  refine ⟨?_, ?_, ?_⟩
  · intro i hi e he
    rcases h.probes i hi e he with h1 | h1 | h1
    · rcases hf _ h1 with h2 | h2
      · exact Or.inl h2
      · exact Or.inr (Or.inr h2)
    · exact Or.inr (Or.inl h1)
    · omega
  · intro r hr
    rcases h.reruns r hr with h1 | h1
    · exact hf _ h1
    · omega
  · intro hne
    rcases h.ipcheck hne with h1 | h1
    · exact hf _ h1
    · omega

/-! ### register -/

structure UnsolKeeps (s : State) (u : Unsol) : Prop where
  keeps : Keeps s u.state
  reruns : u.state.reruns = s.reruns

theorem unsolOnIntf_tkeeps (s : State) (now jitter : Nat) (u : Unsol) (i : MyIntf) (h : UnsolKeeps s u) :
    UnsolKeeps s (unsolOnIntf now jitter u i) := by
  unfold unsolOnIntf
  simp only []
  split
  · refine ⟨h.keeps.trans (Keeps.of_set i.index rfl rfl (fun _ ht => ht) (fun _ hr => Or.inl hr) ?_ ?_), h.reruns⟩
    · intro idx hne
      exact registry_setRegistry_ne _ _ _ _ hne
    · intro b hc
      simp only []
      rw [registry_setRegistry_self]
      exact announce_pair_cov hc u.svc i now jitter
  · refine ⟨h.keeps.trans (Keeps.of_set i.index rfl rfl mem_append_left' (fun _ hr => Or.inl hr) ?_ ?_), h.reruns⟩
    · intro idx hne
      exact registry_setRegistry_ne _ _ _ _ hne
    · intro b hc
      have e : (({ (u.state.setRegistry i.index
            { (prepareAnnounceReg u.svc i (prepareAnnounceReg u.svc i (u.state.registry i.index) true now jitter) false now jitter) with
              newTimers := [] }) with
          timers := u.state.timers ++
            (prepareAnnounceReg u.svc i (prepareAnnounceReg u.svc i (u.state.registry i.index) true now jitter) false now jitter).newTimers } :
          State).registry i.index) =
          { (prepareAnnounceReg u.svc i (prepareAnnounceReg u.svc i (u.state.registry i.index) true now jitter) false now jitter) with
              newTimers := [] } := registry_setRegistry_self _ _ _
      rw [e]
      exact drain_cov (announce_pair_cov hc u.svc i now jitter)

theorem sendUnsolicited_tkeeps (s : State) (svc : Service) (now jitter : Nat) : Keeps s (sendUnsolicited s svc now jitter).state := by
  unfold sendUnsolicited
  have hu : UnsolKeeps s (s.intfs.foldl (unsolOnIntf now jitter) { state := s, svc := svc }) :=
    foldl_inv (fun (u : Unsol) => UnsolKeeps s u) _ _ _ ⟨Keeps.refl s, rfl⟩ (fun u i _ hu => unsolOnIntf_tkeeps s now jitter u i hu)
  simp only []
  refine hu.keeps.trans ⟨rfl, rfl, mem_append_left', ?_, ?_⟩
  · intro r hr
    simp only [List.mem_append, List.mem_map] at hr
    rcases hr with hr | ⟨k, hk, rfl⟩
    · exact Or.inl hr
    · right
      simp only [ReRun.next, List.mem_append, List.mem_map]
      exact Or.inr ⟨k, hk, trivial⟩
  · intro idx b hc
    exact hc.sup mem_append_left'

theorem registerService_tkeeps (s : State) (svc : Service) (now jitter : Nat) : Keeps s (registerService s svc now jitter).1 := by
  unfold registerService
  split
  · unfold registerChecked
    exact (sendUnsolicited_tkeeps s (autoAddrs s svc) now jitter).trans
      ⟨rfl, rfl, fun _ h => h, fun _ h => Or.inl h, fun _ _ h => h⟩
  · exact Keeps.refl s

/-! ### unregister -/

theorem purgeWaiting_tkeeps (s : State) (n : BList) :
    Keeps s (purgeWaiting s n) ∧ (purgeWaiting s n).timers = s.timers ∧ (purgeWaiting s n).reruns = s.reruns := by
  unfold purgeWaiting
  refine foldl_inv (fun (st : State) => Keeps s st ∧ st.timers = s.timers ∧ st.reruns = s.reruns) _ s.intfs s
    ⟨Keeps.refl s, rfl, rfl⟩ ?_
  intro st i _ ⟨hk, ht, hr⟩
  split
  · rename_i r hr0
    have hreg : st.registry i.index = r := registry_of_lookup hr0
    refine ⟨hk.trans (Keeps.of_set i.index rfl rfl (fun _ h => h) (fun _ h => Or.inl h) ?_ ?_), ht, hr⟩
    · intro idx hne
      exact registry_setRegistry_ne _ _ _ _ hne
    · intro b hc
      rw [registry_setRegistry_self]
      exact removeWaiting_cov (hreg ▸ hc) n
  · exact ⟨hk, ht, hr⟩

theorem execUnregister_tkeeps (s : State) (now : Nat) (name : BList) (ch : Nat) : Keeps s (execUnregister s now name ch).1 := by
  unfold execUnregister
  split
  · exact Keeps.refl s
  · rename_i svc _
    obtain ⟨hk, ht, hr⟩ := purgeWaiting_tkeeps s svc.fullname
    simp only []
    refine ⟨hk.intfs, hk.ip, mem_append_left', ?_, ?_⟩
    · intro r hr
      simp only [List.mem_append, List.mem_map] at hr
      rcases hr with hr | ⟨g, hg, rfl⟩
      · exact Or.inl hr
      · right
        simp only [ReRun.next, List.mem_append, List.mem_map]
        exact Or.inr ⟨g, hg, trivial⟩
    · intro idx b hc
      have := hk.regs idx b hc
      rw [ht] at this
      exact this.sup mem_append_left'

/-! ### commands -/

/-- stopped, or covered -/
def MidS (bp br bi : Nat) (s : State) : Prop := s.stopped = true ∨ Mid bp br bi s

theorem execCommand_mid {bp br bi : Nat} (now jitter : Nat) (acc : State × List Out) (c : Command) (h : MidS bp br bi acc.1) :
    MidS bp br bi (execCommand now jitter acc c).1 := by
  unfold execCommand
  split
  · exact h
  · rename_i hrun
    have hm : Mid bp br bi acc.1 := h.resolve_left hrun
    cases c with
    | register svc => exact Or.inr (hm.keeps (registerService_tkeeps acc.1 svc now jitter))
    | unregister name ch => exact Or.inr (hm.keeps (execUnregister_tkeeps acc.1 now name ch))
    | monitor ch => exact Or.inr (hm.keeps ⟨rfl, rfl, fun _ h => h, fun _ h => Or.inl h, fun _ _ h => h⟩)
    | ipInterval ms => exact Or.inr (hm.keeps ⟨rfl, rfl, fun _ h => h, fun _ h => Or.inl h, fun _ _ h => h⟩)
    | exit ch => exact Or.inl rfl

/-! ### re-runs -/

theorem execRegisterResend_tkeeps (s : State) (now jitter : Nat) (fullname : BList) (ifIdx : Nat) :
    Keeps s (execRegisterResend s now jitter fullname ifIdx).1 ∧
    (execRegisterResend s now jitter fullname ifIdx).1.reruns = s.reruns := by
  unfold execRegisterResend
  split
  · rename_i svc r0 i _ hr0 _
    have hr : s.registry ifIdx = r0 := registry_of_lookup hr0
    have hk : Keeps s (s.setRegistry ifIdx (prepareAnnounceReg svc i (prepareAnnounceReg svc i r0 true now jitter) false now jitter)) := by
      refine Keeps.of_set ifIdx rfl rfl (fun _ h => h) (fun _ h => Or.inl h) ?_ ?_
      · intro idx hne
        exact registry_setRegistry_ne _ _ _ _ hne
      · intro b hc
        rw [registry_setRegistry_self]
        exact announce_pair_cov (hr ▸ hc) svc i now jitter
    simp only []
    split
    · exact ⟨hk.trans ⟨rfl, rfl, fun _ h => h, fun _ h => Or.inl h, fun _ _ h => h⟩, rfl⟩
    · exact ⟨hk, rfl⟩
  · exact ⟨Keeps.refl s, rfl⟩

theorem execRerun_tkeeps (now jitter : Nat) (acc : State × List Out) (r : ReRun) :
    Keeps acc.1 (execRerun now jitter acc r).1 ∧ (execRerun now jitter acc r).1.reruns = acc.1.reruns := by
  unfold execRerun
  cases r with
  | registerResend n fullname ifIdx => exact execRegisterResend_tkeeps acc.1 now jitter fullname ifIdx
  | unregisterResend n pkt ifIdx v4 => exact ⟨Keeps.refl _, rfl⟩

/-- the re-run loop: what stays queued is not due yet, so it is covered by a timer -/
theorem runReruns_mid {bp bi : Nat} (s : State) (now jitter : Nat) (h : Mid bp (now + 1) bi s) :
    Mid bp 0 bi (runReruns s now jitter).1 := by
  unfold runReruns
  have h0 : Mid bp 0 bi ({ s with reruns := s.reruns.filter (fun r => !decide (now ≥ r.next)) } : State) := by
    refine ⟨h.probes, ?_, h.ipcheck⟩
    intro r hr
    simp only [List.mem_filter, Bool.not_eq_eq_eq_not, Bool.not_true, decide_eq_false_iff_not] at hr
    rcases h.reruns r hr.1 with h1 | h1
    · exact Or.inl h1
    · omega
  have := foldl_inv (fun (a : State × List Out) => Mid bp 0 bi a.1) (execRerun now jitter)
    (s.reruns.filter (fun r => decide (now ≥ r.next)))
    (({ s with reruns := s.reruns.filter (fun r => !decide (now ≥ r.next)) } : State), []) h0
    (fun a r _ ha => ha.keeps (execRerun_tkeeps now jitter a r).1)
  exact this

/-! ### `probing_handler` -/

theorem wakeService_tkeeps (now jitter : Nat) (i : MyIntf) (acc : State × List Out) (name : BList) :
    Keeps acc.1 (wakeService now jitter i acc name).1 := by
  unfold wakeService
  simp only []
  split
  · exact Keeps.refl _
  · rename_i svc _
    split
    · exact Keeps.refl _
    · have hk : Keeps acc.1 (acc.1.setRegistry i.index
          (prepareAnnounceReg svc i (prepareAnnounceReg svc i (acc.1.registry i.index) true now jitter) false now jitter)) := by
        refine Keeps.of_set i.index rfl rfl (fun _ h => h) (fun _ h => Or.inl h) ?_ ?_
        · intro idx hne
          exact registry_setRegistry_ne _ _ _ _ hne
        · intro b hc
          rw [registry_setRegistry_self]
          exact announce_pair_cov hc svc i now jitter
      split
      · refine hk.trans ⟨rfl, rfl, mem_append_left', ?_, fun _ _ hc => hc.sup mem_append_left'⟩
        intro r hr
        simp only [List.mem_append, List.mem_singleton] at hr
        rcases hr with hr | rfl
        · exact Or.inl hr
        · right
          simp [ReRun.next]
      · exact hk

theorem drainNewTimers_tkeeps (idx : Nat) (acc : State × List Out) : Keeps acc.1 (drainNewTimers idx acc).1 := by
  refine Keeps.of_set idx rfl rfl mem_append_left' (fun _ h => Or.inl h) ?_ ?_
  · intro k hne
    exact drainNewTimers_registry_ne idx k acc hne
  · intro b hc
    rw [drainNewTimers_registry_self]
    exact drain_cov hc

/-- what the body of `probing_handler` for interface index `k` does at `now` -/
structure ProbeStep (now k : Nat) (s s' : State) : Prop where
  intfs : s'.intfs = s.intfs
  ip : s'.nextIpCheck = s.nextIpCheck
  timers : ∀ t ∈ s.timers, t ∈ s'.timers
  reruns : ∀ r ∈ s'.reruns, r ∈ s.reruns ∨ r.next ∈ s'.timers
  other : ∀ idx, idx ≠ k → s'.registry idx = s.registry idx
  self : RCov s.timers (now + 1) (s.registry k) → RCov s'.timers 0 (s'.registry k)
  drained : (s'.registry k).newTimers = []

theorem probingOnIntf_step (now jitter : Nat) (acc : State × List Out) (i : MyIntf) :
    ProbeStep now i.index acc.1 (probingOnIntf now jitter acc i).1 := by
  have hother : ∀ idx, idx ≠ i.index → (probingOnIntf now jitter acc i).1.registry idx = acc.1.registry idx :=
    fun idx hne => probingOnIntf_registry_other now jitter acc i idx (Ne.symm hne)
  unfold probingOnIntf at hother ⊢
  simp only [] at hother ⊢
  split
  · rename_i hnone
    have he : acc.1.registry i.index = {} := by simp [State.registry, hnone]
    refine ⟨rfl, rfl, fun _ h => h, fun _ h => Or.inl h, fun _ _ => rfl, ?_, ?_⟩
    · intro _
      rw [he]
      exact RCov.empty _ _
    · rw [he]
  · rename_i r hr
    have hreg : acc.1.registry i.index = r := registry_of_lookup hr
    -- the state after `check_probing` and `handle_expired_probes`
    let s1 : State := { (acc.1.setRegistry i.index (handleExpiredProbes (checkProbing r now).expired i.name (checkProbing r now).reg).1) with
        timers := acc.1.timers ++ (checkProbing r now).timers }
    have hs1reg : s1.registry i.index = (handleExpiredProbes (checkProbing r now).expired i.name (checkProbing r now).reg).1 :=
      registry_setRegistry_self _ _ _
    -- the wake-ups
    have hw : Keeps s1 ((handleExpiredProbes (checkProbing r now).expired i.name (checkProbing r now).reg).2.2.foldl
        (wakeService now jitter i) (s1, acc.2 ++ probeSends i (checkProbing r now) ++
          (handleExpiredProbes (checkProbing r now).expired i.name (checkProbing r now).reg).2.1.flatMap (notify acc.1))).1 :=
      foldl_tkeeps (wakeService now jitter i) _ (s1, _) (fun a x => wakeService_tkeeps now jitter i a x)
    have hd := drainNewTimers_tkeeps i.index
      ((handleExpiredProbes (checkProbing r now).expired i.name (checkProbing r now).reg).2.2.foldl
        (wakeService now jitter i) (s1, acc.2 ++ probeSends i (checkProbing r now) ++
          (handleExpiredProbes (checkProbing r now).expired i.name (checkProbing r now).reg).2.1.flatMap (notify acc.1)))
    have hk := hw.trans hd
    rw [hr] at hother
    simp only [] at hother
    refine ⟨hk.intfs, hk.ip, fun t ht => hk.timers t (List.mem_append_left _ ht), ?_, hother, ?_, ?_⟩
    · intro x hx
      exact hk.reruns x hx
    · intro hc
      apply hk.regs i.index 0
      rw [hs1reg]
      exact checkProbing_cov now i.name (hreg ▸ hc)
    · exact (drainNewTimers_registry_self i.index _).symm ▸ rfl

/-- `probing_handler` over a list of interfaces -/
theorem probingFold_step (now jitter : Nat) : ∀ (l : List MyIntf) (acc : State × List Out),
    (l.foldl (probingOnIntf now jitter) acc).1.intfs = acc.1.intfs ∧
    (l.foldl (probingOnIntf now jitter) acc).1.nextIpCheck = acc.1.nextIpCheck ∧
    (∀ t ∈ acc.1.timers, t ∈ (l.foldl (probingOnIntf now jitter) acc).1.timers) ∧
    (∀ r ∈ (l.foldl (probingOnIntf now jitter) acc).1.reruns,
      r ∈ acc.1.reruns ∨ r.next ∈ (l.foldl (probingOnIntf now jitter) acc).1.timers) ∧
    (∀ idx, idx ∉ l.map (·.index) → (l.foldl (probingOnIntf now jitter) acc).1.registry idx = acc.1.registry idx) ∧
    (∀ idx, idx ∈ l.map (·.index) →
      (RCov acc.1.timers (now + 1) (acc.1.registry idx) →
        RCov (l.foldl (probingOnIntf now jitter) acc).1.timers 0 ((l.foldl (probingOnIntf now jitter) acc).1.registry idx)) ∧
      ((l.foldl (probingOnIntf now jitter) acc).1.registry idx).newTimers = [])
  | [], acc => ⟨rfl, rfl, fun _ h => h, fun _ h => Or.inl h, fun _ _ => rfl, fun _ h => by simp at h⟩
  | a :: rest, acc => by
    have h1 := probingOnIntf_step now jitter acc a
    obtain ⟨i1, i2, i3, i4, i5, i6⟩ := probingFold_step now jitter rest (probingOnIntf now jitter acc a)
    simp only [List.foldl_cons]
    refine ⟨i1.trans h1.intfs, i2.trans h1.ip, fun t ht => i3 t (h1.timers t ht), ?_, ?_, ?_⟩
    · intro r hr
      rcases i4 r hr with h | h
      · exact (h1.reruns r h).elim Or.inl (fun h' => Or.inr (i3 _ h'))
      · exact Or.inr h
    · intro idx hidx
      simp only [List.map_cons, List.mem_cons, not_or] at hidx
      rw [i5 idx hidx.2, h1.other idx hidx.1]
    · intro idx hidx
      simp only [List.map_cons, List.mem_cons] at hidx
      by_cases hrest : idx ∈ rest.map (·.index)
      · obtain ⟨j1, j2⟩ := i6 idx hrest
        refine ⟨fun hc => j1 ?_, j2⟩
        by_cases e : idx = a.index
        · subst e
          exact (h1.self hc).mono (fun _ h => h) (Nat.zero_le _)
        · rw [h1.other idx e]
          exact hc.sup h1.timers
      · have e : idx = a.index := hidx.resolve_right hrest
        subst e
        rw [i5 _ hrest]
        exact ⟨fun hc => (h1.self hc).sup i3, h1.drained⟩

theorem probingHandler_mid {bi : Nat} (s : State) (now jitter : Nat) (h : Mid (now + 1) 0 bi s) :
    Mid 0 0 bi (probingHandler s now jitter).1 ∧ Drained (probingHandler s now jitter).1 := by
  unfold probingHandler
  obtain ⟨i1, i2, i3, i4, _, i6⟩ := probingFold_step now jitter s.intfs (s, [])
  refine ⟨⟨?_, ?_, ?_⟩, ?_⟩
  · intro i hi
    rw [i1] at hi
    exact (i6 i.index (List.mem_map.mpr ⟨i, hi, rfl⟩)).1 (h.probes i hi)
  · intro r hr
    rcases i4 r hr with h1 | h1
    · exact (h.reruns r h1).elim (fun h2 => Or.inl (i3 _ h2)) Or.inr
    · exact Or.inl h1
  · intro hne
    rw [i2] at hne ⊢
    exact (h.ipcheck hne).elim (fun h2 => Or.inl (i3 _ h2)) Or.inr
  · intro i hi
    rw [i1] at hi
    exact (i6 i.index (List.mem_map.mpr ⟨i, hi, rfl⟩)).2

/-! ### the interface check -/

theorem runIpCheck_registry (s : State) (now : Nat) (idx : Nat) : (runIpCheck s now).registry idx = s.registry idx :=
  registry_congr (runIpCheck_registries s now).1 idx

theorem runIpCheck_intfs (s : State) (now : Nat) : (runIpCheck s now).intfs = s.intfs := (runIpCheck_registries s now).2.1

theorem runIpCheck_reruns (s : State) (now : Nat) : (runIpCheck s now).reruns = s.reruns := (runIpCheck_registries s now).2.2.2

theorem runIpCheck_timers (s : State) (now : Nat) : ∀ t ∈ s.timers, t ∈ (runIpCheck s now).timers := by
  intro t ht
  unfold runIpCheck
  repeat' split
  all_goals first
    | exact ht
    | exact List.mem_append_left _ ht

/-- the interface-check block: the next check is armed, or the check is switched off -/
theorem runIpCheck_ip (s : State) (now : Nat) (h : s.nextIpCheck ≠ 0 → s.nextIpCheck ∈ s.timers ∨ s.nextIpCheck < now + 1) :
    (runIpCheck s now).nextIpCheck ≠ 0 → (runIpCheck s now).nextIpCheck ∈ (runIpCheck s now).timers := by
  unfold runIpCheck
  split
  · split
    · intro _; simp
    · intro hne; exact absurd rfl hne
  · rename_i hnot
    split
    · intro _; simp
    · rename_i hnot2
      intro hne
      rcases h hne with h1 | h1
      · exact h1
      · exfalso
        apply hnot
        simp only [Bool.and_eq_true, decide_eq_true_eq]
        exact ⟨by omega, by omega⟩

theorem runIpCheck_mid {s : State} (now : Nat) (h : Mid 0 0 (now + 1) s) : Mid 0 0 0 (runIpCheck s now) := by
  refine ⟨?_, ?_, ?_⟩
  · intro i hi
    rw [runIpCheck_intfs] at hi
    rw [runIpCheck_registry]
    exact (h.probes i hi).sup (runIpCheck_timers s now)
  · intro r hr
    rw [runIpCheck_reruns] at hr
    exact (h.reruns r hr).elim (fun h1 => Or.inl (runIpCheck_timers s now _ h1)) Or.inr
  · intro hne
    exact Or.inl (runIpCheck_ip s now h.ipcheck hne)

theorem runIpCheck_drained {s : State} (now : Nat) (h : Drained s) : Drained (runIpCheck s now) := by
  intro i hi
  rw [runIpCheck_intfs] at hi
  rw [runIpCheck_registry]
  exact h i hi

/-! ### one iteration -/

/-- ONE ITERATION, ANY INPUT: if the timers cover the probes of every interface registry, the
    queued re-runs and the interface check before the iteration, then - unless the daemon has
    stopped - they do so after it, and every registry has handed over its `new_timers` -/
theorem iter_mid (s : State) (inp : Input) (h : Mid 0 0 0 s) :
    (iter s inp).1.stopped = true ∨ (Mid 0 0 0 (iter s inp).1 ∧ Drained (iter s inp).1) := by
  unfold iter
  split
  · rename_i hst
    exact Or.inl hst
  · have h1 : Mid 0 0 0 (inp.rx.foldl (handleRead inp.now inp.jitter) (s, [])).1 :=
      h.keeps (foldl_tkeeps (handleRead inp.now inp.jitter) inp.rx (s, []) (fun a x => handleRead_tkeeps inp.now inp.jitter a x))
    have h2 := pop_mid inp.now h1
    have h3 := foldl_inv (fun (a : State × List Out) => MidS (inp.now + 1) (inp.now + 1) (inp.now + 1) a.1)
      (execCommand inp.now inp.jitter) inp.cmds (_, []) (Or.inr h2)
      (fun a c _ ha => execCommand_mid inp.now inp.jitter a c ha)
    simp only []
    split
    · rename_i hst
      exact Or.inl hst
    · rename_i hrun
      have h3' := h3.resolve_left hrun
      have h4 := runReruns_mid _ inp.now inp.jitter h3'
      obtain ⟨h5, hd⟩ := probingHandler_mid _ inp.now inp.jitter h4
      exact Or.inr ⟨runIpCheck_mid inp.now h5, runIpCheck_drained inp.now hd⟩

end Mdns.Responder
