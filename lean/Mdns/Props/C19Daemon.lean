import Mdns.Lemmas.Sched
/-
  C19 (daemon level)  Repeated queries back off; browsing again replaces the search.

  Model: `Mdns/Model/Sched.lean`.  These theorems hold for ANY sequence of loop iterations
  (arbitrary times, arbitrarily late, any commands): they are safety statements and do
  not assume a timely scheduler.
-/
namespace Mdns.Props.C19.Daemon
open Mdns Mdns.Sched

/-- run the loop over a list of iterations `(now, commands)` -/
def runAll (s : State) : List (Nat × List Command) → State
  | [] => s
  | (now, cmds) :: rest => runAll (iter s now cmds).1 rest

/-- One schedule per search: in every reachable state, whatever the history, the queue of
    retransmissions holds at most one entry per browsed type and at most one per host
    name (compared without letter case).  "Browsing a type again replaces the earlier
    search instead of adding a second schedule." -/
theorem one_schedule (t0 : Nat) (history : List (Nat × List Command)) :
    OneEach (runAll (init t0) history).reruns := by
  have : ∀ (h : List (Nat × List Command)) (s : State), OneEach s.reruns → OneEach (runAll s h).reruns := by
    intro h
    induction h with
    | nil => intro s hs; exact hs
    | cons a h ih =>
      intro s hs
      obtain ⟨now, cmds⟩ := a
      exact ih _ (iter_one s now cmds hs)
  exact this history _ OneEach.nil

/-- A fresh `browse(ty)` at `now` sends the query at once and leaves exactly one queued
    retransmission for `ty`: due one second later, with the doubled delay. -/
theorem browse_starts_schedule (s : State) (now : Nat) (ty : BList) (ch : Nat) :
    (execCommand s now (.browse ty ch false)).2 = [.event ch .started, .query [(ty, 12)]] ∧
    (execCommand s now (.browse ty ch false)).1.reruns.filter (isBrowseOf ty) =
      [⟨now + 1000, .browse ty 2 ch⟩] := by
  refine ⟨rfl, ?_⟩
  simp [execCommand, execBrowse, addRerun, List.filter_append, filter_not_self, isBrowseOf, nextDelay, MAX_DELAY]

/-- Executing a due retransmission `browse ty delay` at `now` sends the query once and
    queues the next one `delay` seconds later with `min (2*delay) 3600`: consecutive
    schedule sends of one search are at least `delay` seconds apart and delays follow
    1, 2, 4, … capped at one hour. -/
theorem rerun_backs_off (s : State) (now : Nat) (ty : BList) (delay ch : Nat) :
    execRerun s now (.browse ty delay ch) =
      (addRerun s (now + delay * 1000) (.browse ty (min (delay * 2) 3600) ch),
       [.event ch .started, .query [(ty, 12)]]) := rfl

/-- the same for hostname searches: A and AAAA at once, next one `delay` seconds later if
    that is before the deadline -/
theorem rerun_host_backs_off (s : State) (now : Nat) (h : BList) (delay ch : Nat)
    (hl : s.resolvers.any (·.1 == lower h) = true) :
    (execRerun s now (.resolveHost h delay ch)).2 = [.event ch .hstarted, .query [(h, 1), (h, 28)]] ∧
    ((execRerun s now (.resolveHost h delay ch)).1 = s ∨
     (execRerun s now (.resolveHost h delay ch)).1 =
        addRerun s (now + delay * 1000) (.resolveHost h (min (delay * 2) 3600) ch)) := by
  simp only [execRerun, execResolve, hl, Bool.not_true, Bool.and_false, Bool.false_eq_true, ↓reduceIte]
  refine ⟨trivial, ?_⟩
  split
  · right; rfl
  · left; rfl

/-- a retransmission that is not yet due is never executed: the loop leaves it queued and
    emits nothing for it -/
theorem not_due_not_sent (s : State) (now fuel : Nat) (r : Rerun) (h : ¬ now ≥ r.next) (hs : s.reruns = []) :
    runReruns s now (fuel + 1) [] [r] = ({ s with reruns := [r] }, []) := by
  rw [runReruns]
  simp only [h, ↓reduceIte, List.nil_append]
  cases fuel <;> simp [runReruns, hs]

/-- After `stop_browse(ty)` nothing is queued for `ty` any more. -/
theorem stop_clears (s : State) (now : Nat) (ty : BList) (h : (s.queriers.find? (·.1 == ty)).isSome) :
    (execCommand s now (.stopBrowse ty)).1.reruns.filter (isBrowseOf ty) = [] := by
  simp only [execCommand, execStopBrowse]
  cases hq : s.queriers.find? (·.1 == ty) with
  | none => simp [hq] at h
  | some q =>
    obtain ⟨t, ch⟩ := q
    exact filter_not_self _ _

/-! non-vacuity: a reachable state with a queued retransmission -/
example : (runAll (init 1000000) [(1000000, [.browse [0x5f, 0x61] 1 false])]).reruns =
    [⟨1001000, .browse [0x5f, 0x61] 2 1⟩] := by decide

end Mdns.Props.C19.Daemon
