import Mdns.Lemmas.Responder
/-
  C06  Queries get exactly the registered records, right values, right link.

  Model: `handleQuery` of `Mdns/Model/Responder.lean` (written from the code: a loop over the
  questions, inside it loops over the services, `add_answer_with_additionals`, the meta query,
  address answers, `add_answer_of_service`, known-answer suppression, legacy unicast), compared
  with the real daemon thread on every run: every response packet (destination, id, flags,
  echoed questions, every record of every section with TTL and cache-flush bit) agrees.

  The RULE (`specAnswers`, `specAdditionals` in `Lemmas/Responder.lean`) is written from the
  statement: per question and per announced service the records owed.  `handleQuery_spec` is
  the equivalence of the two: the response is exactly the rule's records that no known answer
  suppresses, with the rule's additionals.  From the rule: nothing for services that are not
  announced, not registered any more, or have no address on the link
  (`rule_nothing_unless_announced`, `rule_nothing_off_link`, `nothing_unless_announced`); TTL
  120 s / 4500 s, cache-flush bit on SRV/TXT/address and addresses inside the receiving
  interface's subnet for every record of every response (`response_records`); the values are
  those of the most recent register call (`register_stores_latest`); legacy unicast
  (`legacy_unicast`) and multicast (`multicast_reply`).

  Readings (DESIGN section 5): "no address on that link" is per IP family of the transport
  for PTR/SRV/TXT answers and per question type for host questions; the response is a list in
  which an address record appears once per service that shares the host name; the type name of
  a PTR question is compared exactly; SRV/TXT answers carry the owner name as asked.
-/
namespace Mdns.Props.C06
open Mdns Mdns.Responder

/-- `handle_query` equals the declarative rule.  For a query `p` read on interface `i` whose
    registry is `reg`: nothing is sent if the rule yields no (unsuppressed) answer; otherwise
    exactly one packet leaves on `i` over the querier's family - to the multicast group, or,
    if the source port is not 5353, to the sender - carrying as answers the rule's records that
    no known answer of the query suppresses and as additionals the rule's additionals, and the
    monitors get one `Respond` event. -/
theorem handleQuery_spec (s : State) (now : Nat) (p : RxPkt) (i : MyIntf) (reg : Registry)
    (hreg : alookup p.ifIdx s.registries = some reg) :
    (handleQuery s now p i).2 =
      if (specResp s p i reg).answers.isEmpty then []
      else
        (if i.hasFamily p.srcV4 then
          [Out.send i.index p.srcV4 (if p.srcPort != MDNS_PORT then some p.src else none)
            (responsePkt p.msg (p.srcPort != MDNS_PORT) (specResp s p i reg))]
         else []) ++ notify s (.respond i.name) :=
  handleQuery_eq_spec s now p i reg hreg

/-- the rule yields nothing for a service that is not announced on the interface (still
    probing, or status unknown) -/
theorem rule_nothing_unless_announced (known : List Wire.Rec) (i : MyIntf) (reg : Registry) (v4 : Bool) (qname : BList)
    (qtype : Nat) (svc : Service) (h : svc.announcedOn i.index = false) :
    ptrRule i reg v4 qname svc = [] ∧ ptrAdditionals known i reg v4 qname svc = [] ∧ addrRule i reg qname qtype svc = [] := by
  simp [ptrRule, ptrAdditionals, addrRule, h]

/-- the rule yields no type / subtype PTR (hence no additionals) and no SRV / TXT for a service
    without an in-subnet address of the querier's family, and no address answer of a family in
    which it has none -/
theorem rule_nothing_off_link (known : List Wire.Rec) (i : MyIntf) (reg : Registry) (v4 : Bool) (qname : BList) (svc : Service)
    (h : addrsOn svc i v4 = []) (hm : svc.matchesType qname = true) :
    ptrRule i reg v4 qname svc = [] ∧ ptrAdditionals known i reg v4 qname svc = [] := by
  simp [ptrRule, ptrAdditionals, h, hm]

/-- a service that is not announced on the interface, or has no in-subnet address of the
    querier's family, is never the instance an SRV / TXT / ANY question is answered from; and the
    instance it is answered from is a registered service whose CURRENT name - the name as
    registered, after the renames by conflict resolution - is the name asked for, up to letter
    case (repair of D39: the lower-case map key was resolved, so that a renamed name with
    upper-case letters was still answered for under its OLD name and not under the new one) -/
theorem rule_instance_announced (services : List (BList × Service)) (i : MyIntf) (reg : Registry) (v4 : Bool) (qname : BList)
    (svc : Service) (h : instanceOf services i reg v4 qname = some svc) :
    svc.announcedOn i.index = true ∧ addrsOn svc i v4 ≠ [] ∧
    ∃ k, (k, svc) ∈ services ∧ lower (reg.resolveName svc.fullname) = lower qname := by
  unfold instanceOf at h
  split at h
  · rename_i k svc' hf
    split at h
    · rename_i hc
      cases h
      simp only [Bool.and_eq_true, Bool.not_eq_true', List.isEmpty_eq_false_iff] at hc
      refine ⟨hc.1, hc.2, k, List.mem_of_find?_eq_some hf, ?_⟩
      simpa using List.find?_some hf
    · cases h
  · cases h

/-- Nothing at all - no packet, no event - for a query on an interface where no registered
    service is announced: never registered, unregistered (the map no longer has it), or all
    still probing. -/
theorem nothing_unless_announced (s : State) (now : Nat) (p : RxPkt) (i : MyIntf)
    (h : ∀ e ∈ s.services, e.2.announcedOn i.index = false) : (handleQuery s now p i).2 = [] :=
  handleQuery_silent s now p i h

/-- Every record of every response - answers and additionals - has TTL 4500 s without the
    cache-flush bit (PTR), 4500 s with the bit (TXT), 120 s with the bit (SRV, A, AAAA), and
    an address record carries an address inside the subnet of one of the receiving interface's
    addresses.  (Multicast response; for legacy unicast see `legacy_unicast`.) -/
theorem response_records (s : State) (p : RxPkt) (i : MyIntf) (reg : Registry) :
    (∀ a ∈ (specResp s p i reg).answers, RecordOk i a ∧ suppressedBy a p.msg.answers = false) ∧
    (∀ a ∈ (specResp s p i reg).additionals, RecordOk i a) := by
  constructor
  · intro a ha
    simp only [specResp, List.mem_filter, List.mem_flatMap] at ha
    obtain ⟨⟨q, _, hq⟩, hk⟩ := ha
    exact ⟨specAnswers_ok hq, by simpa [kept] using hk⟩
  · intro a ha
    simp only [specResp, List.mem_flatMap] at ha
    obtain ⟨q, _, hq⟩ := ha
    exact specAdditionals_ok hq

/-- Legacy unicast: a query whose source port is not 5353 is answered - if at all - by ONE
    packet to its sender (not to the multicast group), with the query's id, the questions
    echoed, and the cache-flush bit cleared on every record. -/
theorem legacy_unicast (s : State) (now : Nat) (p : RxPkt) (i : MyIntf) (hport : p.srcPort ≠ MDNS_PORT)
    (idx : Nat) (v4 : Bool) (dest : Option BList) (pkt : Packet)
    (h : Out.send idx v4 dest pkt ∈ (handleQuery s now p i).2) :
    dest = some p.src ∧ idx = i.index ∧ v4 = p.srcV4 ∧ pkt.id = p.msg.id ∧
    pkt.questions = p.msg.questions.map (fun q => (q.name, q.ty)) ∧
    (∀ a ∈ pkt.answers ++ pkt.additionals, a.flush = false) ∧ pkt.authorities = [] := by
  cases hreg : alookup p.ifIdx s.registries with
  | none => simp [handleQuery, hreg] at h
  | some reg =>
    rw [handleQuery_eq_spec s now p i reg hreg] at h
    have hp : (p.srcPort != MDNS_PORT) = true := by simpa using hport
    split at h
    · simp at h
    · simp only [hp, List.mem_append, notify, List.mem_map] at h
      rcases h with h | ⟨_, _, h⟩
      · split at h
        · simp only [List.mem_cons, Out.send.injEq, List.not_mem_nil, or_false] at h
          obtain ⟨e1, e2, e3, e4⟩ := h
          subst e1 e2 e3 e4
          refine ⟨rfl, rfl, rfl, rfl, rfl, ?_, rfl⟩
          intro a ha
          simp only [responsePkt, ↓reduceIte, List.mem_append, List.mem_map] at ha
          rcases ha with ⟨b, _, rfl⟩ | ⟨b, _, rfl⟩ <;> rfl
        · simp at h
      · cases h

/-- Multicast: a query from port 5353 is answered - if at all - by ONE packet to the multicast
    group with id 0, no questions, and the rule's records with their cache-flush bits. -/
theorem multicast_reply (s : State) (now : Nat) (p : RxPkt) (i : MyIntf) (reg : Registry)
    (hreg : alookup p.ifIdx s.registries = some reg) (hport : p.srcPort = MDNS_PORT)
    (idx : Nat) (v4 : Bool) (dest : Option BList) (pkt : Packet)
    (h : Out.send idx v4 dest pkt ∈ (handleQuery s now p i).2) :
    dest = none ∧ idx = i.index ∧ v4 = p.srcV4 ∧ pkt.id = 0 ∧ pkt.questions = [] ∧ pkt.authorities = [] ∧
    pkt.answers = (specResp s p i reg).answers ∧ pkt.additionals = (specResp s p i reg).additionals := by
  rw [handleQuery_eq_spec s now p i reg hreg] at h
  have hp : (p.srcPort != MDNS_PORT) = false := by simp [hport]
  split at h
  · simp at h
  · simp only [hp, Bool.false_eq_true, ↓reduceIte, List.mem_append, notify, List.mem_map] at h
    rcases h with h | ⟨_, _, h⟩
    · split at h
      · simp only [List.mem_cons, Out.send.injEq, List.not_mem_nil, or_false] at h
        obtain ⟨e1, e2, e3, e4⟩ := h
        subst e1 e2 e3 e4
        exact ⟨rfl, rfl, rfl, rfl, rfl, rfl, rfl, rfl⟩
      · simp at h
    · cases h

/-! ### the values of the most recent register call -/

/-- same data, whatever the per-interface status -/
def SameData (a b : Service) : Prop :=
  a.ty = b.ty ∧ a.sub = b.sub ∧ a.fullname = b.fullname ∧ a.host = b.host ∧ a.port = b.port ∧ a.addrs = b.addrs ∧
  a.txt = b.txt ∧ a.probe = b.probe

theorem unsolOnIntf_data (now j : Nat) (u : Unsol) (i : MyIntf) : SameData (unsolOnIntf now j u i).svc u.svc := by
  unfold unsolOnIntf
  simp only []
  split <;> simp [SameData, Service.setStatus]

/-- After `register(svc)` the map holds, under the lower-cased full name, a service with exactly
    the data of this call (an earlier registration of the name, in whatever letter case, is
    replaced): these are the values every later answer is built from. -/
theorem register_stores_latest (s : State) (svc : Service) (now j : Nat) :
    ∃ svc', alookup (lower svc.fullname) (registerChecked s svc now j).1.services = some svc' ∧ SameData svc' svc := by
  refine ⟨(sendUnsolicited s svc now j).svc, by simp [registerChecked, alookup_aset_self], ?_⟩
  unfold sendUnsolicited
  simp only []
  exact foldl_inv (fun u => SameData u.svc svc) (unsolOnIntf now j) s.intfs { state := s, svc := svc }
    ⟨rfl, rfl, rfl, rfl, rfl, rfl, rfl, rfl⟩
    (fun u i _ hu => by
      obtain ⟨a1, a2, a3, a4, a5, a6, a7, a8⟩ := unsolOnIntf_data now j u i
      obtain ⟨b1, b2, b3, b4, b5, b6, b7, b8⟩ := hu
      exact ⟨a1.trans b1, a2.trans b2, a3.trans b3, a4.trans b4, a5.trans b5, a6.trans b6, a7.trans b7, a8.trans b8⟩)

/-! ### non-vacuity: a concrete announced service, concrete queries -/

/-- the state after the life cycle of `web` on `eth0` (announced) -/
def announcedState : State :=
  (run (init 1000000 [eth0])
    [{ now := 1000000, jitter := 7, cmds := [.register web] }, { now := 1000007, jitter := 7 },
     { now := 1000257, jitter := 7 }, { now := 1000507, jitter := 7 }, { now := 1000757, jitter := 7 }]).1

def qPtr : Wire.Msg := { id := 4660, flags := 0, questions := [{ name := web.ty, ty := 12, cls := 1, flush := false }],
                         answers := [], authorities := [], additionals := [] }

/-- `192.168.1.50:5353` / `192.168.1.50:40000` -/
def src5353 : BList := [0x31,0x39,0x32,0x2e,0x31,0x36,0x38,0x2e,0x31,0x2e,0x35,0x30,0x3a,0x35,0x33,0x35,0x33]
def src40000 : BList := [0x31,0x39,0x32,0x2e,0x31,0x36,0x38,0x2e,0x31,0x2e,0x35,0x30,0x3a,0x34,0x30,0x30,0x30,0x30]

/-- a PTR question for the type: PTR answer, SRV + TXT + A additionals, multicast, id 0 -/
example :
    (handleQuery announcedState 1002000 { ifIdx := 2, sockV4 := true, src := src5353, srcV4 := true, srcPort := 5353, msg := qPtr } eth0).2 =
      [.send 2 true none
        { flags := FLAGS_RESPONSE,
          answers := [{ name := web.ty, ty := 12, flush := false, ttl := 4500, rdata := .ptr web.fullname }],
          additionals := [{ name := web.fullname, ty := 33, flush := true, ttl := 120, rdata := .srv 0 0 80 web.host },
                          { name := web.fullname, ty := 16, flush := true, ttl := 4500, rdata := .txt [0] },
                          { name := web.host, ty := 1, flush := true, ttl := 120, rdata := .a [192, 168, 1, 20] }] }] := by
  decide +kernel

/-- the same question from port 40000: unicast to the sender, id and question echoed, no
    cache-flush bit anywhere -/
example :
    (handleQuery announcedState 1002000 { ifIdx := 2, sockV4 := true, src := src40000, srcV4 := true, srcPort := 40000, msg := qPtr } eth0).2 =
      [.send 2 true (some src40000)
        { id := 4660, flags := FLAGS_RESPONSE, questions := [(web.ty, 12)],
          answers := [{ name := web.ty, ty := 12, flush := false, ttl := 4500, rdata := .ptr web.fullname }],
          additionals := [{ name := web.fullname, ty := 33, flush := false, ttl := 120, rdata := .srv 0 0 80 web.host },
                          { name := web.fullname, ty := 16, flush := false, ttl := 4500, rdata := .txt [0] },
                          { name := web.host, ty := 1, flush := false, ttl := 120, rdata := .a [192, 168, 1, 20] }] }] := by
  decide +kernel

/-- while `web` is still probing the same question gets nothing -/
example :
    (handleQuery (iter (init 1000000 [eth0]) { now := 1000000, jitter := 7, cmds := [.register web] }).1 1000100
      { ifIdx := 2, sockV4 := true, src := src5353, srcV4 := true, srcPort := 5353, msg := qPtr } eth0).2 = [] := by
  decide +kernel

/-! ### a renamed instance name with upper-case letters (repair of D39) -/

/-- `Web._http._tcp.local.` was renamed to `Web (2)._http._tcp.local.` by conflict resolution -/
def renamedFull : BList :=
  [0x57,0x65,0x62,0x20,0x28,0x32,0x29,0x2e,0x5f,0x68,0x74,0x74,0x70,0x2e,0x5f,0x74,0x63,0x70,0x2e,0x6c,0x6f,0x63,0x61,0x6c,0x2e]

def renamedReg : Registry := { nameChanges := [(webMixed.fullname, renamedFull)] }

def renamedServices : List (BList × Service) := [(lower webMixed.fullname, webMixed.setStatus 2 .announced)]

/-- REGRESSION (D39, witness corpus/C08/d39_mixed_case_rename_not_defended.ops): after the
    rename the daemon answers SRV / TXT / ANY questions for the NEW name (asked in any letter
    case) and no longer for the original one; before the repair it was the other way round for
    names with upper-case letters -/
example :
    (instanceOf renamedServices eth0dual renamedReg true (lower renamedFull)).isSome = true ∧
    (instanceOf renamedServices eth0dual renamedReg true renamedFull).isSome = true ∧
    instanceOf renamedServices eth0dual renamedReg true webMixed.fullname = none ∧
    instanceOf renamedServices eth0dual renamedReg true (lower webMixed.fullname) = none := by decide

/-- the instance an SRV / TXT / ANY question is answered from does not depend on the letter
    case of the question, nor on the key the service is filed under -/
theorem rule_instance_case_insensitive (services : List (BList × Service)) (i : MyIntf) (reg : Registry) (v4 : Bool)
    (q1 q2 : BList) (h : lower q1 = lower q2) : instanceOf services i reg v4 q1 = instanceOf services i reg v4 q2 := by
  unfold instanceOf
  rw [h]

/-! ### the SRV target after a host rename (repair of D37) -/

/-- the SRV record of a direct answer (SRV / ANY question on the instance name) names the
    CURRENT host name of the service - the name as registered resolved through the renames by
    conflict resolution - and the address records added to an SRV answer are filed under that
    same name: the name the daemon answers address questions for (`addrRule`).  Before the repair
    both carried the host name as registered, which the daemon no longer answers for. -/
theorem rule_srv_target_current (reg : Registry) (i : MyIntf) (v4 : Bool) (qname : BList) (qtype : Nat) (svc : Service) :
    (∀ a ∈ instRule reg qname qtype (some svc), a.ty = TYPE_SRV → a.rdata = .srv 0 0 svc.port (reg.resolveName svc.host)) ∧
    (∀ a ∈ instAdditionals reg i v4 qtype (some svc), a.name = reg.resolveName svc.host) ∧
    (∀ a ∈ addrRule i reg (reg.resolveName svc.host) TYPE_ANY svc, a.name = reg.resolveName svc.host) := by
  refine ⟨?_, ?_, ?_⟩
  · intro a ha hty
    simp only [instRule, List.mem_append] at ha
    rcases ha with ha | ha
    · split at ha
      · simp only [List.mem_cons, List.not_mem_nil, or_false] at ha; subst ha; rfl
      · simp at ha
    · split at ha
      · simp only [List.mem_cons, List.not_mem_nil, or_false] at ha; subst ha; exact absurd hty (by simp [TYPE_TXT, TYPE_SRV])
      · simp at ha
  · intro a ha
    simp only [instAdditionals] at ha
    split at ha
    · simp only [List.mem_map] at ha
      obtain ⟨_, _, rfl⟩ := ha
      rfl
    · simp at ha
  · intro a ha
    unfold addrRule at ha
    split at ha
    · simp at ha
    · split at ha
      · simp at ha
      · simp only [List.mem_map] at ha
        obtain ⟨_, _, rfl⟩ := ha
        rfl

/-- the host of `web` was renamed `alpha.local.` -> `alpha-2.local.` by conflict resolution -/
def renamedHostReg : Registry :=
  { nameChanges := [(web.host, [0x61,0x6c,0x70,0x68,0x61,0x2d,0x32,0x2e,0x6c,0x6f,0x63,0x61,0x6c,0x2e])] }

/-- REGRESSION (D37, witness corpus/C08/d37_srv_target_after_host_rename.ops): the answer to an
    SRV question on the instance name has the NEW host name as target and brings the address
    under the new host name -/
example :
    instRule renamedHostReg web.fullname TYPE_SRV (some web) =
      [{ name := web.fullname, ty := TYPE_SRV, flush := true, ttl := TTL_HOST,
         rdata := .srv 0 0 80 [0x61,0x6c,0x70,0x68,0x61,0x2d,0x32,0x2e,0x6c,0x6f,0x63,0x61,0x6c,0x2e] }] ∧
    instAdditionals renamedHostReg eth0 true TYPE_SRV (some web) =
      [{ name := [0x61,0x6c,0x70,0x68,0x61,0x2d,0x32,0x2e,0x6c,0x6f,0x63,0x61,0x6c,0x2e], ty := TYPE_A, flush := true, ttl := TTL_HOST,
         rdata := .a [192, 168, 1, 20] }] := by decide

end Mdns.Props.C06
