import Mdns.Lemmas.Cache
/-
  C10  Known answers suppress exactly what they should, on both sides.

  Property theorems only (helper lemmas are in `Mdns/Lemmas/Record.lean`, `Mdns/Lemmas/Cache.lean`).
  Model: `Mdns/Model/Record.lean` (`matches`, `suppressed_by_answer`, `suppressed_by`,
  `halflife_passed`, `update_ttl` of src/dns_parser.rs) and `Mdns/Model/Cache.lean`
  (`get_known_answers` of src/dns_cache.rs).
  Component level: "all other matching records are still answered" and "still sends the
  query on every interface" are clauses about `handle_query` / `send_query_vec` of the
  daemon and are not part of this file.
-/
namespace Mdns.Props.C10
open Mdns Mdns.Rec Mdns.Rec.Record Mdns.Cache

/-! ### responder side -/

/-- What `matches` compares: owner name, type, class, **the cache-flush bit**, and the RDATA
    fields of the record kind - for addresses including the interface the record was
    learned on. -/
theorem matches_iff (a b : Record) :
    a.matchesRec b = true ↔
      a.name = b.name ∧ a.ty = b.ty ∧ a.cls = b.cls ∧ a.flush = b.flush ∧ a.rdata = b.rdata :=
  matchesRec_iff a b

/-- What the code does (after the repair of D18): an answer `mine` is left out because of the
    known answer `other` iff `other` is that same record - owner (ASCII letter case ignored),
    type, class without the cache-flush bit, RDATA as on the wire - and its TTL is above half
    of mine.  The integer division `mine.ttl / 2` of the code is the exact half:
    `other.ttl > mine.ttl / 2` iff `2·other.ttl > mine.ttl`. -/
theorem suppress_iff (mine other : Record) :
    mine.suppressedByAnswer other = true ↔ mine.sameRecord other = true ∧ 2 * other.ttl > mine.ttl := by
  simp only [suppressedByAnswer, sameRecord, rrdataMatch, Bool.and_eq_true, decide_eq_true_eq]
  exact and_congr_right fun _ => half_ttl mine.ttl other.ttl

/-- Against a whole query: suppressed iff one of its answers suppresses. -/
theorem suppressedBy_iff (mine : Record) (answers : List Record) :
    mine.suppressedBy answers = true ↔ ∃ o ∈ answers, mine.sameRecord o = true ∧ 2 * o.ttl > mine.ttl := by
  simp only [suppressedBy, List.any_eq_true, suppress_iff]

/-- **The property statement** for the responder: an answer is left out iff the known answer
    is that same record - owner, type, class (without the cache-flush bit), RDATA (as on the
    wire) - with a TTL above half. -/
def C10_responder_full : Prop :=
  ∀ mine other : Record, mine.suppressedByAnswer other = true ↔ mine.sameRecord other = true ∧ 2 * other.ttl > mine.ttl

/-- The statement holds of the code at full strength (it did not before the repair of D18, when
    `suppressed_by_answer` used `matches`: cache-flush bit, letter case and - for addresses -
    the interface had to agree as well). -/
theorem responder_full : C10_responder_full := suppress_iff

/-- a unique record as the responder holds it (cache-flush bit set), TTL 120 -/
def mineSrv : Record := Record.new [0x69] 33 1 true 120 (.srv 0 0 80 [0x68]) 0
/-- the same record as a compliant querier lists it (RFC 6762 section 7.1 / 10.2: bit clear), TTL 100 -/
def knownSrv : Record := Record.new [0x69] 33 1 false 100 (.srv 0 0 80 [0x68]) 0

/-- Regression (defect D18, repaired): the same record listed with the cache-flush bit clear,
    in another letter case, or - an address - learned on another interface, with a TTL above
    half, is honoured; `matches` would have refused all three. -/
theorem D18_regression :
    mineSrv.suppressedByAnswer knownSrv = true ∧ mineSrv.matchesRec knownSrv = false ∧
    (Record.new [0x49] 33 1 true 120 (.srv 0 0 80 [0x68]) 0).suppressedByAnswer knownSrv = true ∧
    (Record.new [0x68] 1 1 true 120 (.addr [10, 0, 0, 1] [0x65] 2) 0).suppressedByAnswer
      (Record.new [0x68] 1 1 true 61 (.addr [10, 0, 0, 1] [] 0) 0) = true := by
  decide

/-- Never too much: an answer is only ever suppressed by that same record (owner, type, class,
    RDATA) with a TTL above half - "never when the listed TTL is below half or the record
    differs". -/
theorem suppress_sound (mine other : Record) (h : mine.suppressedByAnswer other = true) :
    mine.sameRecord other = true ∧ 2 * other.ttl > mine.ttl :=
  (suppress_iff mine other).mp h

/-- ... and never too little: that same record with a TTL above half always suppresses,
    whatever the cache-flush bits and interfaces. -/
theorem suppress_complete (mine other : Record) (h : mine.sameRecord other = true) (ht : 2 * other.ttl > mine.ttl) :
    mine.suppressedByAnswer other = true :=
  (suppress_iff mine other).mpr ⟨h, ht⟩

/-! ### querier side -/

/-- **Known answers** listed for a question `name`/`ty` at `now` are exactly the entries
    cached for it (`entriesFor`: the PTR / SRV / TXT entries under `name`, for A and AAAA all
    address entries under the lower-cased `name`, nothing for other types) that are shared
    (cache-flush bit clear) and whose half-life has not passed: `now ≤ created + 500·ttl`. -/
theorem known_iff (c : Cache) (name : BList) (ty now : Nat) (e : Entry) :
    e ∈ knownAnswers c name ty now ↔
      e ∈ entriesFor c name ty ∧ e.record.flush = false ∧ now ≤ e.record.created + 500 * e.record.ttl ∧
        1000 * e.record.ttl ≤ 2 * (e.record.expires - now) := by
  simp only [knownAnswers, List.mem_filter, isUnique, Bool.and_eq_true, Bool.not_eq_true', halflifePassed_eq_false_iff,
    decide_eq_true_eq, ge_iff_le, and_assoc]

/-- **Never one with less than half of its lifetime left** - also when the end of the record's
    life was brought forward (a cache flush by a same-name record, `verify`): a listed record
    really lives for at least half its TTL from `now` on, `now + 500·ttl ≤ expires`.
    (Before the repair of C10-F1 only `created + ttl` was looked at.) -/
theorem known_half_really_left (c : Cache) (name : BList) (ty now : Nat) (e : Entry)
    (h : e ∈ knownAnswers c name ty now) (hpos : 0 < e.record.ttl) : now + 500 * e.record.ttl ≤ e.record.expires := by
  have := ((known_iff c name ty now e).mp h).2.2.2
  omega

/-- For a record whose end was never touched (`expires = created + 1000·ttl`) the new condition
    is the half-life condition: nothing changed for ordinary records. -/
theorem known_iff_untouched (c : Cache) (name : BList) (ty now : Nat) (e : Entry)
    (hexp : e.record.expires = e.record.created + 1000 * e.record.ttl) :
    e ∈ knownAnswers c name ty now ↔
      e ∈ entriesFor c name ty ∧ e.record.flush = false ∧ now ≤ e.record.created + 500 * e.record.ttl := by
  rw [known_iff, hexp]
  constructor
  · rintro ⟨a, b, c', _⟩; exact ⟨a, b, c'⟩
  · rintro ⟨a, b, c'⟩; exact ⟨a, b, c', by omega⟩

/-- which entries a question looks at -/
theorem entriesFor_cases (c : Cache) (name : BList) (ty : Nat) :
    entriesFor c name ty =
      if ty = 12 then (c.ptr.get name).getD []
      else if ty = 33 then (c.srv.get name).getD []
      else if ty = 1 ∨ ty = 28 then (c.addr.get (lower name)).getD []
      else if ty = 16 then (c.txt.get name).getD []
      else [] := rfl

/-- Listed answers keep the order of the cache and nothing is listed twice that is cached once. -/
theorem known_sublist (c : Cache) (name : BList) (ty now : Nat) :
    (knownAnswers c name ty now).Sublist (entriesFor c name ty) := List.filter_sublist

/-- **The written TTL** (`update_ttl` on the copy that goes into the query).  For a record
    created at or before `now` whose half-life has not passed (exactly the guard of
    `known_iff`) and whose TTL fits `u32`: no underflow, and the written TTL `t'` is the
    remaining lifetime rounded up to whole seconds,
    `1000·t' − 1000 < created + 1000·ttl − now ≤ 1000·t'`; it is at least half the TTL. -/
theorem written_ttl (r : Record) (now : Nat) (hc : r.created ≤ now) (hhalf : now ≤ r.created + 500 * r.ttl)
    (h32 : r.ttl < 4294967296) :
    ∃ r', r.updateTtl now = .ok r' ∧
      1000 * r'.ttl < r.created + 1000 * r.ttl - now + 1000 ∧ r.created + 1000 * r.ttl - now ≤ 1000 * r'.ttl ∧
      r.ttl ≤ 2 * r'.ttl ∧ r'.ttl ≤ r.ttl ∧
      r' = { r with ttl := r'.ttl } := by
  unfold updateTtl
  by_cases hgt : now > r.created
  · have hq : (now - r.created) / 1000 < 4294967296 := by omega
    have he : r.elapsedSecs now = (now - r.created) / 1000 := by
      unfold elapsedSecs
      exact Nat.mod_eq_of_lt hq
    have hle : ¬ r.elapsedSecs now > r.ttl := by rw [he]; omega
    simp only [hgt, if_true, hle, if_false]
    refine ⟨_, rfl, ?_, ?_, ?_, ?_, rfl⟩ <;> simp only [he] <;> omega
  · simp only [hgt, if_false]
    refine ⟨r, rfl, ?_, ?_, ?_, ?_, rfl⟩ <;> omega

/-- Every listed known answer can be written: no panic for any entry `get_known_answers` returns. -/
theorem known_written (c : Cache) (name : BList) (ty now : Nat) (e : Entry) (h : e ∈ knownAnswers c name ty now)
    (hc : e.record.created ≤ now) (h32 : e.record.ttl < 4294967296) : e.record.updateTtl now ≠ .panic := by
  obtain ⟨r', hr, _⟩ := written_ttl e.record now hc ((known_iff c name ty now e).mp h).2.2.1 h32
  rw [hr]
  intro h; cases h

/-- Outside the guard the subtraction does underflow (why the guard matters): one full
    second past the end of a record's life `update_ttl` panics. -/
theorem updateTtl_underflow (r : Record) (now : Nat) (h : now ≥ r.created + 1000 * r.ttl + 1000)
    (h32 : (now - r.created) / 1000 < 4294967296) : r.updateTtl now = .panic := by
  unfold updateTtl
  have hgt : now > r.created := by omega
  have he : r.elapsedSecs now = (now - r.created) / 1000 := Nat.mod_eq_of_lt h32
  have : r.elapsedSecs now > r.ttl := by rw [he]; omega
  simp [hgt, this]

/-- The two sides fit: a known answer written by this querier before the half-life (strictly)
    suppresses the same record at a responder that would send the original TTL. -/
theorem written_suppresses (r : Record) (now : Nat) (hc : r.created ≤ now) (hhalf : now < r.created + 500 * r.ttl)
    (h32 : r.ttl < 4294967296) :
    ∃ r', r.updateTtl now = .ok r' ∧ r.suppressedByAnswer r' = true := by
  obtain ⟨r', h1, h2, h3, _, _, h6⟩ := written_ttl r now hc (by omega) h32
  refine ⟨r', h1, ?_⟩
  rw [suppress_iff, sameRecord_iff, h6]
  exact ⟨⟨rfl, rfl, rfl, rfl⟩, by simp only []; omega⟩

/-! ### Non-vacuity -/

def ptrRec : Record := Record.new [0x74] 12 1 false 4500 (.ptr [0x69]) 1000
def uniqueRec : Record := Record.new [0x74] 12 1 true 4500 (.ptr [0x6A]) 1000
def cache1 : Cache := { ptr := [([0x74], [⟨ptrRec, [0x65], 2⟩, ⟨uniqueRec, [0x65], 2⟩])] }

/-- a shared PTR is listed until its half-life (2 250 000 ms after creation), the unique one never -/
example : (knownAnswers cache1 [0x74] 12 2251000).map (·.record.rdata) = [.ptr [0x69]] := by decide
example : knownAnswers cache1 [0x74] 12 2251001 = [] := by decide
/-- C10-F1 regression: the same PTR, its end brought forward to 4 000 (flushed at 3 000): at 3 500
    it is 2.5 s old, far from its half-life - and not listed any more -/
def flushedPtr : Record := { ptrRec with expires := 4000 }
def cache2 : Cache := { ptr := [([0x74], [⟨flushedPtr, [0x65], 2⟩])] }
example : knownAnswers cache2 [0x74] 12 3500 = [] := by decide
example : flushedPtr.halflifePassed 3500 = false := by decide
/-- written TTL one and a half seconds after creation: 4499 -/
example : ptrRec.updateTtl 2500 = .ok { ptrRec with ttl := 4499 } := by decide
example : ptrRec.updateTtl 4502000 = .panic := by decide
/-- same record, TTL 2251 of 4500: suppressed; 2250: not -/
example : ptrRec.suppressedByAnswer { ptrRec with ttl := 2251 } = true := by decide
example : ptrRec.suppressedByAnswer { ptrRec with ttl := 2250 } = false := by decide
/-- another instance: not suppressed -/
example : ptrRec.suppressedByAnswer { ptrRec with rdata := .ptr [0x6A] } = false := by decide
/-- `suppress_partial` is not vacuous: hypotheses hold and both sides are true -/
example : ptrRec.flush = ({ ptrRec with ttl := 2251 } : Record).flush ∧
    ptrRec.sameRecord { ptrRec with ttl := 2251 } = true := by decide

end Mdns.Props.C10
