import Mdns.Props.C03
/-
  C05  Departed services are reported removed, on time and only when true.

  Model: `Mdns/Model/Client.lean` (exact on scripted-responder histories, compared with the
  real daemon on every run).  `ServiceRemoved` has exactly two sources in the loop:
  `evict_expired_services` (+ `notify_service_removal`) and `resolve_updated_instances`.
-/
namespace Mdns.Props.C05
open Mdns Mdns.Rec Mdns.Cache Mdns.Client

/-- **removed_sound (one iteration).**  Every `ServiceRemoved(ty, inst)` emitted at `now` has
    one of the two reasons the code has, on a cache justified by the delivered records:
    * `EvictWhy`: in the cache before eviction a PTR entry of `ty` points to `inst`, and that
      entry has `expires ≤ now`, or the instance has SRV entries and all have `expires ≤ now`;
    * `UnresolveWhy`: `inst` had been reported resolved, a usable PTR of `ty` still points to it,
      and it cannot be resolved from the cache any more (see `invalid_why`). -/
theorem removed_sound (hist : List Delivery) (s : State) (now : Nat) (pkts : List Packet) (cmds : List Command)
    (h : CacheProv hist s.cache) :
    ∀ ch ty inst, Out.event ch (.removed ty inst) ∈ (iter s now pkts cmds).2 →
      RemovedWhy (CacheProv (hist ++ deliveries s now pkts)) now ty inst :=
  (ok_iter hist s now pkts cmds h).2.2

/-- over whole histories, from the start of the daemon -/
theorem removed_sound_run : ∀ (h : List (Nat × List Packet × List Command)) (hist0 : List Delivery) (s : State),
    CacheProv hist0 s.cache →
    ∀ now ch ty inst, (now, Out.event ch (.removed ty inst)) ∈ (run s h).2 →
      RemovedWhy (CacheProv (hist0 ++ C03.histOf s h)) now ty inst
  | [], _, _, _ => fun _ _ _ _ hm => by cases hm
  | (now, pkts, cmds) :: rest, hist0, s, h0 => by
    have h1 := ok_iter hist0 s now pkts cmds h0
    have h2 := removed_sound_run rest (hist0 ++ deliveries s now pkts) (iter s now pkts cmds).1 h1.1
    intro now' ch ty inst hm
    simp only [C03.histOf, run] at hm ⊢
    rw [← List.append_assoc]
    rcases List.mem_append.mp hm with hm | hm
    · obtain ⟨o, ho, he⟩ := List.mem_map.mp hm
      cases he
      exact (h1.2.2 ch ty inst ho).mono fun c hc => hc.mono fun d hd => List.mem_append_left _ hd
    · exact h2 now' ch ty inst hm

/-- what "cannot be resolved any more" means: no usable SRV (or one with an empty target),
    or no usable address under the host of the first usable SRV -/
theorem invalid_why (c : Cache) (now : Nat) (ty inst : BList) (h : (resolveFromCache c now ty inst).valid = false) :
    ty = [] ∨ inst = [] ∨ (srvHostPort (liveSrv c now inst)).1 = [] ∨
      liveAddrs c now (srvHostPort (liveSrv c now inst)).1 = [] := by
  simp only [Resolved.valid, resolveFromCache, Bool.not_eq_false', Bool.or_eq_true, List.isEmpty_iff] at h
  rcases h with ((h | h) | h) | h
  · exact Or.inl h
  · exact Or.inr (Or.inl h)
  · exact Or.inr (Or.inr (Or.inl h))
  · exact Or.inr (Or.inr (Or.inr h))

/-- **Never while live (eviction).**  If every PTR entry of `ty` that points to `inst` is
    unexpired and the instance has an unexpired SRV entry, `evict_expired_services` does not
    report it. -/
theorem not_evicted_while_live (c : Cache) (now : Nat) (ty inst : BList)
    (hptr : ∀ es, (ty, es) ∈ c.ptr → ∀ e ∈ es, aliasOf e = some inst → now < e.record.expires)
    (hsrv : ∀ l, c.srv.get inst = some l → ∃ x ∈ l, now < x.record.expires) : ¬ EvictWhy c now ty inst := by
  rintro ⟨es, hes, e, he, ha, h | ⟨l, hl, hall⟩⟩
  · have := hptr es hes e he ha
    omega
  · obtain ⟨x, hx, hlt⟩ := hsrv l hl
    have := hall x hx
    omega

/-- **Never while live (resolution).**  If the first usable SRV of the instance has a
    non-empty target with a usable address, `resolve_updated_instances` does not report it. -/
theorem not_unresolved_while_live (s : State) (now : Nat) (ty inst : BList) (hty : ty ≠ []) (hinst : inst ≠ [])
    (hhost : (srvHostPort (liveSrv s.cache now inst)).1 ≠ [])
    (haddr : liveAddrs s.cache now (srvHostPort (liveSrv s.cache now inst)).1 ≠ []) : ¬ UnresolveWhy s now ty inst := by
  rintro ⟨_, _, hv⟩
  rcases invalid_why s.cache now ty inst hv with h | h | h | h
  · exact hty h
  · exact hinst h
  · exact hhost h
  · exact haddr h

/-! ### on time: the goodbye / expiry step contract -/

/-- a goodbye (TTL 0, decoded as 1) delivered at `t` for a cached copy sets its expiry to
    exactly `t + 1000` (`reset_ttl`), whatever its TTL was -/
theorem goodbye_expiry (e : Entry) (ifName : BList) (ifIdx t : Nat) (w : Wire.Rec) (hg : w.ttl = 1) :
    (e.record.resetTtl (ofWire ifName ifIdx t w)).expires = t + 1000 := by
  simp [Record.resetTtl, ofWire, Record.new, expTime, hg]

/-- **completeness of the eviction report for PTR expiry**: an expired PTR entry of `ty`
    pointing to `inst` is reported, whatever else is in the cache -/
theorem evictReport_complete_ptr (now : Nat) (srv : Table) : ∀ (ptr : Table) (gone : List BList) (ty : BList)
    (es : List Entry) (e : Entry) (inst : BList), (ty, es) ∈ ptr → e ∈ es → aliasOf e = some inst →
    e.record.expires ≤ now → (ty, inst) ∈ evictReport now srv ptr gone
  | [], _, _, _, _, _, h, _, _, _ => by cases h
  | p :: rest, gone, ty, es, e, inst, h, he, ha, hx => by
    unfold evictReport
    simp only [List.mem_append]
    rcases List.mem_cons.mp h with h | h
    · left; right
      subst h
      simp only [List.mem_filterMap, List.mem_filter]
      exact ⟨e, ⟨he, by simpa using (not_live_iff now e).mpr hx⟩, by simp [ha]⟩
    · right
      exact evictReport_complete_ptr now srv rest _ ty es e inst h he ha hx

theorem mem_notifyRemoval_of (q : List (BList × Nat)) (rep : List (BList × BList)) (ty inst : BList) (ch : Nat)
    (hq : (ty, ch) ∈ q) (hr : (ty, inst) ∈ rep) : Out.event ch (.removed ty inst) ∈ notifyRemoval q rep := by
  simp only [notifyRemoval, List.mem_flatMap, List.mem_map, List.mem_eraseDups, List.mem_filter]
  exact ⟨(ty, ch), hq, inst, ⟨(ty, inst), ⟨hr, by simp⟩, rfl⟩, rfl⟩

/-- **Removal on time (step contract).**  In the eviction step of an iteration at `now`: if
    `ty` is browsed on channel `ch` and a PTR entry `ty → inst` has `expires ≤ now` - one
    second after a goodbye (`goodbye_expiry`), or at the end of its TTL - then
    `ServiceRemoved(ty, inst)` is sent on `ch` in this very step. -/
theorem removed_on_time (s : State) (now : Nat) (ty inst : BList) (ch : Nat) (es : List Entry) (e : Entry)
    (hq : (ty, ch) ∈ s.queriers) (hes : (ty, es) ∈ s.cache.ptr) (he : e ∈ es) (ha : aliasOf e = some inst)
    (hx : e.record.expires ≤ now) :
    Out.event ch (.removed ty inst) ∈ (evictServicesPhase s now).2 :=
  mem_notifyRemoval_of _ _ ty inst ch hq (evictReport_complete_ptr now s.cache.srv s.cache.ptr [] ty es e inst hes he ha hx)

/-- ... **and not before**: while every PTR entry `ty → inst` is unexpired and an SRV entry of
    the instance is unexpired, the eviction step sends no `ServiceRemoved(ty, inst)` -/
theorem not_removed_before (s : State) (now : Nat) (ty inst : BList) (ch : Nat)
    (hptr : ∀ es, (ty, es) ∈ s.cache.ptr → ∀ e ∈ es, aliasOf e = some inst → now < e.record.expires)
    (hsrv : ∀ l, s.cache.srv.get inst = some l → ∃ x ∈ l, now < x.record.expires) :
    Out.event ch (.removed ty inst) ∉ (evictServicesPhase s now).2 := by
  intro hm
  have := (mem_notifyRemoval _ _ ch ty inst hm).1
  exact not_evicted_while_live s.cache now ty inst hptr hsrv (evictReport_sound now _ _ [] ty inst this)

/-- the deadline of a verify request: `service_verify_queries(inst, t)` leaves no SRV entry of
    the instance with an expiry later than `t`; if nothing refreshes them, all of them have
    expired at `t` and the instance is reported by the eviction step (`EvictWhy`, second case) -/
theorem verify_deadline (t : Nat) (e : Entry) : (soonerEntry t e).record.expires ≤ t := by
  unfold soonerEntry Record.setExpireSooner
  split
  · simp [Record.setExpire]
  · simp only []
    omega

/-! ### quiet after a removal -/

/-- C05, last clause, at full strength on the model: run any history `pre`, then an iteration
    `last` that emits `ServiceRemoved(ty, inst)`; in the iterations after it that receive no
    datagram and no command (at any times `post`) no `ServiceResolved` for `inst` is emitted. -/
def removed_quiet_full : Prop :=
  ∀ (t0 : Nat) (intfs : List Intf) (pre : List (Nat × List Packet × List Command))
    (last : Nat × List Packet × List Command) (post : List Nat) (ch ch' t2 : Nat) (ty inst : BList) (r : Resolved),
    Out.event ch (.removed ty inst) ∈ (iter (run (init t0 intfs) pre).1 last.1 last.2.1 last.2.2).2 →
    r.fullname = inst →
    (t2, Out.event ch' (.resolved r)) ∉
      (run (iter (run (init t0 intfs) pre).1 last.1 last.2.1 last.2.2).1 (post.map fun t => (t, [], []))).2

/-- **removed_quiet, partial** (the full clause is refuted below, `removed_quiet_full_false`): a
    `ServiceResolved` of `resolve_updated_instances` needs a USABLE
    PTR entry of its type pointing to the instance in the cache of that moment.  So after a
    removal caused by the expiry (goodbye or TTL) of the PTR, nothing is resolved for the
    instance until a PTR for it is stored again.  Missing for the full clause: removals caused
    by an expired SRV / address while the PTR lives on (with several SRV records of one
    instance the first usable one can change by expiry alone). -/
theorem removed_quiet_partial (s : State) (now : Nat) (u : List BList) (ch : Nat) (r : Resolved)
    (h : Out.event ch (.resolved r) ∈ (resolveUpdated s now u).2) :
    ∃ es, (r.ty, es) ∈ s.cache.ptr ∧ ∃ e ∈ es, aliasOf e = some r.fullname ∧ usable now e = true := by
  unfold resolveUpdated at h
  split at h
  · cases h
  · simp only [List.mem_append, List.mem_map, List.mem_filter] at h
    rcases h with ⟨v, ⟨hv, _⟩, he⟩ | h
    · cases he
      exact mem_visits s now u v hv
    · exact absurd h (noResolved_notifyRemoval _ _ ch r)

/-! ### `removed_quiet_full` does not hold: a second SRV record takes over -/

def hostA : BList := [0x41, 0x2e]              -- "A."
def hostB : BList := [0x42, 0x2e]              -- "B."

/-- one announcement of the instance with TWO SRV records (shared, no cache-flush bit): target
    "B." port 81 (TTL 120) and target "A." port 80 (TTL 10, stored in front); address of "A." with
    TTL 5; two addresses of "B." with TTL 120 and 20 -/
def twoSrvAnnounce : Packet :=
  { ifIdx := 2, v4 := true,
    msg := { id := 0, flags := 0x8400, questions := [],
             answers := [C03.wrec C03.ty 12 120 (.ptr C03.inst)],
             authorities := [],
             additionals := [C03.wrec C03.inst 33 120 (.srv 0 0 81 hostB), C03.wrec C03.inst 33 10 (.srv 0 0 80 hostA),
                             C03.wrec hostA 1 5 (.a [10, 0, 0, 1]), C03.wrec hostB 1 120 (.a [10, 0, 0, 2]),
                             C03.wrec hostB 1 20 (.a [10, 0, 0, 3])] } }

/-- resolved with "A." at 1500; the address of "A." runs out at 6500: `resolve_service_from_cache`
    looks at the FIRST usable SRV only ("A.", no address left) and the instance is reported
    removed although the SRV to "B." and an address of "B." are live; at 21500 - no datagram, no
    command since - the SRV to "A." has run out and the expiry of an address of "B." re-resolves
    the instance: `ServiceResolved` with "B." port 81 -/
theorem removed_quiet_witness :
    ((run (init 1000 [C03.eth0])
        [(1000, [], [.browse C03.ty 1 false]), (1500, [twoSrvAnnounce], []), (6500, [], []), (21500, [], [])]).2.filterMap
        fun o => (match o.2 with
          | .event 1 (.resolved r) => if r.fullname == C03.inst then some (o.1, 1, r.port) else none
          | .event 1 (.removed _ i) => if i == C03.inst then some (o.1, 2, 0) else none
          | _ => none : Option (Nat × Nat × Nat))) =
      [(1500, 1, 80), (6500, 2, 0), (21500, 1, 81)] := by decide

/-- **`removed_quiet_full` is false of the model** (hence, by the correspondence, of the code; the
    same history reproduces on the real daemon: `corpus-candidates/C05/two_srv_removed_then_resolved.ops`).
    The removal itself is also one "while the instance still has a live PTR, a live SRV and a live
    address" - of the second SRV record, which `resolve_service_from_cache` does not look at
    (`not_unresolved_while_live` speaks of the first usable SRV). -/
theorem removed_quiet_full_false : ¬ removed_quiet_full := by
  intro h
  have h1 : Out.event 1 (.removed C03.ty C03.inst) ∈
      (iter (run (init 1000 [C03.eth0]) [(1000, [], [.browse C03.ty 1 false]), (1500, [twoSrvAnnounce], [])]).1
        6500 [] []).2 := by decide
  have h2 : (21500, Out.event 1 (.resolved
      { ty := C03.ty, sub := none, fullname := C03.inst, host := hostB, port := 81,
        addrs := [([10, 0, 0, 2], [0x65], 2)], txt := [] })) ∈
      (run (iter (run (init 1000 [C03.eth0]) [(1000, [], [.browse C03.ty 1 false]), (1500, [twoSrvAnnounce], [])]).1
        6500 [] []).1 ([21500].map fun t => (t, [], []))).2 := by decide
  exact h 1000 [C03.eth0] [(1000, [], [.browse C03.ty 1 false]), (1500, [twoSrvAnnounce], [])] (6500, [], []) [21500]
    1 1 21500 C03.ty C03.inst _ h1 rfl h2

/-! ### non-vacuity -/

open C03 in
/-- PTR goodbye at 3000: `ServiceRemoved` at 4000, not at 3000 -/
example :
    ((run (init 1000 [eth0]) [(1000, [], [.browse ty 1 false]), (1500, [announce], []),
        (3000, [{ announce with msg := { announce.msg with answers := [wrec ty 12 1 (.ptr inst)], additionals := [] } }], []),
        (3999, [], []), (4000, [], [])]).2.filter
        fun o => match o.2 with | .event _ (.removed ..) => true | _ => false) =
      [(4000, .event 1 (.removed ty inst))] := by decide

end Mdns.Props.C05
