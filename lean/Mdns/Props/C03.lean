import Mdns.Lemmas.Client
/-
  C03  A resolved service only ever shows live data that was actually received.

  Model: `Mdns/Model/Client.lean` (one loop iteration `Client.iter`, exact on scripted-responder
  histories: compared with the real daemon on every run, `Driver/SimClient.lean`).
  The theorems hold for ANY sequence of iterations (any times, packets, commands): no
  timeliness assumption.
-/
namespace Mdns.Props.C03
open Mdns Mdns.Rec Mdns.Cache Mdns.Client

/-- What a `ServiceResolved` event is built from, in terms of the cache `c` at the moment it
    is assembled at `now` ("usable" = not `expires_soon(now)`, i.e. `now + 1000 < expires`):
    * host and port are those of a usable SRV entry of the instance;
    * every address is the address of a usable entry under the lower-cased host, tagged with
      the interface of that entry - and every usable entry is listed (exactly those tags);
    * the TXT bytes are those of a usable TXT entry of the instance, or empty;
    * host and address set are not empty. -/
structure ResolvedFrom (c : Cache) (now : Nat) (r : Resolved) : Prop where
  srv : ∃ e ∈ (c.srv.get r.fullname).getD [], e.record.expiresSoon now = false ∧
    ∃ prio weight, e.record.rdata = .srv prio weight r.port r.host
  addr_sound : ∀ a ∈ r.addrs, ∃ e ∈ (c.addr.get (lower r.host)).getD [],
    e.record.expiresSoon now = false ∧ e.record.rdata = .addr a.1 a.2.1 a.2.2
  addr_complete : ∀ e ∈ (c.addr.get (lower r.host)).getD [], e.record.expiresSoon now = false →
    ∀ ip n i, e.record.rdata = .addr ip n i → (ip, n, i) ∈ r.addrs
  txt : r.txt = [] ∨ ∃ e ∈ (c.txt.get r.fullname).getD [], e.record.expiresSoon now = false ∧
    e.record.rdata = .txt r.txt
  host_ne : r.host ≠ []
  addrs_ne : r.addrs ≠ []

theorem usable_iff (now : Nat) (e : Entry) : usable now e = true ↔ e.record.expiresSoon now = false := by
  simp [usable]

/-- `resolve_service_from_cache`: a VALID result is built from usable entries only -/
theorem resolveFromCache_sound (c : Cache) (now : Nat) (ty inst : BList)
    (hv : (resolveFromCache c now ty inst).valid = true) : ResolvedFrom c now (resolveFromCache c now ty inst) := by
  have hv' := hv
  simp only [Resolved.valid, Bool.not_eq_true', Bool.or_eq_false_iff] at hv'
  obtain ⟨⟨⟨_, _⟩, hhost⟩, haddrs⟩ := hv'
  have hhost' : (resolveFromCache c now ty inst).host ≠ [] := by
    intro h; rw [h] at hhost; simp at hhost
  have haddrs' : (resolveFromCache c now ty inst).addrs ≠ [] := by
    intro h; rw [h] at haddrs; simp at haddrs
  refine ⟨?_, ?_, ?_, ?_, hhost', haddrs'⟩
  · -- SRV
    simp only [resolveFromCache] at hhost' ⊢
    cases hs : liveSrv c now inst with
    | none => simp [hs, srvHostPort] at hhost'
    | some e =>
      have hmem : e ∈ (c.srv.get inst).getD [] := List.mem_of_find?_eq_some hs
      have huse : usable now e = true := List.find?_some hs
      refine ⟨e, hmem, (usable_iff now e).mp huse, ?_⟩
      cases hr : e.record.rdata with
      | srv p w port h => exact ⟨p, w, by simp [srvHostPort, hr]⟩
      | _ => simp [hs, srvHostPort, hr] at hhost'
  · -- addresses: sound
    intro a ha
    simp only [resolveFromCache, liveAddrs, List.mem_eraseDups, List.mem_filterMap, List.mem_filter] at ha
    obtain ⟨e, ⟨hmem, huse⟩, hitem⟩ := ha
    refine ⟨e, hmem, (usable_iff now e).mp huse, ?_⟩
    unfold addrItemOf at hitem
    split at hitem
    · rename_i ip n i hr
      cases hitem
      exact hr
    · cases hitem
  · -- addresses: complete
    intro e hmem huse ip n i hr
    simp only [resolveFromCache, liveAddrs, List.mem_eraseDups, List.mem_filterMap, List.mem_filter]
    exact ⟨e, ⟨hmem, (usable_iff now e).mpr huse⟩, by simp [addrItemOf, hr]⟩
  · -- TXT
    simp only [resolveFromCache]
    cases ht : liveTxt c now inst with
    | none => left; simp [txtBytes]
    | some e =>
      have hmem : e ∈ (c.txt.get inst).getD [] := List.mem_of_find?_eq_some ht
      have huse : usable now e = true := List.find?_some ht
      cases hr : e.record.rdata with
      | txt b => right; exact ⟨e, hmem, (usable_iff now e).mp huse, by simp [txtBytes, hr]⟩
      | _ => left; simp [txtBytes, hr]

/-- **resolved_sound (one iteration).**  From a cache justified by the deliveries `hist`, an
    iteration at `now` leaves a cache justified by `hist` plus what this iteration delivered,
    and every `ServiceResolved` it emits is built - as `ResolvedFrom` says - from the usable
    entries of a cache that is so justified. -/
theorem resolved_sound (hist : List Delivery) (s : State) (now : Nat) (pkts : List Packet) (cmds : List Command)
    (h : CacheProv hist s.cache) :
    CacheProv (hist ++ deliveries s now pkts) (iter s now pkts cmds).1.cache ∧
    ∀ ch r, Out.event ch (.resolved r) ∈ (iter s now pkts cmds).2 →
      ∃ c, CacheProv (hist ++ deliveries s now pkts) c ∧ ResolvedFrom c now r := by
  have hk := ok_iter hist s now pkts cmds h
  refine ⟨hk.1, ?_⟩
  intro ch r hm
  obtain ⟨c, ty, inst, hc, rfl, hv⟩ := hk.2.1 ch r hm
  exact ⟨c, hc, resolveFromCache_sound c now ty inst hv⟩

/-- the deliveries of a whole history of iterations `(now, packets, commands)` -/
def histOf (s : State) : List (Nat × List Packet × List Command) → List Delivery
  | [] => []
  | (now, pkts, cmds) :: rest => deliveries s now pkts ++ histOf (iter s now pkts cmds).1 rest

/-- **CacheProv is an invariant of histories**, and every `ServiceResolved` of a history is
    built from usable entries of a justified cache. -/
theorem resolved_sound_run : ∀ (h : List (Nat × List Packet × List Command)) (hist0 : List Delivery) (s : State),
    CacheProv hist0 s.cache →
    CacheProv (hist0 ++ histOf s h) (run s h).1.cache ∧
    ∀ now ch r, (now, Out.event ch (.resolved r)) ∈ (run s h).2 →
      ∃ c, CacheProv (hist0 ++ histOf s h) c ∧ ResolvedFrom c now r
  | [], hist0, s, h0 => by
    simp only [histOf, List.append_nil, run]
    exact ⟨h0, fun _ _ _ hm => by cases hm⟩
  | (now, pkts, cmds) :: rest, hist0, s, h0 => by
    have h1 := resolved_sound hist0 s now pkts cmds h0
    have h2 := resolved_sound_run rest (hist0 ++ deliveries s now pkts) (iter s now pkts cmds).1 h1.1
    simp only [histOf, run]
    rw [← List.append_assoc]
    refine ⟨h2.1, ?_⟩
    intro now' ch r hm
    rcases List.mem_append.mp hm with hm | hm
    · obtain ⟨o, ho, he⟩ := List.mem_map.mp hm
      cases he
      obtain ⟨c, hc, hr⟩ := h1.2 ch r ho
      exact ⟨c, hc.mono fun d hd => List.mem_append_left _ hd, hr⟩
    · exact h2.2 now' ch r hm

/-! ### the same in terms of delivered records only -/

theorem slot_srv {ty : Nat} (h : slotOf ty = some .srv) : ty = 33 := by
  unfold slotOf at h
  repeat' split at h
  all_goals first | assumption | cases h

theorem slot_txt {ty : Nat} (h : slotOf ty = some .txt) : ty = 16 := by
  unfold slotOf at h
  repeat' split at h
  all_goals first | assumption | cases h

theorem slot_addr {ty : Nat} (h : slotOf ty = some .addr) : ty = 1 ∨ ty = 28 := by
  unfold slotOf at h
  repeat' split at h
  all_goals first | assumption | cases h

theorem not_soon {r : Record} {now : Nat} (h : r.expiresSoon now = false) : now + 1000 < r.expires := by
  simpa [Record.expiresSoon] using h

/-- a delivered record is still within its TTL at `now`, with the second to spare that the
    daemon demands (`expires_soon`) -/
def Fresh (d : Delivery) (now : Nat) : Prop := now + 1000 < d.time + 1000 * d.wire.ttl

/-- What the statement of C03 says about an event, in terms of the records DELIVERED to the
    daemon (the cache has disappeared from the statement). -/
structure FromDeliveries (hist : List Delivery) (now : Nat) (r : Resolved) : Prop where
  /-- host and port come from an SRV record received for that instance, within its TTL -/
  srv : ∃ d ∈ hist, d.wire.name = r.fullname ∧ d.wire.ty = 33 ∧
    (∃ prio weight, d.wire.rdata = .srv prio weight r.port r.host) ∧ Fresh d now
  /-- every address from an A/AAAA record received for that host (any letter case), within
      its TTL, on the interface the address is tagged with -/
  addr : ∀ a ∈ r.addrs, ∃ d ∈ hist, lower d.wire.name = lower r.host ∧ (d.wire.ty = 1 ∨ d.wire.ty = 28) ∧
    (d.wire.rdata = .a a.1 ∨ d.wire.rdata = .aaaa a.1) ∧ d.ifName = a.2.1 ∧ d.ifIdx = a.2.2 ∧ Fresh d now
  /-- the TXT bytes from a received TXT record of the instance, within its TTL (or none) -/
  txt : r.txt = [] ∨ ∃ d ∈ hist, d.wire.name = r.fullname ∧ d.wire.ty = 16 ∧ d.wire.rdata = .txt r.txt ∧ Fresh d now
  host_ne : r.host ≠ []
  addrs_ne : r.addrs ≠ []

theorem fresh_of {d : Delivery} {e : Entry} {now : Nat} (j : Justifies d e) (h : e.record.expiresSoon now = false) :
    Fresh d now := by
  have := not_soon h
  have := j.2.2.2.2.2.2.2
  unfold Fresh
  omega

theorem fromDeliveries_of (hist : List Delivery) (c : Cache) (now : Nat) (r : Resolved) (hc : CacheProv hist c)
    (hr : ResolvedFrom c now r) : FromDeliveries hist now r := by
  refine ⟨?_, ?_, ?_, hr.host_ne, hr.addrs_ne⟩
  · obtain ⟨e, hmem, huse, p, w, hrd⟩ := hr.srv
    obtain ⟨q, hq, hqk, hqe⟩ := mem_getD _ _ e hmem
    obtain ⟨⟨d, hd, j⟩, hf⟩ := hc .srv q hq e hqe
    refine ⟨d, hd, ?_, ?_, ?_, fresh_of j huse⟩
    · rw [← j.1, ← hqk]; exact hf.2
    · rw [← j.2.1]; exact slot_srv hf.1
    · have h5 := j.2.2.2.2.1
      rw [hrd] at h5
      cases hw : d.wire.rdata <;> simp [ofWire, Record.new, hw] at h5
      obtain ⟨rfl, rfl, rfl, rfl⟩ := h5
      exact ⟨_, _, rfl⟩
  · intro a ha
    obtain ⟨e, hmem, huse, hrd⟩ := hr.addr_sound a ha
    obtain ⟨q, hq, hqk, hqe⟩ := mem_getD _ _ e hmem
    obtain ⟨⟨d, hd, j⟩, hf⟩ := hc .addr q hq e hqe
    have hkey : lower d.wire.name = lower r.host := by
      rw [← j.1, ← hqk]; exact hf.2
    have hty : d.wire.ty = 1 ∨ d.wire.ty = 28 := by rw [← j.2.1]; exact slot_addr hf.1
    have h5 := j.2.2.2.2.1
    rw [hrd] at h5
    cases hw : d.wire.rdata <;> simp [ofWire, Record.new, hw] at h5
    · obtain ⟨h1, h2, h3⟩ := h5
      exact ⟨d, hd, hkey, hty, Or.inl (by rw [h1]; exact hw), h2.symm, h3.symm, fresh_of j huse⟩
    · obtain ⟨h1, h2, h3⟩ := h5
      exact ⟨d, hd, hkey, hty, Or.inr (by rw [h1]; exact hw), h2.symm, h3.symm, fresh_of j huse⟩
  · rcases hr.txt with h | ⟨e, hmem, huse, hrd⟩
    · exact Or.inl h
    · right
      obtain ⟨q, hq, hqk, hqe⟩ := mem_getD _ _ e hmem
      obtain ⟨⟨d, hd, j⟩, hf⟩ := hc .txt q hq e hqe
      refine ⟨d, hd, ?_, ?_, ?_, fresh_of j huse⟩
      · rw [← j.1, ← hqk]; exact hf.2
      · rw [← j.2.1]; exact slot_txt hf.1
      · have h5 := j.2.2.2.2.1
        rw [hrd] at h5
        cases hw : d.wire.rdata <;> simp [ofWire, Record.new, hw] at h5
        rw [h5]

/-- **C03 on whole histories.**  Start the daemon (empty cache) and run ANY history: every
    `ServiceResolved` emitted at `now` has its host and port from a delivered SRV record of the
    instance, each address from a delivered A/AAAA record of that host tagged with the
    interface it arrived on, its TXT from a delivered TXT record - each still within its TTL
    with a second to spare - and a non-empty host and address set. -/
theorem resolved_from_received (t0 : Nat) (intfs : List Intf) (h : List (Nat × List Packet × List Command))
    (now ch : Nat) (r : Resolved) (hm : (now, Out.event ch (.resolved r)) ∈ (run (init t0 intfs) h).2) :
    FromDeliveries (histOf (init t0 intfs) h) now r := by
  obtain ⟨c, hc, hr⟩ := (resolved_sound_run h [] (init t0 intfs) (cacheProv_empty [])).2 now ch r hm
  exact fromDeliveries_of _ c now r (by simpa using hc) hr

/-- corollary `resolved_not_stale`, goodbye clause: a record withdrawn by a goodbye (TTL 0,
    stored as 1) that was delivered at or before `now` never justifies an event at `now` -/
theorem goodbye_never_used (d : Delivery) (now : Nat) (hg : d.wire.ttl ≤ 1) (ht : d.time ≤ now) : ¬ Fresh d now := by
  unfold Fresh
  have : 1000 * d.wire.ttl ≤ 1000 := by omega
  omega

/-- corollary, TTL clause: nothing is used at or after `delivery time + TTL - 1 s` -/
theorem past_ttl_never_used (d : Delivery) (now : Nat) (h : d.time + 1000 * d.wire.ttl ≤ now + 1000) : ¬ Fresh d now := by
  unfold Fresh
  omega

/-- corollary, cache-flush clause: an entry displaced by a cache-flush record at `t` (the
    rule of `add_or_update`, `Props.C11.flush_rule`) is unusable from `t` on - not only "more
    than one second" later -/
theorem flushed_entry_unusable (inc : Record) (t : Nat) (e : Entry) (hf : shouldFlush inc t e = true)
    (now : Nat) (ht : t ≤ now) : usable now (flushOne inc t e) = false := by
  simp only [usable, flushOne, hf, if_true, Record.setExpire, Record.expiresSoon, Bool.not_eq_false',
    decide_eq_true_eq]
  omega

/-! ### non-vacuity: a concrete history -/

def ty : BList := [0x5f, 0x74, 0x2e]          -- "_t."
def inst : BList := [0x69, 0x2e, 0x5f, 0x74, 0x2e]   -- "i._t."
def host : BList := [0x48, 0x2e]              -- "H."
def eth0 : Intf := ⟨2, [0x65], true, false⟩

def wrec (name : BList) (ty ttl : Nat) (rd : Wire.RData) : Wire.Rec :=
  { name, ty, cls := 1, flush := false, ttl, rdata := rd, start := 0, stop := 0 }

/-- PTR, SRV, TXT and an address in one response on interface 2 -/
def announce : Packet :=
  { ifIdx := 2, v4 := true,
    msg := { id := 0, flags := 0x8400, questions := [],
             answers := [wrec ty 12 120 (.ptr inst)],
             authorities := [],
             additionals := [wrec inst 33 120 (.srv 0 0 80 host), wrec inst 16 120 (.txt [1, 0x61]),
                             wrec host 1 120 (.a [10, 0, 0, 1])] } }

def theEvent : Resolved :=
  { ty, sub := none, fullname := inst, host, port := 80, addrs := [([10, 0, 0, 1], [0x65], 2)], txt := [1, 0x61] }

/-- browse, then the announcement arrives: `ServiceFound` and `ServiceResolved` are emitted -/
example :
    ((run (init 1000 [eth0]) [(1000, [], [.browse ty 1 false]), (1500, [announce], [])]).2.filter
        fun o => match o.2 with | .event _ (.resolved _) => true | .event _ (.found ..) => true | _ => false) =
      [(1500, .event 1 (.found ty inst)), (1500, .event 1 (.resolved theEvent))] := by decide

/-- a goodbye for the address: after it nothing is resolved from that address any more, and
    the instance is reported removed one second later (see C05) -/
def goodbyeAddr : Packet :=
  { announce with msg := { announce.msg with answers := [wrec host 1 1 (.a [10, 0, 0, 1])], additionals := [] } }

example :
    ((run (init 1000 [eth0]) [(1000, [], [.browse ty 1 false]), (1500, [announce], []), (3000, [goodbyeAddr], []),
        (4000, [], [])]).2.filter
        fun o => match o.2 with | .event _ (.resolved _) => true | .event _ (.removed ..) => true | _ => false) =
      [(1500, .event 1 (.resolved theEvent)), (4000, .event 1 (.removed ty inst))] := by decide

end Mdns.Props.C03
