import Mdns.Lemmas.Cache
import Mdns.Props.C01
/-
  C11  Records live for their TTL, refresh at 80/85/90/95 %, obey cache-flush.

  Property theorems only (helper lemmas are in `Mdns/Lemmas/Record.lean`, `Mdns/Lemmas/Cache.lean`).
  Model: `Mdns/Model/Record.lean` (lifetime functions of src/dns_parser.rs) and
  `Mdns/Model/Cache.lean` (`add_or_update`, eviction, refresh look-ups of src/dns_cache.rs).
  Component level: the daemon-level clause ("while a search that needs it is open, the daemon
  re-queries ...") is the contract of these functions with the run loop and is not part of
  this file.
-/
namespace Mdns.Props.C11
open Mdns Mdns.Rec Mdns.Rec.Record Mdns.Cache

/-! ### lifetime -/

/-- A record received at time `t` with TTL `ttl` seconds counts as expired exactly from
    `t + 1000·ttl` milliseconds on ... -/
theorem expired_iff (name : BList) (ty cls : Nat) (flush : Bool) (ttl : Nat) (rd : RData) (t now : Nat) :
    (Record.new name ty cls flush ttl rd t).isExpired now = true ↔ now ≥ t + 1000 * ttl := by
  simp [isExpired, Record.new, expTime]
  omega

/-- ... so it is used until `t + 1000·ttl` and never after. -/
theorem used_until (name : BList) (ty cls : Nat) (flush : Bool) (ttl : Nat) (rd : RData) (t now : Nat) :
    (Record.new name ty cls flush ttl rd t).isExpired now = false ↔ now < t + 1000 * ttl := by
  rw [← Bool.not_eq_true, expired_iff]
  omega

/-- "TTL 0 means one second": every record of a decoded response has a TTL of at least one
    second (`C01.decode_ttl0`), so the cache entry made from it at time `t` is alive during
    the whole second after `t`. -/
theorem ttl0_one_second (d : Wire.Pkt) (m : Wire.Msg) (h : Wire.decode d = .ok m) (hresp : m.flags / 32768 % 2 = 1)
    (r : Wire.Rec) (hr : r ∈ C01.records m) (rd : RData) (t now : Nat) (hnow : now < t + 1000) :
    (Record.new r.name r.ty r.cls r.flush r.ttl rd t).isExpired now = false := by
  rw [used_until]
  have := C01.decode_ttl0 d m h hresp r hr
  omega

/-- A record whose end of life was set to `e` (cache-flush, verification) is expired exactly from `e` on. -/
theorem expired_after_setExpire (r : Record) (e now : Nat) : (r.setExpire e).isExpired now = true ↔ now ≥ e := by
  simp [isExpired, setExpire]

/-! ### the refresh schedule -/

/-- **The schedule.**  Take a fresh record (received at `t`, TTL `ttl ≥ 1`) and ask it
    "refresh now?" (`refresh_maybe`) at an arbitrary sequence of times.  The answers are
    exactly those of the specification `specRun`: the observation at `now` triggers a
    re-query iff the record has not expired (`now < t + 1000·ttl`), fewer than four
    re-queries were triggered so far, and `now` has reached the mark number
    (re-queries so far) of 80 / 85 / 90 / 95 % of the lifetime.  Afterwards the `refresh`
    field is the next mark (100 % after four). -/
theorem refresh_schedule (name : BList) (ty cls : Nat) (flush : Bool) (ttl : Nat) (rd : RData) (t : Nat)
    (httl : 1 ≤ ttl) (times : List Nat) :
    (runRefresh (Record.new name ty cls flush ttl rd t) times).1 = specRun t ttl 0 times ∧
    (runRefresh (Record.new name ty cls flush ttl rd t) times).2.refresh =
      markAt t ttl (fired (specRun t ttl 0 times)) := by
  have h := runRefresh_spec times (new_onSchedule name ty cls flush ttl rd t) httl
  exact ⟨h.1, by simpa using h.2.refresh⟩

/-- At most four re-queries, whatever the observation times are. -/
theorem refresh_at_most_four (name : BList) (ty cls : Nat) (flush : Bool) (ttl : Nat) (rd : RData) (t : Nat)
    (httl : 1 ≤ ttl) (times : List Nat) :
    fired (runRefresh (Record.new name ty cls flush ttl rd t) times).1 ≤ 4 := by
  rw [(refresh_schedule name ty cls flush ttl rd t httl times).1]
  have := specRun_fired_le t ttl times 0 (by omega)
  omega

/-- No re-query at or after expiry: every observation that triggers one lies before `t + 1000·ttl`. -/
theorem refresh_never_after_expiry (name : BList) (ty cls : Nat) (flush : Bool) (ttl : Nat) (rd : RData) (t : Nat)
    (httl : 1 ≤ ttl) (times : List Nat) :
    ∀ p ∈ paired times (runRefresh (Record.new name ty cls flush ttl rd t) times).1, p.2 = true → p.1 < t + 1000 * ttl := by
  rw [(refresh_schedule name ty cls flush ttl rd t httl times).1]
  exact specRun_before_expiry t ttl times 0

/-- At most one re-query per mark: before the mark number `j` (80 % is number 0) at most
    `j` re-queries are triggered; in particular none before 80 %, one before 85 %, ... -/
theorem refresh_one_per_mark (name : BList) (ty cls : Nat) (flush : Bool) (ttl : Nat) (rd : RData) (t : Nat)
    (httl : 1 ≤ ttl) (times : List Nat) (j : Nat) :
    firedBefore t ttl j (paired times (runRefresh (Record.new name ty cls flush ttl rd t) times).1) ≤ j := by
  rw [(refresh_schedule name ty cls flush ttl rd t httl times).1]
  exact specRun_one_per_mark t ttl j times 0

/-- The first re-query is triggered by the first observation at or after 80 % and before
    expiry: all earlier observations answer false, that one answers true, and the schedule
    continues with the 85 % mark. -/
theorem refresh_first (name : BList) (ty cls : Nat) (flush : Bool) (ttl : Nat) (rd : RData) (t : Nat)
    (httl : 1 ≤ ttl) (pre : List Nat) (now : Nat) (post : List Nat)
    (hpre : ∀ x ∈ pre, ¬ inWindow t ttl x) (hnow : inWindow t ttl now) :
    (runRefresh (Record.new name ty cls flush ttl rd t) (pre ++ now :: post)).1 =
      List.replicate pre.length false ++ true :: specRun t ttl 1 post := by
  rw [(refresh_schedule name ty cls flush ttl rd t httl _).1]
  exact specRun_first t ttl pre now post hpre hnow

/-- **Every mark is honoured**: an observer that looks exactly at 80, 85, 90 and 95 % of the
    lifetime (the daemon arms its timer for the `refresh` field, C12) gets a re-query each
    time - four in all, for every TTL ≥ 1 s and reception time; a look in between gets none. -/
theorem refresh_punctual (name : BList) (ty cls : Nat) (flush : Bool) (ttl : Nat) (rd : RData) (t : Nat)
    (httl : 1 ≤ ttl) :
    (runRefresh (Record.new name ty cls flush ttl rd t)
      [t + 800 * ttl, t + 850 * ttl, t + 850 * ttl, t + 900 * ttl, t + 950 * ttl, t + 999 * ttl]).1 =
      [true, true, false, true, true, false] := by
  rw [(refresh_schedule name ty cls flush ttl rd t httl _).1]
  have h0 : specFires t ttl 0 (t + 800 * ttl) = true := by
    simp [specFires, markAt, markPct, expTime]; omega
  have h1 : specFires t ttl 1 (t + 850 * ttl) = true := by
    simp [specFires, markAt, markPct, expTime]; omega
  have h1' : specFires t ttl 2 (t + 850 * ttl) = false := by
    simp [specFires, markAt, markPct, expTime]; omega
  have h2 : specFires t ttl 2 (t + 900 * ttl) = true := by
    simp [specFires, markAt, markPct, expTime]; omega
  have h3 : specFires t ttl 3 (t + 950 * ttl) = true := by
    simp [specFires, markAt, markPct, expTime]; omega
  have h4 : specFires t ttl 4 (t + 999 * ttl) = false := by
    simp [specFires]
  simp [specRun, h0, h1, h1', h2, h3, h4]

/-- The marks are 80, 85, 90 and 95 % of the lifetime, then its end. -/
theorem marks (t ttl : Nat) :
    markAt t ttl 0 = t + 800 * ttl ∧ markAt t ttl 1 = t + 850 * ttl ∧ markAt t ttl 2 = t + 900 * ttl ∧
    markAt t ttl 3 = t + 950 * ttl ∧ markAt t ttl 4 = t + 1000 * ttl := by
  simp [markAt, markPct, expTime]
  omega

/-- A fresh copy of the record (`reset_ttl` with a record received at `t2` with TTL
    `ttl2 > 1`) restarts everything: the cached record equals a record newly made at `t2`
    with TTL `ttl2`, so all schedule theorems above apply again from `t2`. -/
theorem reset_restarts (r other : Record) (h : 1 < other.ttl) :
    r.resetTtl other = Record.new r.name r.ty r.cls r.flush other.ttl r.rdata other.created := by
  simp [resetTtl, Record.new, h]

/-- **The restart, spelled out for any history**: whatever happened to the cached record before
    (any number of marks used up, `refresh_no_more`, an expiry brought forward by a cache
    flush), after a fresh copy with TTL `ttl2 > 1` received at `t2` the answers of
    `refresh_maybe` to any sequence of observation times are those of the full schedule counted
    from `t2`: again up to four re-queries, at 80 / 85 / 90 / 95 % of the NEW lifetime, and the
    record is used exactly until `t2 + 1000·ttl2`. -/
theorem refresh_schedule_after_reset (r other : Record) (h : 1 < other.ttl) (times : List Nat) :
    (runRefresh (r.resetTtl other) times).1 = specRun other.created other.ttl 0 times ∧
    fired (runRefresh (r.resetTtl other) times).1 ≤ 4 ∧
    ∀ now, (r.resetTtl other).isExpired now = true ↔ now ≥ other.created + 1000 * other.ttl := by
  rw [reset_restarts r other h]
  refine ⟨(refresh_schedule _ _ _ _ _ _ _ (by omega) times).1,
    refresh_at_most_four _ _ _ _ _ _ _ (by omega) times, fun now => ?_⟩
  simp [Record.new, isExpired, expTime]
  omega

/-- a record whose four marks are used up and whose end was brought forward fires again at 80 %
    of the new lifetime after a fresh copy (TTL 10 s received at 50 000 ms: 58 000 ms) -/
example :
    let old : Record := { name := [], ty := 1, cls := 1, flush := true, ttl := 120, created := 0,
                          expires := 1000, refresh := 120000, rdata := .txt [] }
    let fresh : Record := { old with ttl := 10, created := 50000 }
    (runRefresh (old.resetTtl fresh) [57999, 58000, 58001, 58500, 59000, 59500, 59999, 60000]).1 =
      [false, true, false, true, true, true, false, false] := by
  decide

/-- A copy with TTL 0 or 1 (a goodbye) restarts only the lifetime: the record lives until
    `t2 + 1000·ttl2` and is never refreshed again. -/
theorem reset_goodbye (r other : Record) (h : other.ttl ≤ 1) :
    (∀ now, (r.resetTtl other).isExpired now = true ↔ now ≥ other.created + 1000 * other.ttl) ∧
    ∀ times, (runRefresh (r.resetTtl other) times).1 = List.replicate times.length false := by
  have hn : ¬ 1 < other.ttl := by omega
  refine ⟨fun now => by simp [resetTtl, isExpired, expTime]; omega, ?_⟩
  intro times
  have hf : ∀ now, (r.resetTtl other).refreshFires now = false := by
    intro now
    simp only [refreshFires, isExpired, refreshDue, resetTtl, hn, if_false, Bool.and_eq_false_iff, Bool.not_eq_false',
      decide_eq_true_eq, decide_eq_false_iff_not]
    omega
  have hfix : ∀ now, (r.resetTtl other).refreshed now = r.resetTtl other := by
    intro now
    simp [refreshed, hf]
  induction times with
  | nil => rfl
  | cons now rest ih => simp [runRefresh, hfix, hf, ih, List.replicate_succ]

/-- Resolver addresses are re-queried once: `refresh_due_hostname_resolutions` lists an address
    that is due and not expired and marks it `refresh_no_more`; from then on the record
    (whose end of life is its natural one) never asks for a refresh again. -/
theorem resolution_refresh_once (r : Record) (h : r.expires = expTime r.created r.ttl 100) (now : Nat) :
    r.refreshNoMore.refreshFires now = false := by
  simp only [refreshFires, isExpired, refreshDue, refreshNoMore, h, Bool.and_eq_false_iff, Bool.not_eq_false',
    decide_eq_true_eq, decide_eq_false_iff_not]
  omega

/-! ### the cache-flush rule -/

/-- **Cache flush.**  `add_or_update` of a record `inc` arriving at `now`, on the entries `es`
    cached under its name:

    1. No entry is dropped or reordered by the flush step, and the entry at position `i`
       gets `expires := now + 1000` exactly when `inc` carries the cache-flush bit and the
       entry has the same class and type, was created more than one second ago
       (`created + 1000 < now`), has more than one second to live (`now + 1000 < expires`),
       and - for A/AAAA - was learned on the same interface index (`FlushCond`); every other
       entry is untouched.  Records of the same burst (`created + 1000 ≥ now`) are kept.
    2. Then the incoming record is stored: if no entry matches it, it is inserted in
       front with its interface; otherwise the first matching entry is refreshed from it
       (`reset_ttl`: its TTL and creation time, full lifetime) and the rest stays as after step 1. -/
theorem flush_rule (srcName : BList) (srcIdx : Nat) (inc : Record) (now : Nat) (es : List Entry) :
    (flushList inc now es).length = es.length ∧
    (∀ i : Nat, (flushList inc now es)[i]? = es[i]?.map fun e =>
      if inc.flush = true ∧ shouldFlush inc now e = true then { e with record := { e.record with expires := now + 1000 } } else e) ∧
    (∀ e, shouldFlush inc now e = true ↔ FlushCond inc now e) ∧
    (hasMatch inc es = false →
      addList srcName srcIdx inc now es = { record := inc, srcName, srcIdx } :: flushList inc now es) ∧
    (hasMatch inc es = true → ∃ pre e post,
      flushList inc now es = pre ++ e :: post ∧ (∀ x ∈ pre, x.record.matchesRec inc = false) ∧
      e.record.matchesRec inc = true ∧
      addList srcName srcIdx inc now es = pre ++ { e with record := e.record.resetTtl inc } :: post) := by
  refine ⟨flushList_length inc now es, flushList_getElem? inc now es, shouldFlush_iff inc now, ?_, ?_⟩
  · intro h
    simp [addList, upsert, hasMatch_flushList, h]
  · intro h
    have h' : hasMatch inc (flushList inc now es) = true := by rw [hasMatch_flushList]; exact h
    obtain ⟨pre, e, post, h1, h2, h3, h4, _⟩ := resetFirst_spec inc _ h'
    exact ⟨pre, e, post, h1, h2, h3, by simp [addList, upsert, h', h4]⟩

/-- Records of the same burst are kept: an entry created at most one second before `now`
    is never touched by the flush, and neither is one that expires within the second anyway. -/
theorem flush_keeps_burst (inc : Record) (now : Nat) (e : Entry)
    (h : now ≤ e.record.created + 1000 ∨ e.record.expires ≤ now + 1000) : flushOne inc now e = e := by
  have : shouldFlush inc now e = false := by
    rw [← Bool.not_eq_true, shouldFlush_iff]
    unfold FlushCond
    omega
  simp [flushOne, this]

/-- the refreshed copy has the TTL and arrival time of the incoming one and its full lifetime -/
theorem reset_fields (r inc : Record) :
    (r.resetTtl inc).ttl = inc.ttl ∧ (r.resetTtl inc).created = inc.created ∧
    (r.resetTtl inc).expires = inc.created + 1000 * inc.ttl ∧
    (r.resetTtl inc).name = r.name ∧ (r.resetTtl inc).rdata = r.rdata := by
  simp [resetTtl, expTime]
  omega

/-- In the cache: `add_or_update` of a record meant for us replaces exactly the entries of
    the record's own name in the table of its type by `addList` of them; every other name
    of that table keeps its entries. -/
theorem add_frame (c : Cache) (srcName : BList) (srcIdx : Nat) (inc : Record) (now : Nat) (s : Slot)
    (hs : slotOf inc.ty = some s) :
    ((addOrUpdate c srcName srcIdx inc now true).cache.table s).get (keyOf s inc.name) =
      some (addList srcName srcIdx inc now (((c.table s).get (keyOf s inc.name)).getD [])) ∧
    ∀ k, k ≠ keyOf s inc.name → ((addOrUpdate c srcName srcIdx inc now true).cache.table s).get k = (c.table s).get k := by
  have hsub : ∀ s, (noteSubtype c inc true).table s = c.table s := by
    intro s
    unfold noteSubtype
    split
    · split
      · split <;> cases s <;> rfl
      · rfl
    · rfl
  have htab : ∀ (c : Cache) (t : Table), (c.setTable s t).table s = t := by
    intro c t; cases s <;> rfl
  simp only [addOrUpdate, hs, Bool.not_true, Bool.and_false, Bool.false_eq_true, if_false, htab, hsub, addList]
  exact ⟨Table.get_set_self _ _ _, fun k hk => Table.get_set_ne _ _ _ _ hk⟩

/-! ### eviction -/

/-- **Eviction is exact** (addresses): after `evict_expired_addr(now)` a name keeps exactly
    its entries with `expires > now`, in their order, and a name without such entries is gone. -/
theorem evict_exact (c : Cache) (now : Nat) (k : BList) (es' : List Entry) :
    (k, es') ∈ (evictAddr c now).1.addr ↔
      ∃ es, (k, es) ∈ c.addr ∧ es' = es.filter (fun e => decide (now < e.record.expires)) ∧ es' ≠ [] := by
  have : (fun e : Entry => decide (now < e.record.expires)) = live now := by
    funext e
    rw [Bool.eq_iff_iff, live_iff]
    simp
  rw [this]
  exact mem_evictTable now c.addr k es'

/-- entry by entry: removed iff `expires ≤ now` -/
theorem evict_entry (now : Nat) (es : List Entry) (e : Entry) :
    e ∈ es.filter (live now) ↔ e ∈ es ∧ now < e.record.expires := by
  simp [List.mem_filter, live_iff]

/-- With distinct names (which `add_or_update` and eviction preserve) the same as a look-up:
    what `get_addr` finds after eviction are the unexpired entries it found before. -/
theorem evict_lookup (c : Cache) (now : Nat) (h : c.addr.keys.Nodup) (k : BList) :
    ((evictAddr c now).1.addr.get k).getD [] = ((c.addr.get k).getD []).filter (live now) := by
  have hn : (evictTable now c.addr).keys.Nodup := (keys_evictTable_sublist now c.addr).nodup h
  show ((evictTable now c.addr).get k).getD [] = _
  cases h1 : (evictTable now c.addr).get k with
  | some es' =>
    obtain ⟨es, hes, rfl, _⟩ := (mem_evictTable now c.addr k es').mp ((Table.get_eq_some_iff _ hn k es').mp h1)
    rw [(Table.get_eq_some_iff _ h k es).mpr hes]
    rfl
  | none =>
    cases h2 : c.addr.get k with
    | none => rfl
    | some es =>
      have hes := (Table.get_eq_some_iff _ h k es).mp h2
      by_cases hne : es.filter (live now) = []
      · simp [hne]
      · have := (Table.get_eq_some_iff _ hn k _).mpr ((mem_evictTable now c.addr k _).mpr ⟨es, hes, rfl, hne⟩)
        rw [h1] at this
        cases this

/-- distinct names are kept by `add_or_update` and by eviction -/
theorem keys_nodup_preserved (c : Cache) (srcName : BList) (srcIdx : Nat) (inc : Record) (now : Nat) (forUs : Bool)
    (h : c.addr.keys.Nodup) :
    (addOrUpdate c srcName srcIdx inc now forUs).cache.addr.keys.Nodup ∧ (evictAddr c now).1.addr.keys.Nodup := by
  refine ⟨?_, (keys_evictTable_sublist now c.addr).nodup h⟩
  have hsub : (noteSubtype c inc forUs).addr = c.addr := by
    unfold noteSubtype
    split
    · split
      · split <;> rfl
      · rfl
    · rfl
  have hset : ∀ (c' : Cache) (s : Slot) (t : Table), c'.addr.keys.Nodup → (s = .addr → t.keys.Nodup) →
      (c'.setTable s t).addr.keys.Nodup := by
    intro c' s t h1 h2
    cases s <;> first | exact h1 | exact h2 rfl
  have h' : (noteSubtype c inc forUs).addr.keys.Nodup := by rw [hsub]; exact h
  unfold addOrUpdate
  cases hs : slotOf inc.ty with
  | none => exact h'
  | some s =>
    simp only []
    by_cases hc : (((((noteSubtype c inc forUs).table s).get (keyOf s inc.name)).getD []).isEmpty && !forUs) = true
    · rw [if_pos hc]
      apply hset _ _ _ h'
      intro e; subst e
      exact Table.nodup_set _ _ _ h'
    · rw [if_neg hc]
      apply hset _ _ _ h'
      intro e; subst e
      exact Table.nodup_set _ _ _ h'

/-- PTR, SRV, TXT and NSEC entries: after `evict_expired_services(now)` every name of every
    one of the four tables keeps exactly its entries with `expires > now`, and a name left
    without entries is gone - also SRV/TXT/NSEC records that no PTR points to (repair of D19:
    before it such orphans were never evicted). -/
theorem evict_services_exact (c : Cache) (now : Nat) :
    (evictServices c now).1.ptr = evictLive now c.ptr ∧
    (evictServices c now).1.srv = evictLive now c.srv ∧
    (evictServices c now).1.txt = evictLive now c.txt ∧
    (evictServices c now).1.nsec = evictLive now c.nsec ∧
    ∀ (t : Table) k es', (k, es') ∈ evictLive now t ↔
      ∃ es, (k, es) ∈ t ∧ es' = es.filter (live now) ∧ es' ≠ [] := by
  refine ⟨rfl, rfl, rfl, rfl, ?_⟩
  intro t k es'
  simp only [evictLive, List.mem_filterMap]
  constructor
  · rintro ⟨p, hp, he⟩
    obtain ⟨pk, pv⟩ := p
    by_cases hem : (pv.filter (live now)).isEmpty = true
    · rw [if_pos hem] at he
      cases he
    · rw [if_neg hem] at he
      cases he
      exact ⟨pv, hp, rfl, by simpa using hem⟩
  · rintro ⟨es, hes, rfl, hne⟩
    refine ⟨(k, es), hes, ?_⟩
    have : ¬ (es.filter (live now)).isEmpty = true := by simpa using hne
    rw [if_neg this]

/-! ### Non-vacuity -/

def nm : BList := [0x61]
def sample : Record := Record.new nm 12 1 false 100 (.ptr [0x62]) 0

/-- TTL 100 s, observed at the four marks and at expiry: four re-queries, none at expiry
    (the worked example of DESIGN.md 3.2) -/
example : (runRefresh sample [80000, 85000, 90000, 95000, 100000]).1 = [true, true, true, true, false] := by decide
/-- jumping over marks: one re-query per observation, never more than four -/
example : (runRefresh sample [79999, 92000, 92000, 99999, 99999, 99999]).1 = [false, true, true, true, true, false] := by decide
example : (runRefresh sample [92000, 92000]).2.refresh = 90000 := by decide
example : inWindow 0 100 80000 ∧ ¬ inWindow 0 100 79999 ∧ ¬ inWindow 0 100 100000 := by
  simp [inWindow, markAt, markPct, expTime]

def oldA : Entry := ⟨Record.new nm 1 1 true 120 (.addr [10, 0, 0, 1] [0x65] 2) 0, [0x65], 2⟩
def otherIf : Entry := ⟨Record.new nm 1 1 true 120 (.addr [10, 0, 0, 2] [0x66] 3) 0, [0x66], 3⟩
def burst : Entry := ⟨Record.new nm 1 1 true 120 (.addr [10, 0, 0, 3] [0x65] 2) 4000, [0x65], 2⟩
def incA : Record := Record.new nm 1 1 true 120 (.addr [10, 0, 0, 9] [0x65] 2) 5000

/-- a flush-bit address arriving at 5000 on interface 2: the old address of that interface
    expires at 6000, the one of another interface and the one of the same burst stay, the
    new record is inserted in front -/
example : (addList [0x65] 2 incA 5000 [oldA, otherIf, burst]).map (·.record.expires) = [125000, 6000, 120000, 124000] := by
  decide
example : FlushCond incA 5000 oldA := (shouldFlush_iff _ _ _).mp (by decide)
example : hasMatch incA [oldA, otherIf, burst] = false := by decide
/-- the same record again: refreshed in place, not duplicated -/
example : (addList [0x65] 2 incA 9000 [⟨incA, [0x65], 2⟩]).map (fun e => (e.record.created, e.record.expires)) =
    [(5000, 125000)] := by decide

example : ((evictAddr { addr := [(nm, [oldA, burst])] } 120000).1.addr.map fun p => p.2.length) = [1] := by decide
example : (evictAddr { addr := [(nm, [oldA, burst])] } 124000).1.addr = [] := by decide
example : (Cache.addr { addr := [(nm, [oldA, burst])] }).keys.Nodup := by decide

end Mdns.Props.C11
