import Mdns.Model.Cache
import Mdns.Lemmas.Sched
import Mdns.Props.C17
/-
  C20  State stays bounded: expired data is forgotten.

  First part: `Mdns/Model/Cache.lean` (eviction, compared op by op with the real `DnsCache` in
  `./check C11`) and `Mdns/Model/Sched.lean` (timers).  Second part (`section ClientModel`):
  whole histories of the client model `Mdns/Model/Client.lean` (compared with the real daemon
  per iteration, metrics included).  The amount of data kept for names nobody asked for is
  decided by the monitor `ok_C20` on real histories (known finding D25).
-/
namespace Mdns.Props.C20
open Mdns Mdns.Rec Mdns.Rec.Record Mdns.Cache

/-- every entry of a table has run out at `now` -/
def allExpired (now : Nat) (t : Table) : Prop := ∀ p ∈ t, ∀ e ∈ p.2, live now e = false

theorem filter_live_nil (now : Nat) (es : List Entry) (h : ∀ e ∈ es, live now e = false) :
    es.filter (live now) = [] := by
  rw [List.filter_eq_nil_iff]
  intro e he
  simp [h e he]

/-- a table whose entries have all expired is empty after the eviction pass -/
theorem evictLive_drained (now : Nat) (t : Table) (h : allExpired now t) : evictLive now t = [] := by
  unfold evictLive
  rw [List.filterMap_eq_nil_iff]
  intro p hp
  simp [filter_live_nil now p.2 (h p hp)]

theorem evictTable_drained (now : Nat) (t : Table) (h : allExpired now t) : evictTable now t = [] := by
  unfold evictTable
  rw [List.filter_eq_nil_iff]
  intro p hp
  simp only [List.mem_map] at hp
  obtain ⟨q, hq, rfl⟩ := hp
  simp [filter_live_nil now q.2 (h q hq)]

/-- Drained: once every cached record's TTL has passed, one iteration's eviction
    (`evict_expired_services` then `evict_expired_addr`) leaves no PTR, SRV, TXT, NSEC or
    address record in the cache - also records that no PTR points to (repair of D19). -/
theorem drained (c : Cache) (now : Nat)
    (hp : allExpired now c.ptr) (hs : allExpired now c.srv) (ht : allExpired now c.txt)
    (hn : allExpired now c.nsec) (ha : allExpired now c.addr) :
    let c' := (evictAddr (evictServices c now).1 now).1
    c'.ptr = [] ∧ c'.srv = [] ∧ c'.txt = [] ∧ c'.nsec = [] ∧ c'.addr = [] := by
  simp only [evictAddr, evictServices]
  exact ⟨evictLive_drained now _ hp, evictLive_drained now _ hs, evictLive_drained now _ ht,
    evictLive_drained now _ hn, evictTable_drained now _ ha⟩

/-- eviction never adds: every entry that is in the cache afterwards was there before -/
theorem evict_only_removes (now : Nat) (t : Table) :
    ∀ p ∈ evictLive now t, ∃ q ∈ t, p.1 = q.1 ∧ ∀ e ∈ p.2, e ∈ q.2 := by
  intro p hp
  simp only [evictLive, List.mem_filterMap] at hp
  obtain ⟨q, hq, he⟩ := hp
  split at he
  · cases he
  · cases he
    exact ⟨q, hq, rfl, fun e h => (List.mem_filter.mp h).1⟩

/-- timers: an iteration at `now` consumes every timer that has passed, and the scheduler
    arms at most one timer per queued retransmission, resolver deadline and interface check
    (see `Mdns.Props.C12`); with no search and the check disabled nothing is armed -/
theorem idle_arms_nothing (s : Sched.State) (now : Nat)
    (h0 : s.reruns = []) (h1 : s.resolvers = []) (h2 : s.ipInterval = 0) (h3 : s.nextIpCheck = 0) :
    (Sched.iter s now []).1.timers = s.timers.filter (· > now) := by
  simp [Sched.iter, Sched.runTimeouts, Sched.runCommands, Sched.runReruns, Sched.runIpCheck, h0, h1, h2, h3]

/-! non-vacuity: a cache holding an orphan SRV (no PTR) that has expired is drained -/
def orphan : Entry := ⟨Record.new [0x69] 33 1 true 120 (.srv 0 0 80 [0x68]) 0, [0x65], 2⟩
example : (evictServices { srv := [([0x69], [orphan])] } 200000).1.srv = [] := by decide
example : allExpired 200000 [([0x69], [orphan])] := by
  intro p hp e he
  simp at hp; subst hp
  simp at he; subst he
  decide

/-! ### whole histories of the client model -/

section ClientModel
open Mdns.Client

/-- the number of records in the five tables of the cache, as `get_metrics` reports them -/
def cachedTotal (s : State) : Nat :=
  (metricsOf s).ptr + (metricsOf s).srv + (metricsOf s).txt + (metricsOf s).addr + (metricsOf s).nsec

/-- **cache_bounded (whole histories).**  Start the daemon and run ANY history: every entry of
    every table of the cache is the copy of a record that was delivered to the daemon (same
    owner, type, class, cache-flush bit and RDATA; created at the delivery with its TTL), filed
    under its own name, and that record's lifetime has not ended at the time of the last
    iteration.  Nothing is cached that was not received, and nothing outlives its TTL by even
    one iteration. -/
theorem cache_bounded (t0 : Nat) (intfs : List Intf) (h : List (Nat × List Packet × List Command))
    (sl : Slot) (p : BList × List Entry) (hp : p ∈ (run (init t0 intfs) h).1.cache.table sl) (e : Entry) (he : e ∈ p.2) :
    Filed sl p.1 e ∧
    ∃ d ∈ C03.histOf (init t0 intfs) h, Justifies d e ∧ C17.lastTime 0 h < d.time + 1000 * d.wire.ttl := by
  obtain ⟨⟨d, hd, j⟩, hf⟩ := C17.run_prov h t0 intfs sl p hp e he
  have hl := C17.run_live h (init t0 intfs) 0 (cacheAll_empty _) sl p hp e he
  refine ⟨hf, d, hd, j, ?_⟩
  have := j.2.2.2.2.2.2.2
  simp only at hl
  omega

/-- **drained (cache; whole histories).**  Run ANY history and then an iteration at `now`
    (with whatever input).  If the lifetime of every record delivered so far - this iteration
    included - has ended by `now`, the iteration leaves all five tables of the cache empty
    (no record, no name), whether or not searches are still open; the cache counters of
    `get_metrics` are all 0. -/
theorem drained_cache (t0 : Nat) (intfs : List Intf) (pre : List (Nat × List Packet × List Command))
    (now : Nat) (pkts : List Packet) (cmds : List Command)
    (hover : ∀ d ∈ C03.histOf (init t0 intfs) (pre ++ [(now, pkts, cmds)]), d.time + 1000 * d.wire.ttl ≤ now) :
    let s' := (iter (run (init t0 intfs) pre).1 now pkts cmds).1
    s'.cache.ptr = [] ∧ s'.cache.srv = [] ∧ s'.cache.txt = [] ∧ s'.cache.addr = [] ∧ s'.cache.nsec = [] ∧
    cachedTotal s' = 0 := by
  have hprov := (ok_iter _ _ now pkts cmds (C17.run_prov pre t0 intfs)).1
  have hlive := iter_allLive (run (init t0 intfs) pre).1 now pkts cmds
  have hhist : C03.histOf (init t0 intfs) (pre ++ [(now, pkts, cmds)]) =
      C03.histOf (init t0 intfs) pre ++ deliveries (run (init t0 intfs) pre).1 now pkts := by
    rw [C17.histOf_append]
    simp [C03.histOf]
  rw [hhist] at hover
  have hnone : ∀ sl : Slot, (iter (run (init t0 intfs) pre).1 now pkts cmds).1.cache.table sl = [] := by
    intro sl
    cases ht : (iter (run (init t0 intfs) pre).1 now pkts cmds).1.cache.table sl with
    | nil => rfl
    | cons p rest =>
      exfalso
      have hp : p ∈ (iter (run (init t0 intfs) pre).1 now pkts cmds).1.cache.table sl := by rw [ht]; exact List.mem_cons_self
      cases hes : p.2 with
      | nil => exact hlive.2 sl p hp hes
      | cons e es =>
        have he : e ∈ p.2 := by rw [hes]; exact List.mem_cons_self
        obtain ⟨⟨d, hd, j⟩, _⟩ := hprov sl p hp e he
        have h1 := hlive.1 sl p hp e he
        have h2 := j.2.2.2.2.2.2.2
        have h3 := hover d hd
        simp only at h1
        omega
  have h1 := hnone .ptr
  have h2 := hnone .srv
  have h3 := hnone .txt
  have h4 := hnone .addr
  have h5 := hnone .nsec
  simp only [Cache.table] at h1 h2 h3 h4 h5
  refine ⟨h1, h2, h3, h4, h5, ?_⟩
  simp [cachedTotal, metricsOf, h1, h2, h3, h4, h5, tableCount]

end ClientModel

end Mdns.Props.C20
