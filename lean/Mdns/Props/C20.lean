import Mdns.Model.Cache
import Mdns.Lemmas.Sched
/-
  C20  State stays bounded: expired data is forgotten.

  Model: `Mdns/Model/Cache.lean` (eviction, compared op by op with the real `DnsCache` in
  `./check C11`) and `Mdns/Model/Sched.lean` (timers).  The daemon-level clause - the
  metrics the daemon reports after every TTL has passed, and the amount of data kept for
  names nobody asked for - is decided by the monitor `ok_C20` on real histories.
-/
namespace Mdns.Props.C20
open Mdns Mdns.Rec Mdns.Rec.Record Mdns.Cache

/-- every entry of a table has run out at `now` -/
def allExpired (now : Nat) (t : Table) : Prop := ∀ p ∈ t, ∀ e ∈ p.2, live now e = false

theorem filter_live_nil (now : Nat) (es : List Entry) (h : ∀ e ∈ es, live now e = false) :
    es.filter (live now) = [] := by
  rw [List.filter_eq_nil_iff]
  intro e he
  simp [h e he]

/-- a table whose entries have all expired is empty after the eviction pass -/
theorem evictLive_drained (now : Nat) (t : Table) (h : allExpired now t) : evictLive now t = [] := by
  unfold evictLive
  rw [List.filterMap_eq_nil_iff]
  intro p hp
  simp [filter_live_nil now p.2 (h p hp)]

theorem evictTable_drained (now : Nat) (t : Table) (h : allExpired now t) : evictTable now t = [] := by
  unfold evictTable
  rw [List.filter_eq_nil_iff]
  intro p hp
  simp only [List.mem_map] at hp
  obtain ⟨q, hq, rfl⟩ := hp
  simp [filter_live_nil now q.2 (h q hq)]

/-- Drained: once every cached record's TTL has passed, one iteration's eviction
    (`evict_expired_services` then `evict_expired_addr`) leaves no PTR, SRV, TXT, NSEC or
    address record in the cache - also records that no PTR points to (repair of D19). -/
theorem drained (c : Cache) (now : Nat)
    (hp : allExpired now c.ptr) (hs : allExpired now c.srv) (ht : allExpired now c.txt)
    (hn : allExpired now c.nsec) (ha : allExpired now c.addr) :
    let c' := (evictAddr (evictServices c now).1 now).1
    c'.ptr = [] ∧ c'.srv = [] ∧ c'.txt = [] ∧ c'.nsec = [] ∧ c'.addr = [] := by
  simp only [evictAddr, evictServices]
  exact ⟨evictLive_drained now _ hp, evictLive_drained now _ hs, evictLive_drained now _ ht,
    evictLive_drained now _ hn, evictTable_drained now _ ha⟩

/-- eviction never adds: every entry that is in the cache afterwards was there before -/
theorem evict_only_removes (now : Nat) (t : Table) :
    ∀ p ∈ evictLive now t, ∃ q ∈ t, p.1 = q.1 ∧ ∀ e ∈ p.2, e ∈ q.2 := by
  intro p hp
  simp only [evictLive, List.mem_filterMap] at hp
  obtain ⟨q, hq, he⟩ := hp
  split at he
  · cases he
  · cases he
    exact ⟨q, hq, rfl, fun e h => (List.mem_filter.mp h).1⟩

/-- timers: an iteration at `now` consumes every timer that has passed, and the scheduler
    arms at most one timer per queued retransmission, resolver deadline and interface check
    (see `Mdns.Props.C12`); with no search and the check disabled nothing is armed -/
theorem idle_arms_nothing (s : Sched.State) (now : Nat)
    (h0 : s.reruns = []) (h1 : s.resolvers = []) (h2 : s.ipInterval = 0) (h3 : s.nextIpCheck = 0) :
    (Sched.iter s now []).1.timers = s.timers.filter (· > now) := by
  simp [Sched.iter, Sched.runTimeouts, Sched.runCommands, Sched.runReruns, Sched.runIpCheck, h0, h1, h2, h3]

/-! non-vacuity: a cache holding an orphan SRV (no PTR) that has expired is drained -/
def orphan : Entry := ⟨Record.new [0x69] 33 1 true 120 (.srv 0 0 80 [0x68]) 0, [0x65], 2⟩
example : (evictServices { srv := [([0x69], [orphan])] } 200000).1.srv = [] := by decide
example : allExpired 200000 [([0x69], [orphan])] := by
  intro p hp e he
  simp at hp; subst hp
  simp at he; subst he
  decide

end Mdns.Props.C20
