import Mdns.Model.Cache
import Mdns.Lemmas.Sched
import Mdns.Props.C17
import Mdns.Lemmas.ClientEvolve
import Mdns.Lemmas.ClientDistinct
/-
  C20  State stays bounded: expired data is forgotten.

  First part: `Mdns/Model/Cache.lean` (eviction, compared op by op with the real `DnsCache` in
  `./check C11`) and `Mdns/Model/Sched.lean` (timers).  Second part (`section ClientModel`):
  whole histories of the client model `Mdns/Model/Client.lean` (compared with the real daemon
  per iteration, metrics included).  The amount of data kept for names nobody asked for is
  decided by the monitor `ok_C20` on real histories (known finding D25).
-/
namespace Mdns.Props.C20
open Mdns Mdns.Rec Mdns.Rec.Record Mdns.Cache

/-- every entry of a table has run out at `now` -/
def allExpired (now : Nat) (t : Table) : Prop := ∀ p ∈ t, ∀ e ∈ p.2, live now e = false

theorem filter_live_nil (now : Nat) (es : List Entry) (h : ∀ e ∈ es, live now e = false) :
    es.filter (live now) = [] := by
  rw [List.filter_eq_nil_iff]
  intro e he
  simp [h e he]

/-- a table whose entries have all expired is empty after the eviction pass -/
theorem evictLive_drained (now : Nat) (t : Table) (h : allExpired now t) : evictLive now t = [] := by
  unfold evictLive
  rw [List.filterMap_eq_nil_iff]
  intro p hp
  simp [filter_live_nil now p.2 (h p hp)]

theorem evictTable_drained (now : Nat) (t : Table) (h : allExpired now t) : evictTable now t = [] := by
  unfold evictTable
  rw [List.filter_eq_nil_iff]
  intro p hp
  simp only [List.mem_map] at hp
  obtain ⟨q, hq, rfl⟩ := hp
  simp [filter_live_nil now q.2 (h q hq)]

/-- Drained: once every cached record's TTL has passed, one iteration's eviction
    (`evict_expired_services` then `evict_expired_addr`) leaves no PTR, SRV, TXT, NSEC or
    address record in the cache - also records that no PTR points to (repair of D19). -/
theorem drained (c : Cache) (now : Nat)
    (hp : allExpired now c.ptr) (hs : allExpired now c.srv) (ht : allExpired now c.txt)
    (hn : allExpired now c.nsec) (ha : allExpired now c.addr) :
    let c' := (evictAddr (evictServices c now).1 now).1
    c'.ptr = [] ∧ c'.srv = [] ∧ c'.txt = [] ∧ c'.nsec = [] ∧ c'.addr = [] := by
  simp only [evictAddr, evictServices]
  exact ⟨evictLive_drained now _ hp, evictLive_drained now _ hs, evictLive_drained now _ ht,
    evictLive_drained now _ hn, evictTable_drained now _ ha⟩

/-- eviction never adds: every entry that is in the cache afterwards was there before -/
theorem evict_only_removes (now : Nat) (t : Table) :
    ∀ p ∈ evictLive now t, ∃ q ∈ t, p.1 = q.1 ∧ ∀ e ∈ p.2, e ∈ q.2 := by
  intro p hp
  simp only [evictLive, List.mem_filterMap] at hp
  obtain ⟨q, hq, he⟩ := hp
  split at he
  · cases he
  · cases he
    exact ⟨q, hq, rfl, fun e h => (List.mem_filter.mp h).1⟩

/-- timers: an iteration at `now` consumes every timer that has passed, and the scheduler
    arms at most one timer per queued retransmission, resolver deadline and interface check
    (see `Mdns.Props.C12`); with no search and the check disabled nothing is armed -/
theorem idle_arms_nothing (s : Sched.State) (now : Nat)
    (h0 : s.reruns = []) (h1 : s.resolvers = []) (h2 : s.ipInterval = 0) (h3 : s.nextIpCheck = 0) :
    (Sched.iter s now []).1.timers = s.timers.filter (· > now) := by
  simp [Sched.iter, Sched.runTimeouts, Sched.runCommands, Sched.runReruns, Sched.runIpCheck, h0, h1, h2, h3]

/-! non-vacuity: a cache holding an orphan SRV (no PTR) that has expired is drained -/
def orphan : Entry := ⟨Record.new [0x69] 33 1 true 120 (.srv 0 0 80 [0x68]) 0, [0x65], 2⟩
example : (evictServices { srv := [([0x69], [orphan])] } 200000).1.srv = [] := by decide
example : allExpired 200000 [([0x69], [orphan])] := by
  intro p hp e he
  simp at hp; subst hp
  simp at he; subst he
  decide

/-! ### whole histories of the client model -/

section ClientModel
open Mdns.Client

/-- the number of records in the five tables of the cache, as `get_metrics` reports them -/
def cachedTotal (s : State) : Nat :=
  (metricsOf s).ptr + (metricsOf s).srv + (metricsOf s).txt + (metricsOf s).addr + (metricsOf s).nsec

/-- **cache_bounded (whole histories).**  Start the daemon and run ANY history: every entry of
    every table of the cache is the copy of a record that was delivered to the daemon (same
    owner, type, class, cache-flush bit and RDATA; created at the delivery with its TTL), filed
    under its own name, and that record's lifetime has not ended at the time of the last
    iteration.  Nothing is cached that was not received, and nothing outlives its TTL by even
    one iteration. -/
theorem cache_bounded (t0 : Nat) (intfs : List Intf) (h : List (Nat × List Packet × List Command))
    (sl : Slot) (p : BList × List Entry) (hp : p ∈ (run (init t0 intfs) h).1.cache.table sl) (e : Entry) (he : e ∈ p.2) :
    Filed sl p.1 e ∧
    ∃ d ∈ C03.histOf (init t0 intfs) h, Justifies d e ∧ C17.lastTime 0 h < d.time + 1000 * d.wire.ttl := by
  obtain ⟨⟨d, hd, j⟩, hf⟩ := C17.run_prov h t0 intfs sl p hp e he
  have hl := C17.run_live h (init t0 intfs) 0 (cacheAll_empty _) sl p hp e he
  refine ⟨hf, d, hd, j, ?_⟩
  have := j.2.2.2.2.2.2.2
  simp only at hl
  omega

/-- **drained (cache; whole histories).**  Run ANY history and then an iteration at `now`
    (with whatever input).  If the lifetime of every record delivered so far - this iteration
    included - has ended by `now`, the iteration leaves all five tables of the cache empty
    (no record, no name), whether or not searches are still open; the cache counters of
    `get_metrics` are all 0. -/
theorem drained_cache (t0 : Nat) (intfs : List Intf) (pre : List (Nat × List Packet × List Command))
    (now : Nat) (pkts : List Packet) (cmds : List Command)
    (hover : ∀ d ∈ C03.histOf (init t0 intfs) (pre ++ [(now, pkts, cmds)]), d.time + 1000 * d.wire.ttl ≤ now) :
    let s' := (iter (run (init t0 intfs) pre).1 now pkts cmds).1
    s'.cache.ptr = [] ∧ s'.cache.srv = [] ∧ s'.cache.txt = [] ∧ s'.cache.addr = [] ∧ s'.cache.nsec = [] ∧
    cachedTotal s' = 0 := by
  have hprov := (ok_iter _ _ now pkts cmds (C17.run_prov pre t0 intfs)).1
  have hlive := iter_allLive (run (init t0 intfs) pre).1 now pkts cmds
  have hhist : C03.histOf (init t0 intfs) (pre ++ [(now, pkts, cmds)]) =
      C03.histOf (init t0 intfs) pre ++ deliveries (run (init t0 intfs) pre).1 now pkts := by
    rw [C17.histOf_append]
    simp [C03.histOf]
  rw [hhist] at hover
  have hnone : ∀ sl : Slot, (iter (run (init t0 intfs) pre).1 now pkts cmds).1.cache.table sl = [] := by
    intro sl
    cases ht : (iter (run (init t0 intfs) pre).1 now pkts cmds).1.cache.table sl with
    | nil => rfl
    | cons p rest =>
      exfalso
      have hp : p ∈ (iter (run (init t0 intfs) pre).1 now pkts cmds).1.cache.table sl := by rw [ht]; exact List.mem_cons_self
      cases hes : p.2 with
      | nil => exact hlive.2 sl p hp hes
      | cons e es =>
        have he : e ∈ p.2 := by rw [hes]; exact List.mem_cons_self
        obtain ⟨⟨d, hd, j⟩, _⟩ := hprov sl p hp e he
        have h1 := hlive.1 sl p hp e he
        have h2 := j.2.2.2.2.2.2.2
        have h3 := hover d hd
        simp only at h1
        omega
  have h1 := hnone .ptr
  have h2 := hnone .srv
  have h3 := hnone .txt
  have h4 := hnone .addr
  have h5 := hnone .nsec
  simp only [Cache.table] at h1 h2 h3 h4 h5
  refine ⟨h1, h2, h3, h4, h5, ?_⟩
  simp [cachedTotal, metricsOf, h1, h2, h3, h4, h5, tableCount]

/-! ### timers: bounded by the horizon of the history, gone after it -/

/-- the time-out a command asks for (0 if none) -/
def cmdSpan : Command → Nat
  | .resolveHost _ _ (some to) => to
  | .verify _ to => to
  | _ => 0

/-- the end of the lifetime of a delivered record -/
def lifeEnd (d : Delivery) : Nat := d.time + 1000 * d.wire.ttl

/-- the horizon of one iteration at `now`: one hour ahead (the longest back-off of a
    retransmission), the end of the lifetime of every record it delivers, the deadlines its
    commands give -/
def iterHorizon (now : Nat) (ds : List Delivery) (cmds : List Command) : Nat :=
  max (now + 3600000) (max ((ds.map lifeEnd).foldl max 0) (now + (cmds.map cmdSpan).foldl max 0))

/-- the horizon of a history: the latest of the horizons of its iterations -/
def horizon : State → Nat → List (Nat × List Packet × List Command) → Nat
  | _, H, [] => H
  | s, H, (now, pkts, cmds) :: rest =>
    horizon (iter s now pkts cmds).1 (max H (iterHorizon now (deliveries s now pkts) cmds)) rest

theorem le_foldl_max : ∀ (l : List Nat) (a x : Nat), (x ≤ a ∨ x ∈ l) → x ≤ l.foldl max a
  | [], a, x, h => by
    rcases h with h | h
    · exact h
    · cases h
  | y :: l, a, x, h => by
    simp only [List.foldl_cons]
    apply le_foldl_max l
    rcases h with h | h
    · left; omega
    · rcases List.mem_cons.mp h with rfl | h
      · left; omega
      · exact Or.inr h

/-- every timer is the interface check or lies within the horizon `H`; every delivered record's
    lifetime ends within `H` -/
def Bounded (H : Nat) (hist : List Delivery) (s : State) : Prop :=
  (∀ t ∈ s.timers, t = s.nextIpCheck ∨ t ≤ H) ∧ ∀ d ∈ hist, lifeEnd d ≤ H

theorem iterTimer_le (now : Nat) (hist ds : List Delivery) (cmds : List Command) (H : Nat) (hH : ∀ d ∈ hist, lifeEnd d ≤ H)
    (t : Nat) (h : IterTimer now (hist ++ ds) cmds t) : t ≤ max H (iterHorizon now ds cmds) := by
  unfold iterHorizon
  rcases h with h | ⟨d, hd, h⟩ | ⟨c, hc, h⟩
  · omega
  · rcases List.mem_append.mp hd with hd | hd
    · have := hH d hd
      unfold lifeEnd at this
      omega
    · have h1 : lifeEnd d ≤ (ds.map lifeEnd).foldl max 0 := le_foldl_max _ 0 _ (Or.inr (List.mem_map_of_mem hd))
      have h2 : d.time + 1000 * d.wire.ttl ≤ (ds.map lifeEnd).foldl max 0 := h1
      omega
  · have hspan : ∀ to, cmdSpan c = to → to ≤ (cmds.map cmdSpan).foldl max 0 := by
      intro to hto
      exact le_foldl_max _ 0 _ (Or.inr (hto ▸ List.mem_map_of_mem hc))
    rcases h with ⟨h0, ch, to, rfl, h⟩ | ⟨inst, to, rfl, h⟩
    · have := hspan to rfl
      omega
    · have := hspan to rfl
      omega

/-- the interface-check timer of the old state, if it lies after `now`, is still the
    interface-check time of the new state -/
theorem ip_kept {now : Nat} {ds : List Delivery} {cmds : List Command} {s s' : State} (h : Evolves now ds cmds s s')
    (hlt : now < s.nextIpCheck) : s'.nextIpCheck = s.nextIpCheck := by
  rcases h.ip with ⟨h1, _⟩ | ⟨_, h2⟩ | ⟨_, _, h2⟩
  · exact h1
  · omega
  · omega

theorem bounded_iter (hist : List Delivery) (H : Nat) (s : State) (now : Nat) (pkts : List Packet) (cmds : List Command)
    (hc : CacheProv hist s.cache) (hD : ∀ r ∈ s.reruns, DelayOk r) (hb : Bounded H hist s) :
    Bounded (max H (iterHorizon now (deliveries s now pkts) cmds)) (hist ++ deliveries s now pkts) (iter s now pkts cmds).1 := by
  have hev := evolves_iter hist s now pkts cmds hc hD
  refine ⟨?_, ?_⟩
  · intro t ht
    rcases hev.timers_new t ht with ⟨h1, h2⟩ | h | ⟨h, _⟩
    · rcases hb.1 t h1 with h | h
      · left
        rw [h, ip_kept hev (h ▸ h2)]
      · right; omega
    · exact Or.inr (iterTimer_le now hist _ cmds H hb.2 t h)
    · exact Or.inl h
  · intro d hd
    rcases List.mem_append.mp hd with hd | hd
    · have := hb.2 d hd
      omega
    · have : lifeEnd d ≤ ((deliveries s now pkts).map lifeEnd).foldl max 0 :=
        le_foldl_max _ 0 _ (Or.inr (List.mem_map_of_mem hd))
      unfold iterHorizon
      omega

theorem bounded_run : ∀ (h : List (Nat × List Packet × List Command)) (s : State) (hist : List Delivery) (H : Nat),
    CacheProv hist s.cache → (∀ r ∈ s.reruns, DelayOk r) → Bounded H hist s →
    Bounded (horizon s H h) (hist ++ C03.histOf s h) (run s h).1 ∧ (∀ r ∈ (run s h).1.reruns, DelayOk r)
  | [], s, hist, H, _, hD, hb => by simpa [horizon, C03.histOf, run] using ⟨hb, hD⟩
  | (now, pkts, cmds) :: rest, s, hist, H, hc, hD, hb => by
    have h1 := bounded_iter hist H s now pkts cmds hc hD hb
    have h2 := bounded_run rest (iter s now pkts cmds).1 (hist ++ deliveries s now pkts) _
      (ok_iter hist s now pkts cmds hc).1 (delayOk_iter hist s now pkts cmds hc hD) h1
    simpa [horizon, C03.histOf, run, List.append_assoc] using h2

/-- **timers_bounded (whole histories).**  Start the daemon and run ANY history: every pending
    timer is the interface check or lies within the horizon of the history - one hour after
    its last iteration (a retransmission is queued at most 3600 s ahead, and the timer of a
    cancelled one stays until its time), the end of the lifetime of a delivered record, or a
    deadline given with `resolve_hostname` / `verify`.  Nothing else is ever armed: the number
    of live timers does not grow with running time. -/
theorem timers_bounded (t0 : Nat) (intfs : List Intf) (h : List (Nat × List Packet × List Command)) :
    ∀ t ∈ (run (init t0 intfs) h).1.timers,
      t = (run (init t0 intfs) h).1.nextIpCheck ∨ t ≤ horizon (init t0 intfs) 0 h := by
  have hb : Bounded 0 [] (init t0 intfs) :=
    ⟨fun t ht => by simp [init] at ht; exact Or.inl ht, fun _ hd => by cases hd⟩
  exact (bounded_run h (init t0 intfs) [] 0 (cacheProv_empty []) (fun _ hr => by cases hr) hb).1.1

/-- a quiet iteration (no datagram, no command, nothing browsed, nothing queued) arms nothing
    but the interface check, and leaves nothing browsed or queued -/
theorem quiet_iter (H : Nat) (s : State) (now : Nat) (hq : s.queriers = []) (hr : s.reruns = [])
    (hb : ∀ t ∈ s.timers, t = s.nextIpCheck ∨ t ≤ H) :
    (iter s now [] []).1.queriers = [] ∧ (iter s now [] []).1.reruns = [] ∧
    (∀ t ∈ (iter s now [] []).1.timers, t = (iter s now [] []).1.nextIpCheck ∨ (t ≤ H ∧ now < t)) := by
  obtain ⟨h1, h2, h3, h4, _⟩ := quiet_preIp s now hq hr
  have hold : ∀ t ∈ (preIp s now [] []).timers, (t = s.nextIpCheck ∧ now < t) ∨ (t ≤ H ∧ now < t) := by
    intro t ht
    rw [h1] at ht
    obtain ⟨ht1, ht2⟩ := List.mem_filter.mp ht
    have ht2' : now < t := by simpa using ht2
    rcases hb t ht1 with h | h
    · exact Or.inl ⟨h, ht2'⟩
    · exact Or.inr ⟨h, ht2'⟩
  rw [iter_fst]
  rcases runIpCheck_cases (preIp s now [] []) now with ⟨he, _⟩ | ⟨he, _, hle⟩ | ⟨he, hle⟩
  · rw [he]
    refine ⟨h3, h2, ?_⟩
    intro t ht
    rcases hold t ht with ⟨h, _⟩ | h
    · exact Or.inl (h.trans h4.symm)
    · exact Or.inr h
  · rw [he]
    refine ⟨h3, h2, ?_⟩
    intro t ht
    rcases List.mem_cons.mp ht with rfl | ht
    · exact Or.inl rfl
    · rcases hold t ht with ⟨h, hlt⟩ | h
      · rw [h4] at hle
        omega
      · exact Or.inr h
  · rw [he]
    refine ⟨h3, h2, ?_⟩
    intro t ht
    rcases hold t ht with ⟨h, hlt⟩ | h
    · rw [h4] at hle
      omega
    · exact Or.inr h

theorem quiet_run (H : Nat) : ∀ (tail : List Nat) (s : State), s.queriers = [] → s.reruns = [] →
    (∀ t ∈ s.timers, t = s.nextIpCheck ∨ t ≤ H) →
    (run s (tail.map fun t => (t, [], []))).1.queriers = [] ∧ (run s (tail.map fun t => (t, [], []))).1.reruns = [] ∧
    (∀ t ∈ (run s (tail.map fun t => (t, [], []))).1.timers,
      t = (run s (tail.map fun t => (t, [], []))).1.nextIpCheck ∨ t ≤ H)
  | [], s, hq, hr, hb => ⟨hq, hr, hb⟩
  | now :: rest, s, hq, hr, hb => by
    obtain ⟨h1, h2, h3⟩ := quiet_iter H s now hq hr hb
    simp only [List.map_cons, run]
    exact quiet_run H rest _ h1 h2 (fun t ht => (h3 t ht).imp id (·.1))

theorem run_append_fst : ∀ (a b : List (Nat × List Packet × List Command)) (s : State),
    (run s (a ++ b)).1 = (run (run s a).1 b).1
  | [], _, _ => rfl
  | (now, pkts, cmds) :: a, b, s => by
    simp only [List.cons_append, run]
    exact run_append_fst a b _

theorem histOf_quiet : ∀ (tail : List Nat) (s : State), C03.histOf s (tail.map fun t => (t, [], [])) = []
  | [], _ => rfl
  | t :: rest, s => by
    simp only [List.map_cons, C03.histOf, deliveries, List.nil_append]
    exact histOf_quiet rest _

/-- **drained_run (whole histories).**  Start the daemon and run ANY history `pre` after which
    nothing is browsed and no re-run is queued (every search stopped, the follow-ups done).
    Then, after any number of further iterations without input (at any times `tail`), an
    iteration at a time `now` that is not before the horizon of `pre` - i.e. at least one hour
    after its last iteration, after the lifetime of every record it delivered and after every
    deadline it was given - leaves: no record in any table of the cache (the counters of
    `get_metrics` are 0), and no timer other than the interface check. -/
theorem drained_run (t0 : Nat) (intfs : List Intf) (pre : List (Nat × List Packet × List Command)) (tail : List Nat)
    (now : Nat) (hq : (run (init t0 intfs) pre).1.queriers = []) (hr : (run (init t0 intfs) pre).1.reruns = [])
    (hnow : horizon (init t0 intfs) 0 pre ≤ now) :
    let s' := (run (init t0 intfs) (pre ++ (tail.map fun t => (t, [], [])) ++ [(now, [], [])])).1
    (∀ t ∈ s'.timers, t = s'.nextIpCheck) ∧
    s'.cache.ptr = [] ∧ s'.cache.srv = [] ∧ s'.cache.txt = [] ∧ s'.cache.addr = [] ∧ s'.cache.nsec = [] ∧
    cachedTotal s' = 0 := by
  have hb0 : Bounded 0 [] (init t0 intfs) :=
    ⟨fun t ht => by simp [init] at ht; exact Or.inl ht, fun _ hd => by cases hd⟩
  have hb := (bounded_run pre (init t0 intfs) [] 0 (cacheProv_empty []) (fun _ hr => by cases hr) hb0).1
  simp only [List.nil_append] at hb
  obtain ⟨q1, q2, q3⟩ := quiet_run (horizon (init t0 intfs) 0 pre) tail _ hq hr hb.1
  have hstate : (run (init t0 intfs) (pre ++ (tail.map fun t => (t, [], [])) ++ [(now, [], [])])).1 =
      (iter (run (run (init t0 intfs) pre).1 (tail.map fun t => (t, [], []))).1 now [] []).1 := by
    rw [run_append_fst, run_append_fst]
    rfl
  have hcache := drained_cache t0 intfs (pre ++ tail.map fun t => (t, [], [])) now [] [] (by
    intro d hd
    rw [C17.histOf_append, C17.histOf_append, histOf_quiet] at hd
    simp only [C03.histOf, deliveries, List.append_nil] at hd
    have := hb.2 d hd
    unfold lifeEnd at this
    omega)
  simp only []
  rw [hstate]
  rw [run_append_fst] at hcache
  refine ⟨?_, hcache⟩
  intro t ht
  rcases (quiet_iter _ _ now q1 q2 q3).2.2 t ht with h | ⟨h1, h2⟩
  · exact h
  · omega

/-! non-vacuity: browse, an announcement with TTL 120 s, stop; one hour after the last activity
    nothing is cached and the only timer is the interface check -/
set_option maxRecDepth 8000 in
example :
    let s' := (run (init 1000 [C03.eth0])
      [(1000, [], [.browse C03.ty 1 false]), (1500, [C03.announce], []), (2000, [], [.stopBrowse C03.ty]),
       (2500, [], []), (3702000, [], [])]).1
    (cachedTotal s', s'.timers, s'.nextIpCheck, s'.queriers.length, s'.reruns.length) =
      (0, [3707000], 3707000, 0, 0) := by decide

/-! ### the size of the cache -/

/-- the identity (owner, type, class, cache-flush bit, RDATA incl. the receiving interface of an
    address) under which a delivered record is cached -/
def deliveryId (d : Delivery) : BList × Nat × Nat × Bool × RData :=
  idOf ⟨ofWire d.ifName d.ifIdx d.time d.wire, d.ifName, d.ifIdx⟩

/-- the distinct records among those delivered whose lifetime has not ended at `T` -/
def liveIds (hist : List Delivery) (T : Nat) : List (BList × Nat × Nat × Bool × RData) :=
  ((hist.filter fun d => decide (T < lifeEnd d)).map deliveryId).eraseDups

theorem closed_run {P : Cache → Prop} (hcl : ∀ now, CacheOpsClosed P now) :
    ∀ (h : List (Nat × List Packet × List Command)) (s : State), P s.cache → P (run s h).1.cache
  | [], _, hp => hp
  | (now, pkts, cmds) :: rest, s, hp => by
    simp only [run]
    exact closed_run hcl rest _ (closed_iter (hcl now) s pkts cmds hp)

theorem cachedTotal_eq (s : State) : cachedTotal s = (cacheEntries s.cache).length := by
  simp only [cachedTotal, metricsOf, tableCount_eq, cacheEntries, List.length_append]

/-- **cache_size_bounded (whole histories).**  Start the daemon and run ANY history: the number
    of cached records - the sum of the five cache counters of `get_metrics` - is at most the
    number of DISTINCT records (owner, type, class, cache-flush bit, RDATA, and for an address
    the receiving interface) among those delivered to the daemon whose lifetime has not ended
    at the time of the last iteration.  It does not grow with the number of times a record is
    repeated, nor with running time. -/
theorem cache_size_bounded (t0 : Nat) (intfs : List Intf) (h : List (Nat × List Packet × List Command)) :
    cachedTotal (run (init t0 intfs) h).1 ≤ (liveIds (C03.histOf (init t0 intfs) h) (C17.lastTime 0 h)).length := by
  have hprov := C17.run_prov h t0 intfs
  have hkeys : KeysNodup (run (init t0 intfs) h).1.cache := closed_run keysNodup_closed h _ keysNodup_empty
  have hdist : ListsDistinct (run (init t0 intfs) h).1.cache := closed_run listsDistinct_closed h _ listsDistinct_empty
  have hnd := cache_ids_nodup _ _ hprov hkeys hdist
  rw [cachedTotal_eq, ← List.length_map (f := idOf)]
  apply List.Nodup.length_le_of_subset hnd
  intro x hx
  obtain ⟨e, he, rfl⟩ := List.mem_map.mp hx
  have hmem : ∃ sl : Slot, ∃ p ∈ (run (init t0 intfs) h).1.cache.table sl, e ∈ p.2 := by
    simp only [cacheEntries, List.mem_append, mem_tableEntries] at he
    rcases he with (((he | he) | he) | he) | he
    · exact ⟨.ptr, he⟩
    · exact ⟨.srv, he⟩
    · exact ⟨.txt, he⟩
    · exact ⟨.addr, he⟩
    · exact ⟨.nsec, he⟩
  obtain ⟨sl, p, hp, hep⟩ := hmem
  obtain ⟨_, d, hd, j, hlive⟩ := cache_bounded t0 intfs h sl p hp e hep
  simp only [liveIds, List.mem_eraseDups, List.mem_map, List.mem_filter, decide_eq_true_eq]
  refine ⟨d, ⟨hd, hlive⟩, ?_⟩
  obtain ⟨j1, j2, j3, j4, j5, _⟩ := j
  simp only [deliveryId, idOf, Prod.mk.injEq]
  exact ⟨j1.symm, j2.symm, j3.symm, j4.symm, j5.symm⟩

/-- the same announcement (PTR, SRV, TXT, A) received twice: four cached records, four distinct
    live delivered records (eight deliveries) -/
example :
    (cachedTotal (run (init 1000 [C03.eth0])
        [(1000, [], [.browse C03.ty 1 false]), (1500, [C03.announce], []), (1600, [C03.announce], [])]).1,
     (liveIds (C03.histOf (init 1000 [C03.eth0])
        [(1000, [], [.browse C03.ty 1 false]), (1500, [C03.announce], []), (1600, [C03.announce], [])]) 1600).length,
     (C03.histOf (init 1000 [C03.eth0])
        [(1000, [], [.browse C03.ty 1 false]), (1500, [C03.announce], []), (1600, [C03.announce], [])]).length) =
      (4, 4, 8) := by decide

end ClientModel

end Mdns.Props.C20
