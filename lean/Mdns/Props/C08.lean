import Mdns.Lemmas.Compare
import Mdns.Lemmas.Names
import Mdns.Driver.MonDuel
/-
  C08  Name conflicts: one winner, consistent new name - the component-level part.

  Property theorems only (helper lemmas: `Mdns/Lemmas/Compare.lean`, `Mdns/Lemmas/Names.lean`).
  Models: `Mdns/Model/Compare.lean` (`DnsRecordExt::compare`, `compare_rdata`, `Probe`),
  `Mdns/Model/Names.lean` (`name_change`, `hostname_change`, the `check_*` functions).

  Not covered here (daemon level, later): conflict detection while probing / after
  announcing, re-probing and announcing under the new name, `NameChange`, consistency of the
  names in all packets, the one-second retry after a lost tiebreak, two daemons converging.
-/
namespace Mdns.Props.C08
open Mdns Mdns.Wire Mdns.Compare Mdns.Names

/-! ## The comparison -/

/-- "Class, then type, then RDATA": a smaller class number decides; with equal classes a
    smaller type number decides; with both equal the RDATA comparison decides. -/
theorem compare_order (a b : Rec) :
    (a.cls < b.cls → compareRec a b = .lt) ∧
    (a.cls = b.cls → a.ty < b.ty → compareRec a b = .lt) ∧
    (a.cls = b.cls → a.ty = b.ty → compareRec a b = compareRData a.rdata b.rdata) := by
  refine ⟨?_, ?_, ?_⟩
  · intro h
    simp [compareRec, (cmpNat_lt_iff _ _).mpr h, Ordering.then]
  · intro hc h
    simp [compareRec, (cmpNat_eq_iff _ _).mpr hc, (cmpNat_lt_iff _ _).mpr h, Ordering.then]
  · intro hc ht
    simp [compareRec, (cmpNat_eq_iff _ _).mpr hc, (cmpNat_eq_iff _ _).mpr ht, Ordering.then]

/-- The comparison is antisymmetric: `a` is earlier than `b` exactly if `b` is later than
    `a`, and they compare equal in one direction exactly if they do in the other - for any
    two records that are held by the same Rust struct whenever class and type agree
    (`compatible`; true of all decoded records and all records the daemon builds, see
    `decoded_compatible`). -/
theorem compare_antisymm (a b : Rec) (h : compatible a b) :
    (compareRec a b = .lt ↔ compareRec b a = .gt) ∧
    (compareRec a b = .eq ↔ compareRec b a = .eq) ∧
    (compareRec a b = .gt ↔ compareRec b a = .lt) := by
  rw [compareRec_swap a b h]
  cases compareRec a b <;> simp [Ordering.swap]

/-- Without that hypothesis antisymmetry fails in the code as written: `compare_rdata`
    answers `Greater` when the other record is held by another struct, in both directions.
    A pointer record constructed with type number 1 and an address record (class IN, type 1):
    each is "later" than the other.  (Such a pair cannot come out of the decoder.) -/
theorem compare_antisymm_needs_compatible :
    ∃ a b : Rec, compareRec a b = .gt ∧ compareRec b a = .gt :=
  ⟨{ name := [], ty := 1, cls := 1, flush := false, ttl := 120, rdata := .ptr [0x61], start := 0, stop := 0 },
   { name := [], ty := 1, cls := 1, flush := false, ttl := 120, rdata := .a [10, 0, 0, 1], start := 0, stop := 0 },
   by decide, by decide⟩

/-- **"Earlier" is transitive** - for ALL records, no side condition: if `a` is earlier than `b`
    and `b` earlier than `c` then `a` is earlier than `c`.  With antisymmetry and `compare_eq_iff`
    the comparison is a strict total order on (class, type, RDATA), so among any number of
    simultaneous claimants with different data exactly one is latest: three or more probers
    cannot beat each other in a circle. -/
theorem compare_transitive (a b c : Rec) (h1 : compareRec a b = .lt) (h2 : compareRec b c = .lt) :
    compareRec a c = .lt :=
  compareRec_lt_trans a b c h1 h2

/-- ... in particular no cycle of three compatible records -/
theorem no_cycle_of_three (a b c : Rec) (hca : compatible c a)
    (h1 : compareRec a b = .lt) (h2 : compareRec b c = .lt) : compareRec c a ≠ .lt := by
  have h3 := compare_transitive a b c h1 h2
  have := ((compare_antisymm c a hca).2.2).mpr h3
  rw [this]; decide

example :
    let r (ip : BList) : Rec := { name := [], ty := 1, cls := 1, flush := true, ttl := 120, rdata := .a ip, start := 0, stop := 0 }
    compareRec (r [10, 0, 0, 1]) (r [10, 0, 0, 2]) = .lt ∧ compareRec (r [10, 0, 0, 2]) (r [10, 0, 1, 0]) = .lt ∧
    compareRec (r [10, 0, 0, 1]) (r [10, 0, 1, 0]) = .lt := by decide

/-- Two records compare equal exactly if class, type and RDATA are identical (owner name,
    TTL and cache-flush bit do not take part). -/
theorem compare_eq_iff (a b : Rec) :
    compareRec a b = .eq ↔ a.cls = b.cls ∧ a.ty = b.ty ∧ a.rdata = b.rdata :=
  compareRec_eq_iff a b

/-- Any two records that `DnsIncoming::new` returned (from the same or from different
    packets) can be compared antisymmetrically. -/
theorem decoded_compatible (d1 d2 : Pkt) (m1 m2 : Msg) (h1 : decode d1 = .ok m1) (h2 : decode d2 = .ok m2)
    (a b : Rec) (ha : a ∈ m1.answers ++ m1.authorities ++ m1.additionals)
    (hb : b ∈ m2.answers ++ m2.authorities ++ m2.additionals) : compatible a b :=
  wellTyped_compatible a b (decode_wellTyped d1 m1 h1 a ha) (decode_wellTyped d2 m2 h2 b hb)

/-! ## Tiebreaking -/

/-- What `tiebreaking` does to a probe: nothing before the probe has started; after that, if
    its own records are earlier than the other prober's (first differing pair, else fewer
    records) it restarts exactly one second later; otherwise nothing. -/
theorem tiebreaking_spec (p : Probe) (auth : List Rec) (name : BList) (now : Nat) :
    p.tiebreaking auth name now =
      if p.start < now ∧ zipCmp p.records (incomingFor auth name) = .lt then
        { p with start := now + 1000, next := now + 1000 }
      else p := by
  unfold Probe.tiebreaking
  by_cases hs : p.start ≥ now
  · have : ¬ p.start < now := by omega
    simp [hs, this]
  · have : p.start < now := by omega
    simp only [hs, ↓reduceIte, this, true_and]
    cases zipCmp p.records (incomingFor auth name) <;> simp

/-- Opposite verdicts: comparing A's records with B's says "earlier" exactly if comparing
    B's with A's says "later", and "equal" exactly if the other says "equal" - for all
    record lists, in whatever order `insert_record` left records of the same type. -/
theorem tiebreak_opposite (as bs : List Rec) (h : ∀ a ∈ as, ∀ b ∈ bs, compatible a b) :
    (zipCmp as bs = .lt ↔ zipCmp bs as = .gt) ∧
    (zipCmp as bs = .eq ↔ zipCmp bs as = .eq) ∧
    (zipCmp as bs = .gt ↔ zipCmp bs as = .lt) := by
  rw [zipCmp_swap as bs h]
  cases zipCmp as bs <;> simp [Ordering.swap]

/-- Nobody yields exactly if both probers hold the same data, record by record (class, type,
    RDATA). -/
theorem tiebreak_tie_iff (as bs : List Rec) : zipCmp as bs = .eq ↔ as.map dataOf = bs.map dataOf :=
  zipCmp_eq_iff as bs

/-- "... then number of records": a prober whose records are a proper prefix of the other's
    is the one that yields. -/
theorem tiebreak_length_rule (as : List Rec) (b : Rec) (rest : List Rec) :
    zipCmp as (as ++ b :: rest) = .lt ∧ zipCmp (as ++ b :: rest) as = .gt := by
  have h := zipCmp_prefix as b rest
  refine ⟨h, ?_⟩
  induction as with
  | nil => rfl
  | cons a as ih =>
    simp only [List.cons_append]
    unfold zipCmp
    rw [(compareRec_eq_iff a a).mpr ⟨rfl, rfl, rfl⟩]
    exact ih (zipCmp_prefix as b rest)

/-- Two probers for the same name, both already probing, each receiving the other's probe
    (all records carry the probed name, so the filter keeps them all): exactly one of them
    restarts one second later and the other is untouched - unless they hold identical data,
    in which case both are untouched. -/
theorem tiebreak_two_probers (pa pb : Probe) (name : BList) (now : Nat)
    (hsa : pa.start < now) (hsb : pb.start < now)
    (hna : ∀ r ∈ pa.records, r.name = name) (hnb : ∀ r ∈ pb.records, r.name = name)
    (hc : ∀ a ∈ pa.records, ∀ b ∈ pb.records, compatible a b) :
    let pa' := pa.tiebreaking pb.records name now
    let pb' := pb.tiebreaking pa.records name now
    (pa' = { pa with start := now + 1000, next := now + 1000 } ∧ pb' = pb ∧
        pa.records.map dataOf ≠ pb.records.map dataOf) ∨
    (pb' = { pb with start := now + 1000, next := now + 1000 } ∧ pa' = pa ∧
        pa.records.map dataOf ≠ pb.records.map dataOf) ∨
    (pa' = pa ∧ pb' = pb ∧ pa.records.map dataOf = pb.records.map dataOf) := by
  have fa : incomingFor pa.records name = pa.records := by
    unfold incomingFor
    rw [List.filter_eq_self]
    intro r hr
    simp [hna r hr]
  have fb : incomingFor pb.records name = pb.records := by
    unfold incomingFor
    rw [List.filter_eq_self]
    intro r hr
    simp [hnb r hr]
  simp only [tiebreaking_spec, fa, fb, hsa, hsb, true_and]
  have hsw := zipCmp_swap pa.records pb.records hc
  have hte := zipCmp_eq_iff pa.records pb.records
  cases hz : zipCmp pa.records pb.records
  · left
    rw [hz] at hsw hte
    simp only [hsw, Ordering.swap, ↓reduceIte, true_and]
    exact ⟨by simp, fun e => by simpa using hte.mpr e⟩
  · right; right
    rw [hz] at hsw hte
    simp only [hsw, Ordering.swap]
    exact ⟨by simp, by simp, hte.mp rfl⟩
  · right; left
    rw [hz] at hsw hte
    simp only [hsw, Ordering.swap, ↓reduceIte, true_and]
    exact ⟨by simp, fun e => by simpa using hte.mpr e⟩

/-- `insert_record` keeps a probe's records sorted by (class, type) and loses none. -/
theorem insert_record_sorted (p : Probe) (r : Rec) (h : sortedByKey p.records = true) :
    sortedByKey (p.insertRecord r).records = true ∧ (p.insertRecord r).records.Perm (r :: p.records) :=
  ⟨insertSorted_sorted r p.records h, insertSorted_perm r p.records⟩

/-- A probe is finished when it is 750 ms old AND its three queries have been sent (`next_send`
    has moved on to `start_time + 750`, repair of D31) - so a new probe, which has sent nothing,
    is never finished, however late the loop comes; its first query is due at its start; a probe
    query sent at `now` schedules the next one for `now + 250` and moves the start by the
    lateness of this one. -/
theorem probe_times (s now : Nat) :
    (∀ p : Probe, p.expired now = true ↔ p.start + 750 ≤ now ∧ p.start + 750 ≤ p.next) ∧
    (Probe.new s).expired now = false ∧ (Probe.new s).next = s ∧
    ((Probe.new s).updateNextSend now).next = now + 250 ∧
    ((Probe.new s).updateNextSend now).start = s + (now - s) := by
  refine ⟨fun p => by simp [Probe.expired], ?_, rfl, rfl, rfl⟩
  simp [Probe.new, Probe.expired]

/-- the invariant behind "three queries": after `k ≤ 3` queries `next_send = start_time + 250 k`,
    whenever they were sent; a due probe in that state ends exactly when `k = 3` -/
theorem probe_progress (p : Probe) (k now : Nat) (h : p.next = p.start + 250 * k) (hk : k ≤ 3) (hdue : now ≥ p.next) :
    (p.expired now = true ↔ k = 3) ∧
    (p.updateNextSend now).next = (p.updateNextSend now).start + 250 * (k + 1) := by
  constructor
  · simp only [Probe.expired, Bool.and_eq_true, decide_eq_true_eq]
    constructor
    · intro ⟨_, h2⟩; omega
    · intro e; subst e; omega
  · simp only [Probe.updateNextSend]
    omega

/-! ## Renaming -/

/-- `name_change` in full: only the text before the first `.` matters, everything from that
    dot on is kept.  If that text ends in ` (N)` with `N` a `u32` literal (optional `+`,
    decimal digits) below 4294967295 the result has ` (N+1)` there, otherwise ` (2)` is
    appended (also for `N = 4294967295`: repair of D14, `number + 1` used to overflow there).
    It never fails. -/
theorem name_change_spec (s : BList) :
    (∀ base num n, firstPart s = base ++ SP_LPAREN ++ num ++ [RPAREN] → parseU32 num = some n →
      nameChange s = if n = U32_MAX then .ok (firstPart s ++ PAREN2 ++ afterFirst s)
        else .ok (base ++ SP_LPAREN ++ decimal (n + 1) ++ [RPAREN] ++ afterFirst s)) ∧
    ((¬ ∃ base num n, firstPart s = base ++ SP_LPAREN ++ num ++ [RPAREN] ∧ parseU32 num = some n) →
      nameChange s = .ok (firstPart s ++ PAREN2 ++ afterFirst s)) := by
  constructor
  · intro base num n hf hp
    have hn : n ≤ U32_MAX := by
      unfold parseU32 at hp
      repeat' split at hp
      all_goals first | (cases hp; done) | (simp at hp; omega)
    rw [nameChange_eq]
    conv => lhs; rw [hf, bumpParen_suffix base num n hp]
    by_cases h : n = U32_MAX
    · simp [h, hf]
    · have : ¬ n + 1 > U32_MAX := by omega
      simp [h, this]
  · intro hno
    rw [nameChange_eq]
    rcases bumpParen_cases (firstPart s) with hc | ⟨base, num, n, h1, h2⟩
    · rw [hc]
    · exact absurd ⟨base, num, n, h1, h2⟩ hno

/-- `hostname_change` in full: as `name_change_spec` with `-N` for ` (N)` and `-2` for ` (2)`. -/
theorem hostname_change_spec (s : BList) :
    (∀ base num n, firstPart s = base ++ [HYPHEN] ++ num → parseU32 num = some n →
      hostnameChange s = if n = U32_MAX then .ok (firstPart s ++ HYPHEN2 ++ afterFirst s)
        else .ok (base ++ [HYPHEN] ++ decimal (n + 1) ++ afterFirst s)) ∧
    ((¬ ∃ base num n, firstPart s = base ++ [HYPHEN] ++ num ∧ parseU32 num = some n) →
      hostnameChange s = .ok (firstPart s ++ HYPHEN2 ++ afterFirst s)) := by
  constructor
  · intro base num n hf hp
    have hn : n ≤ U32_MAX := by
      unfold parseU32 at hp
      repeat' split at hp
      all_goals first | (cases hp; done) | (simp at hp; omega)
    rw [hostnameChange_eq]
    conv => lhs; rw [hf, bumpHyphen_suffix base num n hp]
    by_cases h : n = U32_MAX
    · simp [h, hf]
    · have : ¬ n + 1 > U32_MAX := by omega
      simp [h, this]
  · intro hno
    rw [hostnameChange_eq]
    rcases bumpHyphen_cases (firstPart s) with hc | ⟨base, num, n, h1, h2⟩
    · rw [hc]
    · exact absurd ⟨base, num, n, h1, h2⟩ hno

/-- The renaming functions are total: for every input text they return a name - no error and
    no panic (used by C15). -/
theorem rename_total (s : BList) :
    (∃ s', nameChange s = .ok s') ∧ (∃ s', hostnameChange s = .ok s') := by
  have hn := name_change_spec s
  have hh := hostname_change_spec s
  constructor
  · rcases bumpParen_cases (firstPart s) with hc | ⟨base, num, n, h1, h2⟩
    · rw [nameChange_eq, hc]; exact ⟨_, rfl⟩
    · rw [hn.1 base num n h1 h2]; split <;> exact ⟨_, rfl⟩
  · rcases bumpHyphen_cases (firstPart s) with hc | ⟨base, num, n, h1, h2⟩
    · rw [hostnameChange_eq, hc]; exact ⟨_, rfl⟩
    · rw [hh.1 base num n h1 h2]; split <;> exact ⟨_, rfl⟩

/-- Counting up: renaming `x` (no numeric suffix) gives `x (2)`; renaming `x (n)` - as
    printed by a previous renaming - gives `x (n+1)`; so repeated conflicts give
    `x (2)`, `x (3)`, `x (4)`, ... (up to 4294967295).  `rest` is the part of the name from the
    first `.` on. -/
theorem name_change_counts_up (x rest : BList) (hx : DOT ∉ x) (hr : rest = [] ∨ rest.head? = some DOT) (n : Nat)
    (hn : n < U32_MAX) :
    nameChange (x ++ SP_LPAREN ++ decimal n ++ [RPAREN] ++ rest) =
      .ok (x ++ SP_LPAREN ++ decimal (n + 1) ++ [RPAREN] ++ rest) := by
  have hd : DOT ∉ x ++ SP_LPAREN ++ decimal n ++ [RPAREN] := by
    simp only [List.mem_append, not_or]
    exact ⟨⟨⟨hx, by simp [SP_LPAREN, DOT]⟩, decimal_no_dot n⟩, by simp [RPAREN, DOT]⟩
  obtain ⟨h1, h2⟩ := firstPart_of_no_dot _ rest hd hr
  have := (name_change_spec (x ++ SP_LPAREN ++ decimal n ++ [RPAREN] ++ rest)).1 x (decimal n) n h1
    (parseU32_decimal n (by omega))
  rw [this, h2]
  have : n ≠ U32_MAX := by omega
  simp [this]

/-- the same for host names: `h`, `h-2`, `h-3`, ... -/
theorem hostname_change_counts_up (x rest : BList) (hx : DOT ∉ x) (hr : rest = [] ∨ rest.head? = some DOT)
    (n : Nat) (hn : n < U32_MAX) :
    hostnameChange (x ++ [HYPHEN] ++ decimal n ++ rest) = .ok (x ++ [HYPHEN] ++ decimal (n + 1) ++ rest) := by
  have hd : DOT ∉ x ++ [HYPHEN] ++ decimal n := by
    simp only [List.mem_append, not_or]
    exact ⟨⟨hx, by simp [HYPHEN, DOT]⟩, decimal_no_dot n⟩
  obtain ⟨h1, h2⟩ := firstPart_of_no_dot _ rest hd hr
  have := (hostname_change_spec (x ++ [HYPHEN] ++ decimal n ++ rest)).1 x (decimal n) n h1
    (parseU32_decimal n (by omega))
  rw [this, h2]
  have : n ≠ U32_MAX := by omega
  simp [this]

/-- Length bound: renaming keeps everything from the first `.` on and makes the text before
    it at most 4 bytes (instance) / 2 bytes (host) longer.  So a first label of at most 59 / 61
    bytes stays within the 63 bytes a label may have; a longer one may not (`D15` below). -/
theorem rename_label_bound (s s' : BList) :
    (nameChange s = .ok s' → afterFirst s' = afterFirst s ∧ (firstPart s').length ≤ (firstPart s).length + 4) ∧
    (hostnameChange s = .ok s' → afterFirst s' = afterFirst s ∧ (firstPart s').length ≤ (firstPart s).length + 2) := by
  constructor
  · intro h
    rw [nameChange_eq] at h
    cases hb : bumpParen (firstPart s) with
    | err => simp [hb] at h
    | panic => simp [hb] at h
    | ok f =>
      simp [hb] at h
      subst h
      obtain ⟨hd, hl⟩ := bumpParen_bound _ f (firstPart_no_dot s) hb
      obtain ⟨e1, e2⟩ := firstPart_of_no_dot f (afterFirst s) hd (afterFirst_head s)
      rw [e1, e2]
      exact ⟨rfl, hl⟩
  · intro h
    rw [hostnameChange_eq] at h
    cases hb : bumpHyphen (firstPart s) with
    | err => simp [hb] at h
    | panic => simp [hb] at h
    | ok f =>
      simp [hb] at h
      subst h
      obtain ⟨hd, hl⟩ := bumpHyphen_bound _ f (firstPart_no_dot s) hb
      obtain ⟨e1, e2⟩ := firstPart_of_no_dot f (afterFirst s) hd (afterFirst_head s)
      rw [e1, e2]
      exact ⟨rfl, hl⟩

/-- bytes of an ASCII string literal (for readable witnesses; ASCII only) -/
def str (s : String) : BList := s.toList.map (fun c => UInt8.ofNat c.toNat)

/-! ## The full encodability clause and the witnesses against it (known findings) -/

/-- The clause "on a conflict it picks a new name ... and the new name is still encodable" at
    full strength: for every encodable name the renaming functions return, the new name is
    encodable, and on the wire only the first label has changed. -/
def rename_keeps_name_encodable_full : Prop :=
  ∀ s : BList, encodable s = true →
    (∃ s', nameChange s = .ok s' ∧ encodable s' = true ∧ (wireLabels s').drop 1 = (wireLabels s).drop 1) ∧
    (∃ s', hostnameChange s = .ok s' ∧ encodable s' = true ∧ (wireLabels s').drop 1 = (wireLabels s).drop 1)

/-- D13: `name_change("a\.b._x._udp.local.")` = `a\ (2).b._x._udp.local.`: the suffix lands
    inside the escaped label `a.b`, which becomes the two labels `a\ (2)` and `b`. -/
theorem D13_suffix_inside_escaped_label :
    nameChange (str "a\\.b._x._udp.local.") = .ok (str "a\\ (2).b._x._udp.local.") ∧
    wireLabels (str "a\\.b._x._udp.local.") = [str "a.b", str "_x", str "_udp", str "local"] ∧
    wireLabels (str "a\\ (2).b._x._udp.local.") = [str "a\\ (2)", str "b", str "_x", str "_udp", str "local"] := by
  decide

/-- D14 (repaired): at a suffix of 4294967295, where `number + 1` used to overflow (a panic
    with overflow checks, ` (0)` without), a fresh suffix is appended. -/
theorem D14_rename_at_u32_max :
    nameChange (str "foo (4294967295)._x._udp.local.") = .ok (str "foo (4294967295) (2)._x._udp.local.") ∧
    hostnameChange (str "foo-4294967295.local.") = .ok (str "foo-4294967295-2.local.") := by
  decide

/-- D15: a first label of 63 bytes becomes one of 67 bytes, which `write_utf8` refuses
    (`assert!(s.len() < 64)`). -/
theorem D15_renamed_label_over_63 :
    encodable (List.replicate 63 0x4C ++ str "._x._udp.local.") = true ∧
    nameChange (List.replicate 63 0x4C ++ str "._x._udp.local.") =
      .ok (List.replicate 63 0x4C ++ str " (2)._x._udp.local.") ∧
    encodable (List.replicate 63 0x4C ++ str " (2)._x._udp.local.") = false := by
  decide

theorem rename_keeps_name_encodable_full_is_false : ¬ rename_keeps_name_encodable_full := by
  intro h
  have := (h (List.replicate 63 0x4C ++ str "._x._udp.local.") (by decide)).1
  obtain ⟨s', h1, h2, _⟩ := this
  rw [D15_renamed_label_over_63.2.1] at h1
  cases h1
  rw [D15_renamed_label_over_63.2.2] at h2
  cases h2

/-- What does hold of the encodability clause (the part of `rename_keeps_name_encodable_full`
    that is true of the code): if the text before the first `.` is not empty and contains no
    backslash (no escapes in the first label), then on the wire only the first label changes;
    and if moreover that label has at most 59 bytes (host: 61) and the name at most 251 bytes
    (host: 253), an encodable name stays encodable.  Missing for the full statement: escaped
    first labels (D13), first labels of 60..63 bytes (D15), names of 252..255 bytes (D15b). -/
theorem rename_keeps_name_encodable_partial (s s' : BList) (host : Bool)
    (hne : firstPart s ≠ []) (hb : BACKSLASH ∉ firstPart s)
    (h : (if host then hostnameChange s else nameChange s) = .ok s') :
    wireLabels s = firstPart s :: tailLabels (afterFirst s) ∧
    wireLabels s' = firstPart s' :: tailLabels (afterFirst s) ∧
    (encodable s = true → (firstPart s).length + (if host then 2 else 4) ≤ 63 →
      s.length + (if host then 2 else 4) ≤ 255 → encodable s' = true) := by
  have hs : wireLabels s = firstPart s :: tailLabels (afterFirst s) := by
    have := wireLabels_plain (firstPart s) (afterFirst s) (firstPart_no_dot s) hb hne (afterFirst_head s)
    rwa [firstPart_append_afterFirst] at this
  -- the new first part: dot-free, backslash-free, not empty, bounded
  have key : afterFirst s' = afterFirst s ∧ DOT ∉ firstPart s' ∧ BACKSLASH ∉ firstPart s' ∧ firstPart s' ≠ [] ∧
      (firstPart s').length ≤ (firstPart s).length + (if host then 2 else 4) := by
    cases host with
    | true =>
      simp only [↓reduceIte] at h ⊢
      have hb2 := (rename_label_bound s s').2 h
      rw [hostnameChange_eq] at h
      cases hf : bumpHyphen (firstPart s) with
      | err => simp [hf] at h
      | panic => simp [hf] at h
      | ok f =>
        simp [hf] at h
        obtain ⟨hd, _⟩ := bumpHyphen_bound _ f (firstPart_no_dot s) hf
        obtain ⟨e1, _⟩ := firstPart_of_no_dot f (afterFirst s) hd (afterFirst_head s)
        obtain ⟨hnn, hch⟩ := bumpHyphen_chars _ f hf
        rw [← h, e1]
        refine ⟨by rw [h]; exact hb2.1, hd, ?_, hnn, by rw [← e1, h]; exact hb2.2⟩
        intro hm
        rcases hch _ hm with x | x | x
        · exact hb x
        · simp [BACKSLASH, HYPHEN] at x
        · simp [isDigit, BACKSLASH] at x
    | false =>
      simp only [Bool.false_eq_true, ↓reduceIte] at h ⊢
      have hb2 := (rename_label_bound s s').1 h
      rw [nameChange_eq] at h
      cases hf : bumpParen (firstPart s) with
      | err => simp [hf] at h
      | panic => simp [hf] at h
      | ok f =>
        simp [hf] at h
        obtain ⟨hd, _⟩ := bumpParen_bound _ f (firstPart_no_dot s) hf
        obtain ⟨e1, _⟩ := firstPart_of_no_dot f (afterFirst s) hd (afterFirst_head s)
        obtain ⟨hnn, hch⟩ := bumpParen_chars _ f hf
        rw [← h, e1]
        refine ⟨by rw [h]; exact hb2.1, hd, ?_, hnn, by rw [← e1, h]; exact hb2.2⟩
        intro hm
        rcases hch _ hm with x | x | x | x | x
        · exact hb x
        · simp [BACKSLASH] at x
        · simp [BACKSLASH] at x
        · simp [BACKSLASH] at x
        · simp [isDigit, BACKSLASH] at x
  obtain ⟨ha, hd', hb', hne', hlen⟩ := key
  have hs' : wireLabels s' = firstPart s' :: tailLabels (afterFirst s) := by
    have := wireLabels_plain (firstPart s') (afterFirst s') hd' hb' hne' (afterFirst_head s')
    rwa [firstPart_append_afterFirst, ha] at this
  refine ⟨hs, hs', ?_⟩
  intro henc h63 h255
  unfold encodable at henc ⊢
  rw [hs] at henc
  rw [hs']
  simp only [List.all_cons, Bool.and_eq_true, decide_eq_true_eq] at henc ⊢
  refine ⟨⟨by omega, henc.1.2⟩, ?_⟩
  have l1 : s'.length = (firstPart s').length + (afterFirst s').length := by
    rw [← List.length_append, firstPart_append_afterFirst]
  have l2 : s.length = (firstPart s).length + (afterFirst s).length := by
    rw [← List.length_append, firstPart_append_afterFirst]
  rw [ha] at l1
  omega

/-! ## Non-vacuity -/

/-- the hypotheses of `rename_keeps_name_encodable_partial` are satisfiable -/
example : firstPart (str "My Printer._ipp._tcp.local.") ≠ [] ∧ BACKSLASH ∉ firstPart (str "My Printer._ipp._tcp.local.") ∧
    nameChange (str "My Printer._ipp._tcp.local.") = .ok (str "My Printer (2)._ipp._tcp.local.") ∧
    encodable (str "My Printer._ipp._tcp.local.") = true ∧
    wireLabels (str "My Printer (2)._ipp._tcp.local.") = [str "My Printer (2)", str "_ipp", str "_tcp", str "local"] := by
  decide



/-- two well-typed SRV records differing in the port: opposite answers -/
example :
    let a : Rec := { name := str "h.local.", ty := 33, cls := 1, flush := true, ttl := 120,
                     rdata := .srv 0 0 80 (str "h.local."), start := 0, stop := 0 }
    let b : Rec := { a with rdata := .srv 0 0 81 (str "h.local.") }
    wellTyped a = true ∧ wellTyped b = true ∧ compareRec a b = .lt ∧ compareRec b a = .gt := by
  decide

/-- SRV: the port is compared as a number (255 before 256), then the host string -/
example : compareRData (.srv 0 0 255 [0x7A]) (.srv 0 0 256 [0x61]) = .lt ∧
    compareRData (.srv 0 0 80 (str "h-2.local.")) (.srv 0 0 80 (str "h.local.")) = .lt := by decide

/-- every IPv4 address is earlier than every IPv6 address -/
example : compareRData (.a [255, 255, 255, 255]) (.aaaa (List.replicate 16 0)) = .lt := by decide

/-- a tiebreak with a loser: same A record, different TXT; the one with the earlier TXT
    restarts at `now + 1000`, the other is untouched -/
example :
    let a1 : Rec := { name := str "h.local.", ty := 1, cls := 1, flush := true, ttl := 120,
                      rdata := .a [10, 0, 0, 1], start := 0, stop := 0 }
    let t1 : Rec := { a1 with ty := 16, rdata := .txt [1, 0x61] }
    let t2 : Rec := { a1 with ty := 16, rdata := .txt [1, 0x62] }
    let pa : Probe := { records := [a1, t1], start := 1000, next := 1000 }
    let pb : Probe := { records := [a1, t2], start := 1000, next := 1000 }
    pa.tiebreaking pb.records (str "h.local.") 1100 = { pa with start := 2100, next := 2100 } ∧
    pb.tiebreaking pa.records (str "h.local.") 1100 = pb := by
  decide

/-- the renaming examples of the statement: instance 'x' -> 'x (2)' -> 'x (3)', host 'h' ->
    'h-2' -> 'h-3'; '(9)' -> '(10)'; a literal with '+' or leading zeros is a number too -/
example : nameChange (str "x._x._udp.local.") = .ok (str "x (2)._x._udp.local.") ∧
    nameChange (str "x (2)._x._udp.local.") = .ok (str "x (3)._x._udp.local.") ∧
    nameChange (str "x (9)") = .ok (str "x (10)") ∧
    nameChange (str "x (+07).local.") = .ok (str "x (8).local.") ∧
    nameChange (str "x (2) .local.") = .ok (str "x (2)  (2).local.") ∧
    hostnameChange (str "h.local.") = .ok (str "h-2.local.") ∧
    hostnameChange (str "h-2.local.") = .ok (str "h-3.local.") ∧
    hostnameChange (str "my-host.local.") = .ok (str "my-host-2.local.") ∧
    hostnameChange (str "h-4294967294.local.") = .ok (str "h-4294967295.local.") := by
  decide

/-- the hypotheses of `name_change_spec` are satisfiable on both sides -/
example : firstPart (str "x (41).local.") = str "x" ++ SP_LPAREN ++ str "41" ++ [RPAREN] ∧
    parseU32 (str "41") = some 41 ∧ afterFirst (str "x (41).local.") = str ".local." := by decide

/-! ## The names the daemon-level monitor allows a loser to end with -/

/-- `MonDuel.renamesOf` - the set of names against which the duel monitor checks the loser of
    a conflict - is the statement's sequence: for a name `x.rest` whose first label carries no
    numeric suffix, exactly `x (2)`, `x (3)`, `x (4)`, `x (5)` (with the rest unchanged). -/
theorem duel_allowed_names (x rest : BList) (hx : DOT ∉ x) (hr : rest = [] ∨ rest.head? = some DOT)
    (hno : ¬ ∃ base num n, x = base ++ SP_LPAREN ++ num ++ [RPAREN] ∧ parseU32 num = some n) :
    Mdns.Driver.MonDuel.renamesOf false (x ++ rest) =
      [x ++ SP_LPAREN ++ decimal 2 ++ [RPAREN] ++ rest, x ++ SP_LPAREN ++ decimal 3 ++ [RPAREN] ++ rest,
       x ++ SP_LPAREN ++ decimal 4 ++ [RPAREN] ++ rest, x ++ SP_LPAREN ++ decimal 5 ++ [RPAREN] ++ rest] := by
  obtain ⟨h1, h2⟩ := firstPart_of_no_dot x rest hx hr
  have s1 : nameChange (x ++ rest) = .ok (x ++ SP_LPAREN ++ decimal 2 ++ [RPAREN] ++ rest) := by
    have := (name_change_spec (x ++ rest)).2 (by rw [h1]; exact hno)
    rw [this, h1, h2]
    have : PAREN2 = SP_LPAREN ++ decimal 2 ++ [RPAREN] := by decide
    rw [this]
    simp [List.append_assoc]
  have s2 := name_change_counts_up x rest hx hr 2 (by decide)
  have s3 := name_change_counts_up x rest hx hr 3 (by decide)
  have s4 := name_change_counts_up x rest hx hr 4 (by decide)
  unfold Mdns.Driver.MonDuel.renamesOf
  simp only [Bool.false_eq_true, ↓reduceIte, s1, s2, s3, s4]

/-- ... for instance -/
example : Mdns.Driver.MonDuel.renamesOf false (str "dup._http._tcp.local.") =
    [str "dup (2)._http._tcp.local.", str "dup (3)._http._tcp.local.", str "dup (4)._http._tcp.local.",
     str "dup (5)._http._tcp.local."] := by decide

/-! ## Conflict detection ignores letter case (daemon level, repair of D38)

  Model: `Mdns/Model/Responder.lean` (`Registry.probeKey`, `conflictOnAnswer`, `tiebreak`), compared
  with the real daemon on every run of `./check C07` / `C06` (histories with conflicting responses
  and competing probes that spell the names in other letter cases). -/

/-- our probe of a name is found whatever the letter case of the name asked for -/
theorem probe_lookup_ignores_case (reg : Mdns.Responder.Registry) (n1 n2 : BList) (h : lower n1 = lower n2) :
    reg.probeKey n1 = reg.probeKey n2 := by
  unfold Mdns.Responder.Registry.probeKey
  rw [h]

/-- ... and what is found is a probe of ours whose name is the name asked for, up to letter case -/
theorem probe_lookup_ours (reg : Mdns.Responder.Registry) (n k : BList) (h : reg.probeKey n = some k) :
    lower k = lower n ∧ ∃ p, (k, p) ∈ reg.probing := by
  unfold Mdns.Responder.Registry.probeKey at h
  cases hf : reg.probing.find? (fun e => lower e.1 == lower n) with
  | none => rw [hf] at h; cases h
  | some e =>
    rw [hf] at h
    simp only [Option.map_some, Option.some.injEq] at h
    subst h
    exact ⟨by simpa using List.find?_some hf, e.2, List.mem_of_find?_eq_some hf⟩

/-- CONFLICT DETECTION IGNORES LETTER CASE: what `conflict_handler` does with an answer of a
    response depends on the answer's owner name only up to letter case - the same conflict is
    found, the same records are renamed, and the new names are made from OUR spelling of the
    name.  Before the repair the probe was looked up by the exact spelling on the wire: two hosts
    claiming `duphost.local.` and `DUPHOST.local.` never saw a conflict. -/
theorem conflict_detection_ignores_case (now jitter : Nat) (acc : Mdns.Responder.Registry × List Nat) (a : Wire.Rec)
    (n1 n2 : BList) (h : lower n1 = lower n2) :
    Mdns.Responder.conflictOnAnswer now jitter acc { a with name := n1 } =
      Mdns.Responder.conflictOnAnswer now jitter acc { a with name := n2 } := by
  have e := probe_lookup_ignores_case acc.1 n1 n2 h
  unfold Mdns.Responder.conflictOnAnswer
  simp only [e]
  rfl

/-- our probe of `DUPHOST.local.` with the address 192.168.1.20 -/
def dupReg : Mdns.Responder.Registry :=
  { probing := [(str "DUPHOST.local.",
      { records := [{ name := str "DUPHOST.local.", ty := 1, flush := true, ttl := 120, rdata := .a [192, 168, 1, 20] }],
        waiting := [str "web._http._tcp.local."], start := 1000, next := 1250 })] }

/-- REGRESSION (D38, witness corpus/C08/d38_host_conflict_case_sensitive.ops): a response with
    `duphost.local. A 192.168.1.10` conflicts with our probe of `DUPHOST.local.`: our record moves
    to a probe of `DUPHOST-2.local.` (our spelling) and the rename is remembered; the same
    address as ours, in whatever case, is no conflict -/
example :
    ((Mdns.Responder.conflictOnAnswer 2000 7 (dupReg, [])
        { name := str "duphost.local.", ty := 1, cls := 1, flush := true, ttl := 120, rdata := .a [192, 168, 1, 10],
          start := 0, stop := 0 }).1.probing.map (·.1), 
     (Mdns.Responder.conflictOnAnswer 2000 7 (dupReg, [])
        { name := str "duphost.local.", ty := 1, cls := 1, flush := true, ttl := 120, rdata := .a [192, 168, 1, 10],
          start := 0, stop := 0 }).1.nameChanges) =
      ([str "DUPHOST.local.", str "DUPHOST-2.local."], [(str "DUPHOST.local.", str "DUPHOST-2.local.")]) ∧
    Mdns.Responder.conflictOnAnswer 2000 7 (dupReg, [])
        { name := str "duphost.LOCAL.", ty := 1, cls := 1, flush := true, ttl := 120, rdata := .a [192, 168, 1, 20],
          start := 0, stop := 0 } = (dupReg, []) := by decide +kernel

end Mdns.Props.C08
