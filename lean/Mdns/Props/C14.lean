import Mdns.Model.Shutdown
/-
  C14  Shutdown is clean, final and safe under concurrent use (queue model).

  The theorems quantify over EVERY queue and EVERY position of the shutdown in it.  What
  the model cannot exhibit - OS-thread interleavings, the channel implementation, blocking
  `recv` - is exercised by `stress-shutdown` runs on real threads (support, not proof).
-/
namespace Mdns.Props.C14
open Mdns Mdns.Shutdown

/-- no `Exit` among these commands -/
def noExit (cs : List QCmd) : Prop := ∀ c ∈ cs, ∀ ch, c ≠ .exit ch

theorem process_append_exit (s : QState) (before behind : List QCmd) (ch : Nat) (h : noExit before) :
    process s (before ++ .exit ch :: behind) =
      ((shutdown (process s before).1 ch behind).1,
       (process s before).2 ++ (shutdown (process s before).1 ch behind).2) := by
  induction before generalizing s with
  | nil => simp [process]
  | cons c rest ih =>
    have hc : ∀ ch', c ≠ .exit ch' := h c List.mem_cons_self
    have hrest : noExit rest := fun x hx => h x (List.mem_cons_of_mem _ hx)
    cases c with
    | exit ch' => exact absurd rfl (hc ch')
    | status _ | metrics _ | unregister _ _ | browse _ _ | resolve _ _ | monitor _ | other =>
      simp only [List.cons_append, process]
      rw [ih _ hrest]
      simp

/-- Shutdown contract, for a shutdown at ANY position of ANY queue: the commands in front of
    it are executed normally; then every service still registered is withdrawn with a
    goodbye, every open search gets SearchStopped (and its channel ends), every command queued
    behind the shutdown has its reply channel closed, the caller of shutdown gets `Shutdown`,
    and the thread ends. -/
theorem shutdown_contract (s : QState) (before behind : List QCmd) (ch : Nat) (h : noExit before) :
    let s1 := (process s before).1
    (process s (before ++ .exit ch :: behind)).2 =
      (process s before).2 ++ s1.services.map .goodbye ++
        s1.searches.flatMap (fun c => [.searchStopped c, .closed c]) ++
        (behind.filterMap chanOf).map .closed ++ [.reply ch "shutdown", .threadEnds] ++ s1.monitors.map .closed := by
  simp only [process_append_exit s before behind ch h, shutdown, List.append_assoc]

/-- afterwards nothing is registered, no search is open, the daemon is not running -/
theorem after_shutdown_state (s : QState) (before behind : List QCmd) (ch : Nat) (h : noExit before) :
    (process s (before ++ .exit ch :: behind)).1 =
      { services := [], searches := [], monitors := [], running := false } := by
  simp [process_append_exit s before behind ch h, shutdown]

/-- No call is left hanging: every command of the queue that has a reply channel gets a
    value on it or the channel is closed - whatever the position of the shutdown. -/
theorem every_reply_settled (s : QState) (before behind : List QCmd) (ch : Nat) (h : noExit before) :
    ∀ c ∈ behind, ∀ k, chanOf c = some k →
      QOut.closed k ∈ (process s (before ++ .exit ch :: behind)).2 := by
  intro c hc k hk
  rw [shutdown_contract s before behind ch h]
  simp only [List.mem_append, List.mem_map, List.mem_filterMap]
  refine Or.inl (Or.inl (Or.inr ⟨k, ⟨c, hc, hk⟩, rfl⟩))

/-- The clean-up happens exactly once: the thread ends exactly once and the caller of the
    first shutdown is the only one to get the `Shutdown` value from the daemon. -/
theorem cleanup_once (s : QState) (before behind : List QCmd) (ch : Nat) (h : noExit before)
    (hb : (process s before).2.count .threadEnds = 0) :
    (process s (before ++ .exit ch :: behind)).2.count .threadEnds = 1 := by
  rw [shutdown_contract s before behind ch h]
  simp only [List.count_append, hb]
  have h1 : ∀ l : List BList, (l.map QOut.goodbye).count .threadEnds = 0 := by
    intro l; induction l <;> simp_all [List.count_cons]
  have h2 : ∀ l : List Nat, (l.flatMap fun c => [QOut.searchStopped c, QOut.closed c]).count .threadEnds = 0 := by
    intro l; induction l <;> simp_all [List.count_cons, List.flatMap_cons]
  have h3 : ∀ l : List Nat, (l.map QOut.closed).count .threadEnds = 0 := by
    intro l; induction l <;> simp_all [List.count_cons]
  simp [h1, h2, h3, List.count_cons]

/-- commands in front of the shutdown never end the thread -/
theorem running_loop_never_ends (s : QState) (cs : List QCmd) (h : noExit cs) :
    (process s cs).2.count .threadEnds = 0 := by
  induction cs generalizing s with
  | nil => simp [process]
  | cons c rest ih =>
    have hc : ∀ ch', c ≠ .exit ch' := h c List.mem_cons_self
    have hrest : noExit rest := fun x hx => h x (List.mem_cons_of_mem _ hx)
    cases c with
    | exit ch' => exact absurd rfl (hc ch')
    | unregister n k =>
      simp only [process, exec]
      split <;> simp [List.count_append, List.count_cons, ih _ hrest]
    | status _ | metrics _ | browse _ _ | resolve _ _ | monitor _ | other =>
      simp [process, exec, List.count_append, List.count_cons, ih _ hrest]

/-- the channels of the searches a queue of commands opens -/
def opened : List QCmd → List Nat
  | [] => []
  | .browse _ ch :: cs => ch :: opened cs
  | .resolve _ ch :: cs => ch :: opened cs
  | _ :: cs => opened cs

/-- the running loop keeps every search that was open and adds the ones the queue opens -/
theorem searches_after (s : QState) (cs : List QCmd) (h : noExit cs) :
    (process s cs).1.searches = s.searches ++ opened cs := by
  induction cs generalizing s with
  | nil => simp [process, opened]
  | cons c rest ih =>
    have hc : ∀ ch', c ≠ .exit ch' := h c List.mem_cons_self
    have hrest : noExit rest := fun x hx => h x (List.mem_cons_of_mem _ hx)
    cases c with
    | exit ch' => exact absurd rfl (hc ch')
    | unregister n k =>
      simp only [process, exec, opened]
      split <;> simp [ih _ hrest]
    | status _ | metrics _ | browse _ _ | resolve _ _ | monitor _ | other =>
      simp [process, exec, opened, ih _ hrest]

/-- **Every search open at the shutdown is told so, and that is the last thing it hears**:
    each search that was open before the queue or is opened by a command in front of the
    shutdown gets `SearchStopped` immediately followed by the end of its channel; and nothing
    the shutdown emits starts a search - a browse queued behind it only has its channel closed
    (`every_reply_settled`). -/
theorem open_searches_stopped_last (s : QState) (before behind : List QCmd) (ch : Nat) (h : noExit before) :
    (∀ c ∈ s.searches ++ opened before,
      [QOut.searchStopped c, QOut.closed c] <:+: (process s (before ++ .exit ch :: behind)).2) ∧
    ∀ o ∈ (shutdown (process s before).1 ch behind).2, ∀ c, o ≠ QOut.searchStarted c := by
  constructor
  · intro c hc
    rw [shutdown_contract s before behind ch h, searches_after s before h]
    obtain ⟨l1, l2, hsplit⟩ := List.append_of_mem hc
    rw [hsplit]
    simp only [List.flatMap_append, List.flatMap_cons, List.append_assoc]
    refine ⟨(process s before).2 ++ (List.map QOut.goodbye (process s before).1.services ++
      List.flatMap (fun c => [QOut.searchStopped c, QOut.closed c]) l1),
      List.flatMap (fun c => [QOut.searchStopped c, QOut.closed c]) l2 ++
        (List.map QOut.closed (List.filterMap chanOf behind) ++
          ([QOut.reply ch "shutdown", QOut.threadEnds] ++ List.map QOut.closed (process s before).1.monitors)), ?_⟩
    simp only [List.append_assoc]
  · intro o ho c hoc
    subst hoc
    simp [shutdown] at ho

example : opened [.metrics 1, .browse [0x61] 5, .other, .resolve [0x62] 6] = [5, 6] := by decide

/-- once the thread has ended every call fails with `DaemonShutdown`, except `status()`, which
    reports `Shutdown` -/
theorem calls_after_end (c : QCmd) :
    (callAfterEnd c).2 = "shutdown" ∨ ∃ ch, c = .status ch ∧ (callAfterEnd c).1 = [.reply ch "shutdown", .closed ch] := by
  cases c <;> simp [callAfterEnd]

/-! non-vacuity: a queue with commands on both sides of the shutdown -/
example :
    (process { services := [[0x61]], searches := [7], monitors := [], running := true }
      [.metrics 1, .exit 2, .status 3, .exit 4, .other]).2 =
    [.reply 1 "metrics", .goodbye [0x61], .searchStopped 7, .closed 7, .closed 3, .closed 4,
     .reply 2 "shutdown", .threadEnds] := by decide

end Mdns.Props.C14
