import Mdns.Lemmas.Responder
/-
  C09  Unregistering says goodbye for exactly what was announced, then goes quiet.

  Model: `Mdns/Model/Responder.lean` (`execUnregister`, `goodbyePkt`, `execUnregisterResend`,
  `cleanup`, `execRegisterResend`), compared with the real daemon thread on every run: reply,
  goodbye packets (interface, family, every record with TTL), the repeat 120 ms later and the
  silence afterwards agree on all generated histories.

  Proved: the reply (`unregister_reply`), the goodbye contract as the code implements it
  (`goodbye_contract`: one packet per interface and family with an in-subnet address, PTR
  (+ subtype PTR), SRV, TXT, addresses, all TTL 0, repeated once at +120 ms with the same
  content; `shutdown_goodbyes`), and quiet afterwards (`quiet_after`).

  NOT as the statement reads it: the goodbye goes out wherever the service has an in-subnet
  address, ALSO where it is still probing (never announced there), and it always carries the
  names as registered.  `goodbye_contract_full` is the statement ("only where announced");
  `goodbye_while_probing` proves that the model - and the code, witness
  corpus/C09/goodbye_while_probing.ops - violates it.
-/
namespace Mdns.Props.C09
open Mdns Mdns.Responder

/-- `unregister(name)` answers OK exactly when a service is registered under the lower-cased
    name, NotFound otherwise; exactly one reply is sent, on the caller's channel. -/
theorem unregister_reply (s : State) (now : Nat) (name : BList) (ch : Nat) :
    (Out.unregReply ch true ∈ (execUnregister s now name ch).2 ↔ ∃ svc, (lower name, svc) ∈ s.services) ∧
    (Out.unregReply ch false ∈ (execUnregister s now name ch).2 ↔ ¬ ∃ svc, (lower name, svc) ∈ s.services) := by
  have hiff := alookup_isSome_iff (lower name) s.services
  unfold execUnregister
  cases hl : alookup (lower name) s.services with
  | none =>
    have : ¬ ∃ svc, (lower name, svc) ∈ s.services := by
      rw [← hiff, hl]; simp
    simp [this]
  | some svc =>
    have : ∃ svc, (lower name, svc) ∈ s.services := by
      rw [← hiff, hl]; rfl
    simp [this]

/-- NotFound changes nothing -/
theorem unregister_unknown_noop (s : State) (now : Nat) (name : BList) (ch : Nat)
    (h : alookup (lower name) s.services = none) : execUnregister s now name ch = (s, [.unregReply ch false]) := by
  simp [execUnregister, h]

/-- On OK: the packets sent are exactly the goodbye packets of the service, one per
    (interface, family) - followed by the reply; each is queued once more for `now + 120` ms
    with the same content, and a timer is armed for it. -/
theorem goodbye_contract (s : State) (now : Nat) (name : BList) (ch : Nat) (svc : Service)
    (h : alookup (lower name) s.services = some svc) :
    (execUnregister s now name ch).2 =
      (goodbyes s.intfs svc).map (fun g => Out.send g.1 g.2.1 none g.2.2) ++ [.unregReply ch true] ∧
    (execUnregister s now name ch).1.reruns =
      s.reruns ++ (goodbyes s.intfs svc).map (fun g => ReRun.unregisterResend (now + 120) g.2.2 g.1 g.2.1) ∧
    (execUnregister s now name ch).1.timers = s.timers ++ (goodbyes s.intfs svc).map (fun _ => now + 120) := by
  simp [execUnregister, h]

/-- Which goodbye packets there are: one for an interface index and a family exactly when an
    interface with that index has an in-subnet address of the service in that family. -/
theorem goodbye_packets (intfs : List MyIntf) (svc : Service) (idx : Nat) (v4 : Bool) (p : Packet) :
    (idx, v4, p) ∈ goodbyes intfs svc ↔ ∃ i ∈ intfs, i.index = idx ∧ goodbyePkt svc i v4 = some p :=
  mem_goodbyes

/-- The content of a goodbye packet: a response with id 0 whose answers are PTR (and subtype
    PTR), SRV, TXT and the in-subnet addresses of the family, nothing else, every record with
    TTL 0, under the names as registered. -/
theorem goodbye_content (svc : Service) (i : MyIntf) (v4 : Bool) (p : Packet) (h : goodbyePkt svc i v4 = some p) :
    addrsOn svc i v4 ≠ [] ∧ p.id = 0 ∧ p.flags = FLAGS_RESPONSE ∧ p.questions = [] ∧ p.authorities = [] ∧ p.additionals = [] ∧
    p.answers = ptrRecords svc svc.fullname 0 ++
      [{ name := svc.fullname, ty := TYPE_SRV, flush := true, ttl := 0, rdata := .srv 0 0 svc.port svc.host },
       { name := svc.fullname, ty := TYPE_TXT, flush := true, ttl := 0, rdata := .txt svc.txt }] ++
      (addrsOn svc i v4).map (fun ip => { name := svc.host, ty := addrType ip, flush := true, ttl := 0, rdata := addrRData ip }) ∧
    ∀ a ∈ p.answers, a.ttl = 0 ∧ a.newName = none :=
  ⟨(goodbyePkt_spec h).1, (goodbyePkt_spec h).2.1, (goodbyePkt_spec h).2.2.1, (goodbyePkt_spec h).2.2.2.1,
   (goodbyePkt_spec h).2.2.2.2.1, (goodbyePkt_spec h).2.2.2.2.2.1, (goodbyePkt_spec h).2.2.2.2.2.2, goodbyePkt_ttl_zero h⟩

/-- no goodbye for a family in which the service has no address inside the interface's subnet -/
theorem no_goodbye_off_link (svc : Service) (i : MyIntf) (v4 : Bool) (h : addrsOn svc i v4 = []) :
    goodbyePkt svc i v4 = none := by
  simp [goodbyePkt, h]

/-- The repeat: when the queued `UnregisterResend` runs and the interface still has an address
    of the family, the very same packet is multicast again on that interface and family. -/
theorem goodbye_resend (s : State) (now j t : Nat) (p : Packet) (i : MyIntf) (v4 : Bool) (outs : List Out)
    (hi : s.intfs.find? (·.index == i.index) = some i) (hf : i.hasFamily v4 = true) :
    execRerun now j (s, outs) (.unregisterResend t p i.index v4) = (s, outs ++ [.send i.index v4 none p]) := by
  simp [execRerun, execUnregisterResend, hi, hf]

/-- Shutdown: a goodbye for every registered service, on every interface and family as for
    unregister; afterwards nothing is registered and nothing is queued. -/
theorem shutdown_goodbyes (s : State) :
    (cleanup s).2 = s.services.flatMap (fun e => (goodbyes s.intfs e.2).map (fun g => Out.send g.1 g.2.1 none g.2.2)) ∧
    (cleanup s).1.services = [] ∧ (cleanup s).1.reruns = [] ∧ (cleanup s).1.stopped = true := by
  simp [cleanup]

/-- Quiet afterwards: the name is no longer registered; every other service is registered as
    before with unchanged data; the queued second announcement of the service (in whatever
    letter case it was registered) is a no-op; a query is answered from the remaining
    services only (`Props.C06.handleQuery_spec` is a function of `services`), so if none of them
    is announced on the interface nothing is sent. -/
theorem quiet_after (s : State) (now : Nat) (name : BList) (ch : Nat) :
    alookup (lower name) (execUnregister s now name ch).1.services = none ∨
      (alookup (lower name) s.services = none ∧ (execUnregister s now name ch).1 = s) := by
  unfold execUnregister
  cases hl : alookup (lower name) s.services with
  | none => right; simp
  | some svc => left; simp [alookup_aerase_self]

theorem quiet_after_others (s : State) (now : Nat) (name : BList) (ch : Nat) (k : BList) (hk : k ≠ lower name) :
    alookup k (execUnregister s now name ch).1.services = alookup k s.services := by
  unfold execUnregister
  cases hl : alookup (lower name) s.services with
  | none => rfl
  | some svc => simp [alookup_aerase_ne _ _ _ hk]

theorem quiet_after_no_reannounce (s : State) (now j : Nat) (fullname : BList) (idx : Nat)
    (h : alookup (lower fullname) s.services = none) : execRegisterResend s now j fullname idx = (s, []) := by
  simp [execRegisterResend, h]

theorem quiet_after_no_answer (s : State) (now : Nat) (name : BList) (ch : Nat) (t : Nat) (p : RxPkt) (i : MyIntf)
    (h : ∀ e ∈ s.services, e.1 ≠ lower name → e.2.announcedOn i.index = false) :
    (handleQuery (execUnregister s now name ch).1 t p i).2 = [] := by
  apply handleQuery_silent
  intro e he
  unfold execUnregister at he
  cases hl : alookup (lower name) s.services with
  | none =>
    simp only [hl] at he
    have hk : e.1 ≠ lower name := by
      intro hk
      have hm : (lower name, e.2) ∈ s.services := by rw [← hk]; exact he
      have := (alookup_isSome_iff (lower name) s.services).mpr ⟨e.2, hm⟩
      simp [hl] at this
    exact h e he hk
  | some svc =>
    simp only [hl, aerase, List.mem_filter, Bool.not_eq_eq_eq_not, Bool.not_true, decide_eq_false_iff_not] at he
    exact h e he.1 he.2

/-! ### the statement's "where the service was announced" -/

/-- FULL STRENGTH as the statement reads: a goodbye leaves only on interfaces where the service
    has been announced (status `Announced`). -/
def goodbye_contract_full : Prop :=
  ∀ (s : State) (now : Nat) (name : BList) (ch : Nat) (svc : Service), alookup (lower name) s.services = some svc →
    ∀ idx v4 p, Out.send idx v4 none p ∈ (execUnregister s now name ch).2 → svc.announcedOn idx = true

/-- the state 100 ms after `register(web)` on a fresh daemon: still probing -/
def probingState : State := (iter (init 1000000 [eth0]) { now := 1000000, jitter := 7, cmds := [.register web] }).1

def probingSvc : Service := web.setStatus 2 .probing

def goodbyeOfWeb : Packet :=
  { flags := FLAGS_RESPONSE,
    answers := [{ name := web.ty, ty := TYPE_PTR, flush := false, ttl := 0, rdata := .ptr web.fullname },
                { name := web.fullname, ty := TYPE_SRV, flush := true, ttl := 0, rdata := .srv 0 0 80 web.host },
                { name := web.fullname, ty := TYPE_TXT, flush := true, ttl := 0, rdata := .txt [0] },
                { name := web.host, ty := TYPE_A, flush := true, ttl := 0, rdata := .a [192, 168, 1, 20] }] }

/-- FINDING: the statement is violated - unregistering a service that is still probing (its
    name was never announced, it could even lose the probe) multicasts a goodbye for it. -/
theorem goodbye_while_probing : ¬ goodbye_contract_full := by
  intro h
  have h1 := h probingState 1000100 web.fullname 1 probingSvc (by decide +kernel) 2 true goodbyeOfWeb (by decide +kernel)
  exact absurd h1 (by decide +kernel)

/-- PROVED PART of the contract: everything except "only where announced" and "under the names
    most recently announced" (the goodbye always uses the names as registered; with a rename by
    conflict resolution that is the wrong name - D21). -/
theorem goodbye_contract_partial (s : State) (now : Nat) (name : BList) (ch : Nat) (svc : Service)
    (h : alookup (lower name) s.services = some svc) :
    ∀ idx v4 p, Out.send idx v4 none p ∈ (execUnregister s now name ch).2 →
      (∃ i ∈ s.intfs, i.index = idx ∧ goodbyePkt svc i v4 = some p) ∧
      ReRun.unregisterResend (now + 120) p idx v4 ∈ (execUnregister s now name ch).1.reruns ∧
      (now + 120) ∈ (execUnregister s now name ch).1.timers := by
  intro idx v4 p hm
  obtain ⟨h1, h2, h3⟩ := goodbye_contract s now name ch svc h
  rw [h1] at hm
  simp only [List.mem_append, List.mem_map, List.mem_cons, List.not_mem_nil, or_false] at hm
  rcases hm with ⟨g, hg, heq⟩ | hm
  · obtain ⟨gi, gv, gp⟩ := g
    simp only [Out.send.injEq, true_and] at heq
    obtain ⟨e1, e2, e3⟩ := heq
    subst e1 e2 e3
    refine ⟨mem_goodbyes.mp hg, ?_, ?_⟩
    · rw [h2]
      simp only [List.mem_append, List.mem_map]
      exact Or.inr ⟨_, hg, rfl⟩
    · rw [h3]
      simp only [List.mem_append, List.mem_map]
      exact Or.inr ⟨_, hg, trivial⟩
  · cases hm

/-! ### non-vacuity -/

/-- an announced service: unregister in another letter case answers OK, sends one goodbye with
    four TTL-0 records, queues the repeat for +120 ms -/
example :
    let s := (run (init 1000000 [eth0])
      [{ now := 1000000, jitter := 7, cmds := [.register web] }, { now := 1000007, jitter := 7 },
       { now := 1000257, jitter := 7 }, { now := 1000507, jitter := 7 }, { now := 1000757, jitter := 7 }]).1
    (execUnregister s 1001000 [0x57,0x45,0x42,0x2e,0x5f,0x68,0x74,0x74,0x70,0x2e,0x5f,0x74,0x63,0x70,0x2e,0x6c,0x6f,0x63,0x61,0x6c,0x2e] 5).2 =
      [.send 2 true none goodbyeOfWeb, .unregReply 5 true] := by decide +kernel

example : (execUnregister probingState 1000100 [0x78] 5).2 = [.unregReply 5 false] := by decide +kernel

end Mdns.Props.C09
