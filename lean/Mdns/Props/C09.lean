import Mdns.Lemmas.Responder
/-
  C09  Unregistering says goodbye for exactly what was announced, then goes quiet.

  Model: `Mdns/Model/Responder.lean` (`execUnregister`, `goodbyePkt`, `execUnregisterResend`,
  `cleanup`, `execRegisterResend`), compared with the real daemon thread on every run: reply,
  goodbye packets (interface, family, every record with TTL), the repeat 120 ms later and the
  silence afterwards agree on all generated histories.

  Proved: the reply (`unregister_reply`), the goodbye contract (`goodbye_contract`: one packet
  per interface on which the service is `Announced` and family with an in-subnet address, PTR
  (+ subtype PTR), SRV, TXT, addresses, all TTL 0, repeated once at +120 ms with the same
  content; `shutdown_goodbyes`), "only where announced" (`goodbye_only_where_announced`, the
  statement `goodbye_contract_full` - it was FALSE before the repair of D30: the goodbye went
  out wherever the service had an in-subnet address, also while it was still probing; the
  witness corpus/C09/d30_goodbye_while_probing.ops is a regression `example` below), the
  unregistered service leaves the probes it waited for and a probe nobody else waits for is
  dropped (`unregister_leaves_probes`), and quiet afterwards (`quiet_after`).

  NOT as the statement reads it: the goodbye always carries the names as registered (D21).
-/
namespace Mdns.Props.C09
open Mdns Mdns.Responder

/-- `unregister(name)` answers OK exactly when a service is registered under the lower-cased
    name, NotFound otherwise; exactly one reply is sent, on the caller's channel. -/
theorem unregister_reply (s : State) (now : Nat) (name : BList) (ch : Nat) :
    (Out.unregReply ch true ∈ (execUnregister s now name ch).2 ↔ ∃ svc, (lower name, svc) ∈ s.services) ∧
    (Out.unregReply ch false ∈ (execUnregister s now name ch).2 ↔ ¬ ∃ svc, (lower name, svc) ∈ s.services) := by
  have hiff := alookup_isSome_iff (lower name) s.services
  unfold execUnregister
  cases hl : alookup (lower name) s.services with
  | none =>
    have : ¬ ∃ svc, (lower name, svc) ∈ s.services := by
      rw [← hiff, hl]; simp
    simp [this]
  | some svc =>
    have : ∃ svc, (lower name, svc) ∈ s.services := by
      rw [← hiff, hl]; rfl
    simp [this]

/-- NotFound changes nothing -/
theorem unregister_unknown_noop (s : State) (now : Nat) (name : BList) (ch : Nat)
    (h : alookup (lower name) s.services = none) : execUnregister s now name ch = (s, [.unregReply ch false]) := by
  simp [execUnregister, h]

/-- On OK: the packets sent are exactly the goodbye packets of the service, one per
    (interface on which it is `Announced`, family) - followed by the reply; each is queued once
    more for `now + 120` ms with the same content, and a timer is armed for it. -/
theorem goodbye_contract (s : State) (now : Nat) (name : BList) (ch : Nat) (svc : Service)
    (h : alookup (lower name) s.services = some svc) :
    (execUnregister s now name ch).2 =
      (goodbyes (announcedIntfs s svc) svc).map (fun g => Out.send g.1 g.2.1 none g.2.2) ++ [.unregReply ch true] ∧
    (execUnregister s now name ch).1.reruns =
      s.reruns ++ (goodbyes (announcedIntfs s svc) svc).map (fun g => ReRun.unregisterResend (now + 120) g.2.2 g.1 g.2.1) ∧
    (execUnregister s now name ch).1.timers = s.timers ++ (goodbyes (announcedIntfs s svc) svc).map (fun _ => now + 120) := by
  simp [execUnregister, h]

/-- the interfaces a goodbye is due on: those of the daemon on which the service is `Announced` -/
theorem mem_announcedIntfs (s : State) (svc : Service) (i : MyIntf) :
    i ∈ announcedIntfs s svc ↔ i ∈ s.intfs ∧ svc.announcedOn i.index = true := by
  simp [announcedIntfs, List.mem_filter]

/-- Which goodbye packets there are: one for an interface index and a family exactly when an
    interface with that index has an in-subnet address of the service in that family. -/
theorem goodbye_packets (intfs : List MyIntf) (svc : Service) (idx : Nat) (v4 : Bool) (p : Packet) :
    (idx, v4, p) ∈ goodbyes intfs svc ↔ ∃ i ∈ intfs, i.index = idx ∧ goodbyePkt svc i v4 = some p :=
  mem_goodbyes

/-- The content of a goodbye packet: a response with id 0 whose answers are PTR (and subtype
    PTR), SRV, TXT and the in-subnet addresses of the family, nothing else, every record with
    TTL 0, under the names as registered. -/
theorem goodbye_content (svc : Service) (i : MyIntf) (v4 : Bool) (p : Packet) (h : goodbyePkt svc i v4 = some p) :
    addrsOn svc i v4 ≠ [] ∧ p.id = 0 ∧ p.flags = FLAGS_RESPONSE ∧ p.questions = [] ∧ p.authorities = [] ∧ p.additionals = [] ∧
    p.answers = ptrRecords svc svc.fullname 0 ++
      [{ name := svc.fullname, ty := TYPE_SRV, flush := true, ttl := 0, rdata := .srv 0 0 svc.port svc.host },
       { name := svc.fullname, ty := TYPE_TXT, flush := true, ttl := 0, rdata := .txt svc.txt }] ++
      (addrsOn svc i v4).map (fun ip => { name := svc.host, ty := addrType ip, flush := true, ttl := 0, rdata := addrRData ip }) ∧
    ∀ a ∈ p.answers, a.ttl = 0 ∧ a.newName = none :=
  ⟨(goodbyePkt_spec h).1, (goodbyePkt_spec h).2.1, (goodbyePkt_spec h).2.2.1, (goodbyePkt_spec h).2.2.2.1,
   (goodbyePkt_spec h).2.2.2.2.1, (goodbyePkt_spec h).2.2.2.2.2.1, (goodbyePkt_spec h).2.2.2.2.2.2, goodbyePkt_ttl_zero h⟩

/-- no goodbye for a family in which the service has no address inside the interface's subnet -/
theorem no_goodbye_off_link (svc : Service) (i : MyIntf) (v4 : Bool) (h : addrsOn svc i v4 = []) :
    goodbyePkt svc i v4 = none := by
  simp [goodbyePkt, h]

/-- The repeat: when the queued `UnregisterResend` runs and the interface still has an address
    of the family, the very same packet is multicast again on that interface and family. -/
theorem goodbye_resend (s : State) (now j t : Nat) (p : Packet) (i : MyIntf) (v4 : Bool) (outs : List Out)
    (hi : s.intfs.find? (·.index == i.index) = some i) (hf : i.hasFamily v4 = true) :
    execRerun now j (s, outs) (.unregisterResend t p i.index v4) = (s, outs ++ [.send i.index v4 none p]) := by
  simp [execRerun, execUnregisterResend, hi, hf]

/-- Shutdown: a goodbye for every registered service, on every interface (where it is
    `Announced`) and family as for unregister; afterwards nothing is registered and nothing is queued. -/
theorem shutdown_goodbyes (s : State) :
    (cleanup s).2 = s.services.flatMap (fun e => (goodbyes (announcedIntfs s e.2) e.2).map (fun g => Out.send g.1 g.2.1 none g.2.2)) ∧
    (cleanup s).1.services = [] ∧ (cleanup s).1.reruns = [] ∧ (cleanup s).1.stopped = true := by
  simp [cleanup]

/-- Quiet afterwards: the name is no longer registered; every other service is registered as
    before with unchanged data; the queued second announcement of the service (in whatever
    letter case it was registered) is a no-op; a query is answered from the remaining
    services only (`Props.C06.handleQuery_spec` is a function of `services`), so if none of them
    is announced on the interface nothing is sent. -/
theorem quiet_after (s : State) (now : Nat) (name : BList) (ch : Nat) :
    alookup (lower name) (execUnregister s now name ch).1.services = none ∨
      (alookup (lower name) s.services = none ∧ (execUnregister s now name ch).1 = s) := by
  unfold execUnregister
  cases hl : alookup (lower name) s.services with
  | none => right; simp
  | some svc => left; simp [alookup_aerase_self]

theorem quiet_after_others (s : State) (now : Nat) (name : BList) (ch : Nat) (k : BList) (hk : k ≠ lower name) :
    alookup k (execUnregister s now name ch).1.services = alookup k s.services := by
  unfold execUnregister
  cases hl : alookup (lower name) s.services with
  | none => rfl
  | some svc => simp [alookup_aerase_ne _ _ _ hk]

theorem quiet_after_no_reannounce (s : State) (now j : Nat) (fullname : BList) (idx : Nat)
    (h : alookup (lower fullname) s.services = none) : execRegisterResend s now j fullname idx = (s, []) := by
  simp [execRegisterResend, h]

theorem quiet_after_no_answer (s : State) (now : Nat) (name : BList) (ch : Nat) (t : Nat) (p : RxPkt) (i : MyIntf)
    (h : ∀ e ∈ s.services, e.1 ≠ lower name → e.2.announcedOn i.index = false) :
    (handleQuery (execUnregister s now name ch).1 t p i).2 = [] := by
  apply handleQuery_silent
  intro e he
  unfold execUnregister at he
  cases hl : alookup (lower name) s.services with
  | none =>
    simp only [hl] at he
    have hk : e.1 ≠ lower name := by
      intro hk
      have hm : (lower name, e.2) ∈ s.services := by rw [← hk]; exact he
      have := (alookup_isSome_iff (lower name) s.services).mpr ⟨e.2, hm⟩
      simp [hl] at this
    exact h e he hk
  | some svc =>
    simp only [hl, aerase, List.mem_filter, Bool.not_eq_eq_eq_not, Bool.not_true, decide_eq_false_iff_not] at he
    exact h e he.1 he.2

/-! ### the statement's "where the service was announced" -/

/-- FULL STRENGTH as the statement reads: a goodbye leaves only on interfaces where the service
    has been announced (status `Announced`). -/
def goodbye_contract_full : Prop :=
  ∀ (s : State) (now : Nat) (name : BList) (ch : Nat) (svc : Service), alookup (lower name) s.services = some svc →
    ∀ idx v4 p, Out.send idx v4 none p ∈ (execUnregister s now name ch).2 → svc.announcedOn idx = true

/-- THE CONTRACT, soundness (holds since the repair of D30): every packet `unregister` sends is
    the goodbye packet of the service for an interface of the daemon on which the service is
    `Announced` and a family in which it has an in-subnet address there; it is queued once more
    for `now + 120` ms and a timer is armed. -/
theorem goodbye_contract_sound (s : State) (now : Nat) (name : BList) (ch : Nat) (svc : Service)
    (h : alookup (lower name) s.services = some svc) :
    ∀ idx v4 p, Out.send idx v4 none p ∈ (execUnregister s now name ch).2 →
      (∃ i ∈ s.intfs, i.index = idx ∧ svc.announcedOn idx = true ∧ goodbyePkt svc i v4 = some p) ∧
      ReRun.unregisterResend (now + 120) p idx v4 ∈ (execUnregister s now name ch).1.reruns ∧
      (now + 120) ∈ (execUnregister s now name ch).1.timers := by
  intro idx v4 p hm
  obtain ⟨h1, h2, h3⟩ := goodbye_contract s now name ch svc h
  rw [h1] at hm
  simp only [List.mem_append, List.mem_map, List.mem_cons, List.not_mem_nil, or_false] at hm
  rcases hm with ⟨g, hg, heq⟩ | hm
  · obtain ⟨gi, gv, gp⟩ := g
    simp only [Out.send.injEq, true_and] at heq
    obtain ⟨e1, e2, e3⟩ := heq
    subst e1 e2 e3
    refine ⟨?_, ?_, ?_⟩
    · obtain ⟨i, hi, hidx, hp⟩ := mem_goodbyes.mp hg
      obtain ⟨hin, hann⟩ := (mem_announcedIntfs s svc i).mp hi
      exact ⟨i, hin, hidx, hidx ▸ hann, hp⟩
    · rw [h2]
      simp only [List.mem_append, List.mem_map]
      exact Or.inr ⟨_, hg, rfl⟩
    · rw [h3]
      simp only [List.mem_append, List.mem_map]
      exact Or.inr ⟨_, hg, trivial⟩
  · cases hm

/-- ONLY WHERE ANNOUNCED: the statement holds of the repaired code. -/
theorem goodbye_only_where_announced : goodbye_contract_full := by
  intro s now name ch svc h idx v4 p hm
  obtain ⟨⟨_, _, _, hann, _⟩, _⟩ := goodbye_contract_sound s now name ch svc h idx v4 p hm
  exact hann

/-- THE CONTRACT, completeness: on every interface of the daemon on which the service is
    `Announced`, for every family in which it has an in-subnet address there, the goodbye packet
    is sent. -/
theorem goodbye_where_announced (s : State) (now : Nat) (name : BList) (ch : Nat) (svc : Service)
    (h : alookup (lower name) s.services = some svc) (i : MyIntf) (hi : i ∈ s.intfs) (hann : svc.announcedOn i.index = true)
    (v4 : Bool) (p : Packet) (hp : goodbyePkt svc i v4 = some p) :
    Out.send i.index v4 none p ∈ (execUnregister s now name ch).2 := by
  rw [(goodbye_contract s now name ch svc h).1]
  simp only [List.mem_append, List.mem_map]
  exact Or.inl ⟨(i.index, v4, p), mem_goodbyes.mpr ⟨i, (mem_announcedIntfs s svc i).mpr ⟨hi, hann⟩, rfl, hp⟩, rfl⟩

/-- the same for shutdown: every goodbye packet of `cleanup` is for a registered service on an
    interface on which that service is `Announced` -/
theorem shutdown_only_where_announced (s : State) (idx : Nat) (v4 : Bool) (p : Packet)
    (hm : Out.send idx v4 none p ∈ (cleanup s).2) :
    ∃ e ∈ s.services, e.2.announcedOn idx = true ∧ ∃ i ∈ s.intfs, i.index = idx ∧ goodbyePkt e.2 i v4 = some p := by
  rw [(shutdown_goodbyes s).1] at hm
  simp only [List.mem_flatMap, List.mem_map] at hm
  obtain ⟨e, he, g, hg, heq⟩ := hm
  obtain ⟨gi, gv, gp⟩ := g
  simp only [Out.send.injEq, true_and] at heq
  obtain ⟨e1, e2, e3⟩ := heq
  subst e1 e2 e3
  obtain ⟨i, hi, hidx, hp⟩ := mem_goodbyes.mp hg
  obtain ⟨hin, hann⟩ := (mem_announcedIntfs s e.2 i).mp hi
  exact ⟨e, he, hidx ▸ hann, i, hin, hidx, hp⟩

/-- UNREGISTER LEAVES THE PROBES (repair of D30): after an OK `unregister`, on every interface
    of the daemon, every probe that is left is a probe from before - same records, same times -
    in which the service does not wait any more; a probe in which only this service waited is
    gone (so no probe query is sent for it any more: `Props.C07.probe_query_only_probes`). -/
theorem unregister_leaves_probes (s : State) (now : Nat) (name : BList) (ch : Nat) (svc : Service)
    (h : alookup (lower name) s.services = some svc) (i : MyIntf) (hi : i ∈ s.intfs) :
    ∀ k p, (k, p) ∈ ((execUnregister s now name ch).1.registry i.index).probing →
      svc.fullname ∉ p.waiting ∧ ∃ q, (k, q) ∈ (s.registry i.index).probing ∧ p.records = q.records ∧ p.start = q.start ∧
        p.next = q.next ∧ p.waiting = q.waiting.filter (· != svc.fullname) ∧ (svc.fullname ∈ q.waiting → p.waiting ≠ []) := by
  have e : (execUnregister s now name ch).1.registry i.index = (purgeWaiting s svc.fullname).registry i.index := by
    simp [execUnregister, h, State.registry]
  rw [e]
  exact purgeWaiting_probes s svc.fullname i hi

/-- the state 100 ms after `register(web)` on a fresh daemon: still probing -/
def probingState : State := (iter (init 1000000 [eth0]) { now := 1000000, jitter := 7, cmds := [.register web] }).1

def probingSvc : Service := web.setStatus 2 .probing

def goodbyeOfWeb : Packet :=
  { flags := FLAGS_RESPONSE,
    answers := [{ name := web.ty, ty := TYPE_PTR, flush := false, ttl := 0, rdata := .ptr web.fullname },
                { name := web.fullname, ty := TYPE_SRV, flush := true, ttl := 0, rdata := .srv 0 0 80 web.host },
                { name := web.fullname, ty := TYPE_TXT, flush := true, ttl := 0, rdata := .txt [0] },
                { name := web.host, ty := TYPE_A, flush := true, ttl := 0, rdata := .a [192, 168, 1, 20] }] }

/-- REGRESSION (D30, was the theorem `goodbye_while_probing : ¬ goodbye_contract_full`; witness
    corpus/C09/d30_goodbye_while_probing.ops): unregistering a service that is still probing - its
    name was never announced, it could still lose the probe - answers OK, sends NO goodbye, queues
    no repeat, leaves no probe behind, and the iterations at the times the probe queries would
    have left (+250, +500, +750 ms) send nothing. -/
example :
    (execUnregister probingState 1000100 web.fullname 1).2 = [.unregReply 1 true] ∧
    (execUnregister probingState 1000100 web.fullname 1).1.reruns = [] ∧
    ((execUnregister probingState 1000100 web.fullname 1).1.registry 2).probing = [] ∧
    (run (execUnregister probingState 1000100 web.fullname 1).1
      [{ now := 1000257, jitter := 7 }, { now := 1000507, jitter := 7 }, { now := 1000757, jitter := 7 }]).2 = [[], [], []] := by
  decide +kernel

/-! ### non-vacuity -/

/-- an announced service: unregister in another letter case answers OK, sends one goodbye with
    four TTL-0 records, queues the repeat for +120 ms -/
example :
    let s := (run (init 1000000 [eth0])
      [{ now := 1000000, jitter := 7, cmds := [.register web] }, { now := 1000007, jitter := 7 },
       { now := 1000257, jitter := 7 }, { now := 1000507, jitter := 7 }, { now := 1000757, jitter := 7 }]).1
    (execUnregister s 1001000 [0x57,0x45,0x42,0x2e,0x5f,0x68,0x74,0x74,0x70,0x2e,0x5f,0x74,0x63,0x70,0x2e,0x6c,0x6f,0x63,0x61,0x6c,0x2e] 5).2 =
      [.send 2 true none goodbyeOfWeb, .unregReply 5 true] := by decide +kernel

example : (execUnregister probingState 1000100 [0x78] 5).2 = [.unregReply 5 false] := by decide +kernel

end Mdns.Props.C09
