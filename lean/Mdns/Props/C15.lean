import Mdns.Model.Label
import Mdns.Lemmas.Names
import Mdns.Props.C08
import Mdns.Driver.C15
/-
  C15  No API argument and no packet can crash a caller or kill the daemon.

  What is proved here, for all inputs:
  * the functions that every string argument of a public function goes through - the four
    name checks, the two renaming functions (any number of times in a row) and the label
    writer of the encoder - return for every byte string: the model of each has an explicit
    `panic` outcome at every indexing, slicing, arithmetic and assertion of the Rust, and none
    of them is reachable;
  * the label writer never emits more than 63 bytes, its `len -= 1` loop stops at a character
    boundary without reaching below 0, the length byte is exact and never looks like a
    compression pointer, and labels of at most 63 bytes are written unchanged;
  * the verdict function evaluated on the observations of the real daemon threads says `none`
    exactly when no calling thread panicked, no daemon thread ended without being asked to,
    and every daemon answered `status()` / `get_metrics()` after the input.
  The decoder half of the property (no packet makes `DnsIncoming::new` panic or loop) is C01's
  theorems (`Props/C01.lean`); the daemon-level half (hostile arguments and packets against
  running daemons, renames, deferred work) has no model of its own: it is decided by the
  verdict function on histories executed by the real code (see DESIGN.md, C15).
-/
namespace Mdns.Props.C15
open Mdns Mdns.Names Mdns.Label Mdns.Trace Mdns.Driver.C15

/-! ## The name checks and the renaming functions -/

/-- None of the four checks can panic, whatever the string and the limit. -/
theorem checks_never_panic (s : BList) (limit : Nat) :
    checkServiceNameLength s limit ≠ .panic ∧ checkDomainSuffix s ≠ .panic ∧
    checkServiceName s ≠ .panic ∧ checkHostname s ≠ .panic := by
  have hsuf : checkDomainSuffix s ≠ .panic := by
    unfold checkDomainSuffix; split <;> simp
  refine ⟨?_, hsuf, ?_, ?_⟩
  · unfold checkServiceNameLength; repeat' split
    all_goals simp
  · unfold checkServiceName
    repeat' split
    all_goals first | (intro h; cases h; done) | (rename_i h; exact absurd h hsuf) | simp
  · unfold checkHostname; repeat' split
    all_goals simp

/-- `n` conflicts in a row: rename, and rename the result, ... -/
def renameN (host : Bool) : Nat → BList → Res BList
  | 0, s => .ok s
  | n + 1, s =>
    match (if host then hostnameChange s else nameChange s) with
    | .ok s' => renameN host n s'
    | .err => .err
    | .panic => .panic

/-- Any number of consecutive renames of any string returns a name: no error, no panic
    (in particular none at the counter 4294967295, D14). -/
theorem rename_chain_total (host : Bool) (n : Nat) (s : BList) : ∃ s', renameN host n s = .ok s' := by
  induction n generalizing s with
  | zero => exact ⟨s, rfl⟩
  | succ n ih =>
    obtain ⟨⟨a, ha⟩, ⟨b, hb⟩⟩ := Mdns.Props.C08.rename_total s
    cases host with
    | true =>
      obtain ⟨s', hs'⟩ := ih b
      exact ⟨s', by simp [renameN, hb, hs']⟩
    | false =>
      obtain ⟨s', hs'⟩ := ih a
      exact ⟨s', by simp [renameN, ha, hs']⟩

/-! ## The label writer -/

theorem cutFrom_le (s : BList) (n : Nat) : cutFrom s n ≤ n := by
  induction n with
  | zero => simp [cutFrom]
  | succ n ih =>
    unfold cutFrom
    split
    · exact Nat.le_refl _
    · omega

theorem cutFrom_boundary (s : BList) (n : Nat) : isCharBoundary s (cutFrom s n) = true := by
  induction n with
  | zero => simp [cutFrom, isCharBoundary]
  | succ n ih =>
    unfold cutFrom
    split
    · assumption
    · exact ih

/-- At most 63 bytes of a label are written, and never more than it has. -/
theorem cutLen_le (s : BList) : cutLen s ≤ 63 ∧ cutLen s ≤ s.length := by
  have := cutFrom_le s (min s.length MAX_LABEL_LEN)
  unfold cutLen
  simp only [MAX_LABEL_LEN] at this ⊢
  omega

/-- The `while !s.is_char_boundary(len) { len -= 1 }` loop ends at a character boundary; it
    cannot run below 0 (`cutFrom` at 0 returns without subtracting: index 0 is a boundary). -/
theorem cutLen_boundary (s : BList) : isCharBoundary s (cutLen s) = true :=
  cutFrom_boundary s _

/-- What is written is the length byte followed by that many bytes, at most 64 bytes in all;
    `len as u8` is exact, and its two top bits are clear (it cannot be read as a pointer). -/
theorem writeUtf8_shape (s : BList) :
    writeUtf8 s = UInt8.ofNat (cutLen s) :: s.take (cutLen s) ∧
    (UInt8.ofNat (cutLen s)).toNat = cutLen s ∧ (UInt8.ofNat (cutLen s)).toNat < 64 ∧
    (s.take (cutLen s)).length = cutLen s ∧ (writeUtf8 s).length ≤ 64 := by
  obtain ⟨h1, h2⟩ := cutLen_le s
  have hm : (UInt8.ofNat (cutLen s)).toNat = cutLen s := by
    simp only [UInt8.toNat_ofNat']
    omega
  refine ⟨rfl, hm, by omega, by simp [List.length_take]; omega, ?_⟩
  simp only [writeUtf8, List.length_cons, List.length_take]
  omega

/-- A label of at most 63 bytes - every label the rest of the encoder model deals with - is
    written as it is. -/
theorem short_label_unchanged (s : BList) (h : s.length ≤ 63) :
    cutLen s = s.length ∧ writeUtf8 s = UInt8.ofNat s.length :: s := by
  have hb : isCharBoundary s s.length = true := by
    unfold isCharBoundary
    split
    · rfl
    · simp
  have hc : cutLen s = s.length := by
    unfold cutLen
    have : min s.length MAX_LABEL_LEN = s.length := by simp only [MAX_LABEL_LEN]; omega
    rw [this]
    cases hl : s.length with
    | zero => simp [cutFrom]
    | succ k =>
      unfold cutFrom
      rw [← hl, if_pos hb]
  exact ⟨hc, by simp [writeUtf8, hc]⟩

/-- In text where no four consecutive bytes are all continuation bytes (true of every valid
    UTF-8 string: a character has at most three), the cut loses at most three bytes. -/
theorem cut_loses_at_most_three (s : BList)
    (hutf : ∀ i, i + 3 ≤ min s.length 63 → isCharBoundary s i = true ∨ isCharBoundary s (i + 1) = true ∨
      isCharBoundary s (i + 2) = true ∨ isCharBoundary s (i + 3) = true) :
    min s.length 63 ≤ cutLen s + 3 := by
  have key : ∀ n, n ≤ min s.length 63 → (∀ j, n < j → j ≤ min s.length 63 → isCharBoundary s j = false) →
      cutFrom s (min s.length 63) = cutFrom s n := by
    intro n hn
    induction hd : (min s.length 63 - n) generalizing n with
    | zero => intro _; have : n = min s.length 63 := by omega
              rw [this]
    | succ d ih =>
      intro hall
      have h1 := ih (n + 1) (by omega) (by omega) (fun j hj hj' => hall j (by omega) hj')
      rw [h1]
      have hb := hall (n + 1) (by omega) (by omega)
      simp [cutFrom, hb]
  -- by contradiction: if the cut went below min - 3, four indices in a row are no boundaries
  apply Classical.byContradiction
  intro hlt
  have hlt : cutLen s + 3 < min s.length 63 := by omega
  have hnb : ∀ j, cutLen s < j → j ≤ min s.length 63 → isCharBoundary s j = false := by
    intro j hj hj'
    -- cutFrom from the top passes j without stopping, else it would return ≥ j
    apply Classical.byContradiction
    intro hne
    have hbt : isCharBoundary s j = true := by
      cases h : isCharBoundary s j with
      | true => rfl
      | false => exact absurd h hne
    have hge : ∀ n, j ≤ n → j ≤ cutFrom s n := by
      intro n hn
      induction n with
      | zero => have : j = 0 := by omega
                omega
      | succ n ih =>
        unfold cutFrom
        split
        · exact hn
        · rename_i hnb
          by_cases hj1 : j = n + 1
          · rw [hj1] at hbt; exact absurd hbt hnb
          · exact ih (by omega)
    have := hge (min s.length 63) hj'
    unfold cutLen at hj
    simp only [MAX_LABEL_LEN] at hj
    omega
  rcases hutf (cutLen s + 1) (by omega) with h | h | h | h
  · rw [hnb (cutLen s + 1) (by omega) (by omega)] at h; cases h
  · rw [hnb (cutLen s + 1 + 1) (by omega) (by omega)] at h; cases h
  · rw [hnb (cutLen s + 1 + 2) (by omega) (by omega)] at h; cases h
  · rw [hnb (cutLen s + 1 + 3) (by omega) (by omega)] at h; cases h

/-! ## The verdict on a history of the real daemon -/

/-- `monitorCrash` is the statement's observation: it accepts a history exactly when no call
    panicked in the calling thread, no daemon thread ended unless the history itself asked
    that daemon to shut down, and every `status` / `get_metrics` request made after the input
    (to a daemon that is not asked to shut down) was answered. -/
theorem monitorCrash_none_iff (script : List Cmd) (obs : List Obs) :
    monitorCrash script obs = none ↔
      (callerPanicked obs = false ∧
       (∀ d, d < daemonCount script → threadEnded obs d = true → shutdownAsked script d = true) ∧
       (∀ p ∈ probes script, answered obs p = true)) := by
  unfold monitorCrash
  constructor
  · intro h
    repeat' split at h
    all_goals first | (cases h; done) | skip
    rename_i h1 h2 h3
    refine ⟨by simpa using h1, ?_, ?_⟩
    · intro d hd he
      simp only [List.any_eq_true, List.mem_range, Bool.and_eq_true, Bool.not_eq_eq_eq_not, Bool.not_true,
        not_exists, not_and] at h2
      have := h2 d hd he
      cases hs : shutdownAsked script d with
      | true => rfl
      | false => exact absurd hs this
    · simpa using h3
  · intro ⟨h1, h2, h3⟩
    have e2 : ((List.range (daemonCount script)).any fun d => threadEnded obs d && !shutdownAsked script d) = false := by
      rw [List.any_eq_false]
      intro d hd
      simp only [List.mem_range] at hd
      cases he : threadEnded obs d with
      | false => simp
      | true => simp [h2 d hd he]
    have e3 : (probes script).all (answered obs) = true := by
      rw [List.all_eq_true]; exact h3
    simp [h1, e2, e3]

/-! ## Non-vacuity -/

/-- a label of 64 bytes whose 63rd and 64th byte are one two-byte character: 62 bytes are
    written; 70 ASCII bytes: 63 are written -/
example : cutLen (List.replicate 62 0x61 ++ [0xC3, 0xA9]) = 62 ∧ cutLen (List.replicate 70 0x61) = 63 ∧
    cutLen [0x61] = 1 ∧ cutLen [] = 0 := by decide

/-- three renames of the name with the counter 4294967294 -/
example : renameN false 3 (Mdns.Props.C08.str "n (4294967294).local.") =
    .ok (Mdns.Props.C08.str "n (4294967295) (3).local.") := by decide

/-- a history the verdict refuses: the daemon thread ended although nobody asked it to -/
example : monitorCrash [.daemon [], .status 0 9] [.ended 0 true] = some "daemon-thread-ended" := by decide

/-- ... and one it accepts -/
example : monitorCrash [.daemon [], .status 0 9] [.ret 1 "ok", .ev 0 9 ["status", "running"]] = none := by decide

end Mdns.Props.C15
