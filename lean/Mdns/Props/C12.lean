import Mdns.Lemmas.Sched
import Mdns.Lemmas.ClientTimers
import Mdns.Props.C17
/-
  C12  The daemon wakes itself for all time-driven work and never spins.

  First part: the scheduler fragment `Mdns/Model/Sched.lean` (its requested wake-up `wake` is
  compared with the real daemon's at every iteration of every history without responders).
  Second part (`section ClientModel`): the client model `Mdns/Model/Client.lean`, whose
  requested wake-up is compared with the real daemon's at every iteration of every client
  history: the invariant `TimersCover` over whole histories, for every input.
-/
namespace Mdns.Props.C12

section SchedFragment
open Mdns Mdns.Sched

/-- every queued retransmission has a timer at its due time (`add_retransmission`) -/
def RerunsTimed (s : State) : Prop := ∀ r ∈ s.reruns, r.next ∈ s.timers

/-- queueing a retransmission arms a timer for it -/
theorem addRerun_timed (s : State) (next : Nat) (c : RCmd) (h : RerunsTimed s) :
    RerunsTimed (addRerun s next c) := by
  intro r hr
  simp only [addRerun, List.mem_append, List.mem_singleton] at hr
  simp only [addRerun, List.mem_cons]
  rcases hr with hr | rfl
  · right; exact h r hr
  · left; rfl

/-- the requested wake-up is no later than any armed timer -/
theorem wake_le_timer (s : State) (t : Nat) (h : t ∈ s.timers) : ∃ w, wake s = some w ∧ w ≤ t := by
  unfold wake
  cases hm : s.timers.min? with
  | none =>
    rw [List.min?_eq_none_iff] at hm
    simp [hm] at h
  | some w => exact ⟨w, rfl, (List.min?_eq_some_iff.mp hm).2 t h⟩

/-- hence: the wake-up requested in a state is no later than the due time of any queued
    retransmission (query back-off of a browse or hostname search) -/
theorem wake_covers_reruns (s : State) (h : RerunsTimed s) (r : Rerun) (hr : r ∈ s.reruns) :
    ∃ w, wake s = some w ∧ w ≤ r.next := wake_le_timer s r.next (h r hr)

/-- a resolver deadline arms a timer at the deadline -/
theorem deadline_timed (s : State) (now : Nat) (h : BList) (ch t : Nat) :
    (now + t) ∈ (execResolve s now false h 1 ch (some t)).1.timers := by
  simp only [execResolve, Bool.false_and, Bool.false_eq_true, ↓reduceIte, Option.map_some]
  split <;> simp [addRerun]

/-- the interface check: with a positive interval the next check is armed in the future;
    with interval 0 (the check is disabled) nothing is armed - the loop does not spin
    (repair of D12) -/
theorem ipcheck_no_spin (s : State) (now : Nat) :
    (runIpCheck s now).timers = s.timers ∨
    (s.ipInterval > 0 ∧ (runIpCheck s now).timers = (now + s.ipInterval) :: s.timers) := by
  unfold runIpCheck
  repeat' split
  all_goals first
    | (left; rfl)
    | (right; refine ⟨by omega, rfl⟩)
    | (right; rename_i h; simp at h; exact ⟨by omega, rfl⟩)

/-- after an iteration every timer that was already due has been consumed: what remains
    from before lies strictly in the future -/
theorem passed_timers_popped (s : State) (now : Nat) :
    ∀ t ∈ ({ s with timers := s.timers.filter (· > now) } : State).timers, t > now := by
  intro t ht
  simp only [List.mem_filter, decide_eq_true_eq] at ht
  exact ht.2

example : wake (init 1000000) = some 1005000 := by decide

end SchedFragment

/-! ### the client model: the timers cover all time-driven work -/

section ClientModel
open Mdns Mdns.Rec Mdns.Cache Mdns.Client

/-- **The timers cover the time-driven work of the state that lies after `T`** (`T` = the time of
    the last `pop_timers_till`, i.e. of the last iteration):
    * `cache`: for EVERY cached entry (whether or not a browse or a search is interested in it)
      the expiry instant is a timer, and so is the refresh mark while it lies before the expiry
      (`EntryTimed`); a `verify` deadline is the expiry instant of the entries it capped;
    * `reruns`: every queued re-run - retransmission of a browse / `resolve_hostname`, follow-up
      `Resolve`, `verify` resend - has a timer at its due time;
    * `deadlines`: every deadline of an open hostname search is a timer;
    * `ipcheck`: so is the next interface check, unless switched off. -/
structure TimersCover (T : Nat) (s : State) : Prop where
  cache : CacheTimed s.timers T s.cache
  reruns : ∀ r ∈ s.reruns, T < r.next → r.next ∈ s.timers
  deadlines : ∀ q ∈ s.resolvers, ∀ dl, q.2.2 = some dl → T < dl → dl ∈ s.timers
  ipcheck : s.nextIpCheck ≠ 0 → T < s.nextIpCheck → s.nextIpCheck ∈ s.timers

/-- the side conditions `TimersCover` is carried with: the cache is justified by deliveries, the
    names of its tables are distinct, the back-off delays are between a second and an hour -/
structure WellFormed (hist : List Delivery) (s : State) : Prop where
  prov : CacheProv hist s.cache
  keys : KeysNodup s.cache
  delays : ∀ r ∈ s.reruns, DelayOk r

theorem wellFormed_iter (hist : List Delivery) (s : State) (now : Nat) (pkts : List Packet) (cmds : List Command)
    (h : WellFormed hist s) : WellFormed (hist ++ deliveries s now pkts) (iter s now pkts cmds).1 :=
  ⟨(ok_iter hist s now pkts cmds h.prov).1, closed_iter (keysNodup_closed now) s pkts cmds h.keys,
   delayOk_iter hist s now pkts cmds h.prov h.delays⟩

/-- **TimersCover is preserved by an iteration, for every input** (any time `now`, any
    datagrams, any commands): afterwards the timers cover all work that lies after the later
    of `T` and `now`.  This is the statement that a change like "the refresh timer is only
    pushed while a browse is active" breaks: `ingestOne` arms `expires` and `refresh` of the
    entry `add_or_update` returns unconditionally (`Props.C17.refresh_timer_armed`). -/
theorem timersCover_iter (hist : List Delivery) (T : Nat) (s : State) (now : Nat) (pkts : List Packet)
    (cmds : List Command) (hw : WellFormed hist s) (h : TimersCover T s) :
    TimersCover (max T now) (iter s now pkts cmds).1 := by
  have hev := evolves_iter hist s now pkts cmds hw.prov hw.delays
  refine ⟨timed_iter T s now pkts cmds hw.keys h.cache, ?_, ?_, ?_⟩
  · intro r hr hlt
    rcases hev.reruns r hr with h1 | ⟨h1, _⟩
    · exact hev.timers_old _ (h.reruns r h1 (by omega)) (by omega)
    · exact h1
  · intro q hq dl hdl hlt
    rcases hev.resolvers q hq with h1 | ⟨_, _, _, _, h5⟩
    · exact hev.timers_old _ (h.deadlines q h1 dl hdl (by omega)) (by omega)
    · exact h5 dl hdl
  · intro hne hlt
    rcases hev.ip with ⟨h1, _⟩ | ⟨h1, _⟩ | ⟨h1, _⟩
    · rw [h1] at hne hlt ⊢
      exact hev.timers_old _ (h.ipcheck hne (by omega)) (by omega)
    · exact absurd h1 hne
    · exact h1

/-- the latest iteration time of a history (`T` if it has none) -/
def maxTime : Nat → List (Nat × List Packet × List Command) → Nat
  | T, [] => T
  | T, (now, _, _) :: rest => maxTime (max T now) rest

theorem timersCover_run : ∀ (h : List (Nat × List Packet × List Command)) (hist : List Delivery) (T : Nat) (s : State),
    WellFormed hist s → TimersCover T s →
    WellFormed (hist ++ C03.histOf s h) (run s h).1 ∧ TimersCover (maxTime T h) (run s h).1
  | [], hist, T, s, hw, hc => by simpa [C03.histOf, run, maxTime] using ⟨hw, hc⟩
  | (now, pkts, cmds) :: rest, hist, T, s, hw, hc => by
    have h1 := wellFormed_iter hist s now pkts cmds hw
    have h2 := timersCover_iter hist T s now pkts cmds hw hc
    have h3 := timersCover_run rest _ _ _ h1 h2
    simpa [C03.histOf, run, maxTime, List.append_assoc] using h3

theorem timersCover_init (t0 : Nat) (intfs : List Intf) : WellFormed [] (init t0 intfs) ∧ TimersCover 0 (init t0 intfs) := by
  refine ⟨⟨cacheProv_empty [], keysNodup_empty, fun _ h => by cases h⟩, ⟨?_, ?_, ?_, ?_⟩⟩
  · exact cacheAll_empty _
  · intro r hr
    cases hr
  · intro q hq
    cases hq
  · intro _ _
    simp [init]

/-- **TimersCover holds after every history** from the start of the daemon -/
theorem timersCover_always (t0 : Nat) (intfs : List Intf) (h : List (Nat × List Packet × List Command)) :
    TimersCover (maxTime 0 h) (run (init t0 intfs) h).1 := by
  obtain ⟨hw, hc⟩ := timersCover_init t0 intfs
  exact (timersCover_run h [] 0 _ hw hc).2

/-- the instants at which the state has time-driven work to do: a cached record expires
    (removal event, `AddressesRemoved`, re-resolution); a cached record reaches its refresh mark
    before it expires; a queued re-run is due (retransmission, follow-up resolve, verify
    resend); the deadline of a hostname search; the interface check -/
def Due (s : State) (d : Nat) : Prop :=
  (∃ sl : Slot, ∃ p ∈ s.cache.table sl, ∃ e ∈ p.2, d = e.record.expires) ∨
  (∃ sl : Slot, ∃ p ∈ s.cache.table sl, ∃ e ∈ p.2, d = e.record.refresh ∧ e.record.refresh < e.record.expires) ∨
  (∃ r ∈ s.reruns, d = r.next) ∨
  (∃ q ∈ s.resolvers, q.2.2 = some d) ∨
  (s.nextIpCheck ≠ 0 ∧ d = s.nextIpCheck)

theorem wake_le_timer_client (s : State) (t : Nat) (h : t ∈ s.timers) : ∃ w, wake s = some w ∧ w ≤ t := by
  unfold wake
  cases hm : s.timers.min? with
  | none =>
    rw [List.min?_eq_none_iff] at hm
    simp [hm] at h
  | some w => exact ⟨w, rfl, (List.min?_eq_some_iff.mp hm).2 t h⟩

/-- **wake_never_late**: in a state whose timers cover the work after `T`, the wake-up the
    daemon asks for is never later than any due work that lies after `T` -/
theorem wake_never_late (T : Nat) (s : State) (h : TimersCover T s) (d : Nat) (hd : Due s d) (hT : T < d) :
    ∃ w, wake s = some w ∧ w ≤ d := by
  apply wake_le_timer_client
  rcases hd with ⟨sl, p, hp, e, he, rfl⟩ | ⟨sl, p, hp, e, he, rfl, hlt⟩ | ⟨r, hr, rfl⟩ | ⟨q, hq, hdl⟩ | ⟨hne, rfl⟩
  · exact (h.cache sl p hp e he).1 hT
  · exact (h.cache sl p hp e he).2.1 hT hlt
  · exact h.reruns r hr hT
  · exact h.deadlines q hq d hdl hT
  · exact h.ipcheck hne hT

/-- **wake_never_late (whole histories)**: start the daemon, run ANY history; the wake-up
    requested afterwards is no later than any due work - record expiry, refresh mark,
    retransmission, follow-up, verify resend / deadline, hostname-search deadline, interface
    check - that lies after the latest iteration time.  (Cached records never lie before:
    `expiry_after_last`.) -/
theorem wake_never_late_run (t0 : Nat) (intfs : List Intf) (h : List (Nat × List Packet × List Command)) (d : Nat)
    (hd : Due (run (init t0 intfs) h).1 d) (hT : maxTime 0 h < d) :
    ∃ w, wake (run (init t0 intfs) h).1 = some w ∧ w ≤ d :=
  wake_never_late _ _ (timersCover_always t0 intfs h) d hd hT

/-- after an iteration at `now` every cached entry expires after `now`: with non-decreasing
    iteration times the expiry of every cached record is always covered -/
theorem expiry_after_last (s : State) (now : Nat) (pkts : List Packet) (cmds : List Command) (sl : Slot)
    (p : BList × List Entry) (hp : p ∈ (iter s now pkts cmds).1.cache.table sl) (e : Entry) (he : e ∈ p.2) :
    now < e.record.expires :=
  (iter_allLive s now pkts cmds).1 sl p hp e he

/-- never spinning, cache side: after an iteration at `now` no timer that was pending before
    lies at or before `now` (they are popped), and what the iteration arms for cached records
    lies after `now` unless a record arrives with TTL 0 or a `verify` has time-out 0 -/
theorem old_timers_popped (hist : List Delivery) (s : State) (now : Nat) (pkts : List Packet) (cmds : List Command)
    (hw : WellFormed hist s) (t : Nat) (ht : t ∈ (iter s now pkts cmds).1.timers) :
    (t ∈ s.timers ∧ now < t) ∨ IterTimer now (hist ++ deliveries s now pkts) cmds t ∨
      (t = (iter s now pkts cmds).1.nextIpCheck ∧ now < t) :=
  (evolves_iter hist s now pkts cmds hw.prov hw.delays).timers_new t ht

/-! ### an iteration that is on time finds nothing expired in the cache -/

/-- an iteration at `now` that is not later than the wake-up the daemon asked for finds no
    cached entry that expired before `now` -/
theorem on_time_nothing_expired (T : Nat) (s : State) (now : Nat) (h : TimersCover T s)
    (hl : CacheAll (fun e => T < e.record.expires) s.cache) (hon : ∀ t ∈ s.timers, now ≤ t) :
    CacheAll (fun e => now ≤ e.record.expires) s.cache :=
  fun sl p hp e he => hon _ ((h.cache sl p hp e he).1 (hl sl p hp e he))

/-! (`hfound_on_time`, which stood here - "an iteration that is on time lists no address whose
    record ran out before `now`" - was what held of `AddressesFound` while
    `get_addresses_for_host` did not look at expiry times (D44).  Since the repair
    `Props.C17.hfound_unexpired` / `hfound_sound` give the stronger conclusion `now <` end of
    lifetime for EVERY iteration, on time or not, so the statement is gone.) -/

/-! ### non-vacuity -/

/-- only a hostname search, no browse: the address (TTL 10 s, received at 1500) has its refresh
    mark at 9500; after the retransmissions at 2000, 4000, 8000 (next one 16000) the daemon asks
    to be woken at 9500 - the history on which "refresh timer only while browsing" loses the
    wake-up -/
example :
    wake (run (init 1000 [C03.eth0])
      [(1000, [], [.resolveHost C17.hostH 7 none]), (1500, [C17.addrPkt C17.hostLower 10 [10, 0, 0, 1]], []),
       (2000, [], []), (4000, [], []), (8000, [], [])]).1 = some 9500 := by decide

example : Due (run (init 1000 [C03.eth0])
      [(1000, [], [.resolveHost C17.hostH 7 none]), (1500, [C17.addrPkt C17.hostLower 10 [10, 0, 0, 1]], [])]).1 9500 := by
  refine Or.inr (Or.inl ⟨.addr, (C17.hostLower, [⟨Record.new C17.hostLower 1 1 false 10 (.addr [10, 0, 0, 1] [0x65] 2) 1500, [0x65], 2⟩]),
    ?_, ⟨Record.new C17.hostLower 1 1 false 10 (.addr [10, 0, 0, 1] [0x65] 2) 1500, [0x65], 2⟩, ?_, ?_, ?_⟩)
  · decide
  · decide
  · decide
  · decide

end ClientModel

end Mdns.Props.C12
