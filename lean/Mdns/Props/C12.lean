import Mdns.Lemmas.Sched
import Mdns.Lemmas.ClientTimers
import Mdns.Lemmas.ResponderTimersIter
import Mdns.Lemmas.ResponderTimersSpin
import Mdns.Props.C17
/-
  C12  The daemon wakes itself for all time-driven work and never spins.

  First part: the scheduler fragment `Mdns/Model/Sched.lean` (its requested wake-up `wake` is
  compared with the real daemon's at every iteration of every history without responders).
  Second part (`section ClientModel`): the client model `Mdns/Model/Client.lean`, whose
  requested wake-up is compared with the real daemon's at every iteration of every client
  history: the invariant `TimersCover` over whole histories, for every input.
  Third part (`section ResponderModel`): the responder model `Mdns/Model/Responder.lean`, whose
  requested wake-up is compared with the real daemon's at every iteration of every responder
  history: the invariant `RTimersCover` - every probe step, every queued announcement / goodbye
  repeat and the interface check has a timer - for every input, and `responder_wake_never_late`.
-/
namespace Mdns.Props.C12

section SchedFragment
open Mdns Mdns.Sched

/-- every queued retransmission has a timer at its due time (`add_retransmission`) -/
def RerunsTimed (s : State) : Prop := ∀ r ∈ s.reruns, r.next ∈ s.timers

/-- queueing a retransmission arms a timer for it -/
theorem addRerun_timed (s : State) (next : Nat) (c : RCmd) (h : RerunsTimed s) :
    RerunsTimed (addRerun s next c) := by
  intro r hr
  simp only [addRerun, List.mem_append, List.mem_singleton] at hr
  simp only [addRerun, List.mem_cons]
  rcases hr with hr | rfl
  · right; exact h r hr
  · left; rfl

/-- the requested wake-up is no later than any armed timer -/
theorem wake_le_timer (s : State) (t : Nat) (h : t ∈ s.timers) : ∃ w, wake s = some w ∧ w ≤ t := by
  unfold wake
  cases hm : s.timers.min? with
  | none =>
    rw [List.min?_eq_none_iff] at hm
    simp [hm] at h
  | some w => exact ⟨w, rfl, (List.min?_eq_some_iff.mp hm).2 t h⟩

/-- hence: the wake-up requested in a state is no later than the due time of any queued
    retransmission (query back-off of a browse or hostname search) -/
theorem wake_covers_reruns (s : State) (h : RerunsTimed s) (r : Rerun) (hr : r ∈ s.reruns) :
    ∃ w, wake s = some w ∧ w ≤ r.next := wake_le_timer s r.next (h r hr)

/-- a resolver deadline arms a timer at the deadline -/
theorem deadline_timed (s : State) (now : Nat) (h : BList) (ch t : Nat) :
    (now + t) ∈ (execResolve s now false h 1 ch (some t)).1.timers := by
  simp only [execResolve, Bool.false_and, Bool.false_eq_true, ↓reduceIte, Option.map_some]
  split <;> simp [addRerun]

/-- the interface check: with a positive interval the next check is armed in the future;
    with interval 0 (the check is disabled) nothing is armed - the loop does not spin
    (repair of D12) -/
theorem ipcheck_no_spin (s : State) (now : Nat) :
    (runIpCheck s now).timers = s.timers ∨
    (s.ipInterval > 0 ∧ (runIpCheck s now).timers = (now + s.ipInterval) :: s.timers) := by
  unfold runIpCheck
  repeat' split
  all_goals first
    | (left; rfl)
    | (right; refine ⟨by omega, rfl⟩)
    | (right; rename_i h; simp at h; exact ⟨by omega, rfl⟩)

/-- after an iteration every timer that was already due has been consumed: what remains
    from before lies strictly in the future -/
theorem passed_timers_popped (s : State) (now : Nat) :
    ∀ t ∈ ({ s with timers := s.timers.filter (· > now) } : State).timers, t > now := by
  intro t ht
  simp only [List.mem_filter, decide_eq_true_eq] at ht
  exact ht.2

example : wake (init 1000000) = some 1005000 := by decide

end SchedFragment

/-! ### the client model: the timers cover all time-driven work -/

section ClientModel
open Mdns Mdns.Rec Mdns.Cache Mdns.Client

/-- **The timers cover the time-driven work of the state that lies after `T`** (`T` = the time of
    the last `pop_timers_till`, i.e. of the last iteration):
    * `cache`: for EVERY cached entry (whether or not a browse or a search is interested in it)
      the expiry instant is a timer, and so is the refresh mark while it lies before the expiry
      (`EntryTimed`); a `verify` deadline is the expiry instant of the entries it capped;
    * `reruns`: every queued re-run - retransmission of a browse / `resolve_hostname`, follow-up
      `Resolve`, `verify` resend - has a timer at its due time;
    * `deadlines`: every deadline of an open hostname search is a timer;
    * `ipcheck`: so is the next interface check, unless switched off. -/
structure TimersCover (T : Nat) (s : State) : Prop where
  cache : CacheTimed s.timers T s.cache
  reruns : ∀ r ∈ s.reruns, T < r.next → r.next ∈ s.timers
  deadlines : ∀ q ∈ s.resolvers, ∀ dl, q.2.2 = some dl → T < dl → dl ∈ s.timers
  ipcheck : s.nextIpCheck ≠ 0 → T < s.nextIpCheck → s.nextIpCheck ∈ s.timers

/-- the side conditions `TimersCover` is carried with: the cache is justified by deliveries, the
    names of its tables are distinct, the back-off delays are between a second and an hour -/
structure WellFormed (hist : List Delivery) (s : State) : Prop where
  prov : CacheProv hist s.cache
  keys : KeysNodup s.cache
  delays : ∀ r ∈ s.reruns, DelayOk r

theorem wellFormed_iter (hist : List Delivery) (s : State) (now : Nat) (pkts : List Packet) (cmds : List Command)
    (h : WellFormed hist s) : WellFormed (hist ++ deliveries s now pkts) (iter s now pkts cmds).1 :=
  ⟨(ok_iter hist s now pkts cmds h.prov).1, closed_iter (keysNodup_closed now) s pkts cmds h.keys,
   delayOk_iter hist s now pkts cmds h.prov h.delays⟩

/-- **TimersCover is preserved by an iteration, for every input** (any time `now`, any
    datagrams, any commands): afterwards the timers cover all work that lies after the later
    of `T` and `now`.  This is the statement that a change like "the refresh timer is only
    pushed while a browse is active" breaks: `ingestOne` arms `expires` and `refresh` of the
    entry `add_or_update` returns unconditionally (`Props.C17.refresh_timer_armed`). -/
theorem timersCover_iter (hist : List Delivery) (T : Nat) (s : State) (now : Nat) (pkts : List Packet)
    (cmds : List Command) (hw : WellFormed hist s) (h : TimersCover T s) :
    TimersCover (max T now) (iter s now pkts cmds).1 := by
  have hev := evolves_iter hist s now pkts cmds hw.prov hw.delays
  refine ⟨timed_iter T s now pkts cmds hw.keys h.cache, ?_, ?_, ?_⟩
  · intro r hr hlt
    rcases hev.reruns r hr with h1 | ⟨h1, _⟩
    · exact hev.timers_old _ (h.reruns r h1 (by omega)) (by omega)
    · exact h1
  · intro q hq dl hdl hlt
    rcases hev.resolvers q hq with h1 | ⟨_, _, _, _, h5⟩
    · exact hev.timers_old _ (h.deadlines q h1 dl hdl (by omega)) (by omega)
    · exact h5 dl hdl
  · intro hne hlt
    rcases hev.ip with ⟨h1, _⟩ | ⟨h1, _⟩ | ⟨h1, _⟩
    · rw [h1] at hne hlt ⊢
      exact hev.timers_old _ (h.ipcheck hne (by omega)) (by omega)
    · exact absurd h1 hne
    · exact h1

/-- the latest iteration time of a history (`T` if it has none) -/
def maxTime : Nat → List (Nat × List Packet × List Command) → Nat
  | T, [] => T
  | T, (now, _, _) :: rest => maxTime (max T now) rest

theorem timersCover_run : ∀ (h : List (Nat × List Packet × List Command)) (hist : List Delivery) (T : Nat) (s : State),
    WellFormed hist s → TimersCover T s →
    WellFormed (hist ++ C03.histOf s h) (run s h).1 ∧ TimersCover (maxTime T h) (run s h).1
  | [], hist, T, s, hw, hc => by simpa [C03.histOf, run, maxTime] using ⟨hw, hc⟩
  | (now, pkts, cmds) :: rest, hist, T, s, hw, hc => by
    have h1 := wellFormed_iter hist s now pkts cmds hw
    have h2 := timersCover_iter hist T s now pkts cmds hw hc
    have h3 := timersCover_run rest _ _ _ h1 h2
    simpa [C03.histOf, run, maxTime, List.append_assoc] using h3

theorem timersCover_init (t0 : Nat) (intfs : List Intf) : WellFormed [] (init t0 intfs) ∧ TimersCover 0 (init t0 intfs) := by
  refine ⟨⟨cacheProv_empty [], keysNodup_empty, fun _ h => by cases h⟩, ⟨?_, ?_, ?_, ?_⟩⟩
  · exact cacheAll_empty _
  · intro r hr
    cases hr
  · intro q hq
    cases hq
  · intro _ _
    simp [init]

/-- **TimersCover holds after every history** from the start of the daemon -/
theorem timersCover_always (t0 : Nat) (intfs : List Intf) (h : List (Nat × List Packet × List Command)) :
    TimersCover (maxTime 0 h) (run (init t0 intfs) h).1 := by
  obtain ⟨hw, hc⟩ := timersCover_init t0 intfs
  exact (timersCover_run h [] 0 _ hw hc).2

/-- the instants at which the state has time-driven work to do: a cached record expires
    (removal event, `AddressesRemoved`, re-resolution); a cached record reaches its refresh mark
    before it expires; a queued re-run is due (retransmission, follow-up resolve, verify
    resend); the deadline of a hostname search; the interface check -/
def Due (s : State) (d : Nat) : Prop :=
  (∃ sl : Slot, ∃ p ∈ s.cache.table sl, ∃ e ∈ p.2, d = e.record.expires) ∨
  (∃ sl : Slot, ∃ p ∈ s.cache.table sl, ∃ e ∈ p.2, d = e.record.refresh ∧ e.record.refresh < e.record.expires) ∨
  (∃ r ∈ s.reruns, d = r.next) ∨
  (∃ q ∈ s.resolvers, q.2.2 = some d) ∨
  (s.nextIpCheck ≠ 0 ∧ d = s.nextIpCheck)

theorem wake_le_timer_client (s : State) (t : Nat) (h : t ∈ s.timers) : ∃ w, wake s = some w ∧ w ≤ t := by
  unfold wake
  cases hm : s.timers.min? with
  | none =>
    rw [List.min?_eq_none_iff] at hm
    simp [hm] at h
  | some w => exact ⟨w, rfl, (List.min?_eq_some_iff.mp hm).2 t h⟩

/-- **wake_never_late**: in a state whose timers cover the work after `T`, the wake-up the
    daemon asks for is never later than any due work that lies after `T` -/
theorem wake_never_late (T : Nat) (s : State) (h : TimersCover T s) (d : Nat) (hd : Due s d) (hT : T < d) :
    ∃ w, wake s = some w ∧ w ≤ d := by
  apply wake_le_timer_client
  rcases hd with ⟨sl, p, hp, e, he, rfl⟩ | ⟨sl, p, hp, e, he, rfl, hlt⟩ | ⟨r, hr, rfl⟩ | ⟨q, hq, hdl⟩ | ⟨hne, rfl⟩
  · exact (h.cache sl p hp e he).1 hT
  · exact (h.cache sl p hp e he).2.1 hT hlt
  · exact h.reruns r hr hT
  · exact h.deadlines q hq d hdl hT
  · exact h.ipcheck hne hT

/-- **wake_never_late (whole histories)**: start the daemon, run ANY history; the wake-up
    requested afterwards is no later than any due work - record expiry, refresh mark,
    retransmission, follow-up, verify resend / deadline, hostname-search deadline, interface
    check - that lies after the latest iteration time.  (Cached records never lie before:
    `expiry_after_last`.) -/
theorem wake_never_late_run (t0 : Nat) (intfs : List Intf) (h : List (Nat × List Packet × List Command)) (d : Nat)
    (hd : Due (run (init t0 intfs) h).1 d) (hT : maxTime 0 h < d) :
    ∃ w, wake (run (init t0 intfs) h).1 = some w ∧ w ≤ d :=
  wake_never_late _ _ (timersCover_always t0 intfs h) d hd hT

/-- after an iteration at `now` every cached entry expires after `now`: with non-decreasing
    iteration times the expiry of every cached record is always covered -/
theorem expiry_after_last (s : State) (now : Nat) (pkts : List Packet) (cmds : List Command) (sl : Slot)
    (p : BList × List Entry) (hp : p ∈ (iter s now pkts cmds).1.cache.table sl) (e : Entry) (he : e ∈ p.2) :
    now < e.record.expires :=
  (iter_allLive s now pkts cmds).1 sl p hp e he

/-- never spinning, cache side: after an iteration at `now` no timer that was pending before
    lies at or before `now` (they are popped), and what the iteration arms for cached records
    lies after `now` unless a record arrives with TTL 0 or a `verify` has time-out 0 -/
theorem old_timers_popped (hist : List Delivery) (s : State) (now : Nat) (pkts : List Packet) (cmds : List Command)
    (hw : WellFormed hist s) (t : Nat) (ht : t ∈ (iter s now pkts cmds).1.timers) :
    (t ∈ s.timers ∧ now < t) ∨ IterTimer now (hist ++ deliveries s now pkts) cmds t ∨
      (t = (iter s now pkts cmds).1.nextIpCheck ∧ now < t) :=
  (evolves_iter hist s now pkts cmds hw.prov hw.delays).timers_new t ht

/-! ### an iteration that is on time finds nothing expired in the cache -/

/-- an iteration at `now` that is not later than the wake-up the daemon asked for finds no
    cached entry that expired before `now` -/
theorem on_time_nothing_expired (T : Nat) (s : State) (now : Nat) (h : TimersCover T s)
    (hl : CacheAll (fun e => T < e.record.expires) s.cache) (hon : ∀ t ∈ s.timers, now ≤ t) :
    CacheAll (fun e => now ≤ e.record.expires) s.cache :=
  fun sl p hp e he => hon _ ((h.cache sl p hp e he).1 (hl sl p hp e he))

/-! (`hfound_on_time`, which stood here - "an iteration that is on time lists no address whose
    record ran out before `now`" - was what held of `AddressesFound` while
    `get_addresses_for_host` did not look at expiry times (D44).  Since the repair
    `Props.C17.hfound_unexpired` / `hfound_sound` give the stronger conclusion `now <` end of
    lifetime for EVERY iteration, on time or not, so the statement is gone.) -/

/-! ### non-vacuity -/

/-- only a hostname search, no browse: the address (TTL 10 s, received at 1500) has its refresh
    mark at 9500; after the retransmissions at 2000, 4000, 8000 (next one 16000) the daemon asks
    to be woken at 9500 - the history on which "refresh timer only while browsing" loses the
    wake-up -/
example :
    wake (run (init 1000 [C03.eth0])
      [(1000, [], [.resolveHost C17.hostH 7 none]), (1500, [C17.addrPkt C17.hostLower 10 [10, 0, 0, 1]], []),
       (2000, [], []), (4000, [], []), (8000, [], [])]).1 = some 9500 := by decide

example : Due (run (init 1000 [C03.eth0])
      [(1000, [], [.resolveHost C17.hostH 7 none]), (1500, [C17.addrPkt C17.hostLower 10 [10, 0, 0, 1]], [])]).1 9500 := by
  refine Or.inr (Or.inl ⟨.addr, (C17.hostLower, [⟨Record.new C17.hostLower 1 1 false 10 (.addr [10, 0, 0, 1] [0x65] 2) 1500, [0x65], 2⟩]),
    ?_, ⟨Record.new C17.hostLower 1 1 false 10 (.addr [10, 0, 0, 1] [0x65] 2) 1500, [0x65], 2⟩, ?_, ?_, ?_⟩)
  · decide
  · decide
  · decide
  · decide

end ClientModel

/-! ### the responder model: the timers cover all time-driven work -/

section ResponderModel
open Mdns Mdns.Responder

/-- **The timers cover the time-driven work of the responder.**
    * `probes`: for EVERY probe in the registry of EVERY interface of the daemon its `next_send` -
      the instant of its next query, or of its end once the three queries are out - is a timer.
      This holds however the probe came to that instant: created by a registration or a
      re-registration, started over because a record joined it (repair of D33), postponed by a
      lost tiebreak (repair of D34), created or started over by a conflict rename /
      `update_hostname` (repair of D41), created by the wake-up of a waiting service, moved on
      by 250 ms by `check_probing`.
    * `reruns`: every queued re-run - `RegisterResend` (the second announcement, one per service
      and interface) and `UnregisterResend` (the goodbye repeat, one per interface AND family) -
      has a timer at its due time.
    * `ipcheck`: so has the next interface check, unless it is switched off (0).
    * `drained`: no registry sits on `new_timers` it has not handed over to the daemon's heap
      (what D32 was: a re-registration left them there). -/
structure RTimersCover (s : State) : Prop where
  probes : ∀ i ∈ s.intfs, ∀ e ∈ (s.registry i.index).probing, e.2.next ∈ s.timers
  reruns : ∀ r ∈ s.reruns, r.next ∈ s.timers
  ipcheck : s.nextIpCheck ≠ 0 → s.nextIpCheck ∈ s.timers
  drained : ∀ i ∈ s.intfs, (s.registry i.index).newTimers = []

theorem RTimersCover.mid {s : State} (h : RTimersCover s) : Mid 0 0 0 s :=
  ⟨fun i hi e he => Or.inl (h.probes i hi e he), fun r hr => Or.inl (h.reruns r hr), fun hne => Or.inl (h.ipcheck hne)⟩

theorem RTimersCover.of_mid {s : State} (h : Mid 0 0 0 s) (hd : Drained s) : RTimersCover s := by
  refine ⟨?_, ?_, ?_, hd⟩
  · intro i hi e he
    rcases h.probes i hi e he with h1 | h1 | h1
    · exact h1
    · rw [hd i hi] at h1; cases h1
    · omega
  · intro r hr
    rcases h.reruns r hr with h1 | h1
    · exact h1
    · omega
  · intro hne
    rcases h.ipcheck hne with h1 | h1
    · exact h1
    · omega

/-- the fresh daemon: no probes, no re-runs, the first interface check armed 5 s after the start -/
theorem rTimersCover_init (t0 : Nat) (intfs : List MyIntf) : RTimersCover (init t0 intfs) := by
  have hreg : ∀ idx, (init t0 intfs).registry idx = {} := by
    intro idx
    unfold State.registry
    cases hl : alookup idx (init t0 intfs).registries with
    | none => rfl
    | some r =>
      have := alookup_mem hl
      simp only [init, List.mem_map] at this
      obtain ⟨_, _, heq⟩ := this
      simp only [Option.getD_some]
      exact ((Prod.mk.inj heq).2).symm
  refine ⟨?_, ?_, ?_, ?_⟩
  · intro i _ e he
    rw [hreg] at he
    cases he
  · intro r hr
    simp [init] at hr
  · intro _
    simp [init]
  · intro i _
    rw [hreg]

/-- **RTimersCover is preserved by an iteration, for EVERY input** - any time `now` (early,
    late, even before the last one), any jitter, any datagrams (queries, competing probes,
    conflicting responses, in any letter case, on any interface), any commands (register,
    re-register, unregister, monitor, interface-check interval, shutdown): unless the daemon has
    stopped, the timers cover all pending work again afterwards.  No side condition on the state is
    needed.  This is the statement that "the goodbye-repeat timer is pushed only with an IPv4
    goodbye", "the tiebreak postpones without a timer" (D34), "new_timers are armed only when
    nothing was announced" (D32) or "update_hostname moves the probe without a timer" (D41) break. -/
theorem rTimersCover_iter (s : State) (inp : Input) (h : RTimersCover s) (hrun : (iter s inp).1.stopped = false) :
    RTimersCover (iter s inp).1 := by
  rcases iter_mid s inp h.mid with hst | ⟨hm, hd⟩
  · rw [hrun] at hst; cases hst
  · exact RTimersCover.of_mid hm hd

/-- a stopped daemon stays stopped (`Exit` ends the loop) -/
theorem stopped_iter (s : State) (inp : Input) (h : s.stopped = true) : (iter s inp).1 = s := by
  simp [iter, h]

/-- ... over whole histories -/
theorem rTimersCover_run : ∀ (inputs : List Input) (s : State), s.stopped = true ∨ RTimersCover s →
    (run s inputs).1.stopped = true ∨ RTimersCover (run s inputs).1
  | [], _, h => h
  | inp :: rest, s, h => by
    simp only [run]
    apply rTimersCover_run rest
    rcases h with h | h
    · left
      rw [stopped_iter s inp h]
      exact h
    · cases hst : (iter s inp).1.stopped with
      | true => exact Or.inl rfl
      | false => exact Or.inr (rTimersCover_iter s inp h hst)

/-- **RTimersCover holds after every history** from the start of the daemon, as long as it has
    not been shut down -/
theorem rTimersCover_always (t0 : Nat) (intfs : List MyIntf) (inputs : List Input)
    (hrun : (run (init t0 intfs) inputs).1.stopped = false) : RTimersCover (run (init t0 intfs) inputs).1 := by
  rcases rTimersCover_run inputs _ (Or.inr (rTimersCover_init t0 intfs)) with h | h
  · rw [hrun] at h; cases h
  · exact h

/-- the instants at which the responder has time-driven work to do: a probe of an interface
    registry sends its next query or ends (`next_send`); a queued re-run is due (second
    announcement, goodbye repeat); the interface check -/
def RDue (s : State) (d : Nat) : Prop :=
  (∃ i ∈ s.intfs, ∃ e ∈ (s.registry i.index).probing, d = e.2.next) ∨
  (∃ r ∈ s.reruns, d = r.next) ∨
  (s.nextIpCheck ≠ 0 ∧ d = s.nextIpCheck)

theorem wake_le_timer_responder (s : State) (t : Nat) (h : t ∈ s.timers) : ∃ w, wake s = some w ∧ w ≤ t := by
  unfold wake
  cases hm : s.timers.min? with
  | none =>
    rw [List.min?_eq_none_iff] at hm
    simp [hm] at h
  | some w => exact ⟨w, rfl, (List.min?_eq_some_iff.mp hm).2 t h⟩

/-- in a state whose timers cover the work, the wake-up the daemon asks for is never later than
    any due work -/
theorem responder_wake_covers (s : State) (h : RTimersCover s) (d : Nat) (hd : RDue s d) : ∃ w, wake s = some w ∧ w ≤ d := by
  apply wake_le_timer_responder
  rcases hd with ⟨i, hi, e, he, rfl⟩ | ⟨r, hr, rfl⟩ | ⟨hne, rfl⟩
  · exact h.probes i hi e he
  · exact h.reruns r hr
  · exact h.ipcheck hne

/-- **responder_wake_never_late**: start the daemon, run ANY history (any times, datagrams,
    commands); as long as it has not been shut down, the wake-up it requests afterwards is no
    later than ANY due instant of pending responder work - the next query or the end of every
    probe on every interface (after a registration, a re-registration, a joining record, a lost
    tiebreak, a conflict rename, a wake-up), every second announcement, every goodbye repeat (per
    interface and family), the interface check. -/
theorem responder_wake_never_late (t0 : Nat) (intfs : List MyIntf) (inputs : List Input)
    (hrun : (run (init t0 intfs) inputs).1.stopped = false) (d : Nat) (hd : RDue (run (init t0 intfs) inputs).1 d) :
    ∃ w, wake (run (init t0 intfs) inputs).1 = some w ∧ w ≤ d :=
  responder_wake_covers _ (rTimersCover_always t0 intfs inputs hrun) d hd

/-! #### what queues the re-runs: one per interface (announcement) / per interface and family (goodbye) -/

/-- GOODBYE REPEAT, PER INTERFACE AND FAMILY: `unregister` of a registered service queues, for
    EVERY goodbye packet it sends - interface `idx`, family `v4` (IPv4 or IPv6 alike) - the same
    packet once more for `now + 120`, and arms a timer for that instant -/
theorem goodbye_repeat_armed (s : State) (now : Nat) (name : BList) (ch : Nat) (idx : Nat) (v4 : Bool) (p : Packet)
    (h : Out.send idx v4 none p ∈ (execUnregister s now name ch).2) :
    ReRun.unregisterResend (now + 120) p idx v4 ∈ (execUnregister s now name ch).1.reruns ∧
    (now + 120) ∈ (execUnregister s now name ch).1.timers := by
  unfold execUnregister at h ⊢
  split
  · rename_i hn
    simp [hn] at h
  · rename_i svc hs
    simp only [hs, List.mem_append, List.mem_map, List.mem_singleton, reduceCtorEq, or_false] at h
    obtain ⟨g, hg, heq⟩ := h
    simp only [Out.send.injEq, true_and] at heq
    obtain ⟨rfl, rfl, rfl⟩ := heq
    constructor
    · simp only [List.mem_append, List.mem_map]
      exact Or.inr ⟨g, hg, rfl⟩
    · simp only [List.mem_append, List.mem_map]
      exact Or.inr ⟨g, hg, trivial⟩

/-- ANNOUNCEMENT REPEAT, PER INTERFACE: when `probing_handler` announces a service on interface
    `i` (the first announcement after its probes ended), `RegisterResend` for that service AND
    that interface is queued for `now + 1000` and a timer is armed - for each interface on which
    that happens, also when several probes end in one iteration -/
theorem announcement_repeat_armed (now j : Nat) (i : MyIntf) (acc : State × List Out) (name : BList) (svc : Service)
    (hsvc : alookup (lower name) acc.1.services = some svc) (v4 : Bool) (p : Packet)
    (h : Out.send i.index v4 none p ∈ (wakeService now j i acc name).2) (hnew : Out.send i.index v4 none p ∉ acc.2) :
    ReRun.registerResend (now + 1000) svc.fullname i.index ∈ (wakeService now j i acc name).1.reruns ∧
    (now + 1000) ∈ (wakeService now j i acc name).1.timers := by
  unfold wakeService at h ⊢
  simp only [hsvc] at h ⊢
  split
  · rename_i ha
    simp only [ha, if_true] at h
    exact absurd h hnew
  · rename_i ha
    simp only [ha] at h
    split
    · simp
    · rename_i hp
      simp only [hp] at h
      exact absurd h hnew

/-! #### never spinning -/

/-- **An iteration that has nothing to do goes back to sleep.**  A running daemon whose timers
    cover its work is woken at `now` without a datagram and without a command, and no work is due
    (every due instant lies after `now`): the iteration sends nothing and reports nothing, and
    every timer it leaves - hence the wake-up it requests - lies after `now`.  (A spurious wake-up
    costs one iteration; it is not answered with another request for `now`.) -/
theorem idle_iteration_sleeps (s : State) (now j : Nat) (hrun : s.stopped = false) (hc : RTimersCover s)
    (hnodue : ∀ d, RDue s d → now < d) :
    (iter s (idle now j)).2 = [] ∧ ∀ t ∈ (iter s (idle now j)).1.timers, now < t := by
  have hidle : ∀ i ∈ s.intfs, AllIdle now (s.registry i.index) :=
    fun i hi e he => hnodue _ (Or.inl ⟨i, hi, e, he, rfl⟩)
  have hre : ∀ r ∈ s.reruns, now < r.next := fun r hr => hnodue _ (Or.inr (Or.inl ⟨r, hr, rfl⟩))
  refine ⟨idle_nothing_due_outs s now j hrun hidle hre, ?_⟩
  apply idle_quiet_timers s now j hrun
  refine ⟨hc.drained, fun i hi => (hidle i hi).noExp, hre, ?_⟩
  by_cases h0 : s.nextIpCheck = 0
  · exact Or.inl h0
  · exact Or.inr (hnodue _ (Or.inr (Or.inr ⟨h0, rfl⟩)))

/-- **The responder never spins.**  Take ANY state and ANY iteration at `now` (any datagrams, any
    commands) that does not stop the daemon.  However often the daemon is then run again at the
    same instant without new input - at least once, any jitters - every timer afterwards lies
    after `now`: one further iteration at most has something to do at that instant (the first
    query of a probe created with jitter 0; consuming a stale `new_timers` entry), and then the
    requested wake-up lies in the future.  In particular the interface check never re-arms at
    `now` (interval 0 switches it off: repair of D12), a probe never asks for its own instant
    twice, and a re-run is never queued for `now`. -/
theorem responder_no_spin (s : State) (inp : Input) (hrun : (iter s inp).1.stopped = false) (j : Nat) (js : List Nat) :
    ∀ t ∈ (run (iter s inp).1 ((j :: js).map (idle inp.now))).1.timers, inp.now < t :=
  idleRun_quiet_timers inp.now js j _ hrun (iter_quiet s inp hrun)

/-- ... in terms of the requested wake-up -/
theorem responder_no_spin_wake (s : State) (inp : Input) (hrun : (iter s inp).1.stopped = false) (j : Nat) (js : List Nat)
    (w : Nat) (hw : wake (run (iter s inp).1 ((j :: js).map (idle inp.now))).1 = some w) : inp.now < w := by
  unfold wake at hw
  exact responder_no_spin s inp hrun j js w (List.min?_eq_some_iff.mp hw).1

/-- what is left for the instant of an iteration (`Quiet`): only first queries of probes - no
    probe ends, no re-run and no interface check is due, no `new_timers` wait - after ANY
    iteration from ANY state -/
theorem after_iteration_quiet (s : State) (inp : Input) (hrun : (iter s inp).1.stopped = false) :
    Quiet inp.now (iter s inp).1 := iter_quiet s inp hrun

/-! ### non-vacuity -/

/-- the wake-up requested after each iteration of a history -/
def wakeTrace : State → List Input → List (Option Nat)
  | _, [] => []
  | s, inp :: rest => wake (iter s inp).1 :: wakeTrace (iter s inp).1 rest

/-- an iteration without datagram and command -/
def idleAt (t : Nat) : Input := { now := t, jitter := 7 }

/-- A REGISTRATION (`web` on `eth0`, jitter 7 ms): after `register` at 1000000 the daemon asks to
    be woken at the three probe times 1000007, 1000257, 1000507, at the end of the probes
    1000757 (first announcement), at 1001757 (second announcement), and then for the interface
    check at 1005000 -/
example :
    wakeTrace (init 1000000 [eth0])
      [{ now := 1000000, jitter := 7, cmds := [.register web] }, idleAt 1000007, idleAt 1000257, idleAt 1000507,
       idleAt 1000757, idleAt 1001757] =
    [some 1000007, some 1000257, some 1000507, some 1000757, some 1001757, some 1005000] := by decide +kernel

/-- ... and the due instants are what `RDue` says: right after the registration both probes
    (instance name, host name) are due at 1000007 -/
example : RDue (iter (init 1000000 [eth0]) { now := 1000000, jitter := 7, cmds := [.register web] }).1 1000007 :=
  Or.inl ⟨eth0, by decide, (web.fullname, ⟨[⟨web.fullname, none, 16, true, 4500, .txt [0]⟩,
    ⟨web.fullname, none, 33, true, 120, .srv 0 0 80 web.host⟩], [web.fullname], 1000007, 1000007⟩), by decide +kernel, rfl⟩

/-- AN UNREGISTER on a dual-stack interface (`webMixed` on `eth0dual`, announced twice, then
    `unregister` at 1002000): the daemon asks to be woken at 1002120 for the goodbye repeats (one
    queued per family), afterwards for the interface check -/
example :
    wakeTrace (init 1000000 [eth0dual])
      [{ now := 1000000, jitter := 7, cmds := [.register webMixed] }, idleAt 1000007, idleAt 1000257, idleAt 1000507,
       idleAt 1000757, idleAt 1001757, { now := 1002000, jitter := 7, cmds := [.unregister webMixed.fullname 5] },
       idleAt 1002120] =
    [some 1000007, some 1000257, some 1000507, some 1000757, some 1001757, some 1005000, some 1002120, some 1005000] := by
  decide +kernel

example :
    ((run (init 1000000 [eth0dual])
      [{ now := 1000000, jitter := 7, cmds := [.register webMixed] }, idleAt 1000007, idleAt 1000257, idleAt 1000507,
       idleAt 1000757, idleAt 1001757, { now := 1002000, jitter := 7, cmds := [.unregister webMixed.fullname 5] }]).1.reruns.map
        fun r => match r with
          | .unregisterResend t _ i v4 => (t, i, v4)
          | .registerResend t _ i => (t, i, true)) = [(1002120, 2, true), (1002120, 2, false)] := by decide +kernel

/-- a competing prober that wins the tiebreak for both names of `web` (an SRV where we have a
    TXT first; a higher address) -/
def rival : RxPkt :=
  { ifIdx := 2, sockV4 := true, src := [], srcV4 := true, srcPort := 5353,
    msg := { id := 0, flags := 0,
             questions := [{ name := web.fullname, ty := 255, cls := 1, flush := false },
                           { name := web.host, ty := 255, cls := 1, flush := false }],
             answers := [],
             authorities := [{ name := web.fullname, ty := 33, cls := 1, flush := false, ttl := 120,
                               rdata := .srv 0 0 80 web.host, start := 0, stop := 0 },
                             { name := web.host, ty := 1, cls := 1, flush := false, ttl := 120,
                               rdata := .a [192, 168, 1, 30], start := 0, stop := 0 }],
             additionals := [] } }

/-- A LOST TIEBREAK (D34): the rival's probe query arrives at 1000100, after our first query; both
    our probes are postponed to 1001100 = arrival + 1000.  The old timer still wakes the daemon at
    1000257 (nothing to do), then it asks for 1001100 - the retry happens when due, and the
    three queries start over 250 ms apart -/
example :
    wakeTrace (init 1000000 [eth0])
      [{ now := 1000000, jitter := 7, cmds := [.register web] }, idleAt 1000007, { now := 1000100, jitter := 7, rx := [rival] },
       idleAt 1000257, idleAt 1001100, idleAt 1001350] =
    [some 1000007, some 1000257, some 1000257, some 1001100, some 1001350, some 1001600] := by decide +kernel

/-- JITTER 0: the probes are created for `now`, their first query leaves in the iteration of the
    registration itself, and the daemon asks once more for `now` (the armed `new_timers` entry);
    the next iteration at that instant has nothing to do and asks for `now + 250` -/
example :
    wakeTrace (init 1000000 [eth0])
      [{ now := 1000000, jitter := 0, cmds := [.register web] }, { now := 1000000, jitter := 0 }, { now := 1000250, jitter := 0 }] =
    [some 1000000, some 1000250, some 1000500] := by decide +kernel

end ResponderModel

end Mdns.Props.C12
