import Mdns.Lemmas.Sched
/-
  C12  The daemon wakes itself for all time-driven work and never spins (scheduler fragment).

  Model: `Mdns/Model/Sched.lean`; its requested wake-up (`wake`) is compared with the real
  daemon's at every iteration of every history without responders.
-/
namespace Mdns.Props.C12
open Mdns Mdns.Sched

/-- every queued retransmission has a timer at its due time (`add_retransmission`) -/
def RerunsTimed (s : State) : Prop := ∀ r ∈ s.reruns, r.next ∈ s.timers

/-- queueing a retransmission arms a timer for it -/
theorem addRerun_timed (s : State) (next : Nat) (c : RCmd) (h : RerunsTimed s) :
    RerunsTimed (addRerun s next c) := by
  intro r hr
  simp only [addRerun, List.mem_append, List.mem_singleton] at hr
  simp only [addRerun, List.mem_cons]
  rcases hr with hr | rfl
  · right; exact h r hr
  · left; rfl

/-- the requested wake-up is no later than any armed timer -/
theorem wake_le_timer (s : State) (t : Nat) (h : t ∈ s.timers) : ∃ w, wake s = some w ∧ w ≤ t := by
  unfold wake
  cases hm : s.timers.min? with
  | none =>
    rw [List.min?_eq_none_iff] at hm
    simp [hm] at h
  | some w => exact ⟨w, rfl, (List.min?_eq_some_iff.mp hm).2 t h⟩

/-- hence: the wake-up requested in a state is no later than the due time of any queued
    retransmission (query back-off of a browse or hostname search) -/
theorem wake_covers_reruns (s : State) (h : RerunsTimed s) (r : Rerun) (hr : r ∈ s.reruns) :
    ∃ w, wake s = some w ∧ w ≤ r.next := wake_le_timer s r.next (h r hr)

/-- a resolver deadline arms a timer at the deadline -/
theorem deadline_timed (s : State) (now : Nat) (h : BList) (ch t : Nat) :
    (now + t) ∈ (execResolve s now false h 1 ch (some t)).1.timers := by
  simp only [execResolve, Bool.false_and, Bool.false_eq_true, ↓reduceIte, Option.map_some]
  split <;> simp [addRerun]

/-- the interface check: with a positive interval the next check is armed in the future;
    with interval 0 (the check is disabled) nothing is armed - the loop does not spin
    (repair of D12) -/
theorem ipcheck_no_spin (s : State) (now : Nat) :
    (runIpCheck s now).timers = s.timers ∨
    (s.ipInterval > 0 ∧ (runIpCheck s now).timers = (now + s.ipInterval) :: s.timers) := by
  unfold runIpCheck
  repeat' split
  all_goals first
    | (left; rfl)
    | (right; refine ⟨by omega, rfl⟩)
    | (right; rename_i h; simp at h; exact ⟨by omega, rfl⟩)

/-- after an iteration every timer that was already due has been consumed: what remains
    from before lies strictly in the future -/
theorem passed_timers_popped (s : State) (now : Nat) :
    ∀ t ∈ ({ s with timers := s.timers.filter (· > now) } : State).timers, t > now := by
  intro t ht
  simp only [List.mem_filter, decide_eq_true_eq] at ht
  exact ht.2

example : wake (init 1000000) = some 1005000 := by decide

end Mdns.Props.C12
