import Mdns.Lemmas.Sched
import Mdns.Lemmas.ClientStale
import Mdns.Lemmas.ClientCacheOnly
import Mdns.Props.C03
/-
  C13  Stopping a search really stops it; channel protocol.

  First part: `Mdns/Model/Sched.lean` (exact on histories without responders; compared with
  the real daemon on every run).  Second part (`section ClientModel`): the client model
  `Mdns/Model/Client.lean` (compared with the real daemon per iteration: queries, events with
  payload).  All theorems hold for any sequence of iterations, however late: they do not
  assume a timely scheduler.
-/
namespace Mdns.Props.C13

section SchedFragment
open Mdns Mdns.Sched

/-- the outputs of a whole history of iterations `(now, commands)` -/
def outputs (s : State) : List (Nat × List Command) → List Out
  | [] => []
  | (now, cmds) :: rest => (iter s now cmds).2 ++ outputs (iter s now cmds).1 rest

def finalState (s : State) : List (Nat × List Command) → State
  | [] => s
  | (now, cmds) :: rest => finalState (iter s now cmds).1 rest

/-- `stop_browse(ty)` on a running browse: `SearchStopped` goes to the channel of that
    browse, exactly once, the search is forgotten and nothing stays queued for `ty`. -/
theorem stop_browse_contract (s : State) (now : Nat) (ty : BList) (ch : Nat)
    (h : s.queriers.find? (·.1 == ty) = some (ty, ch)) :
    (execCommand s now (.stopBrowse ty)).2 = [.event ch .stopped] ∧
    (execCommand s now (.stopBrowse ty)).1.queriers.find? (·.1 == ty) = none ∧
    NoBrowse ty (execCommand s now (.stopBrowse ty)).1.reruns := by
  simp only [execCommand, execStopBrowse, h]
  refine ⟨trivial, ?_, filter_not_self _ _⟩
  rw [List.find?_eq_none]
  intro q hq
  simp only [List.mem_filter] at hq
  simpa using hq.2

/-- stopping a type that is not browsed does nothing at all -/
theorem stop_unknown_is_noop (s : State) (now : Nat) (ty : BList)
    (h : s.queriers.find? (·.1 == ty) = none) :
    execCommand s now (.stopBrowse ty) = (s, []) := by
  simp [execCommand, execStopBrowse, h]

/-- No query after the stop: once nothing is queued for `ty` (as after `stop_browse`), no
    later iteration - whenever it runs, whatever other searches are started, stopped or
    timed out in between - sends a query for `ty`, until `browse(ty)` is called again. -/
theorem no_query_after_stop (ty : BList) : ∀ (history : List (Nat × List Command)) (s : State),
    NoBrowse ty s.reruns →
    history.all (fun h => h.2.all (fun c => !isBrowseCmd ty c)) = true →
    (outputs s history).all (fun o => !isQueryOf ty o) = true
  | [], _, _, _ => rfl
  | (now, cmds) :: rest, s, hs, hh => by
    simp only [List.all_cons, Bool.and_eq_true] at hh
    have h1 := iter_no_query s now cmds ty hh.1 hs
    have h2 := no_query_after_stop ty rest (iter s now cmds).1 h1.2 hh.2
    simp only [outputs, List.all_append, Bool.and_eq_true]
    exact ⟨h1.1, h2⟩

/-- The resolver time-out: `SearchTimeout` then `SearchStopped` on the resolver's channel,
    and the resolver is gone, so its queued retransmission is a no-op from then on
    (`execResolve … repeating = true` returns without output when the key is absent). -/
theorem timeout_contract (s : State) (now : Nat) (key : BList) (ch t : Nat)
    (h : s.resolvers = [(key, ch, some t)]) (hdue : now ≥ t) :
    (runTimeouts s now).2 = [.event ch .htimeout, .event ch .hstopped] ∧
    (runTimeouts s now).1.resolvers = [] := by
  simp [runTimeouts, h, hdue]

theorem rerun_of_gone_search_is_noop (s : State) (now : Nat) (h : BList) (d ch : Nat)
    (hgone : s.resolvers.any (·.1 == lower h) = false) :
    execRerun s now (.resolveHost h d ch) = (s, []) := by
  simp [execRerun, execResolve, hgone]

/-- a cache-only browse sends no query and queues nothing -/
theorem cache_only_silent (s : State) (now : Nat) (ty : BList) (ch : Nat) :
    (execCommand s now (.browse ty ch true)).2 = [.event ch .started, .event ch .stopped] ∧
    NoBrowse ty (execCommand s now (.browse ty ch true)).1.reruns := by
  refine ⟨rfl, ?_⟩
  simp only [execCommand, execBrowse, Bool.false_eq_true, ↓reduceIte]
  exact filter_not_self _ _

/-- the first event of every search channel is `SearchStarted` -/
theorem first_event_started (s : State) (now : Nat) (ty : BList) (ch : Nat) (co : Bool) :
    (execCommand s now (.browse ty ch co)).2.head? = some (.event ch .started) := by
  simp only [execCommand, execBrowse]
  split <;> rfl

/-! non-vacuity: a browse, then its stop, in a real model run -/
example :
    outputs (init 1000000) [(1000000, [.browse [0x5f] 1 false]), (1001000, []), (1001500, [.stopBrowse [0x5f]]), (1003000, [])] =
    [.event 1 .started, .query [([0x5f], 12)], .event 1 .started, .query [([0x5f], 12)], .event 1 .stopped] := by decide

end SchedFragment

/-! ### the client model -/

section ClientModel
open Mdns Mdns.Rec Mdns.Cache Mdns.Client

/-- the back-off delays of the queued re-runs are between a second and an hour (an invariant of
    every history: `delays_ok_run`) -/
def DelaysOk (s : State) : Prop := ∀ r ∈ s.reruns, DelayOk r

/-! #### every output has a cause -/

/-- **Every output of an iteration has a cause** (`Client.Origin`): an event goes to the channel of
    a browse or hostname search of the state, of a queued re-run, or of a command of this
    iteration; a PTR question is asked for a type that is browsed and not cache-only (since the
    repair of D23), a queued browse retransmission or a `browse` command; A + AAAA for a hostname search that is open, for a follow-up or for a
    browsed service; a single A / AAAA question for an open hostname search; and so on.  (The
    classes of queued re-runs are those queued when the re-run phase starts.) -/
theorem every_output_has_a_cause (s : State) (now : Nat) (pkts : List Packet) (cmds : List Command) :
    ∀ o ∈ (iter s now pkts cmds).2, Origin s cmds (midClasses (preCommands s now pkts) now cmds) o :=
  origin_iter s now pkts cmds

/-! #### a channel nobody uses stays silent -/

/-- **Silent for ever.**  Once no browse, no hostname search and no queued re-run reports to
    `ch` (`ChanFree`: as after a stop, see below), no later iteration - whenever it runs,
    whatever arrives, whatever other searches are started, stopped or time out - emits any event
    on `ch`, until a command gives `ch` to a new search. -/
theorem silent_for_ever (ch : Nat) : ∀ (h : List (Nat × List Packet × List Command)) (s : State),
    ChanFree ch s → DelaysOk s → (∀ it ∈ h, ∀ c ∈ it.2.2, cchan c ≠ some ch) →
    (∀ t e, (t, Out.event ch e) ∉ (run s h).2) ∧ ChanFree ch (run s h).1 ∧ DelaysOk (run s h).1
  | [], s, hf, hD, _ => ⟨fun _ _ hm => (by cases hm), hf, hD⟩
  | (now, pkts, cmds) :: rest, s, hf, hD, hc => by
    obtain ⟨h1, h2, h3⟩ := chanFree_iter ch s now pkts cmds hf hD (hc _ List.mem_cons_self)
    obtain ⟨h4, h5, h6⟩ := silent_for_ever ch rest _ h2 h3 (fun it hit => hc it (List.mem_cons_of_mem _ hit))
    simp only [run]
    refine ⟨?_, h5, h6⟩
    intro t e hm
    rcases List.mem_append.mp hm with hm | hm
    · obtain ⟨o, ho, he⟩ := List.mem_map.mp hm
      cases he
      exact h1 e ho
    · exact h4 t e hm

theorem chanFree_init (ch t0 : Nat) (intfs : List Intf) : ChanFree ch (init t0 intfs) ∧ DelaysOk (init t0 intfs) :=
  ⟨⟨fun _ h => (by cases h), fun _ h => (by cases h), fun _ h => (by cases h)⟩, fun _ h => (by cases h)⟩

/-! #### the first event on a channel is `SearchStarted` -/

theorem quiet_before_command (ch : Nat) (s : State) (now : Nat) (pkts : List Packet) (pre : List Command)
    (hf : ChanFree ch s) (hD : DelaysOk s) (hpre : ∀ c ∈ pre, cchan c ≠ some ch) :
    (∀ e, Out.event ch e ∉ (ingress s now pkts).2 ++ (runTimeouts (popTimers (ingress s now pkts).1 now) now).2 ++
      (runCommands (preCommands s now pkts) now pre).2) ∧
    ChanFree ch (runCommands (preCommands s now pkts) now pre).1 ∧
    DelaysOk (runCommands (preCommands s now pkts) now pre).1 := by
  obtain ⟨h1, hD1⟩ := SInv.preCommands hf now pkts hD (fun x hx => by cases hx)
  have hckey : ∀ c ∈ pre, ∀ y, ckey c = some y → y.2.2 ≠ ch := by
    intro c hcm y hy
    have := hpre c hcm
    cases c <;> simp [ckey] at hy <;> simp [cchan] at this <;> (subst hy; simpa using this)
  have ht := SInv.tail h1 now pre hD1
    (fun ty ch' co h => by have := hpre _ h; simpa [cchan] using this)
    (fun h ch' t dl hm => by have := hpre _ hm; simpa [cchan] using this)
    (fun x hx => by cases hx) hckey
  have hst := step_runCommands (now := now) (cmds := pre) (KeyOK := fun _ => True) (OK := fun _ => True) trivial pre
    (preCommands s now pkts) (fun _ h => h) (fun _ _ _ _ => trivial) (fun _ _ => trivial)
  refine ⟨?_, ht.1, delayOk_of_step hst hD1⟩
  intro e he
  simp only [List.mem_append] at he
  rcases he with (he | he) | he
  · exact no_event_of_chanFree ch s [] [] e ⟨hf.queriers, hf.resolvers, fun _ _ => trivial⟩ (fun _ h => by cases h)
      (fun _ h => by cases h) (fun _ h => by cases h) (origin_ingress [] [] now pkts s _ he)
  · refine no_event_of_chanFree ch (popTimers (ingress s now pkts).1 now) [] [] e ⟨?_, ?_, fun _ _ => trivial⟩
      (fun _ h => by cases h) (fun _ h => by cases h) (fun _ h => by cases h) (origin_runTimeouts _ [] [] now _ he)
    · intro q hq
      exact hf.queriers q (by simpa [popTimers] using hq)
    · intro q hq
      exact hf.resolvers q (by simpa [popTimers] using hq)
  · exact no_event_of_chanFree ch (preCommands s now pkts) pre [] e ⟨h1.queriers, h1.resolvers, fun _ _ => trivial⟩ hpre
      (fun _ h => by cases h) (fun _ h => by cases h) (origin_runCommands pre [] now pre _ (fun _ h => h) _ he)

/-- **The first event on a browse channel is `SearchStarted`.**  `ch` is not in use; an iteration
    processes the commands `pre`, which do not mention `ch`, then `browse(ty)` on `ch`: the
    outputs of the iteration are `a ++ SearchStarted(ch) :: b` with no event on `ch` in `a`.
    (With `silent_for_ever` from the start of the daemon: nothing on `ch` in earlier iterations.) -/
theorem first_event_started_browse (ch : Nat) (s : State) (now : Nat) (pkts : List Packet) (pre : List Command)
    (ty : BList) (co : Bool) (post : List Command) (hf : ChanFree ch s) (hD : DelaysOk s)
    (hpre : ∀ c ∈ pre, cchan c ≠ some ch) :
    ∃ a b, (iter s now pkts (pre ++ .browse ty ch co :: post)).2 = a ++ Out.event ch .started :: b ∧
      ∀ e, Out.event ch e ∉ a := by
  obtain ⟨hq, _, _⟩ := quiet_before_command ch s now pkts pre hf hD hpre
  have hsplit := (iter_split s now pkts pre (.browse ty ch co) post).2
  have hhead : ∃ b0, (execCommand (runCommands (preCommands s now pkts) now pre).1 now (.browse ty ch co)).2 =
      Out.event ch .started :: b0 := by
    simp only [execCommand, execBrowse, Bool.false_eq_true, if_false]
    split <;> exact ⟨_, rfl⟩
  obtain ⟨b0, hb0⟩ := hhead
  refine ⟨((ingress s now pkts).2 ++ (runTimeouts (popTimers (ingress s now pkts).1 now) now).2 ++
    (runCommands (preCommands s now pkts) now pre).2),
    b0 ++ tailOuts (execCommand (runCommands (preCommands s now pkts) now pre).1 now (.browse ty ch co)).1 now post,
    ?_, hq⟩
  rw [hsplit, hb0]
  simp only [List.append_assoc, List.cons_append]

/-- **The first event on a hostname-search channel is `SearchStarted`.** -/
theorem first_event_started_resolve (ch : Nat) (s : State) (now : Nat) (pkts : List Packet) (pre : List Command)
    (host : BList) (t : Option Nat) (post : List Command) (hf : ChanFree ch s) (hD : DelaysOk s)
    (hpre : ∀ c ∈ pre, cchan c ≠ some ch) :
    ∃ a b, (iter s now pkts (pre ++ .resolveHost host ch t :: post)).2 = a ++ Out.event ch .hstarted :: b ∧
      ∀ e, Out.event ch e ∉ a := by
  obtain ⟨hq, _, _⟩ := quiet_before_command ch s now pkts pre hf hD hpre
  have hsplit := (iter_split s now pkts pre (.resolveHost host ch t) post).2
  have hhead : ∃ b0, (execCommand (runCommands (preCommands s now pkts) now pre).1 now (.resolveHost host ch t)).2 =
      Out.event ch .hstarted :: b0 := by
    simp only [execCommand, execResolveHost, Bool.false_and, Bool.false_eq_true, if_false]
    exact ⟨_, rfl⟩
  obtain ⟨b0, hb0⟩ := hhead
  refine ⟨((ingress s now pkts).2 ++ (runTimeouts (popTimers (ingress s now pkts).1 now) now).2 ++
    (runCommands (preCommands s now pkts) now pre).2),
    b0 ++ tailOuts (execCommand (runCommands (preCommands s now pkts) now pre).1 now (.resolveHost host ch t)).1 now post,
    ?_, hq⟩
  rw [hsplit, hb0]
  simp only [List.append_assoc, List.cons_append]

/-! #### a search owns its channel -/

/-- a command that does not mention `ch` respects "only the browse of `ty` uses `ch`" -/
theorem onlyBrowse_iter (ch : Nat) (ty : BList) (s : State) (now : Nat) (pkts : List Packet) (cmds : List Command)
    (ho : OnlyBrowse ch ty s) (hD : DelaysOk s) (hc : ∀ c ∈ cmds, cchan c ≠ some ch) :
    OnlyBrowse ch ty (iter s now pkts cmds).1 ∧ DelaysOk (iter s now pkts cmds).1 := by
  apply SInv.iter ho now pkts cmds hD
  · intro ty' ch' co h he
    have := hc _ h
    simp only [cchan] at this
    exact absurd (by simp only at he; exact congrArg some he) this
  · intro h ch' t dl hm
    have := hc _ hm
    simpa [cchan] using this
  · intro x hx
    cases hx
  · intro c hcm y hy he
    have := hc c hcm
    cases c <;> simp [ckey] at hy <;> simp [cchan] at this <;> (subst hy; simp at he; exact absurd he this)

theorem onlyHost_iter (ch : Nat) (key : BList) (s : State) (now : Nat) (pkts : List Packet) (cmds : List Command)
    (ho : OnlyHost ch key s) (hD : DelaysOk s) (hc : ∀ c ∈ cmds, cchan c ≠ some ch) :
    OnlyHost ch key (iter s now pkts cmds).1 ∧ DelaysOk (iter s now pkts cmds).1 := by
  apply SInv.iter ho now pkts cmds hD
  · intro ty' ch' co h
    have := hc _ h
    simpa [cchan] using this
  · intro h ch' t dl hm he
    have := hc _ hm
    simp only [cchan] at this
    exact absurd (by simp only at he; exact congrArg some he) this
  · intro x hx
    cases hx
  · intro c hcm y hy he
    have := hc c hcm
    cases c <;> simp [ckey] at hy <;> simp [cchan] at this <;> (subst hy; simp at he; exact absurd he this)

/-- **`browse(ty)` on a channel that is not in use makes the browse its only user**, at the end
    of that iteration (the other commands of the iteration do not mention `ch`) -/
theorem browse_owns_channel (ch : Nat) (s : State) (now : Nat) (pkts : List Packet) (pre : List Command) (ty : BList)
    (co : Bool) (post : List Command) (hf : ChanFree ch s) (hD : DelaysOk s) (hpre : ∀ c ∈ pre, cchan c ≠ some ch)
    (hpost : ∀ c ∈ post, cchan c ≠ some ch) :
    OnlyBrowse ch ty (iter s now pkts (pre ++ .browse ty ch co :: post)).1 ∧
    DelaysOk (iter s now pkts (pre ++ .browse ty ch co :: post)).1 := by
  obtain ⟨_, hf0, hD0⟩ := quiet_before_command ch s now pkts pre hf hD hpre
  have hst := step_execCommand (now := now) (cmds := [.browse ty ch co])
    (KeyOK := fun k => k = none ∨ k = some (0, ty, ch)) (OK := fun _ => True)
    (runCommands (preCommands s now pkts) now pre).1 (.browse ty ch co) (by simp) (fun _ _ => trivial) (Or.inl rfl) (Or.inr rfl)
  have h1 : OnlyBrowse ch ty (execCommand (runCommands (preCommands s now pkts) now pre).1 now (.browse ty ch co)).1 := by
    refine SInv.step hst (hf0.onlyBrowse ty) ?_ ?_ ?_
    · intro ty' ch' co' h _
      simp only [List.mem_singleton, Command.browse.injEq] at h
      exact h.1
    · intro h ch' t dl hm
      simp at hm
    · rintro k (rfl | rfl) x hx he
      · cases hx
      · cases hx
        rfl
  have hD1 := delayOk_of_step hst hD0
  have ht := SInv.tail h1 now post hD1
    (fun ty' ch' co' h he => by
      have := hpost _ h
      simp only [cchan] at this
      exact absurd (by simp only at he; exact congrArg some he) this)
    (fun h ch' t dl hm => by have := hpost _ hm; simpa [cchan] using this)
    (fun x hx => by cases hx)
    (by
      intro c hcm y hy he
      have := hpost c hcm
      cases c <;> simp [ckey] at hy <;> simp [cchan] at this <;> (subst hy; simp at he; exact absurd he this))
  rw [(iter_split s now pkts pre (.browse ty ch co) post).1]
  exact ⟨ht.2.1, ht.2.2⟩

/-- **`resolve_hostname(host)` on a channel that is not in use makes the search its only user** -/
theorem resolve_owns_channel (ch : Nat) (s : State) (now : Nat) (pkts : List Packet) (pre : List Command) (host : BList)
    (t : Option Nat) (post : List Command) (hf : ChanFree ch s) (hD : DelaysOk s) (hpre : ∀ c ∈ pre, cchan c ≠ some ch)
    (hpost : ∀ c ∈ post, cchan c ≠ some ch) :
    OnlyHost ch (lower host) (iter s now pkts (pre ++ .resolveHost host ch t :: post)).1 ∧
    DelaysOk (iter s now pkts (pre ++ .resolveHost host ch t :: post)).1 := by
  obtain ⟨_, hf0, hD0⟩ := quiet_before_command ch s now pkts pre hf hD hpre
  have hst := step_execCommand (now := now) (cmds := [.resolveHost host ch t])
    (KeyOK := fun k => k = none ∨ k = some (1, host, ch)) (OK := fun _ => True)
    (runCommands (preCommands s now pkts) now pre).1 (.resolveHost host ch t) (by simp) (fun _ _ => trivial) (Or.inl rfl)
    (Or.inr rfl)
  have h1 : OnlyHost ch (lower host)
      (execCommand (runCommands (preCommands s now pkts) now pre).1 now (.resolveHost host ch t)).1 := by
    refine SInv.step hst (hf0.onlyHost (lower host)) ?_ ?_ ?_
    · intro ty' ch' co' h
      simp at h
    · intro h ch' t' dl hm _
      simp only [List.mem_singleton, Command.resolveHost.injEq] at hm
      rw [hm.1]
    · rintro k (rfl | rfl) x hx he
      · cases hx
      · cases hx
        exact ⟨rfl, rfl⟩
  have hD1 := delayOk_of_step hst hD0
  have ht := SInv.tail h1 now post hD1
    (fun ty' ch' co' h => by have := hpost _ h; simpa [cchan] using this)
    (fun h ch' t' dl hm he => by
      have := hpost _ hm
      simp only [cchan] at this
      exact absurd (by simp only at he; exact congrArg some he) this)
    (fun x hx => by cases hx)
    (by
      intro c hcm y hy he
      have := hpost c hcm
      cases c <;> simp [ckey] at hy <;> simp [cchan] at this <;> (subst hy; simp at he; exact absurd he this))
  rw [(iter_split s now pkts pre (.resolveHost host ch t) post).1]
  exact ⟨ht.2.1, ht.2.2⟩

/-! #### `SearchStopped` is the last event, and comes once -/

/-- **`stop_browse` really stops (the iteration of the stop).**  The browse of `ty` is the only
    user of `ch`; an iteration processes commands `pre` (not mentioning `ch`), finds the browse
    of `ty` still running on `ch`, processes `stop_browse(ty)` and then `post` (not mentioning
    `ch`).  Then the stop emits exactly `SearchStopped(ty)` on `ch`, the rest of the iteration
    emits nothing on `ch`, and afterwards nobody uses `ch`: by `silent_for_ever` no later
    iteration emits anything on it - `SearchStopped` is the last event and is not repeated. -/
theorem stop_browse_final (ch : Nat) (ty : BList) (s : State) (now : Nat) (pkts : List Packet)
    (pre post : List Command) (ho : OnlyBrowse ch ty s) (hD : DelaysOk s)
    (hpre : ∀ c ∈ pre, cchan c ≠ some ch) (hpost : ∀ c ∈ post, cchan c ≠ some ch)
    (hq : (runCommands (preCommands s now pkts) now pre).1.queriers.find? (·.1 == ty) = some (ty, ch)) :
    ∃ a b, (iter s now pkts (pre ++ .stopBrowse ty :: post)).2 = a ++ Out.event ch (.stopped ty) :: b ∧
      (∀ e, Out.event ch e ∉ b) ∧
      ChanFree ch (iter s now pkts (pre ++ .stopBrowse ty :: post)).1 ∧
      DelaysOk (iter s now pkts (pre ++ .stopBrowse ty :: post)).1 := by
  obtain ⟨h1, hD1⟩ := SInv.preCommands ho now pkts hD (fun x hx => by cases hx)
  have hckey : ∀ l : List Command, (∀ c ∈ l, cchan c ≠ some ch) →
      ∀ c ∈ l, ∀ y, ckey c = some y → y.2.2 = ch → y = (0, ty, ch) := by
    intro l hl c hcm y hy he
    have := hl c hcm
    cases c <;> simp [ckey] at hy <;> simp [cchan] at this <;> (subst hy; simp at he; exact absurd he this)
  have ht := SInv.tail h1 now pre hD1
    (fun ty' ch' co h he => by
      have := hpre _ h
      simp only [cchan] at this
      exact absurd (by simp only at he; exact congrArg some he) this)
    (fun h ch' t dl hm => by have := hpre _ hm; simpa [cchan] using this)
    (fun x hx => by cases hx) (hckey pre hpre)
  have hst := step_runCommands (now := now) (cmds := pre) (KeyOK := fun _ => True) (OK := fun _ => True) trivial pre
    (preCommands s now pkts) (fun _ h => h) (fun _ _ _ _ => trivial) (fun _ _ => trivial)
  have hD2 := delayOk_of_step hst hD1
  obtain ⟨s1, _, s3, s4⟩ := stopBrowse_spec (runCommands (preCommands s now pkts) now pre).1 ty ch hq
  have hf := s3 ht.1
  have hD3 : DelaysOk (execStopBrowse (runCommands (preCommands s now pkts) now pre).1 ty).1 :=
    fun r hr => hD2 r (s4 r hr)
  obtain ⟨t1, t2, t3⟩ := chanFree_tail ch _ now post hf hD3 hpost
  have hsplit := iter_split s now pkts pre (.stopBrowse ty) post
  refine ⟨((ingress s now pkts).2 ++ (runTimeouts (popTimers (ingress s now pkts).1 now) now).2 ++
    (runCommands (preCommands s now pkts) now pre).2),
    tailOuts (execCommand (runCommands (preCommands s now pkts) now pre).1 now (.stopBrowse ty)).1 now post, ?_, ?_, ?_, ?_⟩
  · rw [hsplit.2]
    show _ ++ (execStopBrowse (runCommands (preCommands s now pkts) now pre).1 ty).2 ++ _ = _
    rw [s1]
    simp only [List.append_assoc, List.cons_append, List.nil_append]
  · exact t1
  · rw [hsplit.1]
    exact t2
  · rw [hsplit.1]
    exact t3

/-- **`stop_resolve_hostname` really stops (the iteration of the stop)**, in whatever letter
    case the name is given -/
theorem stop_resolve_final (ch : Nat) (host : BList) (dl : Option Nat) (s : State) (now : Nat) (pkts : List Packet)
    (pre post : List Command) (ho : OnlyHost ch (lower host) s) (hD : DelaysOk s)
    (hpre : ∀ c ∈ pre, cchan c ≠ some ch) (hpost : ∀ c ∈ post, cchan c ≠ some ch)
    (hq : (runCommands (preCommands s now pkts) now pre).1.resolvers.find? (·.1 == lower host) =
      some (lower host, ch, dl)) :
    ∃ a b, (iter s now pkts (pre ++ .stopResolve host :: post)).2 = a ++ Out.event ch (.hstopped (lower host)) :: b ∧
      (∀ e, Out.event ch e ∉ b) ∧
      ChanFree ch (iter s now pkts (pre ++ .stopResolve host :: post)).1 ∧
      DelaysOk (iter s now pkts (pre ++ .stopResolve host :: post)).1 := by
  obtain ⟨h1, hD1⟩ := SInv.preCommands ho now pkts hD (fun x hx => by cases hx)
  have ht := SInv.tail h1 now pre hD1
    (fun ty' ch' co h => by have := hpre _ h; simpa [cchan] using this)
    (fun h ch' t dl' hm he => by
      have := hpre _ hm
      simp only [cchan] at this
      exact absurd (by simp only at he; exact congrArg some he) this)
    (fun x hx => by cases hx)
    (by
      intro c hcm y hy he
      have := hpre c hcm
      cases c <;> simp [ckey] at hy <;> simp [cchan] at this <;> (subst hy; simp at he; exact absurd he this))
  have hst := step_runCommands (now := now) (cmds := pre) (KeyOK := fun _ => True) (OK := fun _ => True) trivial pre
    (preCommands s now pkts) (fun _ h => h) (fun _ _ _ _ => trivial) (fun _ _ => trivial)
  have hD2 := delayOk_of_step hst hD1
  obtain ⟨s1, _, s3, s4, _⟩ := stopResolve_spec (runCommands (preCommands s now pkts) now pre).1 host ch dl hq
  have hf := s3 ht.1
  have hD3 : DelaysOk (execStopResolve (runCommands (preCommands s now pkts) now pre).1 host).1 :=
    fun r hr => hD2 r (s4 r hr)
  obtain ⟨t1, t2, t3⟩ := chanFree_tail ch _ now post hf hD3 hpost
  have hsplit := iter_split s now pkts pre (.stopResolve host) post
  refine ⟨((ingress s now pkts).2 ++ (runTimeouts (popTimers (ingress s now pkts).1 now) now).2 ++
    (runCommands (preCommands s now pkts) now pre).2),
    tailOuts (execCommand (runCommands (preCommands s now pkts) now pre).1 now (.stopResolve host)).1 now post,
    ?_, ?_, ?_, ?_⟩
  · rw [hsplit.2]
    show _ ++ (execStopResolve (runCommands (preCommands s now pkts) now pre).1 host).2 ++ _ = _
    rw [s1]
    simp only [List.append_assoc, List.cons_append, List.nil_append]
  · exact t1
  · rw [hsplit.1]
    exact t2
  · rw [hsplit.1]
    exact t3

/-! #### no query caused by a stopped search -/

/-- **No PTR query for a type that is not browsed**, in any later history: once nothing is
    browsed or queued for `ty` (`BrowseGone`, as `stop_browse` leaves it: `stop_browse_gone`), no
    iteration - whenever it runs, whatever arrives, whatever other searches do - asks
    `[(ty, PTR)]`, until `browse(ty)` is called again. -/
theorem no_ptr_query_after_stop (ty : BList) : ∀ (h : List (Nat × List Packet × List Command)) (s : State),
    BrowseGone ty s → DelaysOk s → (∀ it ∈ h, ∀ ch co, Command.browse ty ch co ∉ it.2.2) →
    (∀ t known, (t, Out.query [(ty, 12)] known) ∉ (run s h).2) ∧ BrowseGone ty (run s h).1 ∧ DelaysOk (run s h).1
  | [], s, hf, hD, _ => ⟨fun _ _ hm => (by cases hm), hf, hD⟩
  | (now, pkts, cmds) :: rest, s, hf, hD, hc => by
    obtain ⟨h1, h2, h3⟩ := browseGone_iter ty s now pkts cmds hf hD (hc _ List.mem_cons_self)
    obtain ⟨h4, h5, h6⟩ := no_ptr_query_after_stop ty rest _ h2 h3 (fun it hit => hc it (List.mem_cons_of_mem _ hit))
    simp only [run]
    refine ⟨?_, h5, h6⟩
    intro t known hm
    rcases List.mem_append.mp hm with hm | hm
    · obtain ⟨o, ho, he⟩ := List.mem_map.mp hm
      cases he
      exact h1 known ho
    · exact h4 t known hm

/-- `stop_browse(ty)` on a running browse leaves nothing browsed or queued for `ty` at the end of
    its iteration (no `browse(ty)` after it in that iteration), and the rest of the iteration
    asks no PTR question for `ty` -/
theorem stop_browse_gone (ty : BList) (ch : Nat) (s : State) (now : Nat) (pkts : List Packet) (pre post : List Command)
    (hD : DelaysOk s) (hpost : ∀ ch' co, Command.browse ty ch' co ∉ post)
    (hq : (runCommands (preCommands s now pkts) now pre).1.queriers.find? (·.1 == ty) = some (ty, ch)) :
    (∀ known, Out.query [(ty, 12)] known ∉
      tailOuts (execCommand (runCommands (preCommands s now pkts) now pre).1 now (.stopBrowse ty)).1 now post) ∧
    BrowseGone ty (iter s now pkts (pre ++ .stopBrowse ty :: post)).1 ∧
    DelaysOk (iter s now pkts (pre ++ .stopBrowse ty :: post)).1 := by
  have hing := step_ingress (now := now) (cmds := []) (KeyOK := fun k => k = none) (OK := fun _ => True) rfl pkts s
    (fun _ _ => trivial)
  have hD1 : DelaysOk (preCommands s now pkts) := fun r hr => delayOk_of_step hing hD r hr
  have hst := step_runCommands (now := now) (cmds := pre) (KeyOK := fun _ => True) (OK := fun _ => True) trivial pre
    (preCommands s now pkts) (fun _ h => h) (fun _ _ _ _ => trivial) (fun _ _ => trivial)
  have hD2 := delayOk_of_step hst hD1
  obtain ⟨_, s2, _, s4⟩ := stopBrowse_spec (runCommands (preCommands s now pkts) now pre).1 ty ch hq
  have hD3 : DelaysOk (execStopBrowse (runCommands (preCommands s now pkts) now pre).1 ty).1 :=
    fun r hr => hD2 r (s4 r hr)
  obtain ⟨t1, t2, t3⟩ := browseGone_tail ty _ now post s2 hD3 hpost
  rw [(iter_split s now pkts pre (.stopBrowse ty) post).1]
  exact ⟨t1, t2, t3⟩

/-- **No address query for a host name that is not searched**, in any later history, for a
    daemon that browses nothing (as the monitor assumes: with a browse, A / AAAA questions for
    the host of a browsed service are legitimate): once no hostname search for `key` is open
    or queued (`HostGone`, as `stop_resolve_hostname` leaves it), no iteration asks A + AAAA for
    a name that lower-cases to `key`, nor a single A / AAAA question for `key`, until
    `resolve_hostname` is called for that name again (in any letter case). -/
theorem no_host_query_after_stop (key : BList) : ∀ (h : List (Nat × List Packet × List Command)) (s : State),
    HostGone key s → NoBrowseWork s → DelaysOk s →
    (∀ it ∈ h, (∀ h0 ch t, Command.resolveHost h0 ch t ∈ it.2.2 → lower h0 ≠ key) ∧
      it.2.2.all (fun c => !isBrowseCommand c) = true) →
    (∀ t o, (t, o) ∈ (run s h).2 → asksHost key o = false) ∧ HostGone key (run s h).1
  | [], s, hf, _, _, _ => ⟨fun _ _ hm => (by cases hm), hf⟩
  | (now, pkts, cmds) :: rest, s, hf, hw, hD, hc => by
    have hc0 := hc _ List.mem_cons_self
    obtain ⟨h1, h2, h3, h4⟩ := hostGone_iter key s now pkts cmds hf hw hD hc0.1 hc0.2
    obtain ⟨h5, h6⟩ := no_host_query_after_stop key rest _ h2 h3 h4 (fun it hit => hc it (List.mem_cons_of_mem _ hit))
    simp only [run]
    refine ⟨?_, h6⟩
    intro t o hm
    rcases List.mem_append.mp hm with hm | hm
    · obtain ⟨o', ho, he⟩ := List.mem_map.mp hm
      simp only [Prod.mk.injEq] at he
      exact he.2 ▸ h1 o' ho
    · exact h5 t o hm

/-! #### a cache-only browse causes no query (the statement D23 violated) -/

/-- **No PTR query for a cache-only type, one iteration - every state, every input.**  Take ANY
    state in which `ty` is browsed cache-only with no browse retransmission queued
    (`CacheOnlyQuiet`, as `browse_cache(ty)` leaves it: `browse_cache_quiet`) and ANY iteration -
    whenever it runs, whatever datagrams it reads (records of the type reaching their 80-95 %
    refresh marks included: the defect D23), whatever other searches are started, stopped or
    time out - whose commands neither browse nor stop `ty`: it asks no `[(ty, PTR)]`, and `ty`
    is as quiet afterwards. -/
theorem cache_only_iteration_quiet (ty : BList) (s : State) (now : Nat) (pkts : List Packet) (cmds : List Command)
    (hf : CacheOnlyQuiet ty s) (hD : DelaysOk s) (hc : ∀ ch co, Command.browse ty ch co ∉ cmds)
    (hs : Command.stopBrowse ty ∉ cmds) :
    (∀ known, Out.query [(ty, 12)] known ∉ (iter s now pkts cmds).2) ∧ CacheOnlyQuiet ty (iter s now pkts cmds).1 ∧
    DelaysOk (iter s now pkts cmds).1 :=
  cacheOnlyQuiet_iter ty s now pkts cmds hf hD hc hs

/-- **No PTR query for a type that is browsed cache-only**, in any later history: until
    `browse(ty)`, `browse_cache(ty)` or `stop_browse(ty)` is called, no iteration asks `[(ty, PTR)]`.
    (After a `browse_cache(ty)` the statement starts over - `browse_cache_quiet` -, after a
    `stop_browse(ty)` `no_ptr_query_after_stop` takes over.) -/
theorem no_ptr_query_while_cache_only (ty : BList) : ∀ (h : List (Nat × List Packet × List Command)) (s : State),
    CacheOnlyQuiet ty s → DelaysOk s →
    (∀ it ∈ h, (∀ ch co, Command.browse ty ch co ∉ it.2.2) ∧ Command.stopBrowse ty ∉ it.2.2) →
    (∀ t known, (t, Out.query [(ty, 12)] known) ∉ (run s h).2) ∧ CacheOnlyQuiet ty (run s h).1 ∧ DelaysOk (run s h).1
  | [], s, hf, hD, _ => ⟨fun _ _ hm => (by cases hm), hf, hD⟩
  | (now, pkts, cmds) :: rest, s, hf, hD, hc => by
    have hc0 := hc _ List.mem_cons_self
    obtain ⟨h1, h2, h3⟩ := cacheOnlyQuiet_iter ty s now pkts cmds hf hD hc0.1 hc0.2
    obtain ⟨h4, h5, h6⟩ := no_ptr_query_while_cache_only ty rest _ h2 h3 (fun it hit => hc it (List.mem_cons_of_mem _ hit))
    simp only [run]
    refine ⟨?_, h5, h6⟩
    intro t known hm
    rcases List.mem_append.mp hm with hm | hm
    · obtain ⟨o, ho, he⟩ := List.mem_map.mp hm
      cases he
      exact h1 known ho
    · exact h4 t known hm

/-- **`browse_cache(ty)`** in any state, anywhere among the commands of an iteration (no `browse` /
    `stop_browse` of `ty` after it in that iteration): the command itself emits events on its
    channel only - no query -, the rest of the iteration asks no PTR question for `ty`, and at
    the end of the iteration `ty` is cache-only with nothing queued for it - also when `ty` was
    browsed with `browse` before: the new search replaces the old one and its retransmission. -/
theorem browse_cache_quiet (ty : BList) (ch : Nat) (s : State) (now : Nat) (pkts : List Packet) (pre post : List Command)
    (hD : DelaysOk s) (hpost : ∀ ch' co, Command.browse ty ch' co ∉ post) (hstop : Command.stopBrowse ty ∉ post) :
    (∀ o ∈ (execCommand (runCommands (preCommands s now pkts) now pre).1 now (.browse ty ch true)).2,
      ∃ e, o = Out.event ch e) ∧
    (∀ known, Out.query [(ty, 12)] known ∉
      tailOuts (execCommand (runCommands (preCommands s now pkts) now pre).1 now (.browse ty ch true)).1 now post) ∧
    CacheOnlyQuiet ty (iter s now pkts (pre ++ .browse ty ch true :: post)).1 ∧
    DelaysOk (iter s now pkts (pre ++ .browse ty ch true :: post)).1 := by
  have hing := step_ingress (now := now) (cmds := []) (KeyOK := fun k => k = none) (OK := fun _ => True) rfl pkts s
    (fun _ _ => trivial)
  have hD1 : DelaysOk (preCommands s now pkts) := fun r hr => delayOk_of_step hing hD r hr
  have hst := step_runCommands (now := now) (cmds := pre) (KeyOK := fun _ => True) (OK := fun _ => True) trivial pre
    (preCommands s now pkts) (fun _ h => h) (fun _ _ _ _ => trivial) (fun _ _ => trivial)
  have hD2 := delayOk_of_step hst hD1
  obtain ⟨s1, s2, s3⟩ := browseCache_spec (runCommands (preCommands s now pkts) now pre).1 now ty ch
  have hD3 : DelaysOk (execCommand (runCommands (preCommands s now pkts) now pre).1 now (.browse ty ch true)).1 := by
    intro r hr
    rcases s3 r hr with h | h
    · exact hD2 r h
    · exact h
  obtain ⟨t1, t2, t3⟩ := cacheOnlyQuiet_tail ty _ now post s2 hD3 hpost hstop
  rw [(iter_split s now pkts pre (.browse ty ch true) post).1]
  exact ⟨s1, t1, t2, t3⟩

/-- **The refresh works for actively browsed types only - every state.**  Every query that
    `refresh_active_services` sends at `now` is one of the refresh queries of ONE type
    (`refreshType`: the PTR question for the type, the SRV / TXT questions for instances with a
    PTR under it, A + AAAA for the hosts of those instances) - a type that is browsed and NOT
    cache-only.  Before the repair of D23 every browsed type had its refresh queries, the
    cache-only ones included. -/
theorem refresh_only_for_active (s : State) (now : Nat) (o : Out) (ho : o ∈ (refreshActive s now).2) :
    ∃ ty c, (∃ q ∈ s.queriers, q.1 = ty) ∧ ty ∉ s.cacheOnly ∧ o ∈ (refreshType c now ty).2.1 := by
  obtain ⟨ty, hty, c, hc⟩ := mem_refreshTypes now o _ _ ho
  obtain ⟨h1, h2⟩ := (mem_activeTypes s ty).mp hty
  exact ⟨ty, c, h2, h1, hc⟩

/-- ... so a daemon whose browses are all cache-only sends NOTHING in the refresh phase - no PTR
    question for a type, no SRV / TXT question for an instance, no A / AAAA question for a host -
    and leaves the refresh marks of the cache alone -/
theorem cache_only_refresh_silent (s : State) (now : Nat) (h : ∀ q ∈ s.queriers, q.1 ∈ s.cacheOnly) :
    (refreshActive s now).2 = [] ∧ (refreshActive s now).1 = s := by
  have ha : activeTypes s = [] := by
    simp only [activeTypes, List.filter_eq_nil_iff, List.mem_map, Bool.not_eq_true', Bool.not_eq_false,
      List.contains_eq_mem, decide_eq_true_eq]
    rintro ty ⟨q, hq, rfl⟩
    exact h q hq
  simp only [refreshActive, ha, refreshTypes, List.eraseDups_nil, addTimers, List.nil_append, and_self]

/-! #### a daemon that only browses cache-only sends no query at all (D23 and D23b) -/

/-- **A cache-only daemon is silent - one iteration, every state, every input.**  Take ANY state
    in which every browse is cache-only, no hostname search is open and no re-run is queued
    (`CacheOnlyDaemon`: no retransmission, no follow-up `Resolve`, no `verify` resend; the fresh
    daemon is such a state, `cache_only_daemon_init`), and ANY iteration - whenever it runs,
    whatever datagrams it reads: PTR records without their SRV or address (the follow-up queries
    of D23b), records reaching their refresh marks (D23), goodbyes, expiries - whose commands are
    `browse_cache`, `stop_browse`, `stop_resolve_hostname`, `get_metrics` or options
    (`quietCommand`: no `browse`, no `resolve_hostname`, no `verify`).  The iteration sends NO
    query of any shape, and the state afterwards is again such a state.
    NOT claimed: anything about a daemon in which some type is browsed actively - there an
    instance that a cache-only browse also sees is followed up and refreshed on behalf of the
    active browse (e.g. reached through another PTR name), and `refresh_only_for_active`,
    `no_ptr_query_while_cache_only` are what holds per type. -/
theorem cache_only_daemon_silent (s : State) (now : Nat) (pkts : List Packet) (cmds : List Command)
    (h : CacheOnlyDaemon s) (hc : cmds.all quietCommand = true) :
    (∀ qs known, Out.query qs known ∉ (iter s now pkts cmds).2) ∧ CacheOnlyDaemon (iter s now pkts cmds).1 :=
  cacheOnlyDaemon_iter s now pkts cmds h hc

/-- ... and over any history of such iterations -/
theorem cache_only_daemon_silent_run : ∀ (h : List (Nat × List Packet × List Command)) (s : State),
    CacheOnlyDaemon s → (∀ it ∈ h, it.2.2.all quietCommand = true) →
    (∀ t qs known, (t, Out.query qs known) ∉ (run s h).2) ∧ CacheOnlyDaemon (run s h).1
  | [], s, hs, _ => ⟨fun _ _ _ hm => (by cases hm), hs⟩
  | (now, pkts, cmds) :: rest, s, hs, hc => by
    obtain ⟨h1, h2⟩ := cacheOnlyDaemon_iter s now pkts cmds hs (hc _ List.mem_cons_self)
    obtain ⟨h3, h4⟩ := cache_only_daemon_silent_run rest _ h2 (fun it hit => hc it (List.mem_cons_of_mem _ hit))
    simp only [run]
    refine ⟨?_, h4⟩
    intro t qs known hm
    rcases List.mem_append.mp hm with hm | hm
    · obtain ⟨o, ho, he⟩ := List.mem_map.mp hm
      cases he
      exact h1 qs known ho
    · exact h3 t qs known hm

/-- the fresh daemon is a cache-only daemon (it browses nothing yet) -/
theorem cache_only_daemon_init (t0 : Nat) (intfs : List Intf) : CacheOnlyDaemon (init t0 intfs) :=
  ⟨fun _ h => (by cases h), rfl, rfl⟩

/-- **"A cache-only browse never sends a query", whole histories.**  Start the daemon and run ANY
    history - any times, any datagrams - in which the application only calls `browse_cache`,
    `stop_browse`, `stop_resolve_hostname`, `get_metrics` and the options: the daemon never sends
    a query. -/
theorem cache_only_history_silent (t0 : Nat) (intfs : List Intf) (h : List (Nat × List Packet × List Command))
    (hc : ∀ it ∈ h, it.2.2.all quietCommand = true) :
    ∀ t qs known, (t, Out.query qs known) ∉ (run (init t0 intfs) h).2 :=
  (cache_only_daemon_silent_run h _ (cache_only_daemon_init t0 intfs) hc).1

/-- the delays are fine after every history from the start of the daemon -/
theorem delays_ok_run (t0 : Nat) (intfs : List Intf) (h : List (Nat × List Packet × List Command)) :
    DelaysOk (run (init t0 intfs) h).1 := by
  have : ∀ (h : List (Nat × List Packet × List Command)) (hist : List Delivery) (s : State), CacheProv hist s.cache →
      DelaysOk s → DelaysOk (run s h).1 := by
    intro h
    induction h with
    | nil => intro _ _ _ hD; exact hD
    | cons it rest ih =>
      intro hist s hc hD
      obtain ⟨now, pkts, cmds⟩ := it
      simp only [run]
      exact ih _ _ (ok_iter hist s now pkts cmds hc).1 (delayOk_iter hist s now pkts cmds hc hD)
  exact this h [] _ (cacheProv_empty []) (fun _ hr => by cases hr)

/-! #### the life of a channel over a whole history -/

theorem running_after_browse (ty : BList) (ch : Nat) (co : Bool) (s : State) (now : Nat) :
    Running ty ch (execCommand s now (.browse ty ch co)).1 := by
  unfold Running
  have hq : (execCommand s now (.browse ty ch co)).1.queriers = (ty, ch) :: s.queriers.filter (fun q => q.1 != ty) := by
    simp only [execCommand, execBrowse, Bool.false_eq_true, if_false]
    split <;> simp only [addRerun_queriers, queryCacheForService, addPendings_queriers, markResolved_queriers]
  rw [hq]
  simp

theorem searching_after_resolve (host : BList) (ch : Nat) (t : Option Nat) (s : State) (now : Nat) :
    Searching (lower host) ch (t.map (now + ·)) (execCommand s now (.resolveHost host ch t)).1 := by
  unfold Searching
  show (execResolveHost s now false host 1 ch t).1.resolvers.find? _ = _
  rw [execResolveHost_new_resolvers]
  simp

theorem running_run (ty : BList) (ch : Nat) : ∀ (h : List (Nat × List Packet × List Command)) (s : State),
    (∀ it ∈ h, it.2.2.all (fun c => !touchesType ty c) = true) → Running ty ch s → Running ty ch (run s h).1
  | [], _, _, hr => hr
  | (now, pkts, cmds) :: rest, s, hc, hr => by
    simp only [run]
    exact running_run ty ch rest _ (fun it hit => hc it (List.mem_cons_of_mem _ hit))
      (running_iter ty ch s now pkts cmds (hc _ List.mem_cons_self) hr)

theorem onlyBrowse_run (ch : Nat) (ty : BList) : ∀ (h : List (Nat × List Packet × List Command)) (s : State),
    OnlyBrowse ch ty s → DelaysOk s → (∀ it ∈ h, ∀ c ∈ it.2.2, cchan c ≠ some ch) →
    OnlyBrowse ch ty (run s h).1 ∧ DelaysOk (run s h).1
  | [], _, ho, hD, _ => ⟨ho, hD⟩
  | (now, pkts, cmds) :: rest, s, ho, hD, hc => by
    obtain ⟨h1, h2⟩ := onlyBrowse_iter ch ty s now pkts cmds ho hD (hc _ List.mem_cons_self)
    simp only [run]
    exact onlyBrowse_run ch ty rest _ h1 h2 (fun it hit => hc it (List.mem_cons_of_mem _ hit))

theorem searching_run (key : BList) (ch : Nat) (dl : Option Nat) : ∀ (h : List (Nat × List Packet × List Command)) (s : State),
    (∀ it ∈ h, it.2.2.all (fun c => !touchesHost key c) = true ∧ ∀ t, dl = some t → it.1 < t) →
    Searching key ch dl s → Searching key ch dl (run s h).1
  | [], _, _, hr => hr
  | (now, pkts, cmds) :: rest, s, hc, hr => by
    simp only [run]
    exact searching_run key ch dl rest _ (fun it hit => hc it (List.mem_cons_of_mem _ hit))
      (searching_iter key ch dl s now pkts cmds (hc _ List.mem_cons_self).1 (hc _ List.mem_cons_self).2 hr)

theorem onlyHost_run (ch : Nat) (key : BList) : ∀ (h : List (Nat × List Packet × List Command)) (s : State),
    OnlyHost ch key s → DelaysOk s → (∀ it ∈ h, ∀ c ∈ it.2.2, cchan c ≠ some ch) →
    OnlyHost ch key (run s h).1 ∧ DelaysOk (run s h).1
  | [], _, ho, hD, _ => ⟨ho, hD⟩
  | (now, pkts, cmds) :: rest, s, ho, hD, hc => by
    obtain ⟨h1, h2⟩ := onlyHost_iter ch key s now pkts cmds ho hD (hc _ List.mem_cons_self)
    simp only [run]
    exact onlyHost_run ch key rest _ h1 h2 (fun it hit => hc it (List.mem_cons_of_mem _ hit))

/-- **The life of a browse channel, over a whole history from the start of the daemon.**
    `h1`: any history that never mentions `ch`.  Then an iteration whose commands are
    `pre1 ++ browse(ty) on ch :: post1`.  `h2`: any history.  Then an iteration whose commands are
    `pre2 ++ stop_browse(ty) :: post2`.  `h3`: any history.  No other command mentions `ch`, and
    between the browse and the stop no command browses or stops `ty` again (the browse is the
    one that is stopped).  Then, on channel `ch`:
    1. nothing during `h1`;
    2. in the iteration of the browse the first event is `SearchStarted`;
    3. in the iteration of the stop, `SearchStopped(ty)` is emitted and nothing after it;
    4. nothing during `h3` - however long, whatever arrives. -/
theorem browse_channel_lifecycle (t0 : Nat) (intfs : List Intf) (ch : Nat) (ty : BList) (co : Bool)
    (h1 h2 h3 : List (Nat × List Packet × List Command)) (t1 t2 : Nat) (p1 p2 : List Packet)
    (pre1 post1 pre2 post2 : List Command)
    (hc1 : ∀ it ∈ h1, ∀ c ∈ it.2.2, cchan c ≠ some ch) (hpre1 : ∀ c ∈ pre1, cchan c ≠ some ch)
    (hpost1 : ∀ c ∈ post1, cchan c ≠ some ch) (hc2 : ∀ it ∈ h2, ∀ c ∈ it.2.2, cchan c ≠ some ch)
    (hpre2 : ∀ c ∈ pre2, cchan c ≠ some ch) (hpost2 : ∀ c ∈ post2, cchan c ≠ some ch)
    (hc3 : ∀ it ∈ h3, ∀ c ∈ it.2.2, cchan c ≠ some ch)
    (hk1 : post1.all (fun c => !touchesType ty c) = true)
    (hk2 : ∀ it ∈ h2, it.2.2.all (fun c => !touchesType ty c) = true)
    (hk3 : pre2.all (fun c => !touchesType ty c) = true) :
    let s1 := (run (init t0 intfs) h1).1
    let s2 := (iter s1 t1 p1 (pre1 ++ .browse ty ch co :: post1)).1
    let s3 := (run s2 h2).1
    let s4 := (iter s3 t2 p2 (pre2 ++ .stopBrowse ty :: post2)).1
    (∀ t e, (t, Out.event ch e) ∉ (run (init t0 intfs) h1).2) ∧
    (∃ a b, (iter s1 t1 p1 (pre1 ++ .browse ty ch co :: post1)).2 = a ++ Out.event ch .started :: b ∧
      ∀ e, Out.event ch e ∉ a) ∧
    (∃ a b, (iter s3 t2 p2 (pre2 ++ .stopBrowse ty :: post2)).2 = a ++ Out.event ch (.stopped ty) :: b ∧
      ∀ e, Out.event ch e ∉ b) ∧
    (∀ t e, (t, Out.event ch e) ∉ (run s4 h3).2) := by
  intro s1 s2 s3 s4
  obtain ⟨hf0, hD0⟩ := chanFree_init ch t0 intfs
  obtain ⟨q1, hf1, hD1⟩ := silent_for_ever ch h1 _ hf0 hD0 hc1
  have hstart := first_event_started_browse ch s1 t1 p1 pre1 ty co post1 hf1 hD1 hpre1
  obtain ⟨ho2, hD2⟩ := browse_owns_channel ch s1 t1 p1 pre1 ty co post1 hf1 hD1 hpre1 hpost1
  have hr2 : Running ty ch s2 := by
    show Running ty ch (iter s1 t1 p1 (pre1 ++ .browse ty ch co :: post1)).1
    rw [(iter_split s1 t1 p1 pre1 (.browse ty ch co) post1).1]
    exact running_tail ty ch _ t1 post1 hk1 (running_after_browse ty ch co _ t1)
  obtain ⟨ho3, hD3⟩ := onlyBrowse_run ch ty h2 s2 ho2 hD2 hc2
  have hr3 : Running ty ch s3 := running_run ty ch h2 s2 hk2 hr2
  have hq : (runCommands (preCommands s3 t2 p2) t2 pre2).1.queriers.find? (·.1 == ty) = some (ty, ch) := by
    apply running_runCommands ty ch t2 pre2 _ hk3
    unfold Running
    rw [preCommands_queriers]
    exact hr3
  obtain ⟨a, b, hab, hb, hf4, hD4⟩ := stop_browse_final ch ty s3 t2 p2 pre2 post2 ho3 hD3 hpre2 hpost2 hq
  exact ⟨q1, hstart, ⟨a, b, hab, hb⟩, (silent_for_ever ch h3 s4 hf4 hD4 hc3).1⟩

/-- **The life of a hostname-search channel that is stopped by `stop_resolve_hostname`**, over a
    whole history: as `browse_channel_lifecycle`, with the host name given in any letter case at
    the start (`host1`) and at the stop (`host2`, `lower host2 = lower host1`), and no time-out
    reached before the stop. -/
theorem resolve_channel_lifecycle (t0 : Nat) (intfs : List Intf) (ch : Nat) (host1 host2 : BList) (to : Option Nat)
    (h1 h2 h3 : List (Nat × List Packet × List Command)) (t1 t2 : Nat) (p1 p2 : List Packet)
    (pre1 post1 pre2 post2 : List Command) (hcase : lower host2 = lower host1)
    (hc1 : ∀ it ∈ h1, ∀ c ∈ it.2.2, cchan c ≠ some ch) (hpre1 : ∀ c ∈ pre1, cchan c ≠ some ch)
    (hpost1 : ∀ c ∈ post1, cchan c ≠ some ch) (hc2 : ∀ it ∈ h2, ∀ c ∈ it.2.2, cchan c ≠ some ch)
    (hpre2 : ∀ c ∈ pre2, cchan c ≠ some ch) (hpost2 : ∀ c ∈ post2, cchan c ≠ some ch)
    (hc3 : ∀ it ∈ h3, ∀ c ∈ it.2.2, cchan c ≠ some ch)
    (hk1 : post1.all (fun c => !touchesHost (lower host1) c) = true)
    (hk2 : ∀ it ∈ h2, it.2.2.all (fun c => !touchesHost (lower host1) c) = true ∧ ∀ t, to = some t → it.1 < t1 + t)
    (hk3 : pre2.all (fun c => !touchesHost (lower host1) c) = true) (hdl : ∀ t, to = some t → t2 < t1 + t) :
    let s1 := (run (init t0 intfs) h1).1
    let s2 := (iter s1 t1 p1 (pre1 ++ .resolveHost host1 ch to :: post1)).1
    let s3 := (run s2 h2).1
    let s4 := (iter s3 t2 p2 (pre2 ++ .stopResolve host2 :: post2)).1
    (∀ t e, (t, Out.event ch e) ∉ (run (init t0 intfs) h1).2) ∧
    (∃ a b, (iter s1 t1 p1 (pre1 ++ .resolveHost host1 ch to :: post1)).2 = a ++ Out.event ch .hstarted :: b ∧
      ∀ e, Out.event ch e ∉ a) ∧
    (∃ a b, (iter s3 t2 p2 (pre2 ++ .stopResolve host2 :: post2)).2 =
        a ++ Out.event ch (.hstopped (lower host1)) :: b ∧ ∀ e, Out.event ch e ∉ b) ∧
    (∀ t e, (t, Out.event ch e) ∉ (run s4 h3).2) := by
  intro s1 s2 s3 s4
  obtain ⟨hf0, hD0⟩ := chanFree_init ch t0 intfs
  obtain ⟨q1, hf1, hD1⟩ := silent_for_ever ch h1 _ hf0 hD0 hc1
  have hstart := first_event_started_resolve ch s1 t1 p1 pre1 host1 to post1 hf1 hD1 hpre1
  obtain ⟨ho2, hD2⟩ := resolve_owns_channel ch s1 t1 p1 pre1 host1 to post1 hf1 hD1 hpre1 hpost1
  have hdl' : ∀ (now : Nat), (∀ t, to = some t → now < t1 + t) → ∀ t, to.map (t1 + ·) = some t → now < t := by
    intro now h t ht
    cases to with
    | none => simp at ht
    | some t' =>
      simp only [Option.map_some, Option.some.injEq] at ht
      exact ht ▸ h t' rfl
  have hr2 : Searching (lower host1) ch (to.map (t1 + ·)) s2 := by
    show Searching _ _ _ (iter s1 t1 p1 (pre1 ++ .resolveHost host1 ch to :: post1)).1
    rw [(iter_split s1 t1 p1 pre1 (.resolveHost host1 ch to) post1).1]
    exact searching_tail _ ch _ _ t1 post1 hk1 (searching_after_resolve host1 ch to _ t1)
  obtain ⟨ho3, hD3⟩ := onlyHost_run ch (lower host1) h2 s2 ho2 hD2 hc2
  have hr3 : Searching (lower host1) ch (to.map (t1 + ·)) s3 :=
    searching_run _ ch _ h2 s2 (fun it hit => ⟨(hk2 it hit).1, hdl' it.1 (hk2 it hit).2⟩) hr2
  have hq : (runCommands (preCommands s3 t2 p2) t2 pre2).1.resolvers.find? (·.1 == lower host2) =
      some (lower host2, ch, to.map (t1 + ·)) := by
    rw [hcase]
    exact searching_runCommands _ ch _ t2 pre2 _ hk3 (searching_preCommands _ ch _ s3 t2 p2 (hdl' t2 hdl) hr3)
  obtain ⟨a, b, hab, hb, hf4, hD4⟩ := stop_resolve_final ch host2 _ s3 t2 p2 pre2 post2 (hcase ▸ ho3) hD3 hpre2 hpost2 hq
  rw [hcase] at hab
  exact ⟨q1, hstart, ⟨a, b, hab, hb⟩, (silent_for_ever ch h3 s4 hf4 hD4 hc3).1⟩

/-! #### the time-out case -/

/-- **A stale channel stays silent for ever**: after the time-out of a hostname search (see
    `timeout_ends_for_good`) the only thing that may still refer to `ch` is the queued
    retransmission of the ended search; it is inert (it does nothing while no search for the
    name is open, and a new search for the name - in any letter case, on any channel - purges
    it).  No later iteration emits anything on `ch`, whatever arrives and whatever other searches
    do, until a command gives `ch` to a new search. -/
theorem stale_silent_for_ever (ch : Nat) (key : BList) : ∀ (h : List (Nat × List Packet × List Command)) (s : State),
    Stale ch key s → (∀ it ∈ h, ∀ c ∈ it.2.2, cchan c ≠ some ch) →
    (∀ t e, (t, Out.event ch e) ∉ (run s h).2) ∧ Stale ch key (run s h).1
  | [], s, hs, _ => ⟨fun _ _ hm => (by cases hm), hs⟩
  | (now, pkts, cmds) :: rest, s, hs, hc => by
    obtain ⟨h1, h2⟩ := stale_iter ch key s now pkts cmds hs (hc _ List.mem_cons_self)
    obtain ⟨h3, h4⟩ := stale_silent_for_ever ch key rest _ h2 (fun it hit => hc it (List.mem_cons_of_mem _ hit))
    simp only [run]
    refine ⟨?_, h4⟩
    intro t e hm
    rcases List.mem_append.mp hm with hm | hm
    · obtain ⟨o, ho, he⟩ := List.mem_map.mp hm
      cases he
      exact h1 e ho
    · exact h3 t e hm

/-- **The time-out ends the search for good (the iteration of the time-out).**  The hostname
    search for `key` is the only user of `ch` and is open with deadline `dl`; an iteration runs
    at `now ≥ dl` (its commands do not mention `ch`).  It emits `SearchTimeout` immediately
    followed by `SearchStopped` on `ch` and nothing on `ch` after that; afterwards the channel is
    stale (`stale_silent_for_ever`). -/
theorem timeout_ends_for_good (ch : Nat) (key : BList) (dl : Nat) (s : State) (now : Nat) (pkts : List Packet)
    (cmds : List Command) (ho : OnlyHost ch key s) (hD : DelaysOk s) (hs : Searching key ch (some dl) s)
    (hn : ResolverKeysNodup s) (hdue : dl ≤ now) (hc : ∀ c ∈ cmds, cchan c ≠ some ch) :
    ∃ a b, (iter s now pkts cmds).2 = a ++ Out.event ch (.htimeout key) :: Out.event ch (.hstopped key) :: b ∧
      (∀ e, Out.event ch e ∉ b) ∧ Stale ch key (iter s now pkts cmds).1 :=
  timeout_final ch key dl s now pkts cmds ho hD hs hn hdue hc

theorem resolverKeys_run : ∀ (h : List (Nat × List Packet × List Command)) (s : State), ResolverKeysNodup s →
    ResolverKeysNodup (run s h).1
  | [], _, hn => hn
  | (now, pkts, cmds) :: rest, s, hn => by
    simp only [run]
    exact resolverKeys_run rest _ (resolverKeys_iter s now pkts cmds hn)

/-- **The life of a hostname-search channel that ends by its time-out**, over a whole history
    from the start of the daemon.  `h1`: any history that never mentions `ch`.  Then an iteration
    at `t1` whose commands are `pre1 ++ resolve_hostname(host, timeout to) on ch :: post1`.  `h2`:
    any history whose iterations all run before the deadline `t1 + to`.  Then an iteration at
    `t2 ≥ t1 + to`.  `h3`: any history.  No other command mentions `ch`; before the deadline no
    command searches or stops the name again.  Then, on channel `ch`:
    1. nothing during `h1`;  2. in the iteration of the call the first event is `SearchStarted`;
    3. in the first iteration at or after the deadline, `SearchTimeout` then `SearchStopped` are
       emitted and nothing after them;  4. nothing during `h3`. -/
theorem timeout_channel_lifecycle (t0 : Nat) (intfs : List Intf) (ch : Nat) (host : BList) (to : Nat)
    (h1 h2 h3 : List (Nat × List Packet × List Command)) (t1 t2 : Nat) (p1 p2 : List Packet)
    (pre1 post1 cmds2 : List Command)
    (hc1 : ∀ it ∈ h1, ∀ c ∈ it.2.2, cchan c ≠ some ch) (hpre1 : ∀ c ∈ pre1, cchan c ≠ some ch)
    (hpost1 : ∀ c ∈ post1, cchan c ≠ some ch) (hc2 : ∀ it ∈ h2, ∀ c ∈ it.2.2, cchan c ≠ some ch)
    (hcmds2 : ∀ c ∈ cmds2, cchan c ≠ some ch) (hc3 : ∀ it ∈ h3, ∀ c ∈ it.2.2, cchan c ≠ some ch)
    (hk1 : post1.all (fun c => !touchesHost (lower host) c) = true)
    (hk2 : ∀ it ∈ h2, it.2.2.all (fun c => !touchesHost (lower host) c) = true ∧ it.1 < t1 + to)
    (hdue : t1 + to ≤ t2) :
    let s1 := (run (init t0 intfs) h1).1
    let s2 := (iter s1 t1 p1 (pre1 ++ .resolveHost host ch (some to) :: post1)).1
    let s3 := (run s2 h2).1
    let s4 := (iter s3 t2 p2 cmds2).1
    (∀ t e, (t, Out.event ch e) ∉ (run (init t0 intfs) h1).2) ∧
    (∃ a b, (iter s1 t1 p1 (pre1 ++ .resolveHost host ch (some to) :: post1)).2 = a ++ Out.event ch .hstarted :: b ∧
      ∀ e, Out.event ch e ∉ a) ∧
    (∃ a b, (iter s3 t2 p2 cmds2).2 =
        a ++ Out.event ch (.htimeout (lower host)) :: Out.event ch (.hstopped (lower host)) :: b ∧
      ∀ e, Out.event ch e ∉ b) ∧
    (∀ t e, (t, Out.event ch e) ∉ (run s4 h3).2) := by
  intro s1 s2 s3 s4
  obtain ⟨hf0, hD0⟩ := chanFree_init ch t0 intfs
  obtain ⟨q1, hf1, hD1⟩ := silent_for_ever ch h1 _ hf0 hD0 hc1
  have hstart := first_event_started_resolve ch s1 t1 p1 pre1 host (some to) post1 hf1 hD1 hpre1
  obtain ⟨ho2, hD2⟩ := resolve_owns_channel ch s1 t1 p1 pre1 host (some to) post1 hf1 hD1 hpre1 hpost1
  have hr2 : Searching (lower host) ch (some (t1 + to)) s2 := by
    show Searching _ _ _ (iter s1 t1 p1 (pre1 ++ .resolveHost host ch (some to) :: post1)).1
    rw [(iter_split s1 t1 p1 pre1 (.resolveHost host ch (some to)) post1).1]
    exact searching_tail _ ch _ _ t1 post1 hk1 (searching_after_resolve host ch (some to) _ t1)
  obtain ⟨ho3, hD3⟩ := onlyHost_run ch (lower host) h2 s2 ho2 hD2 hc2
  have hr3 : Searching (lower host) ch (some (t1 + to)) s3 :=
    searching_run _ ch _ h2 s2 (fun it hit => ⟨(hk2 it hit).1, fun t ht => by cases ht; exact (hk2 it hit).2⟩) hr2
  have hn3 : ResolverKeysNodup s3 := by
    apply resolverKeys_run
    apply resolverKeys_iter
    apply resolverKeys_run
    show ((init t0 intfs).resolvers.map (·.1)).Nodup
    exact List.nodup_nil
  obtain ⟨a, b, hab, hb, hst⟩ := timeout_final ch (lower host) (t1 + to) s3 t2 p2 cmds2 ho3 hD3 hr3 hn3 hdue hcmds2
  exact ⟨q1, hstart, ⟨a, b, hab, hb⟩, (stale_silent_for_ever ch (lower host) h3 s4 hst hc3).1⟩

/-! #### non-vacuity -/

/-- a browse with an announcement, its stop, and a long tail: the events on channel 1 are
    `SearchStarted` first (twice more with the retransmissions), found / resolved in between,
    `SearchStopped` last and once; no PTR query for the type after the stop.  Codes: 1 =
    `SearchStarted`, 2 = `ServiceFound`, 3 = `ServiceResolved`, 4 = `SearchStopped`, 9 = the PTR
    query for the type. -/
example :
    ((run (init 1000 [C03.eth0])
        [(1000, [], [.browse C03.ty 1 false]), (1500, [C03.announce], []), (2000, [], []),
         (2500, [], [.stopBrowse C03.ty]), (4000, [], []), (8000, [C03.announce], []), (100000, [], [])]).2.filterMap
        fun o => (match o.2 with
          | .event 1 .started => some (o.1, 1)
          | .event 1 (.found ..) => some (o.1, 2)
          | .event 1 (.resolved ..) => some (o.1, 3)
          | .event 1 (.stopped ..) => some (o.1, 4)
          | .event 1 _ => some (o.1, 0)
          | .query [(n, 12)] _ => if n == C03.ty then some (o.1, 9) else none
          | _ => none : Option (Nat × Nat))) =
      [(1000, 1), (1000, 9), (1500, 2), (1500, 3), (2000, 1), (2000, 9), (2500, 4)] := by decide

/-- a hostname search in mixed case, stopped in another letter case: `SearchStopped` is the last
    event on the channel, no address query for the name afterwards.  Codes: 1 = `SearchStarted`,
    4 = `SearchStopped`, 9 = a query the search causes (`asksHost`). -/
example :
    ((run (init 1000 [C03.eth0])
        [(1000, [], [.resolveHost [0x48, 0x2e] 7 none]), (2000, [], []), (2500, [], [.stopResolve [0x68, 0x2e]]),
         (4000, [], []), (8000, [], []), (100000, [], [])]).2.filterMap
        fun o => (match o.2 with
          | .event 7 .hstarted => some (o.1, 1)
          | .event 7 (.hstopped _) => some (o.1, 4)
          | .event 7 _ => some (o.1, 0)
          | q => if asksHost [0x68, 0x2e] q then some (o.1, 9) else none : Option (Nat × Nat))) =
      [(1000, 1), (1000, 9), (2000, 1), (2000, 9), (2500, 4)] := by decide

/-- a hostname search with a 3.5 s time-out that nobody answers, then the same name searched
    again on another channel: on channel 7 `SearchStarted` (1), `SearchTimeout` (3) then
    `SearchStopped` (4) at 4500, and nothing afterwards - the retransmission that stayed queued
    for 8000 does nothing and the new search on channel 8 does not wake the old channel -/
example :
    ((run (init 1000 [C03.eth0])
        [(1000, [], [.resolveHost [0x48, 0x2e] 7 (some 3500)]), (2000, [], []), (4000, [], []), (4500, [], []),
         (6000, [], [.resolveHost [0x68, 0x2e] 8 none]), (7000, [], []), (8000, [], []), (100000, [], [])]).2.filterMap
        fun o => (match o.2 with
          | .event 7 .hstarted => some (o.1, 1)
          | .event 7 (.htimeout _) => some (o.1, 3)
          | .event 7 (.hstopped _) => some (o.1, 4)
          | .event 7 _ => some (o.1, 0)
          | _ => none : Option (Nat × Nat))) =
      [(1000, 1), (2000, 1), (4000, 1), (4500, 3), (4500, 4)] := by decide

/-- the witness of D23 in small: `browse_cache` at 1000, the announcement (TTL 120 s) arrives
    unsolicited at 1500 and is reported; its records reach the 80 % mark at 97500 and the 85 %
    mark at 103500: the daemon sends no query at all in the whole history (before the repair:
    PTR, SRV + TXT and A + AAAA refresh queries at both marks) -/
example :
    ((run (init 1000 [C03.eth0])
        [(1000, [], [.browse C03.ty 1 true]), (1500, [C03.announce], []), (50000, [], []), (97500, [], []),
         (103500, [], [])]).2.filterMap
        fun o => (match o.2 with
          | .query qs _ => some (o.1, qs.map (·.2))
          | .event 1 (.found ..) => some (o.1, [0])
          | _ => none : Option (Nat × List Nat))) =
      [(1500, [0])] := by decide

/-- the same history with `browse`: the query at 1000, its retransmission (due since 2000) at
    50000, and at the 80 % mark the retransmission and the PTR, SRV + TXT and A + AAAA refresh -/
example :
    ((run (init 1000 [C03.eth0])
        [(1000, [], [.browse C03.ty 1 false]), (1500, [C03.announce], []), (50000, [], []), (97500, [], [])]).2.filterMap
        fun o => (match o.2 with
          | .query qs _ => some (o.1, qs.map (·.2))
          | _ => none : Option (Nat × List Nat))) =
      [(1000, [12]), (50000, [12]), (97500, [12]), (97500, [12]), (97500, [33, 16]), (97500, [1, 28])] := by decide

/-- the last call decides: `browse` after `browse_cache` makes the type active (queries from
    50000 on), `browse_cache` after `browse` ends the queries (only the one at 1000) -/
example :
    ((run (init 1000 [C03.eth0])
        [(1000, [], [.browse C03.ty 1 true]), (1500, [C03.announce], []), (50000, [], [.browse C03.ty 2 false]),
         (97500, [], [])]).2.filterMap
        fun o => (match o.2 with
          | .query qs _ => some (o.1, qs.map (·.2))
          | _ => none : Option (Nat × List Nat))) =
      [(50000, [12]), (97500, [12]), (97500, [12]), (97500, [33, 16]), (97500, [1, 28])] ∧
    ((run (init 1000 [C03.eth0])
        [(1000, [], [.browse C03.ty 1 false]), (1500, [C03.announce], []), (50000, [], [.browse C03.ty 2 true]),
         (97500, [], []), (103500, [], [])]).2.filterMap
        fun o => (match o.2 with
          | .query qs _ => some (o.1, qs.map (·.2))
          | _ => none : Option (Nat × List Nat))) =
      [(1000, [12])] := by decide

/-- an instance name with five parts ("a.b.c.d."), so that follow-ups are asked for it -/
def inst4 : BList := [0x61, 0x2e, 0x62, 0x2e, 0x63, 0x2e, 0x64, 0x2e]

/-- only the PTR of the announcement -/
def ptrOnly : Packet :=
  { C03.announce with msg := { C03.announce.msg with answers := [C03.wrec C03.ty 12 120 (.ptr inst4)], additionals := [] } }

/-- the witness of D23b in small: `browse_cache` at 1000, a PTR without SRV / address arrives at
    1500 and is reported found (code 0); no query follows (before the repair: the follow-ups
    `ANY a.b.c.d.` at 2000, 2500 and 3000).  With `browse` they are sent, as C04 wants. -/
example :
    ((run (init 1000 [C03.eth0])
        [(1000, [], [.browse C03.ty 1 true]), (1500, [ptrOnly], []), (2000, [], []), (2500, [], []), (3000, [], []),
         (3500, [], [])]).2.filterMap
        fun o => (match o.2 with
          | .query qs _ => some (o.1, qs.map (·.2))
          | .event 1 (.found ..) => some (o.1, [0])
          | _ => none : Option (Nat × List Nat))) =
      [(1500, [0])] ∧
    ((run (init 1000 [C03.eth0])
        [(1000, [], [.browse C03.ty 1 false]), (1500, [ptrOnly], []), (2000, [], []), (2500, [], []), (3000, [], []),
         (3500, [], [])]).2.filterMap
        fun o => (match o.2 with
          | .query qs _ => some (o.1, qs.map (·.2))
          | .event 1 (.found ..) => some (o.1, [0])
          | _ => none : Option (Nat × List Nat))) =
      [(1000, [12]), (1500, [0]), (2000, [12]), (2000, [255]), (2500, [255]), (3000, [255])] := by decide

/-- `CacheOnlyQuiet` is what `browse_cache` leaves from the fresh daemon (the hypothesis of
    `no_ptr_query_while_cache_only` is satisfiable) -/
example : CacheOnlyQuiet C03.ty (run (init 1000 [C03.eth0]) [(1000, [], [.browse C03.ty 1 true])]).1 :=
  (browse_cache_quiet C03.ty 1 (init 1000 [C03.eth0]) 1000 [] [] [] (fun _ hr => by cases hr)
    (fun _ _ h => by cases h) (fun h => by cases h)).2.2.1

end ClientModel

end Mdns.Props.C13
