import Mdns.Lemmas.Sched
/-
  C13  Stopping a search really stops it; channel protocol.

  Model: `Mdns/Model/Sched.lean` (exact on histories without responders; compared with
  the real daemon on every run).  The theorems hold for any sequence of iterations, however
  late: they do not assume a timely scheduler.
-/
namespace Mdns.Props.C13
open Mdns Mdns.Sched

/-- the outputs of a whole history of iterations `(now, commands)` -/
def outputs (s : State) : List (Nat × List Command) → List Out
  | [] => []
  | (now, cmds) :: rest => (iter s now cmds).2 ++ outputs (iter s now cmds).1 rest

def finalState (s : State) : List (Nat × List Command) → State
  | [] => s
  | (now, cmds) :: rest => finalState (iter s now cmds).1 rest

/-- `stop_browse(ty)` on a running browse: `SearchStopped` goes to the channel of that
    browse, exactly once, the search is forgotten and nothing stays queued for `ty`. -/
theorem stop_browse_contract (s : State) (now : Nat) (ty : BList) (ch : Nat)
    (h : s.queriers.find? (·.1 == ty) = some (ty, ch)) :
    (execCommand s now (.stopBrowse ty)).2 = [.event ch .stopped] ∧
    (execCommand s now (.stopBrowse ty)).1.queriers.find? (·.1 == ty) = none ∧
    NoBrowse ty (execCommand s now (.stopBrowse ty)).1.reruns := by
  simp only [execCommand, execStopBrowse, h]
  refine ⟨trivial, ?_, filter_not_self _ _⟩
  rw [List.find?_eq_none]
  intro q hq
  simp only [List.mem_filter] at hq
  simpa using hq.2

/-- stopping a type that is not browsed does nothing at all -/
theorem stop_unknown_is_noop (s : State) (now : Nat) (ty : BList)
    (h : s.queriers.find? (·.1 == ty) = none) :
    execCommand s now (.stopBrowse ty) = (s, []) := by
  simp [execCommand, execStopBrowse, h]

/-- No query after the stop: once nothing is queued for `ty` (as after `stop_browse`), no
    later iteration - whenever it runs, whatever other searches are started, stopped or
    timed out in between - sends a query for `ty`, until `browse(ty)` is called again. -/
theorem no_query_after_stop (ty : BList) : ∀ (history : List (Nat × List Command)) (s : State),
    NoBrowse ty s.reruns →
    history.all (fun h => h.2.all (fun c => !isBrowseCmd ty c)) = true →
    (outputs s history).all (fun o => !isQueryOf ty o) = true
  | [], _, _, _ => rfl
  | (now, cmds) :: rest, s, hs, hh => by
    simp only [List.all_cons, Bool.and_eq_true] at hh
    have h1 := iter_no_query s now cmds ty hh.1 hs
    have h2 := no_query_after_stop ty rest (iter s now cmds).1 h1.2 hh.2
    simp only [outputs, List.all_append, Bool.and_eq_true]
    exact ⟨h1.1, h2⟩

/-- The resolver time-out: `SearchTimeout` then `SearchStopped` on the resolver's channel,
    and the resolver is gone, so its queued retransmission is a no-op from then on
    (`execResolve … repeating = true` returns without output when the key is absent). -/
theorem timeout_contract (s : State) (now : Nat) (key : BList) (ch t : Nat)
    (h : s.resolvers = [(key, ch, some t)]) (hdue : now ≥ t) :
    (runTimeouts s now).2 = [.event ch .htimeout, .event ch .hstopped] ∧
    (runTimeouts s now).1.resolvers = [] := by
  simp [runTimeouts, h, hdue]

theorem rerun_of_gone_search_is_noop (s : State) (now : Nat) (h : BList) (d ch : Nat)
    (hgone : s.resolvers.any (·.1 == lower h) = false) :
    execRerun s now (.resolveHost h d ch) = (s, []) := by
  simp [execRerun, execResolve, hgone]

/-- a cache-only browse sends no query and queues nothing -/
theorem cache_only_silent (s : State) (now : Nat) (ty : BList) (ch : Nat) :
    (execCommand s now (.browse ty ch true)).2 = [.event ch .started, .event ch .stopped] ∧
    NoBrowse ty (execCommand s now (.browse ty ch true)).1.reruns := by
  refine ⟨rfl, ?_⟩
  simp only [execCommand, execBrowse, Bool.false_eq_true, ↓reduceIte]
  exact filter_not_self _ _

/-- the first event of every search channel is `SearchStarted` -/
theorem first_event_started (s : State) (now : Nat) (ty : BList) (ch : Nat) (co : Bool) :
    (execCommand s now (.browse ty ch co)).2.head? = some (.event ch .started) := by
  simp only [execCommand, execBrowse]
  split <;> rfl

/-! non-vacuity: a browse, then its stop, in a real model run -/
example :
    outputs (init 1000000) [(1000000, [.browse [0x5f] 1 false]), (1001000, []), (1001500, [.stopBrowse [0x5f]]), (1003000, [])] =
    [.event 1 .started, .query [([0x5f], 12)], .event 1 .started, .query [([0x5f], 12)], .event 1 .stopped] := by decide

end Mdns.Props.C13
