import Mdns.Lemmas.Txt
/-
  C16  TXT properties survive the trip unchanged.

  Property theorems only (helper lemmas are in `Mdns/Lemmas/Txt.lean`).
  Model: `Mdns/Model/Txt.lean` (`ServiceInfo::new` validation, `encode_txt`, `decode_txt`,
  `decode_txt_unique`, `TxtProperties::get` of src/service_info.rs).
-/
namespace Mdns.Props.C16
open Mdns Mdns.Txt

/-- Round trip: every accepted property list is encoded without panic and decodes
    (first-key-wins) to exactly itself with later case-insensitive duplicates removed:
    same keys byte for byte, same value bytes, same order, `none` ≠ `some []`. -/
theorem txt_roundtrip (ps : List TProp) (h : accepted ps = true) :
    ∃ b, create ps = .ok b ∧ decodeTxtUnique b = .ok (dedupCI ps) := by
  unfold create
  rw [h]
  simp only [↓reduceIte]
  cases ps with
  | nil =>
    refine ⟨[0], by simp [encodeTxt, encodeProps], ?_⟩
    simp [decodeTxtUnique, decodeTxt_eq, decodeTxtL, Res.map, dedupCI, dedupGo]
  | cons p ps =>
    refine ⟨encL (p :: ps), ?_, ?_⟩
    · unfold encodeTxt
      rw [encodeProps_accepted _ h]
      have := encL_ne_nil p ps
      cases hE : encL (p :: ps) with
      | nil => exact absurd hE this
      | cons _ _ => rfl
    · simp [decodeTxtUnique, decodeTxt_eq, decodeTxtL_encL _ h, Res.map]

/-- What is not representable is refused at creation ... -/
theorem create_refuses (ps : List TProp) (h : accepted ps = false) : create ps = .err := by
  simp [create, h]

/-- ... and acceptance is exactly: ASCII key without '=', not empty, `key[=value]` ≤ 255 bytes. -/
theorem accepted_iff (ps : List TProp) :
    accepted ps = true ↔ ∀ p ∈ ps,
      isAscii p.key = true ∧ p.key.contains 0x3D = false ∧ p.key ≠ [] ∧ p.strLen ≤ 255 := by
  simp only [accepted, List.all_eq_true]
  exact forall_congr' fun p => imp_congr_right fun _ => acceptedProp_iff p

/-- Every encoded string is at most 255 bytes: the encoding of an accepted list is the
    concatenation of `length byte :: string` with nothing truncated. -/
theorem encode_strings_le_255 (ps : List TProp) (h : accepted ps = true) :
    encodeProps ps = .ok (encL ps) ∧ ∀ p ∈ ps, p.str.length ≤ 255 := by
  refine ⟨encodeProps_accepted ps h, ?_⟩
  intro p hp
  rw [str_length]
  exact ((accepted_iff ps).mp h p hp).2.2.2

/-- Decoding arbitrary bytes never fails ... -/
theorem decodeTxt_total (b : BList) : decodeTxt b ≠ .panic ∧ decodeTxtUnique b ≠ .panic := by
  simp [decodeTxtUnique, decodeTxt_eq, Res.map]

/-- ... and never reads outside the record: every decoded `key[=value]` is a contiguous
    piece of the input. -/
theorem decodeTxt_inside (b : BList) (ps : List TProp) (h : decodeTxt b = .ok ps) :
    ∀ p ∈ ps, p.str <:+: b := by
  rw [decodeTxt_eq] at h
  cases h
  exact decodeTxtL_infix b

/-- First-key-wins: the result is a sub-sequence of the input (order kept) without two
    keys that are equal ignoring case ... -/
theorem dedup_spec (ps : List TProp) :
    (dedupCI ps).Sublist ps ∧ (dedupCI ps).Pairwise (fun a b => lower a.key ≠ lower b.key) :=
  ⟨dedupGo_sublist ps [], dedupGo_pairwise ps []⟩

/-- ... and a case-insensitive lookup finds in it what it finds in the original list:
    the first occurrence of the key. -/
theorem lookup_ci (ps : List TProp) (k : BList) : lookup (dedupCI ps) k = lookup ps k :=
  find_dedupGo k ps [] (by simp)

/-- End to end: looking a key up (any letter case) in what the browser decodes gives the
    first property of the registered list with that key. -/
theorem lookup_after_roundtrip (ps : List TProp) (h : accepted ps = true) (k : BList) :
    ∃ b dec, create ps = .ok b ∧ decodeTxtUnique b = .ok dec ∧ lookup dec k = lookup ps k := by
  obtain ⟨b, hb, hd⟩ := txt_roundtrip ps h
  exact ⟨b, dedupCI ps, hb, hd, lookup_ci ps k⟩

/-! ### Non-vacuity and regression witnesses -/

/-- a non-trivial accepted list: duplicate keys in different case, boolean key, empty
    value, binary value containing '=' and NUL -/
def sample : List TProp :=
  [ ⟨[0x4B], some [0x3D, 0x00, 0xFF]⟩, ⟨[0x6B], some []⟩, ⟨[0x62], none⟩, ⟨[0x61], some []⟩ ]

/-- **The getters agree with the list and keep "no value" apart from "empty value" and from
    "no such key"** (`get`, `get_property_val`, `get_property_val_str`; compared with the real
    getters by the op `txt-getters`): all three answer for the first property whose key equals the
    wanted one case-insensitively; the string getter answers `none` exactly when the key is absent -
    a key without a value is present and reads as the empty string. -/
theorem getters_spec (ps : List TProp) (k : BList) :
    (getVal ps k = none ↔ lookup ps k = none) ∧
    (getValStr ps k = none ↔ lookup ps k = none) ∧
    (∀ p, lookup ps k = some p → getVal ps k = some p.val ∧ getValStr ps k = some (p.val.getD [])) ∧
    (∀ p, lookup ps k = some p → p.val = none → getVal ps k = some none ∧ getValStr ps k = some []) := by
  unfold getVal getValStr
  refine ⟨?_, ?_, ?_, ?_⟩
  · cases lookup ps k <;> simp
  · cases lookup ps k <;> simp
  · intro p h; simp [h]
  · intro p h hv; simp [h, hv]

/-- ... and after the trip to the browser: the getters on what is decoded from the encoding of an
    accepted list answer as on the list itself. -/
theorem getters_after_roundtrip (ps : List TProp) (h : accepted ps = true) (k : BList) :
    ∃ b, create ps = .ok b ∧ ∃ ds, decodeTxtUnique b = .ok ds ∧
      getVal ds k = getVal ps k ∧ getValStr ds k = getValStr ps k := by
  obtain ⟨b, hb, hd⟩ := txt_roundtrip ps h
  exact ⟨b, hb, dedupCI ps, hd, by unfold getVal; rw [lookup_ci], by unfold getValStr; rw [lookup_ci]⟩

/-- **Same order, nothing lost, when no key repeats**: a list without two keys equal ignoring
    case is its own first-key-wins image, so the browser decodes exactly the registered list -
    every property, in the registered order, byte for byte. -/
theorem roundtrip_exact_when_keys_distinct (ps : List TProp) (h : accepted ps = true)
    (hd : ps.Pairwise (fun a b => lower a.key ≠ lower b.key)) :
    dedupCI ps = ps ∧ ∃ b, create ps = .ok b ∧ decodeTxtUnique b = .ok ps := by
  have hid : dedupCI ps = ps := dedupGo_id ps [] hd (by simp)
  obtain ⟨b, hb, hdec⟩ := txt_roundtrip ps h
  exact ⟨hid, b, hb, by rw [hdec, hid]⟩

/-- **Only later duplicates are dropped**: every registered property has a kept property with
    the same key ignoring case (the first one with that key, by `lookup_ci`), and removing
    duplicates a second time (a browser that decodes what another decoded) changes nothing. -/
theorem dedup_drops_only_duplicates (ps : List TProp) :
    (∀ p ∈ ps, ∃ q ∈ dedupCI ps, lower q.key = lower p.key) ∧ dedupCI (dedupCI ps) = dedupCI ps := by
  refine ⟨fun p hp => ?_, dedupGo_id _ [] (dedup_spec ps).2 (by simp)⟩
  rcases dedupGo_covers ps [] p hp with h | h
  · simp at h
  · exact h

example : sample.Pairwise (fun a b => lower a.key ≠ lower b.key) → False := by decide
example : (dedupCI sample).Pairwise (fun a b => lower a.key ≠ lower b.key) ∧ accepted (dedupCI sample) = true := by
  decide

example : getValStr sample [0x62] = some [] ∧ getVal sample [0x62] = some none ∧ getValStr sample [0x7A] = none := by decide

example : accepted sample = true := by decide
example : dedupCI sample = [⟨[0x4B], some [0x3D, 0x00, 0xFF]⟩, ⟨[0x62], none⟩, ⟨[0x61], some []⟩] := by
  decide

/-- Defect D6 (repaired in /repo by `fix: refuse TXT properties with an empty key`):
    an empty key without value encodes as a zero length byte and hides what follows.
    With the repair such a list is refused. -/
example : create [⟨[], none⟩, ⟨[0x6B], some [0x76]⟩] = .err := by decide

/-- the pre-repair behaviour, on the pure encoder: the second property is lost -/
example : decodeTxtL (encL [⟨[], none⟩, ⟨[0x6B], some [0x76]⟩]) = [] := by
  simp [encL, TProp.str, decodeTxtL]

end Mdns.Props.C16
