import Mdns.Lemmas.Responder
import Mdns.Lemmas.ResponderSched
import Mdns.Lemmas.ResponderAnnounce
/-
  C07  A name is probed three times before it is announced, then announced twice.

  Model: `Mdns/Model/Responder.lean` (one loop iteration of `Zeroconf::run`, responder side),
  compared with the real daemon thread on every run (`Driver/SimResponder.lean`): every
  packet with its time, interface, family and full content, every monitor event and the
  requested wake-up agree on all generated single-daemon histories.

  What is proved here:
  * safety, for ANY history of iterations (however late, with any queries, registrations,
    re-registrations, unregistrations in between; no conflicting response): a service that
    requires probing has status `Announced` on an interface only if its unique records are
    active there (`announced_records_active`); records become active only through a probe that
    ran at least 750 ms (`active_only_after_probe`); nothing is announced unless all unique
    records are active (`announcement_needs_active`); nothing is answered for services that
    are not `Announced` (`silent_until_announced`);
  * the schedule of one probe under a timely scheduler: queries at exactly `T`, `T+250`,
    `T+500`, the end at `T+750`, whatever other iterations happen in between (`probe_timeline`),
    each query carrying `ANY name` and the probe's records as authorities (`probe_query_content`);
    after `prepare_announce` every unique record of the service is active or in the probe of its
    name (`registration_probes_every_record`); every probe a registration creates starts at
    `now + jitter` (`new_probe_starts_at_jitter`, `registration_probe_times`); at its end the
    probe's records become active and the waiting services are woken (`probe_end_activates_records`);
  * the whole life cycle - probes at `t0+j`, `+250`, `+500` with the stated content, nothing
    else before, announcements at `t0+j+750` and `t0+j+1750` with PTR, SRV, TXT, address
    answers - by evaluation of the model under the timely scheduler for EVERY jitter `j < 250`
    on a concrete registration, and for a spread of jitters on a dual-stack interface with a
    mixed-case instance name and a subtype (`probe_lifecycle_partial`).
  * the same schedule INSIDE the daemon loop (`probe_schedule_in_daemon`, `probe_query_in_daemon`):
    for any daemon state - other probes, services, interfaces, queued re-runs arbitrary - with a
    fresh probe of `n` on interface `i`, idle iterations at `T`, `T+250`, `T+500`, `T+750` and any
    others in between send the probe query for `n` on `i` at exactly `T`, `T+250`, `T+500`
    (every family, `ANY n`, all records as authorities) and at no other iteration, and the
    records are active after the iteration at `T+750`;
  * from the registration on (`registration_starts_probe`, `registration_probe_lifecycle`): in any
    running daemon state, `register(svc)` at `t0` under jitter `j ≥ 1` and a timely scheduler give,
    for every unique record the daemon did not hold, probe queries for its name in exactly the
    iterations at `t0+j`, `+250`, `+500` and the record active after `t0+j+750` (for `j = 0` the first
    query leaves in the registration iteration itself);
  * the two announcements as step contracts (`first_announcement`: a woken service whose unique
    records are active is announced with PTR/subtype PTR/SRV/TXT/addresses, becomes `Announced`,
    `RegisterResend` queued for +1000 ms with a timer; `second_announcement`: the re-run sends the
    same record set again, by the invariant);
  * ANNOUNCED TWICE, for any service and any daemon state (`registration_announced_twice`): with
    jitter `j ≥ 1`, a timely scheduler and no other input, `register(svc)` at `t0` of a service none
    of whose unique records is held leads to the announcement (PTR, subtype PTR, SRV, TXT,
    addresses as answers) in the iteration at `t0+j+750` and again in the one at `t0+j+1750`;
  The statement for every service, interface and start time is `probe_lifecycle_full`.

  Repaired: D31 - `three_probes_whatever_the_scheduler` (a probe sends its three queries, 250 ms
  apart, before it ends, at whatever instants the loop runs; was `late_iteration_skips_probes`);
  D33 - `joining_record_restarts_probe` (a record that joins a running probe starts it over);
  each with a regression example on the witness history.
-/
namespace Mdns.Props.C07
open Mdns Mdns.Responder

/-! ### safety without a timely scheduler -/

/-- In every state reachable from a fresh daemon by ANY sequence of loop iterations - at any
    times, with any queries read, any registrations (of fresh `ServiceInfo`s), unregistrations,
    monitors, re-runs, as long as no response is read (no conflict) - a service that requires
    probing and has status `Announced` for an interface index has, on an interface with that
    index and in some IP family, an in-subnet address and ALL its unique records (SRV, TXT,
    the addresses of that family) in the `active` set of that interface's registry. -/
theorem announced_records_active (now0 : Nat) (intfs : List MyIntf) (inputs : List Input)
    (hplain : ∀ inp ∈ inputs, inp.plain) :
    ∀ e ∈ (run (init now0 intfs) inputs).1.services, e.2.probe = true → ∀ idx, e.2.announcedOn idx = true →
      ∃ i ∈ (run (init now0 intfs) inputs).1.intfs, i.index = idx ∧ ∃ v4, addrsOn e.2 i v4 ≠ [] ∧
        ∀ a ∈ uniqueRecords e.2 i ((run (init now0 intfs) inputs).1.registry idx) v4,
          ((run (init now0 intfs) inputs).1.registry idx).isActive a = true :=
  fun e he => (run_inv inputs _ (init_inv now0 intfs) hplain).sound e he

/-- An announcement (`prepare_announce` returning a packet) for a service that requires probing
    is built only when the service has an in-subnet address of the family and every unique
    record is active; it carries PTR (and subtype PTR), SRV, TXT and the address records as
    answers and nothing else. -/
theorem announcement_needs_active (s : Service) (i : MyIntf) (r : Registry) (v4 : Bool) (p : Packet)
    (h : prepareAnnouncePkt s i r v4 = some p) :
    addrsOn s i v4 ≠ [] ∧ (s.probe = true → ∀ a ∈ uniqueRecords s i r v4, r.isActive a = true) ∧
    p.answers = ptrRecords s (r.resolveName s.fullname) TTL_OTHER ++ uniqueRecords s i r v4 ∧
    p.flags = FLAGS_RESPONSE ∧ p.questions = [] ∧ p.authorities = [] ∧ p.additionals = [] :=
  prepareAnnouncePkt_some h

/-- A probe is finished by `check_probing` only when at least 750 ms have passed since its
    start, its next send is due, and - repair of D31 - its three queries have been sent
    (`next_send` has moved on to the end of the schedule): records reach `active` no earlier. -/
theorem active_only_after_probe (r : Registry) (now : Nat) (n : BList) (h : n ∈ (checkProbing r now).expired) :
    ∃ p, (n, p) ∈ r.probing ∧ now ≥ p.next ∧ now ≥ p.start + 750 ∧ p.next ≥ p.start + 750 :=
  checkProbing_expired h

/-- A query read on an interface where no service is `Announced` (all still probing, or none
    registered) is answered with nothing at all - no packet, no event. -/
theorem silent_until_announced (s : State) (now : Nat) (p : RxPkt) (i : MyIntf)
    (h : ∀ e ∈ s.services, e.2.announcedOn i.index = false) : (handleQuery s now p i).2 = [] :=
  handleQuery_silent s now p i h

/-! ### the schedule of a probe -/

/-- Timely scheduler: iterations happen at exactly `T`, `T+250`, `T+500`, `T+750` (the wake-ups
    the probe asks for) and at any other instants in between (earlier ones, `pre0 … pre3`).
    Then the probe sends at exactly `T`, `T+250`, `T+500` and ends at `T+750`. -/
theorem probe_timeline (p : Probe) (T : Nat) (hs : p.start = T) (hn : p.next = T)
    (pre0 pre1 pre2 pre3 rest : List Nat)
    (h0 : ∀ t ∈ pre0, t < T) (h1 : ∀ t ∈ pre1, t < T + 250) (h2 : ∀ t ∈ pre2, t < T + 500) (h3 : ∀ t ∈ pre3, t < T + 750) :
    p.trace (pre0 ++ T :: (pre1 ++ (T + 250) :: (pre2 ++ (T + 500) :: (pre3 ++ (T + 750) :: rest)))) =
      [(T, .send), (T + 250, .send), (T + 500, .send), (T + 750, .expire)] := by
  rw [Probe.trace_skip p pre0 _ (by simpa [hn] using h0)]
  have e0 := Probe.trace_send p (pre1 ++ (T + 250) :: (pre2 ++ (T + 500) :: (pre3 ++ (T + 750) :: rest))) (by omega)
  rw [hn] at e0
  rw [e0]
  rw [Probe.trace_skip _ pre1 _ (by simpa using h1)]
  have e1 := Probe.trace_send ({ p with next := T + 250 } : Probe) (pre2 ++ (T + 500) :: (pre3 ++ (T + 750) :: rest))
    (by simp [hs])
  simp only [] at e1
  rw [e1]
  rw [Probe.trace_skip _ pre2 _ (by simpa [Nat.add_assoc] using h2)]
  have e2 := Probe.trace_send ({ p with next := T + 250 + 250 } : Probe) (pre3 ++ (T + 750) :: rest) (by simp [hs])
  simp only [] at e2
  have e500 : T + 500 = T + 250 + 250 := by omega
  rw [e500, e2]
  rw [Probe.trace_skip _ pre3 _ (by simpa [Nat.add_assoc] using h3)]
  rw [Probe.trace_expire _ (T + 750) _ (by simp) (by simp [hs]) (by simp [hs])]

/-- What a probe that sends at `now` puts on the wire and asks for: the question `ANY name`,
    all its records in the authority section, a timer 250 ms later, and `next_send` moved there
    (and `start_time` moved by the lateness of this query, repair of D31). -/
theorem probe_query_content (r : Registry) (now : Nat) (n : BList) (p : Probe) (hm : (n, p) ∈ r.probing)
    (ha : p.action now = .send) :
    (n, TYPE_ANY) ∈ (checkProbing r now).questions ∧ (∀ a ∈ p.records, a ∈ (checkProbing r now).authorities) ∧
    (now + 250) ∈ (checkProbing r now).timers ∧
    (n, { p with start := p.start + (now - p.next), next := now + 250 }) ∈ (checkProbing r now).reg.probing :=
  checkProbing_sends hm ha

/-- every question of a probe query is an `ANY` question for a name that is being probed and due -/
theorem probe_query_only_probes (r : Registry) (now : Nat) (n : BList) (t : Nat)
    (h : (n, t) ∈ (checkProbing r now).questions) : t = TYPE_ANY ∧ ∃ p, (n, p) ∈ r.probing ∧ p.action now = .send :=
  checkProbing_question h

/-- After `prepare_announce` every unique record of a service that requires probing is active
    (this daemon already holds it) or sits - itself or a matching record - in the probe of its
    name, and the service is among the probe's waiting services. -/
theorem registration_probes_every_record (s : Service) (i : MyIntf) (r : Registry) (v4 : Bool) (now j : Nat)
    (hp : s.probe = true) (hne : addrsOn s i v4 ≠ []) :
    ∀ a ∈ uniqueRecords s i r v4, Held (prepareAnnounceReg s i r v4 now j) a s.fullname :=
  prepare_registers_all s i r v4 now j hp hne

/-- a probe created for a record starts, and first sends, at the time given (`now + jitter`) -/
theorem new_probe_starts_at_jitter (r : Registry) (a : RR) (n : BList) (t : Nat) (h : alookup a.getName r.probing = none) :
    ∃ p, alookup a.getName (r.probeInsert a n t).probing = some p ∧ p.start = t ∧ p.next = t := by
  obtain ⟨p, hp, hnew, _⟩ := probeInsert_times r a n t
  exact ⟨p, hp, hnew h⟩

/-- Every probe a registration creates - for a name that was not being probed - starts, and
    first sends, at `now + jitter`; a probe that was already running keeps its times, or - it
    had sent a query already and a record of the service joined it - starts over at
    `now + jitter` (repair of D33: the joining record gets its three probe queries). -/
theorem registration_probe_times (s : Service) (i : MyIntf) (r : Registry) (v4 : Bool) (now j : Nat) (n : BList) :
    (alookup n r.probing = none → ∀ p, alookup n (prepareAnnounceReg s i r v4 now j).probing = some p →
      p.start = now + j ∧ p.next = now + j) ∧
    (∀ q, alookup n r.probing = some q → ∃ p, alookup n (prepareAnnounceReg s i r v4 now j).probing = some p ∧
      ((p.start = q.start ∧ p.next = q.next) ∨ (p.start = now + j ∧ p.next = now + j ∧ q.start < q.next))) :=
  prepareAnnounceReg_times s i r v4 now j n

/-- The end of a probe (`handle_expired_probes`, no rename pending): the probe is removed, each
    of its records (filed under its name) is active from then on, and - if it had records -
    every service that waited for it is woken to be announced. -/
theorem probe_end_activates_records (intfName : BList) (acc : Registry × List Event × List BList) (name : BList) (p : Probe)
    (hl : alookup name acc.1.probing = some p) (hn : NoRen acc.1) :
    (∀ a ∈ p.records, a.getName = name → (expireProbe intfName acc name).1.isActive a = true) ∧
    alookup name (expireProbe intfName acc name).1.probing = none ∧
    (p.records ≠ [] → ∀ w ∈ p.waiting, w ∈ (expireProbe intfName acc name).2.2) :=
  expireProbe_activates intfName acc name p hl hn

/-! ### the schedule of a probe INSIDE the daemon loop -/

/-- ONE idle loop iteration (`iter` without datagram and command) of a daemon in ANY state in
    which it runs, interface `i` is there once, the probe of `n` on `i` has start `st`, next
    send `nx` and holds the records `R`, and no record named `n` of a registered service is left
    to come to that probe (`Settled`, part of `Good`: such a record would start the probe over) -
    other probes, services, interfaces, queued re-runs and timers arbitrary.  While the probe
    does not end (`now < nx`, or `now < st + 750`, or its three queries are not yet sent:
    `nx < st + 750`): the probe
    query for `n` leaves on `i` in this iteration exactly if `now ≥ nx` - on every family of the
    interface, a query packet with `ANY n` among the questions and all of `R` among the
    authorities - and then `nx` becomes `now + 250` and the start moves by the lateness
    `now - nx` (repair of D31); otherwise the probe is as before. -/
theorem probe_query_in_daemon (s : State) (i : MyIntf) (l1 l2 : List MyIntf) (n : BList) (st nx : Nat) (R : Cargo) (now j : Nat)
    (h : Good s i l1 l2 n st nx R) (hlive : now < nx ∨ now < st + 750 ∨ nx < st + 750) :
    Good (iter s (idle now j)).1 i l1 l2 n (if now ≥ nx then st + (now - nx) else st) (if now ≥ nx then now + 250 else nx) R ∧
    (now < nx → asked i.index n (iter s (idle now j)).2 = false) ∧
    (now ≥ nx → ∀ v4, i.hasFamily v4 = true → ∃ pkt, Out.send i.index v4 none pkt ∈ (iter s (idle now j)).2 ∧
      pkt.flags = 0 ∧ (n, TYPE_ANY) ∈ pkt.questions ∧ ∀ a ∈ R.recs, a ∈ pkt.authorities) :=
  iter_idle_step s i l1 l2 n st nx R now j h hlive

/-- PROBE LIFE CYCLE IN THE DAEMON, timely scheduler, no conflict, for ANY state as above in
    which the probe of `n` on interface `i` is fresh (`start = next_send = T`): over idle loop
    iterations at exactly `T`, `T+250`, `T+500`, `T+750` and at ANY other instants in between
    (`pre0 … pre3`), the iterations in which a probe query for `n` leaves on `i` are exactly those
    at `T`, `T+250` and `T+500` - none before, none in between, none at `T+750` - and after the
    iteration at `T+750` every record of the probe (filed under `n`) is active on `i`. -/
theorem probe_schedule_in_daemon (s : State) (i : MyIntf) (l1 l2 : List MyIntf) (n : BList) (T : Nat) (R : Cargo) (j : Nat)
    (h : Good s i l1 l2 n T T R) (hfam : ∃ v4, i.hasFamily v4 = true)
    (pre0 pre1 pre2 pre3 : List Nat)
    (h0 : ∀ t ∈ pre0, t < T) (h1 : ∀ t ∈ pre1, t < T + 250) (h2 : ∀ t ∈ pre2, t < T + 500) (h3 : ∀ t ∈ pre3, t < T + 750) :
    askTimes i.index n
      (idleRun j s ((pre0 ++ [T]) ++ ((pre1 ++ [T + 250]) ++ ((pre2 ++ [T + 500]) ++ (pre3 ++ [T + 750]))))).2 =
      [T, T + 250, T + 500] ∧
    ∀ a ∈ R.recs, a.getName = n →
      ((idleRun j s ((pre0 ++ [T]) ++ ((pre1 ++ [T + 250]) ++ ((pre2 ++ [T + 500]) ++ (pre3 ++ [T + 750]))))).1.registry
        i.index).isActive a = true := by
  obtain ⟨g1, a1⟩ := idleRun_phase j i l1 l2 n T T R s pre0 h (by omega) hfam h0
  obtain ⟨g2, a2⟩ := idleRun_phase j i l1 l2 n T (T + 250) R _ pre1 g1 (by omega) hfam h1
  obtain ⟨g3, a3⟩ := idleRun_phase j i l1 l2 n T (T + 250 + 250) R _ pre2 g2 (by omega) hfam (by simpa [Nat.add_assoc] using h2)
  obtain ⟨a4, hact⟩ := idleRun_final j i l1 l2 n T (T + 250 + 250 + 250) R _ pre3 g3 (by omega) (by simpa [Nat.add_assoc] using h3)
  have e500 : T + 500 = T + 250 + 250 := by omega
  have e750 : T + 750 = T + 250 + 250 + 250 := by omega
  rw [e500, e750]
  rw [idleRun_append, idleRun_append, idleRun_append]
  refine ⟨?_, hact⟩
  simp only [askTimes_append]
  rw [a1, a2, a3, a4]
  rfl

/-- REGISTRATION STARTS THE PROBE (any running daemon state, `register(svc)` processed at `now`
    under jitter `j` in an iteration without datagram or other command): for a unique record `a`
    of the service on interface `i` that this daemon does not hold yet - not active, its name `n`
    not being probed, and every record named `n` of the services registered so far active
    (`Settled`) - the probe of `n` on `i` exists afterwards with start `now + j`, holding `a`
    or a matching record `b`; a probe query went out in this very iteration iff `j = 0`. -/
theorem registration_starts_probe (s : State) (i : MyIntf) (l1 l2 : List MyIntf) (svc : Service) (now j : Nat)
    (v4 : Bool) (a : RR) (n : BList)
    (hrun : s.stopped = false) (hi : IntfsOk s i l1 l2) (hok : RerunsOk s)
    (hpn : KeysNodup (s.registry i.index).probing) (hnr : NoRen (s.registry i.index))
    (hlen : Names.checkServiceNameLength svc.ty s.nameLenMax = .ok ()) (hauto : svc.addrAuto = false)
    (hprobe : svc.probe = true) (hne : addrsOn svc i v4 ≠ [])
    (ha : a ∈ uniqueRecords svc i (s.registry i.index) v4) (hname : a.getName = n)
    (hinactive : (s.registry i.index).isActive a = false) (hfresh : alookup n (s.registry i.index).probing = none)
    (hset : Settled s i.index n) :
    ∃ b, a.matchesRR b = true ∧ b.getName = n ∧
      Good (iter s { now := now, jitter := j, cmds := [.register svc] }).1 i l1 l2 n (now + j)
        (if j = 0 then now + 250 else now + j) ⟨[b], [svc.fullname], alookup n (s.registry i.index).active⟩ ∧
      (j ≠ 0 → asked i.index n (iter s { now := now, jitter := j, cmds := [.register svc] }).2 = false) ∧
      (j = 0 → ∀ v4', i.hasFamily v4' = true →
        ∃ pkt, Out.send i.index v4' none pkt ∈ (iter s { now := now, jitter := j, cmds := [.register svc] }).2 ∧
          pkt.flags = 0 ∧ (n, TYPE_ANY) ∈ pkt.questions ∧ b ∈ pkt.authorities) :=
  registration_creates_probe s i l1 l2 svc now j v4 a n hrun hi hok hpn hnr hlen hauto hprobe hne ha hname hinactive hfresh hset

/-- FROM REGISTRATION TO ACTIVE RECORD, jitter `j ≥ 1`, timely scheduler, no conflict: in any
    running daemon state, `register(svc)` at `t0` under jitter `j`, then idle iterations at exactly
    `T = t0+j`, `T+250`, `T+500`, `T+750` and at any other instants in between.  For a unique
    record `a` of the service on interface `i` that the daemon did not hold (and no record named
    `n` of another registered service left to join a probe): no probe query for its
    name `n` in the registration iteration; afterwards probe queries for `n` leave on `i` in
    exactly the iterations at `T`, `T+250`, `T+500`; and after the iteration at `T+750` the record
    `a` is active on `i` - not before the probe is 750 ms old (`active_only_after_probe`). -/
theorem registration_probe_lifecycle (s : State) (i : MyIntf) (l1 l2 : List MyIntf) (svc : Service) (t0 j : Nat)
    (v4 : Bool) (a : RR) (n : BList)
    (hrun : s.stopped = false) (hi : IntfsOk s i l1 l2) (hok : RerunsOk s)
    (hpn : KeysNodup (s.registry i.index).probing) (hnr : NoRen (s.registry i.index))
    (hlen : Names.checkServiceNameLength svc.ty s.nameLenMax = .ok ()) (hauto : svc.addrAuto = false)
    (hprobe : svc.probe = true) (hne : addrsOn svc i v4 ≠ [])
    (ha : a ∈ uniqueRecords svc i (s.registry i.index) v4) (hname : a.getName = n)
    (hinactive : (s.registry i.index).isActive a = false) (hfresh : alookup n (s.registry i.index).probing = none)
    (hset : Settled s i.index n) (hj : j ≠ 0) (hfam : ∃ v4', i.hasFamily v4' = true)
    (pre0 pre1 pre2 pre3 : List Nat)
    (h0 : ∀ t ∈ pre0, t < t0 + j) (h1 : ∀ t ∈ pre1, t < t0 + j + 250) (h2 : ∀ t ∈ pre2, t < t0 + j + 500)
    (h3 : ∀ t ∈ pre3, t < t0 + j + 750) :
    asked i.index n (iter s { now := t0, jitter := j, cmds := [.register svc] }).2 = false ∧
    askTimes i.index n
      (idleRun j (iter s { now := t0, jitter := j, cmds := [.register svc] }).1
        ((pre0 ++ [t0 + j]) ++ ((pre1 ++ [t0 + j + 250]) ++ ((pre2 ++ [t0 + j + 500]) ++ (pre3 ++ [t0 + j + 750]))))).2 =
      [t0 + j, t0 + j + 250, t0 + j + 500] ∧
    ((idleRun j (iter s { now := t0, jitter := j, cmds := [.register svc] }).1
        ((pre0 ++ [t0 + j]) ++ ((pre1 ++ [t0 + j + 250]) ++ ((pre2 ++ [t0 + j + 500]) ++ (pre3 ++ [t0 + j + 750]))))).1.registry
      i.index).isActive a = true := by
  obtain ⟨b, hm, hbn, hg, hno, _⟩ := registration_creates_probe s i l1 l2 svc t0 j v4 a n hrun hi hok hpn hnr hlen hauto hprobe
    hne ha hname hinactive hfresh hset
  simp only [hj, ↓reduceIte] at hg
  obtain ⟨hask, hact⟩ := probe_schedule_in_daemon _ i l1 l2 n (t0 + j) ⟨[b], [svc.fullname], alookup n (s.registry i.index).active⟩ j hg hfam pre0 pre1 pre2 pre3 h0 h1 h2 h3
  refine ⟨hno hj, hask, ?_⟩
  exact isActive_of_matches _ a b hm (hname.trans hbn.symm) (hact b (by simp) hbn)

/-! ### the two announcements -/

/-- FIRST ANNOUNCEMENT.  When `probing_handler` wakes a registered service that is not yet
    `Announced` on interface `i` and whose unique records of family `v4` are all active there (it
    has an in-subnet address of that family): the announcement - PTR (and subtype PTR), SRV, TXT,
    the addresses, as answers of one response - leaves on `i` over that family; every monitor
    gets an event; the status becomes `Announced`; `RegisterResend` is queued for one second
    later and a timer is armed for it. -/
theorem first_announcement (now j : Nat) (i : MyIntf) (acc : State × List Out) (name : BList) (svc : Service) (v4 : Bool)
    (hsvc : alookup (lower name) acc.1.services = some svc) (hnot : svc.announcedOn i.index = false)
    (hne : addrsOn svc i v4 ≠ [])
    (hact : ∀ a ∈ uniqueRecords svc i (acc.1.registry i.index) v4, (acc.1.registry i.index).isActive a = true) :
    Out.send i.index v4 none (announcePkt svc ((acc.1.registry i.index).resolveName svc.fullname)
        (uniqueRecords svc i (acc.1.registry i.index) v4)) ∈ (wakeService now j i acc name).2 ∧
    (∃ svc', alookup (lower name) (wakeService now j i acc name).1.services = some svc' ∧ svc'.announcedOn i.index = true) ∧
    ReRun.registerResend (now + 1000) svc.fullname i.index ∈ (wakeService now j i acc name).1.reruns ∧
    (now + 1000) ∈ (wakeService now j i acc name).1.timers ∧
    (∀ ch ∈ acc.1.monitors, ∃ e, Out.event ch e ∈ (wakeService now j i acc name).2) :=
  wakeService_announces now j i acc name svc v4 hsvc hnot hne hact

/-- SECOND ANNOUNCEMENT.  When the queued `RegisterResend` of a registered service that requires
    probing runs and the service is `Announced` on the interface - so that by the invariant
    (`announced_records_active`) its unique records of some family are active there - the
    announcement with the same record set leaves again on that interface over that family
    (whatever the letter case of the name, since the repair of D8). -/
theorem second_announcement (s : State) (now j : Nat) (fullname : BList) (i : MyIntf) (svc : Service) (r0 : Registry)
    (hsvc : alookup (lower fullname) s.services = some svc) (hreg : alookup i.index s.registries = some r0)
    (hfind : s.intfs.find? (·.index == i.index) = some i) (huniq : ∀ i' ∈ s.intfs, i'.index = i.index → i' = i)
    (hprobe : svc.probe = true) (hann : svc.announcedOn i.index = true) (hsound : SvcSound s svc) :
    ∃ v4, addrsOn svc i v4 ≠ [] ∧
      Out.send i.index v4 none (announcePkt svc (r0.resolveName svc.fullname) (uniqueRecords svc i r0 v4)) ∈
        (execRegisterResend s now j fullname i.index).2 :=
  registerResend_announces s now j fullname i svc r0 hsvc hreg hfind huniq hprobe hann hsound

/-! ### the whole life cycle, for any service and any daemon state -/

/-- the daemon state right after the iteration that processed `register(svc)` at `t0` under jitter `j` -/
def registered (s : State) (svc : Service) (t0 j : Nat) : State :=
  (iter s { now := t0, jitter := j, cmds := [.register svc] }).1

/-- the timely iterations from the registration to just before `T + 750` (`T = t0 + j`) -/
def probingTimes (T : Nat) (pre0 pre1 pre2 pre3 : List Nat) : List Nat :=
  (pre0 ++ [T]) ++ ((pre1 ++ [T + 250]) ++ ((pre2 ++ [T + 500]) ++ pre3))

/-- ANNOUNCED TWICE, ONE SECOND APART - for ANY service and ANY daemon state.  A running daemon
    (invariant `Inv`, interface `i` there once, unique keys and no renames in its registry, no
    queued goodbye repeat a query) processes `register(svc)` at `t0` under jitter `j ≥ 1`; `svc`
    requires probing, is a fresh `ServiceInfo` with fixed addresses, has an in-subnet address of
    family `v4` on `i`, none of its unique records of that family is held (not active, name
    not probed), and no record under one of those names of another registered service is left to
    join a probe (`Settled`).  Timely scheduler, no datagram and no other command: idle iterations at
    `T = t0+j`, `T+250`, `T+500`, `T+750`, `T+1750` and at any other instants in between.  Then
    the iteration at `T+750` sends the announcement - PTR (and subtype PTR), SRV, TXT and the
    addresses of the family as answers - on `i` over that family, and the iteration at `T+1750`
    sends it again (over a family in which the service has an address). -/
theorem registration_announced_twice (s : State) (i : MyIntf) (l1 l2 : List MyIntf) (svc : Service) (t0 j : Nat) (v4 : Bool)
    (hrun : s.stopped = false) (hinv : Inv s) (hi : IntfsOk s i l1 l2) (hok : RerunsOk s)
    (hpn : KeysNodup (s.registry i.index).probing) (hnr : NoRen (s.registry i.index))
    (hlen : Names.checkServiceNameLength svc.ty s.nameLenMax = .ok ()) (hauto : svc.addrAuto = false)
    (hprobe : svc.probe = true) (hstatus : svc.status = []) (hne : addrsOn svc i v4 ≠ [])
    (hfresh : ∀ a ∈ uniqueRecords svc i {} v4,
      (s.registry i.index).isActive a = false ∧ alookup a.getName (s.registry i.index).probing = none)
    (hset : ∀ a ∈ uniqueRecords svc i {} v4, Settled s i.index a.getName)
    (hj : j ≠ 0) (hfam : ∃ v4', i.hasFamily v4' = true)
    (pre0 pre1 pre2 pre3 pre4 : List Nat)
    (h0 : ∀ t ∈ pre0, t < t0 + j) (h1 : ∀ t ∈ pre1, t < t0 + j + 250) (h2 : ∀ t ∈ pre2, t < t0 + j + 500)
    (h3 : ∀ t ∈ pre3, t < t0 + j + 750) (h4 : ∀ t ∈ pre4, t < t0 + j + 750 + 1000) :
    Out.send i.index v4 none (announcePkt svc svc.fullname (uniqueRecords svc i {} v4)) ∈
      (iter (idleRun j (registered s svc t0 j) (probingTimes (t0 + j) pre0 pre1 pre2 pre3)).1 (idle (t0 + j + 750) j)).2 ∧
    SentAgain
      (iter (idleRun j
          (iter (idleRun j (registered s svc t0 j) (probingTimes (t0 + j) pre0 pre1 pre2 pre3)).1 (idle (t0 + j + 750) j)).1
          pre4).1 (idle (t0 + j + 750 + 1000) j)).2 i svc := by
  have hnc := hnr.1
  have huq : ∀ v, uniqueRecords svc i (s.registry i.index) v = uniqueRecords svc i {} v :=
    fun v => uniqueRecords_congr (r := {}) hnc svc i v
  -- the state after the registration
  have hplain : ({ now := t0, jitter := j, cmds := [.register svc] } : Input).plain :=
    ⟨fun _ h => by simp at h, fun x h => by
      simp only [List.mem_cons, Command.register.injEq, List.not_mem_nil, or_false] at h
      subst h; exact hstatus⟩
  have hinv1 : Inv (registered s svc t0 j) := iter_inv s _ hinv hplain
  have hent1 : Entry (registered s svc t0 j) (lower svc.fullname) svc := registration_entry s svc t0 j hrun hlen hauto
  -- every unique record of the family is probed, fresh at T = t0 + j
  have hall1 : AllProbed (registered s svc t0 j) i l1 l2 svc v4 (t0 + j) (t0 + j) := by
    intro a ha
    obtain ⟨hina, hfra⟩ := hfresh a ha
    obtain ⟨b, hm, hbn, hg, _, _⟩ := registration_creates_probe s i l1 l2 svc t0 j v4 a a.getName hrun hi hok hpn hnr hlen hauto
      hprobe hne (by rw [huq]; exact ha) rfl hina hfra (hset a ha)
    simp only [hj, ↓reduceIte] at hg
    exact ⟨b, _, hm, hbn, by simpa [Registry.isActive] using hina, hg⟩
  -- ... and still so just before T + 750
  have hallk : AllProbed (idleRun j (registered s svc t0 j) (probingTimes (t0 + j) pre0 pre1 pre2 pre3)).1 i l1 l2 svc v4
      (t0 + j) (t0 + j + 750) := by
    intro a ha
    obtain ⟨b, A, hm, hbn, hA, hg⟩ := hall1 a ha
    exact ⟨b, A, hm, hbn, hA, idleRun_to_end j i l1 l2 a.getName (t0 + j) _ _ hg hfam pre0 pre1 pre2 pre3 h0 h1 h2 h3⟩
  have hinvk := idleRun_inv j (probingTimes (t0 + j) pre0 pre1 pre2 pre3) _ hinv1
  have hentk := idleRun_entry j (lower svc.fullname) svc (probingTimes (t0 + j) pre0 pre1 pre2 pre3) _ hent1
  -- the first announcement
  obtain ⟨hsend, hann, hrer⟩ := iter_idle_announces _ i l1 l2 svc v4 (t0 + j) j hinvk hentk hprobe hne (srvOf svc)
    (srvOf_mem svc i) hallk
  refine ⟨hsend, ?_⟩
  -- the bundle after it, carried to the second announcement
  obtain ⟨_, _, _, _, _, hgk⟩ := hallk (srvOf svc) (srvOf_mem svc i v4)
  have hafter : After (iter (idleRun j (registered s svc t0 j) (probingTimes (t0 + j) pre0 pre1 pre2 pre3)).1
      (idle (t0 + j + 750) j)).1 i l1 l2 svc (t0 + j + 750 + 1000) :=
    ⟨iter_idle_running _ _ j hgk.running, ⟨(iter_idle_intfs _ _ j hgk.running).trans hgk.intfs.split, hgk.intfs.other⟩,
      iter_inv _ _ hinvk (idle_plain _ j), hann, hrer⟩
  exact iter_idle_reannounces (After.run j pre4 _ hafter h4) hprobe _ j (Nat.le_refl _)

/-! ### findings (the model mirrors the code; both agree on the witnesses in corpus/C07) -/

/-- REPAIRED (D31, late iteration; was `late_iteration_skips_probes`: a probe that had sent
    nothing ended in the first iteration 750 ms or more after its start).  THREE QUERIES WHATEVER
    THE SCHEDULER: a fresh probe (start = first send = `T`), looked at at ANY instants - late, in
    bursts, in any order - sends at most three queries, none before `T`, each at least 250 ms
    after the one before; and if it ends, it has sent exactly three and ends at least 250 ms
    after the third. -/
theorem three_probes_whatever_the_scheduler (T : Nat) (ts : List Nat) :
    (sendTimes ((Probe.new T).trace ts)).length ≤ 3 ∧ (∀ x ∈ sendTimes ((Probe.new T).trace ts), T ≤ x) ∧
    (sendTimes ((Probe.new T).trace ts)).Pairwise (fun a b => a + 250 ≤ b) ∧
    (∀ te, endTime ((Probe.new T).trace ts) = some te →
      (sendTimes ((Probe.new T).trace ts)).length = 3 ∧ ∀ x ∈ sendTimes ((Probe.new T).trace ts), x + 250 ≤ te) := by
  obtain ⟨h1, h2, h3, h4⟩ := Probe.trace_three ts (Probe.new T) 0 (Probe.Sent.new T)
  exact ⟨by omega, h2, h3, fun te hte => ⟨by have := (h4 te hte).1; omega, (h4 te hte).2.2⟩⟩

/-- the same for a probe that starts over (a lost tiebreak, a record that joined): whatever was
    sent before, three queries follow the new start -/
theorem three_probes_after_restart (p : Probe) (T : Nat) (ts : List Nat) :
    let q : Probe := { p with start := T, next := T }
    (sendTimes (q.trace ts)).length ≤ 3 ∧ (∀ x ∈ sendTimes (q.trace ts), T ≤ x) ∧
    (∀ te, endTime (q.trace ts) = some te → (sendTimes (q.trace ts)).length = 3) := by
  intro q
  obtain ⟨h1, h2, _, h4⟩ := Probe.trace_three ts q 0 ⟨rfl, by omega⟩
  exact ⟨by omega, h2, fun te hte => by have := (h4 te hte).1; omega⟩

/-- REGRESSION (D31): the first iteration comes 800 ms after the start of the probe - it sends
    the first query (it ended the probe before the repair); the probe ends only after two more. -/
example : (Probe.new 1000).trace [1800, 2050, 2300, 2550] =
    [(1800, .send), (2050, .send), (2300, .send), (2550, .expire)] := by decide

/-- REPAIRED (D33, shared probe; was `joining_record_inherits_age`): a record that comes to an
    existing probe of its name - a second service on the same host name with another address -
    and is not matched there joins the probe, and when the probe has sent a query already
    (`next_send` has moved on from `start_time`) the probe's schedule starts over at `t`: the record
    gets three probe queries of its own (`three_probes_after_restart`).  A record that is matched,
    or a probe that has sent nothing yet, keeps the times. -/
theorem joining_record_restarts_probe (r : Registry) (a : RR) (n : BList) (t : Nat) (q : Probe)
    (h : alookup a.getName r.probing = some q) :
    ∃ p, alookup a.getName (r.probeInsert a n t).probing = some p ∧ p.records.any (a.matchesRR ·) = true ∧
      (q.records.any (a.matchesRR ·) = false → q.start < q.next → p.start = t ∧ p.next = t) ∧
      ((q.records.any (a.matchesRR ·) = true ∨ q.next ≤ q.start) → p.start = q.start ∧ p.next = q.next) := by
  obtain ⟨p, hp, _, hold⟩ := probeInsert_times r a n t
  refine ⟨p, hp, ?_, ?_, ?_⟩
  · simp only [Registry.probeInsert, alookup_aset_self, h, Option.getD_some, Option.some.injEq] at hp
    subst hp
    rw [Probe.join_records]
    split
    · assumption
    · simp only [List.any_eq_true]
      exact ⟨a, (mem_insertRR a a _).mpr (Or.inl rfl), RR.matchesRR_self a⟩
  · intro h1 h2
    rcases hold q h with ⟨_, _, h3⟩ | ⟨e1, e2, _⟩
    · simp [Probe.restarts, h1, h2] at h3
    · exact ⟨e1, e2⟩
  · intro h1
    rcases hold q h with ⟨e1, e2, _⟩ | ⟨_, _, h3⟩
    · exact ⟨e1, e2⟩
    · have := Probe.restarts_spec h3
      rcases h1 with h1 | h1
      · rw [this.1] at h1; cases h1
      · omega

/-- a second service on the host name of `web`, with another address -/
def web2 : Service := { web with
  fullname := [0x74,0x77,0x6f,0x2e,0x5f,0x68,0x74,0x74,0x70,0x2e,0x5f,0x74,0x63,0x70,0x2e,0x6c,0x6f,0x63,0x61,0x6c,0x2e],
  addrs := [[192, 168, 1, 21]] }

def web2A : RR := { name := web.host, ty := 1, flush := true, ttl := 120, rdata := .a [192, 168, 1, 21] }

/-- the SRV record of `web` -/
def webSrv' : RR := { name := web.fullname, ty := 33, flush := true, ttl := 120, rdata := .srv 0 0 80 web.host }

/-- is `a` among the authorities of a probe query of this iteration? -/
def probesWith (a : RR) (outs : List Out) : Bool :=
  outs.any fun
    | .send _ _ none p => p.flags == 0 && p.authorities.contains a
    | _ => false

/-- is `a` among the answers of a response of this iteration? -/
def answersWith (a : RR) (outs : List Out) : Bool :=
  outs.any fun
    | .send _ _ none p => p.flags != 0 && p.answers.contains a
    | _ => false

/-- the history of the D33 witness (corpus/C07/d33_shared_probe_age.ops): `web` registered at
    1000000, `web2` - same host name, another address - 600 ms later, while the probe of the host
    name is running; timely iterations -/
def sharedHostRun : List (List Out) :=
  (run (init 1000000 [eth0])
    ([{ now := 1000000, jitter := 7, cmds := [.register web] }, { now := 1000007, jitter := 7 }, { now := 1000257, jitter := 7 },
      { now := 1000507, jitter := 7 }, { now := 1000600, jitter := 7, cmds := [.register web2] }] ++
      [1000607, 1000757, 1000857, 1001107, 1001357].map fun t => { now := t, jitter := 7 })).2

set_option maxRecDepth 100000 in
/-- REGRESSION (D33): the address record of the second service is probed three times - at
    1000607, 1000857, 1001107 - before the announcement at 1001357 carries it; before the repair
    it went out at 1000757 after one probe query. -/
example :
    sharedHostRun.map (probesWith web2A) = [false, false, false, false, false, true, false, true, true, false] ∧
    sharedHostRun.map (answersWith web2A) = [false, false, false, false, false, false, false, false, false, true] := by
  decide +kernel

/-! ### the whole life cycle under the timely scheduler -/

/-- iterations at exactly the wake-ups the daemon asks for: (time, outputs) -/
def timelyRun (j : Nat) : Nat → State → Nat → List (Nat × List Out)
  | 0, _, _ => []
  | n + 1, s, now =>
    (now, (iter s { now := now, jitter := j }).2) ::
      match wake (iter s { now := now, jitter := j }).1 with
      | some w => timelyRun j n (iter s { now := now, jitter := j }).1 (max w now)
      | none => []

/-- a fresh daemon with one interface, `register(svc)` processed at `t0` under jitter `j`, then
    six iterations at the requested wake-ups -/
def lifecycle (i : MyIntf) (svc : Service) (t0 j : Nat) : List (Nat × List Out) :=
  (t0, (iter (init t0 [i]) { now := t0, jitter := j, cmds := [.register svc] }).2) ::
    match wake (iter (init t0 [i]) { now := t0, jitter := j, cmds := [.register svc] }).1 with
    | some w => timelyRun j 6 (iter (init t0 [i]) { now := t0, jitter := j, cmds := [.register svc] }).1 (max w t0)
    | none => []

def isSend : Out → Bool
  | .send .. => true
  | _ => false

/-- every packet of a run with its time -/
def sendsAt (l : List (Nat × List Out)) : List (Nat × Out) := l.flatMap fun (t, o) => (o.filter isSend).map fun x => (t, x)

def families (i : MyIntf) : List Bool := [true, false].filter i.hasFamily

/-- the probe query: `ANY` for the instance name and for the host name, authorities = TXT, SRV,
    the address records of both families -/
def expectedProbe (i : MyIntf) (svc : Service) : Packet :=
  { flags := 0, questions := [(svc.fullname, TYPE_ANY), (svc.host, TYPE_ANY)],
    authorities := ((uniqueRecords svc i {} true).take 2).foldl (fun l a => insertRR a l) [] ++
      ((uniqueRecords svc i {} true).drop 2 ++ (uniqueRecords svc i {} false).drop 2).foldl (fun l a => insertRR a l) [] }

/-- the announcement over one family: PTR (and subtype PTR), SRV, TXT, addresses of the family -/
def expectedAnnounce (i : MyIntf) (svc : Service) (v4 : Bool) : Packet :=
  { flags := FLAGS_RESPONSE, answers := ptrRecords svc svc.fullname TTL_OTHER ++ uniqueRecords svc i {} v4 }

/-- the packets the property asks for, with their times -/
def expectedSends (i : MyIntf) (svc : Service) (t0 j : Nat) : List (Nat × Out) :=
  ([t0 + j, t0 + j + 250, t0 + j + 500].flatMap fun t =>
    (families i).map fun v4 => (t, Out.send i.index v4 none (expectedProbe i svc))) ++
  ([t0 + j + 750, t0 + j + 1750].flatMap fun t =>
    ((families i).filter fun v4 => !(addrsOn svc i v4).isEmpty).map fun v4 =>
      (t, Out.send i.index v4 none (expectedAnnounce i svc v4)))

/-- a registration the life cycle is stated for: probing required, fresh `ServiceInfo`, fixed
    addresses, an in-subnet address in some family, instance and host names differ and are not
    yet held (fresh daemon), the type name is not too long -/
def Registrable (i : MyIntf) (svc : Service) : Prop :=
  svc.probe = true ∧ svc.status = [] ∧ svc.addrAuto = false ∧ svc.fullname ≠ svc.host ∧
  (addrsOn svc i true ≠ [] ∨ addrsOn svc i false ≠ []) ∧ Names.checkServiceNameLength svc.ty 15 = .ok ()

/-- FULL STRENGTH (not proved in this generality): for every interface, every registrable
    service, every start time and every jitter below 250 ms, the packets of the timely run are
    exactly: three probe queries at `t0+j`, `t0+j+250`, `t0+j+500` on every family of the
    interface, with `ANY` questions for instance and host name and all proposed records as
    authorities; then, and not before, the announcement at `t0+j+750` and again at
    `t0+j+1750` over every family in which the service has an address. -/
def probe_lifecycle_full : Prop :=
  ∀ (i : MyIntf) (svc : Service) (t0 j : Nat), j < 250 → Registrable i svc →
    sendsAt (lifecycle i svc t0 j) = expectedSends i svc t0 j

/-- the life cycle checked for a range of jitters by evaluating the model -/
def lifecycleOk (i : MyIntf) (svc : Service) (t0 : Nat) (js : List Nat) : Bool :=
  js.all fun j => sendsAt (lifecycle i svc t0 j) == expectedSends i svc t0 j

set_option maxRecDepth 100000 in
/-- every jitter 0..249, IPv4 interface, lower-case name -/
theorem lifecycle_all_jitters : lifecycleOk eth0 web 1000000 (List.range 250) = true := by decide +kernel

set_option maxRecDepth 100000 in
/-- a spread of jitters, dual-stack interface, mixed-case instance name, subtype, TXT data:
    two packets per send; the second announcement is there (repair of D8) -/
theorem lifecycle_dual_stack_mixed_case :
    lifecycleOk eth0dual webMixed 1000000 [0, 1, 7, 100, 125, 248, 249] = true := by decide +kernel

theorem lifecycleOk_spec (i : MyIntf) (svc : Service) (t0 : Nat) (js : List Nat) (h : lifecycleOk i svc t0 js = true) :
    ∀ j ∈ js, sendsAt (lifecycle i svc t0 j) = expectedSends i svc t0 j := by
  intro j hj
  simp only [lifecycleOk, List.all_eq_true] at h
  exact eq_of_beq (h j hj)

/-- PROVED PART of `probe_lifecycle_full`: the exact life cycle for every jitter below 250 on
    the concrete registration `web` on `eth0` at `t0 = 1000000`, and for a spread of jitters on
    the dual-stack mixed-case registration.  MISSING for the full statement: arbitrary service
    data, interface and start time (the general facts it would be assembled from are the
    theorems above: `registration_probes_every_record`, `registration_probe_times`, `probe_timeline`,
    `probe_query_content`, `probe_end_activates_records`, `announcement_needs_active`,
    `announced_records_active`, `silent_until_announced`; what is not done is their composition
    through `iter` for a symbolic service and registry). -/
theorem probe_lifecycle_partial :
    (∀ j, j < 250 → sendsAt (lifecycle eth0 web 1000000 j) = expectedSends eth0 web 1000000 j) ∧
    (∀ j ∈ [0, 1, 7, 100, 125, 248, 249],
      sendsAt (lifecycle eth0dual webMixed 1000000 j) = expectedSends eth0dual webMixed 1000000 j) :=
  ⟨fun j hj => lifecycleOk_spec eth0 web 1000000 _ lifecycle_all_jitters j (List.mem_range.mpr hj),
   lifecycleOk_spec eth0dual webMixed 1000000 _ lifecycle_dual_stack_mixed_case⟩

/-! ### non-vacuity -/

example : Registrable eth0 web := by unfold Registrable; decide
example : Registrable eth0dual webMixed := by unfold Registrable; decide

/-- the packets of one concrete life cycle (jitter 7): three probes, two announcements -/
example : (sendsAt (lifecycle eth0 web 1000000 7)).map (·.1) = [1000007, 1000257, 1000507, 1000757, 1001757] := by
  decide +kernel

/-- after the life cycle the service is `Announced` and its records are active: the
    hypotheses of `announced_records_active` are met by a reachable, non-empty state -/
example :
    ((run (init 1000000 [eth0])
        [{ now := 1000000, jitter := 7, cmds := [.register web] }, { now := 1000007, jitter := 7 },
         { now := 1000257, jitter := 7 }, { now := 1000507, jitter := 7 }, { now := 1000757, jitter := 7 }]).1.services.map
      fun e => (e.2.announcedOn 2, e.2.probe)) = [(true, true)] := by decide +kernel

/-- REGRESSION (D31, corpus/C07/d31_late_first_iteration.ops): registered at 1000000 with jitter
    10, next iteration 800 ms later: that iteration sends the first PROBE QUERY (before the repair
    it announced at once, not one query sent); two more follow, then the announcement -/
example :
    (run (init 1000000 [eth0])
      ([{ now := 1000000, jitter := 10, cmds := [.register web] }] ++
        [1000800, 1001050, 1001300, 1001550].map fun t => { now := t, jitter := 10 })).2.map
      (fun outs => (probesWith webSrv' outs, answersWith webSrv' outs)) =
      [(false, false), (true, false), (true, false), (true, false), (false, true)] := by decide +kernel

/-! non-vacuity of `probe_schedule_in_daemon`: the state right after `register(web)` on a fresh
    daemon (jitter 7) satisfies `Good` for the probe of the instance name, fresh at 1000007 -/

def probingState : State := (iter (init 1000000 [eth0]) { now := 1000000, jitter := 7, cmds := [.register web] }).1

def webTxt : RR := { name := web.fullname, ty := 16, flush := true, ttl := 4500, rdata := .txt [0] }
def webSrv : RR := { name := web.fullname, ty := 33, flush := true, ttl := 120, rdata := .srv 0 0 80 web.host }
def webA : RR := { name := web.host, ty := 1, flush := true, ttl := 120, rdata := .a [192, 168, 1, 20] }

def probingRegistry : Registry :=
  { probing := [(web.fullname, { records := [webTxt, webSrv], waiting := [web.fullname], start := 1000007, next := 1000007 }),
                (web.host, { records := [webA], waiting := [web.fullname], start := 1000007, next := 1000007 })] }

theorem probingState_registry : probingState.registry 2 = probingRegistry := by decide +kernel

example : Good probingState eth0 [] [] web.fullname 1000007 1000007 ⟨[webTxt, webSrv], [web.fullname], none⟩ := by
  refine ⟨by decide +kernel, ⟨by decide +kernel, by simp⟩, ⟨?_, ?_, ?_, ?_, ?_⟩, ?_⟩
  · exact ⟨{ records := [webTxt, webSrv], waiting := [web.fullname], start := 1000007, next := 1000007 },
      by rw [show eth0.index = 2 from rfl, probingState_registry]; decide, rfl, rfl, fun a h => h, fun w h => h⟩
  · rw [show eth0.index = 2 from rfl, probingState_registry]
    unfold KeysNodup
    decide
  · rw [show eth0.index = 2 from rfl, probingState_registry]
    refine ⟨rfl, ?_⟩
    intro n p hm a ha
    simp only [probingRegistry, List.mem_cons, Prod.mk.injEq, List.not_mem_nil, or_false] at hm
    rcases hm with ⟨_, rfl⟩ | ⟨_, rfl⟩
    · simp only [List.mem_cons, List.not_mem_nil, or_false] at ha
      rcases ha with rfl | rfl <;> rfl
    · simp only [List.mem_cons, List.not_mem_nil, or_false] at ha
      subst ha; rfl
  · rw [show eth0.index = 2 from rfl, probingState_registry]; rfl
  · -- the only registered service is `web`; its records under the instance name sit in the probe
    have hsv : probingState.services = [(web.fullname, { web with status := [(2, .probing)] })] := by decide +kernel
    have hin : probingState.intfs = [eth0] := by decide +kernel
    intro k svc hk _ i hi _ v4 hne a ha hn
    rw [hsv] at hk
    simp only [alookup] at hk
    split at hk
    · cases hk
      rw [hin] at hi
      simp only [List.mem_cons, List.not_mem_nil, or_false] at hi
      subst hi
      right
      refine ⟨{ records := [webTxt, webSrv], waiting := [web.fullname], start := 1000007, next := 1000007 },
        by rw [show eth0.index = 2 from rfl, probingState_registry]; decide, ?_⟩
      cases v4
      · exact absurd (by decide) hne
      · have hu : uniqueRecords { web with status := [(2, .probing)] } eth0 {} true = [webSrv, webTxt, webA] := by decide
        rw [hu] at ha
        simp only [List.mem_cons, List.not_mem_nil, or_false] at ha
        rcases ha with rfl | rfl | rfl
        · decide
        · decide
        · exact absurd hn (by decide)
    · cases hk
  · intro t p k v hm
    have : probingState.reruns = [] := by decide +kernel
    rw [this] at hm
    cases hm

/-! non-vacuity of `registration_probe_lifecycle`: its hypotheses hold for `register(web)` on the
    fresh daemon with the SRV record of `web` (jitter 7, no extra iterations) -/

theorem init_registry : (init 1000000 [eth0]).registry eth0.index = {} := by decide +kernel

example :
    askTimes 2 web.fullname
      (idleRun 7 (iter (init 1000000 [eth0]) { now := 1000000, jitter := 7, cmds := [.register web] }).1
        (([] ++ [1000000 + 7]) ++ (([] ++ [1000000 + 7 + 250]) ++ (([] ++ [1000000 + 7 + 500]) ++ ([] ++ [1000000 + 7 + 750]))))).2 =
      [1000000 + 7, 1000000 + 7 + 250, 1000000 + 7 + 500] :=
  (registration_probe_lifecycle (init 1000000 [eth0]) eth0 [] [] web 1000000 7 true webSrv web.fullname
    (by decide) ⟨by decide, by simp⟩ (fun _ _ _ _ h => by simp [init] at h)
    (by rw [init_registry]; unfold KeysNodup; decide) (by rw [init_registry]; exact NoRen.empty)
    (by decide) rfl rfl (by decide) (by rw [init_registry]; decide) rfl (by rw [init_registry]; decide)
    (by rw [init_registry]; decide) (fun k svc hk => by simp [init, alookup] at hk) (by decide) ⟨true, by decide⟩ [] [] [] []
    (by simp) (by simp) (by simp) (by simp)).2.1

end Mdns.Props.C07
