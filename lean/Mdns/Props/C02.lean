import Mdns.Lemmas.Encode
/-
  C02  Every emitted packet parses back to exactly the records that were added.

  Model: `Mdns/Model/Encode.lean` (`DnsOutgoing::to_packets` and everything it calls,
  `escape_instance_name`); specification of "parses back": `Mdns/Spec/RefParse.lean`.
-/
namespace Mdns.Props.C02
open Mdns Mdns.Enc

/-- Registration escaping is inverted by the wire writer: the escaped form of any
    non-empty label `l` (every byte kept, `.` and `\` escaped; this covers multi-byte
    UTF-8), followed by a separating dot, is read back by `parse_escaped_name` as exactly
    the label `l`, and the rest of the name is read as if it stood alone.  There is no
    side condition on `rest`: the separating dot is unescaped, so `rest` never starts in
    the middle of an escape sequence. -/
theorem labels_escape (l rest : BList) (h : l ≠ []) :
    parseEscaped (escape l ++ [0x2E] ++ rest) = l :: parseEscaped rest := by
  unfold parseEscaped
  rw [List.append_assoc, parseEscapedGo_escape, List.nil_append]
  exact parseEscapedGo_dot rest l h

/-- the last label needs no dot -/
theorem labels_escape_last (l : BList) (h : l ≠ []) : parseEscaped (escape l) = [l] := by
  have := parseEscapedGo_escape l [] []
  simp only [List.append_nil, List.nil_append] at this
  unfold parseEscaped
  rw [this]
  simp [parseEscapedGo, h]

/-- `parse_escaped_name` never produces an empty label, whatever the text (empty labels
    `a..b`, leading dots, a lone `.` are dropped). -/
theorem parseEscaped_no_empty (name : BList) : ∀ l ∈ parseEscaped name, l ≠ [] :=
  parseEscapedGo_no_empty name []

/-- non-vacuity: the instance label `a.b\` (a dot and a backslash), escaped as at
    registration (`a\.b\\`) and put in front of `x.yz`, is read back as that one label -/
example : parseEscaped (escape [0x61, 0x2E, 0x62, 0x5C] ++ [0x2E] ++ [0x78, 0x2E, 0x79, 0x7A]) =
    [[0x61, 0x2E, 0x62, 0x5C], [0x78], [0x79, 0x7A]] := by decide

example : escape [0x61, 0x2E, 0x62, 0x5C] = [0x61, 0x5C, 0x2E, 0x62, 0x5C, 0x5C] := by decide

/-- empty labels are dropped: `.a..b.` reads as `a`, `b` -/
example : parseEscaped [0x2E, 0x61, 0x2E, 0x2E, 0x62, 0x2E] = [[0x61], [0x62]] := by decide

end Mdns.Props.C02
