import Mdns.Lemmas.Encode
/-
  C02  Every emitted packet parses back to exactly the records that were added.

  Model: `Mdns/Model/Encode.lean` (`DnsOutgoing::to_packets` and everything it calls,
  `escape_instance_name`); specification of "parses back": `Mdns/Spec/RefParse.lean`.
-/
namespace Mdns.Props.C02
open Mdns Mdns.Enc

/-- Registration escaping is inverted by the wire writer: the escaped form of any
    non-empty label `l` (every byte kept, `.` and `\` escaped; this covers multi-byte
    UTF-8), followed by a separating dot, is read back by `parse_escaped_name` as exactly
    the label `l`, and the rest of the name is read as if it stood alone.  There is no
    side condition on `rest`: the separating dot is unescaped, so `rest` never starts in
    the middle of an escape sequence. -/
theorem labels_escape (l rest : BList) (h : l ≠ []) :
    parseEscaped (escape l ++ [0x2E] ++ rest) = l :: parseEscaped rest := by
  unfold parseEscaped
  rw [List.append_assoc, parseEscapedGo_escape, List.nil_append]
  exact parseEscapedGo_dot rest l h

/-- the last label needs no dot -/
theorem labels_escape_last (l : BList) (h : l ≠ []) : parseEscaped (escape l) = [l] := by
  have := parseEscapedGo_escape l [] []
  simp only [List.append_nil, List.nil_append] at this
  unfold parseEscaped
  rw [this]
  simp [parseEscapedGo, h]

/-- `parse_escaped_name` never produces an empty label, whatever the text (empty labels
    `a..b`, leading dots, a lone `.` are dropped). -/
theorem parseEscaped_no_empty (name : BList) : ∀ l ∈ parseEscaped name, l ≠ [] :=
  parseEscapedGo_no_empty name []

/-- non-vacuity: the instance label `a.b\` (a dot and a backslash), escaped as at
    registration (`a\.b\\`) and put in front of `x.yz`, is read back as that one label -/
example : parseEscaped (escape [0x61, 0x2E, 0x62, 0x5C] ++ [0x2E] ++ [0x78, 0x2E, 0x79, 0x7A]) =
    [[0x61, 0x2E, 0x62, 0x5C], [0x78], [0x79, 0x7A]] := by decide

example : escape [0x61, 0x2E, 0x62, 0x5C] = [0x61, 0x5C, 0x2E, 0x62, 0x5C, 0x5C] := by decide

/-- empty labels are dropped: `.a..b.` reads as `a`, `b` -/
example : parseEscaped [0x2E, 0x61, 0x2E, 0x2E, 0x62, 0x2E] = [[0x61], [0x62]] := by decide

/-! ### no panic, packet size, header -/

/-- `a.b.` -/
def nAB : BList := [0x61, 0x2E, 0x62, 0x2E]
/-- `c\.d.a.b.`: the first label is `c.d` -/
def nCAB : BList := [0x63, 0x5C, 0x2E, 0x64, 0x2E, 0x61, 0x2E, 0x62, 0x2E]

/-- Example message used for non-vacuity: a query with one question `a.b.`, one PTR known
    answer `a.b.` -> `c\.d.a.b.` (owner and target are written as compression pointers) and
    one additional A record. -/
def ex1 : OutMsg :=
  (((OutMsg.new 0 7).addQuestion nAB 12).addAnswerAtTime (mkRec nAB 12 1 120 1000 (.ptr nCAB)) 0).addAdditional
    (mkRec nCAB 1 0x8001 4500 1000 (.a [10, 0, 0, 1]))

/-- The encoder never returns an error and, inside the domain `MsgOK` (every label of
    every name at most 63 bytes; answers not past their expiry, in particular `now = 0`),
    it never panics.  Outside the domain it does: `assert!(s.len() < 64)` (D10). -/
theorem encode_no_panic (o : OutMsg) (h : MsgOK o) : encode o ≠ .panic ∧ encode o ≠ .err := by
  have h1 := toPackets_ne_panic o h
  have h2 := toPackets_ne_err o
  unfold encode
  cases hp : toPackets o with
  | ok ps => simp
  | err => exact absurd hp h2
  | panic => exact absurd hp h1

/-- `add_answer_at_time` only lets through answers for which the TTL subtraction of
    `get_remaining_ttl` cannot underflow. -/
theorem addAnswerAtTime_ok (o : OutMsg) (r : RecIn) (now : Nat) (hr : RecOK r)
    (h : ∀ a ∈ o.answers, AnsOK a) : ∀ a ∈ (o.addAnswerAtTime r now).answers, AnsOK a := by
  unfold OutMsg.addAnswerAtTime
  split
  · rename_i hc
    intro a ha
    simp only [List.mem_append, List.mem_singleton] at ha
    rcases ha with ha | rfl
    · exact h a ha
    · refine ⟨hr, ?_⟩
      rcases hc with h0 | h0
      · exact Or.inl h0
      · right
        simp [isExpired] at h0
        exact Nat.le_of_lt h0
  · exact h

example : MsgOK ex1 := by decide
example : encode ex1 = .ok [#[0, 0, 0, 0, 0, 1, 0, 1, 0, 0, 0, 1, 1, 97, 1, 98, 0, 0, 12, 0, 1, 192, 12, 0, 12, 0, 1,
    0, 0, 0, 120, 0, 6, 3, 99, 46, 100, 192, 12, 192, 33, 0, 1, 128, 1, 0, 0, 17, 148, 0, 4, 10, 0, 0, 1]] := by decide
/-- outside the domain: a 64-byte label panics -/
example : encode ((OutMsg.new 0 0).addQuestion (List.replicate 64 0x61) 12) = .panic := by decide

/-- Every packet is at most 8972 bytes, PROVIDED the question section alone does not
    already exceed it.  The hypothesis `questionsSize o ≤ 8972` is exactly the known
    defect D17: `to_packets` never size-checks questions, so without it the bound is false
    (600 questions give one packet of 13830 bytes).  Records are covered by the roll-back
    of `write_record`. -/
theorem packet_size (o : OutMsg) (ps : List Packet) (h : toPackets o = .ok ps)
    (hq : questionsSize o ≤ MAX_MSG_ABSOLUTE) : ∀ p ∈ ps, p.data.size ≤ MAX_MSG_ABSOLUTE := by
  obtain ⟨⟨init, last, rfl, hi, hl⟩, _⟩ := toPackets_ok o ps h
  rw [Nat.max_eq_left hq] at hi hl
  intro p hp
  simp only [List.mem_append, List.mem_singleton] at hp
  rcases hp with hp | rfl
  · exact (hi p hp).2.2.1
  · exact hl.2.2.1

/-- A message WITHOUT questions: every packet is at most 8972 bytes, unconditionally. -/
theorem packet_size_no_questions (o : OutMsg) (ps : List Packet) (h : toPackets o = .ok ps)
    (hq : o.questions = []) : ∀ p ∈ ps, p.data.size ≤ MAX_MSG_ABSOLUTE := by
  apply packet_size o ps h
  simp [questionsSize, hq, writeQuestions, MAX_MSG_ABSOLUTE]

/-- the same for the bytes returned by `to_data_on_wire` -/
theorem packet_size_on_wire (o : OutMsg) (ds : List Data) (h : encode o = .ok ds)
    (hq : questionsSize o ≤ MAX_MSG_ABSOLUTE) : ∀ d ∈ ds, d.size ≤ MAX_MSG_ABSOLUTE := by
  unfold encode at h
  cases hp : toPackets o with
  | ok ps =>
    simp only [hp, Res.ok.injEq] at h
    subst h
    intro d hd
    obtain ⟨p, hp', rfl⟩ := List.mem_map.mp hd
    exact packet_size o ps hp hq p hp'
  | err => simp [hp] at h
  | panic => simp [hp] at h

example : questionsSize ex1 ≤ MAX_MSG_ABSOLUTE := by decide

/-- The four counts in the header of every packet equal the number of questions and
    records that were written into that packet and kept (`ghost`: the lists the model
    carries next to the Rust counters; a rolled-back record is in neither).  Counts are
    16-bit fields, hence the `% 65536` (a packet of at most 8972 bytes holds fewer than
    816 records; only the unchecked question count of D17 can wrap). -/
theorem header_counts (o : OutMsg) (ps : List Packet) (h : toPackets o = .ok ps) :
    ∀ p ∈ ps, CountsOK p := by
  obtain ⟨⟨init, last, rfl, hi, hl⟩, _⟩ := toPackets_ok o ps h
  intro p hp
  simp only [List.mem_append, List.mem_singleton] at hp
  rcases hp with hp | rfl
  · exact (hi p hp).1
  · exact hl.1

/-- Every packet but the last carries the message flags with TC set, the last one the
    message flags themselves; every packet carries the same id (0, as `multicast` is
    always set) and has a complete 12-byte header. -/
theorem tc_flags (o : OutMsg) (ps : List Packet) (h : toPackets o = .ok ps) :
    ∃ init last, ps = init ++ [last] ∧
      (∀ p ∈ init, Ref.u16 p.data 2 = some ((o.flags ||| FLAGS_TC) % 65536)) ∧
      Ref.u16 last.data 2 = some (o.flags % 65536) ∧
      (∀ p ∈ ps, Ref.u16 p.data 0 = some (wireId o % 65536) ∧ 12 ≤ p.data.size) := by
  obtain ⟨⟨init, last, rfl, hi, hl⟩, _⟩ := toPackets_ok o ps h
  refine ⟨init, last, rfl, fun p hp => by simpa using (hi p hp).2.2.2.2, by simpa using hl.2.2.2.2, ?_⟩
  intro p hp
  simp only [List.mem_append, List.mem_singleton] at hp
  rcases hp with hp | rfl
  · exact ⟨(hi p hp).2.2.2.1, (hi p hp).2.1⟩
  · exact ⟨hl.2.2.2.1, hl.2.1⟩

/-- What the packets carry, taken together and in packet order: exactly the questions
    that were added, and for each record section an in-order subsequence of what was added
    (a record that does not fit is left out whole or carried into a following packet;
    nothing is invented, nothing is reordered, nothing is duplicated). -/
theorem carried_in_order (o : OutMsg) (ps : List Packet) (h : toPackets o = .ok ps) :
    ps.flatMap (·.ghost.qs) = o.questions ∧
    (ps.flatMap (·.ghost.an)).Sublist o.answers ∧
    (ps.flatMap (·.ghost.au)).Sublist o.authorities ∧
    (ps.flatMap (·.ghost.ad)).Sublist o.additionals := (toPackets_ok o ps h).2

/-- non-vacuity of the three theorems above: `ex1` yields one packet with counts 1/1/0/1 -/
example : (match toPackets ex1 with
    | .ok ps => ps.map fun p => [p.ghost.qs.length, p.ghost.an.length, p.ghost.au.length, p.ghost.ad.length,
                                 (Ref.u16 p.data 4).getD 99, (Ref.u16 p.data 6).getD 99,
                                 (Ref.u16 p.data 8).getD 99, (Ref.u16 p.data 10).getD 99]
    | _ => []) = [[1, 1, 0, 1, 1, 1, 0, 1]] := by decide

end Mdns.Props.C02
