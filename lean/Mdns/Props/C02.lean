import Mdns.Lemmas.Encode
/-
  C02  Every emitted packet parses back to exactly the records that were added.

  Model: `Mdns/Model/Encode.lean` (`DnsOutgoing::to_packets` and everything it calls,
  `escape_instance_name`); specification of "parses back": `Mdns/Spec/RefParse.lean`.
-/
namespace Mdns.Props.C02
open Mdns Mdns.Enc

/-- Registration escaping is inverted by the wire writer: the escaped form of any
    non-empty label `l` (every byte kept, `.` and `\` escaped; this covers multi-byte
    UTF-8), followed by a separating dot, is read back by `parse_escaped_name` as exactly
    the label `l`, and the rest of the name is read as if it stood alone.  There is no
    side condition on `rest`: the separating dot is unescaped, so `rest` never starts in
    the middle of an escape sequence. -/
theorem labels_escape (l rest : BList) (h : l ≠ []) :
    parseEscaped (escape l ++ [0x2E] ++ rest) = l :: parseEscaped rest := by
  unfold parseEscaped
  rw [List.append_assoc, parseEscapedGo_escape, List.nil_append]
  exact parseEscapedGo_dot rest l h

/-- the last label needs no dot -/
theorem labels_escape_last (l : BList) (h : l ≠ []) : parseEscaped (escape l) = [l] := by
  have := parseEscapedGo_escape l [] []
  simp only [List.append_nil, List.nil_append] at this
  unfold parseEscaped
  rw [this]
  simp [parseEscapedGo, h]

/-- The same for a whole name as `write_name` reads it (one trailing dot stripped first):
    an escaped instance label in front of any name is read back as that label followed by
    the labels of the name. -/
theorem labelsOf_escape (l rest : BList) (h : l ≠ []) :
    labelsOf (escape l ++ [0x2E] ++ rest) = l :: labelsOf rest := by
  unfold labelsOf
  by_cases hr : rest = []
  · subst hr
    have : stripDot (escape l ++ [0x2E] ++ []) = escape l := by
      simp [stripDot]
    rw [this, labels_escape_last l h]
    simp [stripDot, parseEscaped, parseEscapedGo]
  · rw [stripDot_append _ _ hr]
    exact labels_escape l _ h

/-- `parse_escaped_name` never produces an empty label, whatever the text (empty labels
    `a..b`, leading dots, a lone `.` are dropped). -/
theorem parseEscaped_no_empty (name : BList) : ∀ l ∈ parseEscaped name, l ≠ [] :=
  parseEscapedGo_no_empty name []

/-- non-vacuity: the instance label `a.b\` (a dot and a backslash), escaped as at
    registration (`a\.b\\`) and put in front of `x.yz`, is read back as that one label -/
example : parseEscaped (escape [0x61, 0x2E, 0x62, 0x5C] ++ [0x2E] ++ [0x78, 0x2E, 0x79, 0x7A]) =
    [[0x61, 0x2E, 0x62, 0x5C], [0x78], [0x79, 0x7A]] := by decide

example : escape [0x61, 0x2E, 0x62, 0x5C] = [0x61, 0x5C, 0x2E, 0x62, 0x5C, 0x5C] := by decide

/-- a full name with trailing dot: `a\\.b.x.` reads as `a.b`, `x` -/
example : labelsOf (escape [0x61, 0x2E, 0x62] ++ [0x2E] ++ [0x78, 0x2E]) = [[0x61, 0x2E, 0x62], [0x78]] := by decide

/-- empty labels are dropped: `.a..b.` reads as `a`, `b` -/
example : parseEscaped [0x2E, 0x61, 0x2E, 0x2E, 0x62, 0x2E] = [[0x61], [0x62]] := by decide

/-! ### no panic, packet size, header -/

/-- `a.b.` -/
def nAB : BList := [0x61, 0x2E, 0x62, 0x2E]
/-- `c\.d.a.b.`: the first label is `c.d` -/
def nCAB : BList := [0x63, 0x5C, 0x2E, 0x64, 0x2E, 0x61, 0x2E, 0x62, 0x2E]

/-- Example message used for non-vacuity: a query with one question `a.b.`, one PTR known
    answer `a.b.` -> `c\.d.a.b.` (owner and target are written as compression pointers) and
    one additional A record. -/
def ex1 : OutMsg :=
  (((OutMsg.new 0 7).addQuestion nAB 12).addAnswerAtTime (mkRec nAB 12 1 120 1000 (.ptr nCAB)) 0).addAdditional
    (mkRec nCAB 1 0x8001 4500 1000 (.a [10, 0, 0, 1]))

/-- The encoder never returns an error and, inside the domain `MsgOK` (every label of
    every name at most 63 bytes; answers not past their expiry, in particular `now = 0`),
    it never panics.  Outside the domain it does: `assert!(s.len() < 64)` (D10). -/
theorem encode_no_panic (o : OutMsg) (h : MsgOK o) : encode o ≠ .panic ∧ encode o ≠ .err := by
  have h1 := toPackets_ne_panic o h
  have h2 := toPackets_ne_err o
  unfold encode
  cases hp : toPackets o with
  | ok ps => simp
  | err => exact absurd hp h2
  | panic => exact absurd hp h1

/-- `add_answer_at_time` only lets through answers for which the TTL subtraction of
    `get_remaining_ttl` cannot underflow. -/
theorem addAnswerAtTime_ok (o : OutMsg) (r : RecIn) (now : Nat) (hr : RecOK r)
    (h : ∀ a ∈ o.answers, AnsOK a) : ∀ a ∈ (o.addAnswerAtTime r now).answers, AnsOK a := by
  unfold OutMsg.addAnswerAtTime
  split
  · rename_i hc
    intro a ha
    simp only [List.mem_append, List.mem_singleton] at ha
    rcases ha with ha | rfl
    · exact h a ha
    · refine ⟨hr, ?_⟩
      rcases hc with h0 | h0
      · exact Or.inl h0
      · right
        simp [isExpired] at h0
        exact Nat.le_of_lt h0
  · exact h

example : MsgOK ex1 := by decide
example : RecOK (mkRec nAB 12 1 120 1000 (.ptr nCAB)) := by decide
example : encode ex1 = .ok [#[0, 0, 0, 0, 0, 1, 0, 1, 0, 0, 0, 1, 1, 97, 1, 98, 0, 0, 12, 0, 1, 192, 12, 0, 12, 0, 1,
    0, 0, 0, 120, 0, 6, 3, 99, 46, 100, 192, 12, 192, 33, 0, 1, 128, 1, 0, 0, 17, 148, 0, 4, 10, 0, 0, 1]] := by decide
/-- outside the domain: a 64-byte label panics -/
example : encode ((OutMsg.new 0 0).addQuestion (List.replicate 64 0x61) 12) = .panic := by decide

/-- Every packet is at most 8972 bytes, PROVIDED the question section alone does not
    already exceed it.  The hypothesis `questionsSize o ≤ 8972` is exactly the known
    defect D17: `to_packets` never size-checks questions, so without it the bound is false
    (600 questions give one packet of 13830 bytes).  Records are covered by the roll-back
    of `write_record`. -/
theorem packet_size (o : OutMsg) (ps : List Packet) (h : toPackets o = .ok ps)
    (hq : questionsSize o ≤ MAX_MSG_ABSOLUTE) : ∀ p ∈ ps, p.data.size ≤ MAX_MSG_ABSOLUTE := by
  obtain ⟨⟨init, last, rfl, hi, hl⟩, _⟩ := toPackets_ok o ps h
  rw [Nat.max_eq_left hq] at hi hl
  intro p hp
  simp only [List.mem_append, List.mem_singleton] at hp
  rcases hp with hp | rfl
  · exact (hi p hp).2.2.1
  · exact hl.2.2.1

/-- A message WITHOUT questions: every packet is at most 8972 bytes, unconditionally. -/
theorem packet_size_no_questions (o : OutMsg) (ps : List Packet) (h : toPackets o = .ok ps)
    (hq : o.questions = []) : ∀ p ∈ ps, p.data.size ≤ MAX_MSG_ABSOLUTE := by
  apply packet_size o ps h
  simp [questionsSize, hq, writeQuestions, MAX_MSG_ABSOLUTE]

/-- the same for the bytes returned by `to_data_on_wire` -/
theorem packet_size_on_wire (o : OutMsg) (ds : List Data) (h : encode o = .ok ds)
    (hq : questionsSize o ≤ MAX_MSG_ABSOLUTE) : ∀ d ∈ ds, d.size ≤ MAX_MSG_ABSOLUTE := by
  unfold encode at h
  cases hp : toPackets o with
  | ok ps =>
    simp only [hp, Res.ok.injEq] at h
    subst h
    intro d hd
    obtain ⟨p, hp', rfl⟩ := List.mem_map.mp hd
    exact packet_size o ps hp hq p hp'
  | err => simp [hp] at h
  | panic => simp [hp] at h

example : questionsSize ex1 ≤ MAX_MSG_ABSOLUTE := by decide
/-- a response without questions -/
example : ((OutMsg.new 0x8400 0).addAdditional (mkRec nCAB 1 0x8001 4500 1000 (.a [10, 0, 0, 1]))).questions = [] := rfl

/-- The four counts in the header of every packet equal the number of questions and
    records that were written into that packet and kept (`ghost`: the lists the model
    carries next to the Rust counters; a rolled-back record is in neither).  Counts are
    16-bit fields, hence the `% 65536` (a packet of at most 8972 bytes holds fewer than
    816 records; only the unchecked question count of D17 can wrap). -/
theorem header_counts (o : OutMsg) (ps : List Packet) (h : toPackets o = .ok ps) :
    ∀ p ∈ ps, CountsOK p := by
  obtain ⟨⟨init, last, rfl, hi, hl⟩, _⟩ := toPackets_ok o ps h
  intro p hp
  simp only [List.mem_append, List.mem_singleton] at hp
  rcases hp with hp | rfl
  · exact (hi p hp).1
  · exact hl.1

/-- Every packet but the last carries the message flags with TC set, the last one the
    message flags themselves; every packet carries the same id (0, as `multicast` is
    always set) and has a complete 12-byte header. -/
theorem tc_flags (o : OutMsg) (ps : List Packet) (h : toPackets o = .ok ps) :
    ∃ init last, ps = init ++ [last] ∧
      (∀ p ∈ init, Ref.u16 p.data 2 = some ((o.flags ||| FLAGS_TC) % 65536)) ∧
      Ref.u16 last.data 2 = some (o.flags % 65536) ∧
      (∀ p ∈ ps, Ref.u16 p.data 0 = some (wireId o % 65536) ∧ 12 ≤ p.data.size) := by
  obtain ⟨⟨init, last, rfl, hi, hl⟩, _⟩ := toPackets_ok o ps h
  refine ⟨init, last, rfl, fun p hp => by simpa using (hi p hp).2.2.2.2, by simpa using hl.2.2.2.2, ?_⟩
  intro p hp
  simp only [List.mem_append, List.mem_singleton] at hp
  rcases hp with hp | rfl
  · exact ⟨(hi p hp).2.2.2.1, (hi p hp).2.1⟩
  · exact ⟨hl.2.2.2.1, hl.2.1⟩

/-- What the packets carry, taken together and in packet order: exactly the questions
    that were added, and for each record section an in-order subsequence of what was added
    (a record that does not fit is left out whole or carried into a following packet;
    nothing is invented, nothing is reordered, nothing is duplicated). -/
theorem carried_in_order (o : OutMsg) (ps : List Packet) (h : toPackets o = .ok ps) :
    ps.flatMap (·.ghost.qs) = o.questions ∧
    (ps.flatMap (·.ghost.an)).Sublist o.answers ∧
    (ps.flatMap (·.ghost.au)).Sublist o.authorities ∧
    (ps.flatMap (·.ghost.ad)).Sublist o.additionals := (toPackets_ok o ps h).2

/-- non-vacuity of the three theorems above: `ex1` yields one packet with counts 1/1/0/1 -/
example : (match toPackets ex1 with
    | .ok ps => ps.map fun p => [p.ghost.qs.length, p.ghost.an.length, p.ghost.au.length, p.ghost.ad.length,
                                 (Ref.u16 p.data 4).getD 99, (Ref.u16 p.data 6).getD 99,
                                 (Ref.u16 p.data 8).getD 99, (Ref.u16 p.data 10).getD 99]
    | _ => []) = [[1, 1, 0, 1, 1, 1, 0, 1]] := by decide

/-! ### the compression table and the round trip -/

/-- The invariant of the compression table (`NamesOK D names`: every entry `(key, off)`
    has `off` inside the packet and below 2^14, `key` is the key of a non-empty sequence of
    non-empty labels, and the reference reader reads exactly that sequence at `off`) is
    preserved by `write_name`, and the name that was written reads back, at the position
    where it was written, as the label sequence of the textual name - also when more
    bytes follow.  (Names of at most 255 octets; the packet below 8972 + 255 + 16 bytes so
    that every new offset fits a compression pointer.) -/
theorem names_invariant_writeName (p p' : OutPacket) (name : BList) (h : p.writeName name = .ok p')
    (hs : p.data.size + wlen (labelsOf name) ≤ 16384) (hn : NamesOK p.data p.names) :
    NamesOK p'.data p'.names ∧
    (wlen (labelsOf name) ≤ 255 → ∀ x : Data, ∃ e,
      Ref.readName (p'.data ++ x) p.data.size = some (labelsOf name, e) ∧ e = p'.data.size) := by
  obtain ⟨bs, new, h1, _, _, _, _, _, h7⟩ := writeName_spec p p' name h hs
  obtain ⟨a, b⟩ := h7 p.data rfl hn
  rw [← h1] at a b
  refine ⟨a, fun hw x => ⟨_, b hw x, by rw [h1]; simp⟩⟩

/-- `write_record` preserves the invariant of the compression table in both outcomes.
    If the record does not fit, the packet is restored EXACTLY: same bytes, same table (the
    repair of D3: without the `retain` the table would keep offsets into removed bytes). If
    it fits, the reference reader finds, at the position where the record was written,
    exactly the record that was added (owner labels, type, class, flush bit, TTL, RDATA
    with PTR/SRV target labels), and the next entry starts where the packet now ends. -/
theorem names_invariant_writeRecord (p p' : OutPacket) (r : RecIn) (now : Nat) (b : Bool)
    (h : p.writeRecord r now = .ok (p', b)) (hw : RecWF r now) (hs : p.data.size ≤ MAX_MSG_ABSOLUTE)
    (hn : NamesOK p.data p.names) :
    NamesOK p'.data p'.names ∧
    (b = false → p'.data = p.data ∧ p'.names = p.names) ∧
    (b = true → ∀ x : Data, Ref.readRecord (p'.data ++ x) p.data.size = some (expRec r now, p'.data.size)) := by
  have hb : ∀ e ∈ p.names, e.2 < p.data.size := fun e he => (hn e he).1
  obtain ⟨s1, s2⟩ := writeRecord_spec p p' r now b h hw hs hb
  cases b with
  | false =>
    obtain ⟨d1, d2⟩ := s1 rfl
    exact ⟨by rw [d1, d2]; exact hn, fun _ => ⟨d1, d2⟩, fun hc => by simp at hc⟩
  | true =>
    obtain ⟨bs, new, a1, _, _, _, a5⟩ := s2 rfl
    obtain ⟨c1, c2⟩ := a5 p.data rfl hn
    rw [← a1] at c1 c2
    refine ⟨c1, fun hc => by simp at hc, fun _ x => ?_⟩
    rw [c2 x, a1]; simp

/-- non-vacuity of the two invariant theorems: the fresh packet satisfies the invariant
    (empty table); after writing `a.b.` the table has two entries (`a.b`, `b`) and the
    invariant still holds by the theorem; the PTR record of `ex1` is in the domain -/
example : NamesOK OutPacket.new.data OutPacket.new.names := by
  intro e he; simp [OutPacket.new] at he

example : (match OutPacket.new.writeName nAB with | .ok p => p.names | _ => []) =
    [([0x62], 14), ([0x61, 0x2E, 0x62], 12)] := by decide

example : RecWF (mkRec nAB 12 1 120 1000 (.ptr nCAB)) 0 ∧ OutPacket.new.data.size ≤ MAX_MSG_ABSOLUTE := by decide

/-- Every packet, read by the independent RFC 1035 reader, yields exactly what the model
    wrote into it (`ghost`): `Ref.parse` succeeds - so the four header counts are matched
    by the entries and the last entry ends the packet - and returns the id, the flags
    (with TC on every packet but the last), the questions and the records of that packet
    field by field.  Compression pointers, escaped dots and backslashes, roll-backs and the
    TC continuation are all covered.  Hypotheses: `MsgWF` (names at most 255 octets, field
    widths, RDATA kind matching the type) and `questionsSize o ≤ 8972`, which is D17. -/
theorem parse_each_packet (o : OutMsg) (ps : List Packet) (h : toPackets o = .ok ps) (hw : MsgWF o)
    (hq : questionsSize o ≤ MAX_MSG_ABSOLUTE) :
    ∃ init last, ps = init ++ [last] ∧
      (∀ p ∈ init, Ref.parse p.data = some (expMsg o (wireId o) true p.ghost)) ∧
      Ref.parse last.data = some (expMsg o (wireId o) false last.ghost) :=
  toPackets_parse o ps h hw hq

/-- **The property (C02), on the bytes returned by `to_data_on_wire`.**  For every message
    in the domain (`MsgWF`; labels of 1..=63 bytes are implied by the encoder returning at
    all) whose question section alone fits a packet (D17), there are messages `ms`, one
    per packet, such that
    * the reference reader parses packet `i` to `ms[i]` (hence header counts = entries
      carried, nothing trailing);
    * every packet is at most 8972 bytes;
    * the questions of all packets together are exactly the questions added, in order;
    * the answers / authorities / additionals of all packets together are an in-order
      subsequence of the records added, each equal field by field (owner label sequence,
      type, class, cache-flush bit, TTL, RDATA with PTR/SRV target label sequences) to
      what `expRec` derives from the added record - so no packet contains a record or a
      name that was not added;
    * every packet but the last has the message flags with TC set, the last one the
      message flags. -/
theorem encode_sound (o : OutMsg) (ds : List Data) (h : encode o = .ok ds) (hw : MsgWF o)
    (hq : questionsSize o ≤ MAX_MSG_ABSOLUTE) :
    ∃ ms : List Ref.Msg,
      ds.map Ref.parse = ms.map some ∧
      (∀ d ∈ ds, d.size ≤ MAX_MSG_ABSOLUTE) ∧
      ms.flatMap (·.questions) = o.questions.map expQ ∧
      (ms.flatMap (·.answers)).Sublist (o.answers.map fun a => expRec a.1 a.2) ∧
      (ms.flatMap (·.authorities)).Sublist (o.authorities.map (expRec · 0)) ∧
      (ms.flatMap (·.additionals)).Sublist (o.additionals.map (expRec · 0)) ∧
      ∃ init last, ms = init ++ [last] ∧
        (∀ m ∈ init, m.flags = (o.flags ||| FLAGS_TC) % 65536) ∧ last.flags = o.flags % 65536 := by
  unfold encode at h
  cases hp : toPackets o with
  | err => simp [hp] at h
  | panic => simp [hp] at h
  | ok ps =>
    simp only [hp, Res.ok.injEq] at h
    subst h
    obtain ⟨init, last, rfl, hi, hl⟩ := toPackets_parse o ps hp hw hq
    obtain ⟨g1, g2, g3, g4⟩ := carried_in_order o _ hp
    refine ⟨expMsgs o (init ++ [last]), ?_, ?_, ?_, ?_, ?_, ?_, ?_⟩
    · rw [expMsgs_append]
      simp only [List.map_append, List.map_map, List.map_cons, List.map_nil]
      congr 1
      · apply List.map_congr_left
        intro p hp'
        simpa [ParseOK] using hi p hp'
      · simpa [ParseOK] using hl
    · intro d hd
      obtain ⟨p, hp', rfl⟩ := List.mem_map.mp hd
      exact packet_size o _ hp hq p hp'
    · rw [expMsgs_append, ← g1]
      simp [List.flatMap_append, expMsg, List.flatMap_map, List.map_flatMap]
    · have := g2.map (fun a => expRec a.1 a.2)
      rw [expMsgs_append]
      simpa [List.flatMap_append, expMsg, List.flatMap_map, List.map_flatMap] using this
    · have := g3.map (expRec · 0)
      rw [expMsgs_append]
      simpa [List.flatMap_append, expMsg, List.flatMap_map, List.map_flatMap] using this
    · have := g4.map (expRec · 0)
      rw [expMsgs_append]
      simpa [List.flatMap_append, expMsg, List.flatMap_map, List.map_flatMap] using this
    · refine ⟨init.map (fun p => expMsg o (wireId o) true p.ghost), expMsg o (wireId o) false last.ghost,
        expMsgs_append o init last, ?_, by simp [expMsg]⟩
      intro m hm
      obtain ⟨p, _, rfl⟩ := List.mem_map.mp hm
      simp [expMsg]

/-- non-vacuity: `ex1` is in the domain, its question section fits, and the reference
    reader does return the three entries with their label sequences (`a.b`: two labels,
    `c\.d.a.b`: first label `c.d`), read through two compression pointers -/
example : MsgWF ex1 ∧ questionsSize ex1 ≤ MAX_MSG_ABSOLUTE := by decide

example : (match encode ex1 with | .ok ds => ds.map Ref.parse | _ => []) =
    [some { id := 0, flags := 0,
            questions := [{ name := [[0x61], [0x62]], qtype := 12, qclass := 1 }],
            answers := [{ name := [[0x61], [0x62]], type := 12, cls := 1, flush := false, ttl := 120,
                          rdata := .ptr [[0x63, 0x2E, 0x64], [0x61], [0x62]] }],
            authorities := [],
            additionals := [{ name := [[0x63, 0x2E, 0x64], [0x61], [0x62]], type := 1, cls := 1, flush := true,
                              ttl := 4500, rdata := .a [10, 0, 0, 1] }] }] := by decide +kernel

/-- The monitor's core predicate `soundCore` (what `./check C02` evaluates on the packets
    of the REAL encoder) is true of every packet list the model produces for a message in
    the domain: it is the conclusion of `encode_sound` in decidable form. -/
theorem soundCore_holds (o : OutMsg) (ds : List Data) (h : encode o = .ok ds) (hw : MsgWF o)
    (hq : questionsSize o ≤ MAX_MSG_ABSOLUTE) : soundCore o ds = true := by
  obtain ⟨ms, h1, h2, h3, h4, h5, h6, init, last, h7, h8, h9⟩ := encode_sound o ds h hw hq
  unfold soundCore
  rw [h1, allSome_map_some]
  simp only [coreOn, Bool.and_eq_true, List.all_eq_true, decide_eq_true_eq, beq_iff_eq]
  refine ⟨h2, ⟨⟨⟨⟨h3, leftOut_of_sublist _ _ h4⟩, leftOut_of_sublist _ _ h5⟩, leftOut_of_sublist _ _ h6⟩, ?_⟩⟩
  subst h7
  simp only [flagsOK, List.reverse_append, List.reverse_cons, List.reverse_nil, List.nil_append,
    List.singleton_append, Bool.and_eq_true, beq_iff_eq, List.all_eq_true, List.mem_reverse]
  exact ⟨h9, h8⟩

example : soundCore ex1 (match encode ex1 with | .ok ds => ds | _ => []) = true := by decide +kernel

/-- The last clause of the property, "the crate's own decoder reads the same content from
    those packets", as a statement about the decoder model of C01 (`Wire.decode`): NOT
    proved here.  It needs a second invariant family (every pointer written by the encoder
    targets a name that starts before the name being read, which is the decoder's rule
    `pointer < start_offset`, plus UTF-8 validity of the labels).  It is checked on every
    run instead: the monitor compares what `DnsIncoming::new` reads from each real packet
    with `viewMsg (Ref.parse packet)` (clauses `own-decoder-rejects`, `own-decoder-differs`). -/
def decode_agrees : Prop :=
  ∀ (o : OutMsg) (ds : List Data), encode o = .ok ds → MsgWF o → questionsSize o ≤ MAX_MSG_ABSOLUTE →
    (∀ n ∈ (o.questions.map (·.name)), ∀ l ∈ labelsOf n, validUtf8 l = true) →
    ∀ d ∈ ds, ∃ m v, Ref.parse d = some m ∧ viewMsg m = some v ∧
      (Wire.decode d).map (fun w => { w with
          answers := w.answers.map ({ · with start := 0, stop := 0 }),
          authorities := w.authorities.map ({ · with start := 0, stop := 0 }),
          additionals := w.additionals.map ({ · with start := 0, stop := 0 }) }) = .ok v

/-- The property at full strength = what `encode_sound` proves + the decoder clause. -/
def C02_full : Prop :=
  (∀ (o : OutMsg) (ds : List Data), encode o = .ok ds → MsgWF o → questionsSize o ≤ MAX_MSG_ABSOLUTE →
    ∃ ms : List Ref.Msg,
      ds.map Ref.parse = ms.map some ∧ (∀ d ∈ ds, d.size ≤ MAX_MSG_ABSOLUTE) ∧
      ms.flatMap (·.questions) = o.questions.map expQ ∧
      (ms.flatMap (·.answers)).Sublist (o.answers.map fun a => expRec a.1 a.2) ∧
      (ms.flatMap (·.authorities)).Sublist (o.authorities.map (expRec · 0)) ∧
      (ms.flatMap (·.additionals)).Sublist (o.additionals.map (expRec · 0)) ∧
      ∃ init last, ms = init ++ [last] ∧
        (∀ m ∈ init, m.flags = (o.flags ||| FLAGS_TC) % 65536) ∧ last.flags = o.flags % 65536) ∧
  decode_agrees

/-- `C02_full` with the decoder clause as the one missing piece. -/
theorem encode_sound_partial (hd : decode_agrees) : C02_full :=
  ⟨fun o ds h hw hq => encode_sound o ds h hw hq, hd⟩

end Mdns.Props.C02
