import Mdns.Lemmas.Sched
import Mdns.Model.Cache
/-
  C17  Hostname resolution: right addresses, case-insensitive, ends on time.

  Scheduler part on `Mdns/Model/Sched.lean` (exact on responder-free histories);
  the address events are decided by the monitor `ok_C17` on real histories from the records
  that were delivered (independent of the daemon's cache).
-/
namespace Mdns.Props.C17
open Mdns Mdns.Sched

/-- the search is keyed by the lower-cased host name: starting, stopping and the time-out
    look-up do not depend on the letter case the caller used -/
theorem stop_case_insensitive (s : State) (h1 h2 : BList) (h : lower h1 = lower h2) :
    execStopResolve s h1 = execStopResolve s h2 := by
  simp [execStopResolve, h]

/-- `resolve_hostname` asks for A and AAAA at once and registers the search under the
    lower-cased name with its deadline -/
theorem resolve_starts (s : State) (now : Nat) (host : BList) (ch : Nat) (timeout : Option Nat) :
    (execCommand s now (.resolveHost host ch timeout)).2 = [.event ch .hstarted, .query [(host, 1), (host, 28)]] ∧
    (execCommand s now (.resolveHost host ch timeout)).1.resolvers.find? (·.1 == lower host) =
      some (lower host, ch, timeout.map (now + ·)) := by
  simp only [execCommand, execResolve, Bool.false_and, Bool.false_eq_true, ↓reduceIte]
  refine ⟨trivial, ?_⟩
  repeat' split
  all_goals simp [addRerun]

/-- the retransmission after `delay` seconds is queued only if it falls before the deadline -/
theorem no_rerun_beyond_deadline (s : State) (now : Nat) (host : BList) (ch t : Nat)
    (hlate : ¬ now + 1000 < now + t) :
    (execCommand s now (.resolveHost host ch (some t))).1.reruns.filter (isResolveOf (lower host)) = [] := by
  simp only [execCommand, execResolve, Bool.false_and, Bool.false_eq_true, ↓reduceIte]
  have : withinDeadline
      { s with reruns := s.reruns.filter (fun r => !isResolveOf (lower host) r),
               resolvers := (lower host, ch, (some t).map (now + ·)) :: s.resolvers.filter (fun q => q.1 != lower host),
               timers := (match (some t).map (now + ·) with | some t => [t] | none => []) ++ s.timers }
      (lower host) (now + 1 * 1000) = false := by
    simp only [withinDeadline, List.find?_cons, beq_self_eq_true, Option.map_some, Option.bind_some,
      decide_eq_false_iff_not]
    omega
  simp only [Option.map_some] at this ⊢
  rw [this]
  exact filter_not_self _ _

/-- at the deadline: `SearchTimeout`, then `SearchStopped`, and the search is gone
    (see also `Mdns.Props.C13.timeout_contract`, `rerun_of_gone_search_is_noop`) -/
theorem timeout_ends_search (s : State) (now : Nat) (key : BList) (ch t : Nat)
    (h : s.resolvers = [(key, ch, some t)]) (hdue : now ≥ t) :
    (runTimeouts s now).2 = [.event ch .htimeout, .event ch .hstopped] ∧ (runTimeouts s now).1.resolvers = [] := by
  simp [runTimeouts, h, hdue]

/-- address look-ups of the cache are made under the lower-cased name, so records are found
    whatever letter case the responder used -/
theorem entries_case_insensitive (c : Cache.Cache) (n1 n2 : BList) (h : lower n1 = lower n2) :
    Cache.entriesFor c n1 1 = Cache.entriesFor c n2 1 ∧ Cache.entriesFor c n1 28 = Cache.entriesFor c n2 28 := by
  simp [Cache.entriesFor, h]

example : (execCommand (init 0) 0 (.resolveHost [0x48] 1 (some 500))).1.reruns = [] := by decide

end Mdns.Props.C17
