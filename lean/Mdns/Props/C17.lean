import Mdns.Lemmas.Sched
import Mdns.Lemmas.ClientTimers
import Mdns.Props.C03
import Mdns.Props.C04
/-
  C17  Hostname resolution: right addresses, case-insensitive, ends on time.

  Model: `Mdns/Model/Client.lean` (one loop iteration `Client.iter`; compared with the real
  daemon on every run: queries, events with payload, metrics, wake-up).  The theorems of the
  first part hold for ANY sequence of iterations from the start of the daemon (any times,
  packets, commands).  The last section keeps the older statements about the scheduler
  fragment `Mdns/Model/Sched.lean`.
-/
namespace Mdns.Props.C17

section ClientModel
open Mdns Mdns.Rec Mdns.Cache Mdns.Client

/-- all commands of a history of iterations -/
def cmdsOf (h : List (Nat × List Packet × List Command)) : List Command := h.flatMap (·.2.2)

/-- the time of the last iteration of a history (`T` if it has none) -/
def lastTime : Nat → List (Nat × List Packet × List Command) → Nat
  | T, [] => T
  | _, (now, _, _) :: rest => lastTime now rest

theorem histOf_append : ∀ (a b : List (Nat × List Packet × List Command)) (s : State),
    C03.histOf s (a ++ b) = C03.histOf s a ++ C03.histOf (run s a).1 b
  | [], _, _ => by simp [C03.histOf, run]
  | (now, pkts, cmds) :: a, b, s => by
    simp only [List.cons_append, C03.histOf, run]
    rw [histOf_append a b]
    simp only [List.append_assoc]

theorem cmdsOf_append (a b : List (Nat × List Packet × List Command)) : cmdsOf (a ++ b) = cmdsOf a ++ cmdsOf b := by
  simp [cmdsOf]

/-! ### invariants of whole histories -/

/-- after a history every cached entry is justified by a delivered record -/
theorem run_prov (pre : List (Nat × List Packet × List Command)) (t0 : Nat) (intfs : List Intf) :
    CacheProv (C03.histOf (init t0 intfs) pre) (run (init t0 intfs) pre).1.cache := by
  simpa using (C03.resolved_sound_run pre [] (init t0 intfs) (cacheProv_empty [])).1

/-- after a history no cached entry had expired at the time of its last iteration -/
theorem run_live : ∀ (pre : List (Nat × List Packet × List Command)) (s : State) (T : Nat),
    CacheAll (fun e => T < e.record.expires) s.cache →
    CacheAll (fun e => lastTime T pre < e.record.expires) (run s pre).1.cache
  | [], _, _, h => h
  | (now, pkts, cmds) :: rest, s, _, _ => by
    simp only [run, lastTime]
    exact run_live rest _ now (iter_allLive s now pkts cmds).1

/-- after a history every open hostname search stems from a `resolve_hostname` command of it -/
theorem run_resolversFrom : ∀ (pre : List (Nat × List Packet × List Command)) (s : State) (all0 : List Command),
    ResolversFrom all0 s.resolvers → ResolversFrom (all0 ++ cmdsOf pre) (run s pre).1.resolvers
  | [], _, _, h => by simpa [cmdsOf, run] using h
  | (now, pkts, cmds) :: rest, s, all0, h => by
    have h1 : ResolversFrom (all0 ++ cmds) (iter s now pkts cmds).1.resolvers :=
      resolversFrom_iter _ s now pkts cmds (fun c hc => List.mem_append_right _ hc)
        (h.mono fun c hc => List.mem_append_left _ hc)
    have h2 := run_resolversFrom rest _ _ h1
    simpa [run, cmdsOf, List.append_assoc] using h2

/-! ### (a) `AddressesFound` lists only addresses that were received for that name -/

/-- What an `AddressesFound(host, addrs)` on channel `ch` says, in terms of the commands given
    and the records DELIVERED to the daemon (`now` = time of the iteration that emits it):
    * a `resolve_hostname` command with this channel asked for a name that equals `host` up to
      letter case;
    * every listed address comes from a delivered A / AAAA record whose owner name is `host`
      (byte for byte: the event is per owner name as received), with that address, tagged with
      the interface it arrived on, and whose lifetime (delivery time + TTL) ends after `now`:
      the record is unexpired at the instant of the event (since the repair of D44; before it
      only "had not ended at the previous iteration" held). -/
structure HFoundFrom (hist : List Delivery) (cmds : List Command) (now ch : Nat) (host : BList)
    (addrs : List AddrItem) : Prop where
  search : ∃ h t, Command.resolveHost h ch t ∈ cmds ∧ lower h = lower host
  addr : ∀ a ∈ addrs, ∃ d ∈ hist, d.wire.name = host ∧ (d.wire.ty = 1 ∨ d.wire.ty = 28) ∧
    (d.wire.rdata = .a a.1 ∨ d.wire.rdata = .aaaa a.1) ∧ d.ifName = a.2.1 ∧ d.ifIdx = a.2.2 ∧
    now < d.time + 1000 * d.wire.ttl

/-- a cached address entry with its justification, in terms of the delivery -/
theorem addr_entry_delivered (hist : List Delivery) (c : Cache) (hc : CacheProv hist c) (key : BList) (e : Entry)
    (he : e ∈ (c.addr.get key).getD []) (a : AddrItem) (ha : addrItemOf e = some a) :
    lower e.record.name = key ∧
    ∃ d ∈ hist, d.wire.name = e.record.name ∧ (d.wire.ty = 1 ∨ d.wire.ty = 28) ∧
      (d.wire.rdata = .a a.1 ∨ d.wire.rdata = .aaaa a.1) ∧ d.ifName = a.2.1 ∧ d.ifIdx = a.2.2 ∧
      e.record.expires ≤ d.time + 1000 * d.wire.ttl := by
  obtain ⟨q, hq, hqk, hqe⟩ := mem_getD _ _ e he
  obtain ⟨⟨d, hd, j⟩, hf⟩ := hc .addr q hq e hqe
  refine ⟨by rw [← hqk]; exact hf.2, d, hd, j.1.symm, ?_, ?_⟩
  · rw [← j.2.1]; exact C03.slot_addr hf.1
  · have h5 := j.2.2.2.2.1
    rw [mem_addrItemOf ha] at h5
    have h8 := j.2.2.2.2.2.2.2
    cases hw : d.wire.rdata <;> simp [ofWire, Record.new, hw] at h5
    · obtain ⟨h1, h2, h3⟩ := h5
      exact ⟨Or.inl (by rw [h1]), h2.symm, h3.symm, h8⟩
    · obtain ⟨h1, h2, h3⟩ := h5
      exact ⟨Or.inr (by rw [h1]), h2.symm, h3.symm, h8⟩

/-- **The list is the unexpired part of the cache (cache-level contract, any cache).**  A group
    `(host, addrs)` of `get_addresses_for_host(name)` at `now`: the set of addresses (with
    interface) of the entries filed under the lower-cased name whose owner name is `host` and
    that are NOT expired at `now` (`now < expires`) - all of them, and nothing else; and the
    list is never empty (a name whose addresses have all run out gets no event). -/
theorem hfound_lists_all (c : Cache) (now : Nat) (name host : BList) (addrs : List AddrItem)
    (h : (host, addrs) ∈ addressesForHost c now name) :
    (∀ a, a ∈ addrs ↔ ∃ e ∈ (c.addr.get (lower name)).getD [], now < e.record.expires ∧ e.record.name = host ∧
      addrItemOf e = some a) ∧
    addrs ≠ [] := by
  obtain ⟨⟨e0, he0, hl0, hn0, a0, ha0⟩, hiff⟩ := mem_addressesForHost c now name host addrs h
  refine ⟨hiff, fun hnil => ?_⟩
  have : a0 ∈ addrs := (hiff a0).mpr ⟨e0, he0, hl0, hn0, ha0⟩
  rw [hnil] at this
  cases this

/-- a group of `get_addresses_for_host(name)` at `now` on a justified cache: every address is
    that of a delivered record whose lifetime ends after `now` -/
theorem group_sound (hist : List Delivery) (now : Nat) (c : Cache) (hc : CacheProv hist c)
    (name host : BList) (addrs : List AddrItem)
    (hm : (host, addrs) ∈ addressesForHost c now name) :
    lower host = lower name ∧
    ∀ a ∈ addrs, ∃ d ∈ hist, d.wire.name = host ∧ (d.wire.ty = 1 ∨ d.wire.ty = 28) ∧
      (d.wire.rdata = .a a.1 ∨ d.wire.rdata = .aaaa a.1) ∧ d.ifName = a.2.1 ∧ d.ifIdx = a.2.2 ∧
      now < d.time + 1000 * d.wire.ttl := by
  obtain ⟨⟨e0, he0, _, hn0, _⟩, hiff⟩ := mem_addressesForHost c now name host addrs hm
  refine ⟨?_, ?_⟩
  · obtain ⟨q, hq, hqk, hqe⟩ := mem_getD _ _ e0 he0
    have hf0 := (hc .addr q hq e0 hqe).2
    rw [← hn0, ← hqk]
    exact hf0.2
  · intro a ha
    obtain ⟨e, he, hlive, hn, hi⟩ := (hiff a).mp ha
    obtain ⟨_, d, hd, h1, h2, h3, h4, h5, h6⟩ := addr_entry_delivered hist c hc _ e he a hi
    exact ⟨d, hd, h1.trans hn, h2, h3, h4, h5, by omega⟩

/-- the cache as it is at a moment of the iteration `iter s now pkts cmds` at which an
    `AddressesFound` can be assembled: when one of its datagrams has just been read (after the
    datagrams before it), or when one of its commands is executed (after the ingress and
    time-out phases and the commands before it) -/
def EventCache (s : State) (now : Nat) (pkts : List Packet) (cmds : List Command) (c : Cache) : Prop :=
  (∃ pre p post, pkts = pre ++ p :: post ∧ c = (ingress s now (pre ++ [p])).1.cache) ∨
  (∃ pre c0 post, cmds = pre ++ c0 :: post ∧ c = (runCommands (preCommands s now pkts) now pre).1.cache)

/-- **hfound_unexpired (the statement D44 violated; every state, every input).**  Take ANY
    state of the daemon and ANY iteration at time `now` (any datagrams, any commands; however
    late the iteration comes).  Every address listed by an `AddressesFound(host, addrs)` it
    emits is the address (with interface) of a record of owner name `host` that is in the cache
    at the moment the event is assembled and is NOT expired at `now` (`now < expires`); the
    list is never empty.  Before the repair the list was made of all cached records, and on a
    late iteration - `handle_response` runs before the eviction - it contained records that
    had run out. -/
theorem hfound_unexpired (s : State) (now : Nat) (pkts : List Packet) (cmds : List Command) (ch : Nat)
    (host : BList) (addrs : List AddrItem)
    (hm : Out.event ch (.hfound host addrs) ∈ (iter s now pkts cmds).2) :
    ∃ c name, EventCache s now pkts cmds c ∧ addrs ≠ [] ∧
      ∀ a ∈ addrs, ∃ e ∈ (c.addr.get (lower name)).getD [], e.record.name = host ∧ addrItemOf e = some a ∧
        e.record.isExpired now = false := by
  have key : ∀ (c : Cache) (name : BList), (host, addrs) ∈ addressesForHost c now name →
      addrs ≠ [] ∧ ∀ a ∈ addrs, ∃ e ∈ (c.addr.get (lower name)).getD [], e.record.name = host ∧
        addrItemOf e = some a ∧ e.record.isExpired now = false := by
    intro c name hg
    obtain ⟨⟨e0, he0, hl0, hn0, a0, ha0⟩, hiff⟩ := mem_addressesForHost c now name host addrs hg
    refine ⟨?_, ?_⟩
    · intro hnil
      have : a0 ∈ addrs := (hiff a0).mpr ⟨e0, he0, hl0, hn0, ha0⟩
      rw [hnil] at this
      cases this
    · intro a ha
      obtain ⟨e, he, hl, hn, hi⟩ := (hiff a).mp ha
      exact ⟨e, he, hn, hi, by simp [Record.isExpired]; omega⟩
  rcases hfound_iter s now pkts cmds ch host addrs hm with ⟨pre, p, post, name, hp, _, hg⟩ | ⟨pre, h0, t, post, hp, hg⟩
  · exact ⟨_, name, Or.inl ⟨pre, p, post, hp, rfl⟩, key _ name hg⟩
  · exact ⟨_, h0, Or.inr ⟨pre, _, post, hp, rfl⟩, key _ h0 hg⟩

/-- **hfound_sound (one iteration).**  From a cache justified by the deliveries `hist` and a
    resolver table that stems from the commands `cmds0`: every `AddressesFound` of the
    iteration is as `HFoundFrom` says.  No assumption on when the iteration comes. -/
theorem hfound_sound_iter (hist : List Delivery) (cmds0 : List Command) (s : State) (now : Nat)
    (pkts : List Packet) (cmds : List Command) (hc : CacheProv hist s.cache)
    (hr : ResolversFrom cmds0 s.resolvers)
    (ch : Nat) (host : BList) (addrs : List AddrItem)
    (hm : Out.event ch (.hfound host addrs) ∈ (iter s now pkts cmds).2) :
    HFoundFrom (hist ++ deliveries s now pkts) (cmds0 ++ cmds) now ch host addrs := by
  rcases hfound_iter s now pkts cmds ch host addrs hm with ⟨pre, p, post, name, hp, hch, hg⟩ | ⟨pre, h0, t, post, hp, hg⟩
  · -- assembled in `handle_response`
    have hprov := (ok_ingress now (pre ++ [p]) hist s hc).1
    obtain ⟨hlow, haddr⟩ := group_sound _ now _ hprov name host addrs hg
    obtain ⟨q, hq, hqk, hqc⟩ := resolverChan_mem s name ch hch
    obtain ⟨h1, t1, hcmd, hk⟩ := hr q hq
    refine ⟨⟨h1, t1, List.mem_append_left _ (hqc ▸ hcmd), ?_⟩, ?_⟩
    · rw [hlow, ← hqk, hk]
    · intro a ha
      obtain ⟨d, hd, rest⟩ := haddr a ha
      refine ⟨d, ?_, rest⟩
      rcases List.mem_append.mp hd with hd | hd
      · exact List.mem_append_left _ hd
      · exact List.mem_append_right _ (hp ▸ deliveries_prefix_sub s now pre p post d hd)
  · -- the cache replay of a `resolve_hostname` command
    have hL := lowClosed_cacheProv (hist ++ deliveries s now pkts)
    have hprov := (ok_runCommands _ hL now pre _ (prov_preCommands hist s now pkts hc)).1
    obtain ⟨hlow, haddr⟩ := group_sound _ now _ hprov h0 host addrs hg
    refine ⟨⟨h0, t, List.mem_append_right _ (by rw [hp]; simp), hlow.symm⟩, haddr⟩

/-- **hfound_sound (whole histories).**  Start the daemon and run ANY history `pre`, then one
    more iteration at ANY time `now`: every `AddressesFound(host, addrs)` it emits on a channel
    `ch` answers a `resolve_hostname` call made on `ch` for that name (letter case ignored),
    and every listed address comes from a delivered A / AAAA record of exactly that owner name,
    with the interface it was received on, whose lifetime ends after `now`. -/
theorem hfound_sound (t0 : Nat) (intfs : List Intf) (pre : List (Nat × List Packet × List Command))
    (now : Nat) (pkts : List Packet) (cmds : List Command) (ch : Nat) (host : BList) (addrs : List AddrItem)
    (hm : Out.event ch (.hfound host addrs) ∈ (iter (run (init t0 intfs) pre).1 now pkts cmds).2) :
    HFoundFrom (C03.histOf (init t0 intfs) (pre ++ [(now, pkts, cmds)])) (cmdsOf (pre ++ [(now, pkts, cmds)]))
      now ch host addrs := by
  have h := hfound_sound_iter _ (cmdsOf pre) _ now pkts cmds (run_prov pre t0 intfs)
    (by simpa using run_resolversFrom pre (init t0 intfs) [] (fun q hq => by cases hq)) ch host addrs hm
  rw [histOf_append, cmdsOf_append]
  simpa [C03.histOf, cmdsOf] using h

/-- C17, first clause, read with "unexpired at the instant of the event": every address of an
    `AddressesFound` at `now` comes from a delivered record whose lifetime ends after `now`. -/
def hfound_unexpired_full : Prop :=
  ∀ (t0 : Nat) (intfs : List Intf) (pre : List (Nat × List Packet × List Command)) (now : Nat) (pkts : List Packet)
    (cmds : List Command) (ch : Nat) (host : BList) (addrs : List AddrItem),
    Out.event ch (.hfound host addrs) ∈ (iter (run (init t0 intfs) pre).1 now pkts cmds).2 →
    ∀ a ∈ addrs, ∃ d ∈ C03.histOf (init t0 intfs) (pre ++ [(now, pkts, cmds)]),
      (d.wire.rdata = .a a.1 ∨ d.wire.rdata = .aaaa a.1) ∧ now < d.time + 1000 * d.wire.ttl

/-- **The full statement holds** (it was refuted - `hfound_unexpired_full_false`, witness
    `lateHistory` - as long as `get_addresses_for_host` did not look at expiry times, D44):
    after ANY history from the start of the daemon, at an iteration that comes at ANY time,
    every address of every `AddressesFound` comes from a delivered record whose lifetime ends
    after the instant of the event. -/
theorem hfound_unexpired_full_holds : hfound_unexpired_full := by
  intro t0 intfs pre now pkts cmds ch host addrs hm a ha
  obtain ⟨d, hd, _, _, h3, _, _, h6⟩ := (hfound_sound t0 intfs pre now pkts cmds ch host addrs hm).addr a ha
  exact ⟨d, hd, h3, h6⟩

/-! regression (the witness of D44): an address with TTL 1 s is delivered at 1500; the next
    iteration comes at 5000 (a late loop iteration) and reads another address of the host.
    `handle_response` runs before the eviction of that iteration; `get_addresses_for_host`
    skips the record that ran out at 2500: the event lists the new address only, and the old
    one is reported removed at the end of the same iteration.  (Before the repair the event
    listed both.) -/

def hostH : BList := [0x48, 0x2e]              -- "H."
def hostLower : BList := [0x68, 0x2e]          -- "h."

def addrPkt (name : BList) (ttl : Nat) (ip : BList) : Packet :=
  { ifIdx := 2, v4 := true,
    msg := { id := 0, flags := 0x8400, questions := [], answers := [C03.wrec name 1 ttl (.a ip)],
             authorities := [], additionals := [] } }

def lateHistory : List (Nat × List Packet × List Command) :=
  [(1000, [], [.resolveHost hostH 7 none]), (1500, [addrPkt hostLower 1 [10, 0, 0, 1]], [])]

theorem D44_regression :
    ((iter (run (init 1000 [C03.eth0]) lateHistory).1 5000 [addrPkt hostLower 120 [10, 0, 0, 2]] []).2.filter
        fun o => match o with | .event _ (.hfound ..) => true | .event _ (.hremoved ..) => true | _ => false) =
      [.event 7 (.hfound hostLower [([10, 0, 0, 2], [0x65], 2)]),
       .event 7 (.hremoved hostLower [([10, 0, 0, 1], [0x65], 2)])] := by decide

/-- the cache replay of `resolve_hostname` skips expired entries too: the search is started
    again at 5000, in the late iteration itself (commands run before the eviction): no
    `AddressesFound` at all for the name whose only address ran out at 2500 - not an empty one -/
example :
    ((iter (run (init 1000 [C03.eth0]) lateHistory).1 5000 [] [.resolveHost hostH 8 none]).2.filter
        fun o => match o with | .event _ (.hfound ..) => true | .event _ (.hremoved ..) => true | _ => false) =
      [.event 8 (.hremoved hostLower [([10, 0, 0, 1], [0x65], 2)])] := by decide

/-- ... and one millisecond before the expiry the address is still listed by the replay -/
example :
    ((iter (run (init 1000 [C03.eth0]) lateHistory).1 2499 [] [.resolveHost hostH 8 none]).2.filter
        fun o => match o with | .event _ (.hfound ..) => true | .event _ (.hremoved ..) => true | _ => false) =
      [.event 8 (.hfound hostLower [([10, 0, 0, 1], [0x65], 2)])] := by decide

/-! ### (b) `AddressesRemoved` only for addresses whose entries ran out in that iteration -/

/-- What an `AddressesRemoved(host, addrs)` on `ch` says (`T` = time of the previous iteration):
    a `resolve_hostname` command with this channel asked for that name (letter case ignored);
    the list is not empty; and every listed address is that of a cached copy of a delivered
    A / AAAA record of exactly that owner name, on that interface, whose expiry instant `x`
    - never later than the record's lifetime allows; earlier after a goodbye, a cache-flush or
    a `verify` - lies in this iteration: `x ≤ now`, and `T < x` or `x = now`. -/
structure HRemovedFrom (hist : List Delivery) (cmds : List Command) (T now ch : Nat) (host : BList)
    (addrs : List AddrItem) : Prop where
  search : ∃ h t, Command.resolveHost h ch t ∈ cmds ∧ lower h = lower host
  ne : addrs ≠ []
  addr : ∀ a ∈ addrs, ∃ d ∈ hist, d.wire.name = host ∧ (d.wire.ty = 1 ∨ d.wire.ty = 28) ∧
    (d.wire.rdata = .a a.1 ∨ d.wire.rdata = .aaaa a.1) ∧ d.ifName = a.2.1 ∧ d.ifIdx = a.2.2 ∧
    ∃ x, x ≤ d.time + 1000 * d.wire.ttl ∧ x ≤ now ∧ (T < x ∨ now ≤ x)

theorem evictServicesPhase_addr (s : State) (now : Nat) : (evictServicesPhase s now).1.cache.addr = s.cache.addr := rfl

theorem evictServicesPhase_resolvers (s : State) (now : Nat) : (evictServicesPhase s now).1.resolvers = s.resolvers := rfl

theorem preEvict_resolvers (s : State) (now : Nat) (pkts : List Packet) (cmds : List Command) :
    (preEvict s now pkts cmds).resolvers = (iter s now pkts cmds).1.resolvers := by
  rw [iter_resolvers]
  simp only [preEvict, refreshResolvers, refreshActive, addTimers_resolvers, rerunPhase, runReruns_resolvers]

/-- **hremoved_sound (one iteration)** -/
theorem hremoved_sound_iter (hist : List Delivery) (cmds0 : List Command) (T : Nat) (s : State) (now : Nat)
    (pkts : List Packet) (cmds : List Command) (hc : CacheProv hist s.cache)
    (hl : CacheAll (fun e => T < e.record.expires) s.cache) (hr : ResolversFrom cmds0 s.resolvers)
    (ch : Nat) (host : BList) (addrs : List AddrItem)
    (hm : Out.event ch (.hremoved host addrs) ∈ (iter s now pkts cmds).2) :
    HRemovedFrom (hist ++ deliveries s now pkts) (cmds0 ++ cmds) T now ch host addrs := by
  have hfl : CacheAll (Floor T now) s.cache := hl.mono fun e he => Or.inl he
  obtain ⟨hch, hne, hiff⟩ := hremoved_evictAddrPhase _ now ch host addrs (hremoved_iter s now pkts cmds ch host addrs hm)
  have hprov := prov_preEvict hist s now pkts cmds hc
  have hfloor := floor_preEvict T now s pkts cmds hfl
  have hres : ResolversFrom (cmds0 ++ cmds) (iter s now pkts cmds).1.resolvers :=
    resolversFrom_iter _ s now pkts cmds (fun c hc => List.mem_append_right _ hc)
      (hr.mono fun c hc => List.mem_append_left _ hc)
  have hentry : ∀ a ∈ addrs, ∃ p ∈ (preEvict s now pkts cmds).cache.addr, ∃ e ∈ p.2, e.record.expires ≤ now ∧
      e.record.name = host ∧ e.record.rdata = .addr a.1 a.2.1 a.2.2 := by
    intro a ha
    exact (hiff a).mp ha
  refine ⟨?_, hne, ?_⟩
  · obtain ⟨q, hq, hqk, hqc⟩ := resolverChan_mem _ host ch hch
    rw [evictServicesPhase_resolvers, preEvict_resolvers] at hq
    obtain ⟨h1, t1, hcmd, hk⟩ := hres q hq
    exact ⟨h1, t1, hqc ▸ hcmd, by rw [← hk, hqk]⟩
  · intro a ha
    obtain ⟨p, hp, e, he, hx, hn, hrd⟩ := hentry a ha
    obtain ⟨⟨d, hd, j⟩, hf⟩ := hprov .addr p hp e he
    have h8 := j.2.2.2.2.2.2.2
    have hty : d.wire.ty = 1 ∨ d.wire.ty = 28 := by rw [← j.2.1]; exact C03.slot_addr hf.1
    have h5 := j.2.2.2.2.1
    rw [hrd] at h5
    have hfl := hfloor .addr p hp e he
    cases hw : d.wire.rdata <;> simp [ofWire, Record.new, hw] at h5
    · obtain ⟨h1, h2, h3⟩ := h5
      exact ⟨d, hd, j.1.symm.trans hn, hty, Or.inl (by rw [h1]; exact hw), h2.symm, h3.symm, e.record.expires, h8, hx, hfl⟩
    · obtain ⟨h1, h2, h3⟩ := h5
      exact ⟨d, hd, j.1.symm.trans hn, hty, Or.inr (by rw [h1]; exact hw), h2.symm, h3.symm, e.record.expires, h8, hx, hfl⟩

/-- **hremoved_sound (whole histories).**  Start the daemon and run ANY history `pre`, then one
    more iteration: every `AddressesRemoved` it emits is as `HRemovedFrom` says - for a searched
    name, never empty, and only addresses whose cached record ran out (by TTL, goodbye, cache
    flush or `verify`) in this very iteration. -/
theorem hremoved_sound (t0 : Nat) (intfs : List Intf) (pre : List (Nat × List Packet × List Command))
    (now : Nat) (pkts : List Packet) (cmds : List Command) (ch : Nat) (host : BList) (addrs : List AddrItem)
    (hm : Out.event ch (.hremoved host addrs) ∈ (iter (run (init t0 intfs) pre).1 now pkts cmds).2) :
    HRemovedFrom (C03.histOf (init t0 intfs) (pre ++ [(now, pkts, cmds)])) (cmdsOf (pre ++ [(now, pkts, cmds)]))
      (lastTime 0 pre) now ch host addrs := by
  have h := hremoved_sound_iter _ (cmdsOf pre) (lastTime 0 pre) _ now pkts cmds (run_prov pre t0 intfs)
    (run_live pre (init t0 intfs) 0 (cacheAll_empty _))
    (by simpa using run_resolversFrom pre (init t0 intfs) [] (fun q hq => by cases hq)) ch host addrs hm
  rw [histOf_append, cmdsOf_append]
  simpa [C03.histOf, cmdsOf] using h

/-- ... and exactly those: the eviction step reports every address entry of that owner name that
    has run out (`expires ≤ now`) when the name is being resolved (cache-level contract), and
    after the iteration no entry with `expires ≤ now` is left (`Client.iter_allLive`). -/
theorem hremoved_exact (s : State) (now : Nat) (ch : Nat) (host : BList) (addrs : List AddrItem)
    (h : Out.event ch (.hremoved host addrs) ∈ (evictAddrPhase s now).2) (a : AddrItem) :
    a ∈ addrs ↔ ∃ p ∈ s.cache.addr, ∃ e ∈ p.2, e.record.expires ≤ now ∧ e.record.name = host ∧
      e.record.rdata = .addr a.1 a.2.1 a.2.2 :=
  (hremoved_evictAddrPhase s now ch host addrs h).2.2 a

/-! ### (c) `AddressesFound` is complete: a new address of a searched host is reported at once -/

/-- **hfound_complete (step contract, one datagram).**  `handle_response` reads the records
    `pre ++ r :: post` of a datagram on interface `intf`.  `r` is an A / AAAA record with
    address `ip` whose name (any letter case) has an open search on channel `ch`, and when its
    turn comes `add_or_update` reports it as new.  Then an `AddressesFound` for that owner name
    that lists `ip`, tagged with the receiving interface, goes to `ch` in this very
    `handle_response`.  `httl`: the record and those read after it have TTL ≥ 1 - what the
    decoder guarantees for every record of a response (`Wire.readRR_spec`: TTL 0 is read as 1) -
    so that the new entry is not expired at `now` when the list is made (`hfound_unexpired`). -/
theorem hfound_complete (s : State) (now : Nat) (intf : Intf) (m : Wire.Msg) (pre : List Wire.Rec)
    (r : Wire.Rec) (post : List Wire.Rec) (ch : Nat) (ip : BList) (e : Entry)
    (hrecs : m.answers ++ m.authorities ++ m.additionals = pre ++ r :: post)
    (httl : ∀ x ∈ r :: post, 1 ≤ x.ttl)
    (hty : r.ty = 1 ∨ r.ty = 28) (hrd : r.rdata = .a ip ∨ r.rdata = .aaaa ip)
    (hch : resolverChan s r.name = some ch)
    (hnew : (addOrUpdate
        (ingestAll s.queriers intf.name intf.idx now (isForUs s m.answers)
          { cache := s.cache, timers := [], changes := [], outs := [] } pre).cache
        intf.name intf.idx (ofWire intf.name intf.idx now r) now (isForUs s m.answers)).result = some (e, true)) :
    ∃ addrs, Out.event ch (.hfound r.name addrs) ∈ (handleResponse s now intf m).2 ∧
      (ip, intf.name, intf.idx) ∈ addrs :=
  hfound_complete_response s now intf m pre r post ch ip e hrecs httl hty hrd hch hnew

/-- when `add_or_update` reports a record as new: the message is one the daemon takes in
    (`is_for_us`), and every cached copy of the record (same owner, type, class, cache-flush bit,
    RDATA and interface) is a withdrawn one (TTL ≤ 1) while the incoming TTL is above 1 - in
    particular when there is no cached copy -/
theorem new_when_unknown_or_revived (c : Cache) (ifName : BList) (ifIdx now : Nat) (r : Wire.Rec)
    (hty : r.ty = 1 ∨ r.ty = 28) (httl : r.ttl > 1)
    (hrev : ∀ x ∈ (c.addr.get (lower r.name)).getD [],
      x.record.matchesRec (ofWire ifName ifIdx now r) = true → x.record.ttl ≤ 1) :
    ∃ e, (addOrUpdate c ifName ifIdx (ofWire ifName ifIdx now r) now true).result = some (e, true) := by
  obtain ⟨e, he⟩ := addOrUpdate_result_some c ifName ifIdx (ofWire ifName ifIdx now r) now .addr (slotOf_addr hty)
  refine ⟨e, ?_⟩
  rw [he]
  have hflag := C04.revived_is_new (ofWire ifName ifIdx now r) now
    ((((noteSubtype c (ofWire ifName ifIdx now r) true).table .addr).get (keyOf .addr (ofWire ifName ifIdx now r).name)).getD [])
    httl (by
      intro x hx
      rw [table_noteSubtype] at hx
      exact hrev x hx)
  have : isNewFlag = C04.newFlag := rfl
  rw [this, hflag]

/-- **hfound_complete, first record of a datagram the daemon takes in**: an address that is not
    cached yet (or cached only as a withdrawn record) for a searched name, TTL above 1 s (the
    records after it with TTL ≥ 1, as decoded) -/
theorem hfound_complete_first (s : State) (now : Nat) (intf : Intf) (m : Wire.Msg)
    (r : Wire.Rec) (post : List Wire.Rec) (ch : Nat) (ip : BList)
    (hrecs : m.answers ++ m.authorities ++ m.additionals = r :: post)
    (hpost : ∀ x ∈ post, 1 ≤ x.ttl)
    (hfor : isForUs s m.answers = true)
    (hty : r.ty = 1 ∨ r.ty = 28) (hrd : r.rdata = .a ip ∨ r.rdata = .aaaa ip) (httl : r.ttl > 1)
    (hch : resolverChan s r.name = some ch)
    (hrev : ∀ x ∈ (s.cache.addr.get (lower r.name)).getD [],
      x.record.matchesRec (ofWire intf.name intf.idx now r) = true → x.record.ttl ≤ 1) :
    ∃ addrs, Out.event ch (.hfound r.name addrs) ∈ (handleResponse s now intf m).2 ∧
      (ip, intf.name, intf.idx) ∈ addrs := by
  obtain ⟨e, he⟩ := new_when_unknown_or_revived s.cache intf.name intf.idx now r hty httl hrev
  exact hfound_complete s now intf m [] r post ch ip e (by simpa using hrecs)
    (fun x hx => by
      rcases List.mem_cons.mp hx with rfl | hx
      · omega
      · exact hpost x hx) hty hrd hch (by
    rw [hfor]
    exact he)

/-- ... and the events of a datagram are events of the iteration that reads it -/
theorem response_outs_in_iter (s : State) (now : Nat) (pkts pre : List Packet) (p : Packet) (post : List Packet)
    (cmds : List Command) (intf : Intf) (o : Out)
    (hp : pkts = pre ++ p :: post)
    (hread : handleRead (ingress s now pre).1 now p = handleResponse (ingress s now pre).1 now intf p.msg)
    (ho : o ∈ (handleResponse (ingress s now pre).1 now intf p.msg).2) :
    o ∈ (iter s now pkts cmds).2 :=
  hfound_complete_iter s now pkts pre p post cmds intf o hp hread ho

/-! ### (d) A and AAAA at once, then at doubling intervals; the time-out ends the search -/

/-- **Start.**  `resolve_hostname(host)` on `ch`: `SearchStarted`, the addresses already cached
    for the name and not expired (one `AddressesFound` per owner name), then ONE query asking A and AAAA for
    the name as given, with the known answers; the search is filed under the lower-cased name
    with its deadline `now + timeout`, a timer is armed for the deadline, and any earlier search
    of that name (any letter case) is replaced. -/
theorem resolve_starts_client (s : State) (now : Nat) (host : BList) (ch : Nat) (timeout : Option Nat) :
    (execCommand s now (.resolveHost host ch timeout)).2 =
      [.event ch .hstarted] ++ ((addressesForHost s.cache now host).map fun p => Out.event ch (.hfound p.1 p.2)) ++
        [sendQuery s.cache now [(host, 1), (host, 28)]] ∧
    (execCommand s now (.resolveHost host ch timeout)).1.resolvers =
      (lower host, ch, timeout.map (now + ·)) :: s.resolvers.filter (fun q => q.1 != lower host) ∧
    (∀ t, timeout = some t → (now + t) ∈ (execCommand s now (.resolveHost host ch timeout)).1.timers) := by
  refine ⟨?_, execResolveHost_new_resolvers s now host 1 ch timeout, ?_⟩
  · simp only [execCommand, execResolveHost, Bool.false_and, Bool.false_eq_true, if_false]
  · intro t ht
    subst ht
    simp only [execCommand, execResolveHost, Bool.false_and, Bool.false_eq_true, if_false, Option.map_some]
    split <;> simp [addRerun]

/-- **First retransmission.**  It is queued for `now + 1 s` with the next delay 2 s - if that
    instant lies before the deadline - together with its timer; there is never more than this
    one queued for the name. -/
theorem resolve_first_rerun (s : State) (now : Nat) (host : BList) (ch : Nat) (timeout : Option Nat) :
    (execCommand s now (.resolveHost host ch timeout)).1.reruns.filter (isResolveOf (lower host)) =
      (if (match timeout with | some t => decide (now + 1000 < now + t) | none => true) then
        [⟨now + 1000, .resolveHost host 2 ch⟩] else []) ∧
    ((match timeout with | some t => decide (now + 1000 < now + t) | none => true) = true →
      (now + 1000) ∈ (execCommand s now (.resolveHost host ch timeout)).1.timers) := by
  have hfil : (s.reruns.filter (fun r => !isResolveOf (lower host) r)).filter (isResolveOf (lower host)) = [] :=
    Sched.filter_not_self _ _
  cases timeout with
  | none =>
    simp [execCommand, execResolveHost, withinDeadline, addRerun, List.filter_append, isResolveOf,
      Sched.nextDelay, Sched.MAX_DELAY]
  | some t =>
    by_cases hd : now + 1000 < now + t
    · simp [execCommand, execResolveHost, withinDeadline, addRerun, List.filter_append, isResolveOf,
        Sched.nextDelay, Sched.MAX_DELAY, hd]
    · simp [execCommand, execResolveHost, withinDeadline, hfil, hd]

/-- **Retransmission.**  Running the queued `ResolveHostname(host, delay)` while the search is
    open: `SearchStarted` again (as the code does), ONE query asking A and AAAA with the known
    answers, and the next run queued `delay` seconds ahead with the delay doubled (capped at
    one hour, `Sched.nextDelay`) - unless that instant is not before the deadline. -/
theorem resolve_rerun_open (s : State) (now : Nat) (host : BList) (d ch : Nat)
    (hopen : s.resolvers.any (·.1 == lower host) = true) :
    (execRerun s now (.resolveHost host d ch)).2 =
      [.event ch .hstarted, sendQuery s.cache now [(host, 1), (host, 28)]] ∧
    (execRerun s now (.resolveHost host d ch)).1.reruns =
      (if withinDeadline s (lower host) (now + d * 1000) then
        s.reruns ++ [⟨now + d * 1000, .resolveHost host (Sched.nextDelay d) ch⟩] else s.reruns) ∧
    (withinDeadline s (lower host) (now + d * 1000) = true →
      (now + d * 1000) ∈ (execRerun s now (.resolveHost host d ch)).1.timers) := by
  simp only [execRerun, execResolveHost, hopen, Bool.not_true, Bool.and_false, Bool.false_eq_true, if_false, if_true]
  refine ⟨by simp, ?_, ?_⟩
  · split <;> simp [addRerun]
  · intro h
    simp [h, addRerun]

/-- ... and once the search is gone (stopped, timed out, replaced by nothing) a queued
    retransmission does nothing at all -/
theorem resolve_rerun_closed (s : State) (now : Nat) (host : BList) (d ch : Nat)
    (hgone : s.resolvers.any (·.1 == lower host) = false) :
    execRerun s now (.resolveHost host d ch) = (s, []) := by
  simp [execRerun, execResolveHost, hgone]

/-- `withinDeadline`: no deadline, or strictly before it -/
theorem withinDeadline_iff (s : State) (key : BList) (next : Nat) :
    withinDeadline s key next = true ↔
      ∀ q t, s.resolvers.find? (·.1 == key) = some q → q.2.2 = some t → next < t := by
  unfold withinDeadline
  cases hf : s.resolvers.find? (·.1 == key) with
  | none => simp
  | some q =>
    cases hd : q.2.2 with
    | none =>
      simp only [Option.bind_some, hd, true_iff]
      intro q' t hq ht
      cases hq
      rw [hd] at ht
      cases ht
    | some t =>
      simp only [Option.bind_some, hd, decide_eq_true_eq]
      constructor
      · intro h q' t' hq ht
        cases hq
        rw [hd] at ht
        cases ht
        exact h
      · intro h
        exact h q t rfl hd

/-- **Time-out.**  In the time-out phase of an iteration at `now`: a search whose deadline `t`
    has been reached (`now ≥ t`) gets `SearchTimeout` immediately followed by `SearchStopped` on
    its channel and is removed; a search whose deadline has not been reached, or that has
    none, stays. -/
theorem timeout_contract_client (s : State) (now : Nat) (key : BList) (ch : Nat) (dl : Option Nat)
    (h : (key, ch, dl) ∈ s.resolvers) :
    (∀ t, dl = some t → now ≥ t →
      [Out.event ch (.htimeout key), Out.event ch (.hstopped key)] <:+: (runTimeouts s now).2 ∧
      (key, ch, dl) ∉ (runTimeouts s now).1.resolvers) ∧
    ((∀ t, dl = some t → now < t) → (key, ch, dl) ∈ (runTimeouts s now).1.resolvers) := by
  refine ⟨?_, ?_⟩
  · intro t hdl hdue
    subst hdl
    refine ⟨?_, ?_⟩
    · simp only [runTimeouts]
      obtain ⟨l1, l2, hl⟩ := List.append_of_mem h
      rw [hl]
      simp only [List.filter_append, List.filter_cons, hdue, decide_true, if_true, List.flatMap_append,
        List.flatMap_cons]
      exact ⟨_, _, by simp only [List.append_assoc]; rfl⟩
    · simp [runTimeouts, hdue]
  · intro hnot
    simp only [runTimeouts, List.mem_filter]
    refine ⟨h, ?_⟩
    cases dl with
    | none => rfl
    | some t =>
      have := hnot t rfl
      simp only []
      simp
      omega

/-- every `SearchTimeout` of the time-out phase belongs to a search whose deadline has passed -/
theorem timeout_only_when_due (s : State) (now : Nat) (ch : Nat) (key : BList)
    (h : Out.event ch (.htimeout key) ∈ (runTimeouts s now).2) :
    ∃ t, (key, ch, some t) ∈ s.resolvers ∧ now ≥ t := by
  simp only [runTimeouts, List.mem_flatMap, List.mem_filter] at h
  obtain ⟨q, ⟨hq, hdue⟩, hm⟩ := h
  obtain ⟨k, c, dl⟩ := q
  simp only [List.mem_cons, Out.event.injEq, Ev.htimeout.injEq, List.not_mem_nil, or_false] at hm
  rcases hm with ⟨rfl, rfl⟩ | ⟨_, h2⟩
  · cases dl with
    | none => simp at hdue
    | some t => exact ⟨t, hq, by simpa using hdue⟩
  · cases h2

/-! ### (e) refresh of the addresses while the search is open -/

/-- **Refresh while the search is open.**  In the resolver-refresh phase of an iteration at
    `now`: for every searched name and every address entry cached under it that has not
    expired and whose refresh mark (80 % of the TTL; afterwards never again,
    `Props.C11.resolution_refresh_once`) has been reached, a query for that name - type A for a
    4-byte address, AAAA otherwise - goes out in this very phase. -/
theorem refresh_while_open (s : State) (now : Nat) (key : BList) (ch : Nat) (dl : Option Nat) (e : Entry)
    (ip ifn : BList) (ifi : Nat) (hres : (key, ch, dl) ∈ s.resolvers) (he : e ∈ (s.cache.addr.get key).getD [])
    (hlive : now < e.record.expires) (hdue : e.record.refresh ≤ now) (hrd : e.record.rdata = .addr ip ifn ifi) :
    ∃ known, Out.query [(key, if ip.length == 4 then 1 else 28)] known ∈ (refreshResolvers s now).2 := by
  simp only [refreshResolvers]
  exact refresh_query_go now key e ip ifn ifi hlive hdue hrd _ _ (List.mem_map.mpr ⟨_, hres, rfl⟩) he

/-- ... and the refresh mark of an address entry is armed as a timer when the entry is stored
    or renewed (`ingestOne` pushes `expires` and `refresh` of the returned entry), whether or
    not a browse is active: the wake-up for it is C12's `Props.C12.TimersCover`. -/
theorem refresh_timer_armed (q : List (BList × Nat)) (ifName : BList) (ifIdx now : Nat) (forUs : Bool) (acc : Ingest)
    (r : Wire.Rec) (e : Entry) (b : Bool)
    (h : (addOrUpdate acc.cache ifName ifIdx (ofWire ifName ifIdx now r) now forUs).result = some (e, b)) :
    e.record.expires ∈ (ingestOne q ifName ifIdx now forUs acc r).timers ∧
    e.record.refresh ∈ (ingestOne q ifName ifIdx now forUs acc r).timers :=
  ingestOne_arms_result q ifName ifIdx now forUs acc r e b h

/-! ### non-vacuity: a search with a time-out, an answer in another letter case, expiry -/

/-- resolve "H." for 3.5 s at 1000: A + AAAA at 1000, 2000, 4000 (the run at 8000 would not be
    before the deadline 4500 and is not queued); the address of "h." arrives at 1500 and is
    reported at once; time-out then stop at 4500.  Codes: 1 = the query A + AAAA for "H.",
    2 = `AddressesFound("h.", [10.0.0.1 on interface 2])`, 3 = `SearchTimeout`, 4 = `SearchStopped`
    (all on channel 7), 0 = anything else. -/
example :
    ((run (init 1000 [C03.eth0])
        [(1000, [], [.resolveHost hostH 7 (some 3500)]), (1500, [addrPkt hostLower 120 [10, 0, 0, 1]], []),
         (2000, [], []), (4000, [], []), (4500, [], []), (8000, [], [])]).2.filterMap
        fun o => (match o.2 with
          | .query qs _ => some (o.1, if qs == [(hostH, 1), (hostH, 28)] then 1 else 0)
          | .event 7 (.hfound h a) => some (o.1, if h == hostLower && a == [([10, 0, 0, 1], [0x65], 2)] then 2 else 0)
          | .event 7 (.htimeout h) => some (o.1, if h == hostLower then 3 else 0)
          | .event 7 (.hstopped h) => some (o.1, if h == hostLower then 4 else 0)
          | .event _ .hstarted => none
          | _ => some (o.1, 0) : Option (Nat × Nat))) =
      [(1000, 1), (1500, 2), (2000, 1), (4000, 1), (4500, 3), (4500, 4)] := by decide

/-- an address with TTL 10 s received at 1500 while the search is open: one refresh query
    (type A for "h.", code 1) at the 80 % mark 9500, none at 10000, `AddressesRemoved` with that
    address (code 2) at the expiry 11500 -/
example :
    ((run (init 1000 [C03.eth0])
        [(1000, [], [.resolveHost hostH 7 none]), (1500, [addrPkt hostLower 10 [10, 0, 0, 1]], []),
         (9500, [], []), (10000, [], []), (11500, [], [])]).2.filterMap
        fun o => (match o.2 with
          | .query [(n, 1)] _ => some (o.1, if n == hostLower then 1 else 0)
          | .event 7 (.hremoved h a) => some (o.1, if h == hostLower && a == [([10, 0, 0, 1], [0x65], 2)] then 2 else 0)
          | _ => none : Option (Nat × Nat))) =
      [(9500, 1), (11500, 2)] := by decide

end ClientModel

/-! ### scheduler fragment (`Mdns/Model/Sched.lean`, exact on responder-free histories) -/

section SchedFragment
open Mdns Mdns.Sched

/-- the search is keyed by the lower-cased host name: starting, stopping and the time-out
    look-up do not depend on the letter case the caller used -/
theorem stop_case_insensitive (s : State) (h1 h2 : BList) (h : lower h1 = lower h2) :
    execStopResolve s h1 = execStopResolve s h2 := by
  simp [execStopResolve, h]

/-- `resolve_hostname` asks for A and AAAA at once and registers the search under the
    lower-cased name with its deadline -/
theorem resolve_starts (s : State) (now : Nat) (host : BList) (ch : Nat) (timeout : Option Nat) :
    (execCommand s now (.resolveHost host ch timeout)).2 = [.event ch .hstarted, .query [(host, 1), (host, 28)]] ∧
    (execCommand s now (.resolveHost host ch timeout)).1.resolvers.find? (·.1 == lower host) =
      some (lower host, ch, timeout.map (now + ·)) := by
  simp only [execCommand, execResolve, Bool.false_and, Bool.false_eq_true, ↓reduceIte]
  refine ⟨trivial, ?_⟩
  repeat' split
  all_goals simp [addRerun]

/-- the retransmission after `delay` seconds is queued only if it falls before the deadline -/
theorem no_rerun_beyond_deadline (s : State) (now : Nat) (host : BList) (ch t : Nat)
    (hlate : ¬ now + 1000 < now + t) :
    (execCommand s now (.resolveHost host ch (some t))).1.reruns.filter (isResolveOf (lower host)) = [] := by
  simp only [execCommand, execResolve, Bool.false_and, Bool.false_eq_true, ↓reduceIte]
  have : withinDeadline
      { s with reruns := s.reruns.filter (fun r => !isResolveOf (lower host) r),
               resolvers := (lower host, ch, (some t).map (now + ·)) :: s.resolvers.filter (fun q => q.1 != lower host),
               timers := (match (some t).map (now + ·) with | some t => [t] | none => []) ++ s.timers }
      (lower host) (now + 1 * 1000) = false := by
    simp only [withinDeadline, List.find?_cons, beq_self_eq_true, Option.map_some, Option.bind_some,
      decide_eq_false_iff_not]
    omega
  simp only [Option.map_some] at this ⊢
  rw [this]
  exact filter_not_self _ _

/-- at the deadline: `SearchTimeout`, then `SearchStopped`, and the search is gone
    (see also `Mdns.Props.C13.timeout_contract`, `rerun_of_gone_search_is_noop`) -/
theorem timeout_ends_search (s : State) (now : Nat) (key : BList) (ch t : Nat)
    (h : s.resolvers = [(key, ch, some t)]) (hdue : now ≥ t) :
    (runTimeouts s now).2 = [.event ch .htimeout, .event ch .hstopped] ∧ (runTimeouts s now).1.resolvers = [] := by
  simp [runTimeouts, h, hdue]

/-- address look-ups of the cache are made under the lower-cased name, so records are found
    whatever letter case the responder used -/
theorem entries_case_insensitive (c : Cache.Cache) (n1 n2 : BList) (h : lower n1 = lower n2) :
    Cache.entriesFor c n1 1 = Cache.entriesFor c n2 1 ∧ Cache.entriesFor c n1 28 = Cache.entriesFor c n2 28 := by
  simp [Cache.entriesFor, h]

example : (execCommand (init 0) 0 (.resolveHost [0x48] 1 (some 500))).1.reruns = [] := by decide

end SchedFragment

end Mdns.Props.C17
