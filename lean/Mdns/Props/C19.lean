import Mdns.Lemmas.Delay
/-
  C19  Repeated queries back off 1 s, 2 s, 4 s ... capped at one hour - the arithmetic.

  Property theorems only (helper lemmas: `Mdns/Lemmas/Delay.lean`).
  Model: `Mdns/Model/Delay.lean` (the delay doubling of `exec_command_browse` /
  `exec_command_resolve_hostname`).

  Not covered here (daemon level, later): that there is exactly one such schedule per
  browsed type / searched host, and that every other query has one of the exempt causes.
-/
namespace Mdns.Props.C19
open Mdns Mdns.Delay

/-- The delay sequence: the first repetition comes after 1 s, each following delay is twice
    the previous one, capped at 3600 s. -/
theorem delay_seq : delay 0 = 1 ∧ ∀ n, delay (n + 1) = min (2 * delay n) 3600 := by
  refine ⟨rfl, fun n => ?_⟩
  simp only [delay, nextDelay, MAX_DELAY]
  omega

/-- Closed form: the `n`-th delay is `2^n` seconds capped at one hour: 1, 2, 4, ..., 2048,
    3600, 3600, ... -/
theorem delay_closed_form (n : Nat) : delay n = min (2 ^ n) 3600 := delay_closed n

/-- The delay is never 0 and never more than an hour ... -/
theorem delay_bounds (n : Nat) : 1 ≤ delay n ∧ delay n ≤ 3600 := ⟨delay_pos n, delay_le n⟩

/-- ... it never shrinks ... -/
theorem delay_mono (m n : Nat) (h : m ≤ n) : delay m ≤ delay n := by
  rw [delay_closed, delay_closed]
  have : 2 ^ m ≤ 2 ^ n := Nat.pow_le_pow_right (by omega) h
  simp only [MAX_DELAY]
  omega

/-- ... it doubles exactly up to 2048 s and is one hour from the 12th repetition on. -/
theorem delay_cap (n : Nat) : (n ≤ 11 → delay n = 2 ^ n) ∧ (12 ≤ n → delay n = 3600) := by
  rw [delay_closed]
  constructor
  · intro h
    have : 2 ^ n ≤ 2 ^ 11 := Nat.pow_le_pow_right (by omega) h
    simp only [MAX_DELAY]
    omega
  · intro h
    have : 2 ^ 12 ≤ 2 ^ n := Nat.pow_le_pow_right (by omega) h
    simp only [MAX_DELAY]
    omega

/-- The code's arithmetic (`u32` multiplications included) run `k` times from the initial
    delay 1: it never overflows and the gaps between consecutive queries are
    `1000 * delay 0, 1000 * delay 1, ...` milliseconds. -/
theorem gaps_spec (k : Nat) : gaps k = .ok ((List.range k).map fun i => delay i * 1000) := by
  have := gapsFrom_delay k 0
  simpa [gaps, delay] using this

/-- no step of the sequence panics or fails -/
theorem gaps_no_panic (k : Nat) : gaps k ≠ .panic ∧ gaps k ≠ .err := by
  rw [gaps_spec]
  simp

/-! ## Non-vacuity -/

example : (List.range 15).map delay = [1, 2, 4, 8, 16, 32, 64, 128, 256, 512, 1024, 2048, 3600, 3600, 3600] := by
  decide

example : gaps 4 = .ok [1000, 2000, 4000, 8000] := by decide

/-- a `next_delay` the sequence never reaches would overflow the `u32` multiplication -/
example : step 4294968 = .panic := by decide

end Mdns.Props.C19
