import Mdns.Lemmas.Delay
import Mdns.Lemmas.ClientSchedule
import Mdns.Lemmas.ClientHostSchedule
import Mdns.Props.C03
/-
  C19  Repeated queries back off 1 s, 2 s, 4 s ... capped at one hour - the arithmetic.

  Property theorems only (helper lemmas: `Mdns/Lemmas/Delay.lean`).
  Model: `Mdns/Model/Delay.lean` (the delay doubling of `exec_command_browse` /
  `exec_command_resolve_hostname`).

  The daemon level - one schedule per browsed type / searched host, the delays carried by the
  queued retransmissions, the chain of gaps over whole histories - is in `section ClientModel`
  below (model `Mdns/Model/Client.lean`, compared with the real daemon per iteration) and in
  `Props/C19Daemon.lean` (scheduler fragment).
-/
namespace Mdns.Props.C19
open Mdns Mdns.Delay

/-- The delay sequence: the first repetition comes after 1 s, each following delay is twice
    the previous one, capped at 3600 s. -/
theorem delay_seq : delay 0 = 1 ∧ ∀ n, delay (n + 1) = min (2 * delay n) 3600 := by
  refine ⟨rfl, fun n => ?_⟩
  simp only [delay, nextDelay, MAX_DELAY]
  omega

/-- Closed form: the `n`-th delay is `2^n` seconds capped at one hour: 1, 2, 4, ..., 2048,
    3600, 3600, ... -/
theorem delay_closed_form (n : Nat) : delay n = min (2 ^ n) 3600 := delay_closed n

/-- The delay is never 0 and never more than an hour ... -/
theorem delay_bounds (n : Nat) : 1 ≤ delay n ∧ delay n ≤ 3600 := ⟨delay_pos n, delay_le n⟩

/-- ... it never shrinks ... -/
theorem delay_mono (m n : Nat) (h : m ≤ n) : delay m ≤ delay n := by
  rw [delay_closed, delay_closed]
  have : 2 ^ m ≤ 2 ^ n := Nat.pow_le_pow_right (by omega) h
  simp only [MAX_DELAY]
  omega

/-- ... it doubles exactly up to 2048 s and is one hour from the 12th repetition on. -/
theorem delay_cap (n : Nat) : (n ≤ 11 → delay n = 2 ^ n) ∧ (12 ≤ n → delay n = 3600) := by
  rw [delay_closed]
  constructor
  · intro h
    have : 2 ^ n ≤ 2 ^ 11 := Nat.pow_le_pow_right (by omega) h
    simp only [MAX_DELAY]
    omega
  · intro h
    have : 2 ^ 12 ≤ 2 ^ n := Nat.pow_le_pow_right (by omega) h
    simp only [MAX_DELAY]
    omega

/-- The code's arithmetic (`u32` multiplications included) run `k` times from the initial
    delay 1: it never overflows and the gaps between consecutive queries are
    `1000 * delay 0, 1000 * delay 1, ...` milliseconds. -/
theorem gaps_spec (k : Nat) : gaps k = .ok ((List.range k).map fun i => delay i * 1000) := by
  have := gapsFrom_delay k 0
  simpa [gaps, delay] using this

/-- no step of the sequence panics or fails -/
theorem gaps_no_panic (k : Nat) : gaps k ≠ .panic ∧ gaps k ≠ .err := by
  rw [gaps_spec]
  simp

/-- seconds between the first query of a search and its query number `n` (sum of the first `n`
    delays) -/
def offset : Nat → Nat
  | 0 => 0
  | n + 1 => offset n + delay n

/-- **The instants themselves**: query number `n` of a search leaves `2^n - 1` seconds after the
    first one (0, 1, 3, 7, ... 4095 s) for `n ≤ 12`, and one hour after its predecessor from then
    on: `4095 + 3600 (n - 12)` seconds. -/
theorem offset_closed_form (n : Nat) :
    (n ≤ 12 → offset n + 1 = 2 ^ n) ∧ (12 ≤ n → offset n = 4095 + 3600 * (n - 12)) := by
  induction n with
  | zero => simp [offset]
  | succ n ih =>
    have hc := delay_cap n
    constructor
    · intro h
      have h1 := ih.1 (by omega)
      have h2 := hc.1 (by omega)
      simp only [offset, Nat.pow_succ]
      omega
    · intro h
      simp only [offset]
      by_cases h12 : n = 11
      · subst h12
        have h1 := ih.1 (by omega)
        have h2 := hc.1 (by omega)
        omega
      · have h1 := ih.2 (by omega)
        have h2 := hc.2 (by omega)
        omega

/-- **The rate is bounded for ever**: within any `T` seconds from its first query a search has
    sent at most `13 + T / 3600` queries - twelve doublings, then one per hour. -/
theorem queries_within (n T : Nat) (h : offset n ≤ T) : n + 1 ≤ 13 + T / 3600 := by
  by_cases h12 : n ≤ 12
  · omega
  · have := (offset_closed_form n).2 (by omega)
    have : 3600 * (n - 12) ≤ T := by omega
    have : n - 12 ≤ T / 3600 := by
      rw [Nat.le_div_iff_mul_le (by omega)]; omega
    omega

example : (List.range 15).map offset = [0, 1, 3, 7, 15, 31, 63, 127, 255, 511, 1023, 2047, 4095, 7695, 11295] := by
  decide

/-! ## Non-vacuity -/

example : (List.range 15).map delay = [1, 2, 4, 8, 16, 32, 64, 128, 256, 512, 1024, 2048, 3600, 3600, 3600] := by
  decide

example : gaps 4 = .ok [1000, 2000, 4000, 8000] := by decide

/-- a `next_delay` the sequence never reaches would overflow the `u32` multiplication -/
example : step 4294968 = .panic := by decide

/-! ## The client model: one schedule per search, delays 1 s, 2 s, 4 s ... 3600 s, gaps over whole histories -/

section ClientModel
open Mdns.Client

/-- **(ii) One schedule per search** (`OneSchedule`), after ANY history from the start of the
    daemon - any times, packets, commands, browse / resolve_hostname called again and again, in
    any letter case: the queue of retransmissions holds at most one entry per browsed type and
    at most one per host name compared without letter case.  (A second `browse` of a type or a
    second `resolve_hostname` of a name - in whatever spelling - replaces the queued
    retransmission instead of adding one: what the seeded changes C19-mixedcase-replace and
    C13-mixedcase-rerun-purge break.) -/
theorem one_schedule_client (t0 : Nat) (intfs : List Intf) (h : List (Nat × List Packet × List Command)) :
    (∀ ty, ((run (init t0 intfs) h).1.reruns.filter (isBrowseOf ty)).length ≤ 1) ∧
    (∀ key, ((run (init t0 intfs) h).1.reruns.filter (isResolveOf key)).length ≤ 1) := by
  have := oneEach_run h (init t0 intfs) OneEachC.nil
  refine ⟨fun ty => ?_, fun key => ?_⟩
  · have h1 := this (false, ty)
    have : (run (init t0 intfs) h).1.reruns.filter (isBrowseOf ty) =
        (run (init t0 intfs) h).1.reruns.filter (fun r => skey r.cmd == some (false, ty)) :=
      List.filter_congr (fun r _ => isBrowseOf_iff ty r)
    rw [this]
    exact h1
  · have h1 := this (true, key)
    have : (run (init t0 intfs) h).1.reruns.filter (isResolveOf key) =
        (run (init t0 intfs) h).1.reruns.filter (fun r => skey r.cmd == some (true, key)) :=
      List.filter_congr (fun r _ => isResolveOf_iff key r)
    rw [this]
    exact h1

/-- one iteration preserves it, whatever the state -/
theorem one_schedule_iter (s : State) (now : Nat) (pkts : List Packet) (cmds : List Command) (h : OneEachC s.reruns) :
    OneEachC (iter s now pkts cmds).1.reruns := oneEach_iter s now pkts cmds h

/-- **(i) The delay carried by a queued retransmission is between 1 s and one hour**, after ANY
    history from the start of the daemon -/
theorem carried_delay_in_range (t0 : Nat) (intfs : List Intf) (h : List (Nat × List Packet × List Command)) (r : Rerun)
    (hr : r ∈ (run (init t0 intfs) h).1.reruns) :
    (∀ ty d ch, r.cmd = .browse ty d ch → 1 ≤ d ∧ d ≤ 3600) ∧
    (∀ host d ch, r.cmd = .resolveHost host d ch → 1 ≤ d ∧ d ≤ 3600) := by
  have := delaysOk_run t0 intfs h r hr
  unfold DelayOk at this
  refine ⟨?_, ?_⟩
  · intro ty d ch hc
    rw [hc] at this
    exact this
  · intro host d ch hc
    rw [hc] at this
    exact this

/-- **(i) ... and it doubles at each run, capped at 3600**: running the queued retransmission of
    a browse with delay `d` at `now` sends `[(ty, PTR)]` once and queues the next run `d` seconds
    later carrying `min (2 d) 3600` -/
theorem browse_rerun_doubles (s : State) (now : Nat) (ty : BList) (d ch : Nat) :
    (execRerun s now (.browse ty d ch)).1.reruns = s.reruns ++ [⟨now + d * 1000, .browse ty (min (d * 2) 3600) ch⟩] ∧
    (execRerun s now (.browse ty d ch)).2 = [.event ch .started, sendQuery s.cache now [(ty, 12)]] := by
  simp [execRerun, execBrowse, addRerun, Sched.nextDelay, Sched.MAX_DELAY]

/-- the same for a hostname search that is still open and whose deadline allows another run -/
theorem resolve_rerun_doubles (s : State) (now : Nat) (host : BList) (d ch : Nat)
    (hopen : s.resolvers.any (·.1 == lower host) = true) (hdl : withinDeadline s (lower host) (now + d * 1000) = true) :
    (execRerun s now (.resolveHost host d ch)).1.reruns =
      s.reruns ++ [⟨now + d * 1000, .resolveHost host (min (d * 2) 3600) ch⟩] ∧
    (execRerun s now (.resolveHost host d ch)).2 = [.event ch .hstarted, sendQuery s.cache now [(host, 1), (host, 28)]] := by
  simp [execRerun, execResolveHost, hopen, hdl, addRerun, Sched.nextDelay, Sched.MAX_DELAY]

/-- **(iii) No overflow however long the search runs.**  For every retransmission queued after
    ANY history: the two `u32` multiplications of the Rust code (`next_delay * 1000`,
    `next_delay * 2`) do not overflow when it is run (`Delay.step` is the arithmetic with its
    overflow checks), the gap is at most 3 600 000 ms and the doubled delay at most 3600 s. -/
theorem schedule_arith_safe (t0 : Nat) (intfs : List Intf) (h : List (Nat × List Packet × List Command)) (r : Rerun)
    (hr : r ∈ (run (init t0 intfs) h).1.reruns) (d : Nat)
    (hd : (∃ ty ch, r.cmd = .browse ty d ch) ∨ ∃ host ch, r.cmd = .resolveHost host d ch) :
    Delay.step d = .ok (d * 1000, Sched.nextDelay d) ∧ d * 1000 ≤ 3600000 ∧ d * 2 ≤ 7200 ∧ Sched.nextDelay d ≤ 3600 := by
  have hr' := carried_delay_in_range t0 intfs h r hr
  have hb : 1 ≤ d ∧ d ≤ 3600 := by
    rcases hd with ⟨ty, ch, hc⟩ | ⟨host, ch, hc⟩
    · exact hr'.1 ty d ch hc
    · exact hr'.2 host d ch hc
  refine ⟨?_, by omega, by omega, (nextDelay_le d hb.1).2⟩
  unfold Delay.step
  have h1 : ¬ d * 1000 > Delay.U32_MAX := by simp only [Delay.U32_MAX]; omega
  have h2 : ¬ d * 2 > Delay.U32_MAX := by simp only [Delay.U32_MAX]; omega
  simp only [h1, h2, if_false]
  rfl

/-- **(iii) ... and the due time stays within `u64`**: the retransmission a run queues at `now` is
    due at most 3 600 000 ms later - with the clock below 2^63 ms there is no `u64` overflow -/
theorem due_time_bounded (s : State) (now : Nat) (ty : BList) (d ch : Nat) (hd : d ≤ 3600) (hnow : now < 2 ^ 63) :
    ∀ r ∈ (execRerun { s with reruns := [] } now (.browse ty d ch)).1.reruns, r.next ≤ now + 3600000 ∧ r.next < 2 ^ 64 := by
  intro r hr
  simp only [execRerun, execBrowse, if_true, Bool.false_eq_true, if_false, addRerun, List.nil_append, List.mem_singleton] at hr
  subst hr
  simp only
  omega

/-! ### the chain of gaps over whole histories -/

/-- the sum of the delays number `k`, ..., `k + n - 1` of the sequence (seconds) -/
def delaySum (k : Nat) : Nat → Nat
  | 0 => 0
  | n + 1 => Delay.delay k + delaySum (k + 1) n

/-- **The schedule starts.**  An iteration at `now` that processes `browse(ty)` on `ch` (after any
    commands `pre`; the commands after it neither browse nor stop `ty`): the query of the call is
    number 0, at `now`; at the end of the iteration exactly one retransmission of `ty` is queued,
    due 1 s later and carrying the delay 2 s. -/
theorem browse_schedule_starts (s : State) (now : Nat) (pkts : List Packet) (pre : List Command) (ty : BList) (ch : Nat)
    (post : List Command) (h1 : OneEachC s.reruns) (hc : post.all (fun c => !touchesType ty c) = true) :
    BrowseSched ty ch now 0 (iter s now pkts (pre ++ .browse ty ch false :: post)).1 := by
  rw [(iter_split s now pkts pre (.browse ty ch false) post).1]
  apply browseSched_starts ty ch _ now post _ hc
  apply oneEach_runCommands
  exact OneEachC.af (s' := (ingress s now pkts).1) h1 (af_ingress now pkts s)

/-- **One step of the schedule** (`Client.browseSched_iter`): while the browse is neither stopped
    nor started again, an iteration before the due time changes nothing; the first iteration at
    or after the due time sends `[(ty, PTR)]` and queues the next retransmission `delay (k + 1)`
    seconds later with the next delay of the sequence 1, 2, 4, ..., 2048, 3600, 3600, ... -/
theorem browse_schedule_step (ty : BList) (ch t k : Nat) (s : State) (now : Nat) (pkts : List Packet) (cmds : List Command)
    (h1 : OneEachC s.reruns) (hs : BrowseSched ty ch t k s) (hc : cmds.all (fun c => !touchesType ty c) = true) :
    (now < t + Delay.delay k * 1000 → BrowseSched ty ch t k (iter s now pkts cmds).1) ∧
    (t + Delay.delay k * 1000 ≤ now → BrowseSched ty ch now (k + 1) (iter s now pkts cmds).1 ∧
      ∃ known, Out.query [(ty, 12)] known ∈ (iter s now pkts cmds).2) :=
  browseSched_iter ty ch t k s now pkts cmds h1 hs hc

/-- **The chain of gaps.**  From a state in which the query number `k` of the browse of `ty` went
    out at `t`, run ANY history whose commands neither browse nor stop `ty` (iterations at any
    times, arbitrarily late, any packets, any other searches): afterwards the schedule is at
    some query number `k + n`, sent at a time `t'` with
    `t' ≥ t + 1000 * (delay k + ... + delay (k + n - 1))` - every gap between two consecutive
    schedule queries of one search is at least the delay of the sequence 1 s, 2 s, 4 s, ...,
    2048 s, 3600 s, 3600 s, ... -/
theorem browse_schedule_chain (ty : BList) (ch : Nat) : ∀ (h : List (Nat × List Packet × List Command)) (s : State) (t k : Nat),
    OneEachC s.reruns → BrowseSched ty ch t k s → (∀ it ∈ h, it.2.2.all (fun c => !touchesType ty c) = true) →
    ∃ n t', BrowseSched ty ch t' (k + n) (run s h).1 ∧ t + 1000 * delaySum k n ≤ t'
  | [], s, t, k, _, hs, _ => ⟨0, t, by simpa [run] using hs, by simp [delaySum]⟩
  | (now, pkts, cmds) :: rest, s, t, k, h1, hs, hc => by
    have hstep := browseSched_iter ty ch t k s now pkts cmds h1 hs (hc _ List.mem_cons_self)
    have h1' := oneEach_iter s now pkts cmds h1
    by_cases hdue : t + Delay.delay k * 1000 ≤ now
    · obtain ⟨n, t', hn, ht⟩ := browse_schedule_chain ty ch rest _ now (k + 1) h1' (hstep.2 hdue).1
        (fun it hit => hc it (List.mem_cons_of_mem _ hit))
      refine ⟨n + 1, t', ?_, ?_⟩
      · simp only [run]
        have : k + (n + 1) = k + 1 + n := by omega
        rw [this]
        exact hn
      · simp only [delaySum]
        omega
    · obtain ⟨n, t', hn, ht⟩ := browse_schedule_chain ty ch rest _ t k h1' (hstep.1 (by omega))
        (fun it hit => hc it (List.mem_cons_of_mem _ hit))
      exact ⟨n, t', by simpa [run] using hn, ht⟩


/-! ### the chain of gaps of a hostname search, up to its deadline -/

/-- **The schedule of a hostname search starts.**  An iteration at `now` that processes
    `resolve_hostname(host, timeout)` on `ch` (after any commands `pre`; the commands after it
    neither search nor stop the name, in whatever letter case): the query of the call is number 0,
    at `now`.  With no time-out, or one of more than a second, exactly one retransmission of the
    name is queued at the end of the iteration, due 1 s later and carrying the delay 2 s, and the
    search is open under the lower-cased name with the deadline `now + timeout` (`HostSched`).
    With a time-out of at most a second no retransmission is queued at all (`HostEnded`): the
    first one would not come before the deadline. -/
theorem resolve_schedule_starts (s : State) (now : Nat) (pkts : List Packet) (pre : List Command) (host : BList) (ch : Nat)
    (timeout : Option Nat) (post : List Command) (h1 : OneEachC s.reruns)
    (hc : post.all (fun c => !touchesHost (lower host) c) = true) :
    ((∀ t, timeout = some t → 1000 < t) →
      HostSched host ch (timeout.map (now + ·)) now 0 (iter s now pkts (pre ++ .resolveHost host ch timeout :: post)).1) ∧
    ((∃ t, timeout = some t ∧ t ≤ 1000) →
      HostEnded host (iter s now pkts (pre ++ .resolveHost host ch timeout :: post)).1) := by
  rw [(iter_split s now pkts pre (.resolveHost host ch timeout) post).1]
  apply hostSched_starts host ch timeout _ now post _ hc
  apply oneEach_runCommands
  exact OneEachC.af (s' := (ingress s now pkts).1) h1 (af_ingress now pkts s)

/-- **One step of the schedule of a hostname search** (`Client.hostSched_iter`).  While the name
    is neither searched again nor stopped, an iteration before the due time changes nothing.  The
    first iteration at or after the due time: (1) if the next instant `now + delay (k+1)` s still
    lies before the deadline (or there is none), it sends `[(host, A), (host, AAAA)]` and queues
    the next retransmission `delay (k + 1)` seconds later with the next delay of the sequence
    1, 2, 4, ..., 2048, 3600, 3600, ...; (2) if the deadline has not been reached but the next
    instant would not come before it, it sends the query and the schedule is over; (3) if the
    deadline has been reached the search has timed out and the schedule is over. -/
theorem resolve_schedule_step (host : BList) (ch : Nat) (dl : Option Nat) (t k : Nat) (s : State) (now : Nat)
    (pkts : List Packet) (cmds : List Command) (h1 : OneEachC s.reruns) (hs : HostSched host ch dl t k s)
    (hc : cmds.all (fun c => !touchesHost (lower host) c) = true) :
    (now < t + Delay.delay k * 1000 → HostSched host ch dl t k (iter s now pkts cmds).1) ∧
    (t + Delay.delay k * 1000 ≤ now →
      ((∀ d, dl = some d → now + Delay.delay (k + 1) * 1000 < d) →
        HostSched host ch dl now (k + 1) (iter s now pkts cmds).1 ∧
        ∃ known, Out.query [(host, 1), (host, 28)] known ∈ (iter s now pkts cmds).2) ∧
      (∀ d, dl = some d → now < d → d ≤ now + Delay.delay (k + 1) * 1000 →
        HostEnded host (iter s now pkts cmds).1 ∧
        ∃ known, Out.query [(host, 1), (host, 28)] known ∈ (iter s now pkts cmds).2) ∧
      (∀ d, dl = some d → d ≤ now → HostEnded host (iter s now pkts cmds).1)) :=
  hostSched_iter host ch dl t k s now pkts cmds h1 hs hc

/-- a schedule that is over stays over while the name is not searched again -/
theorem resolve_schedule_stays_over (host : BList) : ∀ (h : List (Nat × List Packet × List Command)) (s : State),
    HostEnded host s → (∀ it ∈ h, it.2.2.all (fun c => !touchesHost (lower host) c) = true) → HostEnded host (run s h).1
  | [], _, hs, _ => hs
  | (now, pkts, cmds) :: rest, s, hs, hc => by
    simp only [run]
    exact resolve_schedule_stays_over host rest _ (hostEnded_iter host s now pkts cmds hs (hc _ List.mem_cons_self))
      (fun it hit => hc it (List.mem_cons_of_mem _ hit))

/-- **The chain of gaps of a hostname search, up to its deadline.**  From a state in which the
    query number `k` of the search for `host` went out at `t` (`HostSched`: its retransmission
    queued for `t + delay k` s, before the deadline `dl`, the search open), run ANY history whose
    commands neither search nor stop the name (iterations at any times, arbitrarily late, any
    packets, any other searches).  Afterwards there are `n` and `t'` - the schedule got as far as
    query number `k + n`, sent at `t'`, with `t' ≥ t + 1000 * (delay k + ... + delay (k+n-1))`:
    every gap is at least the delay of the sequence 1 s, 2 s, 4 s, ..., 3600 s - such that
    * either the schedule is still running at that number (and the search open), or
    * the schedule is over, and then ONLY because of the deadline `d`: the next query after number
      `k + n` would not have come before it (`d ≤ t' + delay (k+n)` s: the cut of
      `exec_command_resolve_hostname`), or some iteration of the history came at or after the
      deadline (the search timed out). -/
theorem resolve_schedule_chain (host : BList) (ch : Nat) (dl : Option Nat) :
    ∀ (h : List (Nat × List Packet × List Command)) (s : State) (t k : Nat),
    OneEachC s.reruns → HostSched host ch dl t k s →
    (∀ it ∈ h, it.2.2.all (fun c => !touchesHost (lower host) c) = true) →
    ∃ n t', t + 1000 * delaySum k n ≤ t' ∧
      (HostSched host ch dl t' (k + n) (run s h).1 ∨
       (HostEnded host (run s h).1 ∧
        ∃ d, dl = some d ∧ (d ≤ t' + Delay.delay (k + n) * 1000 ∨ ∃ it ∈ h, d ≤ it.1)))
  | [], s, t, k, _, hs, _ => ⟨0, t, by simp [delaySum], Or.inl (by simpa [run] using hs)⟩
  | (now, pkts, cmds) :: rest, s, t, k, h1, hs, hc => by
    have hstep := hostSched_iter host ch dl t k s now pkts cmds h1 hs (hc _ List.mem_cons_self)
    have h1' := oneEach_iter s now pkts cmds h1
    have hc' : ∀ it ∈ rest, it.2.2.all (fun c => !touchesHost (lower host) c) = true :=
      fun it hit => hc it (List.mem_cons_of_mem _ hit)
    by_cases hdue : t + Delay.delay k * 1000 ≤ now
    · obtain ⟨hgo, hcut, hout⟩ := hstep.2 hdue
      by_cases hwithin : ∀ d, dl = some d → now + Delay.delay (k + 1) * 1000 < d
      · -- the query goes out, the next one is queued
        obtain ⟨n, t', ht, hres⟩ := resolve_schedule_chain host ch dl rest _ now (k + 1) h1' (hgo hwithin).1 hc'
        refine ⟨n + 1, t', ?_, ?_⟩
        · simp only [delaySum]
          omega
        · have e : k + (n + 1) = k + 1 + n := by omega
          simp only [run]
          rw [e]
          rcases hres with hres | ⟨hend, d, hd, hor⟩
          · exact Or.inl hres
          · refine Or.inr ⟨hend, d, hd, ?_⟩
            rcases hor with hor | ⟨it, hit, hle⟩
            · exact Or.inl hor
            · exact Or.inr ⟨it, List.mem_cons_of_mem _ hit, hle⟩
      · -- there is a deadline `d` with `d ≤ now + delay (k+1)`
        have hex : ∃ d, dl = some d ∧ d ≤ now + Delay.delay (k + 1) * 1000 := by
          cases dl with
          | none => exact absurd (fun d hd => by cases hd) hwithin
          | some d =>
            refine ⟨d, rfl, ?_⟩
            apply Nat.le_of_not_lt
            intro hlt
            apply hwithin
            intro d' hd'
            cases hd'
            exact hlt
        obtain ⟨d, hd, hle⟩ := hex
        by_cases hreached : d ≤ now
        · -- timed out
          refine ⟨0, t, by simp [delaySum], Or.inr ⟨?_, d, hd, Or.inr ⟨(now, pkts, cmds), List.mem_cons_self, hreached⟩⟩⟩
          simp only [run]
          exact resolve_schedule_stays_over host rest _ (hout d hd hreached) hc'
        · -- the last query goes out, the next one would not come before the deadline
          refine ⟨1, now, by simp [delaySum]; omega, Or.inr ⟨?_, d, hd, Or.inl hle⟩⟩
          simp only [run]
          exact resolve_schedule_stays_over host rest _ (hcut d hd (by omega) hle).1 hc'
    · obtain ⟨n, t', ht, hres⟩ := resolve_schedule_chain host ch dl rest _ t k h1' (hstep.1 (by omega)) hc'
      refine ⟨n, t', ht, ?_⟩
      simp only [run]
      rcases hres with hres | ⟨hend, d, hd, hor⟩
      · exact Or.inl hres
      · refine Or.inr ⟨hend, d, hd, ?_⟩
        rcases hor with hor | ⟨it, hit, hle⟩
        · exact Or.inl hor
        · exact Or.inr ⟨it, List.mem_cons_of_mem _ hit, hle⟩

/-- **From the call.**  `resolve_hostname(host, timeout)` with no time-out or one of more than a
    second, processed at `now` in ANY state with one schedule per search (every state reachable
    from the fresh daemon: `one_schedule_client`), followed by ANY history that neither searches
    nor stops the name: the schedule got as far as some query number `n`, sent at
    `t' ≥ now + 1000 * (delay 0 + ... + delay (n-1))`, and it is either still running there or over
    because of the deadline `now + timeout` only. -/
theorem resolve_schedule_from_call (s : State) (now : Nat) (pkts : List Packet) (pre : List Command) (host : BList) (ch : Nat)
    (timeout : Option Nat) (post : List Command) (h : List (Nat × List Packet × List Command)) (h1 : OneEachC s.reruns)
    (hlong : ∀ t, timeout = some t → 1000 < t)
    (hc : post.all (fun c => !touchesHost (lower host) c) = true)
    (hh : ∀ it ∈ h, it.2.2.all (fun c => !touchesHost (lower host) c) = true) :
    ∃ n t', now + 1000 * delaySum 0 n ≤ t' ∧
      (HostSched host ch (timeout.map (now + ·)) t' n
          (run (iter s now pkts (pre ++ .resolveHost host ch timeout :: post)).1 h).1 ∨
       (HostEnded host (run (iter s now pkts (pre ++ .resolveHost host ch timeout :: post)).1 h).1 ∧
        ∃ d, timeout.map (now + ·) = some d ∧ (d ≤ t' + Delay.delay n * 1000 ∨ ∃ it ∈ h, d ≤ it.1))) := by
  have hstart := (resolve_schedule_starts s now pkts pre host ch timeout post h1 hc).1 hlong
  have hone := oneEach_iter s now pkts (pre ++ .resolveHost host ch timeout :: post) h1
  obtain ⟨n, t', ht, hres⟩ := resolve_schedule_chain host ch (timeout.map (now + ·)) h _ now 0 hone hstart hh
  refine ⟨n, t', ht, ?_⟩
  simpa using hres

/-! non-vacuity: an unanswered browse, iterations at the requested wake-ups: the PTR queries of the
    schedule go out at 1000, 2000, 4000, 8000, 16000 (gaps 1, 2, 4, 8 s) -/
example :
    ((run (init 1000 [C03.eth0])
        [(1000, [], [.browse C03.ty 1 false]), (2000, [], []), (4000, [], []), (6000, [], []), (8000, [], []),
         (16000, [], [])]).2.filterMap
        fun o => (match o.2 with
          | .query [(n, 12)] _ => if n == C03.ty then some o.1 else none
          | _ => none : Option Nat)) = [1000, 2000, 4000, 8000, 16000] := by decide

example : delaySum 0 13 = 1 + 2 + 4 + 8 + 16 + 32 + 64 + 128 + 256 + 512 + 1024 + 2048 + 3600 := by decide

/-- an example host name: `h.local.` -/
def hostX : BList := [0x68, 0x2e, 0x6c, 0x6f, 0x63, 0x61, 0x6c, 0x2e]

/-! non-vacuity: an unanswered hostname search with a time-out of 6 s started at 1000 (deadline
    7000), iterations at the requested wake-ups: the address queries go out at 1000, 2000, 4000;
    the next one (8000) would not come before the deadline, so the schedule ends there; at 7000 the
    search times out -/
example :
    ((run (init 1000 [C03.eth0])
        [(1000, [], [.resolveHost hostX 7 (some 6000)]), (2000, [], []), (4000, [], []), (7000, [], []), (8000, [], [])]).2.filterMap
        fun o => (match o.2 with
          | .query [(n, 1), (_, 28)] _ => if n == hostX then some o.1 else none
          | _ => none : Option Nat)) = [1000, 2000, 4000] := by decide

example : HostSched hostX 7 (some 7000) 1000 0 (iter (init 1000 [C03.eth0]) 1000 [] [.resolveHost hostX 7 (some 6000)]).1 :=
  ⟨by decide, by decide, fun d hd => by cases hd; decide⟩

example : HostEnded hostX (run (init 1000 [C03.eth0])
    [(1000, [], [.resolveHost hostX 7 (some 6000)]), (2000, [], []), (4000, [], [])]).1 := by
  unfold HostEnded; decide

end ClientModel

end Mdns.Props.C19
