import Mdns.Lemmas.Decode
/-
  C01  Decoding any datagram is safe, terminating and bounded.

  Model: `Mdns/Model/Decode.lean` (`DnsIncoming::new` and everything it calls).
  Termination of every function of the model, in particular of the `read_name` loop, is
  checked by Lean at definition time (measure: pointers left, then bytes left); the
  pre-repair loop of the crate admits no such measure, see the witness in DESIGN.md (D2).
-/
namespace Mdns.Props.C01
open Mdns Mdns.Wire

/-- Decoding never panics: for every byte string the result is a message or an error. -/
theorem decode_no_panic (d : Pkt) : decode d ≠ .panic := by
  unfold decode
  split
  · simp
  · rename_i hsz
    obtain ⟨a0, h0⟩ := u16At_of_lt d (show 0 + 1 < d.size by omega)
    obtain ⟨a1, h1⟩ := u16At_of_lt d (show 2 + 1 < d.size by omega)
    obtain ⟨a2, h2⟩ := u16At_of_lt d (show 4 + 1 < d.size by omega)
    obtain ⟨a3, h3⟩ := u16At_of_lt d (show 6 + 1 < d.size by omega)
    obtain ⟨a4, h4⟩ := u16At_of_lt d (show 8 + 1 < d.size by omega)
    obtain ⟨a5, h5⟩ := u16At_of_lt d (show 10 + 1 < d.size by omega)
    simp only [h0, h1, h2, h3, h4, h5]
    have hq := (readQuestions_spec d a2 12).1
    cases hqs : readQuestions d a2 12 with
    | panic => exact absurd hqs hq
    | err => simp
    | ok p =>
      obtain ⟨qs, o1⟩ := p
      simp only []
      have hr1 := (readRRs_spec d (a1 / 32768 % 2 == 1) a3 o1).1
      cases hrs1 : readRRs d (a1 / 32768 % 2 == 1) a3 o1 with
      | panic => exact absurd hrs1 hr1
      | err => simp
      | ok p1 =>
        obtain ⟨an, o2⟩ := p1
        simp only []
        have hr2 := (readRRs_spec d (a1 / 32768 % 2 == 1) a4 o2).1
        cases hrs2 : readRRs d (a1 / 32768 % 2 == 1) a4 o2 with
        | panic => exact absurd hrs2 hr2
        | err => simp
        | ok p2 =>
          obtain ⟨au, o3⟩ := p2
          simp only []
          have hr3 := (readRRs_spec d (a1 / 32768 % 2 == 1) a5 o3).1
          cases hrs3 : readRRs d (a1 / 32768 % 2 == 1) a5 o3 with
          | panic => exact absurd hrs3 hr3
          | err => simp
          | ok p3 =>
            obtain ⟨ad, o4⟩ := p3
            simp

/-- The `read_name` loop is bounded by a constant: at most 255 iterations per name, a name
    of at most 255 bytes, and the offset it returns lies inside the datagram. -/
theorem readName_bounded (d : Pkt) (off : Nat) (n : NameOut) (h : readName d off = .ok n) :
    n.steps ≤ 255 ∧ n.name.length ≤ MAX_NAME_LEN ∧ off < n.next ∧ n.next ≤ d.size := by
  have := readName_ok d off n h
  simp only [MAX_NAME_LEN]
  omega

/-- all records of a message -/
def records (m : Msg) : List Rec := m.answers ++ m.authorities ++ m.additionals

/-- The content of a decoded message, as six facts extracted from `decode d = ok m`. -/
structure Decoded (d : Pkt) (m : Msg) : Prop where
  /-- linear size: header + 5 bytes per question + 11 bytes and the copied RDATA per record
      fit in the datagram, hence the number of decoded entries, the bytes copied and the
      work (≤ 255 steps per name, ≤ 2 names per entry) are all at most a constant times
      the datagram length -/
  linear : 12 + 5 * m.questions.length + ((records m).map fun r => 11 + rdataBytes r.rdata).sum ≤ d.size
  /-- no name is longer than the RFC 1035 limit -/
  names : ∀ n ∈ msgNames m, n.length ≤ MAX_NAME_LEN
  /-- every record was read from a span of bytes inside the datagram, after the header -/
  spans : ∀ r ∈ records m, 12 ≤ r.start ∧ r.start + 11 ≤ r.stop ∧ r.stop ≤ d.size
  /-- records were read one after the other -/
  ordered : (records m).Pairwise (fun a b => a.stop ≤ b.start)
  /-- a response never yields TTL 0 (it is stored as 1 second) -/
  ttl : m.flags / 32768 % 2 = 1 → ∀ r ∈ records m, 1 ≤ r.ttl

theorem decode_ok (d : Pkt) (m : Msg) (h : decode d = .ok m) : Decoded d m := by
  unfold decode at h
  split at h
  · simp at h
  · rename_i hsz
    obtain ⟨a0, h0⟩ := u16At_of_lt d (show 0 + 1 < d.size by omega)
    obtain ⟨a1, h1⟩ := u16At_of_lt d (show 2 + 1 < d.size by omega)
    obtain ⟨a2, h2⟩ := u16At_of_lt d (show 4 + 1 < d.size by omega)
    obtain ⟨a3, h3⟩ := u16At_of_lt d (show 6 + 1 < d.size by omega)
    obtain ⟨a4, h4⟩ := u16At_of_lt d (show 8 + 1 < d.size by omega)
    obtain ⟨a5, h5⟩ := u16At_of_lt d (show 10 + 1 < d.size by omega)
    simp only [h0, h1, h2, h3, h4, h5] at h
    cases hqs : readQuestions d a2 12 with
    | panic => simp [hqs] at h
    | err => simp [hqs] at h
    | ok p =>
      obtain ⟨qs, o1⟩ := p
      simp only [hqs] at h
      have eq := (readQuestions_spec d a2 12).2 qs o1 hqs
      cases hrs1 : readRRs d (a1 / 32768 % 2 == 1) a3 o1 with
      | panic => simp [hrs1] at h
      | err => simp [hrs1] at h
      | ok p1 =>
        obtain ⟨an, o2⟩ := p1
        simp only [hrs1] at h
        have e1 := (readRRs_spec d _ a3 o1).2 an o2 hrs1
        have m1 := readRRs_mem d _ a3 o1 an o2 hrs1
        have mo1 := readRRs_mono d _ a3 o1 an o2 hrs1
        cases hrs2 : readRRs d (a1 / 32768 % 2 == 1) a4 o2 with
        | panic => simp [hrs2] at h
        | err => simp [hrs2] at h
        | ok p2 =>
          obtain ⟨au, o3⟩ := p2
          simp only [hrs2] at h
          have e2 := (readRRs_spec d _ a4 o2).2 au o3 hrs2
          have m2 := readRRs_mem d _ a4 o2 au o3 hrs2
          have mo2 := readRRs_mono d _ a4 o2 au o3 hrs2
          cases hrs3 : readRRs d (a1 / 32768 % 2 == 1) a5 o3 with
          | panic => simp [hrs3] at h
          | err => simp [hrs3] at h
          | ok p3 =>
            obtain ⟨ad, o4⟩ := p3
            simp only [hrs3, Res.ok.injEq] at h
            subst h
            have e3 := (readRRs_spec d _ a5 o3).2 ad o4 hrs3
            have m3 := readRRs_mem d _ a5 o3 ad o4 hrs3
            have mo3 := readRRs_mono d _ a5 o3 ad o4 hrs3
            -- every offset reached is inside the datagram (or nothing was read)
            have ho1 : o1 ≤ d.size := by
              rcases eq.2.1 with h' | ⟨_, rfl⟩ <;> omega
            have ho2 : o2 ≤ d.size := by
              rcases e1 with h' | ⟨_, rfl⟩ <;> omega
            have ho3 : o3 ≤ d.size := by
              rcases e2 with h' | ⟨_, rfl⟩ <;> omega
            have ho4 : o4 ≤ d.size := by
              rcases e3 with h' | ⟨_, rfl⟩ <;> omega
            have s1 : o1 + (an.map fun r => 11 + rdataBytes r.rdata).sum ≤ o2 := by
              rcases e1 with h' | ⟨rfl, rfl⟩
              · omega
              · simp
            have s2 : o2 + (au.map fun r => 11 + rdataBytes r.rdata).sum ≤ o3 := by
              rcases e2 with h' | ⟨rfl, rfl⟩
              · omega
              · simp
            have s3 : o3 + (ad.map fun r => 11 + rdataBytes r.rdata).sum ≤ o4 := by
              rcases e3 with h' | ⟨rfl, rfl⟩
              · omega
              · simp
            refine ⟨?_, ?_, ?_, ?_, ?_⟩
            · simp only [records, List.map_append, List.sum_append]
              omega
            · intro n hn
              simp only [msgNames, List.mem_append, List.mem_map, List.mem_flatMap] at hn
              simp only [MAX_NAME_LEN]
              rcases hn with ⟨q, hq, rfl⟩ | ⟨r, hr, hn⟩
              · exact eq.2.2 q hq
              · rcases hr with (hr | hr) | hr
                · exact (m1.1 r hr).2.2.2.2.1 n hn
                · exact (m2.1 r hr).2.2.2.2.1 n hn
                · exact (m3.1 r hr).2.2.2.2.1 n hn
            · intro r hr
              simp only [records, List.mem_append] at hr
              have hq12 : 12 ≤ o1 := by have := eq.1; omega
              rcases hr with (hr | hr) | hr
              · have := m1.1 r hr
                have h3 := this.2.2.1
                exact ⟨by omega, by omega, this.2.2.2.1⟩
              · have := m2.1 r hr
                have h3 := this.2.2.1
                exact ⟨by omega, by omega, this.2.2.2.1⟩
              · have := m3.1 r hr
                have h3 := this.2.2.1
                exact ⟨by omega, by omega, this.2.2.2.1⟩
            · simp only [records]
              rw [List.pairwise_append, List.pairwise_append]
              refine ⟨⟨m1.2, m2.2, ?_⟩, m3.2, ?_⟩
              · intro a ha b hb
                have := m1.1 a ha; have := m2.1 b hb; omega
              · intro a ha b hb
                have hb' := m3.1 b hb
                rcases List.mem_append.mp ha with ha | ha
                · have := m1.1 a ha; omega
                · have := m2.1 a ha; omega
            · intro hresp r hr
              have hb : (a1 / 32768 % 2 == 1) = true := by simpa using hresp
              simp only [records, List.mem_append] at hr
              rcases hr with (hr | hr) | hr
              · exact (m1.1 r hr).2.2.2.2.2 hb
              · exact (m2.1 r hr).2.2.2.2.2 hb
              · exact (m3.1 r hr).2.2.2.2.2 hb

/-- "time and memory proportional to the datagram size": entries and copied bytes -/
theorem decode_linear (d : Pkt) (m : Msg) (h : decode d = .ok m) :
    5 * m.questions.length + 11 * (records m).length + ((records m).map fun r => rdataBytes r.rdata).sum
      ≤ d.size - 12 := by
  have := (decode_ok d m h).linear
  have hsum : ∀ l : List Rec, (l.map fun r => 11 + rdataBytes r.rdata).sum =
      11 * l.length + (l.map fun r => rdataBytes r.rdata).sum := by
    intro l
    induction l with
    | nil => simp
    | cons a l ih => simp only [List.map_cons, List.sum_cons, List.length_cons, ih]; omega
  rw [hsum] at this
  omega

/-- "never produces a name longer than the datagram could encode" -/
theorem decode_names (d : Pkt) (m : Msg) (h : decode d = .ok m) :
    ∀ n ∈ msgNames m, n.length ≤ MAX_NAME_LEN := (decode_ok d m h).names

/-- "every record in a successfully decoded message was read from bytes inside the datagram" -/
theorem decode_in_bounds (d : Pkt) (m : Msg) (h : decode d = .ok m) :
    (∀ r ∈ records m, 12 ≤ r.start ∧ r.start < r.stop ∧ r.stop ≤ d.size) ∧
    (records m).Pairwise (fun a b => a.stop ≤ b.start) := by
  refine ⟨?_, (decode_ok d m h).ordered⟩
  intro r hr
  have := (decode_ok d m h).spans r hr
  omega

/-- TTL 0 in a response is stored as one second -/
theorem decode_ttl0 (d : Pkt) (m : Msg) (h : decode d = .ok m) (hresp : m.flags / 32768 % 2 = 1) :
    ∀ r ∈ records m, 1 ≤ r.ttl := (decode_ok d m h).ttl hresp

/-- a datagram shorter than a header is an error, never a message -/
theorem decode_short (d : Pkt) (h : d.size < 12) : decode d = .err := by
  simp [decode, h]

end Mdns.Props.C01
