import Mdns.Lemmas.Intf
import Mdns.Driver.MonLink
/-
  C18  Each interface is its own link - the component-level part.

  Property theorems only (helper lemmas: `Mdns/Lemmas/Intf.lean`).
  Model: `Mdns/Model/Intf.lean` (`IfKind::matches`, the selection loop of
  `selected_intfs` / `apply_intf_selections`, `resolve_addr_to_index`, `valid_ip_on_intf`,
  `get_addrs_on_my_intf_v4/v6`).

  Daemon level: there is no model of the daemon's interface handling; real histories
  (`sim C18`) are judged by `Mdns/Driver/MonLink.lean`, which computes the enabled addresses
  with the selection function of this file.  The last section states what that computation
  means (`hasEnabled_iff`, `disable_all_kills`, `untouched_interface_stays`).
-/
namespace Mdns.Props.C18
open Mdns Mdns.Intf

/-- Enable/disable selections take effect in call order, the last match winning: an
    interface is selected exactly if the last selection that matches it enables it, and it is
    selected if no selection matches.  The verdict for an interface depends on that
    interface and the selections only - not on which other interfaces are present. -/
theorem selected_iff (sels : List Selection) (intfs : List Iface) :
    selectedMarks sels intfs = intfs.map (fun i => (lastMatch sels i).getD true) := by
  unfold selectedMarks
  exact foldl_selection intfs sels (fun _ => true)

/-- ... "also for interfaces that show up later": when the interface table grows, the old
    interfaces keep their verdict and the new one gets the verdict of the same rule. -/
theorem selected_later_interface (sels : List Selection) (intfs : List Iface) (i : Iface) :
    selectedMarks sels (intfs ++ [i]) = selectedMarks sels intfs ++ [selected sels i] := by
  simp [selected_iff, selected]

/-- The last matching selection, spelled out: with `sels = before ++ [s] ++ after`, `s`
    matching the interface and nothing in `after` matching it, the verdict is `s`'s. -/
theorem last_match_wins (before after : List Selection) (s : Selection) (i : Iface)
    (hs : s.1.matches i = true) (ha : ∀ x ∈ after, x.1.matches i = false) :
    selected (before ++ [s] ++ after) i = s.2 := by
  unfold selected lastMatch
  simp only [List.reverse_append, List.reverse_cons, List.reverse_nil, List.nil_append, List.find?_append]
  have : after.reverse.find? (fun x => x.1.matches i) = none := by
    rw [List.find?_eq_none]
    intro x hx
    simp [ha x (List.mem_reverse.mp hx)]
  simp [this, List.find?, hs]

/-- What is stored for `IfKind::Addr(a)`: if some interface of the table at the time of the
    call has address `a`, the selection becomes "that interface's index, same IP family" (and
    so also covers other and later addresses of that family on that interface); if none has,
    it stays `Addr(a)` and matches by address whenever an interface with it appears.  Every
    other kind is stored unchanged. -/
theorem resolve_addr_spec (a : Ip) (intfs : List Iface) :
    (∀ i, intfs.find? (·.ip == a) = some i →
      resolveAddr (.addr a) intfs = if isV4 a then .indexV4 (i.index.getD 0) else .indexV6 (i.index.getD 0)) ∧
    ((∀ i ∈ intfs, i.ip ≠ a) → resolveAddr (.addr a) intfs = .addr a) ∧
    (∀ k, (∀ b, k ≠ .addr b) → resolveAddr k intfs = k) := by
  refine ⟨?_, ?_, ?_⟩
  · intro i h
    simp [resolveAddr, h]
  · intro h
    have : intfs.find? (·.ip == a) = none := by
      rw [List.find?_eq_none]
      intro x hx
      simpa using h x hx
    simp [resolveAddr, this]
  · intro k hk
    cases k <;> simp [resolveAddr]
    exact absurd rfl (hk _)

/-- The subnet test is equality under the netmask, octet by octet: same family, and every
    octet of the address ANDed with the mask octet equals the interface address' octet ANDed
    with it. -/
theorem validIp_iff_bytes (addr ifIp mask : Ip) (hm : ifIp.length = mask.length) :
    validIpOnIntf addr ifIp mask = true ↔
      addr.length = ifIp.length ∧ List.zipWith (· &&& ·) addr mask = List.zipWith (· &&& ·) ifIp mask := by
  unfold validIpOnIntf
  simp only [Bool.and_eq_true, beq_iff_eq]
  constructor
  · rintro ⟨hl, he⟩
    refine ⟨hl, ?_⟩
    rw [beNat_and addr mask (by omega), beNat_and ifIp mask hm] at he
    exact beNat_inj _ _ (by simp [List.length_zipWith]; omega) he
  · rintro ⟨hl, he⟩
    refine ⟨hl, ?_⟩
    rw [beNat_and addr mask (by omega), beNat_and ifIp mask hm, he]

/-- For a netmask that is a prefix of `p` bits ("/p"), the test says exactly: same family and
    the leading `p` bits of the two addresses agree - the address lies in the interface's
    subnet.  (`bits` = 32 for IPv4, 128 for IPv6.) -/
theorem validIp_iff_same_subnet (addr ifIp mask : Ip) (p : Nat)
    (hl : addr.length = ifIp.length) (hp : p ≤ 8 * ifIp.length)
    (hmask : beNat mask = prefixMask (8 * ifIp.length) p) :
    validIpOnIntf addr ifIp mask = true ↔
      beNat addr / 2 ^ (8 * ifIp.length - p) = beNat ifIp / 2 ^ (8 * ifIp.length - p) := by
  unfold validIpOnIntf
  have h1 : beNat addr < 2 ^ (8 * ifIp.length) := by
    have := beNat_lt addr
    rwa [pow256, hl] at this
  have h2 : beNat ifIp < 2 ^ (8 * ifIp.length) := by
    have := beNat_lt ifIp
    rwa [pow256] at this
  simp only [hl, beq_self_eq_true, Bool.true_and, beq_iff_eq, hmask]
  rw [and_prefixMask _ p _ hp h1, and_prefixMask _ p _ hp h2]
  have hpos : 0 < 2 ^ (8 * ifIp.length - p) := Nat.two_pow_pos _
  constructor
  · intro h
    exact Nat.eq_of_mul_eq_mul_right hpos h
  · intro h
    rw [h]

/-- Different families are never on the same link. -/
theorem validIp_family (addr ifIp mask : Ip) (h : addr.length ≠ ifIp.length) :
    validIpOnIntf addr ifIp mask = false := by
  simp [validIpOnIntf, h]

/-- The addresses of a service used on an interface (for probing, announcing, answering,
    goodbye) are exactly its addresses of the wanted family that lie in the subnet of one of
    the interface's addresses - in the service's order, nothing added. -/
theorem addrsOnIntf_iff (v4 : Bool) (svc : List Ip) (ifAddrs : List (Ip × Ip)) (a : Ip) :
    a ∈ addrsOnIntf v4 svc ifAddrs ↔
      a ∈ svc ∧ isV4 a = v4 ∧ ∃ x ∈ ifAddrs, validIpOnIntf a x.1 x.2 = true := by
  simp [addrsOnIntf, List.mem_filter]

theorem addrsOnIntf_sublist (v4 : Bool) (svc : List Ip) (ifAddrs : List (Ip × Ip)) :
    (addrsOnIntf v4 svc ifAddrs).Sublist svc :=
  List.filter_sublist

/-! ## Non-vacuity -/

def eth0v4 : Iface := { name := [0x65, 0x74, 0x68, 0x30], index := some 2, ip := [192, 168, 1, 10], prefixLen := 24 }
def eth0v6 : Iface := { name := [0x65, 0x74, 0x68, 0x30], index := some 2,
                        ip := [0xfe, 0x80, 0, 0, 0, 0, 0, 0, 0, 0, 0, 0, 0, 0, 0, 1], prefixLen := 64 }
def lo : Iface := { name := [0x6C, 0x6F], index := some 1, ip := [127, 0, 0, 1], prefixLen := 8 }

/-- disable all, enable eth0, disable IPv6: only the IPv4 address of eth0 stays; the order
    matters (enable eth0 first and everything is off) -/
example : selectedMarks [(.all, false), (.name eth0v4.name, true), (.ipv6, false)] [eth0v4, eth0v6, lo]
    = [true, false, false] ∧
    selectedMarks [(.name eth0v4.name, true), (.all, false)] [eth0v4, eth0v6, lo] = [false, false, false] ∧
    selectedMarks [] [eth0v4, eth0v6, lo] = [true, true, true] := by decide

/-- an `Addr` selection made while the interface is present is stored by index and family -/
example : resolveAddr (.addr [192, 168, 1, 10]) [lo, eth0v4] = .indexV4 2 ∧
    resolveAddr (.addr [192, 168, 1, 10]) [lo] = .addr [192, 168, 1, 10] := by decide

/-- 192.168.1.20 is on 192.168.1.10/24, 192.168.2.20 is not; /23 would not take it either,
    /22 does -/
example : validIpOnIntf [192, 168, 1, 20] [192, 168, 1, 10] [255, 255, 255, 0] = true ∧
    validIpOnIntf [192, 168, 2, 20] [192, 168, 1, 10] [255, 255, 255, 0] = false ∧
    validIpOnIntf [192, 168, 2, 20] [192, 168, 1, 10] [255, 255, 254, 0] = false ∧
    validIpOnIntf [192, 168, 2, 20] [192, 168, 1, 10] [255, 255, 252, 0] = true ∧
    beNat [255, 255, 255, 0] = prefixMask 32 24 := by decide

example : addrsOnIntf true [[192, 168, 1, 20], [10, 0, 0, 1], eth0v6.ip]
    [([192, 168, 1, 10], [255, 255, 255, 0])] = [[192, 168, 1, 20]] := by decide

/-! ## The daemon-level monitor's notion of "enabled" -/

open Mdns.Driver.MonLink in
/-- What the monitor computes: interface index `idx` has an enabled address (of family `fam`,
    if given) exactly if the table holds an address with that index (and family) whose LAST
    matching selection in call order enables it - or that no selection matches. -/
theorem hasEnabled_iff (table : List Iface) (sels : List Selection) (idx : Nat) (fam : Option Bool) :
    hasEnabled table sels idx fam = true ↔
      ∃ i ∈ table, i.index = some idx ∧ (lastMatch sels i).getD true = true ∧
        (∀ v4, fam = some v4 → isV4ip i.ip = v4) := by
  unfold hasEnabled selected
  simp only [List.any_eq_true, Bool.and_eq_true, beq_iff_eq]
  constructor
  · rintro ⟨i, hi, ⟨h1, h2⟩, h3⟩
    refine ⟨i, hi, h1, h2, ?_⟩
    intro v4 hv
    subst hv
    simpa using h3
  · rintro ⟨i, hi, h1, h2, h3⟩
    refine ⟨i, hi, ⟨h1, h2⟩, ?_⟩
    cases fam with
    | none => rfl
    | some v4 => simpa using h3 v4 rfl

open Mdns.Driver.MonLink in
/-- `disable_interface(All)` as the last call leaves no interface enabled, whatever was
    selected before. -/
theorem disable_all_kills (table : List Iface) (sels : List Selection) (idx : Nat) (fam : Option Bool) :
    hasEnabled table (sels ++ [(.all, false)]) idx fam = false := by
  have : ∀ i, selected (sels ++ [(.all, false)]) i = false := by
    intro i
    have := last_match_wins sels [] (.all, false) i (by simp [IfKind.matches]) (by simp)
    simpa using this
  unfold hasEnabled
  simp [this]

open Mdns.Driver.MonLink in
/-- A call that does not match any address of an interface changes nothing for it. -/
theorem untouched_interface_stays (table : List Iface) (sels : List Selection) (s : Selection) (idx : Nat)
    (fam : Option Bool) (h : ∀ i ∈ table, i.index = some idx → s.1.matches i = false) :
    hasEnabled table (sels ++ [s]) idx fam = hasEnabled table sels idx fam := by
  unfold hasEnabled
  induction table with
  | nil => rfl
  | cons i rest ih =>
    have ih' := ih (fun j hj => h j (List.mem_cons_of_mem _ hj))
    simp only [List.any_cons]
    rw [ih']
    have hsel : i.index = some idx → selected (sels ++ [s]) i = selected sels i := by
      intro hx
      have hm := h i (List.mem_cons_self) hx
      unfold selected lastMatch
      simp [List.reverse_append, hm]
    by_cases hx : i.index = some idx
    · rw [hsel hx]
    · have : (i.index == some idx) = false := by simpa using hx
      simp [this]

/-- **The newest word on a kind is the only one that counts**: of two consecutive selections of
    the same kind only the second has an effect - so disabling and enabling again leaves every
    interface as a single enable would (nothing of the disable lingers), and repeating a
    selection changes nothing. -/
theorem same_kind_overrides (sels : List Selection) (k : IfKind) (b1 b2 : Bool) (i : Iface) :
    selected (sels ++ [(k, b1), (k, b2)]) i = selected (sels ++ [(k, b2)]) i := by
  unfold selected lastMatch
  by_cases hm : k.matches i = true
  · simp [List.reverse_append, hm]
  · have hm' : k.matches i = false := by simpa using hm
    simp [List.reverse_append, hm']

/-- ... for the whole interface table, in the code's own loop -/
theorem same_kind_overrides_marks (sels : List Selection) (k : IfKind) (b1 b2 : Bool) (intfs : List Iface) :
    selectedMarks (sels ++ [(k, b1), (k, b2)]) intfs = selectedMarks (sels ++ [(k, b2)]) intfs := by
  rw [selected_iff, selected_iff]
  exact List.map_congr_left fun i _ => same_kind_overrides sels k b1 b2 i

/-- **A selection speaks only for the interfaces it matches**: whatever was selected before, an
    interface the new selection does not match keeps its verdict, and one it matches gets the
    new verdict. -/
theorem new_selection_effect (sels : List Selection) (s : Selection) (i : Iface) :
    selected (sels ++ [s]) i = if s.1.matches i then s.2 else selected sels i := by
  unfold selected lastMatch
  by_cases hm : s.1.matches i = true
  · simp [List.reverse_append, hm]
  · have hm' : s.1.matches i = false := by simpa using hm
    simp [List.reverse_append, hm']

/-- a dual-stack eth0 and an IPv4-only eth1: disabling IPv4 leaves eth0 its IPv6 address and
    kills eth1; enabling eth1 by name afterwards revives it -/
example :
    let t : List Iface := [
      { name := [0x65], index := some 2, ip := [192, 168, 1, 10], prefixLen := 24 },
      { name := [0x65], index := some 2, ip := List.replicate 16 1, prefixLen := 64 },
      { name := [0x66], index := some 3, ip := [10, 0, 0, 5], prefixLen := 8 }]
    Mdns.Driver.MonLink.hasEnabled t [(.ipv4, false)] 2 none = true ∧
    Mdns.Driver.MonLink.hasEnabled t [(.ipv4, false)] 2 (some true) = false ∧
    Mdns.Driver.MonLink.hasEnabled t [(.ipv4, false)] 3 none = false ∧
    Mdns.Driver.MonLink.hasEnabled t [(.ipv4, false), (.name [0x66], true)] 3 none = true := by
  decide

end Mdns.Props.C18
